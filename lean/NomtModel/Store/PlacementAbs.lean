import NomtModel.Store.Placement
import NomtModel.Store.Crash
/-!
# From the real-trace monitor to the hypothesis of the crash theorem

`checkPlacement` (`Store/Placement.lean`) is evaluated by the driver on the REAL I/O trace of an operation and the
REAL pre-image of the directory.  This file links its acceptance to the hypothesis `EvPre` of the crash theorem
(`Store/Crash.lean`):

* `absEv` abstracts a concrete trace event (`IoEv`: kind / file / offset) to an event of the abstract disk
  (`NomtDisk.Ev`): page writes of `ln` / `bbn` / `ht` ↦ `Eff.page f (offset / PAGE)`, fsyncs ↦ `Ev.fsync`.  (The trace
  carries no contents: the content is a parameter; `AllowedPre` does not look at it.  WAL writes, the meta write and
  rollback-segment appends have no abstraction here — their clauses of `EvPre` need the contents.)
* `markReach` — "the independent decoder marks the page as node (1) / overflow page (2) / free-list page (3) and the
  page lies below the old allocation frontier" — is what `Params.reach` is instantiated with (`markParams`).
* `checkEv_ok_evPre`: an accepted pre-switch-over event abstracts to an `EvPre` event; `go_ok_evPre`: the same for
  every pre-switch-over event of an accepted trace.
-/
namespace Nomt.Store
open NomtDisk

def markReach (lnM bbnM : Array UInt8) (lnB bbnB : Nat) (f : File) (pn : Nat) : Prop :=
  (f = File.fLn ∧ pn < lnB ∧ (lnM[pn]! = 1 ∨ lnM[pn]! = 2 ∨ lnM[pn]! = 3)) ∨
  (f = File.fBbn ∧ pn < bbnB ∧ (bbnM[pn]! = 1 ∨ bbnM[pn]! = 2 ∨ bbnM[pn]! = 3))

instance (lnM bbnM : Array UInt8) (lnB bbnB : Nat) (f : File) (pn : Nat) :
    Decidable (markReach lnM bbnM lnB bbnB f pn) := by
  unfold markReach; exact inferInstance

section abs
variable {Content MetaRec WalRec LogRec TreeAbs : Type}

/-- abstraction of a concrete trace event -/
def absEv (content : IoEv → Content) (e : IoEv) : Option (Ev Content MetaRec WalRec LogRec) :=
  if e.kind = "Write" then
    if e.file = "ln" then some (.eff (.page File.fLn (e.offset / PAGE) (content e)))
    else if e.file = "bbn" then some (.eff (.page File.fBbn (e.offset / PAGE) (content e)))
    else if e.file = "ht" then some (.eff (.page File.fHt (e.offset / PAGE) (content e)))
    else none
  else if e.kind = "Fsync" then
    if e.file = "ln" then some (.fsync File.fLn)
    else if e.file = "bbn" then some (.fsync File.fBbn)
    else if e.file = "ht" then some (.fsync File.fHt)
    else if e.file = "wal" then some (.fsync File.fWal)
    else if e.file = "meta" then some (.fsync File.fMeta)
    else none
  else none

theorem pageCheck_ok_unmarked (what : String) (marks : Array UInt8) (bump : Nat) (st st' : PlacementStats) (e : IoEv)
    (h : pageCheck what marks bump st e = .ok st') :
    ¬ (e.offset / PAGE < bump ∧
       (marks[e.offset / PAGE]! = 1 ∨ marks[e.offset / PAGE]! = 2 ∨ marks[e.offset / PAGE]! = 3)) := by
  unfold pageCheck at h
  simp only at h
  split at h
  · cases h
  · split at h
    · cases h
    · split at h
      · rename_i hb; intro hc; exact absurd hb (Nat.not_le.mpr hc.1)
      · split at h
        · cases h
        · rename_i hm
          simp only [Bool.or_eq_true, beq_iff_eq, not_or] at hm
          rintro ⟨_, h1 | h2 | h3⟩
          · exact hm.1.1 h1
          · exact hm.1.2 h2
          · exact hm.2 h3

/-- an accepted `bbn` page write passes `pageCheck` and does not hit an unclaimed page below the frontier -/
theorem pageCheckBbn_ok (marks : Array UInt8) (bump : Nat) (st st' : PlacementStats) (e : IoEv)
    (h : pageCheckBbn marks bump st e = .ok st') :
    pageCheck "bbn" marks bump st e = .ok st' ∧
    ¬ (e.offset / PAGE ≠ 0 ∧ e.offset / PAGE < bump ∧ marks[e.offset / PAGE]! = 0) := by
  unfold pageCheckBbn at h
  simp only at h
  split at h
  · cases h
  · rename_i hc
    refine ⟨h, ?_⟩
    rintro ⟨h0, hlt, hz⟩
    apply hc
    simp [h0, hlt, hz]

theorem checkEv_ln (lnM bbnM : Array UInt8) (lnB bbnB lnS bbnS : Nat) (st st' : PlacementStats) (e : IoEv)
    (hk : e.kind = "Write") (hf : e.file = "ln") (h : checkEv lnM bbnM lnB bbnB lnS bbnS st e = .ok st') :
    ¬ markReach lnM bbnM lnB bbnB File.fLn (e.offset / PAGE) := by
  unfold checkEv at h
  simp only [hk, hf, beq_self_eq_true, Bool.and_self, if_true] at h
  cases hp : pageCheck "ln" lnM lnB { st with preMetaEvents := st.preMetaEvents + 1 } e with
  | error m => simp [hp, Except.map] at h
  | ok s =>
    have := pageCheck_ok_unmarked _ _ _ _ _ _ hp
    rintro (⟨_, h1⟩ | ⟨h2, _⟩)
    · exact this h1
    · cases h2

theorem checkEv_bbn (lnM bbnM : Array UInt8) (lnB bbnB lnS bbnS : Nat) (st st' : PlacementStats) (e : IoEv)
    (hk : e.kind = "Write") (hf : e.file = "bbn") (h : checkEv lnM bbnM lnB bbnB lnS bbnS st e = .ok st') :
    ¬ markReach lnM bbnM lnB bbnB File.fBbn (e.offset / PAGE) := by
  unfold checkEv at h
  have hne : ("bbn" == "ln") = false := by decide
  simp only [hk, hf, beq_self_eq_true, Bool.and_self, if_true, hne, Bool.and_false, Bool.false_eq_true, if_false] at h
  cases hp : pageCheckBbn bbnM bbnB { st with preMetaEvents := st.preMetaEvents + 1 } e with
  | error m => simp [hp, Except.map] at h
  | ok s =>
    have := pageCheck_ok_unmarked _ _ _ _ _ _ (pageCheckBbn_ok _ _ _ _ _ hp).1
    rintro (⟨h2, _⟩ | ⟨_, h1⟩)
    · cases h2
    · exact this h1

theorem checkEv_ht (lnM bbnM : Array UInt8) (lnB bbnB lnS bbnS : Nat) (st st' : PlacementStats) (e : IoEv)
    (hk : e.kind = "Write") (hf : e.file = "ht") (h : checkEv lnM bbnM lnB bbnB lnS bbnS st e = .ok st') : False := by
  unfold checkEv at h
  have h1 : ("ht" == "ln") = false := by decide
  have h2 : ("ht" == "bbn") = false := by decide
  have h3 : ("Write" == "SetLen") = false := by decide
  simp [hk, hf, h1, h2, h3] at h

/-- **monitor ⇒ hypothesis of the crash theorem, one event**: if the monitor accepts a pre-switch-over event and the
model's `reach` for the old meta is covered by the decoder's marks, the event's abstraction is an `EvPre` event. -/
theorem checkEv_ok_evPre (P : Params Content MetaRec WalRec TreeAbs) (d0 : Disk Content MetaRec WalRec LogRec)
    (lnM bbnM : Array UInt8) (lnB bbnB lnS bbnS : Nat)
    (hreach : ∀ f pn, P.reach d0.mt f pn → markReach lnM bbnM lnB bbnB f pn)
    (content : IoEv → Content) (st st' : PlacementStats) (e : IoEv)
    (h : checkEv lnM bbnM lnB bbnB lnS bbnS st e = .ok st')
    (ev : Ev Content MetaRec WalRec LogRec) (hev : absEv content e = some ev) : EvPre P d0 ev := by
  unfold absEv at hev
  by_cases hk : e.kind = "Write"
  · rw [if_pos hk] at hev
    by_cases hf : e.file = "ln"
    · rw [if_pos hf] at hev
      injection hev with hev; subst hev
      exact ⟨Or.inl rfl, fun hr => checkEv_ln lnM bbnM lnB bbnB lnS bbnS st st' e hk hf h (hreach _ _ hr)⟩
    · rw [if_neg hf] at hev
      by_cases hf2 : e.file = "bbn"
      · rw [if_pos hf2] at hev
        injection hev with hev; subst hev
        exact ⟨Or.inr rfl, fun hr => checkEv_bbn lnM bbnM lnB bbnB lnS bbnS st st' e hk hf2 h (hreach _ _ hr)⟩
      · rw [if_neg hf2] at hev
        by_cases hf3 : e.file = "ht"
        · exact (checkEv_ht lnM bbnM lnB bbnB lnS bbnS st st' e hk hf3 h).elim
        · rw [if_neg hf3] at hev; cases hev
  · rw [if_neg hk] at hev
    by_cases hk2 : e.kind = "Fsync"
    · rw [if_pos hk2] at hev
      -- every branch is an fsync
      have : ∃ f, ev = Ev.fsync f := by
        repeat' split at hev
        all_goals first | (injection hev with hev; exact ⟨_, hev.symm⟩) | cases hev
      obtain ⟨f, rfl⟩ := this
      trivial
    · rw [if_neg hk2] at hev; cases hev

/-- the part of a trace before the switch-over (the write of the meta page) -/
def preMeta (tr : List IoEv) : List IoEv :=
  tr.takeWhile (fun e => !(e.file == "meta" && e.kind == "Write"))

theorem go_ok_checkEv (img : Image) (m : Meta) (lnM bbnM : Array UInt8) :
    ∀ (tr : List IoEv) (st st' : PlacementStats), checkPlacement.go img m lnM bbnM tr st = .ok st' →
      ∀ e ∈ preMeta tr, ∃ s s', checkEv lnM bbnM m.lnBump m.bbnBump img.ln.size img.bbn.size s e = .ok s' := by
  intro tr
  induction tr with
  | nil => intro st st' _ e he; cases he
  | cons e0 tr ih =>
    intro st st' h e he
    unfold checkPlacement.go at h
    by_cases hm : (e0.file == "meta" && e0.kind == "Write") = true
    · have hnil : preMeta (e0 :: tr) = [] := by
        simp only [preMeta, List.takeWhile_cons, hm]; rfl
      rw [hnil] at he; cases he
    · simp only [hm, Bool.false_eq_true, if_false] at h
      have hm' : (e0.file == "meta" && e0.kind == "Write") = false := by simpa using hm
      simp only [preMeta, List.takeWhile_cons, hm', Bool.not_false, if_true, List.mem_cons] at he
      cases hc : checkEv lnM bbnM m.lnBump m.bbnBump img.ln.size img.bbn.size st e0 with
      | error msg => rw [hc] at h; cases h
      | ok s1 =>
        rw [hc] at h
        rcases he with rfl | he
        · exact ⟨st, s1, hc⟩
        · exact ih s1 st' h e he

/-- **monitor ⇒ hypothesis of the crash theorem, whole trace**: if the monitor's scan accepts a trace, the abstraction
of EVERY event before the switch-over is an `EvPre` event of the disk model whose `reach` is covered by the marks of
the independent decoder. -/
theorem go_ok_evPre (P : Params Content MetaRec WalRec TreeAbs) (d0 : Disk Content MetaRec WalRec LogRec)
    (img : Image) (m : Meta) (lnM bbnM : Array UInt8)
    (hreach : ∀ f pn, P.reach d0.mt f pn → markReach lnM bbnM m.lnBump m.bbnBump f pn)
    (content : IoEv → Content) (tr : List IoEv) (st st' : PlacementStats)
    (h : checkPlacement.go img m lnM bbnM tr st = .ok st') :
    ∀ ev ∈ (preMeta tr).filterMap (absEv content), EvPre P d0 ev := by
  intro ev hev
  obtain ⟨e, he, hab⟩ := List.mem_filterMap.mp hev
  obtain ⟨s, s', hc⟩ := go_ok_checkEv img m lnM bbnM tr st st' h e he
  exact checkEv_ok_evPre P d0 lnM bbnM _ _ _ _ hreach content s s' e hc ev hab

theorem checkPlacement_ok (img : Image) (tr : List IoEv) (st : PlacementStats) (h : checkPlacement img tr = .ok st) :
    ∃ m x lnM bbnM, imageMeta img = .ok m ∧ wfDetailM img = .ok (x, lnM, bbnM) ∧
      checkPlacement.go img m lnM bbnM tr {} = .ok st := by
  unfold checkPlacement at h
  cases h1 : imageMeta img with
  | error e => rw [h1] at h; cases h
  | ok m =>
    cases h2 : wfDetailM img with
    | error e => rw [h1, h2] at h; cases h
    | ok x =>
      obtain ⟨x, lnM, bbnM⟩ := x
      rw [h1, h2] at h
      exact ⟨m, x, lnM, bbnM, rfl, rfl, h⟩

end abs

/-! ## `Params` instantiated with the decoder's marks -/

/-- the old state as the independent decoder sees it -/
structure MarkMeta where
  lnM : Array UInt8
  bbnM : Array UInt8
  lnB : Nat
  bbnB : Nat
  seqn : Nat

/-- recovery's view of the tree := the contents of all pages the decoder marks as used below the frontier (the finest
abstraction with the frame property) -/
def markParams (Content : Type) : Params Content MarkMeta (Nat × List (Nat × Content)) (File → Nat → Option Content) where
  reach m := markReach m.lnM m.bbnM m.lnB m.bbnB
  absTree m p := fun f pn => if markReach m.lnM m.bbnM m.lnB m.bbnB f pn then some (p f pn) else none
  frame := by
    intro m p p' h
    funext f pn
    by_cases hr : markReach m.lnM m.bbnM m.lnB m.bbnB f pn
    · simp [hr, h f pn hr]
    · simp [hr]
  reach_tree := by
    intro m f pn h
    rcases h with h | h
    · exact Or.inl h.1
    · exact Or.inr h.1
  seqn m := m.seqn
  walSeqn w := w.1
  walDiffs w := w.2

/-! ## A tiny accepted trace (non-vacuity of the link) -/
namespace ToyTrace

/-- old state: `ln` page 1 is a leaf, page 2 is free, frontier 3; `bbn` has only the reserved page -/
def m : Meta where
  magic := 0
  version := 0
  lnFreelistPn := 0
  lnBump := 3
  bbnFreelistPn := 0
  bbnBump := 1
  syncSeqn := 1
  bitboxNumPages := 0
  seed0 := 0
  seed1 := 0
  rollbackStartLive := 0
  rollbackEndLive := 0
def img : Image where
  metaF := ByteArray.empty
  ln := ByteArray.empty
  bbn := ByteArray.empty
  ht := ByteArray.empty
  wal := ByteArray.empty
  segs := []
def lnM : Array UInt8 := #[0, 1, 4]
def bbnM : Array UInt8 := #[0]

/-- write the free page 2 and a page beyond the frontier, fsync `ln`, then the switch-over and a table write -/
def tr : List IoEv :=
  [{ kind := "Write", file := "ln", offset := 2 * PAGE, len := PAGE, site := "io.send" },
   { kind := "Write", file := "ln", offset := 5 * PAGE, len := PAGE, site := "io.send" },
   { kind := "Fsync", file := "ln", offset := 0, len := 0, site := "fsyncer" },
   { kind := "Write", file := "meta", offset := 0, len := PAGE, site := "meta.write" },
   { kind := "Write", file := "ht", offset := 7 * PAGE, len := PAGE, site := "io.send" }]

theorem accepted : (checkPlacement.go img m lnM bbnM tr {}).toBool = true := by decide

def d0 : Disk Nat MarkMeta (Nat × List (Nat × Nat)) Nat :=
  { pages := fun _ _ => 0, mt := ⟨lnM, bbnM, 3, 1, 1⟩, wal := none, log := [] }

/-- the abstraction of the pre-switch-over part of the trace (all page contents 0) -/
def absTr : List (Ev Nat MarkMeta (Nat × List (Nat × Nat)) Nat) :=
  (preMeta tr).filterMap (absEv (fun _ => (0 : Nat)))

theorem abstraction : absTr = [.eff (.page File.fLn 2 0), .eff (.page File.fLn 5 0), .fsync File.fLn] := by rfl

end ToyTrace

end Nomt.Store
