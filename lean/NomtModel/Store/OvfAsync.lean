import NomtModel.Store.OvfRead
/-!
# `AsyncReader` on a well-formed chain, under every schedule of its caller

The caller may `submit` whenever it likes and may deliver the completions of the outstanding requests in any order
(`Act`, `Run.step`).  `ARInv` is the invariant of the reader's state, `RunInv` adds the caller's outstanding requests.
`run_safe`: on a chain no schedule makes the (repaired) reader panic, every page it asks for exists, and whenever it
returns a value it is the value of the chain.  `submit_old_panics` is the defect F12: before the repair the sixteenth
`submit` of a caller that has not delivered a completion yet indexes past the 15 page numbers of the cell.
-/
namespace Nomt.Ovf
open Nomt.Wal (Bytes)

structure ARInv (σ : Store) (cell : List Nat) (parts : List Part) (r : AR) : Prop where
  total : r.total = parts.length
  vsz : r.valueSize = (flatB parts).length
  proc_le : r.proc ≤ parts.length
  proc_req : r.proc ≤ r.req
  req_le : r.req ≤ parts.length
  fst : r.pages.map (·.1) = cell ++ flatP (parts.take r.proc)
  val : r.value = flatB (parts.take r.proc)
  slot : ∀ i pn pg, r.pages[i]? = some (pn, some pg) → σ pn = some pg ∧ r.proc ≤ i ∧ i < r.req

theorem parts_split (parts : List Part) (p : Nat) (h : p < parts.length) :
    parts = parts.take p ++ parts[p] :: parts.drop (p + 1) := by
  rw [← List.drop_eq_getElem_cons h, List.take_append_drop]

theorem flatP_take_succ (parts : List Part) (p : Nat) (h : p < parts.length) :
    flatP (parts.take (p + 1)) = flatP (parts.take p) ++ parts[p].pns := by
  rw [List.take_add_one, List.getElem?_eq_getElem h, flatP_append]
  simp [flatP]

theorem flatB_take_succ (parts : List Part) (p : Nat) (h : p < parts.length) :
    flatB (parts.take (p + 1)) = flatB (parts.take p) ++ parts[p].bytes := by
  rw [List.take_add_one, List.getElem?_eq_getElem h, flatB_append]
  simp [flatB]

/-- the page waiting at `process_index` is the next page of the chain -/
theorem ARInv.page_at {σ : Store} {cell : List Nat} {parts : List Part} (hc : Chain σ cell parts) {r : AR}
    (h : ARInv σ cell parts r) (hp : r.proc < parts.length) {pn : Nat} {x : Option Bytes}
    (hs : r.pages[r.proc]? = some (pn, x)) :
    pn = parts[r.proc].pn ∧ ∀ pg, x = some pg → parsePage pg = some (parts[r.proc].pns, parts[r.proc].bytes) := by
  have hsplit := parts_split parts r.proc hp
  have hc' : Chain σ cell (parts.take r.proc ++ parts[r.proc] :: parts.drop (r.proc + 1)) := by
    rw [← hsplit]; exact hc
  have hk := hc'.getElem_known
  rw [List.length_take, Nat.min_eq_left (Nat.le_of_lt hp), ← h.fst] at hk
  rw [List.getElem?_map, hs] at hk
  simp only [Option.map_some, Option.some.injEq] at hk
  refine ⟨hk, ?_⟩
  rintro pg rfl
  obtain ⟨hσ, _, _⟩ := h.slot _ _ _ hs
  obtain ⟨pg', hpg', hparse⟩ := hc.pages parts[r.proc] (List.getElem_mem hp)
  rw [← hk, hσ] at hpg'
  cases hpg'
  exact hparse

theorem ARInv.proc_lt_pages {σ : Store} {cell : List Nat} {parts : List Part} (hc : Chain σ cell parts) {r : AR}
    (h : ARInv σ cell parts r) (hp : r.proc < parts.length) : r.proc < r.pages.length := by
  have := hc.known r.proc hp
  have hl := congrArg List.length h.fst
  simp only [List.length_map, List.length_append] at hl
  omega

/-- **`continue_parse` on a chain**: no panic; requests that are still outstanding stay ahead of `process_index` -/
theorem continueParse_inv {σ : Store} {cell : List Nat} {parts : List Part} (hc : Chain σ cell parts) :
    ∀ (fuel : Nat) (r : AR), ARInv σ cell parts r →
    ∃ r', AR.continueParse fuel r = some r' ∧ ARInv σ cell parts r' ∧ r'.req = r.req ∧
      (∀ i pn, r.pages[i]? = some (pn, none) → r.proc ≤ i → r'.pages[i]? = some (pn, none) ∧ r'.proc ≤ i)
  | 0, r, h => ⟨r, rfl, h, rfl, fun _ _ hs hi => ⟨hs, hi⟩⟩
  | fuel + 1, r, h => by
    by_cases hp : r.proc < r.total
    · have hp' : r.proc < parts.length := by rw [← h.total]; exact hp
      have hlt := h.proc_lt_pages hc hp'
      obtain ⟨⟨pn, x⟩, hs⟩ : ∃ e, r.pages[r.proc]? = some e := ⟨_, List.getElem?_eq_getElem hlt⟩
      obtain ⟨hpn, hparse⟩ := h.page_at hc hp' hs
      cases x with
      | none =>
        refine ⟨r, ?_, h, rfl, fun _ _ hs hi => ⟨hs, hi⟩⟩
        simp only [AR.continueParse, hp, if_true, hs]
      | some pg =>
        have hpp := hparse pg rfl
        obtain ⟨hσ, _, hreq⟩ := h.slot _ _ _ hs
        have hinv : ARInv σ cell parts
            { r with pages := r.pages.set r.proc (pn, none) ++ parts[r.proc].pns.map (fun q => (q, none)),
                     value := r.value ++ parts[r.proc].bytes, proc := r.proc + 1 } := by
          refine ⟨h.total, h.vsz, hp', hreq, h.req_le, ?_, ?_, ?_⟩
          · simp only [List.map_append, List.map_map]
            have hset : (r.pages.set r.proc (pn, none)).map (·.1) = r.pages.map (·.1) := by
              rw [List.map_set]
              apply List.ext_getElem?
              intro i
              rw [List.getElem?_set]
              split
              · rename_i hi; subst hi
                have := (List.getElem?_eq_some_iff.1 hs).2
                simp [List.getElem?_map, hlt, this]
              · rfl
            rw [hset, h.fst, flatP_take_succ parts r.proc hp']
            simp [Function.comp_def]
          · simp only [h.val, flatB_take_succ parts r.proc hp']
          · intro i pn' pg' hs'
            by_cases hi : i < r.pages.length
            · rw [List.getElem?_append_left (by simpa using hi), List.getElem?_set] at hs'
              split at hs'
              · simp [hlt] at hs'
              · rename_i hne
                obtain ⟨a, b, c⟩ := h.slot _ _ _ hs'
                exact ⟨a, by show r.proc + 1 ≤ i; omega, c⟩
            · rw [List.getElem?_append_right (by simp; omega)] at hs'
              simp only [List.length_set, List.getElem?_map] at hs'
              cases hq : parts[r.proc].pns[i - r.pages.length]? with
              | none => rw [hq] at hs'; simp at hs'
              | some q => rw [hq] at hs'; simp at hs'
        obtain ⟨r', hr', hinv', hreq', hpres⟩ := continueParse_inv hc fuel _ hinv
        refine ⟨r', ?_, hinv', hreq', ?_⟩
        · simp only [AR.continueParse, hp, if_true, hs, hpp]
          exact hr'
        · intro i pn' hs' hi
          have hne : i ≠ r.proc := by
            rintro rfl
            rw [hs] at hs'; simp at hs'
          have hil : i < r.pages.length := by
            by_cases hil : i < r.pages.length
            · exact hil
            · rw [List.getElem?_eq_none (by omega)] at hs'; simp at hs'
          exact hpres i pn' (by
            show (r.pages.set r.proc (pn, none) ++ _)[i]? = _
            rw [List.getElem?_append_left (by simpa using hil), List.getElem?_set]
            simp [Ne.symm hne, hs']) (by show r.proc + 1 ≤ i; omega)
    · exact ⟨r, by simp only [AR.continueParse, hp, if_false], h, rfl, fun _ _ hs hi => ⟨hs, hi⟩⟩

theorem length_flatP_take_le (parts : List Part) (p : Nat) :
    (flatP (parts.take p)).length ≤ (flatP parts).length := by
  conv => rhs; rw [← List.take_append_drop p parts]
  rw [flatP_append, List.length_append]; omega

/-- **`complete` of an outstanding request on a chain**: no panic; a returned value is the value of the chain -/
theorem complete_inv {σ : Store} {cell : List Nat} {parts : List Part} (hc : Chain σ cell parts) {r : AR}
    (h : ARInv σ cell parts r) {i pn : Nat} {page : Bytes} (hs : r.pages[i]? = some (pn, none))
    (hi : r.proc ≤ i) (hq : i < r.req) (hσ : σ pn = some page) :
    ∃ res r', r.complete i page = some (res, r') ∧ r'.req = r.req ∧
      (∀ j pn', j ≠ i → r.pages[j]? = some (pn', none) → r.proc ≤ j →
        r'.pages[j]? = some (pn', none) ∧ r'.proc ≤ j) ∧
      (match res with
        | some v => v = flatB parts ∧ r'.proc = parts.length ∧ r'.total = parts.length ∧ r.req = parts.length
        | none => ARInv σ cell parts r') := by
  have hil : i < r.pages.length := by
    by_cases hil : i < r.pages.length
    · exact hil
    · rw [List.getElem?_eq_none (by omega)] at hs; simp at hs
  -- the state after `self.pages[index].1 = Some(page)`
  have hinv1 : ARInv σ cell parts { r with pages := r.pages.set i (pn, some page) } := by
    refine ⟨h.total, h.vsz, h.proc_le, h.proc_req, h.req_le, ?_, h.val, ?_⟩
    · rw [← h.fst, List.map_set]
      apply List.ext_getElem?
      intro j
      rw [List.getElem?_set]
      split
      · rename_i hj; subst hj
        have := (List.getElem?_eq_some_iff.1 hs).2
        simp [List.getElem?_map, hil, this]
      · rfl
    · intro j pn' pg' hs'
      rw [List.getElem?_set] at hs'
      split at hs'
      · rename_i hj; subst hj
        simp only [hil, if_true, Option.some.injEq, Prod.mk.injEq] at hs'
        obtain ⟨rfl, hpg⟩ := hs'
        cases hpg
        exact ⟨hσ, hi, hq⟩
      · exact h.slot _ _ _ hs'
  have hpres1 : ∀ j pn', j ≠ i → r.pages[j]? = some (pn', none) →
      (r.pages.set i (pn, some page))[j]? = some (pn', none) := by
    intro j pn' hj hs'
    rw [List.getElem?_set]; simp [Ne.symm hj, hs']
  -- `continue_parse` if the completed page is the one waited for
  obtain ⟨r2, hr2, hinv2, hreq2, hpres2⟩ : ∃ r2,
      (if i = r.proc then AR.continueParse (r.total - r.proc) { r with pages := r.pages.set i (pn, some page) }
        else some { r with pages := r.pages.set i (pn, some page) }) = some r2 ∧
      ARInv σ cell parts r2 ∧ r2.req = r.req ∧
      (∀ j pn', j ≠ i → r.pages[j]? = some (pn', none) → r.proc ≤ j →
        r2.pages[j]? = some (pn', none) ∧ r2.proc ≤ j) := by
    by_cases hip : i = r.proc
    · obtain ⟨r2, hr2, hinv2, hreq2, hp2⟩ := continueParse_inv hc (r.total - r.proc) _ hinv1
      refine ⟨r2, by rw [if_pos hip]; exact hr2, hinv2, hreq2, ?_⟩
      intro j pn' hj hs' hpj
      exact hp2 j pn' (hpres1 j pn' hj hs') hpj
    · exact ⟨_, by rw [if_neg hip], hinv1, rfl, fun j pn' hj hs' hpj => ⟨hpres1 j pn' hj hs', hpj⟩⟩
  unfold AR.complete
  simp only [hs]
  rw [hr2]
  by_cases hdone : r2.proc = r2.total
  · have hpl : r2.proc = parts.length := by rw [hdone, hinv2.total]
    have hlen : r2.pages.length = r2.total := by
      have := congrArg List.length hinv2.fst
      rw [hpl, List.take_length, hc.links] at this
      simpa [hinv2.total] using this
    have hval : r2.value = flatB parts := by rw [hinv2.val, hpl, List.take_length]
    have hreq : r.req = parts.length := by
      have := hinv2.proc_req; have := hinv2.req_le; omega
    refine ⟨some r2.value, { r2 with value := [] }, ?_, hreq2, hpres2, hval, hpl, hinv2.total, hreq⟩
    simp only [hdone, if_true, hlen, ne_eq, not_true_eq_false, if_false, hval, hinv2.vsz]
  · exact ⟨none, r2, by simp only [hdone, if_false], hreq2, hpres2, hinv2⟩

/-- the repaired `submit` cannot panic in any state (it checks the index it uses) -/
theorem submit_fixed_some (r : AR) : ∃ res r', r.submit true = some (res, r') ∧
    (match res with
      | none => r' = r
      | some (i, pn) => i = r.req ∧ r' = { r with req := r.req + 1 } ∧ r.req ≠ r.total ∧ r.req < r.pages.length ∧
          ∃ x, r.pages[r.req]? = some (pn, x)) := by
  unfold AR.submit
  by_cases hg : r.req = r.total ∨ (true = true ∧ r.req ≥ r.pages.length)
  · exact ⟨none, r, by rw [if_pos hg], rfl⟩
  · rw [if_neg hg]
    have hlt : r.req < r.pages.length := by
      by_cases hlt : r.req < r.pages.length
      · exact hlt
      · exact absurd (Or.inr ⟨rfl, by omega⟩) hg
    have hne : r.req ≠ r.total := fun h => hg (Or.inl h)
    obtain ⟨⟨pn, x⟩, hs⟩ : ∃ e, r.pages[r.req]? = some e := ⟨_, List.getElem?_eq_getElem hlt⟩
    exact ⟨some (r.req, pn), _, by rw [hs], rfl, rfl, hne, hlt, x, hs⟩

/-! ## schedules -/

/-- the invariant of a caller's run: the reader is in a good state and every outstanding request waits in an empty
slot at or after `process_index`; or the value has been handed over and nothing is outstanding or left to request -/
def RunInv (σ : Store) (cell : List Nat) (parts : List Part) (s : Run) : Prop :=
  (ARInv σ cell parts s.ar ∧
    (∀ e ∈ s.out, s.ar.pages[e.1]? = some (e.2, none) ∧ s.ar.proc ≤ e.1 ∧ e.1 < s.ar.req) ∧
    (s.out.map (·.1)).Nodup) ∨
  (s.out = [] ∧ s.ar.req = s.ar.total)

/-- the events a run on a chain can show -/
def EvOK (parts : List Part) : Ev → Prop
  | .value _ v => v = flatB parts
  | .ioError _ => False
  | _ => True

theorem step_inv {σ : Store} {cell : List Nat} {parts : List Part} (hc : Chain σ cell parts) {s : Run}
    (h : RunInv σ cell parts s) (a : Act) :
    ∃ e s', s.step true σ a = some (e, s') ∧ RunInv σ cell parts s' ∧ EvOK parts e := by
  cases a with
  | submit =>
    obtain ⟨res, r', hsub, hres⟩ := submit_fixed_some s.ar
    cases res with
    | none =>
      subst hres
      exact ⟨.nothing, s, by simp only [Run.step, hsub], h, trivial⟩
    | some ipn =>
      obtain ⟨i, pn⟩ := ipn
      obtain ⟨rfl, rfl, hne, hlt, x, hsx⟩ := hres
      refine ⟨.submitted s.ar.req pn, { ar := { s.ar with req := s.ar.req + 1 }, out := s.out ++ [(s.ar.req, pn)] },
        by simp only [Run.step, hsub], ?_, trivial⟩
      rcases h with ⟨hinv, hout, hnd⟩ | ⟨_, hreq⟩
      · left
        have hx : x = none := by
          cases x with
          | none => rfl
          | some pg => have := (hinv.slot _ _ _ hsx).2.2; omega
        subst hx
        refine ⟨⟨hinv.total, hinv.vsz, hinv.proc_le, Nat.le_succ_of_le hinv.proc_req, ?_, hinv.fst, hinv.val, ?_⟩,
          ?_, ?_⟩
        · have := hinv.req_le; have := hinv.total; show s.ar.req + 1 ≤ parts.length; omega
        · intro j pn' pg' hs'
          obtain ⟨a, b, c⟩ := hinv.slot j pn' pg' hs'
          exact ⟨a, b, Nat.lt_succ_of_lt c⟩
        · intro e he
          rcases List.mem_append.1 he with he | he
          · obtain ⟨a, b, c⟩ := hout e he
            exact ⟨a, b, Nat.lt_succ_of_lt c⟩
          · simp only [List.mem_singleton] at he; subst he
            exact ⟨hsx, hinv.proc_req, Nat.lt_succ_self _⟩
        · rw [List.map_append, List.nodup_append]
          refine ⟨hnd, by simp, ?_⟩
          intro a ha b hb
          simp only [List.map_cons, List.map_nil, List.mem_singleton] at hb
          subst hb
          obtain ⟨e, he, rfl⟩ := List.mem_map.1 ha
          have := (hout e he).2.2
          omega
      · exact absurd hreq hne
  | complete j =>
    cases hget : s.out[j % s.out.length]? with
    | none => exact ⟨.idle, s, by simp only [Run.step, hget], h, trivial⟩
    | some e =>
      obtain ⟨i, pn⟩ := e
      have hmem : (i, pn) ∈ s.out := List.mem_of_getElem? hget
      rcases h with ⟨hinv, hout, hnd⟩ | ⟨hempty, _⟩
      · obtain ⟨hs, hpi, hiq⟩ := hout _ hmem
        -- the page exists: it is a page of the chain
        have hil : i < s.ar.pages.length := by
          by_cases hil : i < s.ar.pages.length
          · exact hil
          · rw [List.getElem?_eq_none (by omega)] at hs; simp at hs
        have hpn : ∃ page, σ pn = some page := by
          have hf := hinv.fst
          have hlink := hc.links
          have hi1 : (s.ar.pages.map (·.1))[i]? = some pn := by rw [List.getElem?_map, hs]; rfl
          rw [hf] at hi1
          have hsub : (cell ++ flatP parts)[i]? = some pn := by
            have hsplit : cell ++ flatP parts =
                (cell ++ flatP (parts.take s.ar.proc)) ++ flatP (parts.drop s.ar.proc) := by
              rw [List.append_assoc, ← flatP_append, List.take_append_drop]
            rw [hsplit, List.getElem?_append_left]
            · exact hi1
            · rw [← hf]; simpa using hil
          rw [hlink, List.getElem?_map] at hsub
          cases hp : parts[i]? with
          | none => rw [hp] at hsub; simp at hsub
          | some p =>
            rw [hp] at hsub
            simp only [Option.map_some, Option.some.injEq] at hsub
            obtain ⟨pg, hpg, _⟩ := hc.pages p (List.mem_of_getElem? hp)
            exact ⟨pg, by rw [← hsub]; exact hpg⟩
        obtain ⟨page, hpage⟩ := hpn
        obtain ⟨res, r', hcomp, hreq', hpres, hres⟩ := complete_inv hc hinv hs hpi hiq hpage
        have hfilter : ∀ e ∈ s.out.filter (fun e => e.1 != i), e ∈ s.out ∧ e.1 ≠ i := by
          intro e he
          have := List.mem_filter.1 he
          exact ⟨this.1, by simpa using this.2⟩
        cases res with
        | some v =>
          obtain ⟨hv, hproc, htot, hreqT⟩ := hres
          refine ⟨.value i v, { ar := r', out := s.out.filter (fun e => e.1 != i) },
            by simp only [Run.step, hget, hpage, hcomp], ?_, hv⟩
          right
          -- nothing can still be outstanding: every other outstanding index would be ≥ `total`
          refine ⟨?_, ?_⟩
          · apply List.eq_nil_iff_forall_not_mem.2
            intro e he
            obtain ⟨he1, hne⟩ := hfilter e he
            obtain ⟨a, b, c⟩ := hout e he1
            have := (hpres e.1 e.2 hne a b).2
            have := hinv.req_le
            omega
          · show r'.req = r'.total
            rw [hreq', htot]; exact hreqT
        | none =>
          have hinv' := hres
          refine ⟨.pending i, { ar := r', out := s.out.filter (fun e => e.1 != i) },
            by simp only [Run.step, hget, hpage, hcomp], ?_, trivial⟩
          left
          refine ⟨hinv', ?_, ?_⟩
          · intro e he
            obtain ⟨he1, hne⟩ := hfilter e he
            obtain ⟨a, b, c⟩ := hout e he1
            obtain ⟨a', b'⟩ := hpres e.1 e.2 hne a b
            exact ⟨a', b', by rw [hreq']; exact c⟩
          · exact (List.Nodup.sublist ((List.filter_sublist).map _) hnd)
      · rw [hempty] at hmem; simp at hmem

/-- **no schedule makes the reader panic on a chain**; every event is benign and a value, if one is returned, is the
value of the chain -/
theorem run_inv {σ : Store} {cell : List Nat} {parts : List Part} (hc : Chain σ cell parts) :
    ∀ (acts : List Act) (s : Run), RunInv σ cell parts s →
    ∃ evs s', Run.run true σ s acts = some (evs, s') ∧ RunInv σ cell parts s' ∧ ∀ e ∈ evs, EvOK parts e
  | [], s, h => ⟨[], s, rfl, h, by simp⟩
  | a :: acts, s, h => by
    obtain ⟨e, s1, hstep, hinv1, hev⟩ := step_inv hc h a
    obtain ⟨evs, s2, hrun, hinv2, hevs⟩ := run_inv hc acts s1 hinv1
    refine ⟨e :: evs, s2, by simp only [Run.run, hstep, hrun], hinv2, ?_⟩
    intro e' he'
    rcases List.mem_cons.1 he' with rfl | he'
    · exact hev
    · exact hevs e' he'

/-- `AsyncReader::new` on the cell of a chain -/
theorem new_inv {σ : Store} {cellPages : List Nat} {parts : List Part} (cell hash : Bytes) (vs : Nat)
    (hd : decodeCell cell = some (vs, hash, cellPages))
    (ht : parts.length = totalNeededPages vs) (hv : (flatB parts).length = vs) :
    ∃ r, AR.new cell = some r ∧ RunInv σ cellPages parts ⟨r, []⟩ := by
  refine ⟨(⟨[], cellPages.map (fun pn => (pn, none)), 0, 0, vs, totalNeededPages vs⟩ : AR),
    by simp only [AR.new, hd],
    Or.inl ⟨⟨ht.symm, hv.symm, Nat.zero_le _, Nat.le_refl _, Nat.zero_le _, ?_, by simp, ?_⟩, by simp, by simp⟩⟩
  · simp [Function.comp_def]
  · intro i pn pg hs
    simp only [List.getElem?_map] at hs
    cases hq : cellPages[i]? with
    | none => rw [hq] at hs; simp at hs
    | some q => rw [hq] at hs; simp at hs

/-! ## F12: the `submit` of the unrepaired code -/

/-- the cell of a value of 65 468 bytes (= 16 · 4092 − 4: sixteen pages, fifteen of them named in the cell) -/
def f12Cell : Bytes :=
  Nomt.Wal.leBytes 8 65468 ++ List.replicate 32 0 ++ (List.range 15).flatMap (fun i => Nomt.Wal.leBytes 4 (i + 1))

/-- `n` calls of `submit` without a completion in between -/
def submitN (fixed : Bool) : Nat → AR → Option AR
  | 0, r => some r
  | n + 1, r =>
    match r.submit fixed with
    | none => none
    | some (_, r') => submitN fixed n r'

/-- **F12 (kernel-checked)**: a caller that asks the unrepaired reader for sixteen pages before delivering the
first completion — what the rollback worker does for a value of more than 15 pages whose leaf is not cached — makes it
index `pages[15]` of a 15-element vector; the repaired `submit` answers `None` instead -/
theorem submit_old_panics :
    (AR.new f12Cell).bind (submitN false 16) = none ∧
    ((AR.new f12Cell).bind (submitN false 15)).isSome = true ∧
    ((AR.new f12Cell).bind (submitN true 16)).isSome = true := by decide

end Nomt.Ovf
