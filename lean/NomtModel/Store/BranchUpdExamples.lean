import NomtModel.Store.BranchUpdDec
import NomtModel.Store.BranchUpdKeys
/-!
# Branch stage: concrete levels for the non-vacuity examples and the counterexamples of `Props/C01_BranchUpdater.lean`,
`Props/C19_BranchRelease.lean`
-/
namespace Nomt.BranchUpd

/-- a node as `BranchNodeBuilder::new(n, n, prefix_len(first, last)) + push × n` writes it -/
def exNode (keys : List (Nat × Nat)) : Node :=
  let ks := keys.map (·.1)
  let pl := match ks with | [k] => kfReal.sl k | k :: r => kfReal.pl k (r.getLast?.getD k) | [] => 0
  ⟨pl, keys.length, keys.map fun (k, pn) => ⟨k, pn, kfReal.sl k - pl⟩⟩

def exKey (a b : Nat) : Nat := a * 2 ^ 248 + b * 2 ^ 200

/-- four small nodes -/
def exDb : List DbNode :=
  [⟨exKey 0 0, 1, exNode [(exKey 0 0, 10), (exKey 0 5, 11), (exKey 0 9, 12)]⟩,
   ⟨exKey 1 0, 2, exNode [(exKey 1 0, 20), (exKey 1 3, 21)]⟩,
   ⟨exKey 2 0, 3, exNode [(exKey 2 0, 30), (exKey 2 7, 31)]⟩,
   ⟨exKey 3 0, 4, exNode [(exKey 3 0, 40)]⟩]

/-- F22: the all-zero key in front of the small integers `1 … m` (prefix 249 bits, first separator 1 bit), and a key that
shares only 33 bits with them -/
def f22Db (m : Nat) : List DbNode :=
  [⟨0, 1, exNode ((List.range (m + 1)).map fun i => (i, 100 + i))⟩]

def f22Outsider : Nat := 2 ^ 222

/-- the keys of a cluster (254-bit shared prefix region) and a key far away, for the `Update` that collapses the prefix -/
def clKey (i : Nat) : Nat := 2 ^ 254 + 2 * i + 1
def clOutsider : Nat := 2 ^ 255 + 1

def clDb : List DbNode :=
  [⟨clKey 0, 1, exNode (((List.range 24).map fun i => (clKey (5 * i), 100 + i)) ++ [(clOutsider, 7)])⟩]

def clCs : List (Nat × Option Nat) :=
  ((List.range 120).filter (fun i => i % 5 ≠ 0)).map (fun i => (clKey i, some (1000 + i))) ++ [(clOutsider, some 8)]

/-- keys without a common prefix and with full-length separators: 38 bytes each in a node -/
def wideKey (i : Nat) : Nat := (i + 1) * 2 ^ 248 + 1

/-- the `(key, page number)` pairs of a level -/
def kps (out : List OutNode) : List (Nat × Nat) := (flatOut out).map fun e => (e.key, e.val)

end Nomt.BranchUpd
