import NomtModel.Store.LeafUpdRun
import NomtModel.Store.LeafUpdChain
/-!
# The leaf stage as a whole: `reset_leaf_base`, the scope loop, the change loop, the final merge loop
-/
namespace Nomt.LeafUpd
variable {V : Type} [CellSize V]

/-- the structural part of the run invariant -/
structure RS (KB : Nat) (r : Run V) : Prop where
  inv : Inv KB r.st
  rest : DbOK KB r.rest
  cut : r.st.cutoff = r.rest.head?.map (·.sep)
  basecut : ∀ b c, r.st.base = some b → r.st.cutoff = some c → b.sep < c

/-- what every leaf handed to `handle_new_leaf` satisfies: non-empty, not over-full, at least half full unless it is
handed the cutoff `None`, its separator at most its keys, its keys below the cutoff it is handed -/
def NewGood (l : Leaf V) : Prop :=
  l.ents ≠ [] ∧ bodyOf l.ents ≤ BODY ∧ (MERGE ≤ bodyOf l.ents ∨ l.cutoff = none) ∧
    (∀ e ∈ l.ents, l.sep ≤ e.key) ∧ (∀ c, l.cutoff = some c → ∀ e ∈ l.ents, e.key < c)

theorem SepChain.bounds : ∀ {leaves : List (Leaf V)} {lo lo' : Nat}, SepChain lo leaves lo' →
    ∀ l ∈ leaves, (∀ e ∈ l.ents, l.sep ≤ e.key) ∧ (∀ c, l.cutoff = some c → ∀ e ∈ l.ents, e.key < c) := by
  intro leaves
  induction leaves with
  | nil => intro lo lo' _ l hl; simp at hl
  | cons x xs ih =>
    intro lo lo' h l hl
    obtain ⟨a, b, s, c, d, e⟩ := h
    rcases List.mem_cons.1 hl with rfl | hl
    · refine ⟨by rw [a]; exact b, ?_⟩
      intro c' hc'; rw [d] at hc'; cases hc'; exact c
    · exact ih e l hl

theorem SepChainEnd.bounds {fin : Option Nat} : ∀ {leaves : List (Leaf V)} {lo : Nat}, SepChainEnd fin lo leaves →
    (∀ c, fin = some c → ∀ l ∈ leaves, ∀ e ∈ l.ents, e.key < c) →
    ∀ l ∈ leaves, (∀ e ∈ l.ents, l.sep ≤ e.key) ∧ (∀ c, l.cutoff = some c → ∀ e ∈ l.ents, e.key < c) := by
  intro leaves
  induction leaves with
  | nil => intro lo _ _ l hl; simp at hl
  | cons x xs ih =>
    intro lo h hfin l hl
    cases xs with
    | nil =>
      obtain ⟨a, b, c⟩ := h
      simp at hl; subst hl
      refine ⟨by rw [a]; exact b, ?_⟩
      intro c' hc'; rw [c] at hc'
      exact hfin c' hc' l (by simp)
    | cons y ys =>
      obtain ⟨a, b, s, c, d, e⟩ := h
      rcases List.mem_cons.1 hl with rfl | hl
      · refine ⟨by rw [a]; exact b, ?_⟩
        intro c' hc'; rw [d] at hc'; cases hc'; exact c
      · exact ih e (fun c' hc' l' hl' => hfin c' hc' l' (List.mem_cons_of_mem _ hl')) l hl

theorem digest_newGood {KB : Nat} {st st' : St V} {leaves : List (Leaf V)} {res : DigestResult}
    (hinv : Inv KB st) (o : DigestOut KB st st' leaves res) : ∀ l ∈ leaves, NewGood l := by
  intro l hl
  obtain ⟨s1, s2, s3⟩ := o.sizes l hl
  have hlt : ∀ c, st.cutoff = some c → ∀ l ∈ leaves, ∀ e ∈ l.ents, e.key < c := by
    intro c hc l' hl' e he
    apply hinv.hi c hc
    rw [← o.content_eq]
    exact List.mem_append_left _ (List.mem_flatMap.2 ⟨l', hl', he⟩)
  have hb : (∀ e ∈ l.ents, l.sep ≤ e.key) ∧ (∀ c, l.cutoff = some c → ∀ e ∈ l.ents, e.key < c) := by
    cases res with
    | finished => exact SepChainEnd.bounds (o.fin rfl).2.2.2 hlt l hl
    | needsMerge c => exact SepChain.bounds (o.merge c rfl).2.2.2.2.1 l hl
  exact ⟨s1, s2, s3, hb.1, hb.2⟩

/-! ## `reset_leaf_base` -/

theorem resetTo_spec (KB : Nat) (r : Run V) (key : Nat) (l0 : DbLeaf V) (rest0 : List (DbLeaf V))
    (hrest : r.rest = l0 :: rest0) (hdb : DbOK KB r.rest) (hl0 : l0.sep ≤ key) (hinv : Inv KB r.st)
    (hrn : restOf r.st.base = []) (hai : AllIns r.st.ops)
    (hbelow : ∀ e ∈ den r.st.base r.st.ops, e.key < l0.sep)
    (hmerge : den r.st.base r.st.ops ≠ [] → key = l0.sep ∧ r.st.sepOv.isSome = true) :
    ∃ skipped l rest', r.rest = skipped ++ l :: rest' ∧ (resetTo key r).rest = rest' ∧
      (resetTo key r).out = r.out ++ skipped.map .old ∧ (resetTo key r).log = r.log ∧
      RS KB (resetTo key r) ∧ content (resetTo key r).st = den r.st.base r.st.ops ++ l.ents ∧
      den (resetTo key r).st.base (resetTo key r).st.ops = den r.st.base r.st.ops ∧
      (resetTo key r).st.base.map (·.sep) = some l.sep ∧
      l.sep ≤ key ∧ (den r.st.base r.st.ops ≠ [] → skipped = []) ∧ (∀ e ∈ flat skipped, e.key < l.sep) ∧
      (resetTo key r).st.sepOv = r.st.sepOv := by
  rw [hrest] at hdb
  obtain ⟨skipped, l, rest', e1, e2, e3, e4, e5, e6, e7⟩ := skipTo_spec key rest0 l0 hdb hl0
  have hdbl : DbOK KB (l :: rest') := by rw [e2] at hdb; exact hdb.append_right
  have hleaf := hdbl.head
  have hres : resetTo key r = { r with st := resetBase r.st (some { ents := l.ents, sep := l.sep }) (rest'.head?.map (·.sep)), rest := rest', out := r.out ++ skipped.map .old } := by
    simp only [resetTo, hrest, e1]
  rw [hres]
  have hden : den (some ({ ents := l.ents, sep := l.sep } : Base V)) r.st.ops = den r.st.base r.st.ops :=
    den_allIns hai _ _
  have hcont : content (resetBase r.st (some { ents := l.ents, sep := l.sep }) (rest'.head?.map (·.sep))) =
      den r.st.base r.st.ops ++ l.ents := by
    simp only [content, resetBase, hden, restOf, List.drop_zero]
  have hcont0 : content r.st = den r.st.base r.st.ops := by simp [content, hrn]
  have hskip : den r.st.base r.st.ops ≠ [] → skipped = [] := by
    intro hne
    have hk := (hmerge hne).1
    cases rest0 with
    | nil =>
      cases skipped with
      | nil => rfl
      | cons s sk => simp at e2
    | cons n rest0' =>
      have := (hdb.1.2.2.2.2 n.sep rfl).1
      exact e6 n rfl (by omega)
  have hop_lt_l : ∀ e ∈ den r.st.base r.st.ops, e.key < l.sep := fun e he => by have := hbelow e he; omega
  refine ⟨skipped, l, rest', by rw [hrest, e2], rfl, rfl, rfl, ?_, hcont, hden, rfl, e3, hskip, e5, rfl⟩
  refine ⟨?_, hdbl.tail, rfl, ?_⟩
  rotate_left
  · intro b c hb hc
    simp only [resetBase] at hb hc
    cases hb
    exact (hleaf.2.2.2.2 c hc).1
  refine ⟨wf_allIns hai _, ?_, ?_, ?_, ?_, ?_, ?_, ?_, ?_, fun _ => rfl⟩
  · show r.st.gauge = gaugeOf (den (some _) r.st.ops)
    rw [hden]; exact hinv.gauge
  · intro b hb; simp [resetBase] at hb; subst hb; simp
  · rw [hcont]
    unfold Sorted
    rw [List.pairwise_append]
    refine ⟨by have := hinv.sorted; rw [hcont0] at this; exact this, hleaf.1, ?_⟩
    intro a ha b hb
    have := hop_lt_l a ha
    have := hleaf.2.2.2.1 b hb
    omega
  · rw [hcont]
    exact SizeOK.append (by have := hinv.size; rw [hcont0] at this; exact this) hleaf.2.1
  · rw [hcont]
    intro e he
    rcases List.mem_append.1 he with he | he
    · exact hinv.keys e (by rw [hcont0]; exact he)
    · exact hleaf.2.2.1 e he
  · rw [hcont]
    intro e he
    show separator (resetBase r.st _ _) ≤ e.key
    by_cases hne : den r.st.base r.st.ops = []
    · have hso := hinv.sepnil hne
      have : separator (resetBase r.st (some { ents := l.ents, sep := l.sep }) (rest'.head?.map (·.sep))) = l.sep := by
        simp [separator, resetBase, hso]
      rw [this]
      rw [hne] at he
      exact hleaf.2.2.2.1 e (by simpa using he)
    · obtain ⟨s, hs⟩ := Option.isSome_iff_exists.1 (hmerge hne).2
      have h1 : separator (resetBase r.st (some { ents := l.ents, sep := l.sep }) (rest'.head?.map (·.sep))) = s := by
        simp [separator, resetBase, hs]
      have h2 : separator r.st = s := by simp [separator, hs]
      rw [h1, ← h2]
      rcases List.mem_append.1 he with he | he
      · exact hinv.lo e (by rw [hcont0]; exact he)
      · obtain ⟨x, hx⟩ := List.exists_mem_of_ne_nil _ hne
        have := hinv.lo x (by rw [hcont0]; exact hx)
        have := hop_lt_l x hx
        have := hleaf.2.2.2.1 e he
        omega
  · intro c hc e he
    rw [hcont] at he
    simp only [resetBase] at hc
    have hlc := hleaf.2.2.2.2 c hc
    rcases List.mem_append.1 he with he | he
    · have := hop_lt_l e he; omega
    · exact hlc.2 e he
  · intro hn
    show r.st.sepOv = none
    simp only [resetBase] at hn
    rw [hden] at hn
    exact hinv.sepnil hn

/-! ## one `digest` + `reset_leaf_base` -/

def keyOf (res : DigestResult) (k : Nat) : Nat :=
  match res with
  | .needsMerge c => c
  | .finished => k

structure StepOut (KB : Nat) (r r2 : Run V) (c k : Nat) : Prop where
  rs : RS KB r2
  shorter : r2.rest.length < r.rest.length
  log : r2.log = r.log
  content_eq : flatOut r2.out ++ (content r2.st ++ flat r2.rest) = flatOut r.out ++ (content r.st ++ flat r.rest)
  dropped : ∃ P, content r.st ++ flat r.rest = P ++ (content r2.st ++ flat r2.rest) ∧ ∀ e ∈ P, e.key < k
  ops_below : ∀ e ∈ den r2.st.base r2.st.ops, e.key < c
  out_below : ∀ e ∈ flatOut r2.out, e ∈ flatOut r.out ∨ e.key < k
  base_le : ∀ b, r2.st.base = some b → b.sep ≤ k
  news : ∀ l, OutLeaf.new l ∈ r2.out → OutLeaf.new l ∈ r.out ∨ NewGood l
  chain : OutUpTo r.out (separator r.st) → OutUpTo r2.out (separator r2.st)

theorem step_spec (sepf : Nat → Nat → Option Nat) (KB : Nat) (hsep : SepOK sepf KB) (r : Run V) (hrs : RS KB r)
    (c : Nat) (hc : r.st.cutoff = some c) (k : Nat) (hck : c ≤ k) :
    ∃ st' leaves res, digest sepf r.st = some (st', leaves, res) ∧ DigestOut KB r.st st' leaves res ∧
      StepOut KB r (resetTo (keyOf res k) { r with st := st', out := r.out ++ leaves.map .new }) c k := by
  obtain ⟨st', leaves, res, ed, o⟩ := digest_spec sepf KB hsep r.st hrs.inv
  refine ⟨st', leaves, res, ed, o, ?_⟩
  -- the next leaf
  have hcut := hrs.cut
  rw [hc] at hcut
  obtain ⟨l0, rest0, hrest, hl0⟩ : ∃ l0 rest0, r.rest = l0 :: rest0 ∧ l0.sep = c := by
    cases hr : r.rest with
    | nil => rw [hr] at hcut; simp at hcut
    | cons l0 rest0 => rw [hr] at hcut; simp at hcut; exact ⟨l0, rest0, rfl, hcut.symm⟩
  have hsub : ∀ e ∈ den st'.base st'.ops, e ∈ content r.st := fun e he => by
    rw [← o.content_eq]; exact List.mem_append_right _ he
  have hleafsub : ∀ e ∈ leaves.flatMap (·.ents), e ∈ content r.st := fun e he => by
    rw [← o.content_eq]; exact List.mem_append_left _ he
  have hlt : ∀ e ∈ content r.st, e.key < c := hrs.inv.hi c hc
  have hkey : l0.sep ≤ keyOf res k ∧ keyOf res k ≤ k ∧
      (den st'.base st'.ops ≠ [] → keyOf res k = l0.sep ∧ st'.sepOv.isSome = true) ∧ AllIns st'.ops := by
    cases res with
    | finished =>
      obtain ⟨h1, _, _, _⟩ := o.fin rfl
      refine ⟨by simp [keyOf]; omega, by simp [keyOf], ?_, by rw [h1]; intro op h; simp at h⟩
      intro hne; rw [h1] at hne; simp at hne
    | needsMerge c' =>
      obtain ⟨h1, h2, _, _, _, h6⟩ := o.merge c' rfl
      have : c' = c := by rw [hc] at h1; exact (Option.some.inj h1).symm
      subst this
      refine ⟨by simp [keyOf]; omega, by simp [keyOf]; omega, ?_, h2⟩
      intro _; exact ⟨by simp [keyOf]; omega, by rw [h6]; rfl⟩
  obtain ⟨hk1, hk2, hk3, hk4⟩ := hkey
  obtain ⟨skipped, l, rest', f1, f2, f3, f4, f5, f6, f7, f8, f9, f10, f11, f12⟩ :=
    resetTo_spec KB ({ r with st := st', out := r.out ++ leaves.map .new } : Run V) (keyOf res k) l0 rest0 hrest
      (by exact hrs.rest) hk1 o.inv o.rest_nil hk4 (fun e he => by have := hlt e (hsub e he); omega) hk3
  generalize hr2 : resetTo (keyOf res k) ({ r with st := st', out := r.out ++ leaves.map .new } : Run V) = r2
    at f2 f3 f4 f5 f6 f7 f8 f12
  simp only at f1 f3 f4 f12
  have hflat : flat r.rest = flat skipped ++ (l.ents ++ flat rest') := by rw [f1]; simp
  have hcase : den st'.base st'.ops = [] ∨ skipped = [] := by
    by_cases h : den st'.base st'.ops = []
    · exact Or.inl h
    · exact Or.inr (f10 h)
  have hout : flatOut r2.out = flatOut r.out ++ (leaves.flatMap (·.ents) ++ flat skipped) := by
    rw [f3]; simp [flatOut_new, flatOut_old]
  have hsk_lt : ∀ e ∈ flat skipped, e.key < k := fun e he => by have := f11 e he; omega
  refine ⟨f5, by rw [f2, f1]; simp; omega, f4, ?_, ?_, ?_, ?_, ?_, ?_, ?_⟩
  · rw [hout, f6, f2, hflat, ← o.content_eq]
    rcases hcase with h | h
    · rw [h]; simp
    · rw [h]; simp
  · refine ⟨leaves.flatMap (·.ents) ++ flat skipped, ?_, ?_⟩
    · rw [f6, f2, hflat, ← o.content_eq]
      rcases hcase with h | h
      · rw [h]; simp
      · rw [h]; simp
    · intro e he
      rcases List.mem_append.1 he with he | he
      · have := hlt e (hleafsub e he); omega
      · exact hsk_lt e he
  · intro e he; rw [f7] at he; exact hlt e (hsub e he)
  · intro e he
    rw [hout] at he
    rcases List.mem_append.1 he with he | he
    · exact Or.inl he
    · right
      rcases List.mem_append.1 he with he | he
      · have := hlt e (hleafsub e he); omega
      · exact hsk_lt e he
  · intro b hb
    rw [hb] at f8; simp at f8; omega
  · intro x hx
    rw [f3] at hx
    rcases List.mem_append.1 hx with hx | hx
    · rcases List.mem_append.1 hx with hx | hx
      · exact Or.inl hx
      · right
        obtain ⟨y, hy, hyx⟩ := List.mem_map.1 hx
        have : y = x := by cases hyx; rfl
        subst this
        exact digest_newGood hrs.inv o y hy
    · obtain ⟨y, _, hyx⟩ := List.mem_map.1 hx
      cases hyx

  · -- the separators
    intro hch
    have hsep2 : ∀ (x : Option Nat), r2.st.sepOv = x → separator r2.st = x.getD l.sep := by
      intro x hx
      unfold separator
      rw [hx]
      cases x with
      | some s => rfl
      | none =>
        cases hb2 : r2.st.base with
        | none => rw [hb2] at f8; simp at f8
        | some b2 => rw [hb2] at f8; simp at f8; simp [f8]
    have hdbr : DbOK KB (skipped ++ l :: rest') := by rw [← f1]; exact hrs.rest
    obtain ⟨oo1, oo2⟩ := outUpTo_olds skipped (l :: rest') l.sep hdbr (Or.inl rfl)
    have hnext : nextSep (skipped.map .old) l.sep = c := by
      cases hsk : skipped with
      | nil =>
        rw [hsk] at f1
        simp at f1
        rw [hrest] at f1
        simp only [List.map_nil, nextSep]
        have : l0 = l := (List.cons.inj f1).1
        rw [← this, hl0]
      | cons a sk' =>
        have := oo2 a (by rw [hsk]; rfl)
        rw [hsk] at this f1
        rw [this]
        rw [hrest] at f1
        have : l0 = a := (List.cons.inj f1).1
        rw [← this, hl0]
    rw [f3]
    cases res with
    | finished =>
      obtain ⟨_, _, hso, hce⟩ := o.fin rfl
      have hs2 : separator r2.st = l.sep := by
        have := hsep2 none (by rw [f12]; exact hso)
        simpa using this
      rw [hs2]
      apply OutUpTo.append hnext oo1
      by_cases hle : leaves = []
      · subst hle
        simp only [List.map_nil, List.append_nil]
        -- nothing was produced: the bound moves from the old separator to the cutoff
        refine OutUpTo.mono ?_ hch
        cases hso' : r.st.sepOv with
        | some s =>
          have hne : den r.st.base r.st.ops ≠ [] := by
            intro h; have := hrs.inv.sepnil h; rw [hso'] at this; cases this
          obtain ⟨e, he⟩ := List.exists_mem_of_ne_nil _ hne
          have h1 := hrs.inv.lo e (by simp [content, he])
          have h2 := hlt e (by simp [content, he])
          omega
        | none =>
          cases hb : r.st.base with
          | none => simp [separator, hso', hb]
          | some b =>
            have := hrs.basecut b c hb hc
            simp [separator, hso', hb]; omega
      · rw [hc] at hce
        obtain ⟨q1, q2⟩ := outUpTo_of_sepChainEnd (c := c) hce
          (fun l' hl' e he => hlt e (hleafsub e (List.mem_flatMap.2 ⟨l', hl', he⟩))) hle
        exact OutUpTo.append q2 q1 hch
    | needsMerge c' =>
      obtain ⟨_, _, hne, _, hchain, hso⟩ := o.merge c' rfl
      have hskn : skipped = [] := f10 hne
      have hs2 : separator r2.st = separator st' := by
        have := hsep2 (some (separator st')) (by rw [f12]; exact hso)
        simpa using this
      rw [hs2, hskn]
      simp only [List.map_nil, List.append_nil]
      obtain ⟨q1, q2⟩ := outUpTo_of_sepChain hchain
      exact OutUpTo.append q2 q1 hch

end Nomt.LeafUpd