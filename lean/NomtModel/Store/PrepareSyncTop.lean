import NomtModel.Store.PrepareSyncTable
/-!
# `prepare_sync` as a whole: what a successful call returned

`prepareSync_ok`: a successful call is `reset`, a chain of loop steps, the meta pages of `changed_meta_pages`, the debug
block, `finalize`; its blob is `encode seqn (entriesOf changes cells)`; the returned list is a permutation of
`htCanon` (data pages of the updated pages, then the changed meta pages).
-/
namespace Nomt.PrepSync
open Nomt Nomt.Wal Nomt.Store Nomt.Store.Probe

/-! ## sorting -/

theorem insKey_perm {α : Type} (x : Nat × α) : ∀ l : List (Nat × α), (insKey x l).Perm (x :: l) := by
  intro l
  induction l with
  | nil => exact List.Perm.refl _
  | cons y r ih =>
    simp only [insKey]
    split
    · exact List.Perm.refl _
    · exact (List.Perm.cons y ih).trans (List.Perm.swap x y r)

theorem sortKey_perm {α : Type} : ∀ l : List (Nat × α), (sortKey l).Perm l := by
  intro l
  induction l with
  | nil => exact List.Perm.refl _
  | cons x r ih => exact (insKey_perm x _).trans (List.Perm.cons x ih)

theorem sortNat_perm (l : List Nat) : (sortNat l).Perm l := by
  unfold sortNat
  have := (sortKey_perm (l.map (fun x => (x, ())))).map (·.1)
  rw [List.map_map] at this
  have e : ((fun x : Nat × Unit => x.1) ∘ fun x : Nat => (x, ())) = id := rfl
  rw [e, List.map_id] at this
  exact this

theorem debugBlock_perm {debug : Bool} {l r : List (Nat × Bytes)} (h : debugBlock debug l = .ok r) : r.Perm l := by
  unfold debugBlock at h
  by_cases hd : debug = true
  · simp only [hd, if_true] at h
    split at h
    · injection h with h; rw [← h]; exact sortKey_perm l
    · cases h
  · simp only [hd, Bool.false_eq_true, if_false] at h
    injection h with h; rw [h]

/-- without two equal neighbours `dedup_by_key` removes nothing -/
theorem dedupKey_of_chain {α : Type} : ∀ (l : List (Nat × α)), (l.map (·.1)).Nodup → dedupKey l = l := by
  intro l
  induction l with
  | nil => intro _; simp [dedupKey]
  | cons x r ih =>
    intro hn
    cases r with
    | nil => simp [dedupKey]
    | cons y r' =>
      simp only [List.map_cons, List.nodup_cons, List.mem_cons, not_or] at hn
      have hne : ¬ x.1 = y.1 := hn.1.1
      rw [dedupKey]
      simp only [hne, if_false]
      rw [ih (by simp only [List.map_cons, List.nodup_cons]; exact hn.2)]

/-- the debug block does not fire when the page numbers are pairwise distinct -/
theorem debugBlock_total (debug : Bool) {l : List (Nat × Bytes)} (h : (l.map (·.1)).Nodup) :
    ∃ r, debugBlock debug l = .ok r := by
  unfold debugBlock
  by_cases hd : debug = true
  · simp only [hd, if_true]
    have hp := sortKey_perm l
    have hn : ((sortKey l).map (·.1)).Nodup := (hp.map (·.1)).nodup_iff.2 h
    rw [dedupKey_of_chain _ hn, hp.length_eq]
    exact ⟨sortKey l, by simp⟩
  · simp only [hd, Bool.false_eq_true, if_false]
    exact ⟨_, rfl⟩

/-! ## meta pages, data pages -/

theorem metaPages_eq {mm : MetaMap} : ∀ {C : List Nat} {mp : List (Nat × Bytes)}, metaPages mm C = .ok mp →
    mp = C.map (fun p => (p, slice mm.bitvec (p * 4096) 4096)) := by
  intro C
  induction C with
  | nil => intro mp h; simp only [metaPages] at h; injection h with h; rw [← h]; rfl
  | cons p ps ih =>
    intro mp h
    simp only [metaPages] at h
    unfold MetaMap.pageSlice at h
    by_cases hb : p * 4096 + 4096 ≤ mm.bitvec.length
    · simp only [hb, if_true] at h
      cases hr : metaPages mm ps with
      | ok r =>
        rw [hr] at h
        injection h with h
        rw [← h, ih hr]; rfl
      | err e => rw [hr] at h; cases h
      | panic s => rw [hr] at h; cases h
    · simp only [hb, if_false] at h; cases h

theorem metaPages_total {mm : MetaMap} : ∀ {C : List Nat}, (∀ p ∈ C, p * 4096 + 4096 ≤ mm.bitvec.length) →
    ∃ mp, metaPages mm C = .ok mp := by
  intro C
  induction C with
  | nil => intro _; exact ⟨[], rfl⟩
  | cons p ps ih =>
    intro h
    obtain ⟨r, hr⟩ := ih (fun q hq => h q (List.mem_cons_of_mem _ hq))
    have hb := h p (List.mem_cons_self ..)
    exact ⟨(p, slice mm.bitvec (p * 4096) 4096) :: r, by simp only [metaPages, MetaMap.pageSlice, hb, if_true, hr]⟩

theorem dataPages_eq (off : Nat) : ∀ (ds : List Dirty) (bs : List Nat),
    Chain.dataPages off ds bs = (ups ds bs).map (fun x => (off + x.1, x.2.page)) := by
  intro ds
  induction ds with
  | nil => intro bs; cases bs <;> rfl
  | cons d ds ih =>
    intro bs
    cases bs with
    | nil => rfl
    | cons b bs =>
      simp only [Chain.dataPages, ups, List.map_append, ih]
      split <;> rfl

/-! ## a successful call -/

/-- the initial state of the loop -/
def acc0 (S : St) (w0 : Builder) : Acc :=
  { mm := S.mm, changed := [], ht := [], cache := [], delta := 0, wal := w0, cells := [] }

theorem prepareSync_ok {hash : Bytes → Nat} {debug : Bool} {S : St} {seqn : Nat} {ds : List Dirty} {b0 : Builder} {res : Res}
    (hp : ∀ d ∈ ds, d.page.length = PAGE_SIZE) (h : prepareSync hash debug S seqn ds b0 = .ok res) :
    ∃ w0 a cs mp, Chain hash (dataOffset S.mm.buckets) (acc0 S w0) ds res.cells cs a ∧
      b0.run seqn (entriesOf ds res.cells) = .ok res.wal ∧
      metaPages a.mm (sortNat a.changed) = .ok mp ∧
      res.ht.Perm (a.ht ++ mp) ∧ res.mm = a.mm ∧ res.occupied = applyDelta S.occupied a.delta ∧ res.cache = a.cache := by
  unfold prepareSync at h
  cases h0 : liftW (b0.reset seqn) with
  | err e => rw [h0] at h; cases h
  | panic s => rw [h0] at h; cases h
  | ok w0 =>
    rw [h0] at h
    simp only at h
    cases hl : loop hash (dataOffset S.mm.buckets)
        { mm := S.mm, changed := [], ht := [], cache := [], delta := 0, wal := w0, cells := [] } ds with
    | err e => rw [hl] at h; cases h
    | panic s => rw [hl] at h; cases h
    | ok a =>
      rw [hl] at h
      simp only at h
      cases hm : metaPages a.mm (sortNat a.changed) with
      | err e => rw [hm] at h; cases h
      | panic s => rw [hm] at h; cases h
      | ok mp =>
        rw [hm] at h
        simp only at h
        cases hd : debugBlock debug (a.ht ++ mp) with
        | err e => rw [hd] at h; cases h
        | panic s => rw [hd] at h; cases h
        | ok ht =>
          rw [hd] at h
          simp only at h
          cases hf : liftW a.wal.finalize with
          | err e => rw [hf] at h; cases h
          | panic s => rw [hf] at h; cases h
          | ok w =>
            rw [hf] at h
            injection h with h
            subst h
            obtain ⟨bs, cs, hch⟩ := loop_chain ds _ _ hp hl
            have hcells : a.cells = bs := by
              have := hch.cells_eq
              simpa using this
            have hwal := hch.wal_eq
            refine ⟨w0, a, cs, mp, by rw [hcells]; exact hch, ?_, hm, debugBlock_perm hd, rfl, rfl, rfl⟩
            simp only [Builder.run, liftW_ok h0, bind_ok, hcells]
            simp only at hwal
            rw [hwal]
            exact liftW_ok hf

end Nomt.PrepSync
