import NomtModel.Store.CacheModel
import NomtModel.Store.CacheLruLemmas
/-!
# `PageSet`: the working map shadows the warmed-up map; `contains` sees the working map only
-/
namespace Nomt.Cache
namespace PageSet
variable {P O : Type}

theorem get_insert_self (s : PageSet P O) (id : PageId) (p : P) (o : O) : (s.insert id p o).get id = some (p, o) := by
  simp [get, insert]

theorem get_insert_ne (s : PageSet P O) {id k : PageId} (h : k ≠ id) (p : P) (o : O) :
    (s.insert id p o).get k = s.get k := by
  have hne : id ≠ k := fun e => h e.symm
  simp only [get, insert, Lru.find?_cons_ne hne, Lru.find?_erase_ne _ h]

theorem contains_insert_self (s : PageSet P O) (id : PageId) (p : P) (o : O) : (s.insert id p o).contains id = true := by
  simp [contains, insert]

/-- a fresh set over a frozen one reads exactly what the frozen one had inserted -/
theorem get_new_freeze (s : PageSet P O) (id : PageId) :
    (new (some s.freeze)).get id = Lru.find? s.map id := by
  simp only [get, new, freeze, Lru.find?_nil]

theorem contains_new (w : Option (List (PageId × (P × O)))) (id : PageId) : (new w).contains id = false := rfl

end PageSet
end Nomt.Cache
