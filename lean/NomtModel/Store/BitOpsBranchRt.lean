import NomtModel.Store.BranchRt
import NomtModel.Store.BitOpsNode
/-!
# Round trip builder → `get_key`

A branch page built by the mirror of `BranchNodeBuilder::new / push` (`encodeBranch`, Store/BranchRt.lean) and read
back through the mirror of the REAL read path `get_key` = `raw_prefix` + `raw_separator` + `reconstruct_key`
(+ `bitwise_memcpy`): every separator comes back as the key that was pushed.  (The existing `T16_rt_branch` reads
the page back with the specification-level decoder `decodeBranch`; this is the same statement for the code path.)
-/
namespace Nomt.Store
open Nomt.BitOps

/-- the page as the byte list the `bit_ops` mirror works on -/
def pageNats (x : BranchIn) : List Nat := (encodeBranchL x).map (·.toNat)

/-- a 256-bit key (a number) as 32 big-endian bytes -/
def keyBytes (k : Nat) : List Nat := bytesOfBits (keyBit k) 32

theorem keyBit_eq_testBit (k j : Nat) : keyBit k j = k.testBit (255 - j) := by
  unfold keyBit
  rw [Nat.testBit_eq_decide_div_mod_eq]
  cases h : decide (k / 2 ^ (255 - j) % 2 = 1) <;> simp_all

section
variable (x : BranchIn) (F : BranchFacts x)

theorem getD_pageNats (i : Nat) : (pageNats x).getD i 0 = u8 (encodeBranch x) i := by
  unfold pageNats encodeBranch
  rw [u8_toByteArray, List.getD_eq_getElem?_getD, List.getD_eq_getElem?_getD, List.getElem?_map]
  cases (encodeBranchL x)[i]? <;> simp

theorem bytes_pageNats : Bytes (pageNats x) := by
  intro b hb
  unfold pageNats at hb
  obtain ⟨u, _, rfl⟩ := List.mem_map.mp hb
  exact u.toNat_lt

include F in
theorem length_pageNats : (pageNats x).length = 4096 := by
  have := size_encodeBranch x F
  unfold encodeBranch at this
  rw [List.size_toByteArray] at this
  unfold pageNats
  rw [List.length_map, this]; rfl

include F in
theorem u16At_pageNats (o : Nat) (ho : o + 2 ≤ 4096) : u16At (pageNats x) o = some (u16le (encodeBranch x) o) := by
  unfold u16At
  rw [length_pageNats x F, if_pos ho, getD_pageNats, getD_pageNats]
  rfl

/-- the bit vector of the page (after header and cells) is `branchBits` -/
theorem bitOf_pageNats (q : Nat) (hq : q < 8 * (PAGE - BRANCH_HEADER - 6 * x.items.length)) :
    bitOf (pageNats x) (8 * (10 + 2 * x.items.length) + q) = (branchBits x).getD q false := by
  have h := bitAt_packBits (branchHead x) ((x.items.map (·.pn)).flatMap le32) (branchBits x)
    (PAGE - BRANCH_HEADER - 6 * x.items.length) q hq
  rw [← encodeBranchL_split, length_branchHead] at h
  rw [← h]
  unfold bitOf bitAt
  have e1 : (8 * (10 + 2 * x.items.length) + q) / 8 = BRANCH_HEADER + 2 * x.items.length + q / 8 := by
    show _ = 10 + 2 * x.items.length + q / 8
    omega
  have e2 : (8 * (10 + 2 * x.items.length) + q) % 8 = q % 8 := by omega
  rw [e1, e2, getD_pageNats, Nat.testBit_eq_decide_div_mod_eq]
  show _ = (u8 (encodeBranch x) _ / _ % 2 == 1)
  cases h : decide (u8 (encodeBranch x) (BRANCH_HEADER + 2 * x.items.length + q / 8) / 2 ^ (7 - q % 8) % 2 = 1) <;> simp_all

end

/-- keys sharing their first `pl` bits (as numbers) have the same key bits there -/
theorem keyBit_of_shared (k k0 pl p : Nat) (hpl : pl ≤ 256) (h : k / 2 ^ (256 - pl) = k0 / 2 ^ (256 - pl)) (hp : p < pl) :
    keyBit k p = keyBit k0 p := by
  rw [keyBit_eq_testBit, keyBit_eq_testBit]
  have e : 255 - p = (255 - p - (256 - pl)) + (256 - pl) := by omega
  rw [e, ← Nat.testBit_div_two_pow, ← Nat.testBit_div_two_pow, h]

/-- a key whose bits after `L` are zero (as a number) has zero key bits there -/
theorem keyBit_of_trailing (k L p : Nat) (h : k % 2 ^ (256 - L) = 0) (hp : L ≤ p) (hp2 : p < 256) : keyBit k p = false := by
  rw [keyBit_eq_testBit]
  have := Nat.testBit_mod_two_pow k (256 - L) (255 - p)
  rw [h, Nat.zero_testBit] at this
  have hlt : 255 - p < 256 - L := by omega
  simp only [hlt, decide_true, Bool.true_and] at this
  exact this.symm

/-- **round trip**: on a page built by `new` + `push` under `branchOK`, the real read path returns every pushed key -/
theorem getKey_encodeBranch (x : BranchIn) (hok : branchOK x = true) (j : Nat) (it : BItem) (hj : x.items[j]? = some it) :
    getKey (pageNats x) j = some (keyBytes it.key) := by
  have F := branchOK_facts hok
  have hjl : j < x.items.length := by
    rcases Nat.lt_or_ge j x.items.length with h | h
    · exact h
    · rw [List.getElem?_eq_none h] at hj; cases hj
  have hfit := F.fit
  have hbits := F.bits
  have hPAGE : PAGE = 4096 := rfl
  have hBH : Nomt.Store.BRANCH_HEADER = 10 := rfl
  obtain ⟨hbbn, hn, hpc, hpl⟩ := branch_header_fields x F
  have hit := F.items it (List.mem_of_getElem? hj)
  -- stored lengths and offsets
  have hst : (storedLens x.pc x.pl x.items 0)[j]? = some (sepStored x.pc x.pl j it.sepLen) := by
    have := getElem?_storedLens x.pc x.pl x.items 0 j it hj
    rwa [Nat.zero_add] at this
  have hend : sepEnd x j = sepBegin x j + sepStored x.pc x.pl j it.sepLen := sumL_take_succ _ j _ hst
  have hlast : sepEnd x j ≤ sumL (storedLens x.pc x.pl x.items 0) := sumL_take_le _ _
  have hsb : ∀ i, i ≠ 0 → sepEnd x (i - 1) = sepBegin x i := by
    intro i hi
    unfold sepEnd sepBegin
    have : i - 1 + 1 = i := by omega
    rw [this]
  have hpl256 := F.pl
  have hstored : sepStart x.pc x.pl j + sepStored x.pc x.pl j it.sepLen ≤ 256 := by
    unfold sepStart sepStored; split <;> omega
  have hNode : NodeOK (pageNats x) x.items.length x.pc x.pl (sepBegin x j) (sepEnd x j)
      (sumL (storedLens x.pc x.pl x.items 0)) j := by
    refine ⟨bytes_pageNats x, length_pageNats x F, ?_, ?_, ?_, ?_, ?_, F.npos, hjl, F.pl, by omega, hlast, ?_, ?_⟩
    · unfold nodeN; rw [u16At_pageNats x F 4 (by omega), hn]
    · unfold nodePc; rw [u16At_pageNats x F 6 (by omega), hpc]
    · unfold nodePl; rw [u16At_pageNats x F 8 (by omega), hpl]
    · by_cases h0 : j = 0
      · subst h0; simp [sepBegin, sumL]
      · rw [if_pos h0]
        unfold nodeCell
        rw [u16At_pageNats x F _ (by simp only [BitOps.BRANCH_HEADER]; omega)]
        have := branch_cell x F (j - 1) (by omega)
        rw [hBH] at this
        simp only [BitOps.BRANCH_HEADER]
        rw [this, hsb j h0]
    · unfold nodeCell
      rw [u16At_pageNats x F _ (by simp only [BitOps.BRANCH_HEADER]; omega)]
      have := branch_cell x F j hjl
      rw [hBH] at this
      simp only [BitOps.BRANCH_HEADER]
      rw [this]
    · have : (if j < x.pc then x.pl else 0) = sepStart x.pc x.pl j := rfl
      rw [this]; omega
    · simp only [BitOps.BRANCH_HEADER]; omega
  rw [getKey_spec _ _ _ _ _ _ _ _ hNode]
  apply congrArg some
  unfold keyBytes
  apply bytesOfBits_congr
  intro p hp
  unfold storedKeyBit
  simp only [BitOps.BRANCH_HEADER]
  have hpfx : (if j < x.pc then x.pl else 0) = sepStart x.pc x.pl j := rfl
  rw [hpfx]
  have hes : sepEnd x j - sepBegin x j = sepStored x.pc x.pl j it.sepLen := by omega
  rw [hes]
  by_cases h1 : p < sepStart x.pc x.pl j
  · rw [if_pos h1]
    -- inside the shared prefix: compressed item
    have hc : j < x.pc := by
      unfold sepStart at h1; split at h1
      · assumption
      · omega
    have hplp : p < x.pl := by unfold sepStart at h1; rw [if_pos hc] at h1; exact h1
    rw [bitOf_pageNats x p (by omega)]
    unfold branchBits
    rw [List.getD_eq_getElem?_getD, List.getElem?_append_left (by rw [length_keyBits]; exact hplp),
      ← List.getD_eq_getElem?_getD, getD_keyBits _ _ _ _ hplp, Nat.zero_add]
    have hmem : it ∈ x.items.take x.pc := by
      apply List.mem_of_getElem? (i := j)
      rw [List.getElem?_take_of_lt hc]; exact hj
    exact (keyBit_of_shared it.key (firstKey x.items) x.pl p F.pl (F.pre it hmem) hplp).symm
  · rw [if_neg h1]
    by_cases h2 : p < sepStart x.pc x.pl j + sepStored x.pc x.pl j it.sepLen
    · rw [if_pos h2]
      have hlen := length_sepBitsFrom x.pc x.pl x.items 0
      have hq : x.pl + sepBegin x j + (p - sepStart x.pc x.pl j) < 8 * (PAGE - Nomt.Store.BRANCH_HEADER - 6 * x.items.length) := by
        omega
      rw [bitOf_pageNats x _ hq]
      have := getD_sepBits x.pc x.pl x.items 0 (keyBits (firstKey x.items) 0 x.pl) x.fill j it hj
        (p - sepStart x.pc x.pl j) (by rw [Nat.zero_add]; omega)
      rw [length_keyBits, Nat.zero_add] at this
      unfold branchBits sepBegin
      rw [this]
      congr 1; omega
    · rw [if_neg h2]
      symm
      apply keyBit_of_trailing it.key it.sepLen p hit.2.2.1 _ (by omega)
      unfold sepStart sepStored at h2
      split at h2 <;> omega

end Nomt.Store
