import NomtModel.Store.GenFnCheck3

/-!
# `CleanFreeList::get_nth_pop` (`beatree/allocator/free_list.rs`) of the current source

The translated function indexes `portions` (a `Vec<(PageNumber, Vec<PageNumber>)>`, here `List (Nat × List Nat)`) with Rust's
checked indexing (`none` = out of bounds / arithmetic underflow); the mirror `getNthPop` uses `getD … 0`.
-/

namespace Nomt.GenFnCheck
open Nomt Nomt.Store.FreeList
set_option maxRecDepth 8192

/-- whenever the translated `get_nth_pop` returns, it returns the mirror's value (same index arithmetic) -/
theorem get_nth_pop_eq (rp : List Portion) (frag : Bool) (n v : Nat) (hn : n < 2 ^ 63)
    (h : GenFn.get_nth_pop rp frag n = some v) : v = getNthPop 1022 rp frag n := by
  have hn' : n < 9223372036854775808 := by simpa using hn
  unfold GenFn.get_nth_pop at h
  unfold getNthPop atR
  simp only [List.getD_eq_getElem?_getD]
  dsimp only at h
  repeat' (split at h)
  all_goals (first | (exfalso; exact Option.noConfusion h) | skip)
  all_goals simp_all
  all_goals (first | omega | (intro hc; exfalso; omega) | grind)

end Nomt.GenFnCheck
