import NomtModel.Store.OvfAsync
/-!
# `chunk` + `encode_cell`, then the consumers: the statements the property files re-export
-/
namespace Nomt.Ovf
open Nomt.Wal (Bytes)

theorem allocated_length (alloc : Nat → Nat) (len : Nat) :
    (allocated alloc len).length = totalNeededPages len := by simp [allocated]

theorem allocated_nodup (alloc : Nat → Nat) (len : Nat)
    (hfresh : ∀ i j, i < totalNeededPages len → j < totalNeededPages len → alloc i = alloc j → i = j) :
    (allocated alloc len).Nodup := by
  unfold allocated
  rw [List.nodup_iff_pairwise_ne, List.pairwise_map]
  refine List.Pairwise.imp_of_mem ?_ (List.nodup_iff_pairwise_ne.1 (List.nodup_range (n := totalNeededPages len)))
  intro i j hi hj hne heq
  exact hne (hfresh i j (List.mem_range.1 hi) (List.mem_range.1 hj) heq)

/-- `chunk` followed by `encode_cell` (what `leaf_stage::run` does for an `InsertOverflow`): neither panics, the
cell decodes to (length, hash, the first ≤ 15 allocated pages), and every store holding the written pages contains a
chain for that cell whose bytes are the value and whose pages are exactly the allocated ones -/
theorem chunk_cell_chain (value : Bytes) (hne : value ≠ []) (hmax : value.length ≤ MAX_VALUE_SIZE)
    (hash : Bytes) (hh : hash.length = 32) (alloc : Nat → Nat) (junk : Nat → Bytes)
    (h32 : ∀ i, i < totalNeededPages value.length → alloc i < 2 ^ 32)
    (hj : ∀ i, (junk i).length = PAGE_SIZE) :
    ∃ out cell, chunk value alloc junk = some out ∧ encodeCell value.length hash out.cell = some cell ∧
      decodeCell cell = some (value.length, hash, out.cell) ∧
      out.total = totalNeededPages value.length ∧
      out.cell = (allocated alloc value.length).take MAX_CELL_PNS ∧
      out.writes.map (·.1) = allocated alloc value.length ∧
      cell.length = 40 + 4 * min (totalNeededPages value.length) MAX_CELL_PNS ∧
      ∀ σ : Store, (∀ w ∈ out.writes, σ w.1 = some w.2) →
        ∃ parts, Chain σ out.cell parts ∧ flatB parts = value ∧
          parts.map (·.pn) = allocated alloc value.length ∧ parts.length = totalNeededPages value.length := by
  obtain ⟨out, hchunk, htot, hcell, hwr, _, _⟩ := chunk_ok value hne alloc junk
  have hvl : 0 < value.length := List.length_pos_iff.2 hne
  have hpos := totalNeededPages_pos value.length hvl
  have hcl : out.cell.length = min (totalNeededPages value.length) MAX_CELL_PNS := by
    rw [hcell, List.length_take, allocated_length, Nat.min_comm]
  have hcne : out.cell ≠ [] := by
    apply List.ne_nil_of_length_pos
    rw [hcl]; simp only [MAX_CELL_PNS]; omega
  have hc32 : ∀ x ∈ out.cell, x < 2 ^ 32 := by
    intro x hx
    rw [hcell] at hx
    have hx' := List.mem_of_mem_take hx
    simp only [allocated, List.mem_map, List.mem_range] at hx'
    obtain ⟨i, hi, rfl⟩ := hx'
    exact h32 i hi
  obtain ⟨cell, henc⟩ : ∃ cell, encodeCell value.length hash out.cell = some cell :=
    Option.isSome_iff_exists.1 ((encodeCell_isSome_iff _ _ _).2 hmax)
  have hdec := decodeCell_encodeCell _ _ _ _ hh hc32 hcne henc
  have hlen := length_encodeCell _ _ _ _ henc
  refine ⟨out, cell, hchunk, henc, hdec, htot, hcell, hwr, by rw [hlen, hh, hcl], ?_⟩
  intro σ hσ
  exact chunk_chain value hne alloc junk out hchunk h32 hj σ hσ

/-! ## inline or overflow -/

theorem max_leaf_value_size : MAX_LEAF_VALUE_SIZE = 1332 := by decide

theorem isOverflow_iff (len : Nat) : isOverflow len = true ↔ 1332 < len := by
  simp [isOverflow, max_leaf_value_size]

end Nomt.Ovf
