import NomtModel.Store.ConcLin
/-!
# The order discipline of one state-changing operation, on the concurrent disk machine

`cAll chk ph s ct` threads the concurrent state and the *phase* of the operation along a concurrent trace

* 0 — the switch-over record (meta page) has not been issued,
* 1 — its write has begun and is not yet durable,
* 2 — it is durable,

and demands `chk ph s ev` of every event `ev` in the state `s` BEFORE it.  `ordChk` is the part the order monitor
(`Store/TraceOrder.lean`) decides on the real trace — it speaks about order only:

* the meta write begins in phase 0 and only when NO effect is volatile,
* nothing begins in phase 1,
* a hash-table page write begins only in phase 2, no `ln` / `bbn` page write begins in phase 2,
* in phase 2 a WAL effect (the truncation) begins only when no hash-table effect is volatile.

The main result (`accepted_bridge`): if a trace `cpre ++ [Begin of the meta write] ++ crest` is accepted
(`accChk A0 ok`: order + per-effect clauses `A0` before the switch-over and `ok dur` after it, `ok` stable under
flushes), then for EVERY prefix `cp` the linearisation `lin d0 cp` is a sequential trace of exactly the form the crash
theorems assume: only `A0` effects; or `pre ++ [meta write]`; or `pre ++ [meta write, meta fsync] ++ post` with
`pre = lin d0 cpre` FLUSHED (`hflushed`) and `post` accepted event by event (`PostG ok`, the shape of `PostOK`).
-/
namespace NomtDisk
variable {Content MetaRec WalRec LogRec : Type}

def Eff.isMeta : Eff Content MetaRec WalRec LogRec → Bool
  | .setMeta _ => true
  | _ => false

def CEv.isMetaBegin : CEv Content MetaRec WalRec LogRec → Bool
  | .effBegin _ e => e.isMeta
  | _ => false

/-- the phase after event `ev` led to state `s'` -/
def nextPhase (ph : Nat) (s' : CState Content MetaRec WalRec LogRec) : CEv Content MetaRec WalRec LogRec → Nat
  | .effBegin _ e => if e.isMeta = true ∧ ph = 0 then 1 else ph
  | .fsyncEnd _ _ => if ph = 1 ∧ s'.vol.isEmpty = true then 2 else ph
  | _ => ph

def phRun : Nat → CState Content MetaRec WalRec LogRec → List (CEv Content MetaRec WalRec LogRec) → Nat
  | ph, _, [] => ph
  | ph, s, ev :: rest => phRun (nextPhase ph (cstep s ev) ev) (cstep s ev) rest

/-- every event passes `chk` in the phase and the state before it -/
def cAll (chk : Nat → CState Content MetaRec WalRec LogRec → CEv Content MetaRec WalRec LogRec → Prop) :
    Nat → CState Content MetaRec WalRec LogRec → List (CEv Content MetaRec WalRec LogRec) → Prop
  | _, _, [] => True
  | ph, s, ev :: rest => chk ph s ev ∧ cAll chk (nextPhase ph (cstep s ev) ev) (cstep s ev) rest

/-- **the order discipline** (what `checkOrder` decides on the real trace) -/
def ordChk (ph : Nat) (s : CState Content MetaRec WalRec LogRec) : CEv Content MetaRec WalRec LogRec → Prop
  | .effBegin _ e =>
    if e.isMeta = true then ph = 0 ∧ s.vol = []
    else (ph = 0 ∨ ph = 2) ∧ (e.file = File.fHt → ph = 2) ∧ (ph = 2 → e.file ≠ File.fLn ∧ e.file ≠ File.fBbn) ∧
      (ph = 2 → e.file = File.fWal → ∀ v ∈ s.vol, v.eff.file ≠ File.fHt)
  | _ => True

/-- per-effect (content) clauses: `A0` for what begins before the switch-over, `A2` (may look at the state) after it -/
def contChk (A0 : Eff Content MetaRec WalRec LogRec → Prop)
    (A2 : CState Content MetaRec WalRec LogRec → Eff Content MetaRec WalRec LogRec → Prop)
    (ph : Nat) (s : CState Content MetaRec WalRec LogRec) : CEv Content MetaRec WalRec LogRec → Prop
  | .effBegin _ e => e.isMeta = false → (ph = 0 → A0 e) ∧ (ph = 2 → A2 s e)
  | _ => True

/-- order and content together, in the form the bridge uses: after the switch-over an effect must be acceptable
(`ok`) on the DURABLE disk at the moment it begins -/
def accChk (A0 : Eff Content MetaRec WalRec LogRec → Prop)
    (ok : Disk Content MetaRec WalRec LogRec → Eff Content MetaRec WalRec LogRec → Prop)
    (ph : Nat) (s : CState Content MetaRec WalRec LogRec) : CEv Content MetaRec WalRec LogRec → Prop
  | .effBegin _ e =>
    if e.isMeta = true then ph = 0 ∧ s.vol = []
    else (ph = 0 ∧ A0 e) ∨ (ph = 2 ∧ ok s.dur e)
  | _ => True

section call
variable (chk chk' : Nat → CState Content MetaRec WalRec LogRec → CEv Content MetaRec WalRec LogRec → Prop)

theorem cAll_append (ph : Nat) (s : CState Content MetaRec WalRec LogRec)
    (a b : List (CEv Content MetaRec WalRec LogRec)) :
    cAll chk ph s (a ++ b) ↔ cAll chk ph s a ∧ cAll chk (phRun ph s a) (crun s a) b := by
  induction a generalizing ph s with
  | nil => simp [cAll, phRun, crun]
  | cons ev a ih => simp only [List.cons_append, cAll, phRun, crun_cons, ih, and_assoc]

theorem phRun_append (ph : Nat) (s : CState Content MetaRec WalRec LogRec)
    (a b : List (CEv Content MetaRec WalRec LogRec)) :
    phRun ph s (a ++ b) = phRun (phRun ph s a) (crun s a) b := by
  induction a generalizing ph s with
  | nil => rfl
  | cons ev a ih => simp only [List.cons_append, phRun, crun_cons, ih]

theorem cAll_mono (h : ∀ ph s ev, chk ph s ev → chk' ph s ev) (ph : Nat) (s : CState Content MetaRec WalRec LogRec)
    (ct : List (CEv Content MetaRec WalRec LogRec)) : cAll chk ph s ct → cAll chk' ph s ct := by
  induction ct generalizing ph s with
  | nil => intro _; trivial
  | cons ev ct ih => intro hc; exact ⟨h _ _ _ hc.1, ih _ _ hc.2⟩

theorem cAll_and (ph : Nat) (s : CState Content MetaRec WalRec LogRec) (ct : List (CEv Content MetaRec WalRec LogRec)) :
    cAll chk ph s ct → cAll chk' ph s ct → cAll (fun ph s ev => chk ph s ev ∧ chk' ph s ev) ph s ct := by
  induction ct generalizing ph s with
  | nil => intro _ _; trivial
  | cons ev ct ih => intro h1 h2; exact ⟨⟨h1.1, h2.1⟩, ih _ _ h1.2 h2.2⟩

end call

/-! ## Sequential acceptance after the switch-over, generically -/

/-- the shape of `PostOK` (`Store/Crash2.lean`) for an arbitrary per-effect acceptance `ok` on the durable disk -/
def PostG (ok : Disk Content MetaRec WalRec LogRec → Eff Content MetaRec WalRec LogRec → Prop) :
    Exec Content MetaRec WalRec LogRec → List (Ev Content MetaRec WalRec LogRec) → Prop
  | _, [] => True
  | s, .eff e :: rest => ok s.dur e ∧ PostG ok (step s (.eff e)) rest
  | s, .fsync f :: rest => PostG ok (step s (.fsync f)) rest

section postg
variable (ok : Disk Content MetaRec WalRec LogRec → Eff Content MetaRec WalRec LogRec → Prop)

theorem postG_append (s : Exec Content MetaRec WalRec LogRec) (a b : List (Ev Content MetaRec WalRec LogRec)) :
    PostG ok s (a ++ b) ↔ PostG ok s a ∧ PostG ok (run s a) b := by
  induction a generalizing s with
  | nil => simp [PostG, run]
  | cons ev a ih =>
    cases ev with
    | eff e => simp only [List.cons_append, PostG, ih, run, List.foldl_cons, and_assoc]
    | fsync f => simp only [List.cons_append, PostG, ih, run, List.foldl_cons]

theorem postG_effs (s : Exec Content MetaRec WalRec LogRec) (es : List (Eff Content MetaRec WalRec LogRec))
    (h : ∀ e ∈ es, ok s.dur e) : PostG ok s (es.map Ev.eff) := by
  induction es generalizing s with
  | nil => trivial
  | cons e es ih =>
    refine ⟨h e (by simp), ih _ ?_⟩
    intro e' he'
    exact h e' (by simp [he'])

theorem postG_block (s : Exec Content MetaRec WalRec LogRec) (f : File) (F : List (Eff Content MetaRec WalRec LogRec))
    (h : ∀ e ∈ F, ok s.dur e) : PostG ok s (block f F) := by
  unfold block
  split
  · trivial
  · rw [postG_append]
    exact ⟨postG_effs ok s F h, trivial⟩

end postg

theorem flush_volEffs_sub (s : CState Content MetaRec WalRec LogRec) (f : File) (cov : List Nat) (rest : List CSync) :
    ∀ e ∈ (flush s f cov rest).volEffs, e ∈ s.volEffs := by
  intro e he
  simp only [flush, CState.volEffs, List.mem_map] at he ⊢
  obtain ⟨v, hv, rfl⟩ := he
  exact ⟨v, (List.mem_filter.mp hv).1, rfl⟩

/-! ## The bridge -/

section bridge
variable (A0 : Eff Content MetaRec WalRec LogRec → Prop)
variable (ok : Disk Content MetaRec WalRec LogRec → Eff Content MetaRec WalRec LogRec → Prop)

theorem nextPhase_pos (ph : Nat) (s' : CState Content MetaRec WalRec LogRec) (ev : CEv Content MetaRec WalRec LogRec)
    (h : 1 ≤ ph) : 1 ≤ nextPhase ph s' ev := by
  cases ev <;> simp only [nextPhase] <;> (try split) <;> omega

theorem phRun_pos (ph : Nat) (s : CState Content MetaRec WalRec LogRec) (ct : List (CEv Content MetaRec WalRec LogRec))
    (h : 1 ≤ ph) : 1 ≤ phRun ph s ct := by
  induction ct generalizing ph s with
  | nil => exact h
  | cons ev ct ih => exact ih _ _ (nextPhase_pos ph _ ev h)

theorem nextPhase_le_two (ph : Nat) (s' : CState Content MetaRec WalRec LogRec) (ev : CEv Content MetaRec WalRec LogRec)
    (h : ph ≤ 2) : nextPhase ph s' ev ≤ 2 := by
  cases ev <;> simp only [nextPhase] <;> (try split) <;> omega

theorem phRun_le_two (ph : Nat) (s : CState Content MetaRec WalRec LogRec) (ct : List (CEv Content MetaRec WalRec LogRec))
    (h : ph ≤ 2) : phRun ph s ct ≤ 2 := by
  induction ct generalizing ph s with
  | nil => exact h
  | cons ev ct ih => exact ih _ _ (nextPhase_le_two ph _ ev h)

/-- a trace that contains the Begin of a meta write does not end in phase 0 -/
theorem phRun_pos_of_meta (cpre crest : List (CEv Content MetaRec WalRec LogRec)) (id : Nat) (m : MetaRec) :
    ∀ (ph : Nat) (s : CState Content MetaRec WalRec LogRec),
      1 ≤ phRun ph s (cpre ++ CEv.effBegin id (.setMeta m) :: crest) := by
  induction cpre with
  | nil =>
    intro ph s
    simp only [List.nil_append, phRun]
    apply phRun_pos
    simp only [nextPhase, Eff.isMeta, true_and]
    split <;> omega
  | cons ev cpre ih => intro ph s; exact ih _ _

/-- once the switch-over was issued, an accepted trace contains no further meta write -/
theorem no_meta_after (ph : Nat) (s : CState Content MetaRec WalRec LogRec)
    (ct : List (CEv Content MetaRec WalRec LogRec)) (hph : 1 ≤ ph) (h : cAll (accChk A0 ok) ph s ct) :
    ∀ ev ∈ ct, ev.isMetaBegin = false := by
  induction ct generalizing ph s with
  | nil => intro ev hev; cases hev
  | cons ev0 ct ih =>
    intro ev hev
    rcases List.mem_cons.mp hev with rfl | hmem
    · cases ev with
      | effBegin id e =>
        cases hm : e.isMeta with
        | false => simpa [CEv.isMetaBegin] using hm
        | true =>
          have := h.1
          simp only [accChk, hm, if_true] at this
          omega
      | effEnd _ => rfl
      | fsyncBegin _ _ => rfl
      | fsyncEnd _ _ => rfl
    · exact ih _ _ (nextPhase_pos ph _ ev0 hph) h.2 ev hmem

/-- the first meta write of an accepted trace is the only one: before it the phase is 0 -/
theorem phase0_before_meta (s : CState Content MetaRec WalRec LogRec)
    (cpre rest : List (CEv Content MetaRec WalRec LogRec)) (mb : CEv Content MetaRec WalRec LogRec)
    (hmem : mb ∈ rest) (hmb : mb.isMetaBegin = true) (h : cAll (accChk A0 ok) 0 s (cpre ++ rest)) :
    phRun 0 s cpre = 0 ∧ ∀ e ∈ begun cpre, A0 e := by
  induction cpre generalizing s with
  | nil => exact ⟨rfl, fun e he => by cases he⟩
  | cons ev cpre ih =>
    have h1 := h.1
    have h2 := h.2
    have hnm : ev.isMetaBegin = false := by
      cases hm : ev.isMetaBegin with
      | false => rfl
      | true =>
        exfalso
        have hph : nextPhase 0 (cstep s ev) ev = 1 := by
          cases ev with
          | effBegin id e => simp only [CEv.isMetaBegin] at hm; simp [nextPhase, hm]
          | effEnd _ => cases hm
          | fsyncBegin _ _ => cases hm
          | fsyncEnd _ _ => cases hm
        rw [hph] at h2
        have := no_meta_after A0 ok 1 _ _ (Nat.le_refl 1) h2 mb (by simp [hmem])
        rw [hmb] at this; cases this
    have hph : nextPhase 0 (cstep s ev) ev = 0 := by
      cases ev with
      | effBegin id e => simp only [CEv.isMetaBegin] at hnm; simp [nextPhase, hnm]
      | effEnd _ => rfl
      | fsyncBegin _ _ => rfl
      | fsyncEnd _ _ => simp [nextPhase]
    rw [hph] at h2
    obtain ⟨ih1, ih2⟩ := ih (cstep s ev) h2
    refine ⟨by simp only [phRun, hph]; exact ih1, ?_⟩
    intro e he
    cases ev with
    | effBegin id e0 =>
      simp only [begun, List.filterMap_cons, List.mem_cons] at he
      rcases he with rfl | he
      · simp only [CEv.isMetaBegin] at hnm
        simp only [accChk, hnm, Bool.false_eq_true, if_false] at h1
        rcases h1 with h1 | h1
        · exact h1.2
        · omega
      · exact ih2 e he
    | effEnd _ => exact ih2 e (by simpa [begun, List.filterMap_cons] using he)
    | fsyncBegin _ _ => exact ih2 e (by simpa [begun, List.filterMap_cons] using he)
    | fsyncEnd _ _ => exact ih2 e (by simpa [begun, List.filterMap_cons] using he)

variable (hstab : ∀ d d' e e', ok d e → ok d' e' → ok (applyEff d e') e)
include hstab

theorem ok_applyEffs (F : List (Eff Content MetaRec WalRec LogRec)) :
    ∀ (d : Disk Content MetaRec WalRec LogRec) (e : Eff Content MetaRec WalRec LogRec),
      ok d e → (∀ e' ∈ F, ok d e') → ok (applyEffs d F) e := by
  induction F with
  | nil => intro d e h _; exact h
  | cons e1 F ih =>
    intro d e h hF
    simp only [applyEffs, List.foldl_cons]
    have h1 := hF e1 (by simp)
    exact ih _ e (hstab d d e e1 h h1) (fun e' he' => hstab d d e' e1 (hF e' (by simp [he'])) h1)

variable (dA : Disk Content MetaRec WalRec LogRec) (m1 : MetaRec)

/-- phase 1: the meta write is the only volatile effect, nothing became durable since it was issued -/
def J1 (s : CState Content MetaRec WalRec LogRec) (D : List (Ev Content MetaRec WalRec LogRec)) : Prop :=
  s.dur = dA ∧ s.volEffs = [.setMeta m1] ∧ D = []

/-- phase 2, relative to the flushed sequential state `s0` in which the phase started: the durable part `D` of the
linearisation since then is an accepted sequential trace that reaches the durable disk; every volatile effect is
acceptable on the durable disk -/
def J2c (s0 : Exec Content MetaRec WalRec LogRec) (s : CState Content MetaRec WalRec LogRec)
    (D : List (Ev Content MetaRec WalRec LogRec)) : Prop :=
  PostG ok s0 D ∧ run s0 D = ⟨s.dur, []⟩ ∧ ∀ e ∈ s.volEffs, ok s.dur e

/-- phase 2 of a sync: the durable part of the linearisation since the switch-over is the meta write, its fsync and an
accepted flushed sequential trace `postD` -/
def J2 (s : CState Content MetaRec WalRec LogRec) (D : List (Ev Content MetaRec WalRec LogRec)) : Prop :=
  ∃ postD, D = [Ev.eff (.setMeta m1), Ev.fsync File.fMeta] ++ postD ∧
    J2c ok ⟨applyEff dA (.setMeta m1), []⟩ s postD

def J (ph : Nat) (s : CState Content MetaRec WalRec LogRec) (D : List (Ev Content MetaRec WalRec LogRec)) : Prop :=
  (ph = 1 ∧ J1 dA m1 s D) ∨ (ph = 2 ∧ J2 ok dA m1 s D)

omit dA m1 in
theorem J2c_step (s0 : Exec Content MetaRec WalRec LogRec) (s : CState Content MetaRec WalRec LogRec)
    (D : List (Ev Content MetaRec WalRec LogRec))
    (ev : CEv Content MetaRec WalRec LogRec) (hj : J2c ok s0 s D) (hc : accChk A0 ok 2 s ev) :
    nextPhase 2 (cstep s ev) ev = 2 ∧ J2c ok s0 (cstep s ev) (D ++ linDStep s ev) := by
  obtain ⟨hpost, hrun, hvol⟩ := hj
  cases ev with
  | effBegin id e =>
    cases hm : e.isMeta with
    | true => simp only [accChk, hm, if_true] at hc; omega
    | false =>
      simp only [accChk, hm, Bool.false_eq_true, if_false] at hc
      have hok : ok s.dur e := by
        rcases hc with hc | hc
        · omega
        · exact hc.2
      refine ⟨by simp [nextPhase], by simpa [linDStep, flushedBy] using hpost,
        by simpa [linDStep, flushedBy, cstep] using hrun, ?_⟩
      intro e' he'
      simp only [cstep, CState.volEffs, List.map_append, List.mem_append, List.map_cons, List.map_nil,
        List.mem_singleton] at he'
      rcases he' with he' | rfl
      · exact hvol e' he'
      · exact hok
  | effEnd id =>
    refine ⟨rfl, by simpa [linDStep, flushedBy] using hpost, by simpa [linDStep, flushedBy, cstep] using hrun, ?_⟩
    simp only [cstep, CState.volEffs, markEnded_effs]
    exact hvol
  | fsyncBegin tid f =>
    exact ⟨rfl, by simpa [linDStep, flushedBy] using hpost, by simpa [linDStep, flushedBy, cstep] using hrun, hvol⟩
  | fsyncEnd tid f =>
    refine ⟨by simp [nextPhase], ?_⟩
    simp only [cstep, linDStep, flushedBy]
    cases takeCSync f tid s.syncs with
    | none => exact ⟨by simpa using hpost, by simpa using hrun, hvol⟩
    | some x =>
      obtain ⟨cov, rest⟩ := x
      simp only
      have hF : ∀ e ∈ (s.vol.filter (covered f cov)).map (·.eff), ok s.dur e := by
        intro e he
        obtain ⟨v, hv, rfl⟩ := List.mem_map.mp he
        exact hvol _ (List.mem_map.mpr ⟨v, (List.mem_filter.mp hv).1, rfl⟩)
      have hfile : ∀ e ∈ (s.vol.filter (covered f cov)).map (·.eff), e.file = f := by
        intro e he
        obtain ⟨v, hv, rfl⟩ := List.mem_map.mp he
        have := (List.mem_filter.mp hv).2
        simp only [covered, Bool.and_eq_true, decide_eq_true_eq] at this
        exact this.1
      refine ⟨?_, ?_, ?_⟩
      · rw [postG_append, hrun]
        exact ⟨hpost, postG_block ok _ f _ hF⟩
      · rw [run_append, hrun, run_block _ _ _ hfile]
        rfl
      · intro e he
        have hmem := flush_volEffs_sub s f cov rest e he
        exact ok_applyEffs ok hstab _ s.dur e (hvol e hmem) hF

omit dA m1 in
theorem J2c_run (s0 : Exec Content MetaRec WalRec LogRec) (ct : List (CEv Content MetaRec WalRec LogRec)) :
    ∀ (s : CState Content MetaRec WalRec LogRec) (D : List (Ev Content MetaRec WalRec LogRec)),
      J2c ok s0 s D → cAll (accChk A0 ok) 2 s ct →
        phRun 2 s ct = 2 ∧ J2c ok s0 (crun s ct) (D ++ linDRun s ct) := by
  induction ct with
  | nil => intro s D hj _; exact ⟨rfl, by simpa [crun, linDRun] using hj⟩
  | cons ev ct ih =>
    intro s D hj hc
    obtain ⟨h1, h2⟩ := J2c_step A0 ok hstab s0 s D ev hj hc.1
    have hc2 := hc.2
    rw [h1] at hc2
    have := ih _ _ h2 hc2
    simp only [phRun, h1, crun_cons, linDRun, ← List.append_assoc]
    exact this

theorem J2_step (s : CState Content MetaRec WalRec LogRec) (D : List (Ev Content MetaRec WalRec LogRec))
    (ev : CEv Content MetaRec WalRec LogRec) (hj : J2 ok dA m1 s D) (hc : accChk A0 ok 2 s ev) :
    nextPhase 2 (cstep s ev) ev = 2 ∧ J2 ok dA m1 (cstep s ev) (D ++ linDStep s ev) := by
  obtain ⟨postD, hD, hj⟩ := hj
  obtain ⟨h1, h2⟩ := J2c_step A0 ok hstab _ s postD ev hj hc
  exact ⟨h1, postD ++ linDStep s ev, by rw [hD, List.append_assoc], h2⟩

omit hstab in
theorem J1_step (s : CState Content MetaRec WalRec LogRec) (D : List (Ev Content MetaRec WalRec LogRec))
    (ev : CEv Content MetaRec WalRec LogRec) (hj : J1 dA m1 s D) (hc : accChk A0 ok 1 s ev) :
    J ok dA m1 (nextPhase 1 (cstep s ev) ev) (cstep s ev) (D ++ linDStep s ev) := by
  obtain ⟨hdur, hvol, hD⟩ := hj
  subst hD
  cases ev with
  | effBegin id e =>
    exfalso
    cases hm : e.isMeta with
    | true => simp only [accChk, hm, if_true] at hc; omega
    | false => simp only [accChk, hm, Bool.false_eq_true, if_false] at hc; omega
  | effEnd id =>
    left
    refine ⟨rfl, hdur, ?_, by simp [linDStep, flushedBy]⟩
    simp only [cstep, CState.volEffs, markEnded_effs]
    exact hvol
  | fsyncBegin tid f =>
    left
    exact ⟨rfl, hdur, hvol, by simp [linDStep, flushedBy]⟩
  | fsyncEnd tid f =>
    -- the single volatile effect
    obtain ⟨v, hv, hveff⟩ : ∃ v, s.vol = [v] ∧ v.eff = .setMeta m1 := by
      simp only [CState.volEffs] at hvol
      cases hsv : s.vol with
      | nil => rw [hsv] at hvol; cases hvol
      | cons v rest =>
        rw [hsv] at hvol
        cases rest with
        | nil => simp only [List.map_cons, List.map_nil, List.cons.injEq, and_true] at hvol; exact ⟨v, rfl, hvol⟩
        | cons _ _ => simp at hvol
    simp only [cstep, linDStep, flushedBy, nextPhase]
    cases takeCSync f tid s.syncs with
    | none =>
      left
      simp only [hv, List.isEmpty_cons, Bool.false_eq_true, and_false, if_false]
      exact ⟨by trivial, hdur, by simp [CState.volEffs, hv, hveff], rfl⟩
    | some x =>
      obtain ⟨cov, rest⟩ := x
      simp only [flush, hv]
      cases hcov : covered f cov v with
      | false =>
        left
        simp only [List.filter_cons, hcov, Bool.false_eq_true, if_false, List.filter_nil, Bool.not_false, if_true,
          List.isEmpty_cons, and_false, List.map_nil, applyEffs, List.foldl_nil, block, List.isEmpty_nil,
          List.append_nil]
        exact ⟨by trivial, hdur, by simp [CState.volEffs, hveff], rfl⟩
      | true =>
        right
        have hf : f = File.fMeta := by
          simp only [covered, Bool.and_eq_true, decide_eq_true_eq, hveff, Eff.file] at hcov
          exact hcov.1.symm
        subst hf
        simp only [List.filter_cons, hcov, if_true, List.filter_nil, Bool.not_true, Bool.false_eq_true, if_false,
          List.isEmpty_nil, and_self, List.map_cons, List.map_nil, hveff, block, List.isEmpty_cons,
          List.nil_append]
        refine ⟨by trivial, [], by simp, trivial, ?_, ?_⟩
        · simp [run, applyEffs, hdur]
        · intro e he; simp [CState.volEffs] at he

theorem J_run (ct : List (CEv Content MetaRec WalRec LogRec)) :
    ∀ (ph : Nat) (s : CState Content MetaRec WalRec LogRec) (D : List (Ev Content MetaRec WalRec LogRec)),
      J ok dA m1 ph s D → cAll (accChk A0 ok) ph s ct → J ok dA m1 (phRun ph s ct) (crun s ct) (D ++ linDRun s ct) := by
  induction ct with
  | nil => intro ph s D hj _; simpa [phRun, crun, linDRun] using hj
  | cons ev ct ih =>
    intro ph s D hj hc
    simp only [phRun, crun_cons, linDRun, ← List.append_assoc]
    apply ih _ _ _ _ hc.2
    rcases hj with ⟨rfl, hj⟩ | ⟨rfl, hj⟩
    · exact J1_step A0 ok dA m1 s D ev hj hc.1
    · have := J2_step A0 ok hstab dA m1 s D ev hj hc.1
      rw [this.1]
      exact Or.inr ⟨rfl, this.2⟩

end bridge

/-- the shape of the linearisation of a prefix of an accepted concurrent trace, by the phase the prefix ends in -/
inductive LinShape (A0 : Eff Content MetaRec WalRec LogRec → Prop)
    (ok : Disk Content MetaRec WalRec LogRec → Eff Content MetaRec WalRec LogRec → Prop)
    (pre : List (Ev Content MetaRec WalRec LogRec)) (dA : Disk Content MetaRec WalRec LogRec) (m1 : MetaRec) :
    Nat → List (Ev Content MetaRec WalRec LogRec) → Prop
  | before (l : List (Ev Content MetaRec WalRec LogRec)) (h : ∀ ev ∈ l, EvA A0 ev) : LinShape A0 ok pre dA m1 0 l
  | issued : LinShape A0 ok pre dA m1 1 (pre ++ [Ev.eff (.setMeta m1)])
  | durable (post : List (Ev Content MetaRec WalRec LogRec))
      (h : PostG ok ⟨applyEff dA (.setMeta m1), []⟩ post) :
      LinShape A0 ok pre dA m1 2 (pre ++ ([Ev.eff (.setMeta m1), Ev.fsync File.fMeta] ++ post))

/-- **Bridge**, started in an arbitrary concurrent state `s0` whose pending effects satisfy `A0` (e.g. the un-synced WAL
truncation the previous sync left behind): an accepted concurrent trace `cpre ++ [Begin of the meta write] ++ crest`.
The linearisation `pre` of `cpre` — a sequential trace run from the FLUSHED state `⟨s0.dur, []⟩` — consists of `A0`
effects and fsyncs and is FLUSHED (the hypothesis `hflushed` of the crash theorems); and the linearisation of EVERY
prefix of the whole trace consists of `A0` effects and fsyncs only, or is `pre ++ [meta write]`, or is
`pre ++ [meta write, meta fsync] ++ post` with `post` accepted event by event. -/
theorem accepted_bridge_from (A0 : Eff Content MetaRec WalRec LogRec → Prop)
    (ok : Disk Content MetaRec WalRec LogRec → Eff Content MetaRec WalRec LogRec → Prop)
    (hstab : ∀ d d' e e', ok d e → ok d' e' → ok (applyEff d e') e)
    (s0 : CState Content MetaRec WalRec LogRec) (hvol0 : ∀ e ∈ s0.volEffs, A0 e)
    (cpre crest : List (CEv Content MetaRec WalRec LogRec)) (id : Nat) (m1 : MetaRec)
    (hacc : cAll (accChk A0 ok) 0 s0 (cpre ++ CEv.effBegin id (.setMeta m1) :: crest)) :
    (∀ ev ∈ linFrom s0 cpre, EvA A0 ev) ∧
    (run ⟨s0.dur, []⟩ (linFrom s0 cpre)).vol = [] ∧
    (run ⟨s0.dur, []⟩ (linFrom s0 cpre)).dur = (crun s0 cpre).dur ∧
    ∀ cp, cp <+: cpre ++ CEv.effBegin id (.setMeta m1) :: crest →
      LinShape A0 ok (linFrom s0 cpre) (crun s0 cpre).dur m1 (phRun 0 s0 cp) (linFrom s0 cp) := by
  have hmb : (CEv.effBegin id (.setMeta m1) : CEv Content MetaRec WalRec LogRec).isMetaBegin = true := rfl
  obtain ⟨hph0, hA0⟩ := phase0_before_meta A0 ok s0 cpre _ _ (by simp) hmb hacc
  have hacc0 := hacc
  rw [cAll_append] at hacc
  obtain ⟨hacc1, hacc2⟩ := hacc
  rw [hph0] at hacc2
  have hvolA : (crun s0 cpre).vol = [] := by
    have := hacc2.1
    simp only [accChk, Eff.isMeta, if_true] at this
    exact this.2
  have hpreA : ∀ ev ∈ linFrom s0 cpre, EvA A0 ev := linFrom_all A0 s0 cpre hvol0 hA0
  refine ⟨hpreA, ?_, ?_, ?_⟩
  · rw [run_linFrom]; simp [CState.toExec, CState.volEffs, hvolA]
  · rw [run_linFrom]; rfl
  · intro cp hcp
    rcases prefix_append_cases cpre _ cp hcp with h1 | ⟨t, ht, rfl⟩
    · -- the switch-over has not been issued
      obtain ⟨r, hr⟩ := h1
      have hp0 : phRun 0 s0 cp = 0 := by
        rw [← hr, List.append_assoc] at hacc0
        exact (phase0_before_meta A0 ok s0 cp _ _ (by simp) hmb hacc0).1
      rw [hp0]
      apply LinShape.before
      apply linFrom_all A0 s0 cp hvol0
      intro e he
      apply hA0
      rw [← hr]
      simp only [begun, List.filterMap_append, List.mem_append]
      exact Or.inl he
    · cases t with
      | nil =>
        rw [List.append_nil, hph0]
        exact LinShape.before _ hpreA
      | cons ev q =>
        have hq : ev = CEv.effBegin id (.setMeta m1) ∧ q <+: crest := by
          rw [List.cons_prefix_cons] at ht; exact ht
        obtain ⟨rfl, ⟨r, hr⟩⟩ := hq
        -- the state right after the Begin of the meta write
        have hacc3 : cAll (accChk A0 ok) 1 (cstep (crun s0 cpre) (CEv.effBegin id (.setMeta m1))) q := by
          have := hacc2.2
          simp only [nextPhase, Eff.isMeta, and_self, if_true] at this
          rw [← hr, cAll_append] at this
          exact this.1
        have hJ1 : J ok (crun s0 cpre).dur m1 1
            (cstep (crun s0 cpre) (CEv.effBegin id (.setMeta m1))) [] :=
          Or.inl ⟨rfl, rfl, by simp only [cstep, CState.volEffs, hvolA]; rfl, rfl⟩
        have hJ := J_run A0 ok hstab (crun s0 cpre).dur m1 q 1 _ [] hJ1 hacc3
        have hlin : linFrom s0 (cpre ++ CEv.effBegin id (.setMeta m1) :: q) =
            linFrom s0 cpre ++ (linDRun (cstep (crun s0 cpre) (CEv.effBegin id (.setMeta m1))) q ++
              (crun (cstep (crun s0 cpre) (CEv.effBegin id (.setMeta m1))) q).volEffs.map Ev.eff) := by
          have hve : (crun s0 cpre).volEffs = [] := by simp [CState.volEffs, hvolA]
          simp only [linFrom, linDRun_append, crun_append, crun_cons, linDRun, List.append_assoc]
          simp [linDStep, flushedBy, hve]
        have hph : phRun 0 s0 (cpre ++ CEv.effBegin id (.setMeta m1) :: q) =
            phRun 1 (cstep (crun s0 cpre) (CEv.effBegin id (.setMeta m1))) q := by
          rw [phRun_append, hph0]
          simp [phRun, nextPhase, Eff.isMeta]
        rw [hlin, hph]
        rcases hJ with ⟨hp, hd, hv, hD⟩ | ⟨hp, postD, hD, hpost, hrun, hv⟩
        · simp only [List.nil_append] at hD
          rw [hD, hv, hp]
          exact LinShape.issued
        · simp only [List.nil_append] at hD
          rw [hD, List.append_assoc, hp]
          apply LinShape.durable
          rw [postG_append, hrun]
          exact ⟨hpost, postG_effs ok _ _ hv⟩

/-- **Bridge**, started on the flushed disk `d0` -/
theorem accepted_bridge (A0 : Eff Content MetaRec WalRec LogRec → Prop)
    (ok : Disk Content MetaRec WalRec LogRec → Eff Content MetaRec WalRec LogRec → Prop)
    (hstab : ∀ d d' e e', ok d e → ok d' e' → ok (applyEff d e') e)
    (d0 : Disk Content MetaRec WalRec LogRec)
    (cpre crest : List (CEv Content MetaRec WalRec LogRec)) (id : Nat) (m1 : MetaRec)
    (hacc : cAll (accChk A0 ok) 0 (cinit d0) (cpre ++ CEv.effBegin id (.setMeta m1) :: crest)) :
    (∀ ev ∈ lin d0 cpre, EvA A0 ev) ∧
    (run ⟨d0, []⟩ (lin d0 cpre)).vol = [] ∧
    (run ⟨d0, []⟩ (lin d0 cpre)).dur = (crun (cinit d0) cpre).dur ∧
    ∀ cp, cp <+: cpre ++ CEv.effBegin id (.setMeta m1) :: crest →
      LinShape A0 ok (lin d0 cpre) (crun (cinit d0) cpre).dur m1 (phRun 0 (cinit d0) cp) (lin d0 cp) :=
  accepted_bridge_from A0 ok hstab (cinit d0) (fun e he => by cases he) cpre crest id m1 hacc

/-- **Bridge for a run that starts with the switch-over durable** (the recovery performed by `open`): if the concurrent
trace `ct`, started on the flushed disk `d` in phase 2, is accepted, the linearisation of EVERY prefix is a sequential
trace accepted event by event (`PostG ok`, the shape of `PostOK`) from `⟨d, []⟩`. -/
theorem accepted_bridge_phase2 (A0 : Eff Content MetaRec WalRec LogRec → Prop)
    (ok : Disk Content MetaRec WalRec LogRec → Eff Content MetaRec WalRec LogRec → Prop)
    (hstab : ∀ d d' e e', ok d e → ok d' e' → ok (applyEff d e') e)
    (d : Disk Content MetaRec WalRec LogRec) (ct : List (CEv Content MetaRec WalRec LogRec))
    (hacc : cAll (accChk A0 ok) 2 (cinit d) ct) :
    ∀ cp, cp <+: ct → PostG ok ⟨d, []⟩ (lin d cp) := by
  intro cp hcp
  obtain ⟨r, hr⟩ := hcp
  rw [← hr, cAll_append] at hacc
  have hj0 : J2c ok ⟨d, []⟩ (cinit d) [] := ⟨trivial, rfl, fun e he => by cases he⟩
  obtain ⟨_, hpost, hrun, hvol⟩ := J2c_run A0 ok hstab ⟨d, []⟩ cp (cinit d) [] hj0 hacc.1
  simp only [List.nil_append] at hpost hrun
  unfold lin
  rw [postG_append, hrun]
  exact ⟨hpost, postG_effs ok _ _ hvol⟩

end NomtDisk
