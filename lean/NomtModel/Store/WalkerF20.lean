import NomtModel.Store.WalkerSimTop
import NomtModel.Core.TermHasher
/-!
# The scenario of finding F20 on the mirror (free term hasher)

Commit 1 builds `{a, b}` (two leaves below `0010100`, i.e. slot 0 of page `[10]`); commit 2 deletes both and inserts
`{c, d}` below `0010101…` (slot 1 of the same page).  With the behaviour of `set_node` before the repair (`preFix`) the
zeroed slot 0 of page `[10]` is missing from the page's diff; with the repaired `set_node` it is named.
-/
namespace Nomt.Walker.F20
open Nomt Nomt.TriePos Nomt.Walker
open Nomt.Wal (PageDiff)

def bitsOf (s : String) : List Bool := s.toList.map (· == '1')
def mkKey (s : String) : Key := bitsOf s ++ List.replicate (256 - (bitsOf s).length) false

def ka : Key := mkKey "00101000"
def kb : Key := mkKey "00101001"
def kc : Key := mkKey "0010101111110"
def kd : Key := mkKey "0010101111111"

/-- a page set made of the updated pages of an output (persisted, bucket = position in the list) -/
def psOfOutput (pages : List (PageOut T)) : PageSet T :=
  { get := fun P =>
      (pages.zipIdx.findSome? fun (o, i) =>
        match o with
        | .updated Q pg _ _ => if Q = P then some (pg, Origin.persisted (some i)) else none
        | .reconstructed .. => none)
    fresh := fun _ => List.replicate 126 T.term }

def emptyPs : PageSet T := { get := fun _ => none, fresh := fun _ => List.replicate 126 T.term }

/-- both commits; the result is the output page `[10]` of the second one together with slot 0 of that page before -/
def scenario (preFix : Bool) : Option (PageDiff × T × T) :=
  match (Walker.start T.term true).runM TH emptyPs [([], some [(ka, 1), (kb, 2)])] with
  | .ok w1 =>
    match w1.conclude TH with
    | .ok (.root r1 pages1) =>
      let ps1 := psOfOutput pages1
      let w := { Walker.start r1 true with preFix := preFix }
      match w.runM TH ps1 [(bitsOf "00101000", some []), (bitsOf "00101001", some []),
                           (bitsOf "001010111111", some [(kc, 3), (kd, 4)])] with
      | .ok w2 =>
        match w2.conclude TH with
        | .ok (.root _ pages2) =>
          pages2.findSome? fun o =>
            match o with
            | .updated Q pg d _ =>
              if Q = [10] then
                match ps1.get [10] with
                | some (old, _) => some (d, old.nodes.getD 0 T.term, pg.nodes.getD 0 T.term)
                | none => none
              else none
            | .reconstructed .. => none
        | _ => none
      | _ => none
    | _ => none
  | _ => none

/-- the verdict: the slot changed and (is / is not) named by the diff -/
def verdict (preFix : Bool) : Option (Bool × Bool) :=
  (scenario preFix).map fun (d, old, new) => (decide (old ≠ new), d.changed 0)

end Nomt.Walker.F20
