import NomtModel.Store.CacheLru
import NomtModel.Api.Shards
import NomtModel.Core.Outcome
/-!
# Mirror of `nomt/src/page_cache.rs` (cache part), `nomt/src/beatree/leaf_cache.rs`, `nomt/src/merkle/page_set.rs`

Page ids are `List Nat` (child indices, root `[]`, as in `Core/TriePos.lean`), `depth = length`.  Page contents are an
abstract type `P` (the differential run uses a tag stamped into the page bytes), bucket indices `Nat`.
`HashMap`s are association lists with one entry per key (newest binding first; the order is never observed — the run
compares them sorted).  Every panic site is an `Outcome.panic`:

* `make_shards`: `page_cache_size * 1024 * 1024` (overflow check of a debug build; wraps in release — flag `dbg`),
  `assert!(num_shards > 0)`, `ChildPageIndex::new(..).unwrap()` in `shard_regions`, `NonZeroUsize::new(..).unwrap()`;
* `shard_index_for`: division by zero, the `debug_assert!` on the shard's region, the index `shards[i]`;
* `LeafCache::new`: `max_items / shards`; `shard_index_for`: `% shards.len()`.

`Flags` carries one Boolean per seeded change (all `false` = the code as it is).
-/
namespace Nomt.Cache
open Nomt

abbrev PageId := List Nat

structure Flags where
  /-- seeded `C02-page-cache-fixed-level-off-by-one`: `CacheShardLocked::insert` tests `depth < fixed_levels` -/
  insertLt : Bool := false
  /-- seeded `C13-leaf-cache-full-shard-keeps-stale` / `C13-leaf-cache-budget-skip-insert`:
      `LeafCache::insert` returns early when `len >= max_items` -/
  leafSkipFull : Bool := false
  /-- finding F25 (the code before the repair `6886fe6`): `make_shards` unwraps `NonZeroUsize::new(limit)` instead of
      falling back to one page per shard -/
  f25ZeroLimitUnwrap : Bool := false
deriving Repr, DecidableEq

/-- `CacheEntry` -/
structure Entry (P : Type) where
  page : P
  bucket : Nat
deriving Repr, DecidableEq

/-! ## `CacheShardLocked` -/

structure Shard (P : Type) where
  /-- `fixed_level_cache: HashMap<PageId, CacheEntry>` -/
  fixed : List (PageId × Entry P)
  /-- `cached: LruCache<PageId, CacheEntry>` (unbounded) -/
  cached : Lru PageId (Entry P)
  /-- `CacheShard::page_limit.get()` -/
  pageLimit : Nat
  /-- number of root children of the shard's region (`count` of `shard_regions`) -/
  count : Nat
deriving Repr

namespace Shard
variable {P : Type}

/-- `CacheShardLocked::get` -/
def get (fl : Nat) (s : Shard P) (id : PageId) : Option (Entry P) × Shard P :=
  if id.length ≤ fl then (Lru.find? s.fixed id, s)
  else
    let r := s.cached.get id
    (r.1, { s with cached := r.2 })

/-- `CacheShardLocked::get_or_insert`: `entry(page_id).or_insert_with(entry)` / `LruCache::get_or_insert` -/
def getOrInsert (fl : Nat) (s : Shard P) (id : PageId) (e : Entry P) : Entry P × Shard P :=
  if id.length ≤ fl then
    match Lru.find? s.fixed id with
    | some old => (old, s)
    | none => (e, { s with fixed := (id, e) :: s.fixed })
  else
    let r := s.cached.getOrInsert id e
    (r.1, { s with cached := r.2 })

/-- `CacheShardLocked::insert`: `HashMap::insert` / `LruCache::put` -/
def insert (q : Flags) (fl : Nat) (s : Shard P) (id : PageId) (e : Entry P) : Shard P :=
  if (if q.insertLt then decide (id.length < fl) else decide (id.length ≤ fl)) then
    { s with fixed := (id, e) :: Lru.erase s.fixed id }
  else { s with cached := s.cached.put id e }

/-- `CacheShardLocked::remove`: `HashMap::remove` / `LruCache::pop` -/
def remove (fl : Nat) (s : Shard P) (id : PageId) : Shard P :=
  if id.length ≤ fl then { s with fixed := Lru.erase s.fixed id }
  else { s with cached := s.cached.pop id }

/-- `CacheShardLocked::evict(limit)` with `limit = page_limit` -/
def evict (s : Shard P) : Shard P := { s with cached := s.cached.evict s.pageLimit }

end Shard

/-! ## `make_shards`, `PageCache` -/

def PAGE_SIZE : Nat := 4096

/-- `(page_cache_size * 1024 * 1024) / PAGE_SIZE` in `usize` arithmetic -/
def cachePageLimit (dbg : Bool) (sizeMiB : Nat) : Outcome Unit Nat :=
  if dbg && decide (sizeMiB * 1024 * 1024 > usizeMax) then .panic "attempt to multiply with overflow"
  else .ok (sizeMiB * 1024 * 1024 % 2 ^ 64 / PAGE_SIZE)

/-- `iter.map(f).collect()` where `f` may panic: the first panic wins -/
def mapO {α β : Type} (f : α → Outcome Unit β) : List α → Outcome Unit (List β)
  | [] => .ok []
  | x :: xs =>
    match f x with
    | .ok y =>
      match mapO f xs with
      | .ok ys => .ok (y :: ys)
      | .panic s => .panic s
      | .err e => .err e
    | .panic s => .panic s
    | .err e => .err e

/-- `shard_regions(num_shards)`: `(start, count)` per shard; the two `ChildPageIndex::new(..).unwrap()` -/
def shardRegions (n : Nat) : Outcome Unit (List (Nat × Nat)) :=
  if n = 0 then .panic "division by zero" else
  mapO (fun i =>
    let r := Shards.region n i
    if r.1 % 256 > 63 then .panic "ChildPageIndex::new(start).unwrap()"
    else if r.1 + r.2 = 0 then .panic "start + count - 1 underflow"
    else if (r.1 + r.2 - 1) % 256 > 63 then .panic "ChildPageIndex::new(end).unwrap()"
    else .ok r) (List.range n)

/-- `make_shards(num_shards, page_cache_size)` from the page limit on -/
def makeShardsPages {P : Type} (q : Flags) (n limitPages : Nat) : Outcome Unit (List (Shard P)) :=
  let perChild := limitPages / 64
  if n = 0 then .panic "assert!(num_shards > 0)" else
  match shardRegions n with
  | .panic s => .panic s
  | .err e => .err e
  | .ok regions =>
    mapO (fun (r : Nat × Nat) =>
      if perChild * r.2 = 0 then
        -- `NonZeroUsize::new(limit).unwrap_or(NonZeroUsize::MIN)`; before the repair: `.unwrap()`
        if q.f25ZeroLimitUnwrap then .panic "NonZeroUsize::new(page_limit).unwrap()"
        else .ok { fixed := [], cached := Lru.unbounded, pageLimit := 1, count := r.2 }
      else .ok { fixed := [], cached := Lru.unbounded, pageLimit := perChild * r.2, count := r.2 }) regions

def makeShards {P : Type} (q : Flags) (dbg : Bool) (n sizeMiB : Nat) : Outcome Unit (List (Shard P)) :=
  match cachePageLimit dbg sizeMiB with
  | .ok l => makeShardsPages q n l
  | .panic s => .panic s
  | .err e => .err e

structure PageCache (P : Type) where
  shards : List (Shard P)
  /-- `root_page: RwLock<Option<CacheEntry>>` -/
  root : Option (Entry P)
  fixedLevels : Nat
deriving Repr

namespace PageCache
variable {P : Type}

/-- `PageCache::new(root_page_data, options)` (`commit_concurrency`, `page_cache_size`, `page_cache_upper_levels`) -/
def new (q : Flags) (dbg : Bool) (root : Option (Entry P)) (n sizeMiB fixedLevels : Nat) : Outcome Unit (PageCache P) :=
  match makeShards q dbg n sizeMiB with
  | .ok sh => .ok { shards := sh, root := root, fixedLevels := fixedLevels }
  | .panic s => .panic s
  | .err e => .err e

/-- hook only (`verif_set_page_limit_per_root_child`): overwrite every shard's `page_limit` by
`NonZeroUsize::new(per_child * count).unwrap()` — the run uses it to get limits of 1…3 pages -/
def setLimits (pc : PageCache P) (perChild : Nat) : Outcome Unit (PageCache P) :=
  if pc.shards.any (fun s => perChild * s.count == 0) then .panic "NonZeroUsize::new(page_limit).unwrap()"
  else .ok { pc with shards := pc.shards.map fun s => { s with pageLimit := perChild * s.count } }

/-- the free function `shard_index_for(num_shards, first_ancestor)` with its division-by-zero sites -/
def shardIndexFn (n a : Nat) : Outcome Unit Nat :=
  if n = 0 then .panic "division by zero" else
  let part := 64 / n
  let rem := 64 % n
  if (part + 1) * rem > a then .ok (a / (part + 1))
  else if part = 0 then .panic "division by zero"
  else .ok ((a - (part + 1) * rem) / part + rem)

/-- `PageCache::shard_index_for`: `none` = the root page.  The `debug_assert!` (index `shards[i]`, region contains the
page) is mirrored as always on: in a release build an out-of-range index panics at the later `self.shard(i)` instead. -/
def shardIndexFor (pc : PageCache P) (id : PageId) : Outcome Unit (Option Nat) :=
  match id with
  | [] => .ok none
  | a :: _ =>
    match shardIndexFn pc.shards.length a with
    | .panic s => .panic s
    | .err e => .err e
    | .ok i =>
      if i < pc.shards.length then
        let r := Shards.region pc.shards.length i
        if r.1 ≤ a ∧ a < r.1 + r.2 then .ok (some i) else .panic "debug_assert!(region.contains_exclusive)"
      else .panic "shards[shard_index]"

/-- `PageCache::get` -/
def get (pc : PageCache P) (id : PageId) : Outcome Unit (Option (Entry P) × PageCache P) :=
  match shardIndexFor pc id with
  | .panic s => .panic s
  | .err e => .err e
  | .ok none => .ok (pc.root, pc)
  | .ok (some i) =>
    match pc.shards[i]? with
    | none => .panic "shards[shard_index]"
    | some s =>
      let r := s.get pc.fixedLevels id
      .ok (r.1, { pc with shards := pc.shards.set i r.2 })

/-- `PageCache::insert(page_id, page, bucket)`: returns the entry that is in the cache afterwards -/
def insert (pc : PageCache P) (id : PageId) (e : Entry P) : Outcome Unit (Entry P × PageCache P) :=
  match shardIndexFor pc id with
  | .panic s => .panic s
  | .err e => .err e
  | .ok none =>
    match pc.root with
    | some r => .ok (r, pc)
    | none => .ok (e, { pc with root := some e })
  | .ok (some i) =>
    match pc.shards[i]? with
    | none => .panic "shards[shard_index]"
    | some s =>
      let r := s.getOrInsert pc.fixedLevels id e
      .ok (r.1, { pc with shards := pc.shards.set i r.2 })

/-- one iteration of the loop of `PageCache::batch_update` -/
def update1 (q : Flags) (pc : PageCache P) (id : PageId) (mp : Option (Entry P)) : Outcome Unit (PageCache P) :=
  if id = [] then .ok { pc with root := mp }
  else
    match shardIndexFor pc id with
    | .panic s => .panic s
    | .err e => .err e
    | .ok none => .panic "shard_index_for(..).unwrap()"
    | .ok (some i) =>
      match pc.shards[i]? with
      | none => .panic "shard_guards[shard_index]"
      | some s =>
        match mp with
        | some e => .ok { pc with shards := pc.shards.set i (s.insert q pc.fixedLevels id e) }
        | none => .ok { pc with shards := pc.shards.set i (s.remove pc.fixedLevels id) }

/-- `PageCache::batch_update(updated_pages)` -/
def batchUpdate (q : Flags) (pc : PageCache P) (ups : List (PageId × Option (Entry P))) : Outcome Unit (PageCache P) :=
  match ups with
  | [] => .ok pc
  | (id, mp) :: rest =>
    match update1 q pc id mp with
    | .ok pc' => batchUpdate q pc' rest
    | .panic s => .panic s
    | .err e => .err e

/-- `PageCache::evict` -/
def evict (pc : PageCache P) : PageCache P := { pc with shards := pc.shards.map Shard.evict }

end PageCache

/-! ## `LeafCache` -/

structure LeafShard (L : Type) where
  cache : Lru Nat L
  maxItems : Nat
deriving Repr

structure LeafCache (L : Type) where
  shards : List (LeafShard L)
deriving Repr

namespace LeafCache
variable {L : Type}

/-- `(leaf_cache_size * 1024 * 1024) / PAGE_SIZE` is the same expression as in `make_shards` -/
def new (dbg : Bool) (shards sizeMiB : Nat) : Outcome Unit (LeafCache L) :=
  match cachePageLimit dbg sizeMiB with
  | .panic s => .panic s
  | .err e => .err e
  | .ok maxItems =>
    if shards = 0 then .panic "division by zero" else
    .ok { shards := List.replicate shards { cache := Lru.unbounded, maxItems := maxItems / shards } }

/-- hook only: set `max_items` of every shard (the run uses 0…3) -/
def setMaxItems (lc : LeafCache L) (m : Nat) : LeafCache L :=
  { shards := lc.shards.map fun s => { s with maxItems := m } }

/-- `Shared::shard_index_for`: `hash_one(pn) as usize % shards.len()`; `h` is the `RandomState` hash of the number -/
def shardIndexFor (lc : LeafCache L) (h : Nat) : Outcome Unit Nat :=
  if lc.shards.length = 0 then .panic "remainder by zero" else .ok (h % lc.shards.length)

/-- `LeafCache::get` -/
def get (lc : LeafCache L) (h pn : Nat) : Outcome Unit (Option L × LeafCache L) :=
  match shardIndexFor lc h with
  | .panic s => .panic s
  | .err e => .err e
  | .ok i =>
    match lc.shards[i]? with
    | none => .panic "shards[index]"
    | some s =>
      let r := s.cache.get pn
      .ok (r.1, { shards := lc.shards.set i { s with cache := r.2 } })

/-- `LeafCache::insert` -/
def insert (q : Flags) (lc : LeafCache L) (h pn : Nat) (l : L) : Outcome Unit (LeafCache L) :=
  match shardIndexFor lc h with
  | .panic s => .panic s
  | .err e => .err e
  | .ok i =>
    match lc.shards[i]? with
    | none => .panic "shards[index]"
    | some s =>
      if q.leafSkipFull && decide (s.cache.len ≥ s.maxItems) then .ok lc
      else .ok { shards := lc.shards.set i { s with cache := s.cache.put pn l } }

/-- `LeafCache::evict` -/
def evict (lc : LeafCache L) : LeafCache L :=
  { shards := lc.shards.map fun s => { s with cache := s.cache.evict s.maxItems } }

end LeafCache

/-! ## `PageSet` (`merkle/page_set.rs`) -/

structure PageSet (P O : Type) where
  map : List (PageId × (P × O))
  /-- `warm_up_map: Option<Arc<HashMap<..>>>` -/
  warm : Option (List (PageId × (P × O)))
deriving Repr

namespace PageSet
variable {P O : Type}

/-- `PageSet::new(pool, warmed_up)` -/
def new (warm : Option (List (PageId × (P × O)))) : PageSet P O := { map := [], warm := warm }
/-- `freeze`: only the working map survives -/
def freeze (s : PageSet P O) : List (PageId × (P × O)) := s.map
/-- `contains` looks at the working map only -/
def contains (s : PageSet P O) (id : PageId) : Bool := (Lru.find? s.map id).isSome
/-- `get`: the working map, else the warmed-up one -/
def get (s : PageSet P O) (id : PageId) : Option (P × O) :=
  match Lru.find? s.map id with
  | some x => some x
  | none => match s.warm with
    | some w => Lru.find? w id
    | none => none
/-- `insert` -/
def insert (s : PageSet P O) (id : PageId) (p : P) (o : O) : PageSet P O :=
  { s with map := (id, (p, o)) :: Lru.erase s.map id }

end PageSet

end Nomt.Cache
