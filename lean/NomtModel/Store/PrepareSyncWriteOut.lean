import NomtModel.Store.PrepareSyncCover
/-!
# Redo of the WAL vs. the write-out of the same sync (byte level)

`writeout_vs_redo`: for ANY order `ht'` of the pages `prepare_sync` hands to `write_ht` — the page of every updated
bucket and the slices of the new meta map for a set `C` of meta pages that contains every page on which the meta map
changed — redo of the WAL over the old table `T` succeeds with a table `U` that has the meta bytes of the written-out
table, agrees with it on every bucket no updated page lives in, and holds `redoOf (old bucket) page` where the
write-out holds `page`.  `writeout_eq_redo_iff`: the two tables are equal iff every diff names every slot (below the
elided-children field) in which the page differs from the old content of its bucket (`Covers`).
-/
namespace Nomt.PrepSync
open Nomt Nomt.Wal Nomt.Store

/-- the diff of `d` names every slot in which `d.page` differs from `old` (the conclusion of
`T16_walker_diff_names_changes_partial`, byte-wise; bytes 4032..4056 belong to no slot and count as well) -/
def Covers (old : Bytes) (d : Dirty) : Prop := ∀ o, o < 4056 → o / 32 ∉ d.diff.ones → old[o]? = d.page[o]?

/-- the list `prepare_sync` returns, up to order: data pages of the updated pages, then the meta pages `C` of `M'` -/
def htCanon (off : Nat) (ds : List Dirty) (bs : List Nat) (C : List Nat) (M' : Bytes) : List (Nat × Bytes) :=
  (ups ds bs).map (fun x => (off + x.1, x.2.page)) ++ C.map (fun p => (p, slice M' (p * 4096) 4096))

theorem htCanon_keys_nodup {off : Nat} {ds : List Dirty} {bs : List Nat} {C : List Nat} {M' : Bytes}
    (hnd : ((ups ds bs).map (·.1)).Nodup) (hC : C.Nodup) (hCr : ∀ p ∈ C, p < off) :
    ((htCanon off ds bs C M').map (·.1)).Nodup := by
  unfold htCanon
  rw [List.map_append, List.map_map, List.map_map]
  apply List.nodup_append.2
  refine ⟨?_, ?_, ?_⟩
  · have : ((fun x : Nat × Bytes => x.1) ∘ fun x : Nat × Dirty => (off + x.1, x.2.page)) = (fun b => off + b) ∘ (·.1) := rfl
    rw [this, ← List.map_map]
    exact List.Pairwise.map (fun b => off + b) (fun a b h => by omega) hnd
  · have : ((fun x : Nat × Bytes => x.1) ∘ fun p : Nat => (p, slice M' (p * 4096) 4096)) = id := rfl
    rw [this, List.map_id]; exact hC
  · intro a ha b hb e
    obtain ⟨x, _, rfl⟩ := List.mem_map.1 ha
    obtain ⟨p, hp, rfl⟩ := List.mem_map.1 hb
    have := hCr p hp
    simp only [Function.comp] at e this
    omega

theorem redoOf_eq_page_iff {old : Bytes} {d : Dirty} (hold : old.length = PAGE_SIZE) (hd : UpdOK d)
    (hlab : labelOf d.page = d.pid) : redoOf old d = .ok d.page ↔ Covers old d := by
  unfold redoOf Covers
  rw [← hlab]
  constructor
  · intro h o ho hn
    obtain ⟨F, h1, _, _, _, _, h6⟩ := redoPage_char (old := old) (pid := labelOf d.page) (el := elidedOf d.page) hold hd.plain
      (packedOf_length d.page d.diff) (packedOf_node_length hd.page hd.plain) (labelOf_length hd.page)
    rw [h] at h1
    injection h1 with h1
    subst h1
    exact (h6 o ho hn).symm
  · exact redoPage_reproduces hd.page hold hd.plain

theorem writeout_vs_redo (hash : Bytes → Nat) (off : Nat) (T : Table) (hT : T.WF) (hlen : T.meta.length = off * 4096)
    (ds : List Dirty) (bs : List Nat)
    (hfit : ∀ x ∈ pairs ds bs, x.1 < T.meta.length ∧ (x.2.diff.cleared = false → x.1 < T.pages.length ∧ UpdOK x.2))
    (hnd : ((ups ds bs).map (·.1)).Nodup)
    (C : List Nat) (hC : C.Nodup) (hCr : ∀ p ∈ C, p < off)
    (hCc : ∀ j, T.meta[j]? ≠ (metaRedo hash T.meta ds bs)[j]? → j / 4096 ∈ C)
    (ht' : List (Nat × Bytes)) (hperm : ht'.Perm (htCanon off ds bs C (metaRedo hash T.meta ds bs))) :
    ∃ U, redoAll hash T (entriesOf ds bs) = .ok U ∧ U.WF ∧
      U.meta = (applyHt off T ht').meta ∧
      U.pages.length = (applyHt off T ht').pages.length ∧
      (∀ b, b ∉ (ups ds bs).map (·.1) → U.pages[b]? = (applyHt off T ht').pages[b]?) ∧
      (∀ x ∈ ups ds bs, ∃ F, redoOf (T.pages.getD x.1 []) x.2 = .ok F ∧ U.pages[x.1]? = some F ∧
        (applyHt off T ht').pages[x.1]? = some x.2.page) := by
  obtain ⟨U, h1, h2, h3, h4, h5, h6⟩ := redo_spec hash ds bs T hT hfit hnd
  have hM'len := metaRedo_length hash ds bs T.meta
  -- the list handed to `write_ht`
  have hkeys : (ht'.map (·.1)).Nodup :=
    (hperm.map (·.1)).nodup_iff.2 (htCanon_keys_nodup hnd hC hCr)
  have hmem : ∀ x, x ∈ ht' ↔ x ∈ htCanon off ds bs C (metaRedo hash T.meta ds bs) := fun x => hperm.mem_iff
  have hok : HtOK off T.meta.length ht' := by
    intro x hx
    rw [hmem] at hx
    unfold htCanon at hx
    rcases List.mem_append.1 hx with hx | hx
    · obtain ⟨y, hy, rfl⟩ := List.mem_map.1 hx
      obtain ⟨hy1, hy2⟩ := ups_sub_pairs ds bs y hy
      have := ((hfit y hy1).2 hy2).2.page
      exact ⟨this, fun hlt => by simp only at hlt; omega⟩
    · obtain ⟨p, hp, rfl⟩ := List.mem_map.1 hx
      have hpo := hCr p hp
      have hb : p * 4096 + 4096 ≤ T.meta.length := by
        rw [hlen]
        have : (p + 1) * 4096 ≤ off * 4096 := Nat.mul_le_mul_right _ hpo
        omega
      exact ⟨slice_length (by rw [hM'len]; exact hb), fun _ => hb⟩
  obtain ⟨hl1, hl2⟩ := applyHt_lengths off ht' T hok
  refine ⟨U, h1, h2, ?_, by rw [h4, hl2], ?_, ?_⟩
  · -- meta bytes
    rw [h3]
    apply List.ext_getElem?
    intro j
    by_cases hj : j / 4096 ∈ C
    · have hx : (j / 4096, slice (metaRedo hash T.meta ds bs) (j / 4096 * 4096) 4096) ∈ ht' := by
        rw [hmem]; unfold htCanon
        exact List.mem_append_right _ (List.mem_map.2 ⟨_, hj, rfl⟩)
      have := applyHt_meta_hit off ht' T hok hkeys _ hx (hCr _ hj) (j % 4096) (Nat.mod_lt _ (by omega))
      simp only at this
      have e : j / 4096 * 4096 + j % 4096 = j := by omega
      rw [e] at this
      rw [this, getElem?_slice, if_pos (Nat.mod_lt _ (by omega)), e]
    · rw [applyHt_meta_frame off ht' T hok j]
      · apply Classical.byContradiction
        intro hne
        exact hj (hCc j (fun e => hne e.symm))
      · intro x hx hlt e
        rw [hmem] at hx
        unfold htCanon at hx
        rcases List.mem_append.1 hx with hx | hx
        · obtain ⟨y, _, rfl⟩ := List.mem_map.1 hx
          simp only at hlt; omega
        · obtain ⟨p, hp, rfl⟩ := List.mem_map.1 hx
          simp only at e
          exact hj (e ▸ hp)
  · -- buckets of no updated page
    intro b hb
    rw [h6 b hb, applyHt_pages_frame off ht' T b]
    intro x hx hle e
    rw [hmem] at hx
    unfold htCanon at hx
    rcases List.mem_append.1 hx with hx | hx
    · obtain ⟨y, hy, rfl⟩ := List.mem_map.1 hx
      apply hb
      simp only at e
      have : y.1 = b := by omega
      rw [← this]
      exact List.mem_map_of_mem hy
    · obtain ⟨p, hp, rfl⟩ := List.mem_map.1 hx
      have := hCr p hp
      simp only at hle; omega
  · -- buckets of updated pages
    intro x hx
    obtain ⟨F, a1, a2⟩ := h5 x hx
    refine ⟨F, a1, a2, ?_⟩
    obtain ⟨hx1, hx2⟩ := ups_sub_pairs ds bs x hx
    have hb := ((hfit x hx1).2 hx2).1
    have hin : (off + x.1, x.2.page) ∈ ht' := by
      rw [hmem]; unfold htCanon
      exact List.mem_append_left _ (List.mem_map.2 ⟨x, hx, rfl⟩)
    have := applyHt_pages_hit off ht' T hkeys _ hin (by simp) (by simp only; omega)
    simp only [Nat.add_sub_cancel_left] at this
    exact this

/-- **redo = write-out iff the diffs cover the differences** (byte level) -/
theorem writeout_eq_redo_iff (hash : Bytes → Nat) (off : Nat) (T : Table) (hT : T.WF) (hlen : T.meta.length = off * 4096)
    (ds : List Dirty) (bs : List Nat)
    (hfit : ∀ x ∈ pairs ds bs, x.1 < T.meta.length ∧ (x.2.diff.cleared = false → x.1 < T.pages.length ∧ UpdOK x.2))
    (hlab : ∀ x ∈ ups ds bs, labelOf x.2.page = x.2.pid)
    (hnd : ((ups ds bs).map (·.1)).Nodup)
    (C : List Nat) (hC : C.Nodup) (hCr : ∀ p ∈ C, p < off)
    (hCc : ∀ j, T.meta[j]? ≠ (metaRedo hash T.meta ds bs)[j]? → j / 4096 ∈ C)
    (ht' : List (Nat × Bytes)) (hperm : ht'.Perm (htCanon off ds bs C (metaRedo hash T.meta ds bs))) :
    redoAll hash T (entriesOf ds bs) = .ok (applyHt off T ht') ↔ ∀ x ∈ ups ds bs, Covers (T.pages.getD x.1 []) x.2 := by
  obtain ⟨U, h1, h2, h3, h4, h5, h6⟩ := writeout_vs_redo hash off T hT hlen ds bs hfit hnd C hC hCr hCc ht' hperm
  have hold : ∀ x ∈ ups ds bs, (T.pages.getD x.1 []).length = PAGE_SIZE ∧ UpdOK x.2 := by
    intro x hx
    obtain ⟨hx1, hx2⟩ := ups_sub_pairs ds bs x hx
    obtain ⟨hb, hok⟩ := (hfit x hx1).2 hx2
    refine ⟨?_, hok⟩
    rw [List.getD_eq_getElem?_getD, List.getElem?_eq_getElem hb]
    exact hT _ (List.getElem_mem hb)
  rw [h1]
  constructor
  · intro e x hx
    injection e with e
    obtain ⟨F, a1, a2, a3⟩ := h6 x hx
    rw [e, a3] at a2
    injection a2 with a2
    obtain ⟨o1, o2⟩ := hold x hx
    rw [← a2] at a1
    exact (redoOf_eq_page_iff o1 o2 (hlab x hx)).1 a1
  · intro hcov
    congr 1
    obtain ⟨Um, Up⟩ := U
    have em : Um = (applyHt off T ht').meta := h3
    have ep : Up = (applyHt off T ht').pages := by
      apply List.ext_getElem?
      intro b
      by_cases hb : b ∈ (ups ds bs).map (·.1)
      · obtain ⟨x, hx, rfl⟩ := List.mem_map.1 hb
        obtain ⟨F, a1, a2, a3⟩ := h6 x hx
        obtain ⟨o1, o2⟩ := hold x hx
        rw [(redoOf_eq_page_iff o1 o2 (hlab x hx)).2 (hcov x hx)] at a1
        injection a1 with a1
        simp only at a2
        rw [a2, a3, a1]
      · exact h5 b hb
    rw [em, ep]

end Nomt.PrepSync
