import NomtModel.Store.LeafUpdModel
import NomtModel.Store.BitOpsOrder
/-!
# The real `separate` as the separator function of the leaf-updater model

Keys of the model are the big-endian values of the 32 key bytes; `sepReal` goes through the byte-level mirror of
`bit_ops::separate` (`Store/BitOps.lean`).
-/
namespace Nomt.LeafUpd
open Nomt.BitOps

/-- the 32 big-endian bytes of a key -/
def bytes32 (k : Nat) : List Nat := (List.range 32).map fun i => (k >>> (8 * (31 - i))) % 256

/-- `separate(a, b)` on the 32-byte forms; `none` = panic (equal keys) -/
def sepReal (a b : Nat) : Option Nat := (separate (bytes32 a) (bytes32 b)).map keyNum

end Nomt.LeafUpd
