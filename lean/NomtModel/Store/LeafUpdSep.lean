import NomtModel.Store.LeafUpdBuild
import NomtModel.Store.BitOpsOrder
/-!
# The real `separate` as the separator function of the leaf-updater model

Keys of the model are the big-endian values of the 32 key bytes; `sepReal` goes through the byte-level mirror of
`bit_ops::separate` (`Store/BitOps.lean`); `sepReal_ok`: it satisfies what the leaf-updater proofs ask of a
separator function (`SepOK`) on all 256-bit keys.
-/
namespace Nomt.LeafUpd
open Nomt.BitOps

/-- the 32 big-endian bytes of a key -/
def bytes32 (k : Nat) : List Nat := bytesOfBits (fun p => k.testBit (255 - p)) 32

/-- `separate(a, b)` on the 32-byte forms; `none` = panic (equal keys) -/
def sepReal (a b : Nat) : Option Nat := (separate (bytes32 a) (bytes32 b)).map keyNum

theorem length_bytes32 (k : Nat) : (bytes32 k).length = 32 := length_bytesOfBits _ _
theorem bytes_bytes32 (k : Nat) : Bytes (bytes32 k) := bytes_bytesOfBits _ _

theorem keyNum_bytes32 (k : Nat) (hk : k < 2 ^ 256) : keyNum (bytes32 k) = k := by
  apply Nat.eq_of_testBit_eq
  intro i
  rw [testBit_keyNum _ (bytes_bytes32 k) (length_bytes32 k)]
  by_cases hi : i < 256
  · simp only [hi, decide_true, Bool.true_and]
    unfold bytes32
    rw [bitOf_bytesOfBits _ _ _ (by omega)]
    congr 1; omega
  · simp only [hi, decide_false, Bool.false_and]
    symm
    apply Nat.testBit_lt_two_pow
    exact Nat.lt_of_lt_of_le hk (Nat.pow_le_pow_right (by omega) (by omega))

theorem sepReal_ok : SepOK sepReal (2 ^ 256) := by
  intro a b hab hb
  have ha : a < 2 ^ 256 := by omega
  have hlt : keyNum (bytes32 a) < keyNum (bytes32 b) := by rw [keyNum_bytes32 a ha, keyNum_bytes32 b hb]; exact hab
  obtain ⟨h256, _, _⟩ := first_difference _ _ (bytes_bytes32 a) (bytes_bytes32 b) (length_bytes32 a) (length_bytes32 b) hlt
  have e := separate_eq (bytes32 a) (bytes32 b) (bytes_bytes32 b) (length_bytes32 b) h256
  have g := separator_gt _ _ (bytes_bytes32 a) (bytes_bytes32 b) (length_bytes32 a) (length_bytes32 b) hlt
  have l := prefixPad_le (bytes32 b) (bytes_bytes32 b) (length_bytes32 b) (prefixLen (bytes32 a) (bytes32 b) + 1)
  rw [keyNum_bytes32 a ha] at g
  rw [keyNum_bytes32 b hb] at l
  exact ⟨_, by simp [sepReal, e], g, l⟩

end Nomt.LeafUpd
