import NomtModel.Store.WalkerElision
/-!
# `count_leaves` on a faithful page = the number of leaves of the specified trie that lie in the page

`specCountIn S rem q` counts the leaves of the trie of `S` in the `rem` layers from position `q` downwards (a leaf sits at the
first position where one key is left); `specBelow S rem q` counts the keys that lie deeper (in child pages).  Together they
are all keys below `q` (`specCount_add_below`).  A scan of a page whose slots reachable through internal nodes hold the specified
nodes (`FaithfulFrom`) counts exactly `specCountIn` (`countFrom_spec`, `countLeaves_spec`): the `page_leaves_counter` of a
reconstructed page is the number of leaves in the page, and `PAGE_ELISION_THRESHOLD` is compared with the number of keys below
the page when the `children_leaves_counter` is the number of keys in the child pages.
-/
namespace Nomt.Walker
open Nomt Nomt.TriePos

variable {Node VH : Type} [DecidableEq Node] [DecidableEq VH] (H : Hasher Node VH)

/-- the leaves of the trie of `S` within `rem` layers from `q` -/
def specCountIn (S : List (Key × VH)) : Nat → Path → Nat
  | 0, _ => 0
  | rem + 1, q =>
    if 2 ≤ (sub S q).length ∧ rem ≠ 0 then specCountIn S rem (q ++ [false]) + specCountIn S rem (q ++ [true])
    else if (sub S q).length = 1 then 1 else 0

/-- the keys below `q` whose leaf lies deeper than `rem` layers from `q` -/
def specBelow (S : List (Key × VH)) : Nat → Path → Nat
  | 0, _ => 0
  | rem + 1, q =>
    if 2 ≤ (sub S q).length then
      if rem ≠ 0 then specBelow S rem (q ++ [false]) + specBelow S rem (q ++ [true]) else (sub S q).length
    else 0

/-- every key below `q` is a leaf within the layers or lies below them -/
theorem specCount_add_below (S : List (Key × VH)) : ∀ (rem : Nat) (q : Path), 1 ≤ rem →
    specCountIn S rem q + specBelow S rem q = (sub S q).length := by
  intro rem
  induction rem with
  | zero => intro q h; omega
  | succ rem ih =>
    intro q _
    simp only [specCountIn, specBelow]
    by_cases h2 : 2 ≤ (sub S q).length
    · by_cases hr : rem ≠ 0
      · rw [if_pos ⟨h2, hr⟩, if_pos h2, if_pos hr]
        have h0 := ih (q ++ [false]) (by omega)
        have h1 := ih (q ++ [true]) (by omega)
        have := sub_length_split (S := S) q
        omega
      · rw [if_neg (by intro h; exact hr h.2), if_pos h2, if_neg hr, if_neg (by omega)]
        omega
    · rw [if_neg (by intro h; exact h2 h.1), if_neg h2]
      split <;> omega

/-- the slots of the page that a scan from `q` over `rem` layers can reach (every position on the way is internal) hold the
specified nodes -/
def FaithfulFrom (S : List (Key × VH)) (pg : Page Node) (q : Path) (rem : Nat) : Prop :=
  ∀ r, q <+: r → r.length < q.length + rem → r.length ≤ 256 →
    (∀ x, q <+: x → x <+: r → x ≠ r → 2 ≤ (sub S x).length) →
    pg.nodes.getD (specIndex r) H.term = specNode H S r

theorem faithfulFrom_child (S : List (Key × VH)) (pg : Page Node) (q : Path) (rem : Nat) (b : Bool)
    (h : FaithfulFrom H S pg q (rem + 1)) (h2 : 2 ≤ (sub S q).length) : FaithfulFrom H S pg (q ++ [b]) rem := by
  intro r hpre hlen h256 hanc
  have hq : q <+: r := List.IsPrefix.trans (List.prefix_append _ _) hpre
  apply h r hq (by simp at hlen; omega) h256
  intro x hqx hxr hne
  by_cases hx : x = q
  · rw [hx]; exact h2
  · -- `x` extends `q` properly and is a prefix of `r`, as is `q ++ [b]`: `q ++ [b] <+: x`
    apply hanc x ?_ hxr hne
    obtain ⟨b', rest, hxe⟩ := prefix_strict_cases hqx hx
    have hb : b' = b := by
      obtain ⟨u, hu⟩ := hpre
      obtain ⟨v, hv⟩ := hxr
      rw [hxe] at hv
      rw [← hu] at hv
      simp only [List.append_assoc, List.cons_append, List.nil_append] at hv
      have := List.append_cancel_left hv
      simp at this
      exact this.1
    rw [hxe, hb]
    exact snoc_prefix_of_cons q b rest

/-- **`count_leaves` (one half of the page)**: the scan from the slot of `q` counts the specified leaves -/
theorem countFrom_spec (hs : H.Sound) {S : List (Key × VH)} (hk : KeysOK S) (pg : Page Node) :
    ∀ (rem : Nat) (q : Path), q ≠ [] → specR q.length + rem ≤ 7 → q.length ≤ 256 →
      FaithfulFrom H S pg q rem → countFrom H pg rem (specIndex q) = specCountIn S rem q := by
  intro rem
  induction rem with
  | zero => intro q _ _ _ _; rfl
  | succ rem ih =>
    intro q hq hlay hlen hf
    have hnode : pg.nodes.getD (specIndex q) H.term = specNode H S q :=
      hf q (List.prefix_refl _) (by omega) hlen
        (fun x h1 h2 hne => absurd (h2.eq_of_length (Nat.le_antisymm h2.length_le h1.length_le)) hne)
    have hq256 : q.length ≤ 256 := hlen
    have hkind := kind_specNode H hs hk q hq256
    have hsub := sub_of_kind H hs hk q hq256
    have hcf : countFrom H pg (rem + 1) (specIndex q) =
        if H.kind (specNode H S q) = .internal ∧ rem ≠ 0 then
          countFrom H pg rem (2 * specIndex q + 2) + countFrom H pg rem (2 * specIndex q + 3)
        else if H.kind (specNode H S q) = .leaf then 1 else 0 := by
      rw [← hnode]; rfl
    have hsc : specCountIn S (rem + 1) q =
        if 2 ≤ (sub S q).length ∧ rem ≠ 0 then specCountIn S rem (q ++ [false]) + specCountIn S rem (q ++ [true])
        else if (sub S q).length = 1 then 1 else 0 := rfl
    rw [hcf, hsc]
    by_cases h2 : 2 ≤ (sub S q).length
    · have hki := hkind.2.2 h2
      by_cases hr : rem ≠ 0
      · rw [if_pos ⟨hki, hr⟩, if_pos ⟨h2, hr⟩]
        have h6 : q.length % 6 ≠ 0 := by
          have h1 : 1 ≤ q.length := List.length_pos_iff.mpr hq
          unfold specR at hlay
          omega
        have hlayc : ∀ b : Bool, specR (q ++ [b]).length + rem ≤ 7 := by
          intro b
          have h1 : 1 ≤ q.length := List.length_pos_iff.mpr hq
          simp only [List.length_append, List.length_singleton]
          unfold specR at hlay ⊢
          omega
        have e0 : 2 * specIndex q + 2 = specIndex (q ++ [false]) := by rw [specIndex_snoc q false h6]; rfl
        have e1 : 2 * specIndex q + 3 = specIndex (q ++ [true]) := by rw [specIndex_snoc q true h6]; rfl
        rw [e0, e1]
        have hq255 : q.length < 256 := lt_of_two_le_sub hk q hq256 h2
        rw [ih (q ++ [false]) (by simp) (hlayc false) (by simp; omega) (faithfulFrom_child H S pg q rem false hf h2),
          ih (q ++ [true]) (by simp) (hlayc true) (by simp; omega) (faithfulFrom_child H S pg q rem true hf h2)]
      · have hni : ¬ (H.kind (specNode H S q) = .internal ∧ rem ≠ 0) := fun h => hr h.2
        have hnl : ¬ H.kind (specNode H S q) = .leaf := by rw [hki]; simp
        have hns : ¬ (2 ≤ (sub S q).length ∧ rem ≠ 0) := fun h => hr h.2
        have hn1 : ¬ (sub S q).length = 1 := by omega
        rw [if_neg hni, if_neg hnl, if_neg hns, if_neg hn1]
    · have hni : ¬ (H.kind (specNode H S q) = .internal ∧ rem ≠ 0) := fun h => h2 (hsub.2.2 h.1)
      have hns : ¬ (2 ≤ (sub S q).length ∧ rem ≠ 0) := fun h => h2 h.1
      rw [if_neg hni, if_neg hns]
      by_cases h1 : (sub S q).length = 1
      · obtain ⟨kv, hkv⟩ : ∃ kv, sub S q = [kv] := by
          match hB : sub S q, h1 with
          | [kv], _ => exact ⟨kv, rfl⟩
        rw [if_pos (hkind.2.1 kv hkv), if_pos h1]
      · have hnl : ¬ H.kind (specNode H S q) = .leaf := by
          intro hl
          obtain ⟨kv, hkv⟩ := hsub.2.1 hl
          rw [hkv] at h1; simp at h1
        rw [if_neg h1, if_neg hnl]

/-- **`count_leaves`**: on a page with prefix `pre` whose reachable slots hold the specified nodes, `count_leaves` is the number
of leaves of the trie of `S` that lie in the page, and together with the keys that lie in child pages these are all keys below
the page -/
theorem countLeaves_spec (hs : H.Sound) {S : List (Key × VH)} (hk : KeysOK S) (pg : Page Node) (pre : Path)
    (h6 : pre.length % 6 = 0) (hlen : pre.length < 256)
    (hf0 : FaithfulFrom H S pg (pre ++ [false]) 6) (hf1 : FaithfulFrom H S pg (pre ++ [true]) 6) :
    countLeaves H pg = specCountIn S 6 (pre ++ [false]) + specCountIn S 6 (pre ++ [true]) ∧
    countLeaves H pg + (specBelow S 6 (pre ++ [false]) + specBelow S 6 (pre ++ [true])) = (sub S pre).length := by
  have hlay : ∀ b : Bool, specR (pre ++ [b]).length + 6 ≤ 7 := by
    intro b
    simp only [List.length_append, List.length_singleton]
    unfold specR
    omega
  have e0 : specIndex (pre ++ [false]) = 0 := by rw [specIndex_single_page_start pre false h6]; rfl
  have e1 : specIndex (pre ++ [true]) = 1 := by rw [specIndex_single_page_start pre true h6]; rfl
  have c0 := countFrom_spec H hs hk pg 6 (pre ++ [false]) (by simp) (hlay false) (by simp; omega) hf0
  have c1 := countFrom_spec H hs hk pg 6 (pre ++ [true]) (by simp) (hlay true) (by simp; omega) hf1
  rw [e0] at c0
  rw [e1] at c1
  have hc : countLeaves H pg = specCountIn S 6 (pre ++ [false]) + specCountIn S 6 (pre ++ [true]) := by
    unfold countLeaves; rw [c0, c1]
  refine ⟨hc, ?_⟩
  have a0 := specCount_add_below S 6 (pre ++ [false]) (by omega)
  have a1 := specCount_add_below S 6 (pre ++ [true]) (by omega)
  have := sub_length_split (S := S) pre
  omega

end Nomt.Walker
