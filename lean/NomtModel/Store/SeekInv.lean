import NomtModel.Store.SeekSpec
import NomtModel.Store.SeekIter
/-!
# The invariant of the seek state machine

* `World` — the static data a seek runs against (`Env`) together with the specification side: the hasher, the
  session's view, the page universe `U` (what the in-memory sources and the hash table answer) and the set `G` of the
  page ids that are live in it (reachable from the root page through non-elided children).
* `World.OK` — the hypotheses of the theorems: the view is the b-tree's content with the overlay's value changes
  applied, `U` REPRESENTS the view (`Rep`: every live page holds the reference node in every slot below an internal
  parent; a child page is either live or flagged elided, and then holds fewer than `PAGE_ELISION_THRESHOLD` leaves),
  and `Env.recon` fulfils the contract of `reconstruct_pages` (`ReconOK`).
* `SysInv` — the invariant of `Sys`: every page of the page set is good for the view, the in-memory sources agree with
  `U`, every request is `ReqOK`: its position is a prefix of its key through internal nodes only, its siblings are the
  specified ones, and its state is consistent (the page it will ask for is available, the iterator of a fetch holds
  exactly what is left of the key range, a completed request holds the specified proof).
-/
namespace Nomt.Seek
open Nomt Nomt.Ovl Nomt.TriePos

variable {Node VH V : Type} [DecidableEq Node] [DecidableEq VH]

/-- `PAGE_ELISION_THRESHOLD` -/
def THRESHOLD : Nat := 20

structure World (Node VH V : Type) where
  env : Env Node VH V
  H : Hasher Node VH
  view : KVL VH
  U : PageId → Option (MPage Node)
  G : PageId → Prop

/-- `(k, v) ↦ (k, vh v)` -/
def vhMap (vh : V → VH) (l : KVL V) : KVL VH := l.map (fun e => (e.1, vh e.2))

/-- every proper prefix of `bs` from the top of its page on is an internal node of the view's trie -/
def Through (view : KVL VH) (from_ : Nat) (bs : List Bool) : Prop :=
  ∀ j, from_ ≤ j → j < bs.length → 2 ≤ (under (bs.take j) view).length

/-- the page `P` holds the reference node in every slot below an internal parent -/
def Faithful (H : Hasher Node VH) (view : KVL VH) (P : PageId) (pg : MPage Node) : Prop :=
  ∀ bs : List Bool, bs ≠ [] → bs.length ≤ KEY_BITS → specPage bs = P → Through view (6 * P.length) bs →
    pg.nodes (specIndex bs) = specNode H view bs

/-- the child pages of `P` that exist: flagged elided ⇒ fewer than the threshold of leaves; not flagged ⇒ at hand -/
def ChildOK (view : KVL VH) (G : PageId → Prop) (ps : PageSet Node) (P : PageId) (pg : MPage Node) : Prop :=
  ∀ bs : List Bool, bs.length = 6 * (P.length + 1) → bs.length ≤ KEY_BITS → specPage bs = P →
    Through view (6 * P.length) bs → 2 ≤ (under bs view).length →
    (pg.isElided (loadBE (lp bs)) = true → (under bs view).length < THRESHOLD) ∧
    (pg.isElided (loadBE (lp bs)) = false → (∃ x, ps.get (sextetsOf bs) = some x) ∨ G (sextetsOf bs))

def PGood (W : World Node VH V) (ps : PageSet Node) (P : PageId) (pg : MPage Node) : Prop :=
  Faithful W.H W.view P pg ∧ ChildOK W.view W.G ps P pg

/-- `U` represents the view -/
def Rep (W : World Node VH V) : Prop :=
  W.G [] ∧ ∀ P, W.G P → 2 ≤ (under (pidBits P) W.view).length → ∃ pg, W.U P = some pg ∧ PGood W {} P pg

/-- every page of the page set is good -/
def PSInv (W : World Node VH V) (ps : PageSet Node) : Prop :=
  ∀ P pg o, ps.get P = some (pg, o) → PGood W ps P pg

/-- the page set only grows -/
def Ext (ps ps' : PageSet Node) : Prop := ∀ P, (∃ x, ps.get P = some x) → ∃ x, ps'.get P = some x

/-- the contract of `reconstruct_pages` + the insert loop (`Env.recon`) -/
def ReconOK (W : World Node VH V) : Prop :=
  ∀ (page : MPage Node) (P : PageId) (pos : Pos) (ps : PageSet Node),
    pos.WF → pos.path ≠ [] → pos.depth % 6 = 0 → specPage pos.path = P →
    (ps.contains (sextetsOf pos.path) = true → ∀ leaves, W.env.recon page P pos ps leaves = .ok ps) ∧
    (ps.contains (sextetsOf pos.path) = false → 2 ≤ (under pos.path W.view).length →
      (under pos.path W.view).length < THRESHOLD → page.node pos.nodeIndex = some (specNode W.H W.view pos.path) →
      PSInv W ps →
      ∃ ps', W.env.recon page P pos ps (under pos.path W.view) = .ok ps' ∧ PSInv W ps' ∧ Ext ps ps' ∧
        ∃ x, ps'.get (sextetsOf pos.path) = some x)

structure World.OK (W : World Node VH V) : Prop where
  sound : W.H.Sound
  kind : W.env.kind = W.H.kind
  root : W.env.root = nodeAt W.H KEY_BITS 0 W.view
  -- the b-tree
  prim : OvSorted W.env.primary
  sec : OvSorted W.env.secondary
  leaves : LeavesOK W.env.leaves
  firstSep : ∀ l ∈ W.env.leaves.head?, ∀ k : Key, k.length = KEY_BITS → bitsLt k l.sep = false
  -- the overlay
  ov : OvSorted W.env.ov
  -- the view
  viewEq : W.view = kvApply (vhMap W.env.vh (baseOf W.env.primary W.env.secondary W.env.leaves)) W.env.ov
  viewLen : ∀ kv ∈ W.view, kv.1.length = KEY_BITS
  baseLen : ∀ kv ∈ baseOf W.env.primary W.env.secondary W.env.leaves, kv.1.length = KEY_BITS
  ovLen : ∀ e ∈ W.env.ov, e.1.length = KEY_BITS
  -- the pages
  rep : Rep W
  recon : ReconOK W

/-- the in-memory sources (overlay pages, page cache) and the hash table answer `U` -/
def MemOK (W : World Node VH V) (cache : List (PageId × MPage Node)) : Prop :=
  ∀ p, (match W.env.ovPages.lookup p with
        | some pg => some pg
        | none => match cache.lookup p with
          | some pg => some pg
          | none => W.env.disk.lookup p) = W.U p

/-! ### one request -/

structure Trail (W : World Node VH V) (r : Req Node VH V) : Prop where
  klen : r.key.length = KEY_BITS
  wf : r.pos.WF
  raw : r.pos.raw = r.key.take r.pos.depth ++ List.replicate (KEY_BITS - r.pos.depth) false
  through : Through W.view 0 (r.key.take r.pos.depth)
  sibs : r.sibs = if W.env.record then specSibs W.H W.view r.key r.pos.depth else []

/-- `page_id` is the page the position lives in -/
def PidOK (r : Req Node VH V) : Prop :=
  r.pageId = if r.pos.depth = 0 then none else some (specPage (r.key.take r.pos.depth))

/-- `beforeStop`-prefix of the pending leaves: what `NeededLeavesIter` yields -/
def tw (it : BtIt V) : List (Leaf V) := it.leaf.pending.takeWhile (fun l => beforeStop it.leaf.stop l.sep)

/-- a fetch at rest: the iterator is blocked on a leaf, and `needed_leaves` is in step with it -/
structure ItRest (W : World Node VH V) (it : BtIt V) (needed : List Nat) (aw : Option Query) : Prop where
  inv : BtInv it
  shape : Shape W.env.leaves it.leaf
  blocked : it.leaf.st = .blocked
  need : match aw with
    | none => needed = needList (W.env.leaves.length - it.leaf.pending.length) (tw it).length
    | some (.leaf l) => l = W.env.leaves.length - it.leaf.pending.length ∧
        needed = needList (W.env.leaves.length - it.leaf.pending.length + 1) ((tw it).length - 1)
    | some (.page _) => False

/-- the proof `Updater::prove` makes of a completed seek -/
def resultProof (pos : Pos) (sibs : List Node) (t : Option (Key × VH)) : PathProof Node VH :=
  { terminal := match t with | some (k, v) => .leaf k v | none => .terminator pos.path, siblings := sibs }

def StOK (W : World Node VH V) (ps : PageSet Node) (r : Req Node VH V) (aw : Option Query) : Prop :=
  match r.st with
  | .seeking =>
    r.pos.depth % 6 = 0 ∧ 2 ≤ (under (r.key.take r.pos.depth) W.view).length ∧
    ((∃ x, ps.get (sextetsOf (r.key.take r.pos.depth)) = some x) ∨ W.G (sextetsOf (r.key.take r.pos.depth))) ∧
    (aw = none ∨ (aw = some (.page (sextetsOf (r.key.take r.pos.depth))) ∧ W.G (sextetsOf (r.key.take r.pos.depth)) ∧
      W.env.ovPages.lookup (sextetsOf (r.key.take r.pos.depth)) = none ∧
      W.U (sextetsOf (r.key.take r.pos.depth)) = W.env.disk.lookup (sextetsOf (r.key.take r.pos.depth))))
  | .fetchingLeaf dels it needed =>
    ∃ k0 v0, under (r.key.take r.pos.depth) W.view = [(k0, v0)] ∧
      fetchLoop (vhMap W.env.vh it.spec) dels = .ok (k0, v0) ∧ ItRest W it needed aw
  | .fetchingLeaves page range it needed coll =>
    0 < r.pos.depth ∧ r.pos.depth % 6 = 0 ∧ 2 ≤ (under (r.key.take r.pos.depth) W.view).length ∧
    (under (r.key.take r.pos.depth) W.view).length < THRESHOLD ∧
    page.node r.pos.nodeIndex = some (specNode W.H W.view (r.key.take r.pos.depth)) ∧
    (∀ k : Key, k.length = KEY_BITS → (inRange range.1 range.2 k = true ↔ (r.key.take r.pos.depth).isPrefixOf k = true)) ∧
    coll ++ vhMap W.env.vh it.spec =
      vhMap W.env.vh ((baseOf W.env.primary W.env.secondary W.env.leaves).filter (fun e => inRange range.1 range.2 e.1)) ∧
    ItRest W it needed aw
  | .completed t =>
    aw = none ∧ resultProof r.pos r.sibs t =
      (if W.env.record then proveSpec W.H KEY_BITS W.view r.key
       else { proveSpec W.H KEY_BITS W.view r.key with siblings := [] })

def ReqOK (W : World Node VH V) (ps : PageSet Node) (r : Req Node VH V) (aw : Option Query) : Prop :=
  Trail W r ∧ PidOK r ∧ StOK W ps r aw

/-- the number of b-tree leaves a fetch may still ask for (`none`: not fetching) -/
def fetchPend : RState Node VH V → Option Nat
  | .fetchingLeaf _ it _ => some it.leaf.pending.length
  | .fetchingLeaves _ _ it _ _ => some it.leaf.pending.length
  | _ => none

structure SysInv (W : World Node VH V) (s : Sys Node VH V) : Prop where
  ps : PSInv W s.ps
  mem : MemOK W s.cache
  reqs : ∀ x ∈ s.reqs, ReqOK W s.ps x.1 x.2

end Nomt.Seek
