import NomtModel.Store.BitOpsNode
/-!
# Mirror of `BranchNodeBuilder` (`nomt/src/beatree/branch/node.rs`) on byte pages

`new`, `push` (`set_prefix`, `set_separator`, `set_node_pointer`) and `push_chunk` with both separator paths — the
fast path (one `bitwise_memcpy` over all copied separators) and `copy_and_shift_separators` (carried prefix bits +
one shifted copy per separator) — with the range arithmetic of every `bitwise_memcpy` call site exactly as in the
Rust.  `none` = panic (assertions, slice / index bounds, arithmetic underflow, `u16::try_from(..).unwrap()`, a panic
of `bitwise_memcpy` or `get_key`).  Executable; run against the real builder by `vharness bitops` (`bn …` lines).
-/
namespace Nomt.BitOps

def PAGE_SIZE : Nat := 4096

/-- `slice[o..o+2].copy_from_slice(&(v as u16).to_le_bytes())` -/
def setU16 (pg : List Nat) (o v : Nat) : Option (List Nat) :=
  if o + 2 ≤ pg.length then some (writeAt pg o [v % 256, v / 256 % 256]) else none

/-- `slice[o..o+4].copy_from_slice(&v.to_le_bytes())` for a `u32` -/
def setU32 (pg : List Nat) (o v : Nat) : Option (List Nat) :=
  if o + 4 ≤ pg.length then some (writeAt pg o [v % 256, v / 256 % 256, v / 65536 % 256, v / 16777216 % 256]) else none

/-- `bits[pos .. pos + bits.len()].copy_from_bitslice(bits)` on the bit view of the page (in range by the caller) -/
def writeBits (pg : List Nat) (pos : Nat) (bits : List Bool) : List Nat :=
  let b0 := pos / 8
  let b1 := (pos + bits.length + 7) / 8
  let f := fun p => if pos ≤ p ∧ p < pos + bits.length then bits.getD (p - pos) false else bitOf pg p
  writeAt pg b0 ((List.range (b1 - b0)).map fun k => byteOfBits f (b0 + k))

/-- bits `[a, a+len)` of a key -/
def keyBitsOf (key : List Nat) (a len : Nat) : List Bool := (List.range len).map fun t => bitOf key (a + t)

structure Builder where
  page : List Nat
  index : Nat
  prefixLen : Nat
  prefixCompressed : Nat
  sepBitOffset : Nat
deriving Repr

/-- `BranchNodeBuilder::new(branch, n, prefix_compressed, prefix_len)` (the header fields are `as u16`) -/
def builderNew (pg : List Nat) (n pc pl : Nat) : Option Builder :=
  (setU16 pg 4 (n % 65536)).bind fun p1 =>
  (setU16 p1 6 (pc % 65536)).bind fun p2 =>
  (setU16 p2 8 (pl % 65536)).map fun p3 =>
  { page := p3, index := 0, prefixLen := pl, prefixCompressed := pc, sepBitOffset := 0 }

/-- `BranchNode::set_prefix(key)`: note the source is the whole 32-byte key whatever `prefix_len` is -/
def setPrefix (pg : List Nat) (key : List Nat) : Option (List Nat) :=
  (nodeN pg).bind fun n =>
  (nodePl pg).bind fun pl =>
  let start := BRANCH_HEADER + n * 2
  let stop := start + ((pl + 7) / 8 + 7) / 8 * 8
  (sliceOf pg start stop).bind fun dst =>
  (bitwiseMemcpy dst 0 key 0 pl).map fun out => writeAt pg start out

/-- `BranchNode::set_node_pointer(i, pn)` -/
def setNodePointer (pg : List Nat) (i pn : Nat) : Option (List Nat) :=
  (nodeN pg).bind fun n =>
  if n < i then none                                   -- `n - i` underflows
  else if PAGE_SIZE < (n - i) * 4 then none            -- `BRANCH_NODE_SIZE - …` underflows
  else setU32 pg (PAGE_SIZE - (n - i) * 4) pn

/-- `BranchNode::set_separator(i, separator, bit_offset_start, bit_offset_end)` -/
def setSeparator (pg : List Nat) (i : Nat) (sep : List Bool) (offStart offEnd : Nat) : Option (List Nat) :=
  (nodeN pg).bind fun n =>
  (nodePl pg).bind fun pl =>
  (setU16 pg (BRANCH_HEADER + i * 2) (offEnd % 65536)).bind fun p1 =>
  let sepStart := BRANCH_HEADER + n * 2
  if p1.length < sepStart then none                               -- `slice[separators_start..]`
  else
    let nbits := 8 * (p1.length - sepStart)
    if nbits < pl then none                                       -- `[prefix_len..]`
    else if offEnd < offStart ∨ nbits - pl < offEnd then none     -- `[start..end]`
    else if offEnd - offStart ≠ sep.length then none              -- `copy_from_bitslice` length assertion
    else some (writeBits p1 (8 * sepStart + pl + offStart) sep)

/-- `BranchNodeBuilder::push(key, separator_len, pn)` -/
def builderPush (b : Builder) (key : List Nat) (sepLen pn : Nat) : Option Builder :=
  (nodeN b.page).bind fun n =>
  if ¬ (b.index < n) then none                                     -- assert!
  else
    (if b.index = 0 then setPrefix b.page key else some b.page).bind fun p0 =>
    (if b.index < b.prefixCompressed then
        let sl := sepLen - b.prefixLen
        if 256 < b.prefixLen ∨ 256 - b.prefixLen < sl then none    -- `view_bits()[prefix_len..][..separator_len]`
        else some (sl, keyBitsOf key b.prefixLen sl)
      else
        if 256 < sepLen then none else some (sepLen, keyBitsOf key 0 sepLen)).bind fun (sl, sep) =>
    let offStart := b.sepBitOffset
    let offEnd := b.sepBitOffset + sl
    (setSeparator p0 b.index sep offStart offEnd).bind fun p1 =>
    (setNodePointer p1 b.index pn).map fun p2 =>
    { b with page := p2, index := b.index + 1, sepBitOffset := offEnd }

/-- step 1 of `push_chunk`: copy and update cells; returns the page and the new `cell_pointer` -/
def copyCells (base : List Nat) (frm isExt diff : Nat) : (k nItems : Nat) → (idx : Nat) → (pg : List Nat) → (basePrev cellPtr : Nat) →
    Option (List Nat × Nat)
  | _, 0, _, pg, _, cellPtr => some (pg, cellPtr)
  | k, nItems + 1, idx, pg, basePrev, cellPtr =>
    (nodeCell base (frm + k)).bind fun baseCell =>
    if baseCell < basePrev then none                               -- `base_cell_pointer - base_prev_cell_pointer`
    else
      let sl0 := baseCell - basePrev
      let sl := if isExt = 1 then sl0 + diff else sl0 - diff
      let cp := cellPtr + sl
      if 65536 ≤ cp then none                                      -- `u16::try_from(cell_pointer).unwrap()`
      else
        (setU16 pg (BRANCH_HEADER + (idx + k) * 2) cp).bind fun pg' =>
        copyCells base frm isExt diff (k + 1) nItems idx pg' baseCell cp

/-- `handle_prefix_offset` -/
def handlePrefixOffset (bitStart byteInit : Nat) : Nat × Nat :=
  if 7 < bitStart then (bitStart % 8, byteInit + bitStart / 8) else (bitStart, byteInit)

/-- the per-separator body of `copy_and_shift_separators` -/
def copyShiftOne (pg base : List Nat) (index baseIndex : Nat) (carry : Option (Nat × Nat × Nat)) (isExt diff : Nat) :
    Option (List Nat) :=
  (rawSeparatorsData pg index (index + 1)).bind fun (sStart, sLen, sBitStart, sBitLen) =>
  (rawSeparatorsData base baseIndex (baseIndex + 1)).bind fun (bStart, bLen, bBitStart, bBitLen) =>
  (match carry with
   | some (pStart, pEnd, pBitStart) =>
     (sliceOf pg sStart (sStart + sLen)).bind fun d =>
     (sliceOf base pStart pEnd).bind fun s =>
     (bitwiseMemcpy d sBitStart s pBitStart diff).map fun out => writeAt pg sStart out
   | none => some pg).bind fun pg1 =>
  let (sBitStart', sStart', bBitStart', bStart', bLen', bitLen) :=
    if isExt = 1 then
      let (bs, st) := handlePrefixOffset (sBitStart + diff) sStart
      (bs, st, bBitStart, bStart, bLen, bBitLen)
    else
      let (bs, st) := handlePrefixOffset (bBitStart + diff) bStart
      let bl := sBitLen
      (sBitStart, sStart, bs, st, (if bl = 0 then 0 else ((bs + bl + 7) / 8 + 7) / 8 * 8), bl)
  (sliceOf pg1 sStart' (sStart' + sLen)).bind fun d =>
  (sliceOf base bStart' (bStart' + bLen')).bind fun s =>
  (bitwiseMemcpy d sBitStart' s bBitStart' bitLen).map fun out => writeAt pg1 sStart' out

def copyShiftLoop (base : List Nat) (carry : Option (Nat × Nat × Nat)) (isExt diff : Nat) :
    (nItems index baseIndex : Nat) → List Nat → Option (List Nat)
  | 0, _, _, pg => some pg
  | nItems + 1, index, baseIndex, pg =>
    (copyShiftOne pg base index baseIndex carry isExt diff).bind fun pg' =>
    copyShiftLoop base carry isExt diff nItems (index + 1) (baseIndex + 1) pg'

/-- `copy_and_shift_separators(base, range, base_range, is_prefix_extension, bit_prefix_len_difference)` -/
def copyAndShiftSeparators (pg base : List Nat) (index nItems frm isExt diff : Nat) : Option (List Nat) :=
  if nItems = 0 then some pg
  else
    (if isExt = 1 then
      (nodePl base).bind fun plBase =>
      (nodeN base).bind fun nBase =>
      if plBase < diff then none
      else
        let bitsToSkip := plBase - diff
        let start := BRANCH_HEADER + nBase * 2 + bitsToSkip / 8
        let pBitStart := bitsToSkip % 8
        let byteLen := ((pBitStart + diff + 7) / 8 + 7) / 8 * 8
        some (some (start, start + byteLen, pBitStart))
     else some none).bind fun carry =>
    copyShiftLoop base carry isExt diff nItems index frm pg

def applyUpdated (index : Nat) : List (Nat × Nat) → List Nat → Option (List Nat)
  | [], pg => some pg
  | (i, pn) :: r, pg => (setNodePointer pg (index + i) pn).bind (applyUpdated index r)

/-- `BranchNodeBuilder::push_chunk(base, from, to, updated)` -/
def builderPushChunk (b : Builder) (base : List Nat) (frm to : Nat) (updated : List (Nat × Nat)) : Option Builder :=
  if to < frm then none                                             -- `to - from`
  else
    let nItems := to - frm
    (nodePc b.page).bind fun pcNew =>
    if ¬ (b.index + nItems ≤ pcNew) then none                       -- assert!
    else
      (if b.index = 0 then (getKey base frm).bind (setPrefix b.page) else some b.page).bind fun p0 =>
      (nodePl base).bind fun plBase =>
      (nodePl p0).bind fun plNew =>
      (nodeN base).bind fun nBase =>
      (nodeN p0).bind fun nNew =>
      let isExt := if plNew < plBase then 1 else 0
      let diff := if plNew < plBase then plBase - plNew else plNew - plBase
      -- 1. cells
      (if frm ≠ 0 then nodeCell base (frm - 1) else some 0).bind fun basePrev =>
      if ¬ (BRANCH_HEADER + nBase * 2 < PAGE_SIZE - BRANCH_HEADER) ∨ nBase < to then none          -- `cells()[from..to]`
      else if ¬ (BRANCH_HEADER + nNew * 2 < PAGE_SIZE - BRANCH_HEADER) ∨ nNew < b.index + nItems then none  -- `cells_mut()[…]`
      else
        (copyCells base frm isExt diff 0 nItems b.index p0 basePrev b.sepBitOffset).bind fun (p1, cellPtr) =>
        -- 2. node pointers
        if ¬ (nBase * 4 < PAGE_SIZE) ∨ ¬ (nNew * 4 < PAGE_SIZE) then none
        else
          let src := (base.drop (PAGE_SIZE - nBase * 4 + frm * 4)).take (nItems * 4)
          let p2 := writeAt p1 (PAGE_SIZE - nNew * 4 + b.index * 4) src
          (applyUpdated b.index updated p2).bind fun p3 =>
          -- 3. separators
          (if diff = 0 then
            (rawSeparatorsData p3 b.index (b.index + nItems)).bind fun (sStart, sLen, sBitStart, _) =>
            (sliceOf p3 sStart (sStart + sLen)).bind fun d =>
            (rawSeparators base frm to).bind fun (bBytes, bBitStart, bBitLen) =>
            (bitwiseMemcpy d sBitStart bBytes bBitStart bBitLen).map fun out => writeAt p3 sStart out
           else copyAndShiftSeparators p3 base b.index nItems frm isExt diff).map fun p4 =>
          { b with page := p4, index := b.index + nItems, sepBitOffset := cellPtr }

end Nomt.BitOps
