import NomtModel.Store.SegFrame
/-!
# `rollback::delta::Delta::{encode, decode}` — executable model

A delta maps 32-byte key paths to the prior value (`None`: the key did not exist).  `encode` writes the keys to
erase (`u32 LE` count, keys), then the keys to reinstate (`u32 LE` count; key, `u32 LE` value length, value).  The
Rust iterates a `HashMap`, so the order inside each group is arbitrary: the model takes the two groups as lists in
iteration order.  `decode` reads with `read_exact` from a cursor, inserts into one hash map and bails on a key it
has already inserted (in either group); bytes after the second group are ignored.
-/
namespace Nomt.Seg

abbrev Bytes := List UInt8

structure Priors where
  erase : List Bytes
  reinstate : List (Bytes × Bytes)
deriving DecidableEq, Repr

def encReinstate (kv : Bytes × Bytes) : Bytes := kv.1 ++ leBytes 4 kv.2.length ++ kv.2

def deltaEncode (d : Priors) : Bytes :=
  leBytes 4 d.erase.length ++ d.erase.flatMap id ++ leBytes 4 d.reinstate.length ++ d.reinstate.flatMap encReinstate

inductive DErr where
  | eof             -- `read_exact`: "failed to fill whole buffer"
  | dupErase        -- "duplicate key path (erase)"
  | dupReinstate    -- "duplicate key path (reinstate)"
deriving DecidableEq, Repr

/-- the hash map under construction, in insertion order -/
abbrev PMap := List (Bytes × Option Bytes)

def readExact (n : Nat) (bs : Bytes) : Option (Bytes × Bytes) :=
  if bs.length < n then none else some (bs.take n, bs.drop n)

def hasKey (m : PMap) (k : Bytes) : Bool := m.any (fun x => x.1 == k)

def decErase : Nat → Bytes → PMap → Except DErr (PMap × Bytes)
  | 0, bs, m => .ok (m, bs)
  | c + 1, bs, m =>
    match readExact 32 bs with
    | none => .error .eof
    | some (k, rest) => if hasKey m k then .error .dupErase else decErase c rest (m ++ [(k, none)])

def decReinstate : Nat → Bytes → PMap → Except DErr (PMap × Bytes)
  | 0, bs, m => .ok (m, bs)
  | c + 1, bs, m =>
    match readExact 32 bs with
    | none => .error .eof
    | some (k, r1) =>
      match readExact 4 r1 with
      | none => .error .eof
      | some (l, r2) =>
        match readExact (leVal l) r2 with
        | none => .error .eof
        | some (v, r3) => if hasKey m k then .error .dupReinstate else decReinstate c r3 (m ++ [(k, some v)])

def deltaDecode (bs : Bytes) : Except DErr PMap :=
  match readExact 4 bs with
  | none => .error .eof
  | some (c, r1) =>
    match decErase (leVal c) r1 [] with
    | .error x => .error x
    | .ok (m, r2) =>
      match readExact 4 r2 with
      | none => .error .eof
      | some (c2, r3) =>
        match decReinstate (leVal c2) r3 m with
        | .error x => .error x
        | .ok (m', _) => .ok m'

/-- the map a `Priors` value stands for -/
def Priors.toMap (d : Priors) : PMap :=
  d.erase.map (fun k => (k, none)) ++ d.reinstate.map (fun kv => (kv.1, some kv.2))

end Nomt.Seg
