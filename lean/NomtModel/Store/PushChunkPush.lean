import NomtModel.Store.PushChunkRt
/-!
# `BranchNodeBuilder::push` on the byte-level mirror, in the same layout framework as `push_chunk`

`builderPush` (`Store/BitOpsBuilder.lean`) under its preconditions: no panic, the new cell is
`separator_bit_offset + stored length`, **`get_key` of the new item is the pushed key**, its node pointer is the
pushed page number, and nothing the earlier items decode from is touched.  Together with `builderPushChunk_spec`
this gives the round trip for every sequence of `push` / `push_chunk` calls (`Props/C16_PushChunk.lean`).
Also: what `push_chunk` leaves of the EARLIER items (`pushChunk_keeps`).
-/
namespace Nomt.BitOps

theorem getD_keyBitsOf (key : List Nat) (a len t : Nat) (ht : t < len) : (keyBitsOf key a len).getD t false = bitOf key (a + t) := by
  unfold keyBitsOf
  rw [List.getD_eq_getElem?_getD, List.getElem?_map, List.getElem?_range ht]
  rfl

theorem length_keyBitsOf (key : List Nat) (a len : Nat) : (keyBitsOf key a len).length = len := by simp [keyBitsOf]

theorem writeBits_spec (pg : List Nat) (pos : Nat) (bits : List Bool) (hB : Bytes pg) (h : pos + bits.length ≤ 8 * pg.length) :
    (writeBits pg pos bits).length = pg.length ∧ Bytes (writeBits pg pos bits) ∧
    ∀ p, bitOf (writeBits pg pos bits) p = if pos ≤ p ∧ p < pos + bits.length then bits.getD (p - pos) false else bitOf pg p := by
  have hmap : (List.range ((pos + bits.length + 7) / 8 - pos / 8)).map
      (fun k => byteOfBits (fun p => if pos ≤ p ∧ p < pos + bits.length then bits.getD (p - pos) false else bitOf pg p) (pos / 8 + k)) =
      bytesOfBits (fun q => if pos ≤ 8 * (pos / 8) + q ∧ 8 * (pos / 8) + q < pos + bits.length then
        bits.getD (8 * (pos / 8) + q - pos) false else bitOf pg (8 * (pos / 8) + q)) ((pos + bits.length + 7) / 8 - pos / 8) := by
    unfold bytesOfBits
    apply List.map_congr_left
    intro k _
    unfold byteOfBits
    congr 1
    funext t
    have e : 8 * (pos / 8 + k) + t = 8 * (pos / 8) + (8 * k + t) := by omega
    rw [e]
  unfold writeBits
  simp only []
  rw [hmap]
  have hl : (bytesOfBits (fun q => if pos ≤ 8 * (pos / 8) + q ∧ 8 * (pos / 8) + q < pos + bits.length then
        bits.getD (8 * (pos / 8) + q - pos) false else bitOf pg (8 * (pos / 8) + q)) ((pos + bits.length + 7) / 8 - pos / 8)).length =
      (pos + bits.length + 7) / 8 - pos / 8 := length_bytesOfBits _ _
  refine ⟨length_writeAt _ _ _ (by rw [hl]; omega), bytes_writeAt hB (bytes_bytesOfBits _ _) _, ?_⟩
  intro p
  rw [bitOf_writeAt _ _ _ _ (by omega), hl]
  by_cases h1 : p < 8 * (pos / 8)
  · rw [if_pos h1, if_neg (by omega)]
  · rw [if_neg h1]
    by_cases h2 : p < 8 * (pos / 8 + ((pos + bits.length + 7) / 8 - pos / 8))
    · rw [if_pos h2, bitOf_bytesOfBits _ _ _ (by omega)]
      have e : 8 * (pos / 8) + (p - 8 * (pos / 8)) = p := by omega
      rw [e]
    · rw [if_neg h2, if_neg (by omega)]

/-- bit `p` of the key stored at an item that is not prefix-compressed -/
theorem storedKeyBit_plain (pg : List Nat) (n pc pl s e i p : Nat) (hi : ¬ i < pc) :
    storedKeyBit pg n pc pl s e i p = compKeyBit (fun q => bitOf pg (8 * (10 + n * 2) + pl + q)) 0 s (e - s) p := by
  unfold storedKeyBit compKeyBit
  simp only [if_neg hi, BRANCH_HEADER, Nat.not_lt_zero, if_false, Nat.zero_add, Nat.sub_zero]
  have e1 : ∀ q, 8 * (10 + 2 * n) + q = 8 * (10 + n * 2) + q := by intro q; omega
  simp only [e1]
  split
  · congr 1; omega
  · rfl

/-- `get_key` of a page whose item `i` sits between cells `s` and `e`, compared bit by bit with a key -/
theorem getKey_eq_key {pg : List Nat} {n pc pl : Nat} {cell : Nat → Nat} {m : Nat} (L : Lay pg n pc pl cell m) (last : Nat)
    (F : Fit n pl last) (i : Nat) (hi : i < m) (hin : i < n) (hmono : prevCell cell i ≤ cell i) (hlast : cell i ≤ last)
    (htot : (if i < pc then pl else 0) + (cell i - prevCell cell i) ≤ 256) (key : List Nat) (hk : Bytes key) (hkl : key.length = 32)
    (hbits : ∀ p, p < 256 → storedKeyBit pg n pc pl (prevCell cell i) (cell i) i p = bitOf key p) :
    getKey pg i = some key := by
  have hNode : NodeOK pg n pc pl (prevCell cell i) (cell i) last i :=
    ⟨L.bytes, L.len, L.hn, L.hpc, L.hpl, L.prev i (by omega), L.hcell i hi, F.hn, hin, F.hpl, hmono, hlast, htot, F.fit⟩
  rw [getKey_spec _ _ _ _ _ _ _ _ hNode]
  apply congrArg some
  have := bytesOfBits_bitOf key hk
  rw [hkl] at this
  rw [← this]
  exact bytesOfBits_congr _ _ 32 (fun p hp => hbits p (by omega))

/-- `get_key` only reads the prefix bits and the item's own separator bits -/
theorem getKey_frame (pg pg' : List Nat) (n pc pl s e last i : Nat) (h : NodeOK pg n pc pl s e last i)
    (h' : NodeOK pg' n pc pl s e last i)
    (hb : ∀ p, 8 * (10 + n * 2) ≤ p → p < 8 * (10 + n * 2) + pl + e → bitOf pg' p = bitOf pg p) :
    getKey pg' i = getKey pg i := by
  rw [getKey_spec _ _ _ _ _ _ _ _ h, getKey_spec _ _ _ _ _ _ _ _ h']
  apply congrArg some
  apply bytesOfBits_congr
  intro p _
  have htot := h.total
  have hmono := h.mono
  unfold storedKeyBit
  simp only [BRANCH_HEADER]
  by_cases hc : i < pc
  · simp only [if_pos hc] at htot ⊢
    split
    · exact hb _ (by omega) (by omega)
    · split
      · exact hb _ (by omega) (by omega)
      · rfl
  · simp only [if_neg hc] at htot ⊢
    split
    · omega
    · split
      · exact hb _ (by omega) (by omega)
      · rfl

/-- what `push_chunk` leaves of an earlier item: its key reads back unchanged -/
theorem pushChunk_keeps (b : Builder) (base : List Nat) (frm to : Nat) (updated : List (Nat × Nat))
    (nN pcN plN : Nat) (cOld : Nat → Nat) (nB pcB plB : Nat) (cB : Nat → Nat) (lastN lastB : Nat)
    (H : ChunkPre b base frm to updated nN pcN plN cOld nB pcB plB cB lastN lastB) (j : Nat) (hj : j < b.index)
    (hN : NodeOK b.page nN pcN plN (prevCell cOld j) (cOld j) lastN j) (hle : cOld j ≤ b.sepBitOffset)
    (b' : Builder) (hb' : builderPushChunk b base frm to updated = some b') :
    getKey b'.page j = getKey b.page j := by
  obtain ⟨b'', e1, _, _, _, _, L4, _, _, _, _, fr⟩ := builderPushChunk_spec b base frm to updated nN pcN plN cOld nB pcB plB cB lastN lastB H
  rw [hb'] at e1
  cases e1
  have hnc : newCells cOld cB b.index b.sepBitOffset frm (extOf plN plB) (diffOf plN plB) j = cOld j := by
    unfold newCells; rw [if_pos hj]
  have hpc : prevCell (newCells cOld cB b.index b.sepBitOffset frm (extOf plN plB) (diffOf plN plB)) j = prevCell cOld j := by
    unfold prevCell
    by_cases h0 : j = 0
    · rw [if_pos h0, if_pos h0]
    · rw [if_neg h0, if_neg h0]; unfold newCells; rw [if_pos (by omega)]
  have hN' : NodeOK b'.page nN pcN plN (prevCell cOld j) (cOld j) lastN j :=
    ⟨L4.bytes, L4.len, L4.hn, L4.hpc, L4.hpl, by rw [← hpc]; exact L4.prev j (by omega), by rw [← hnc]; exact L4.hcell j (by omega),
      hN.npos, hN.hi, hN.pl256, hN.mono, hN.elast, hN.total, hN.fit⟩
  exact getKey_frame b.page b'.page nN pcN plN _ _ lastN j hN hN' fun p h1 h2 => fr (by omega) p (by right; omega)

/-- the preconditions of `push(key, separator_len, pn)` -/
structure PushPre (b : Builder) (key : List Nat) (sepLen pn : Nat) (nN pcN plN : Nat) (cOld : Nat → Nat) (lastN : Nat) : Prop where
  LN : Lay b.page nN pcN plN cOld b.index
  hoff : prevCell cOld b.index = b.sepBitOffset
  hbpl : b.prefixLen = plN
  hbpc : b.prefixCompressed = pcN
  /-- `assert!(self.index < self.branch.n())` -/
  hidx : b.index < nN
  FN : Fit nN plN lastN
  hk : Bytes key
  hkl : key.length = 32
  /-- the separator is at most a key long -/
  hsl : sepLen ≤ 256
  /-- capacity: the stored bits of the new separator are counted in the gauge -/
  hcp : b.sepBitOffset + (if b.index < pcN then sepLen - plN else sepLen) ≤ lastN
  hpn : pn < 4294967296
  /-- `separator_len` is not shorter than the key: the bits behind it are zero -/
  hzero : ∀ p, sepLen ≤ p → p < 256 → bitOf key p = false
  /-- a prefix-compressed key starts with the node's prefix (set by the first call) -/
  hpre : b.index ≠ 0 → b.index < pcN → ∀ q, q < plN → bitOf b.page (8 * (10 + nN * 2) + q) = bitOf key q

/-- stored length of the pushed separator -/
def pushLen (idx pcN plN sepLen : Nat) : Nat := if idx < pcN then sepLen - plN else sepLen

theorem push_prefix (b : Builder) (key : List Nat) (sepLen pn : Nat) (nN pcN plN : Nat) (cOld : Nat → Nat) (lastN : Nat)
    (H : PushPre b key sepLen pn nN pcN plN cOld lastN) :
    ∃ p0, (if b.index = 0 then setPrefix b.page key else some b.page) = some p0 ∧ Lay p0 nN pcN plN cOld b.index ∧
      (b.index < pcN → ∀ q, q < plN → bitOf p0 (8 * (10 + nN * 2) + q) = bitOf key q) ∧ (b.index ≠ 0 → p0 = b.page) := by
  obtain ⟨LN, hoff, hbpl, hbpc, hidx, FN, hk, hkl, hsl, hcp, hpn, hzero, hpre⟩ := H
  by_cases h0 : b.index = 0
  · rw [if_pos h0]
    rw [h0] at LN
    have hroom : 10 + nN * 2 + ((plN + 7) / 8 + 7) / 8 * 8 ≤ 4096 := by
      obtain ⟨fit, hlast, hpl, hn⟩ := FN
      by_cases h1 : nN = 1
      · subst h1; omega
      · omega
    obtain ⟨p0, a1, a2, a3, a4, a5⟩ := setPrefix_spec b.page key nN pcN plN cOld LN hk hkl FN.hpl hroom
    refine ⟨p0, a1, ?_, fun _ q hq => a4 q hq, fun h => absurd h0 h⟩
    rw [h0]
    exact LN.of_agree a2 a3 fun i hi => a5 i (by left; omega)
  · rw [if_neg h0]
    exact ⟨b.page, rfl, LN, fun hc q hq => hpre h0 hc q hq, fun _ => rfl⟩

/-- **the whole `push`** -/
theorem builderPush_spec (b : Builder) (key : List Nat) (sepLen pn : Nat) (nN pcN plN : Nat) (cOld : Nat → Nat) (lastN : Nat)
    (H : PushPre b key sepLen pn nN pcN plN cOld lastN) :
    ∃ b', builderPush b key sepLen pn = some b' ∧ b'.index = b.index + 1 ∧
      b'.sepBitOffset = b.sepBitOffset + pushLen b.index pcN plN sepLen ∧
      b'.prefixLen = b.prefixLen ∧ b'.prefixCompressed = b.prefixCompressed ∧
      Lay b'.page nN pcN plN (fun i => if i < b.index then cOld i else b.sepBitOffset + pushLen b.index pcN plN sepLen) (b.index + 1) ∧
      getKey b'.page b.index = some key ∧ ptrVal b'.page nN b.index = pn ∧
      (b.index ≠ 0 → ∀ j, j < nN → j ≠ b.index → ptrVal b'.page nN j = ptrVal b.page nN j) ∧
      (b.index ≠ 0 → ∀ p, (p < 8 * (10 + 2 * b.index) ∨ (8 * (10 + nN * 2) ≤ p ∧ p < 8 * (10 + nN * 2) + plN + b.sepBitOffset)) →
        bitOf b'.page p = bitOf b.page p) := by
  obtain ⟨p0, hp0, L0, hpre0, hsame⟩ := push_prefix b key sepLen pn nN pcN plN cOld lastN H
  obtain ⟨LN, hoff, hbpl, hbpc, hidx, FN, hk, hkl, hsl, hcp, hpn, hzero, hpre⟩ := H
  have hfit := FN.fit
  have hplN := FN.hpl
  have hcp' : b.sepBitOffset + pushLen b.index pcN plN sepLen ≤ lastN := hcp
  have hslb : (if b.index < pcN then plN else 0) + pushLen b.index pcN plN sepLen ≤ 256 := by
    unfold pushLen; split <;> omega
  -- the separator handed to `set_separator`
  have hsel : (if b.index < b.prefixCompressed then
        let sl := sepLen - b.prefixLen
        if 256 < b.prefixLen ∨ 256 - b.prefixLen < sl then none else some (sl, keyBitsOf key b.prefixLen sl)
      else if 256 < sepLen then none else some (sepLen, keyBitsOf key 0 sepLen)) =
      some (pushLen b.index pcN plN sepLen, keyBitsOf key (if b.index < pcN then plN else 0) (pushLen b.index pcN plN sepLen)) := by
    rw [hbpl, hbpc]
    unfold pushLen
    by_cases hc : b.index < pcN
    · simp only [if_pos hc]
      rw [if_neg (by intro h; rcases h with h | h <;> omega)]
    · simp only [if_neg hc]
      rw [if_neg (by omega)]
  -- the cell
  obtain ⟨p1, s1, s2, s3, s4, s5⟩ := setU16_spec p0 (BRANCH_HEADER + b.index * 2) ((b.sepBitOffset + pushLen b.index pcN plN sepLen) % 65536)
    (by simp only [BRANCH_HEADER]; rw [L0.len]; omega) (Nat.mod_lt _ (by decide)) L0.bytes
  rw [Nat.mod_eq_of_lt (by omega)] at s4
  simp only [BRANCH_HEADER] at s4 s5
  -- the bits
  have hW := writeBits_spec p1 (8 * (10 + nN * 2) + plN + b.sepBitOffset)
    (keyBitsOf key (if b.index < pcN then plN else 0) (pushLen b.index pcN plN sepLen)) s3
    (by rw [length_keyBitsOf, s2, L0.len]; omega)
  rw [length_keyBitsOf] at hW
  obtain ⟨w1, w2, w3⟩ := hW
  have hsetsep : setSeparator p0 b.index (keyBitsOf key (if b.index < pcN then plN else 0) (pushLen b.index pcN plN sepLen))
      b.sepBitOffset (b.sepBitOffset + pushLen b.index pcN plN sepLen) =
      some (writeBits p1 (8 * (10 + nN * 2) + plN + b.sepBitOffset)
        (keyBitsOf key (if b.index < pcN then plN else 0) (pushLen b.index pcN plN sepLen))) := by
    unfold setSeparator
    simp only [L0.hn, L0.hpl, Option.bind_some, s1, BRANCH_HEADER]
    rw [s2, L0.len, if_neg (by omega), if_neg (by omega), if_neg (by intro h; rcases h with h | h <;> omega),
      if_neg (by rw [length_keyBitsOf]; omega)]
  -- the node pointer
  have hn2 : nodeN (writeBits p1 (8 * (10 + nN * 2) + plN + b.sepBitOffset)
      (keyBitsOf key (if b.index < pcN then plN else 0) (pushLen b.index pcN plN sepLen))) = some nN := by
    rw [← L0.hn]; unfold nodeN
    have hb : ∀ i, i < 10 → (writeBits p1 (8 * (10 + nN * 2) + plN + b.sepBitOffset)
        (keyBitsOf key (if b.index < pcN then plN else 0) (pushLen b.index pcN plN sepLen))).getD i 0 = p0.getD i 0 := by
      intro i hi
      rw [← s5 i (by left; omega)]
      exact getD_eq_of_bits w2 s3 i fun u hu => by rw [w3, if_neg (by omega)]
    exact u16At_congr (by rw [w1, s2]) 4 (hb 4 (by omega)) (hb 5 (by omega))
  obtain ⟨p3, t1, t2, t3, t4, t5⟩ := setU32_spec (writeBits p1 (8 * (10 + nN * 2) + plN + b.sepBitOffset)
      (keyBitsOf key (if b.index < pcN then plN else 0) (pushLen b.index pcN plN sepLen))) (4096 - nN * 4 + b.index * 4) pn
    (by rw [w1, s2, L0.len]; omega) hpn w2
  have hsetptr : setNodePointer (writeBits p1 (8 * (10 + nN * 2) + plN + b.sepBitOffset)
      (keyBitsOf key (if b.index < pcN then plN else 0) (pushLen b.index pcN plN sepLen))) b.index pn = some p3 := by
    unfold setNodePointer
    rw [hn2, Option.bind_some, if_neg (by omega), if_neg (by simp only [PAGE_SIZE]; omega)]
    have e : PAGE_SIZE - (nN - b.index) * 4 = 4096 - nN * 4 + b.index * 4 := by simp only [PAGE_SIZE]; omega
    rw [e, t1]
  -- the bits of the final page
  have hbit3 : ∀ p, p < 8 * (4096 - nN * 4) → bitOf p3 p =
      if 8 * (10 + nN * 2) + plN + b.sepBitOffset ≤ p ∧ p < 8 * (10 + nN * 2) + plN + b.sepBitOffset + pushLen b.index pcN plN sepLen then
        (keyBitsOf key (if b.index < pcN then plN else 0) (pushLen b.index pcN plN sepLen)).getD
          (p - (8 * (10 + nN * 2) + plN + b.sepBitOffset)) false
      else bitOf p1 p := by
    intro p hp
    rw [bitOf_eq_of_getD p (t5 (p / 8) (by left; omega)), w3]
  have hbyte3 : ∀ i, i < 10 + nN * 2 → p3.getD i 0 = p1.getD i 0 := by
    intro i hi
    rw [t5 i (by left; omega)]
    exact getD_eq_of_bits w2 s3 i fun u hu => by rw [w3, if_neg (by omega)]
  have L3 : Lay p3 nN pcN plN (fun i => if i < b.index then cOld i else b.sepBitOffset + pushLen b.index pcN plN sepLen) (b.index + 1) := by
    refine ⟨t3, by rw [t2, w1, s2, L0.len], ?_, ?_, ?_, ?_⟩
    · rw [← L0.hn]; unfold nodeN
      exact u16At_congr (by rw [t2, w1, s2]) 4 (by rw [hbyte3 4 (by omega), s5 4 (by left; omega)])
        (by rw [hbyte3 5 (by omega), s5 5 (by left; omega)])
    · rw [← L0.hpc]; unfold nodePc
      exact u16At_congr (by rw [t2, w1, s2]) 6 (by rw [hbyte3 6 (by omega), s5 6 (by left; omega)])
        (by rw [hbyte3 7 (by omega), s5 7 (by left; omega)])
    · rw [← L0.hpl]; unfold nodePl
      exact u16At_congr (by rw [t2, w1, s2]) 8 (by rw [hbyte3 8 (by omega), s5 8 (by left; omega)])
        (by rw [hbyte3 9 (by omega), s5 9 (by left; omega)])
    · intro i hi
      unfold nodeCell
      simp only [BRANCH_HEADER]
      by_cases hlt : i < b.index
      · simp only [if_pos hlt]
        rw [← L0.hcell i hlt]
        unfold nodeCell
        simp only [BRANCH_HEADER]
        exact u16At_congr (by rw [t2, w1, s2]) _ (by rw [hbyte3 _ (by omega), s5 _ (by left; omega)])
          (by rw [hbyte3 _ (by omega), s5 _ (by left; omega)])
      · have hi' : i = b.index := by omega
        subst hi'
        simp only [if_neg hlt]
        rw [← s4]
        have e : 10 + 2 * b.index = 10 + b.index * 2 := by omega
        rw [e]
        exact u16At_congr (by rw [t2, w1]) _ (hbyte3 _ (by omega)) (hbyte3 _ (by omega))
  have hprevI : prevCell (fun i => if i < b.index then cOld i else b.sepBitOffset + pushLen b.index pcN plN sepLen) b.index = b.sepBitOffset := by
    rw [← hoff]
    unfold prevCell
    by_cases h0 : b.index = 0
    · rw [if_pos h0, if_pos h0]
    · rw [if_neg h0, if_neg h0]; simp only [if_pos (show b.index - 1 < b.index by omega)]
  have hcellI : (fun i => if i < b.index then cOld i else b.sepBitOffset + pushLen b.index pcN plN sepLen) b.index =
      b.sepBitOffset + pushLen b.index pcN plN sepLen := by simp
  refine ⟨{ b with page := p3, index := b.index + 1, sepBitOffset := b.sepBitOffset + pushLen b.index pcN plN sepLen }, ?_,
    rfl, rfl, rfl, rfl, L3, ?_, ?_, ?_, ?_⟩
  · unfold builderPush
    rw [LN.hn, Option.bind_some, if_neg (by omega), hp0, Option.bind_some, hsel, Option.bind_some]
    simp only []
    rw [hsetsep, Option.bind_some, hsetptr, Option.map_some]
  · show getKey p3 b.index = some key
    apply getKey_eq_key L3 lastN FN b.index (by omega) hidx
      (by rw [hprevI]; simp only [Nat.lt_irrefl, if_false]; omega) (by simp only [Nat.lt_irrefl, if_false]; exact hcp')
      (by rw [hprevI]; simp only [Nat.lt_irrefl, if_false]
          have : b.sepBitOffset + pushLen b.index pcN plN sepLen - b.sepBitOffset = pushLen b.index pcN plN sepLen := by omega
          rw [this]; exact hslb) key hk hkl
    intro p hp
    rw [hprevI]
    simp only [Nat.lt_irrefl, if_false]
    unfold storedKeyBit
    simp only [BRANCH_HEADER]
    have hsub : b.sepBitOffset + pushLen b.index pcN plN sepLen - b.sepBitOffset = pushLen b.index pcN plN sepLen := by omega
    rw [hsub]
    by_cases h1 : p < (if b.index < pcN then plN else 0)
    · rw [if_pos h1]
      have hc : b.index < pcN := by
        by_cases hc : b.index < pcN
        · exact hc
        · rw [if_neg hc] at h1; omega
      rw [if_pos hc] at h1
      rw [hbit3 _ (by omega), if_neg (by omega), bitOf_eq_of_getD _ (s5 _ (by right; omega))]
      have := hpre0 hc p h1
      rw [← this]; congr 1; omega
    · rw [if_neg h1]
      by_cases h2 : p < (if b.index < pcN then plN else 0) + pushLen b.index pcN plN sepLen
      · rw [if_pos h2, hbit3 _ (by omega), if_pos (by omega), getD_keyBitsOf _ _ _ _ (by omega)]
        congr 1; omega
      · rw [if_neg h2]
        symm
        apply hzero p _ hp
        unfold pushLen at h2
        split at h2 <;> omega
  · show ptrVal p3 nN b.index = pn
    exact t4
  · intro h0 j hj hne
    show ptrVal p3 nN j = ptrVal b.page nN j
    rw [← hsame h0]
    unfold ptrVal
    apply u32Val_congr
    intro r hr
    rw [t5 _ (by omega)]
    rw [getD_eq_of_bits w2 s3 _ fun u hu => by rw [w3, if_neg (by omega)]]
    exact s5 _ (by right; omega)
  · intro h0 p hp
    show bitOf p3 p = bitOf b.page p
    rw [← hsame h0, hbit3 p (by omega), if_neg (by omega)]
    exact bitOf_eq_of_getD p (s5 _ (by omega))

end Nomt.BitOps
