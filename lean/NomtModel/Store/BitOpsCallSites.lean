import NomtModel.Store.BitOpsBuilder
/-!
# The `bitwise_memcpy` call sites of `BranchNodeBuilder::push_chunk`

`raw_separators` always yields a source that satisfies the contract of `bitwise_memcpy`; the fast path and one
iteration of `copy_and_shift_separators` (prefix extension: carried prefix bits + shifted separator; prefix growth:
separator without its first bits) copy **exactly the intended bits and change nothing else** — the property the
defects F13 (source too long: last bits lost) and F14 (source too short: panic / bits dropped) violated.
-/
namespace Nomt.BitOps

/-- copying into `page[start .. start+dl]` inside the contract: the page afterwards -/
theorem memcpy_into_page (pg : List Nat) (start dl dbs : Nat) (src : List Nat) (sbs len : Nat)
    (hpg : Bytes pg) (hsrc : Bytes src) (hr : start + dl ≤ pg.length) (g : MemcpyGuard dl dbs src.length sbs len) :
    ∃ pg', ((sliceOf pg start (start + dl)).bind fun d =>
        (bitwiseMemcpy d dbs src sbs len).map fun out => writeAt pg start out) = some pg' ∧
      pg'.length = pg.length ∧ Bytes pg' ∧
      (∀ i, i < len → bitOf pg' (8 * start + dbs + i) = bitOf src (sbs + i)) ∧
      (∀ p, (p < 8 * start + dbs ∨ 8 * start + dbs + len ≤ p) → bitOf pg' p = bitOf pg p) := by
  have hdl : ((pg.drop start).take dl).length = dl := by rw [List.length_take, List.length_drop]; omega
  have hdB : Bytes ((pg.drop start).take dl) := bytes_take (bytes_drop hpg _) _
  have hspec := bitwiseMemcpy_spec (dst := (pg.drop start).take dl) (dbs := dbs) (sbs := sbs) (len := len) hdB hsrc
    (by rw [hdl]; exact g)
  have hol : (memcpySpec ((pg.drop start).take dl) dbs src sbs len).length = dl := by rw [length_memcpySpec, hdl]
  refine ⟨writeAt pg start (memcpySpec ((pg.drop start).take dl) dbs src sbs len), ?_, ?_, ?_, ?_, ?_⟩
  · unfold sliceOf
    rw [if_pos ⟨by omega, hr⟩, Option.bind_some, Nat.add_sub_cancel_left, hspec, Option.map_some]
  · rw [length_writeAt _ _ _ (by rw [hol]; exact hr)]
  · exact bytes_writeAt hpg (bytes_memcpySpec _ _ _ _ _) _
  · intro i hi
    have hroom : dbs + i < 8 * dl := by rcases g with g | ⟨_, _, _, g4⟩ <;> omega
    rw [bitOf_writeAt _ _ _ _ (by omega), hol, if_neg (by omega), if_pos (by omega)]
    unfold memcpySpec
    rw [bitOf_bytesOfBits _ _ _ (by rw [hdl]; omega)]
    unfold memcpyBit
    rw [if_pos (by omega)]
    congr 1; omega
  · intro p hp
    rw [bitOf_writeAt _ _ _ _ (by omega), hol]
    by_cases h1 : p < 8 * start
    · rw [if_pos h1]
    · rw [if_neg h1]
      by_cases h2 : p < 8 * (start + dl)
      · rw [if_pos h2]
        unfold memcpySpec
        rw [bitOf_bytesOfBits _ _ _ (by rw [hdl]; omega)]
        unfold memcpyBit
        rw [if_neg (by omega), bitOf_slice]
        have : p - 8 * start < 8 * dl := by omega
        simp only [this, decide_true, Bool.true_and]
        congr 1; omega
      · rw [if_neg h2]

/-- what `raw_separators_data` returns: the bit offset is inside the first byte and the byte length is the smallest
multiple of 8 bytes that holds the bits from that offset on -/
theorem rawSeparatorsData_shape (pg : List Nat) (frm to start byteLen bitStart bitLen : Nat)
    (h : rawSeparatorsData pg frm to = some (start, byteLen, bitStart, bitLen)) :
    bitStart ≤ 7 ∧ byteLen = (if bitLen = 0 then 0 else ((bitStart + bitLen + 7) / 8 + 7) / 8 * 8) := by
  unfold rawSeparatorsData at h
  cases h1 : nodePl pg with
  | none => simp [h1] at h
  | some pl =>
    cases h2 : nodeN pg with
    | none => simp [h1, h2] at h
    | some n =>
      cases h3 : (if frm ≠ 0 then nodeCell pg (frm - 1) else some 0) with
      | none => simp [h1, h2, h3] at h
      | some c0 =>
        by_cases h4 : to = 0
        · simp [h1, h2, h3, h4] at h
        · cases h5 : nodeCell pg (to - 1) with
          | none => simp [h1, h2, h3, h4, h5] at h
          | some c1 =>
            simp only [h1, h2, h3, h4, h5, Option.bind_some, if_false] at h
            by_cases h6 : pl + c1 < pl + c0
            · simp [h6] at h
            · simp only [h6, if_false, Option.some.injEq, Prod.mk.injEq] at h
              obtain ⟨_, hb, hs, hl⟩ := h
              subst hs hl
              refine ⟨by omega, ?_⟩
              rw [← hb]

/-- **`raw_separators` always hands `bitwise_memcpy` a source inside its contract** -/
theorem rawSeparators_guard (pg : List Nat) (frm to : Nat) (bytes : List Nat) (bitStart bitLen : Nat)
    (h : rawSeparators pg frm to = some (bytes, bitStart, bitLen)) :
    bitStart ≤ 7 ∧ (bitLen = 0 ∨ bytes.length / 8 = (bitStart + bitLen + 63) / 64) := by
  unfold rawSeparators at h
  cases hd : rawSeparatorsData pg frm to with
  | none => simp [hd] at h
  | some d =>
    obtain ⟨start, byteLen, bs, bl⟩ := d
    simp only [hd, Option.bind_some] at h
    obtain ⟨h7, hlen⟩ := rawSeparatorsData_shape pg frm to start byteLen bs bl hd
    unfold sliceOf at h
    by_cases hr : start ≤ start + byteLen ∧ start + byteLen ≤ pg.length
    · simp only [hr, and_self, if_true, Option.map_some, Option.some.injEq, Prod.mk.injEq] at h
      obtain ⟨hb, hs, hl⟩ := h
      subst hs hl
      refine ⟨h7, ?_⟩
      by_cases h0 : bl = 0
      · left; exact h0
      · right
        rw [← hb, List.length_take, List.length_drop, Nat.add_sub_cancel_left, Nat.min_eq_left (by omega), hlen, if_neg h0]
        omega
    · exfalso
      simp [hr] at h
      omega


theorem handlePrefixOffset_eq (bs st : Nat) : handlePrefixOffset bs st = (bs % 8, st + bs / 8) := by
  unfold handlePrefixOffset
  split
  · rfl
  · have h1 : bs % 8 = bs := by omega
    have h2 : bs / 8 = 0 := by omega
    rw [h1, h2, Nat.add_zero]

theorem sliceOf_eq (pg : List Nat) (a m : Nat) (h : a + m ≤ pg.length) : sliceOf pg a (a + m) = some ((pg.drop a).take m) := by
  unfold sliceOf
  rw [if_pos ⟨by omega, h⟩, Nat.add_sub_cancel_left]

theorem bytes_slice {pg : List Nat} (h : Bytes pg) (a m : Nat) : Bytes ((pg.drop a).take m) := bytes_take (bytes_drop h _) _
theorem length_slice (pg : List Nat) (a m : Nat) (h : a + m ≤ pg.length) : ((pg.drop a).take m).length = m := by
  rw [List.length_take, List.length_drop]; omega

/-- one iteration of `copy_and_shift_separators` when the prefix GROWS (new prefix longer by `diff`): the new
separator `index` receives the base separator without its first `diff` bits; nothing else changes -/
theorem copyShiftOne_grow (pg base : List Nat) (index baseIndex diff : Nat)
    (sStart sLen sBitStart sBitLen bStart bLen bBitStart bBitLen : Nat)
    (pgB : Bytes pg) (baseB : Bytes base)
    (hs : rawSeparatorsData pg index (index + 1) = some (sStart, sLen, sBitStart, sBitLen))
    (hb : rawSeparatorsData base baseIndex (baseIndex + 1) = some (bStart, bLen, bBitStart, bBitLen))
    (hlen : sBitLen = bBitLen - diff)
    (hr1 : sStart + sLen ≤ pg.length)
    (hr2 : bStart + (bBitStart + diff) / 8 +
      (if sBitLen = 0 then 0 else (((bBitStart + diff) % 8 + sBitLen + 7) / 8 + 7) / 8 * 8) ≤ base.length) :
    ∃ pg', copyShiftOne pg base index baseIndex none 0 diff = some pg' ∧ pg'.length = pg.length ∧ Bytes pg' ∧
      (∀ t, t < sBitLen → bitOf pg' (8 * sStart + sBitStart + t) = bitOf base (8 * bStart + bBitStart + diff + t)) ∧
      (∀ p, (p < 8 * sStart + sBitStart ∨ 8 * sStart + sBitStart + sBitLen ≤ p) → bitOf pg' p = bitOf pg p) := by
  obtain ⟨hs7, hsl⟩ := rawSeparatorsData_shape _ _ _ _ _ _ _ hs
  have hsrcL := length_slice base (bStart + (bBitStart + diff) / 8)
    (if sBitLen = 0 then 0 else (((bBitStart + diff) % 8 + sBitLen + 7) / 8 + 7) / 8 * 8) hr2
  have g : MemcpyGuard sLen sBitStart
      ((base.drop (bStart + (bBitStart + diff) / 8)).take
        (if sBitLen = 0 then 0 else (((bBitStart + diff) % 8 + sBitLen + 7) / 8 + 7) / 8 * 8)).length
      ((bBitStart + diff) % 8) sBitLen := by
    by_cases h0 : sBitLen = 0
    · left; exact h0
    · right
      rw [hsrcL, if_neg h0]
      rw [if_neg h0] at hsl
      refine ⟨by omega, hs7, by omega, by omega⟩
  obtain ⟨pg', h1, h2, h3, h4, h5⟩ := memcpy_into_page pg sStart sLen sBitStart _ ((bBitStart + diff) % 8) sBitLen pgB
    (bytes_slice baseB _ _) hr1 g
  refine ⟨pg', ?_, h2, h3, ?_, h5⟩
  · unfold copyShiftOne
    simp only [hs, hb, Option.bind_some, handlePrefixOffset_eq, show ¬ ((0 : Nat) = 1) by decide, if_false]
    rw [sliceOf_eq _ _ _ hr1] at h1 ⊢
    rw [sliceOf_eq _ _ _ hr2]
    simp only [Option.bind_some] at h1 ⊢
    exact h1
  · intro t ht
    rw [h4 t ht, bitOf_slice]
    have h0 : ¬ sBitLen = 0 := by omega
    have : (bBitStart + diff) % 8 + t < 8 * (if sBitLen = 0 then 0 else (((bBitStart + diff) % 8 + sBitLen + 7) / 8 + 7) / 8 * 8) := by
      rw [if_neg h0]; omega
    simp only [this, decide_true, Bool.true_and]
    congr 1; omega

/-- one iteration of `copy_and_shift_separators` when the prefix SHRINKS by `diff` bits (prefix extension of the
separators): the new separator `index` receives the last `diff` bits of the base prefix followed by the whole base
separator; nothing else changes.  `pStart`, `pBitStart` locate the carried bits in the base page. -/
theorem copyShiftOne_extend (pg base : List Nat) (index baseIndex diff : Nat)
    (sStart sLen sBitStart sBitLen bStart bLen bBitStart bBitLen pStart pBitStart : Nat)
    (pgB : Bytes pg) (baseB : Bytes base)
    (hs : rawSeparatorsData pg index (index + 1) = some (sStart, sLen, sBitStart, sBitLen))
    (hb : rawSeparatorsData base baseIndex (baseIndex + 1) = some (bStart, bLen, bBitStart, bBitLen))
    (hlen : sBitLen = bBitLen + diff) (hdiff : 0 < diff) (hp7 : pBitStart ≤ 7)
    (hr1 : sStart + sLen ≤ pg.length)
    (hr2 : pStart + ((pBitStart + diff + 7) / 8 + 7) / 8 * 8 ≤ base.length)
    (hr3 : sStart + (sBitStart + diff) / 8 + sLen ≤ pg.length)
    (hr4 : bStart + bLen ≤ base.length) :
    ∃ pg', copyShiftOne pg base index baseIndex
        (some (pStart, pStart + ((pBitStart + diff + 7) / 8 + 7) / 8 * 8, pBitStart)) 1 diff = some pg' ∧
      pg'.length = pg.length ∧ Bytes pg' ∧
      (∀ t, t < diff → bitOf pg' (8 * sStart + sBitStart + t) = bitOf base (8 * pStart + pBitStart + t)) ∧
      (∀ t, t < bBitLen → bitOf pg' (8 * sStart + sBitStart + diff + t) = bitOf base (8 * bStart + bBitStart + t)) ∧
      (∀ p, (p < 8 * sStart + sBitStart ∨ 8 * sStart + sBitStart + sBitLen ≤ p) → bitOf pg' p = bitOf pg p) := by
  obtain ⟨hs7, hsl⟩ := rawSeparatorsData_shape _ _ _ _ _ _ _ hs
  obtain ⟨hb7, hbl⟩ := rawSeparatorsData_shape _ _ _ _ _ _ _ hb
  have h0 : ¬ sBitLen = 0 := by omega
  rw [if_neg h0] at hsl
  -- first copy: the carried prefix bits
  have hsrc1L := length_slice base pStart (((pBitStart + diff + 7) / 8 + 7) / 8 * 8) hr2
  have g1 : MemcpyGuard sLen sBitStart ((base.drop pStart).take (((pBitStart + diff + 7) / 8 + 7) / 8 * 8)).length
      pBitStart diff := by
    right; rw [hsrc1L]; exact ⟨hp7, hs7, by omega, by omega⟩
  obtain ⟨pg1, a1, a2, a3, a4, a5⟩ := memcpy_into_page pg sStart sLen sBitStart _ pBitStart diff pgB
    (bytes_slice baseB _ _) hr1 g1
  -- second copy: the separator, behind them
  have hsrc2L := length_slice base bStart bLen hr4
  have g2 : MemcpyGuard sLen ((sBitStart + diff) % 8) ((base.drop bStart).take bLen).length bBitStart bBitLen := by
    by_cases hb0 : bBitLen = 0
    · left; exact hb0
    · right
      rw [hsrc2L, hbl, if_neg hb0]
      refine ⟨hb7, by omega, by omega, by omega⟩
  obtain ⟨pg2, b1, b2, b3, b4, b5⟩ := memcpy_into_page pg1 (sStart + (sBitStart + diff) / 8) sLen ((sBitStart + diff) % 8) _
    bBitStart bBitLen a3 (bytes_slice baseB _ _) (by rw [a2]; exact hr3) g2
  refine ⟨pg2, ?_, by rw [b2, a2], b3, ?_, ?_, ?_⟩
  · unfold copyShiftOne
    simp only [hs, hb, Option.bind_some, handlePrefixOffset_eq, if_true]
    have e : pStart + ((pBitStart + diff + 7) / 8 + 7) / 8 * 8 - pStart = ((pBitStart + diff + 7) / 8 + 7) / 8 * 8 := by omega
    rw [sliceOf_eq _ _ _ hr1] at a1 ⊢
    rw [sliceOf_eq _ _ _ hr2]
    simp only [Option.bind_some] at a1 ⊢
    rw [a1]
    simp only [Option.bind_some]
    rw [sliceOf_eq _ _ _ (by rw [a2]; exact hr3)] at b1 ⊢
    rw [sliceOf_eq _ _ _ hr4]
    simp only [Option.bind_some] at b1 ⊢
    exact b1
  · intro t ht
    rw [b5 _ (by left; omega), a4 t ht, bitOf_slice]
    have : pBitStart + t < 8 * (((pBitStart + diff + 7) / 8 + 7) / 8 * 8) := by omega
    simp only [this, decide_true, Bool.true_and]
    congr 1; omega
  · intro t ht
    have e : 8 * sStart + sBitStart + diff + t = 8 * (sStart + (sBitStart + diff) / 8) + (sBitStart + diff) % 8 + t := by omega
    rw [e, b4 t ht, bitOf_slice]
    have hb0 : ¬ bBitLen = 0 := by omega
    have : bBitStart + t < 8 * bLen := by rw [hbl, if_neg hb0]; omega
    simp only [this, decide_true, Bool.true_and]
    congr 1; omega
  · intro p hp
    rw [b5 p (by omega), a5 p (by omega)]

/-- the fast path of `push_chunk` (equal prefix lengths): all copied separators arrive in one `bitwise_memcpy`,
nothing else changes -/
theorem fastPath_spec (pg base : List Nat) (index nItems frm to : Nat)
    (sStart sLen sBitStart sBitLen bStart bLen bBitStart bBitLen : Nat)
    (pgB : Bytes pg) (baseB : Bytes base)
    (hs : rawSeparatorsData pg index (index + nItems) = some (sStart, sLen, sBitStart, sBitLen))
    (hb : rawSeparatorsData base frm to = some (bStart, bLen, bBitStart, bBitLen))
    (hlen : sBitLen = bBitLen) (hr1 : sStart + sLen ≤ pg.length) (hr2 : bStart + bLen ≤ base.length) :
    ∃ pg', ((rawSeparatorsData pg index (index + nItems)).bind fun (sStart, sLen, sBitStart, _) =>
        (sliceOf pg sStart (sStart + sLen)).bind fun d =>
        (rawSeparators base frm to).bind fun (bBytes, bBitStart, bBitLen) =>
        (bitwiseMemcpy d sBitStart bBytes bBitStart bBitLen).map fun out => writeAt pg sStart out) = some pg' ∧
      pg'.length = pg.length ∧ Bytes pg' ∧
      (∀ t, t < bBitLen → bitOf pg' (8 * sStart + sBitStart + t) = bitOf base (8 * bStart + bBitStart + t)) ∧
      (∀ p, (p < 8 * sStart + sBitStart ∨ 8 * sStart + sBitStart + sBitLen ≤ p) → bitOf pg' p = bitOf pg p) := by
  obtain ⟨hs7, hsl⟩ := rawSeparatorsData_shape _ _ _ _ _ _ _ hs
  obtain ⟨hb7, hbl⟩ := rawSeparatorsData_shape _ _ _ _ _ _ _ hb
  have hsrcL := length_slice base bStart bLen hr2
  have g : MemcpyGuard sLen sBitStart ((base.drop bStart).take bLen).length bBitStart bBitLen := by
    by_cases hb0 : bBitLen = 0
    · left; exact hb0
    · right
      rw [hsrcL, hbl, if_neg hb0]
      rw [if_neg (by omega)] at hsl
      exact ⟨hb7, hs7, by omega, by omega⟩
  obtain ⟨pg', a1, a2, a3, a4, a5⟩ := memcpy_into_page pg sStart sLen sBitStart _ bBitStart bBitLen pgB
    (bytes_slice baseB _ _) hr1 g
  refine ⟨pg', ?_, a2, a3, ?_, by rw [hlen]; exact a5⟩
  · have hraw : rawSeparators base frm to = some ((base.drop bStart).take bLen, bBitStart, bBitLen) := by
      unfold rawSeparators
      rw [hb, Option.bind_some]
      simp only []
      rw [sliceOf_eq _ _ _ hr2, Option.map_some]
    rw [hs, hraw]
    simp only [Option.bind_some]
    rw [sliceOf_eq _ _ _ hr1] at a1 ⊢
    simp only [Option.bind_some] at a1 ⊢
    exact a1
  · intro t ht
    rw [a4 t ht, bitOf_slice]
    have hb0 : ¬ bBitLen = 0 := by omega
    have : bBitStart + t < 8 * bLen := by rw [hbl, if_neg hb0]; omega
    simp only [this, decide_true, Bool.true_and]
    congr 1; omega

end Nomt.BitOps
