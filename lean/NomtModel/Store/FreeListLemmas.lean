import NomtModel.Store.FreeListModel
/-!
Page-number conservation through the free-list model (`Store/FreeListModel.lean`), by counting occurrences:
every operation is shown to preserve, for every page number `a`, the number of places that hold `a`
(`List.count`), up to the pages drawn from the bump allocator (`rng a lo hi` = 1 iff `lo ≤ a < hi`).
-/
namespace Nomt.Store.FreeList

/-- the number of occurrences of `a` in the interval `[lo, hi)` -/
def rng (a lo hi : Nat) : Nat := if lo ≤ a ∧ a < hi then 1 else 0

theorem rng_self (a lo : Nat) : rng a lo lo = 0 := by
  unfold rng; split <;> omega

theorem rng_le_one (a lo hi : Nat) : rng a lo hi ≤ 1 := by
  unfold rng; split <;> omega

theorem rng_add (a lo mid hi : Nat) (h1 : lo ≤ mid) (h2 : mid ≤ hi) : rng a lo mid + rng a mid hi = rng a lo hi := by
  unfold rng; split <;> split <;> split <;> omega

theorem rng_succ (a lo : Nat) : rng a lo (lo + 1) = if lo == a then 1 else 0 := by
  unfold rng
  by_cases h : lo = a
  · subst h; simp
  · have : (lo == a) = false := by simpa using h
    rw [this]; simp; omega

theorem rng_pos {a lo hi : Nat} : 0 < rng a lo hi ↔ lo ≤ a ∧ a < hi := by
  unfold rng; split <;> simp_all

/-! ### pages of portions -/

theorem count_pagesOf_cons (a h : Nat) (items : List Nat) (rest : List Portion) :
    List.count a (pagesOf ((h, items) :: rest)) =
      (if h == a then 1 else 0) + List.count a items + List.count a (pagesOf rest) := by
  simp only [pagesOf, List.flatMap_cons, List.count_append, List.count_cons]
  omega

theorem pagesOf_nil : pagesOf [] = [] := rfl

theorem itemsOf_cons (h : Nat) (items : List Nat) (rest : List Portion) :
    itemsOf ((h, items) :: rest) = items ++ itemsOf rest := by
  simp [itemsOf, List.flatMap_cons]

theorem count_items_le_pages (a : Nat) : ∀ ps : List Portion, List.count a (itemsOf ps) ≤ List.count a (pagesOf ps) := by
  intro ps
  induction ps with
  | nil => simp [itemsOf, pagesOf]
  | cons p rest ih =>
    obtain ⟨h, items⟩ := p
    rw [itemsOf_cons, count_pagesOf_cons, List.count_append]
    omega

/-! ### `pop` -/

theorem popP_ok {ps ps' : List Portion} {pn : Nat} {rel : Option Nat} (h : popP ps = .ok pn rel ps') (a : Nat) :
    List.count a (pagesOf ps) = List.count a (pagesOf ps') + (if pn == a then 1 else 0) + List.count a rel.toList := by
  match ps, h with
  | (hd, [x]) :: rest, h =>
    simp only [popP, PopR.ok.injEq] at h
    obtain ⟨rfl, rfl, rfl⟩ := h
    rw [count_pagesOf_cons]
    simp only [List.count_cons, List.count_nil, Option.toList_some]
    omega
  | (hd, x :: y :: xs) :: rest, h =>
    simp only [popP, PopR.ok.injEq] at h
    obtain ⟨rfl, rfl, rfl⟩ := h
    rw [count_pagesOf_cons, count_pagesOf_cons]
    simp only [List.count_cons, List.count_nil, Option.toList_none]
    omega

theorem popP_empty {ps : List Portion} (h : popP ps = .empty) : ps = [] := by
  match ps, h with
  | [], _ => rfl
  | (_, []) :: _, h => simp [popP] at h
  | (_, [_]) :: _, h => simp [popP] at h
  | (_, _ :: _ :: _) :: _, h => simp [popP] at h

/-! ### `discard` -/

theorem discardP_spec : ∀ (ps : List Portion) (n : Nat) (rel : List Nat),
    itemsOf (discardP n ps rel).1 = (itemsOf ps).drop n ∧
    (discardP n ps rel).2.2 = min n (itemsOf ps).length ∧
    ∀ a, List.count a (pagesOf (discardP n ps rel).1) + List.count a (discardP n ps rel).2.1
          + List.count a ((itemsOf ps).take n)
        = List.count a (pagesOf ps) + List.count a rel := by
  intro ps
  induction ps with
  | nil => intro n rel; simp [discardP, itemsOf, pagesOf]
  | cons p rest ih =>
    intro n rel
    obtain ⟨h, items⟩ := p
    unfold discardP
    by_cases hn : n = 0
    · subst hn
      simp
    · rw [if_neg hn]
      by_cases hlt : n < items.length
      · rw [if_pos hlt]
        refine ⟨?_, ?_, ?_⟩
        · simp only [itemsOf_cons]
          rw [List.drop_append_of_le_length (Nat.le_of_lt hlt)]
        · simp only [itemsOf_cons, List.length_append]; omega
        · intro a
          simp only [itemsOf_cons]
          rw [List.take_append_of_le_length (Nat.le_of_lt hlt), count_pagesOf_cons, count_pagesOf_cons]
          have := congrArg (List.count a) (List.take_append_drop n items)
          rw [List.count_append] at this
          omega
      · rw [if_neg hlt]
        have hle : items.length ≤ n := Nat.le_of_not_lt hlt
        obtain ⟨i1, i2, i3⟩ := ih (n - items.length) (h :: rel)
        refine ⟨?_, ?_, ?_⟩
        · simp only [itemsOf_cons]
          rw [i1, List.drop_append, List.drop_of_length_le hle]
          simp
        · simp only [itemsOf_cons, List.length_append]
          rw [i2]; omega
        · intro a
          have := i3 a
          simp only [itemsOf_cons]
          rw [List.take_append, List.take_of_length_le hle, List.count_append, count_pagesOf_cons]
          simp only [List.count_cons] at this
          omega

theorem discardP_rel_of_zero (ps : List Portion) (rel : List Nat) : (discardP 0 ps rel).2.1 = rel := by
  cases ps with
  | nil => rfl
  | cons p rest => obtain ⟨h, items⟩ := p; simp [discardP]

theorem discardP_rel_of_nil (n : Nat) (rel : List Nat) : (discardP n [] rel).2.1 = rel := rfl

/-! ### `preallocate` -/

/-- everything a preallocation state holds -/
def PA.cnt (a : Nat) (st : PA) : Nat :=
  List.count a (pagesOf st.ps) + List.count a st.toPush + List.count a st.newPages

theorem paStart_spec {cap : Nat} {ps : List Portion} {toPush : List Nat} {bump : Nat} {st : PA}
    (h : paStart cap ps toPush bump = some st) :
    st.bump = bump ∧ ∀ a, st.cnt a = List.count a (pagesOf ps) + List.count a toPush := by
  unfold paStart at h
  split at h
  · rename_i hp
    have := popP_empty hp
    subst this
    injection h with h; subst h
    exact ⟨rfl, fun a => by simp [PA.cnt]⟩
  · cases h
  · rename_i pn x ps' hp
    have hc := popP_ok hp
    split at h
    · rename_i nh nitems rest
      split at h
      · injection h with h; subst h
        refine ⟨rfl, fun a => ?_⟩
        have := hc a
        rw [count_pagesOf_cons] at this
        simp only [PA.cnt, count_pagesOf_cons, List.count_append, List.count_cons, List.count_nil,
          Option.toList_some] at this ⊢
        omega
      · injection h with h; subst h
        refine ⟨rfl, fun a => ?_⟩
        have := hc a
        simp only [PA.cnt, List.count_append, List.count_cons, List.count_nil, Option.toList_some] at this ⊢
        omega
    · injection h with h; subst h
      refine ⟨rfl, fun a => ?_⟩
      have := hc a
      simp only [PA.cnt, List.count_append, List.count_cons, List.count_nil, Option.toList_some] at this ⊢
      omega
  · rename_i pn ps' hp
    have hc := popP_ok hp
    split at h
    · rename_i hd items rest
      injection h with h; subst h
      refine ⟨rfl, fun a => ?_⟩
      have := hc a
      rw [count_pagesOf_cons] at this
      simp only [PA.cnt, count_pagesOf_cons, List.count_append, List.count_cons, List.count_nil,
        Option.toList_none] at this ⊢
      omega
    · cases h

theorem paLoop_spec (cap : Nat) : ∀ (fuel : Nat) (st st' : PA), paLoop cap fuel st = some st' →
    st.bump ≤ st'.bump ∧ (∀ a, st'.cnt a = st.cnt a + rng a st.bump st'.bump) ∧
    (st.ps = [] → st'.ps = []) ∧ (st'.ps ≠ [] → st'.bump = st.bump) := by
  intro fuel
  induction fuel with
  | zero =>
    intro st st' h
    simp only [paLoop] at h
    split at h
    · cases h
    · injection h with h; subst h
      exact ⟨Nat.le_refl _, fun a => by rw [rng_self]; rfl, id, fun _ => rfl⟩
  | succ fuel ih =>
    intro st st' h
    simp only [paLoop] at h
    split at h
    · split at h
      · -- a full portion just popped into: its head is replaced by its top item
        rename_i hnfp hps
        rename_i hd x xs rest
        obtain ⟨b1, b2, b3, b4⟩ := ih _ st' h
        simp only at b1 b2 b3 b4
        refine ⟨b1, ?_, ?_, b4⟩
        · intro a
          rw [b2 a]
          simp only [PA.cnt, hps, count_pagesOf_cons, List.count_append, List.count_cons, List.count_nil]
          omega
        · intro e; rw [hps] at e; cases e
      · cases h
      · -- pop branch
        split at h
        · rename_i pn rel ps' hp
          have hc := popP_ok hp
          obtain ⟨b1, b2, b3, b4⟩ := ih _ st' h
          simp only at b1 b2 b3 b4
          refine ⟨b1, ?_, ?_, b4⟩
          · intro a
            rw [b2 a]
            have := hc a
            simp only [PA.cnt, List.count_append, List.count_cons] at this ⊢
            omega
          · intro e; rw [e] at hp; simp [popP] at hp
        · rename_i hp
          have hnil := popP_empty hp
          obtain ⟨b1, b2, b3, b4⟩ := ih _ st' h
          simp only at b1 b2 b3 b4
          have hnil' : st'.ps = [] := b3 hnil
          refine ⟨by omega, ?_, fun _ => hnil', fun hne => absurd hnil' hne⟩
          · intro a
            rw [b2 a, ← rng_add a st.bump (st.bump + 1) st'.bump (by omega) b1, rng_succ]
            simp only [PA.cnt, List.count_append, List.count_cons, List.count_nil]
            omega
        · cases h
    · injection h with h; subst h
      exact ⟨Nat.le_refl _, fun a => by rw [rng_self]; rfl, id, fun _ => rfl⟩

/-! ### `push_and_encode` -/

theorem pushEnc_spec (cap : Nat) : ∀ (toPush newPages : List Nat) (ps : List Portion) (written : List Nat)
    (unt : Bool) (ps' : List Portion) (w' : List Nat), pushEnc cap toPush newPages ps written unt = some (ps', w') →
    ∀ a, List.count a (pagesOf ps') = List.count a (pagesOf ps) + List.count a toPush + List.count a newPages := by
  intro toPush
  induction toPush with
  | nil =>
    intro newPages ps written unt ps' w' h a
    simp only [pushEnc] at h
    split at h
    · rename_i he
      injection h with h
      injection h with h1 h2
      subst h1
      have : newPages = [] := by cases newPages <;> simp_all
      subst this
      simp
    · cases h
  | cons pn rest ih =>
    intro newPages ps written unt ps' w' h a
    simp only [pushEnc] at h
    split at h
    · split at h
      · cases h
      · rename_i np nps
        split at h
        · have := ih _ _ _ _ _ _ h a
          rw [this, count_pagesOf_cons]
          simp only [List.count_cons, List.count_nil]
          omega
        · cases h
    · split at h
      · rename_i hd items r
        split at h
        · have := ih _ _ _ _ _ _ h a
          rw [this, count_pagesOf_cons, count_pagesOf_cons]
          simp only [List.count_cons]
          omega
        · cases h
      · cases h

/-! ### `commit` -/

theorem commit_spec {cap : Nat} {s : State} {freed : List Nat} {r : Committed} (h : commit cap s freed = some r) :
    s.bump ≤ r.state.bump ∧
    (s.released = [] → r.state.released = []) ∧
    (r.exhausted = false → r.state.bump = s.bump) ∧
    ∀ a, List.count a (pagesOf r.state.portions) + List.count a r.state.released =
      List.count a (pagesOf s.portions) + List.count a s.released + List.count a freed + rng a s.bump r.state.bump := by
  unfold commit at h
  split at h
  · rename_i he
    injection h with h; subst h
    have : freed = [] := by
      simp only [Bool.and_eq_true, Bool.not_eq_true', List.isEmpty_iff] at he
      exact he.2
    subst this
    exact ⟨Nat.le_refl _, id, fun _ => rfl, fun a => by simp [rng_self]⟩
  · simp only at h
    split at h
    · cases h
    · rename_i st0 h0
      split at h
      · cases h
      · rename_i st h1
        split at h
        · cases h
        · rename_i ps' written h2
          injection h with h; subst h
          obtain ⟨s1, s2⟩ := paStart_spec h0
          obtain ⟨l1, l2, _, l4⟩ := paLoop_spec cap _ st0 st h1
          have p1 := pushEnc_spec cap _ _ _ _ _ _ _ h2
          simp only
          refine ⟨by omega, by simp, ?_, ?_⟩
          · intro hex
            have : st.ps ≠ [] := by
              intro e; rw [e] at hex; simp at hex
            rw [l4 this, s1]
          · intro a
            have e1 := s2 a
            have e2 := l2 a
            have e3 := p1 a
            simp only [PA.cnt, List.count_append, List.count_reverse] at e1 e2
            rw [s1] at e2
            simp only [List.count_nil]
            omega

/-! ### `allocate` -/

theorem count_handedOut (s : State) (a : Nat) : ∀ n : Nat,
    List.count a (handedOut s n) =
      List.count a ((itemsOf s.portions).take n) + rng a s.bump (s.bump + (n - (itemsOf s.portions).length)) := by
  intro n
  induction n with
  | zero => simp [handedOut, rng_self]
  | succ n ih =>
    have hstep : handedOut s (n + 1) = handedOut s n ++ [allocate s n] := by
      simp [handedOut, List.range_succ]
    rw [hstep, List.count_append, ih, List.count_singleton]
    by_cases hlt : n < (itemsOf s.portions).length
    · have e1 : n + 1 - (itemsOf s.portions).length = 0 := by omega
      have e2 : n - (itemsOf s.portions).length = 0 := by omega
      rw [e1, e2]
      have halloc : allocate s n = (itemsOf s.portions)[n] := by
        simp [allocate, hlt, List.getD, List.getElem?_eq_getElem hlt]
      rw [halloc, List.take_add_one, List.getElem?_eq_getElem hlt]
      simp only [Option.toList_some, List.count_append, List.count_singleton]
      omega
    · have hle : (itemsOf s.portions).length ≤ n := Nat.le_of_not_lt hlt
      have halloc : allocate s n = s.bump + (n - (itemsOf s.portions).length) := by
        simp [allocate, hlt]
      rw [halloc, List.take_of_length_le hle, List.take_of_length_le (by omega)]
      have e : n + 1 - (itemsOf s.portions).length = (n - (itemsOf s.portions).length) + 1 := by omega
      rw [e, ← Nat.add_assoc,
        ← rng_add a s.bump (s.bump + (n - (itemsOf s.portions).length)) (s.bump + (n - (itemsOf s.portions).length) + 1)
          (by omega) (by omega), rng_succ]
      omega

theorem allocate_cases (s : State) (i : Nat) :
    (i < (itemsOf s.portions).length ∧ allocate s i ∈ itemsOf s.portions) ∨
    ((itemsOf s.portions).length ≤ i ∧ allocate s i = s.bump + (i - (itemsOf s.portions).length)) := by
  by_cases hlt : i < (itemsOf s.portions).length
  · left
    refine ⟨hlt, ?_⟩
    have : allocate s i = (itemsOf s.portions)[i] := by
      simp [allocate, hlt, List.getD, List.getElem?_eq_getElem hlt]
    rw [this]; exact List.getElem_mem hlt
  · right
    exact ⟨Nat.le_of_not_lt hlt, by simp [allocate, hlt]⟩

theorem mem_items_mem_pages (a : Nat) (ps : List Portion) (h : a ∈ itemsOf ps) : a ∈ pagesOf ps := by
  have := count_items_le_pages a ps
  have h1 : 1 ≤ List.count a (itemsOf ps) := List.one_le_count_iff.mpr h
  exact List.one_le_count_iff.mp (by omega)

/-! ### the live set after a sync -/

/-- `(live \ freed) ∪ handedOut` -/
def liveAfter (live freed handed : List Nat) : List Nat := live.filter (fun a => !freed.contains a) ++ handed

theorem count_filter_freed (live freed : List Nat) (hl : ∀ a, List.count a live ≤ 1) (hn : freed.Nodup)
    (hsub : ∀ a ∈ freed, a ∈ live) (a : Nat) :
    List.count a (live.filter (fun x => !freed.contains x)) + List.count a freed = List.count a live := by
  by_cases hf : a ∈ freed
  · have h1 : List.count a (live.filter (fun x => !freed.contains x)) = 0 := by
      rw [List.count_eq_zero]
      intro hm
      have := (List.mem_filter.mp hm).2
      simp [hf] at this
    have h2 : 1 ≤ List.count a freed := List.one_le_count_iff.mpr hf
    have h3 : List.count a freed ≤ 1 := List.nodup_iff_count.mp hn a
    have h4 : 1 ≤ List.count a live := List.one_le_count_iff.mpr (hsub a hf)
    have := hl a
    omega
  · have h1 : List.count a (live.filter (fun x => !freed.contains x)) = List.count a live := by
      apply List.count_filter
      simp [hf]
    have h2 : List.count a freed = 0 := List.count_eq_zero.mpr hf
    omega

/-- **conservation, counting form** -/
theorem finish_conserves {cap : Nat} {s : State} {n : Nat} {freed live : List Nat} {r : Committed}
    (hb : 1 ≤ s.bump) (hrel : s.released = [])
    (hpart : ∀ a, List.count a (pagesOf s.portions) + List.count a live = rng a 1 s.bump)
    (hn : freed.Nodup) (hsub : ∀ a ∈ freed, a ∈ live)
    (hfin : finish cap s n freed = some r) :
    s.bump ≤ r.state.bump ∧ r.state.released = [] ∧
    ∀ a, List.count a (pagesOf r.state.portions) + List.count a (liveAfter live freed (handedOut s n))
      = rng a 1 r.state.bump := by
  unfold finish at hfin
  simp only at hfin
  obtain ⟨d1, d2, d3⟩ := discardP_spec s.portions n s.released
  obtain ⟨c1, c2, _, c4⟩ := commit_spec hfin
  simp only at c1 c2 c4
  have hrel' : r.state.released = [] := by
    -- either nothing was popped (then `released` is still empty) or `commit` drained it
    unfold commit at hfin
    split at hfin
    · rename_i he
      injection hfin with hfin; subst hfin
      simp only [Bool.and_eq_true, Bool.not_eq_true', Bool.or_eq_false_iff, Bool.and_eq_false_iff,
        decide_eq_false_iff_not, Nat.not_lt, Nat.le_zero_eq, Bool.not_eq_false', List.isEmpty_iff] at he
      simp only
      rcases he.1.2 with h0 | h0
      · rw [h0, discardP_rel_of_zero, hrel]
      · rw [h0, discardP_rel_of_nil, hrel]
    · simp only at hfin
      split at hfin
      · cases hfin
      · split at hfin
        · cases hfin
        · split at hfin
          · cases hfin
          · injection hfin with hfin; subst hfin; rfl
  refine ⟨by omega, hrel', ?_⟩
  intro a
  have hl : ∀ a, List.count a live ≤ 1 := by
    intro a
    have := hpart a
    have := rng_le_one a 1 s.bump
    omega
  have e1 := d3 a
  have e2 := c4 a
  have e3 := count_handedOut s a n
  have e4 := count_filter_freed live freed hl hn hsub a
  have e5 := hpart a
  rw [hrel'] at e2
  have e0 : List.count a s.released = 0 := by rw [hrel]; rfl
  rw [d2] at e2 c1
  have hbump : s.bump + (n - min n (itemsOf s.portions).length) = s.bump + (n - (itemsOf s.portions).length) := by
    omega
  rw [hbump] at e2 c1
  have e6 := rng_add a s.bump (s.bump + (n - (itemsOf s.portions).length)) r.state.bump (by omega) c1
  have e7 := rng_add a 1 s.bump r.state.bump hb (by omega)
  simp only [liveAfter, List.count_append, List.count_nil] at e1 e2 ⊢
  omega

/-- from the counting form to sets -/
theorem partition_of_count {tracked live : List Nat} {bump : Nat}
    (h : ∀ a, List.count a tracked + List.count a live = rng a 1 bump) :
    (∀ a, (a ∈ tracked ∨ a ∈ live) ↔ (1 ≤ a ∧ a < bump)) ∧ (∀ a, ¬ (a ∈ tracked ∧ a ∈ live)) ∧
    tracked.Nodup ∧ live.Nodup := by
  refine ⟨?_, ?_, ?_, ?_⟩
  · intro a
    rw [← rng_pos, ← h a, ← List.count_pos_iff, ← List.count_pos_iff]
    omega
  · intro a ⟨h1, h2⟩
    have := h a
    have := rng_le_one a 1 bump
    have := List.one_le_count_iff.mpr h1
    have := List.one_le_count_iff.mpr h2
    omega
  · rw [List.nodup_iff_count]
    intro a
    have := h a
    have := rng_le_one a 1 bump
    omega
  · rw [List.nodup_iff_count]
    intro a
    have := h a
    have := rng_le_one a 1 bump
    omega

theorem count_of_partition {tracked live : List Nat} {bump : Nat}
    (hu : ∀ a, (a ∈ tracked ∨ a ∈ live) ↔ (1 ≤ a ∧ a < bump)) (hd : ∀ a, ¬ (a ∈ tracked ∧ a ∈ live))
    (ht : tracked.Nodup) (hl : live.Nodup) :
    ∀ a, List.count a tracked + List.count a live = rng a 1 bump := by
  intro a
  have t1 := List.nodup_iff_count.mp ht a
  have l1 := List.nodup_iff_count.mp hl a
  by_cases hr : 1 ≤ a ∧ a < bump
  · have : rng a 1 bump = 1 := by simp [rng, hr]
    rw [this]
    rcases (hu a).mpr hr with hm | hm
    · have := List.one_le_count_iff.mpr hm
      have : List.count a live = 0 := List.count_eq_zero.mpr (fun h => hd a ⟨hm, h⟩)
      omega
    · have := List.one_le_count_iff.mpr hm
      have : List.count a tracked = 0 := List.count_eq_zero.mpr (fun h => hd a ⟨h, hm⟩)
      omega
  · have : rng a 1 bump = 0 := by simp [rng, hr]
    rw [this]
    have h1 : List.count a tracked = 0 := List.count_eq_zero.mpr (fun h => hr ((hu a).mp (Or.inl h)))
    have h2 : List.count a live = 0 := List.count_eq_zero.mpr (fun h => hr ((hu a).mp (Or.inr h)))
    omega

end Nomt.Store.FreeList
