import NomtModel.Basic.ExecHasher
import NomtModel.Store.ImgTable
import Std.Data.HashMap
/-!
`checkMerkle`: the merkle pages stored in the hash table against the specification trie `nodeAt`
(`Core/Basic.lean`) of the committed key / value-hash list, with the Blake3 hasher.

A page with path `c₀ … c_{k-1}` (6 bits each) holds the nodes of depths `6k+1 … 6k+6` below the node
reached by those `6k` bits: index 0/1 = its two children, node `i` has children `2i+2`, `2i+3`; the
children of bottom node `62+c` live in child page `c` (`core/src/page.rs`, `trie_pos.rs`).
Only nodes reachable from the top through internal nodes are meaningful (pages may hold garbage
elsewhere, see `count_leaves` in `merkle/page_walker.rs`).

Elision (`PAGE_ELISION_THRESHOLD = 20`, `handle_elision_threshold`): a page exists when its parent
node is internal; the root page and its children are always stored; a deeper page must be stored when
the subtree below its parent node holds at least 20 leaves.
-/
namespace Nomt.Store
open Nomt

abbrev KVH := Key × ByteArray

def PAGE_ELISION_THRESHOLD : Nat := 20

/-- expected `(index, node)` pairs of the part of a page below the node at in-page level `7 - rem`,
index `idx`, global depth `d`, for the key set `s` (all sharing the first `d` bits) -/
def pageExpect : (rem : Nat) → (idx d : Nat) → List KVH → ByteArray × List (Nat × ByteArray)
  | _, idx, _, [] => (blakeHasher.term, [(idx, blakeHasher.term)])
  | _, idx, _, [(k, v)] => let n := blakeHasher.leaf k v; (n, [(idx, n)])
  | 0, idx, d, s => let n := nodeAt blakeHasher (256 - d) d s; (n, [(idx, n)])
  | rem + 1, idx, d, s =>
    let (l, ls) := pageExpect rem (2 * idx + 2) (d + 1) (side d false s)
    let (r, rs) := pageExpect rem (2 * idx + 3) (d + 1) (side d true s)
    let n := blakeHasher.internal l r
    (n, (idx, n) :: ls ++ rs)

def sextetBits (c : Nat) : List Bool := (List.range 6).map (fun i => c / 2 ^ (5 - i) % 2 == 1)
def pathBits (p : List Nat) : List Bool := p.flatMap sextetBits

def hasPrefix (pre : List Bool) (k : Key) : Bool := k.take pre.length == pre

/-- the pages that MUST be stored: root and its children when they exist, deeper pages when their
subtree holds at least `PAGE_ELISION_THRESHOLD` leaves -/
def requiredPages : (fuel : Nat) → (path : List Nat) → List KVH → List (List Nat)
  | 0, _, _ => []
  | fuel + 1, path, s =>
    if s.length < 2 then []
    else if path.length ≥ 2 && s.length < PAGE_ELISION_THRESHOLD then []
    else
      let d := 6 * path.length
      path :: (List.range 64).flatMap (fun c =>
        requiredPages fuel (path ++ [c]) (s.filter (fun kv => (kv.1.drop d).take 6 == sextetBits c)))

def sextetVal (k : Key) (d : Nat) : Nat :=
  ((k.drop d).take 6).foldl (fun acc b => acc * 2 + (if b then 1 else 0)) 0

/-- the 64 child groups of a key set whose members share the first `d` bits -/
def groups (s : List KVH) (d : Nat) : Array (List KVH) :=
  s.foldr (fun kv arr => arr.modify (sextetVal kv.1 d) (kv :: ·)) (Array.replicate 64 [])

/-- verify one stored page against the key set `s` below its parent node -/
def checkPage (ht : ByteArray) (stored : Std.HashMap (List Nat) MerklePage) (pg : MerklePage)
    (s : List KVH) (gs : Array (List KVH)) : Except String Unit := do
  let d := 6 * pg.pageId.length
  let (_, l) := pageExpect 5 0 (d + 1) (side d false s)
  let (_, r) := pageExpect 5 1 (d + 1) (side d true s)
  for (i, n) in l ++ r do
    if pg.node ht i != n then
      throw s!"merkle: node {i} of page {pg.pageId} (bucket {pg.bucket}) is {hexOfBytes (pg.node ht i)}, specified {hexOfBytes n}"
  -- elided-children bitfield: for every child page that exists, set iff that page is not stored
  -- (a set bit for a child page that does not exist is tolerated: the real code leaves the bit
  --  stale when the child's subtree shrinks to a leaf/terminator; the bit is only consulted
  --  when the bottom node is internal).  The root page carries no bitfield.
  if pg.pageId != [] then
    for c in [0:64] do
      let bit := pg.elided / 2 ^ c % 2 == 1
      let childStored := stored.contains (pg.pageId ++ [c])
      if gs[c]!.length ≥ 2 then
        if bit == childStored then
          throw s!"merkle: page {pg.pageId}: child {c} exists ({gs[c]!.length} leaves), stored={childStored}, elided bit={bit}"

/-- top-down walk over the page tree; returns the number of stored pages verified -/
def walkPages (ht : ByteArray) (stored : Std.HashMap (List Nat) MerklePage) :
    (fuel : Nat) → (path : List Nat) → List KVH → Except String Nat
  | 0, _, _ => pure 0
  | fuel + 1, path, s =>
    if s.length < 2 then pure 0 else
    match stored.get? path with
    | none =>
      if path.length < 2 || s.length ≥ PAGE_ELISION_THRESHOLD then
        throw s!"merkle: page {path} must be stored (root / child of root / ≥ {PAGE_ELISION_THRESHOLD} leaves, it has {s.length}) but is not in the hash table"
      else pure 0
    | some pg => do
      let gs := groups s (6 * path.length)
      checkPage ht stored pg s gs
      let mut cnt := 1
      for c in [0:64] do
        cnt := cnt + (← walkPages ht stored fuel (path ++ [c]) gs[c]!)
      pure cnt

/-- every stored page is reached by the walk (lies below internal nodes only, its ancestors are
stored), every reachable node equals `nodeAt`, required pages are present; returns the number of
stored pages -/
def checkMerkle (ht : ByteArray) (t : TableStats) (kvs : List (ByteArray × ByteArray)) : Except String Nat := do
  let all : List KVH := kvs.map (fun (k, h) => (bitsOfBytes k, h))
  let stored : Std.HashMap (List Nat) MerklePage := t.pages.foldl (fun m pg => m.insert pg.pageId pg) {}
  let n ← walkPages ht stored 44 [] all
  if n != t.pages.size then
    -- find a witness
    for pg in t.pages do
      let pre := pathBits pg.pageId
      let s := all.filter (fun kv => hasPrefix pre kv.1)
      if s.length < 2 then
        throw s!"merkle: stored page {pg.pageId} (bucket {pg.bucket}) lies below a node that is not internal ({s.length} keys)"
    throw s!"merkle: {t.pages.size} pages are stored but only {n} are reachable through stored ancestors"
  pure n

end Nomt.Store
