import NomtModel.Store.CacheModel
/-!
# The cached read paths and the operation sequences the caches see

**Page cache.**  Reference store `PStore`: page id → the latest committed page with its bucket (`none`: not stored).
* `pageRead` — what `seek.rs` does for a merkle page: `PageCache::get`; on a miss the page is loaded from the store and
  handed to `PageCache::insert`, whose RETURNED page is used (with the loaded bucket index);
* `POp.commit ups` — `Store::commit` → `bitbox::begin_sync`: the store takes the changed / cleared pages and
  `page_cache.batch_update(cache_updates)` gets the same list (sessions hold the read side of the access lock, a commit
  the write side, so no read happens in between);
* `POp.evict` — `page_cache.evict()`; `POp.fill ids` — `cache_prepopulate::prepopulate`: every listed page that the
  store holds is `insert`ed (which pages are listed depends on the hash-table probing — the theorems hold for every list).

**Leaf cache.**  Reference store `LDisk`: page number → the leaf currently stored there (total: a page that is not a leaf
holds garbage).  `dirty` (ghost): page numbers written since their last `insert`.
* `leafLookup` — `ops::lookup_blocking`: `get`, on a miss `leaf_store.query(pn)` and `insert`;
* `leafPeek` — `leaf_stage::{preload_and_prepare, reset_leaf_base}`, `ReadTransaction`: `get`, on a miss read the
  store, nothing inserted;
* `LOp.write pn l` — the sync writes a new leaf (or, for the free list, anything else) at a fresh or RECYCLED page number;
* `LOp.postIo pn l` — `PostIoWork::run`: `leaf_cache.insert(pn, leaf)`; `LOp.evict` — `leaf_cache.evict()`.
The callers' protocol `LProto`: no lookup / peek of a dirty page number, `postIo pn l` only with the leaf stored at `pn`.
-/
namespace Nomt.Cache
open Nomt

/-! ## page cache -/

abbrev PStore (P : Type) := PageId → Option (Entry P)

def storeSet {P : Type} (st : PStore P) (id : PageId) (mp : Option (Entry P)) : PStore P :=
  fun x => if x = id then mp else st x

def storeApply {P : Type} (st : PStore P) : List (PageId × Option (Entry P)) → PStore P
  | [] => st
  | (id, mp) :: rest => storeApply (storeSet st id mp) rest

/-- the cached read of one merkle page -/
def pageRead {P : Type} (pc : PageCache P) (store : PStore P) (id : PageId) :
    Outcome Unit (Option (Entry P) × PageCache P) :=
  match pc.get id with
  | .panic s => .panic s
  | .err e => .err e
  | .ok (some e, pc') => .ok (some e, pc')
  | .ok (none, pc') =>
    match store id with
    | none => .ok (none, pc')
    | some e =>
      match pc'.insert id e with
      | .panic s => .panic s
      | .err x => .err x
      | .ok (e', pc'') => .ok (some ⟨e'.page, e.bucket⟩, pc'')

/-- prepopulation: `insert` of every listed page the store holds -/
def pageFill {P : Type} (pc : PageCache P) (store : PStore P) : List PageId → Outcome Unit (PageCache P)
  | [] => .ok pc
  | id :: rest =>
    match store id with
    | none => pageFill pc store rest
    | some e =>
      match pc.insert id e with
      | .ok (_, pc') => pageFill pc' store rest
      | .panic s => .panic s
      | .err x => .err x

inductive POp (P : Type) where
  | read (id : PageId)
  | commit (ups : List (PageId × Option (Entry P)))
  | evict
  | fill (ids : List PageId)

structure PState (P : Type) where
  pc : PageCache P
  store : PStore P

/-- one operation on the real system: the new state and what the caller observes -/
def pstep {P : Type} (q : Flags) (s : PState P) : POp P → Outcome Unit (PState P × List (Option (Entry P)))
  | .read id =>
    match pageRead s.pc s.store id with
    | .ok (r, pc') => .ok ({ s with pc := pc' }, [r])
    | .panic m => .panic m
    | .err e => .err e
  | .commit ups =>
    match s.pc.batchUpdate q ups with
    | .ok pc' => .ok ({ pc := pc', store := storeApply s.store ups }, [])
    | .panic m => .panic m
    | .err e => .err e
  | .evict => .ok ({ s with pc := s.pc.evict }, [])
  | .fill ids =>
    match pageFill s.pc s.store ids with
    | .ok pc' => .ok ({ s with pc := pc' }, [])
    | .panic m => .panic m
    | .err e => .err e

def prun {P : Type} (q : Flags) (s : PState P) : List (POp P) → Outcome Unit (PState P × List (Option (Entry P)))
  | [] => .ok (s, [])
  | op :: rest =>
    match pstep q s op with
    | .ok (s', o) =>
      match prun q s' rest with
      | .ok (s'', o') => .ok (s'', o ++ o')
      | .panic m => .panic m
      | .err e => .err e
    | .panic m => .panic m
    | .err e => .err e

/-- the same operations without any cache: reads go to the store -/
def prefStep {P : Type} (st : PStore P) : POp P → PStore P × List (Option (Entry P))
  | .read id => (st, [st id])
  | .commit ups => (storeApply st ups, [])
  | .evict => (st, [])
  | .fill _ => (st, [])

def prefRun {P : Type} (st : PStore P) : List (POp P) → PStore P × List (Option (Entry P))
  | [] => (st, [])
  | op :: rest =>
    let r := prefStep st op
    let r' := prefRun r.1 rest
    (r'.1, r.2 ++ r'.2)

/-! ## leaf cache -/

abbrev LDisk (L : Type) := Nat → L

/-- `ops::lookup_blocking` from the page number on -/
def leafLookup {L : Type} (q : Flags) (lc : LeafCache L) (assign : Nat → Nat) (disk : LDisk L) (pn : Nat) :
    Outcome Unit (L × LeafCache L) :=
  match lc.get (assign pn) pn with
  | .panic s => .panic s
  | .err e => .err e
  | .ok (some l, lc') => .ok (l, lc')
  | .ok (none, lc') =>
    match lc'.insert q (assign pn) pn (disk pn) with
    | .ok lc'' => .ok (disk pn, lc'')
    | .panic s => .panic s
    | .err e => .err e

/-- `leaf_cache.get(pn).unwrap_or_else(|| read the store)` -/
def leafPeek {L : Type} (lc : LeafCache L) (assign : Nat → Nat) (disk : LDisk L) (pn : Nat) :
    Outcome Unit (L × LeafCache L) :=
  match lc.get (assign pn) pn with
  | .panic s => .panic s
  | .err e => .err e
  | .ok (some l, lc') => .ok (l, lc')
  | .ok (none, lc') => .ok (disk pn, lc')

inductive LOp (L : Type) where
  | lookup (pn : Nat)
  | peek (pn : Nat)
  | write (pn : Nat) (l : L)
  | postIo (pn : Nat) (l : L)
  | evict

structure LState (L : Type) where
  lc : LeafCache L
  disk : LDisk L
  /-- ghost: written since the last `insert` of that page number -/
  dirty : Nat → Bool

def lstep {L : Type} (q : Flags) (assign : Nat → Nat) (s : LState L) : LOp L → Outcome Unit (LState L × List L)
  | .lookup pn =>
    match leafLookup q s.lc assign s.disk pn with
    | .ok (l, lc') => .ok ({ s with lc := lc' }, [l])
    | .panic m => .panic m
    | .err e => .err e
  | .peek pn =>
    match leafPeek s.lc assign s.disk pn with
    | .ok (l, lc') => .ok ({ s with lc := lc' }, [l])
    | .panic m => .panic m
    | .err e => .err e
  | .write pn l =>
    .ok ({ s with disk := fun x => if x = pn then l else s.disk x, dirty := fun x => if x = pn then true else s.dirty x }, [])
  | .postIo pn l =>
    match s.lc.insert q (assign pn) pn l with
    | .ok lc' => .ok ({ s with lc := lc', dirty := fun x => if x = pn then false else s.dirty x }, [])
    | .panic m => .panic m
    | .err e => .err e
  | .evict => .ok ({ s with lc := s.lc.evict }, [])

def lrun {L : Type} (q : Flags) (assign : Nat → Nat) (s : LState L) : List (LOp L) → Outcome Unit (LState L × List L)
  | [] => .ok (s, [])
  | op :: rest =>
    match lstep q assign s op with
    | .ok (s', o) =>
      match lrun q assign s' rest with
      | .ok (s'', o') => .ok (s'', o ++ o')
      | .panic m => .panic m
      | .err e => .err e
    | .panic m => .panic m
    | .err e => .err e

/-- the same operations without a cache -/
def lrefStep {L : Type} (d : LDisk L) : LOp L → LDisk L × List L
  | .lookup pn => (d, [d pn])
  | .peek pn => (d, [d pn])
  | .write pn l => (fun x => if x = pn then l else d x, [])
  | .postIo _ _ => (d, [])
  | .evict => (d, [])

def lrefRun {L : Type} (d : LDisk L) : List (LOp L) → LDisk L × List L
  | [] => (d, [])
  | op :: rest =>
    let r := lrefStep d op
    let r' := lrefRun r.1 rest
    (r'.1, r.2 ++ r'.2)

/-- the callers' protocol, as a predicate on the operation sequence (from a given store / dirty set) -/
def LProto {L : Type} (disk : LDisk L) (dirty : Nat → Bool) : List (LOp L) → Prop
  | [] => True
  | .lookup pn :: rest => dirty pn = false ∧ LProto disk dirty rest
  | .peek pn :: rest => dirty pn = false ∧ LProto disk dirty rest
  | .write pn l :: rest =>
    LProto (fun x => if x = pn then l else disk x) (fun x => if x = pn then true else dirty x) rest
  | .postIo pn l :: rest => disk pn = l ∧ LProto disk (fun x => if x = pn then false else dirty x) rest
  | .evict :: rest => LProto disk dirty rest

/-- one sync as the leaf stage performs it: all writes, then `PostIoWork::run`, then `evict` -/
def syncOps {L : Type} (leaves : List (Nat × L)) : List (LOp L) :=
  leaves.map (fun x => LOp.write x.1 x.2) ++ leaves.map (fun x => LOp.postIo x.1 x.2) ++ [LOp.evict]

end Nomt.Cache
