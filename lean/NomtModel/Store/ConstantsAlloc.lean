import NomtModel.Generated.Constants
import NomtModel.Store.ImgFormats
import NomtModel.Store.ImgTable
import NomtModel.Store.ProbeModel
/-!
# Constants of bucket / page allocation: bitbox meta bytes, probing, free-list pages — used by C05, C16, C19

`Nomt.Gen.*` (`Generated/Constants.lean`) is produced by `tools/gen_constants.py` from the current Rust
sources on every run of `tools/check.py` / `tools/setup.py`.  Every fact is closed arithmetic checked by the
kernel (`decide` / `rfl` / `omega`): either a **tie** (a constant carried by hand in the Lean model equals the
generated value) or a **layout law** (a relation between generated values a property relies on).  A changed
constant in the Rust source changes the generated file and makes the fact — and the property theorem of
`Props/` that re-exports it — fail to build.
-/
namespace Nomt.Store.ConstantsCheck
open Nomt Nomt.Store

theorem freelist_capacity : MAX_PNS_PER_FREELIST_PAGE = Gen.FREELIST_MAX_PNS_PER_PAGE := by decide

theorem alloc_attempts : Probe.ALLOC_ATTEMPTS = Gen.ALLOCATE_BUCKET_ATTEMPTS := by decide

/-- `numMetaBytePages n = ceil(n / 4096)` with the code's page size and meta bytes per page -/
theorem num_meta_byte_pages (n : Nat) :
    numMetaBytePages n = (n + (Gen.META_BYTES_PER_PAGE - 1)) / Gen.PAGE_SIZE := rfl

/-- the probing model takes the tag from the same bits as `full_entry` -/
theorem tag_of (h : Nat) : Probe.tagOf h = h / 2 ^ Gen.FULL_ENTRY_SHIFT % Gen.FULL_MASK := rfl

/-- the bound of the mirrored `ProbeSequence::next` is the bound of the code -/
theorem probe_bound (m : List Slot) (fuel : Nat) (s : Probe.PS) (h : s.step > Gen.PROBE_BOUND_FACTOR * m.length) :
    Probe.PS.next m (fuel + 1) s = some (.exhausted, s) := by
  have h' : s.step > 2 * m.length := h
  simp [Probe.PS.next, h']

/-- `decodeSlot` reads the meta bytes exactly as `meta_map.rs` writes them -/
theorem decode_slot :
    decodeSlot Gen.EMPTY = some .empty ∧ decodeSlot Gen.TOMBSTONE = some .tombstone ∧
    ∀ t, t < 128 → decodeSlot (Gen.FULL_MASK ^^^ t) = some (.full t) := by
  refine ⟨by decide, by decide, ?_⟩
  decide

/-- a free-list page: `prev u32 | count u16 | items`, all items fit -/
theorem freelist_page_layout :
    Gen.FREELIST_MAX_PNS_PER_PAGE = (Gen.PAGE_SIZE - 6) / 4 ∧
    4 + 2 + 4 * Gen.FREELIST_MAX_PNS_PER_PAGE ≤ Gen.PAGE_SIZE ∧
    Gen.FREELIST_MAX_PNS_PER_PAGE < 2 ^ 16 ∧ 0 < Gen.GROW_STORE_BY_PAGES := by decide

/-- **meta bytes**: `EMPTY`, `TOMBSTONE` and every full entry `FULL_MASK ^ t` (`t` = 7 bits) are
pairwise distinct, full entries are bytes, different tags give different bytes, and the test
`byte & FULL_MASK != 0` of `full_count` is true exactly for full entries -/
theorem meta_bytes_distinct :
    Gen.EMPTY ≠ Gen.TOMBSTONE ∧
    Gen.EMPTY &&& Gen.FULL_MASK = 0 ∧ Gen.TOMBSTONE &&& Gen.FULL_MASK = 0 ∧
    2 ^ (64 - Gen.FULL_ENTRY_SHIFT) = Gen.FULL_MASK ∧
    ∀ t, t < 128 →
      (Gen.FULL_MASK ^^^ t) ≠ Gen.EMPTY ∧ (Gen.FULL_MASK ^^^ t) ≠ Gen.TOMBSTONE ∧
      (Gen.FULL_MASK ^^^ t) < 256 ∧ (Gen.FULL_MASK ^^^ t) &&& Gen.FULL_MASK ≠ 0 ∧
      (Gen.FULL_MASK ^^^ t) = Gen.FULL_MASK + t := by decide

theorem full_entry_injective (t1 t2 : Nat) (h1 : t1 < 128) (h2 : t2 < 128)
    (h : Gen.FULL_MASK ^^^ t1 = Gen.FULL_MASK ^^^ t2) : t1 = t2 := by
  have a := (meta_bytes_distinct.2.2.2.2 t1 h1).2.2.2.2
  have b := (meta_bytes_distinct.2.2.2.2 t2 h2).2.2.2.2
  omega

/-- the attempt counter of `allocate_bucket` can only matter for tables of at least 4 999 buckets
(hypothesis `2n + 2 < lim` of `allocTop_none`), and the meta bytes of a page are one page -/
theorem probe_constants :
    Gen.PROBE_BOUND_FACTOR = 2 ∧ Gen.ALLOCATE_BUCKET_ATTEMPTS = 10000 ∧
    Gen.META_BYTES_PER_PAGE = Gen.PAGE_SIZE := by decide

end Nomt.Store.ConstantsCheck
