import NomtModel.Store.FrameMain
import NomtModel.Store.PlacementAbs
/-!
# `checkPlacement` accepted ⇒ the old state still decodes (the content clause `hpre` for the concrete decoder)

`Touched f f' T`: file `f'` is what file `f` can have become when page writes with ANY contents to the pages `T` were
issued and each of them was applied or not (torn at page granularity, in any order, any sub-list), and the file was
possibly extended: it is not shorter and every page outside `T` is unchanged.
-/
namespace Nomt.Store

def Touched (f f' : ByteArray) (T : List Nat) : Prop :=
  f.size ≤ f'.size ∧ ∀ q : Nat, q ∉ T → ∀ pg, pageOf f q = some pg → pageOf f' q = some pg

/-- the page numbers targeted by the page writes to `file` among `evs` -/
def writesOf (file : String) (evs : List IoEv) : List Nat :=
  (evs.filter (fun e => e.kind == "Write" && e.file == file)).map (fun e => e.offset / PAGE)

theorem mem_writesOf {file : String} {evs : List IoEv} {pn : Nat} (h : pn ∈ writesOf file evs) :
    ∃ e ∈ evs, e.kind = "Write" ∧ e.file = file ∧ e.offset / PAGE = pn := by
  unfold writesOf at h
  obtain ⟨e, he, rfl⟩ := List.mem_map.1 h
  obtain ⟨he1, he2⟩ := List.mem_filter.1 he
  simp only [Bool.and_eq_true, beq_iff_eq] at he2
  exact ⟨e, he1, he2.1, he2.2, rfl⟩

/-- an accepted page write: not page 0, and not a page below the frontier that is marked 1 / 2 / 3 -/
theorem pageCheck_ok_spec (what : String) (marks : Array UInt8) (bump : Nat) (st st' : PlacementStats) (e : IoEv)
    (h : pageCheck what marks bump st e = .ok st') :
    e.offset / PAGE ≠ 0 ∧ ¬ (e.offset / PAGE < bump ∧
       (marks[e.offset / PAGE]! = 1 ∨ marks[e.offset / PAGE]! = 2 ∨ marks[e.offset / PAGE]! = 3)) := by
  refine ⟨?_, pageCheck_ok_unmarked what marks bump st st' e h⟩
  unfold pageCheck at h
  simp only at h
  split at h
  · cases h
  · split at h
    · cases h
    · rename_i h0; simpa using h0

theorem checkEv_ln_page (lnM bbnM : Array UInt8) (lnB bbnB lnS bbnS : Nat) (st st' : PlacementStats) (e : IoEv)
    (hk : e.kind = "Write") (hf : e.file = "ln") (h : checkEv lnM bbnM lnB bbnB lnS bbnS st e = .ok st') :
    ∃ s s', pageCheck "ln" lnM lnB s e = .ok s' := by
  unfold checkEv at h
  simp only [hk, hf, beq_self_eq_true, Bool.and_self, if_true] at h
  cases hp : pageCheck "ln" lnM lnB { st with preMetaEvents := st.preMetaEvents + 1 } e with
  | error m => simp [hp, Except.map] at h
  | ok s => exact ⟨_, _, hp⟩

theorem checkEv_bbn_page (lnM bbnM : Array UInt8) (lnB bbnB lnS bbnS : Nat) (st st' : PlacementStats) (e : IoEv)
    (hk : e.kind = "Write") (hf : e.file = "bbn") (h : checkEv lnM bbnM lnB bbnB lnS bbnS st e = .ok st') :
    ∃ s s', pageCheckBbn bbnM bbnB s e = .ok s' := by
  unfold checkEv at h
  have hne : ("bbn" == "ln") = false := by decide
  simp only [hk, hf, beq_self_eq_true, Bool.and_self, if_true, hne, Bool.and_false, Bool.false_eq_true, if_false] at h
  cases hp : pageCheckBbn bbnM bbnB { st with preMetaEvents := st.preMetaEvents + 1 } e with
  | error m => simp [hp, Except.map] at h
  | ok s => exact ⟨_, _, hp⟩

/-- **`checkPlacement` accepted ⇒ read-set agreement** (no side condition: the monitor itself rejects writes to unclaimed `bbn`
pages below the frontier, `pageCheckBbn`): whatever sub-list of the accepted pre-switch-over events' page
writes reached the files (any contents), the result agrees with the pre-image on every page the decoder reads. -/
theorem placement_readAgree {img : Image} {tr : List IoEv} {stP : PlacementStats} (h : checkPlacement img tr = .ok stP)
    {m : Meta} {st : Stats} {lnM bbnM : Array UInt8} (hm : imageMeta img = .ok m) (hd : wfDetailM img = .ok (st, lnM, bbnM))
    (sub : List IoEv) (hsub : sub.Sublist (preMeta tr)) (B : Image) (hmeta : B.metaF = img.metaF)
    (hln : Touched img.ln B.ln (writesOf "ln" sub)) (hbbn : Touched img.bbn B.bbn (writesOf "bbn" sub)) :
    ReadAgree img B m lnM bbnM := by
  obtain ⟨m', x', lnM', bbnM', hm', hd', hgo⟩ := checkPlacement_ok img tr stP h
  have e1 : m' = m := by rw [hm] at hm'; injection hm' with h'; exact h'.symm
  have e2 : lnM' = lnM ∧ bbnM' = bbnM := by
    rw [hd] at hd'; injection hd' with h'
    simp only [Prod.mk.injEq] at h'
    exact ⟨h'.2.1.symm, h'.2.2.symm⟩
  obtain ⟨rfl, rfl⟩ := e2
  subst e1
  have hev := go_ok_checkEv img m' lnM' bbnM' tr {} stP hgo
  obtain ⟨P⟩ := wfDetailM_parts hd
  have hPm : P.m = m' := by have := P.hm; rw [hm] at this; injection this with this; exact this.symm
  obtain ⟨hb1, hb2⟩ := imageMeta_bump hm
  have hlnS : m'.lnBump * PAGE ≤ img.ln.size := hPm ▸ P.hlnS
  have hbbnS : m'.bbnBump * PAGE ≤ img.bbn.size := hPm ▸ P.hbbnS
  -- accepted writes
  have hlnW : ∀ pn, pn ∈ writesOf "ln" sub → pn ≠ 0 ∧ ¬ (pn < m'.lnBump ∧ (lnM'[pn]! = 1 ∨ lnM'[pn]! = 2 ∨ lnM'[pn]! = 3)) := by
    intro pn hpn
    obtain ⟨e, he, hk, hf, rfl⟩ := mem_writesOf hpn
    obtain ⟨s, s', hc⟩ := hev e (hsub.subset he)
    obtain ⟨s2, s2', hp⟩ := checkEv_ln_page _ _ _ _ _ _ _ _ e hk hf hc
    exact pageCheck_ok_spec _ _ _ _ _ e hp
  have hbbnW : ∀ pn, pn ∈ writesOf "bbn" sub → pn ≠ 0 ∧ ¬ (pn < m'.bbnBump ∧ (bbnM'[pn]! = 1 ∨ bbnM'[pn]! = 2 ∨ bbnM'[pn]! = 3)) ∧
      ¬ (pn ≠ 0 ∧ pn < m'.bbnBump ∧ bbnM'[pn]! = 0) := by
    intro pn hpn
    obtain ⟨e, he, hk, hf, rfl⟩ := mem_writesOf hpn
    obtain ⟨s, s', hc⟩ := hev e (hsub.subset he)
    obtain ⟨s2, s2', hp⟩ := checkEv_bbn_page _ _ _ _ _ _ _ _ e hk hf hc
    obtain ⟨hp1, hp2⟩ := pageCheckBbn_ok _ _ _ _ _ hp
    obtain ⟨q1, q2⟩ := pageCheck_ok_spec _ _ _ _ _ e hp1
    exact ⟨q1, q2, hp2⟩
  have keep : ∀ (f f' : ByteArray) (T : List Nat) (bump pn : Nat), Touched f f' T → bump * PAGE ≤ f.size → pn < bump → pn ∉ T →
      pageOf f' pn = pageOf f pn := by
    intro f f' T bump pn ht hs hlt hn
    obtain ⟨pg, hpg⟩ := pageOf_isSome_of_lt hs hlt
    rw [ht.2 pn hn pg hpg, hpg]
  -- values of the bbn marks: 0, 1, 3 or 4
  have hbbnVal : ∀ pn : Nat, bbnM'[pn]! = 0 ∨ bbnM'[pn]! = 1 ∨ bbnM'[pn]! = 3 ∨ bbnM'[pn]! = 4 := by
    intro pn
    obtain ⟨hsb1, _, _, hbbnch⟩ := claimFreeList_spec P.m.bbnBump "bbn" P.bbnFl _ _ P.hbbnC (by simp)
    obtain ⟨_, _, _, hbrch⟩ := claimAll_spec P.m.bbnBump 1 _ (by decide) _ _ _ P.hbrC hsb1
    rcases hbrch pn with h1 | ⟨_, h1⟩
    · rcases hbbnch pn with h2 | ⟨_, h2 | h2⟩
      · left; rw [h1, h2, get!_replicate_zero]
      · right; right; left; rw [h1, h2]
      · right; right; right; rw [h1, h2]
    · right; left; exact h1
  refine ⟨hmeta, hln.1, hbbn.1, ?_, ?_, ?_, ?_⟩
  · exact keep _ _ _ _ 0 hln hlnS (Nat.pos_of_ne_zero hb1) (fun hc => (hlnW 0 hc).1 rfl)
  · exact keep _ _ _ _ 0 hbbn hbbnS (Nat.pos_of_ne_zero hb2) (fun hc => (hbbnW 0 hc).1 rfl)
  · intro pn hlt hmk
    exact keep _ _ _ _ pn hln hlnS hlt (fun hc => (hlnW pn hc).2 ⟨hlt, hmk⟩)
  · intro pn hlt hmk
    by_cases h0 : pn = 0
    · subst h0
      exact keep _ _ _ _ 0 hbbn hbbnS hlt (fun hc => (hbbnW 0 hc).1 rfl)
    · apply keep _ _ _ _ pn hbbn hbbnS hlt
      intro hc
      obtain ⟨_, hw2, hw3⟩ := hbbnW pn hc
      rcases hbbnVal pn with h | h | h | h
      · exact hw3 ⟨h0, hlt, h⟩
      · exact hw2 ⟨hlt, Or.inl h⟩
      · exact hw2 ⟨hlt, Or.inr (Or.inr h)⟩
      · exact absurd h hmk

end Nomt.Store
