import NomtModel.Store.WalkerSimSafe
/-!
# A property of every visitor call of a canonical block

The induction behind `tw_visit_tree_safe`, for an arbitrary property `Q` of (state, call): it holds for every call of the block
below `t` when it holds for the `Leaf` calls (made from the states `PreJ` describes) and for the `Internal` calls.
-/
namespace Nomt.Walker
open Nomt Nomt.TriePos

variable {Node VH : Type} [DecidableEq Node] [DecidableEq VH] (H : Hasher Node VH)

/-- `Q` holds for every call of the list, each in the state the tree walker is in when the call is made -/
def AllQ (cfg : TWCfg Node) (Q : TW Node → WriteNode Node VH → Prop) (sd : Nat) : TW Node → List (WriteNode Node VH) → Prop
  | _, [] => True
  | a, c :: cs => Q a c ∧ AllQ cfg Q sd (a.visit H cfg sd c) cs

theorem allQ_append (cfg : TWCfg Node) (Q : TW Node → WriteNode Node VH → Prop) (sd : Nat) :
    ∀ (e1 e2 : List (WriteNode Node VH)) (a : TW Node),
      AllQ H cfg Q sd a (e1 ++ e2) ↔ AllQ H cfg Q sd a e1 ∧ AllQ H cfg Q sd (TW.visitAll H cfg sd a e1) e2 := by
  intro e1
  induction e1 with
  | nil => intro e2 a; simp [AllQ, TW.visitAll]
  | cons c cs ih =>
    intro e2 a
    simp only [List.cons_append, AllQ, TW.visitAll, ih]
    exact and_assoc.symm

theorem allQ_singleton (cfg : TWCfg Node) (Q : TW Node → WriteNode Node VH → Prop) (sd : Nat) (a : TW Node)
    (c : WriteNode Node VH) : AllQ H cfg Q sd a [c] ↔ Q a c := by
  simp [AllQ]

theorem tw_visit_tree_all (hs : H.Sound) {O : List (Key × VH)} (hk : KeysOK O) (cfg : TWCfg Node) (t : Path)
    (Q : TW Node → WriteNode Node VH → Prop)
    (hleaf : ∀ (P : Path) (prev : Option Key) (J : Path) (a : TW Node) (k : Key) (v : VH),
      t <+: P → P.length ≤ 256 → sub O P = [(k, v)] → J <+: P → PreJ t.length t prev [(k, v)] J a.pos →
      Q a (leafEv H t.length (P.length - t.length) prev k v))
    (hint : ∀ (a1 : TW Node) (l r n : Node), Q a1 (.internal l r n : WriteNode Node VH)) :
    ∀ (f : Nat) (P : Path) (prev : Option Key) (J : Path) (a : TW Node),
      256 - P.length = f → t <+: P → P.length ≤ 256 → sub O P ≠ [] → J <+: P →
      PreJ t.length t prev (sub O P) J a.pos →
      AllQ H cfg Q t.length a
        (treeEv H t.length (256 - P.length) (P.length - t.length) (sub O P) prev) := by
  intro f
  induction f with
  | zero =>
    intro P prev J a hf htP hP hne hJ hpre
    have hP256 : P.length = 256 := by omega
    have h1 := sub_length_le_one_of_full hk P hP256
    match hB : sub O P, hne, h1 with
    | [(k, v)], _, _ =>
      rw [hB] at hpre
      simp only [treeEv_single, AllQ, and_true]
      exact hleaf P prev J a k v htP hP hB hJ hpre
  | succ f ih =>
    intro P prev J a hf htP hP hne hJ hpre
    match hB : sub O P, hne with
    | [(k, v)], _ =>
      rw [hB] at hpre
      simp only [treeEv_single, AllQ, and_true]
      exact hleaf P prev J a k v htP hP hB hJ hpre
    | x :: y :: rest, _ =>
      have h2 : 2 ≤ (sub O P).length := by rw [hB]; simp
      have hPlt : P.length < 256 := lt_of_two_le_sub hk P hP h2
      rw [← hB, treeEv_sub_two H t P htP hPlt h2 prev]
      have hf' : ∀ b : Bool, 256 - (P ++ [b]).length = f := by intro b; simp; omega
      have htP' : ∀ b : Bool, t <+: (P ++ [b]) := fun b => List.IsPrefix.trans htP (List.prefix_append _ _)
      have hP' : ∀ b : Bool, (P ++ [b]).length ≤ 256 := by intro b; simp; omega
      have hJ' : ∀ b : Bool, J <+: (P ++ [b]) := fun b => List.IsPrefix.trans hJ (List.prefix_append _ _)
      have hmono : ∀ b : Bool, ∀ kv ∈ sub O (P ++ [b]), kv ∈ sub O P :=
        fun b => sub_mono hk P (P ++ [b]) (List.prefix_append _ _) (hP' b)
      have hsplit := sub_length_split (S := O) P
      by_cases h0 : sub O (P ++ [false]) = []
      · have h1 : sub O (P ++ [true]) ≠ [] := by
          intro h1; rw [h0, h1] at hsplit; simp at hsplit; rw [hsplit] at h2; simp at h2
        rw [h0, treeEv_nil, List.nil_append, allQ_append, allQ_singleton]
        have hpo : prevOf ([] : List (Key × VH)) prev = prev := rfl
        rw [hpo]
        have hpre1 := preJ_mono _ _ _ _ _ _ _ hpre (hmono true)
        refine ⟨ih (P ++ [true]) prev J a (hf' true) (htP' true) (hP' true) h1 (hJ' true) hpre1, ?_⟩
        obtain ⟨p1, _⟩ := tw_visit_tree H (fun _ => True) hs hk cfg t f (P ++ [true]) prev J a (hf' true) (htP' true)
          (hP' true) h1 (hJ' true) hpre1
        exact hint _ _ _ _
      · by_cases h1 : sub O (P ++ [true]) = []
        · rw [h1, treeEv_nil, List.append_nil, allQ_append, allQ_singleton]
          have hpre0 := preJ_mono _ _ _ _ _ _ _ hpre (hmono false)
          refine ⟨ih (P ++ [false]) prev J a (hf' false) (htP' false) (hP' false) h0 (hJ' false) hpre0, ?_⟩
          obtain ⟨p1, _⟩ := tw_visit_tree H (fun _ => True) hs hk cfg t f (P ++ [false]) prev J a (hf' false)
            (htP' false) (hP' false) h0 (hJ' false) hpre0
          exact hint _ _ _ _
        · have hpre0 := preJ_mono _ _ _ _ _ _ _ hpre (hmono false)
          obtain ⟨p1, _⟩ := tw_visit_tree H (fun _ => True) hs hk cfg t f (P ++ [false]) prev J a (hf' false)
            (htP' false) (hP' false) h0 (hJ' false) hpre0
          obtain ⟨init0, l0, hinit⟩ : ∃ init l, sub O (P ++ [false]) = init ++ [l] :=
            ⟨(sub O (P ++ [false])).dropLast, (sub O (P ++ [false])).getLast h0,
              (List.dropLast_concat_getLast h0).symm⟩
          have hl0 : l0 ∈ sub O (P ++ [false]) := by rw [hinit]; simp
          have hpo : prevOf (sub O (P ++ [false])) prev = some l0.1 := by
            rw [hinit]; exact prevOf_append_singleton _ _ _
          rw [hpo]
          have hle : t.length ≤ P.length := htP.length_le
          have hpre1 : PreJ t.length t (some l0.1) (sub O (P ++ [true])) (P ++ [true])
              (TW.visitAll H cfg t.length a (treeEv H t.length (256 - (P ++ [false]).length)
                ((P ++ [false]).length - t.length) (sub O (P ++ [false])) prev)).pos := by
            refine ⟨P, p1, rfl, hle, ?_⟩
            intro kv hkv
            have m0 := (mem_sub hk (P ++ [false]) (hP' false) l0).mp hl0
            have m1 := (mem_sub hk (P ++ [true]) (hP' true) kv).mp hkv
            have hlen0 := hk.len l0 m0.1
            have hlen1 := hk.len kv m1.1
            have ht0 : l0.1.take (P ++ [false]).length = P ++ [false] := (bl_prefix_iff_take _ _).mp m0.2
            have ht1 : kv.1.take (P ++ [true]).length = P ++ [true] := (bl_prefix_iff_take _ _).mp m1.2
            have hPP0 : l0.1.take P.length = P := by
              have := congrArg (List.take P.length) ht0
              simpa [List.take_take] using this
            have hPP1 : kv.1.take P.length = P := by
              have := congrArg (List.take P.length) ht1
              simpa [List.take_take] using this
            have hb0 : l0.1.getD P.length false = false := by
              have := bl_getD_of_prefix _ _ m0.2 P.length (by simp)
              simpa using this
            have hb1 : kv.1.getD P.length false = true := by
              have := bl_getD_of_prefix _ _ m1.2 P.length (by simp)
              simpa using this
            have e : t.length + (P.length - t.length) = P.length := by omega
            apply sharedRel_split t.length (P.length - t.length) l0.1 kv.1
            · rw [e, hPP0, hPP1]
            · rw [e, hlen0]; exact hPlt
            · rw [e, hlen1]; exact hPlt
            · rw [e, hb0, hb1]; simp
          obtain ⟨r1, _⟩ := tw_visit_tree H (fun _ => True) hs hk cfg t f (P ++ [true]) (some l0.1) (P ++ [true]) _
            (hf' true) (htP' true) (hP' true) h1 (List.prefix_refl _) hpre1
          rw [allQ_append, allQ_append, allQ_singleton]
          refine ⟨⟨ih (P ++ [false]) prev J a (hf' false) (htP' false) (hP' false) h0 (hJ' false) hpre0,
            ih (P ++ [true]) (some l0.1) (P ++ [true]) _ (hf' true) (htP' true) (hP' true) h1 (List.prefix_refl _) hpre1⟩,
            ?_⟩
          rw [tw_visitAll_append]
          exact hint _ _ _ _


end Nomt.Walker
