import NomtModel.Store.SeekerKeys
/-!
# Runs of the `Seeker`: any sequence of calls, any completion order — completions leave in push order, each key once
(helper lemmas for `Props/C05_Seeker.lean`)
-/
namespace Nomt.Seeker
open Nomt Nomt.Ovl Nomt.TriePos Nomt.Seek

variable {Node VH V : Type}

theorem submitIdleReqs_keys (env : Env Node VH V) (ht : Ht) : ∀ (l : List Nat) (m m' : Mux Node VH V),
    submitIdleReqs env ht l m = .ok m' → keys m' = keys m ∧ m'.processed = m.processed
  | [], m, m', h => by unfold submitIdleReqs at h; cases h; exact ⟨rfl, rfl⟩
  | idx :: rest, m, m', h => by
    unfold submitIdleReqs at h
    split at h
    · cases h; exact ⟨rfl, rfl⟩
    · split at h
      · rename_i m1 h1
        have e1 := submitReq_keys env ht _ _ _ _ h1
        have e2 := submitIdleReqs_keys env ht rest m1 m' h
        exact ⟨e2.1.trans e1.1, e2.2.trans e1.2⟩
      · cases h
      · cases h

theorem submitAll_keys (env : Env Node VH V) (ht : Ht) (m m' : Mux Node VH V) (h : submitAll env ht m = .ok m') :
    keys m' = keys m ∧ m'.processed = m.processed := by
  unfold submitAll at h
  split at h
  · cases h; exact ⟨rfl, rfl⟩
  · split at h
    · rename_i m1 h1
      have e1 := submitIdleLoads_reqs ht _ _ _ h1
      have e2 := submitIdleReqs_keys env ht _ _ _ h
      refine ⟨e2.1.trans ?_, e2.2.trans e1.2⟩
      unfold keys; rw [e1.1]
    · cases h
    · cases h

theorem wakeLoop_keys (deliver : PageSet Node → Req Node VH V → Outcome Unit (PageSet Node × Req Node VH V))
    (hd : ∀ ps r ps' r', deliver ps r = .ok (ps', r') → r'.key = r.key) : ∀ (l : List Nat) (m m' : Mux Node VH V),
    wakeLoop deliver l m = .ok m' → keys m' = keys m ∧ m'.processed = m.processed
  | [], m, m', h => by unfold wakeLoop at h; cases h; exact ⟨rfl, rfl⟩
  | w :: rest, m, m', h => by
    unfold wakeLoop at h
    split at h
    · exact wakeLoop_keys deliver hd rest m m' h
    · split at h
      · cases h
      · rename_i r hr
        split at h
        · cases h
        · split at h
          · cases h
          · cases h
          · rename_i ps' r' hc
            have ih := wakeLoop_keys deliver hd rest _ m' h
            refine ⟨ih.1.trans ?_, ih.2⟩
            exact map_key_set _ _ _ _ hr (hd _ _ _ _ hc)

theorem handleMerkle_keys (env : Env Node VH V) (m m' : Mux Node VH V) (si : Nat) (page : MPage Node)
    (h : handleMerkle env m si page = .ok m') : keys m' = keys m ∧ m'.processed = m.processed := by
  unfold handleMerkle at h
  split at h
  · cases h
  · cases h
  · cases h
  · have := wakeLoop_keys _ (fun ps r ps' r' hc => continueSeek_key env _ _ _ _ _ _ hc) _ _ _ h
    exact this

theorem handleLeaf_keys (env : Env Node VH V) (m m' : Mux Node VH V) (si : Nat)
    (h : handleLeaf env m si = .ok m') : keys m' = keys m ∧ m'.processed = m.processed := by
  unfold handleLeaf at h
  split at h
  · cases h
  · cases h
  · cases h
  · have := wakeLoop_keys _ (fun ps r ps' r' hc => feedLeaf_key env _ _ _ _ _ hc) _ _ _ h
    exact this

theorem recv_keys (env : Env Node VH V) (ht : Ht) (m m' : Mux Node VH V) (ud : Nat)
    (h : recv env ht m ud = .ok m') : keys m' = keys m ∧ m'.processed = m.processed := by
  unfold recv at h
  simp only at h
  splitall h
  all_goals
    first
    | (cases h; done)
    | (cases h; exact ⟨rfl, rfl⟩)
    | (have := handleMerkle_keys env _ _ _ _ h; exact this)
    | (have := handleLeaf_keys env _ _ _ h; exact this)

theorem push_keys (env : Env Node VH V) (m m' : Mux Node VH V) (key : Key) (h : push env m key = .ok m') :
    keys m' = keys m ++ [key] ∧ m'.processed = m.processed := by
  unfold push at h
  split at h
  · rename_i r hr
    cases h
    refine ⟨?_, rfl⟩
    unfold keys
    simp [reqNew_key env key r hr]
  · cases h
  · cases h

theorem take_some (m m' : Mux Node VH V) (r : Req Node VH V) (h : takeCompletion m = (m', some r)) :
    keys m = r.key :: keys m' ∧ r.isCompleted = true ∧ m'.processed = m.processed + 1 ∧ m.reqs.head? = some r := by
  unfold takeCompletion at h
  split at h
  · rename_i r0 rest hm
    split at h
    · rename_i hc
      simp only [Prod.mk.injEq, Option.some.injEq] at h
      obtain ⟨h1, h2⟩ := h
      subst h1; subst h2
      exact ⟨by unfold keys; rw [hm]; rfl, hc, rfl, by rw [hm]; rfl⟩
    · simp at h
  · simp at h

theorem take_none (m m' : Mux Node VH V) (h : takeCompletion m = (m', none)) : m' = m := by
  unfold takeCompletion at h
  split at h
  · split at h
    · simp at h
    · simp only [Prod.mk.injEq] at h; exact h.1.symm
  · simp only [Prod.mk.injEq] at h; exact h.1.symm

/-! ### runs -/

/-- what the owner of a seeker (a merkle worker, `Updater::prove`) and the I/O pool may do next -/
inductive Op where
  | push (key : Key)
  | submitAll
  /-- `try_recv_page` / `recv_page` when the I/O pool hands over the completion of the read `ud` -/
  | recv (ud : Nat)
  /-- the same with an I/O error -/
  | recvErr (ud : Nat)
  | take

/-- the seeker and the completions handed out so far (oldest first) -/
structure Run (Node VH V : Type) where
  m : Mux Node VH V
  out : List (Req Node VH V) := []

/-- one call; a `recv` for which no read is in flight changes nothing -/
def exec (env : Env Node VH V) (ht : Ht) (s : Run Node VH V) : Op → Outcome Unit (Run Node VH V)
  | .push key =>
    match push env s.m key with
    | .ok m => .ok { s with m := m }
    | .panic e => .panic e
    | .err e => .err e
  | .submitAll =>
    match submitAll env ht s.m with
    | .ok m => .ok { s with m := m }
    | .panic e => .panic e
    | .err e => .err e
  | .recv ud =>
    match recv env ht s.m ud with
    | .ok m => .ok { s with m := m }
    | .panic e => .panic e
    | .err _ => .ok s
  | .recvErr ud => .ok { s with m := recvErr s.m ud }
  | .take =>
    match takeCompletion s.m with
    | (m, some r) => .ok { m := m, out := s.out ++ [r] }
    | (m, none) => .ok { s with m := m }

def run (env : Env Node VH V) (ht : Ht) : Run Node VH V → List Op → Outcome Unit (Run Node VH V)
  | s, [] => .ok s
  | s, o :: os =>
    match exec env ht s o with
    | .ok s' => run env ht s' os
    | .panic e => .panic e
    | .err e => .err e

/-- the keys pushed by a list of calls -/
def pushedKeys : List Op → List Key
  | [] => []
  | .push k :: os => k :: pushedKeys os
  | _ :: os => pushedKeys os

theorem exec_fifo (env : Env Node VH V) (ht : Ht) (s s' : Run Node VH V) (o : Op) (h : exec env ht s o = .ok s') :
    s'.out.map (·.key) ++ keys s'.m = s.out.map (·.key) ++ keys s.m ++ pushedKeys [o] ∧
    s'.m.processed + s.out.length = s.m.processed + s'.out.length ∧
    ((∀ r ∈ s.out, r.isCompleted = true) → (∀ r ∈ s'.out, r.isCompleted = true)) := by
  cases o with
  | push key =>
    simp only [exec] at h
    split at h
    · rename_i m hm
      cases h
      have e := push_keys env _ _ _ hm
      exact ⟨by simp [pushedKeys, e.1], by simp [e.2], fun hc => hc⟩
    · cases h
    · cases h
  | submitAll =>
    simp only [exec] at h
    split at h
    · rename_i m hm
      cases h
      have e := submitAll_keys env ht _ _ hm
      exact ⟨by simp [pushedKeys, e.1], by simp [e.2], fun hc => hc⟩
    · cases h
    · cases h
  | recv ud =>
    simp only [exec] at h
    split at h
    · rename_i m hm
      cases h
      have e := recv_keys env ht _ _ _ hm
      exact ⟨by simp [pushedKeys, e.1], by simp [e.2], fun hc => hc⟩
    · cases h
    · cases h; exact ⟨by simp [pushedKeys], rfl, fun hc => hc⟩
  | recvErr ud =>
    simp only [exec] at h
    cases h
    exact ⟨by simp [pushedKeys, keys, recvErr], by simp [recvErr], fun hc => hc⟩
  | take =>
    simp only [exec] at h
    split at h
    · rename_i m r hm
      cases h
      obtain ⟨e1, e2, e3, _⟩ := take_some _ _ _ hm
      refine ⟨by simp [pushedKeys, e1], by simp [e3]; omega, ?_⟩
      intro hc r' hr'
      rcases List.mem_append.1 hr' with h1 | h1
      · exact hc r' h1
      · have : r' = r := by simpa using h1
        rw [this]; exact e2
    · rename_i m hm
      cases h
      have := take_none _ _ hm
      subst this
      exact ⟨by simp [pushedKeys], rfl, fun hc => hc⟩

theorem pushedKeys_cons (o : Op) (os : List Op) : pushedKeys (o :: os) = pushedKeys [o] ++ pushedKeys os := by
  cases o <;> simp [pushedKeys]

theorem run_fifo (env : Env Node VH V) (ht : Ht) : ∀ (ops : List Op) (s s' : Run Node VH V), run env ht s ops = .ok s' →
    s'.out.map (·.key) ++ keys s'.m = s.out.map (·.key) ++ keys s.m ++ pushedKeys ops ∧
    s'.m.processed + s.out.length = s.m.processed + s'.out.length ∧
    ((∀ r ∈ s.out, r.isCompleted = true) → (∀ r ∈ s'.out, r.isCompleted = true))
  | [], s, s', h => by unfold run at h; cases h; exact ⟨by simp [pushedKeys], rfl, fun hc => hc⟩
  | o :: os, s, s', h => by
    unfold run at h
    split at h
    · rename_i s1 h1
      obtain ⟨a1, a2, a3⟩ := exec_fifo env ht s s1 o h1
      obtain ⟨b1, b2, b3⟩ := run_fifo env ht os s1 s' h
      refine ⟨?_, by omega, fun hc => b3 (a3 hc)⟩
      rw [b1, a1, pushedKeys_cons o os]
      simp [List.append_assoc]
    · cases h
    · cases h

end Nomt.Seeker
