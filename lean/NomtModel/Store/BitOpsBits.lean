import NomtModel.Store.BitOps
/-!
# Bits, bytes and 64-bit words: the small library behind the `bit_ops` proofs

`natOfBits` / `byteOfBits` / `bytesOfBits` (bit functions → numbers / byte strings), `beVal` / `word` /
`toBE` (big-endian words), all characterised through `Nat.testBit`.
-/
namespace Nomt.BitOps

theorem testBit_two_mul_add_bit (x : Nat) (b : Bool) (i : Nat) :
    (2 * x + (if b then 1 else 0)).testBit i = if i = 0 then b else x.testBit (i - 1) := by
  cases i with
  | zero => cases b <;> simp [Nat.testBit_zero] <;> omega
  | succ i =>
    rw [Nat.testBit_succ]
    have : (2 * x + (if b then 1 else 0)) / 2 = x := by cases b <;> simp <;> omega
    simp [this]

theorem natOfBits_lt (f : Nat → Bool) : ∀ w, natOfBits f w < 2 ^ w := by
  intro w
  induction w with
  | zero => simp [natOfBits]
  | succ w ih =>
    simp only [natOfBits, Nat.pow_succ]
    split <;> omega

theorem testBit_natOfBits (f : Nat → Bool) : ∀ w i, (natOfBits f w).testBit i = (decide (i < w) && f (w - 1 - i)) := by
  intro w
  induction w with
  | zero => intro i; simp [natOfBits]
  | succ w ih =>
    intro i
    simp only [natOfBits]
    rw [testBit_two_mul_add_bit]
    by_cases h0 : i = 0
    · subst h0; simp
    · rw [if_neg h0, ih]
      have e : w + 1 - 1 - i = w - 1 - (i - 1) := by omega
      rw [e]
      by_cases h1 : i < w + 1
      · have : i - 1 < w := by omega
        simp [h1, this]
      · have : ¬ (i - 1 < w) := by omega
        simp [h1, this]

theorem byteOfBits_lt (f : Nat → Bool) (i : Nat) : byteOfBits f i < 256 := natOfBits_lt _ 8

theorem testBit_byteOfBits (f : Nat → Bool) (i u : Nat) :
    (byteOfBits f i).testBit u = (decide (u < 8) && f (8 * i + (7 - u))) := by
  unfold byteOfBits
  rw [testBit_natOfBits]

theorem length_bytesOfBits (f : Nat → Bool) (n : Nat) : (bytesOfBits f n).length = n := by simp [bytesOfBits]

theorem getD_bytesOfBits (f : Nat → Bool) (n i : Nat) (h : i < n) : (bytesOfBits f n).getD i 0 = byteOfBits f i := by
  simp [bytesOfBits, List.getD_eq_getElem?_getD, h]

theorem bytes_bytesOfBits (f : Nat → Bool) (n : Nat) : Bytes (bytesOfBits f n) := by
  intro b hb
  simp only [bytesOfBits, List.mem_map, List.mem_range] at hb
  obtain ⟨i, _, rfl⟩ := hb
  exact byteOfBits_lt f i

theorem bitOf_bytesOfBits (f : Nat → Bool) (n p : Nat) (h : p < 8 * n) : bitOf (bytesOfBits f n) p = f p := by
  unfold bitOf
  rw [getD_bytesOfBits f n (p / 8) (by omega), testBit_byteOfBits]
  have h1 : 7 - p % 8 < 8 := by omega
  have h2 : 8 * (p / 8) + (7 - (7 - p % 8)) = p := by omega
  simp [h1, h2]

theorem bitOf_beyond (l : List Nat) (p : Nat) (h : 8 * l.length ≤ p) : bitOf l p = false := by
  unfold bitOf
  have : l.length ≤ p / 8 := by omega
  simp [List.getD_eq_getElem?_getD, List.getElem?_eq_none this]

/-- two bytes with the same bits are equal -/
theorem byte_ext {x y : Nat} (hx : x < 256) (hy : y < 256) (h : ∀ u, u < 8 → x.testBit u = y.testBit u) : x = y := by
  apply Nat.eq_of_testBit_eq
  intro i
  by_cases hi : i < 8
  · exact h i hi
  · have h8 : (256 : Nat) = 2 ^ 8 := by decide
    have hxi : x < 2 ^ i := Nat.lt_of_lt_of_le (h8 ▸ hx) (Nat.pow_le_pow_right (by decide) (by omega))
    have hyi : y < 2 ^ i := Nat.lt_of_lt_of_le (h8 ▸ hy) (Nat.pow_le_pow_right (by decide) (by omega))
    rw [Nat.testBit_lt_two_pow hxi, Nat.testBit_lt_two_pow hyi]

/-- a byte is the byte of its own bits -/
theorem byteOfBits_bitOf (l : List Nat) (hl : Bytes l) (i : Nat) : byteOfBits (bitOf l) i = l.getD i 0 := by
  have hb : l.getD i 0 < 256 := by
    rw [List.getD_eq_getElem?_getD]
    cases h : l[i]? with
    | none => simp
    | some b => simp; exact hl b (List.mem_of_getElem? h)
  apply byte_ext (byteOfBits_lt _ _) hb
  intro u hu
  rw [testBit_byteOfBits]
  have e1 : (8 * i + (7 - u)) / 8 = i := by omega
  have e2 : 7 - (8 * i + (7 - u)) % 8 = u := by omega
  simp only [bitOf, hu, decide_true, Bool.true_and, e1, e2]

theorem getD_lt_of_bytes {l : List Nat} (hl : Bytes l) (i : Nat) : l.getD i 0 < 256 := by
  rw [List.getD_eq_getElem?_getD]
  cases h : l[i]? with
  | none => simp
  | some b => simp; exact hl b (List.mem_of_getElem? h)

/-- a byte string is the byte string of its own bits -/
theorem bytesOfBits_bitOf (l : List Nat) (hl : Bytes l) : bytesOfBits (bitOf l) l.length = l := by
  apply List.ext_getElem?
  intro i
  by_cases hi : i < l.length
  · have := getD_bytesOfBits (bitOf l) l.length i hi
    rw [byteOfBits_bitOf l hl] at this
    rw [List.getD_eq_getElem?_getD, List.getD_eq_getElem?_getD] at this
    have h1 : i < (bytesOfBits (bitOf l) l.length).length := by rw [length_bytesOfBits]; exact hi
    rw [List.getElem?_eq_getElem h1, List.getElem?_eq_getElem hi] at this ⊢
    simpa using this
  · rw [List.getElem?_eq_none (by rw [length_bytesOfBits]; omega), List.getElem?_eq_none (by omega)]

/-- byte strings of the same length with the same bits are equal -/
theorem bytes_ext_bits {l m : List Nat} (hl : Bytes l) (hm : Bytes m) (hlen : l.length = m.length)
    (h : ∀ p, p < 8 * l.length → bitOf l p = bitOf m p) : l = m := by
  rw [← bytesOfBits_bitOf l hl, ← bytesOfBits_bitOf m hm, ← hlen]
  unfold bytesOfBits
  apply List.map_congr_left
  intro i hi
  have hi' : i < l.length := List.mem_range.mp hi
  apply byte_ext (byteOfBits_lt _ _) (byteOfBits_lt _ _)
  intro u hu
  rw [testBit_byteOfBits, testBit_byteOfBits, h _ (by omega)]

/-! ## big-endian values -/

theorem beVal_lt : ∀ (l : List Nat), Bytes l → beVal l < 2 ^ (8 * l.length) := by
  intro l
  induction l with
  | nil => intro _; simp [beVal]
  | cons b r ih =>
    intro hl
    have hb : b < 256 := hl b (List.mem_cons_self ..)
    have hr := ih (fun x hx => hl x (List.mem_cons_of_mem _ hx))
    simp only [beVal, List.length_cons]
    have e : 2 ^ (8 * (r.length + 1)) = 2 ^ (8 * r.length) * 256 := by
      rw [Nat.mul_add, Nat.pow_add]
    rw [e]
    have : 2 ^ (8 * r.length) * b + 2 ^ (8 * r.length) ≤ 2 ^ (8 * r.length) * 256 := by
      rw [← Nat.mul_succ]; exact Nat.mul_le_mul_left _ hb
    omega

theorem testBit_beVal : ∀ (l : List Nat), Bytes l → ∀ i,
    (beVal l).testBit i = (decide (i < 8 * l.length) && bitOf l (8 * l.length - 1 - i)) := by
  intro l
  induction l with
  | nil => intro _ i; simp [beVal]
  | cons b r ih =>
    intro hl i
    have hb : b < 256 := hl b (List.mem_cons_self ..)
    have hrB : Bytes r := fun x hx => hl x (List.mem_cons_of_mem _ hx)
    simp only [beVal, List.length_cons]
    rw [Nat.testBit_two_pow_mul_add _ (beVal_lt r hrB)]
    by_cases h1 : i < 8 * r.length
    · rw [if_pos h1, ih hrB]
      have h2 : i < 8 * (r.length + 1) := by omega
      simp only [h1, h2, decide_true, Bool.true_and]
      unfold bitOf
      have e1 : (8 * (r.length + 1) - 1 - i) / 8 = (8 * r.length - 1 - i) / 8 + 1 := by omega
      have e2 : (8 * (r.length + 1) - 1 - i) % 8 = (8 * r.length - 1 - i) % 8 := by omega
      rw [e1, e2]; simp
    · rw [if_neg h1]
      by_cases h2 : i < 8 * (r.length + 1)
      · simp only [h2, decide_true, Bool.true_and]
        unfold bitOf
        have e1 : (8 * (r.length + 1) - 1 - i) / 8 = 0 := by omega
        have e2 : 7 - (8 * (r.length + 1) - 1 - i) % 8 = i - 8 * r.length := by omega
        rw [e1, e2]; simp
      · simp only [h2, decide_false, Bool.false_and]
        have h8 : (256 : Nat) = 2 ^ 8 := by decide
        apply Nat.testBit_lt_two_pow
        exact Nat.lt_of_lt_of_le (h8 ▸ hb) (Nat.pow_le_pow_right (by decide) (by omega))

theorem bytes_get8 (l : List Nat) (hl : Bytes l) (o : Nat) : Bytes (get8 l o) := by
  intro b hb
  simp only [get8, List.mem_cons, List.not_mem_nil, or_false] at hb
  rcases hb with h | h | h | h | h | h | h | h <;> subst h <;> exact getD_lt_of_bytes hl _

theorem bitOf_get8 (l : List Nat) (o q : Nat) (hq : q < 64) : bitOf (get8 l o) q = bitOf l (8 * o + q) := by
  unfold bitOf
  have e1 : (8 * o + q) / 8 = o + q / 8 := by omega
  have e2 : (8 * o + q) % 8 = q % 8 := by omega
  rw [e1, e2]
  have : q / 8 = 0 ∨ q / 8 = 1 ∨ q / 8 = 2 ∨ q / 8 = 3 ∨ q / 8 = 4 ∨ q / 8 = 5 ∨ q / 8 = 6 ∨ q / 8 = 7 := by omega
  rcases this with h | h | h | h | h | h | h | h <;> rw [h] <;> simp [get8]

theorem word_lt (l : List Nat) (hl : Bytes l) (o : Nat) : word l o < 2 ^ 64 := by
  have := beVal_lt (get8 l o) (bytes_get8 l hl o)
  simpa [word, get8] using this

/-- bit `i` (Lsb0) of the big-endian word at byte `o` is bit `8·o + 63 − i` (Msb0) of the string -/
theorem testBit_word (l : List Nat) (hl : Bytes l) (o i : Nat) :
    (word l o).testBit i = (decide (i < 64) && bitOf l (8 * o + (63 - i))) := by
  unfold word
  rw [testBit_beVal _ (bytes_get8 l hl o)]
  have e : 8 * (get8 l o).length = 64 := by simp [get8]
  rw [e]
  by_cases hi : i < 64
  · simp only [hi, decide_true, Bool.true_and]
    rw [bitOf_get8 l o _ (by omega)]
  · simp [hi]

theorem getD_toBE (w k : Nat) (hk : k < 8) : (toBE w).getD k 0 = w >>> (8 * (7 - k)) % 256 := by
  have : k = 0 ∨ k = 1 ∨ k = 2 ∨ k = 3 ∨ k = 4 ∨ k = 5 ∨ k = 6 ∨ k = 7 := by omega
  rcases this with h | h | h | h | h | h | h | h <;> subst h <;> simp [toBE]

theorem length_toBE (w : Nat) : (toBE w).length = 8 := rfl

theorem bytes_toBE (w : Nat) : Bytes (toBE w) := by
  intro b hb
  simp only [toBE, List.mem_cons, List.not_mem_nil, or_false] at hb
  rcases hb with h | h | h | h | h | h | h | h <;> subst h <;> exact Nat.mod_lt _ (by decide)

theorem testBit_toBE (w k u : Nat) (hk : k < 8) :
    ((toBE w).getD k 0).testBit u = (decide (u < 8) && w.testBit (8 * (7 - k) + u)) := by
  rw [getD_toBE w k hk]
  have h8 : (256 : Nat) = 2 ^ 8 := by decide
  rw [h8, Nat.testBit_mod_two_pow, Nat.testBit_shiftRight]

/-- if the word's bits are `f (64·c + j)`, its big-endian bytes are the bytes `8·c + k` of `f` -/
theorem toBE_eq_byteOfBits (w c : Nat) (f : Nat → Bool) (h : ∀ j, j < 64 → w.testBit (63 - j) = f (64 * c + j))
    (k : Nat) (hk : k < 8) : (toBE w).getD k 0 = byteOfBits f (8 * c + k) := by
  apply byte_ext (getD_lt_of_bytes (bytes_toBE w) k) (byteOfBits_lt _ _)
  intro u hu
  rw [testBit_toBE w k u hk, testBit_byteOfBits]
  simp only [hu, decide_true, Bool.true_and]
  have e1 : 8 * (7 - k) + u = 63 - (8 * k + (7 - u)) := by omega
  rw [e1, h _ (by omega)]
  congr 1; omega

end Nomt.BitOps
