import NomtModel.Store.FreeListShape
/-!
C17, allocator clause: the pages `commit` / `finish` hand to `encode_head` (the free-list pages a sync writes)
were free in the state the sync started from, or lie beyond its frontier.
-/
namespace Nomt.Store.FreeList

/-- the page numbers of the free-list pages themselves -/
def headsOf (ps : List Portion) : List Nat := ps.map (fun p => p.1)

theorem count_pages_eq (a : Nat) : ∀ ps : List Portion,
    List.count a (pagesOf ps) = List.count a (headsOf ps) + List.count a (itemsOf ps) := by
  intro ps
  induction ps with
  | nil => simp [pagesOf, headsOf, itemsOf]
  | cons p rest ih =>
    obtain ⟨h, items⟩ := p
    rw [count_pagesOf_cons, itemsOf_cons, List.count_append, ih]
    simp only [headsOf, List.map_cons, List.count_cons]
    omega

/-- the invariant of the `preallocate` loop used for the written pages -/
structure PAWr (cap : Nat) (I : List Nat) (B : Nat) (st : PA) : Prop where
  shape : PAShape cap st
  fresh : PAFresh I B st
  tne : st.nfp = true → st.ps ≠ [] → st.toPush ≠ []

theorem paStart_tne {cap : Nat} {ps : List Portion} {toPush : List Nat} {bump : Nat} {st : PA}
    (h : paStart cap ps toPush bump = some st) : st.nfp = true → st.ps ≠ [] → st.toPush ≠ [] := by
  match ps, h with
  | [], h =>
    simp only [paStart, popP, Option.some.injEq] at h
    subst h
    intro _ hne; exact absurd rfl hne
  | (hd, []) :: rest, h => simp [paStart, popP] at h
  | [(hd, [x])], h =>
    simp only [paStart, popP, Option.some.injEq] at h
    subst h
    intro _ hne; exact absurd rfl hne
  | (hd, [x]) :: (nh, nitems) :: rest, h =>
    simp only [paStart, popP] at h
    split at h
    · injection h with h; subst h
      intro e; cases e
    · injection h with h; subst h
      intro _ _; simp
  | (hd, x :: y :: xs) :: rest, h =>
    simp only [paStart, popP, Option.some.injEq] at h
    subst h
    intro e; cases e

theorem paStep_wr {cap : Nat} (hc : 2 ≤ cap) {I : List Nat} {B : Nat} {st st1 : PA} (hw : PAWr cap I B st)
    (hlt : st.i < st.toPush.length) (k : StepKind cap st st1) : PAWr cap I B st1 := by
  refine ⟨paStep_shape hc hw.shape k, paStep_fresh hw.fresh k, ?_⟩
  have hne : st.toPush ≠ [] := by
    intro e; rw [e] at hlt; simp at hlt
  cases k with
  | rehead h x xs rest hn hps e => subst e; intro e; cases e
  | pop h x y xs rest hn hps e => subst e; intro e; cases e
  | release h x rest hn hps e => subst e; intro _ _; exact hne
  | bump hps e => subst e; intro _ _; exact hne

/-- **`commit` writes only fresh pages** -/
theorem commit_written {cap : Nat} (hc : 2 ≤ cap) {s : State} {freed : List Nat} {r : Committed}
    (hw : WellShaped cap s.portions) (h : commit cap s freed = some r) :
    ∀ w ∈ r.written, w ∈ itemsOf s.portions ∨ s.bump ≤ w := by
  unfold commit at h
  split at h
  · injection h with h; subst h
    intro w hw; cases hw
  · simp only at h
    split at h
    · cases h
    · rename_i st0 h0
      split at h
      · cases h
      · rename_i st h1
        split at h
        · cases h
        · rename_i ps' written h2
          injection h with h; subst h
          have inv0 : PAWr cap (itemsOf s.portions) s.bump st0 :=
            ⟨paStart_shape hc hw h0, paStart_fresh h0, paStart_tne h0⟩
          obtain ⟨inv, _⟩ := paLoop_induct cap (PAWr cap (itemsOf s.portions) s.bump)
            (fun a b hi hlt k => paStep_wr hc hi hlt k) _ st0 st h1 inv0
          simp only
          apply pushEnc_written cap (fun x => x ∈ itemsOf s.portions ∨ s.bump ≤ x) _ _ _ _ _ _ _ h2
          · exact inv.fresh.newp
          · intro hu z hz
            cases hn : st.nfp with
            | false => exact inv.fresh.head hn z hz
            | true =>
              rw [hn] at hu
              simp only [Bool.true_and, Bool.not_eq_false', List.isEmpty_iff] at hu
              rw [hu] at hz; cases hz
          · intro hu
            simp only [Bool.and_eq_true, Bool.not_eq_true', List.isEmpty_eq_false_iff] at hu
            obtain ⟨hn, hne⟩ := hu
            refine ⟨?_, inv.tne hn hne⟩
            match hps : st.ps with
            | [] => exact absurd hps hne
            | (hd, items) :: rest =>
              have := inv.shape.full _ _ _ hps hn
              simp [headFull, this]
          · intro x hx; cases hx

/-- **`finish` writes only fresh pages**, more precisely: free pages of the start state that were not handed
out by this sync's allocations, or pages beyond the frontier reached by those allocations -/
theorem finish_written {cap : Nat} (hc : 2 ≤ cap) {s : State} {n : Nat} {freed : List Nat} {r : Committed}
    (hw : WellShaped cap s.portions) (h : finish cap s n freed = some r) :
    ∀ w ∈ r.written, w ∈ (itemsOf s.portions).drop n ∨ s.bump + (n - (itemsOf s.portions).length) ≤ w := by
  unfold finish at h
  simp only at h
  obtain ⟨d1, d2, _⟩ := discardP_spec s.portions n s.released
  have := commit_written hc (discardP_wellShaped hc s.portions n s.released hw) h
  simp only at this
  intro w hwm
  rcases this w hwm with h1 | h1
  · left; rw [← d1]; exact h1
  · right; rw [d2] at h1; omega

end Nomt.Store.FreeList
