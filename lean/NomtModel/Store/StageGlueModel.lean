import NomtModel.Store.LeafUpdModel
import NomtModel.Store.BranchUpdModel
import NomtModel.Store.ExtRangeModel
import NomtModel.Store.OvfModel
/-!
# The glue of the beatree update around the per-node updaters

Mirror of `nomt/src/beatree/ops/update/mod.rs::update` (leaf stage → branch stage, what is released, what is handed back
to `Tree::prepare_sync`), of `leaf_stage.rs` OUTSIDE the `LeafUpdater` (`run`: the changeset map with `overflow::chunk`,
`run_worker`'s calls of `NodesTracker::delete` / `handle_new_leaf`, `apply_worker_changes`, `filter_leaves_changeset`,
`enforce_first_leaf_separator`, `PostIoWork::run`) and of `branch_stage.rs` outside the `BranchUpdater` (`run_worker`'s
tracker calls, `apply_bbn_changes`, `filter_branch_changeset`, `apply_changes_to_index`) — for ONE worker (the split into
workers and the extend-range protocol are `Store/ExtRange*.lean`).

Reused: the `LeafUpdater` mirror and its one-worker loop (`Store/LeafUpdModel.lean`: `digest`, `ingest`, `resetTo`,
`skipTo`), the `BranchUpdater` mirror (`Store/BranchUpdModel.lean`), `NodesTracker` / `filter_*_changeset`
(`Store/ExtRangeModel.lean`: `Tracker`, `Tracker.delete`, `Tracker.insert`, `filterCs`), `total_needed_pages`
(`Store/OvfModel.lean`).  `none` = a panic site (or the fuel of a loop, which is never the answer: `Store/StageGlueTotal.lean`).

The instrumented workers `leafWorker` / `branchWorker` run the existing loops (`LeafUpd.resetTo`, `BranchUpd.resetTo`, `digest`,
`ingest`) and record, at the program points where the Rust makes them, the calls on the worker's `NodesTracker` (`Ev`); the
tracker is the fold `runEvs` of these calls in order.  Erasing the record gives back `LeafUpd.runWorker` /
`BranchUpd.runWorker` (`Store/StageGlueErase.lean`), so every theorem about those applies.
-/
namespace Nomt.StageGlue
open Nomt
open Nomt.LeafUpd (Entry DbLeaf OutLeaf Leaf CellSize)
open Nomt.ExtRange (Tracker TE Inner Pn upsert lookupE filterCs)

/-! ## values -/

/-- a leaf cell as the glue sees it: its length, and the pages `overflow::delete` frees for it (the page numbers in the
cell and the ones found in the pages: `Nomt.C19.T19_overflow_pages_conserved`); `[]` for an inline value -/
structure Cell where
  size : Nat
  pages : List Nat
deriving DecidableEq, Repr

instance : CellSize Cell := ⟨Cell.size⟩

/-- `ValueChange` (the bytes do not matter: only the length decides the shape) -/
inductive VC where
  | delete
  | insert (len : Nat)
  | insertOverflow (len : Nat)
deriving DecidableEq, Repr

/-- the `changeset.iter().map(..)` of `leaf_stage::run`: an `InsertOverflow` is chunked right away — `overflow::chunk`
allocates `total_needed_pages(len)` pages from the leaf store (`fresh k` = the page the `k`-th `allocate()` of this sync
returns) and `encode_cell` keeps the first 15.  Returns the updater's change list, the number of allocations and
`overflow_io`.  `none`: `assert!(!value.is_empty())` of `chunk` / "Value size exceeded" of `encode_cell`. -/
def mapChangeset (fresh : Nat → Nat) : Nat → List (Nat × VC) → Option (List (Nat × Option (Cell × Bool)) × Nat)
  | a, [] => some ([], a)
  | a, (k, .delete) :: cs => (mapChangeset fresh a cs).map fun r => ((k, none) :: r.1, r.2)
  | a, (k, .insert len) :: cs => (mapChangeset fresh a cs).map fun r => ((k, some (⟨len, []⟩, false)) :: r.1, r.2)
  | a, (k, .insertOverflow len) :: cs =>
    if len = 0 ∨ len > Ovf.MAX_VALUE_SIZE then none else
    let total := Ovf.totalNeededPages len
    let pages := (List.range total).map fun i => fresh (a + i)
    (mapChangeset fresh (a + total) cs).map fun r =>
      ((k, some (⟨40 + 4 * min total Ovf.MAX_CELL_PNS, pages⟩, true)) :: r.1, r.2)

/-! ## `indexed_leaf` on the leaf level -/

/-- the leaf level as the branch level shows it: (separator, leaf page number), ascending -/
abbrev Level := List (Nat × Nat)

/-- `indexed_leaf(bbn_index, key)`: (separator, separator of the next leaf, page number) of the leaf covering `key` -/
def indexedLeaf : Level → Nat → Option (Nat × Option Nat × Nat)
  | [], _ => none
  | (s, pn) :: rest, key =>
    if key < s then none else
    match rest with
    | [] => some (s, none, pn)
    | (s2, _) :: _ => if key < s2 then some (s, some s2, pn) else indexedLeaf rest key

/-! ## `enforce_first_leaf_separator` -/

/-- one evaluation of `maybe_new_first = indexed_leaf(separator).next.map(|n| indexed_leaf(n).unwrap())`: the new
candidate and the new `separator`; `none` = the `unwrap` -/
def nextCandidate (lvl : Level) (sep : Nat) : Option (Option (Nat × Nat) × Nat) :=
  match (indexedLeaf lvl sep).bind (·.2.1) with
  | none => some (none, sep)
  | some ns =>
    match indexedLeaf lvl ns with
    | none => none
    | some (s, _, pn) => some (some (s, pn), ns)

/-- the guard of the arm that skips a deleted candidate.  `seeded` = the seeded change
`C01-first-leaf-separator-skips-untouched` (`s == *separator` became `s <= *separator`) -/
def skipGuard (seeded : Bool) (cand : Option (Nat × Nat)) (k : Nat) : Bool :=
  match cand with
  | some (s, _) => if seeded then decide (s ≤ k) else decide (s = k)
  | none => false

/-- the `loop` of `enforce_first_leaf_separator`: `(maybe_new_first, idx)` when it breaks -/
def enforceLoop (seeded : Bool) (lvl : Level) (cs : List (Nat × Option Nat)) :
    (fuel sep idx : Nat) → Option (Option (Nat × Nat) × Nat)
  | 0, _, _ => none
  | fuel + 1, sep, idx =>
    match nextCandidate lvl sep with
    | none => none
    | some (cand, sep') =>
      match cs[idx]? with
      | none => some (cand, idx)                                    -- `idx >= leaf_changeset.len()`
      | some (k, none) =>
        if skipGuard seeded cand k then enforceLoop seeded lvl cs fuel sep' (idx + 1) else some (cand, idx)
      | some (_, some _) => some (cand, idx)

/-- `leaf_changeset[0].1 = v` -/
def setFirst (cs : List (Nat × Option Nat)) (v : Option Nat) : List (Nat × Option Nat) :=
  match cs with
  | [] => []
  | (k, _) :: t => (k, v) :: t

/-- `enforce_first_leaf_separator(&mut leaf_changeset, bbn_index)` -/
def enforceFirst (seeded : Bool) (lvl : Level) (cs : List (Nat × Option Nat)) : Option (List (Nat × Option Nat)) :=
  match cs with
  | (0, none) :: _ =>
    match enforceLoop seeded lvl cs (cs.length + 1) 0 1 with
    | none => none
    | some (cand, idx) =>
      -- "New leaf with a separator smaller or equal to the candidate."
      let newer : Option (Nat × Nat) :=
        match cs[idx]? with
        | some (k, some pn) =>
          if (match cand with | none => true | some (s, _) => decide (s ≥ k)) then some (k, pn) else none
        | _ => none
      match newer with
      | some (k, pn) =>
        let cs1 := setFirst cs (some pn)
        if (match cand with | some (s, _) => decide (s = k) | none => false) then some (cs1.set idx (k, none))
        else some (cs1.eraseIdx idx)
      | none =>
        match cand with
        | some (s, pn) => some ((setFirst cs (some pn)).insertIdx idx (s, none))
        | none => some cs
  | _ => some cs

/-! ## the leaf stage -/

variable {V : Type} [CellSize V]

/-- a call of the worker on its `NodesTracker` -/
inductive Ev (N : Type) where
  /-- `tracker.delete(key, pn, next_separator)` (in `reset_*_base_fresh`) -/
  | del (key pn : Nat) (next : Option Nat)
  /-- `handle_new_*`: `allocate()`, the write, `tracker.insert(key, node, next_separator, page_number)` -/
  | ins (key : Nat) (node : N) (next : Option Nat)

/-- the tracker after the calls `evs`, in order; `a` = number of `allocate()` calls of the sync so far.
`none` = `assert!(entry.deleted.is_none())` of `NodesTracker::delete` -/
def runEvs {N : Type} : Tracker N → Nat → List (Ev N) → Option (Tracker N × Nat)
  | t, a, [] => some (t, a)
  | t, a, .del k pn nx :: r =>
    match t.delete k pn nx with
    | none => none
    | some t' => runEvs t' a r
  | t, a, .ins k n nx :: r => runEvs (t.insert k n nx (.new 0 a)) (a + 1) r

/-- one worker of the leaf stage: the updater's run and the calls on its `LeavesTracker`, in order -/
structure LRun (V : Type) where
  r : LeafUpd.Run V
  evs : List (Ev (Leaf V)) := []

/-- `reset_leaf_base_fresh`: `leaves_tracker.delete(separator, leaf_pn, cutoff)` for the leaf that becomes the base; the
leaf comes from `prepared_leaves`, the leaf cache or the store — the same node in all three cases -/
def resetToT (lpn : Nat → Nat) (key : Nat) (x : LRun V) : LRun V :=
  match LeafUpd.skipTo key x.r.rest with
  | (_, l :: rest') =>
    { r := LeafUpd.resetTo key x.r, evs := x.evs ++ [.del l.sep (lpn l.sep) (rest'.head?.map (·.sep))] }
  | (_, []) => { x with r := LeafUpd.resetTo key x.r }

/-- the state after a `digest` that produced `leaves`: one `handle_new_leaf` per leaf -/
def afterDigest (x : LRun V) (st' : LeafUpd.St V) (leaves : List (Leaf V)) : LRun V :=
  { r := { x.r with st := st', out := x.r.out ++ leaves.map .new },
    evs := x.evs ++ leaves.map fun l => .ins l.sep l l.cutoff }

def scopeLoopT (sepf : Nat → Nat → Option Nat) (lpn : Nat → Nat) (key : Nat) : (fuel : Nat) → LRun V → Option (LRun V)
  | 0, _ => none
  | fuel + 1, x =>
    if LeafUpd.inScope x.r.st key then some x else
    match LeafUpd.digest sepf x.r.st with
    | none => none
    | some (st', leaves, res) =>
      let k := match res with | .needsMerge c => c | .finished => key
      scopeLoopT sepf lpn key fuel (resetToT lpn k (afterDigest x st' leaves))

def runChangesT (sepf : Nat → Nat → Option Nat) (lpn : Nat → Nat) :
    List (Nat × Option (V × Bool)) → LRun V → Option (LRun V)
  | [], x => some x
  | (key, ch) :: cs, x =>
    match scopeLoopT sepf lpn key (x.r.rest.length + 1) x with
    | none => none
    | some x =>
      let (st, log) := LeafUpd.ingest x.r.st key ch
      runChangesT sepf lpn cs { x with r := { x.r with st := st, log := x.r.log ++ log } }

def finishLoopT (sepf : Nat → Nat → Option Nat) (lpn : Nat → Nat) : (fuel : Nat) → LRun V → Option (LRun V)
  | 0, _ => none
  | fuel + 1, x =>
    match LeafUpd.digest sepf x.r.st with
    | none => none
    | some (st', leaves, res) =>
      let x' := afterDigest x st' leaves
      match res with
      | .finished => some x'
      | .needsMerge c => finishLoopT sepf lpn fuel (resetToT lpn c x')

/-- `run_worker` of the leaf stage for the one worker that covers everything (`cs` non-empty) -/
def leafWorker (sepf : Nat → Nat → Option Nat) (lpn : Nat → Nat) (db : List (DbLeaf V))
    (cs : List (Nat × Option (V × Bool))) : Option (LRun V) :=
  match cs with
  | [] => none                                                       -- `changeset[worker_params.op_range.start]`
  | (k, _) :: _ =>
    match runChangesT sepf lpn cs (resetToT lpn k { r := { rest := db } }) with
    | none => none
    | some x => finishLoopT sepf lpn (x.r.rest.length + 1) x

/-- `LeafStageOutput` (+ the leaf level the stage leaves behind, for the theorems) -/
structure LeafOut (V : Type) where
  /-- `leaf_changeset` after `filter_leaves_changeset` and `enforce_first_leaf_separator` -/
  changeset : List (Nat × Option Nat) := []
  freed : List Nat := []
  submittedIo : Nat := 0
  /-- `PostIoWork::run`: the (page number, leaf) pairs inserted into the leaf cache, in order -/
  postIo : List (Nat × Leaf V) := []
  /-- `allocate()` calls on the leaf store during the stage -/
  allocs : Nat := 0
  /-- the leaves left to right: untouched old ones and produced ones (NOT part of the Rust output) -/
  level : List (OutLeaf V) := []

/-- the page number behind a tracker's `Pn` -/
def resolve (fresh : Nat → Nat) : Pn → Nat
  | .old n => n
  | .new _ k => fresh k

/-- `apply_worker_changes`: the changeset entries of the tracker, in key order -/
def trackerChanges {N : Type} (fresh : Nat → Nat) (inner : Inner N) : List (Nat × Option Nat) :=
  (inner.filter fun (_, e) => e.inserted.isSome || e.deleted.isSome).map fun (k, e) =>
    (k, e.inserted.map fun (_, pn) => resolve fresh pn)

/-- … and the page numbers it pushes to `freed_pages` -/
def trackerFreed {N : Type} (inner : Inner N) : List Nat :=
  (inner.filter fun (_, e) => e.inserted.isSome || e.deleted.isSome).filterMap fun (_, e) => e.deleted

/-- the nodes to be written / cached -/
def trackerInserted {N : Type} (fresh : Nat → Nat) (inner : Inner N) : List (Nat × N) :=
  inner.filterMap fun (_, e) => e.inserted.map fun (n, pn) => (resolve fresh pn, n)

/-- `leaf_stage::run` with one worker.  `pagesOf` = what `overflow::delete` finds for a cell, `lvl` = what
`indexed_leaf` sees (the leaf level through the branch index), `seeded` see `skipGuard`; `f11 = true`: the code before the
repair of finding F11 (`filter_leaves_changeset` computed `leaf_changeset.len() - 1` like its branch twin still does). -/
def leafStage (sepf : Nat → Nat → Option Nat) (pagesOf : V → List Nat) (fresh : Nat → Nat) (seeded : Bool)
    (lvl : Level) (lpn : Nat → Nat) (db : List (DbLeaf V)) (cs : List (Nat × Option (V × Bool))) (ovfAllocs : Nat)
    (f11 : Bool := false) : Option (LeafOut V) :=
  match leafWorker sepf lpn db cs with
  | none => none
  | some x =>
  match runEvs {} ovfAllocs x.evs with
  | none => none
  | some (tr, alloc) =>
    let changes := trackerChanges fresh tr.inner
    -- `apply_worker_changes`: overflow cells first, then the tracker in key order, then `extra_freed`
    let freed := x.r.log.flatMap pagesOf ++ trackerFreed tr.inner ++ tr.extraFreed.map (resolve fresh)
    let inserted := trackerInserted fresh tr.inner
    match filterCs (!f11) changes with
    | none => none
    | some filtered =>
      match enforceFirst seeded lvl filtered with
      | none => none
      | some enforced =>
        some { changeset := enforced, freed := freed,
               submittedIo := ovfAllocs + inserted.length + tr.extraFreed.length,
               postIo := inserted, allocs := alloc, level := x.r.out ++ x.r.rest.map .old }

/-! ## the branch stage -/

/-- one worker of the branch stage: the updater's run and the calls on its `BranchesTracker`, in order -/
structure BRun where
  r : BranchUpd.Run
  evs : List (Ev BranchUpd.Node) := []

/-- `reset_branch_base_fresh`: `branches_tracker.delete(separator, bbn_pn, cutoff)` -/
def resetToB (key : Nat) (x : BRun) : BRun :=
  match BranchUpd.skipTo key x.r.rest with
  | (_, l :: rest') =>
    if l.sep ≤ key then
      { r := BranchUpd.resetTo key x.r, evs := x.evs ++ [.del l.sep l.bbn (rest'.head?.map (·.sep))] }
    else { x with r := BranchUpd.resetTo key x.r }
  | (_, []) => { x with r := BranchUpd.resetTo key x.r }

/-- one `handle_new_branch` (allocate, `set_bbn_pn`, the write, `branches_tracker.insert`) per produced node -/
def afterDigestB (x : BRun) (st' : BranchUpd.St) (nodes : List BranchUpd.Produced) : BRun :=
  { r := { x.r with st := st', out := x.r.out ++ nodes.map .new },
    evs := x.evs ++ nodes.map fun p => .ins p.sep p.node p.cutoff }

def scopeLoopB (kf : BranchUpd.KF) (key : Nat) : (fuel : Nat) → BRun → Option BRun
  | 0, _ => none
  | fuel + 1, x =>
    if BranchUpd.inScope x.r.st key then some x else
    match BranchUpd.digest kf x.r.st with
    | none => none
    | some (st', nodes, res) =>
      scopeLoopB kf key fuel (resetToB (BranchUpd.keyOf res key) (afterDigestB x st' nodes))

def runChangesB (kf : BranchUpd.KF) : List (Nat × Option Nat) → BRun → Option BRun
  | [], x => some x
  | (key, pn) :: cs, x =>
    match scopeLoopB kf key (x.r.rest.length + 1) x with
    | none => none
    | some x =>
      match BranchUpd.ingest kf x.r.st key pn with
      | none => none
      | some st => runChangesB kf cs { x with r := { x.r with st := st } }

def finishLoopB (kf : BranchUpd.KF) : (fuel : Nat) → BRun → Option BRun
  | 0, _ => none
  | fuel + 1, x =>
    match BranchUpd.digest kf x.r.st with
    | none => none
    | some (st', nodes, res) =>
      let x' := afterDigestB x st' nodes
      match res with
      | .finished => some x'
      | .needsMerge c => finishLoopB kf fuel (resetToB c x')

def branchWorker (kf : BranchUpd.KF) (db : List BranchUpd.DbNode) (cs : List (Nat × Option Nat)) : Option BRun :=
  match cs with
  | [] => none
  | (k, _) :: _ =>
    match runChangesB kf cs (resetToB k { r := { rest := db } }) with
    | none => none
    | some x => finishLoopB kf (x.r.rest.length + 1) x

/-- the branch index: (separator, page number, node), ascending — `Index` is a `BTreeMap<Key, Arc<BranchNode>>` -/
abbrev BIndex := List BranchUpd.DbNode

/-- `bbn_index.insert(key, node)` -/
def idxInsert (n : BranchUpd.DbNode) : BIndex → BIndex
  | [] => [n]
  | a :: t => if n.sep < a.sep then n :: a :: t else if n.sep = a.sep then n :: t else a :: idxInsert n t

/-- `bbn_index.remove(&key)` -/
def idxRemove (key : Nat) : BIndex → BIndex
  | [] => []
  | a :: t => if a.sep = key then t else a :: idxRemove key t

/-- `apply_changes_to_index` -/
def applyToIndex (idx : BIndex) : List (Nat × Option (BranchUpd.Node × Nat)) → BIndex
  | [] => idx
  | (k, some (node, pn)) :: cs => applyToIndex (idxInsert ⟨k, pn, node⟩ idx) cs
  | (k, none) :: cs => applyToIndex (idxRemove k idx) cs

/-- `BranchStageOutput` + the index the stage leaves in `bbn_index` -/
structure BranchOut where
  index : BIndex := []
  freed : List Nat := []
  submittedIo : Nat := 0
  allocs : Nat := 0
  /-- the nodes left to right: untouched old ones and produced ones (NOT part of the Rust output) -/
  level : List BranchUpd.OutNode := []

/-- `apply_bbn_changes`: the branch changeset of the tracker (the node with the page number `set_bbn_pn` wrote) -/
def trackerNodes (fresh : Nat → Nat) (inner : Inner BranchUpd.Node) : List (Nat × Option (BranchUpd.Node × Nat)) :=
  (inner.filter fun (_, e) => e.inserted.isSome || e.deleted.isSome).map fun (k, e) =>
    (k, e.inserted.map fun (n, pn) => (n, resolve fresh pn))

/-- `branch_stage::run` with one worker -/
def branchStage (kf : BranchUpd.KF) (fresh : Nat → Nat) (idx : BIndex) (cs : List (Nat × Option Nat)) : Option BranchOut :=
  if cs.isEmpty then some { index := idx, level := idx.map .old } else
  match branchWorker kf idx cs with
  | none => none
  | some x =>
  match runEvs {} 0 x.evs with
  | none => none
  | some (tr, alloc) =>
    let changes := trackerNodes fresh tr.inner
    match filterCs false changes with
    | none => none
    | some filtered =>
      some { index := applyToIndex idx filtered,
             freed := trackerFreed tr.inner ++ tr.extraFreed.map (resolve fresh),
             submittedIo := (trackerInserted fresh tr.inner).length + tr.extraFreed.length,
             allocs := alloc, level := x.r.out ++ x.r.rest.map .old }

/-! ## `update` -/

/-- a beatree as `ops::update` gets it: the branch index, the leaves with their page numbers -/
structure Tree (V : Type) where
  index : BIndex
  leaves : List (DbLeaf V)
  lpn : Nat → Nat

/-- the leaf level as the branch index shows it -/
def Tree.level {V : Type} (t : Tree V) : Level :=
  t.index.flatMap fun n => n.node.items.map fun it => (it.key, it.pn)

/-- what `update` hands back to `Tree::prepare_sync` (the free-list part of `SyncData` is `Store/FreeListModel.lean`'s
`finish` on `lnFreed` / `bbnFreed`) and what it does afterwards -/
structure UpdateOut (V : Type) where
  index : BIndex
  leafChangeset : List (Nat × Option Nat)
  lnFreed : List Nat
  bbnFreed : List Nat
  lnAllocs : Nat
  bbnAllocs : Nat
  /-- `total_io` without the free-list pages -/
  submittedIo : Nat
  /-- `PostIoWork::run`: leaf cache insertions -/
  postIo : List (Nat × Leaf V)
  leafLevel : List (OutLeaf V)
  branchLevel : List BranchUpd.OutNode

/-- `ops::update` with one worker: the leaf stage on the OLD index, the branch stage on a copy of the index with the
leaf changeset, the two `finish` calls get the stages' `freed_pages` -/
def update (sepf : Nat → Nat → Option Nat) (kf : BranchUpd.KF) (pagesOf : V → List Nat) (lnFresh bbnFresh : Nat → Nat)
    (seeded : Bool) (t : Tree V) (cs : List (Nat × Option (V × Bool))) (ovfAllocs : Nat) (f11 : Bool := false) :
    Option (UpdateOut V) :=
  if cs.isEmpty then
    -- `leaf_stage::run` and `branch_stage::run` return their defaults
    some { index := t.index, leafChangeset := [], lnFreed := [], bbnFreed := [], lnAllocs := 0, bbnAllocs := 0,
           submittedIo := 0, postIo := [], leafLevel := t.leaves.map .old, branchLevel := t.index.map .old }
  else
  match leafStage sepf pagesOf lnFresh seeded t.level t.lpn t.leaves cs ovfAllocs f11 with
  | none => none
  | some lo =>
    match branchStage kf bbnFresh t.index lo.changeset with
    | none => none
    | some bo =>
      some { index := bo.index, leafChangeset := lo.changeset, lnFreed := lo.freed, bbnFreed := bo.freed,
             lnAllocs := lo.allocs, bbnAllocs := bo.allocs, submittedIo := lo.submittedIo + bo.submittedIo,
             postIo := lo.postIo, leafLevel := lo.level, branchLevel := bo.level }

end Nomt.StageGlue
