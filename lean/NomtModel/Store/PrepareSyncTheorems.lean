import NomtModel.Store.PrepareSyncTotal
/-!
# The property statements about `prepare_sync` (proved here, re-exported by `Props/C04_PrepareSync.lean` etc.)
-/
namespace Nomt.PrepSync
open Nomt Nomt.Wal Nomt.Store Nomt.Store.Probe Nomt.Wal.Builder

/-! ## the static form of the caller contract -/

theorem agreesAt_congr {hN : Nat → Nat} {V V1 : Probe.Table} {d : Dirty}
    (h : find hN V1 (pidN d.pid) = find hN V (pidN d.pid)) (ha : AgreesAt hN V d) : AgreesAt hN V1 d := by
  unfold AgreesAt at ha ⊢
  rw [h]; exact ha

/-- **the contract against the OLD table suffices**: if every page id occurs once, a page with a known bucket is stored
there in the old table, a page announced as fresh is not stored in the old table, and every cleared page has a known
bucket, then the bucket information is also truthful page by page (`ContractFrom`) -/
theorem contractFrom_of_static {hN : Nat → Nat} {lim : Nat} : ∀ (ds : List Dirty) (V : Probe.Table), 0 < V.n →
    Inv hN V → NoDup V → (ds.map (fun d => pidN d.pid)).Nodup → (∀ d ∈ ds, AgreesAt hN V d) →
    ContractFrom hN lim V ds := by
  intro ds
  induction ds with
  | nil => intro V _ _ _ _ _; trivial
  | cons d ds ih =>
    intro V hn hI hD hnd hag
    simp only [List.map_cons, List.nodup_cons] at hnd
    refine ⟨hag d (List.mem_cons_self ..), ?_⟩
    obtain ⟨hI', hD'⟩ := step_inv (lim := lim) hn hI hD (opOf d)
    apply ih _ (by rw [step_n]; exact hn) hI' hD' hnd.2
    intro d' hd'
    apply agreesAt_congr _ (hag d' (List.mem_cons_of_mem _ hd'))
    have hne : pidN d'.pid ≠ pidN d.pid := by
      intro e
      apply hnd.1
      rw [← e]
      exact List.mem_map.2 ⟨d', hd', rfl⟩
    unfold opOf
    split
    · exact (find_step_remove hn hI hD (pidN d.pid)).2 _ hne
    · exact (find_step_insert hn hI hD (pidN d.pid)).2.2 _ hne

/-- … and conversely, when every page id occurs once -/
theorem static_of_contractFrom {hN : Nat → Nat} {lim : Nat} : ∀ (ds : List Dirty) (V : Probe.Table), 0 < V.n →
    Inv hN V → NoDup V → (ds.map (fun d => pidN d.pid)).Nodup → ContractFrom hN lim V ds →
    ∀ d ∈ ds, AgreesAt hN V d := by
  intro ds
  induction ds with
  | nil => intro V _ _ _ _ _ d hd; cases hd
  | cons d ds ih =>
    intro V hn hI hD hnd hct d' hd'
    simp only [List.map_cons, List.nodup_cons] at hnd
    obtain ⟨hag, hct'⟩ := hct
    rcases List.mem_cons.1 hd' with rfl | hd'
    · exact hag
    · obtain ⟨hI', hD'⟩ := step_inv (lim := lim) hn hI hD (opOf d)
      have := ih _ (by rw [step_n]; exact hn) hI' hD' hnd.2 hct' d' hd'
      apply agreesAt_congr _ this
      have hne : pidN d'.pid ≠ pidN d.pid := by
        intro e
        apply hnd.1
        rw [← e]
        exact List.mem_map.2 ⟨d', hd', rfl⟩
      unfold opOf
      split
      · exact ((find_step_remove hn hI hD (pidN d.pid)).2 _ hne).symm
      · exact ((find_step_insert hn hI hD (pidN d.pid)).2.2 _ hne).symm

/-! ## C04 / C03: redo of the WAL = the write-out -/

theorem before_len {hash : Bytes → Nat} {S : St} {T : Wal.Table} (hB : Before hash S T) :
    T.meta.length = dataOffset S.mm.buckets * 4096 := by
  rw [hB.disk_meta, hB.wf.2.2]; rfl

theorem fit_of_facts {hash : Bytes → Nat} {S : St} {T : Wal.Table} {ds : List Dirty} {bs : List Nat}
    (hB : Before hash S T) (hC : ChangesOK hash S T ds) (hbk : ∀ x ∈ pairs ds bs, x.1 < S.mm.buckets) :
    ∀ x ∈ pairs ds bs, x.1 < T.meta.length ∧ (x.2.diff.cleared = false → x.1 < T.pages.length ∧ UpdOK x.2) := by
  intro x hx
  have hb := hbk x hx
  have hd := mem_pairs ds bs x hx
  have hle := hB.wf.ok.le
  refine ⟨by rw [hB.disk_meta]; omega, fun hc => ⟨by rw [hB.disk_pages]; exact hb, ?_⟩⟩
  have ht := hC.typed _ hd
  exact ⟨ht.pid, ht.page, ht.diff, (hC.plain _ hd hc).1⟩

/-- redo of the produced WAL over the OLD table vs. the OLD table with the produced `ht` pages applied (any order):
same meta bytes, same content in every bucket no updated page lives in, and in the bucket of an updated page redo
leaves `redoOf (old content) page` where the write-out leaves `page` -/
theorem prepareSync_redo_vs_writeout {hash : Bytes → Nat} {debug : Bool} {S : St} {T : Wal.Table} {seqn : Nat}
    {ds : List Dirty} {b0 : Builder} {res : Res} (hB : Before hash S T) (hC : ChangesOK hash S T ds)
    (hs : seqn < 2 ^ 32) (h : prepareSync hash debug S seqn ds b0 = .ok res)
    (ht' : List (Nat × Bytes)) (hp : ht'.Perm res.ht) :
    ∃ U, recover hash seqn T res.wal.asSlice.toArray = .ok U ∧ U.WF ∧
      U.meta = (applyHt (dataOffset S.mm.buckets) T ht').meta ∧
      U.pages.length = (applyHt (dataOffset S.mm.buckets) T ht').pages.length ∧
      (∀ b, b ∉ (ups ds res.cells).map (·.1) → U.pages[b]? = (applyHt (dataOffset S.mm.buckets) T ht').pages[b]?) ∧
      (∀ x ∈ ups ds res.cells, ∃ F, redoOf (T.pages.getD x.1 []) x.2 = .ok F ∧ U.pages[x.1]? = some F ∧
        (applyHt (dataOffset S.mm.buckets) T ht').pages[x.1]? = some x.2.page) := by
  obtain ⟨C, f1, f2, _, f4, f5, f6, f7, _, f9, f10, f11, _⟩ := prepareSync_facts hB hC h
  rw [f5, recover_encode hash seqn T seqn hs _ f6]
  simp only [ne_eq, not_true_eq_false, if_false]
  rw [f7] at f4 f9
  exact writeout_vs_redo hash _ T hB.pagesWF (before_len hB) ds res.cells (fit_of_facts hB hC f10) f11 C f1 f2 f9 ht'
    (hp.trans f4)

/-- **redo = write-out iff the diffs cover the differences** -/
theorem prepareSync_wal_covers_ht_iff {hash : Bytes → Nat} {debug : Bool} {S : St} {T : Wal.Table} {seqn : Nat}
    {ds : List Dirty} {b0 : Builder} {res : Res} (hB : Before hash S T) (hC : ChangesOK hash S T ds)
    (hs : seqn < 2 ^ 32) (h : prepareSync hash debug S seqn ds b0 = .ok res)
    (ht' : List (Nat × Bytes)) (hp : ht'.Perm res.ht) :
    recover hash seqn T res.wal.asSlice.toArray = .ok (applyHt (dataOffset S.mm.buckets) T ht') ↔
      ∀ x ∈ ups ds res.cells, Covers (T.pages.getD x.1 []) x.2 := by
  obtain ⟨C, f1, f2, _, f4, f5, f6, f7, _, f9, f10, f11, _⟩ := prepareSync_facts hB hC h
  rw [f5, recover_encode hash seqn T seqn hs _ f6]
  simp only [ne_eq, not_true_eq_false, if_false]
  rw [f7] at f4 f9
  exact writeout_eq_redo_iff hash _ T hB.pagesWF (before_len hB) ds res.cells (fit_of_facts hB hC f10)
    (fun x hx => by
      obtain ⟨hx1, hx2⟩ := ups_sub_pairs ds res.cells x hx
      exact (hC.plain _ (mem_pairs ds res.cells x hx1) hx2).2)
    f11 C f1 f2 f9 ht' (hp.trans f4)

/-! ## the new table as a finite map -/

theorem exists_pair : ∀ (ds : List Dirty) (bs : List Nat), bs.length = ds.length → ∀ d ∈ ds, ∃ b, (b, d) ∈ pairs ds bs := by
  intro ds
  induction ds with
  | nil => intro bs _ d hd; cases hd
  | cons d0 ds ih =>
    intro bs hl d hd
    cases bs with
    | nil => cases hl
    | cons b bs =>
      rcases List.mem_cons.1 hd with rfl | hd
      · exact ⟨b, by simp [pairs]⟩
      · obtain ⟨b', hb'⟩ := ih bs (by simpa using hl) d hd
        exact ⟨b', by simp [pairs, hb']⟩

/-- the written-out table in closed form -/
theorem prepareSync_writeout {hash : Bytes → Nat} {debug : Bool} {S : St} {T : Wal.Table} {seqn : Nat}
    {ds : List Dirty} {b0 : Builder} {res : Res} (hB : Before hash S T) (hC : ChangesOK hash S T ds)
    (h : prepareSync hash debug S seqn ds b0 = .ok res) (ht' : List (Nat × Bytes)) (hp : ht'.Perm res.ht) :
    applyHt (dataOffset S.mm.buckets) T ht' = { «meta» := res.mm.bitvec, pages := pagesAfter T.pages ds res.cells } := by
  obtain ⟨C, f1, f2, _, f4, _, _, f7, _, f9, f10, f11, _⟩ := prepareSync_facts hB hC h
  have hfit := fit_of_facts hB hC f10
  apply applyHt_canon _ T (before_len hB) ds res.cells _ f11 C f1 f2 res.mm.bitvec _ f9 ht' (hp.trans f4)
  · intro x hx
    obtain ⟨hx1, hx2⟩ := ups_sub_pairs ds res.cells x hx
    obtain ⟨a, b⟩ := (hfit x hx1).2 hx2
    exact ⟨a, b.page⟩
  · rw [f7, metaRedo_length]

/-- **the new table = the old map with updated pages inserted and cleared pages removed** -/
theorem prepareSync_abstraction {hash : Bytes → Nat} {debug : Bool} {S : St} {T : Wal.Table} {seqn : Nat}
    {ds : List Dirty} {b0 : Builder} {res : Res} (hB : Before hash S T) (hC : ChangesOK hash S T ds)
    (h : prepareSync hash debug S seqn ds b0 = .ok res) (ht' : List (Nat × Bytes)) (hp : ht'.Perm res.ht) :
    let W := applyHt (dataOffset S.mm.buckets) T ht'
    let V := viewOf S.mm T.pages
    let V' := viewOf res.mm W.pages
    W.meta = res.mm.bitvec ∧ W.pages.length = T.pages.length ∧ Inv (hashN hash) V' ∧ NoDup V' ∧
    V' = Probe.run (hashN hash) ALLOC_ATTEMPTS V (ds.map opOf) ∧
    (∀ x ∈ pairs ds res.cells, x.2.diff.cleared = false →
      find (hashN hash) V' (pidN x.2.pid) = some x.1 ∧ W.pages[x.1]? = some x.2.page) ∧
    (∀ d ∈ ds, d.diff.cleared = true → find (hashN hash) V' (pidN d.pid) = none) ∧
    (∀ q, (∀ d ∈ ds, pidN d.pid ≠ q) → find (hashN hash) V' q = find (hashN hash) V q ∧
      ∀ b, find (hashN hash) V q = some b → W.pages[b]? = T.pages[b]?) := by
  intro W V V'
  have hW : W = { «meta» := res.mm.bitvec, pages := pagesAfter T.pages ds res.cells } := prepareSync_writeout hB hC h ht' hp
  obtain ⟨C, _, _, _, _, _, _, _, _, _, f10, f11, f12, _, f14, _, f16, _⟩ := prepareSync_facts hB hC h
  have hfit := fit_of_facts hB hC f10
  have hn : 0 < V.n := by
    show 0 < (viewOf S.mm T.pages).n
    rw [viewOf_n hB.wf.ok]; exact hB.wf.ok.pos
  have hV' : V' = Probe.run (hashN hash) ALLOC_ATTEMPTS V (ds.map opOf) := by
    show viewOf res.mm W.pages = _
    rw [hW]; exact f12
  obtain ⟨hI', hD'⟩ := run_inv (lim := ALLOC_ATTEMPTS) (ds.map opOf) hn hB.inv hB.nodup
  rw [← hV'] at hI' hD'
  have hn' : 0 < V'.n := by rw [hV', run_n]; exact hn
  obtain ⟨p1, p2⟩ := pagesAfter_spec ds res.cells T.pages f11 (fun x hx => by
    obtain ⟨hx1, hx2⟩ := ups_sub_pairs ds res.cells x hx
    exact ((hfit x hx1).2 hx2).1)
  have hfind : ∀ x ∈ pairs ds res.cells, find (hashN hash) V' (pidN x.2.pid) = if x.2.diff.cleared then none else some x.1 := by
    intro x hx
    show find _ (viewOf res.mm W.pages) _ = _
    rw [hW]; exact f14 x hx
  refine ⟨by rw [hW], by rw [hW]; exact pagesAfter_length _ _ _, hI', hD', hV', ?_, ?_, ?_⟩
  · intro x hx hc
    have := hfind x hx
    rw [hc] at this
    refine ⟨by simpa using this, ?_⟩
    rw [hW]
    exact p1 x (mem_ups ds res.cells x hx hc)
  · intro d hd hc
    obtain ⟨b, hb⟩ := exists_pair ds res.cells f16 d hd
    have := hfind (b, d) hb
    simp only [hc, if_true] at this
    exact this
  · intro q hq
    have hfr : find (hashN hash) V' q = find (hashN hash) V q := by
      rw [hV']
      apply run_find_frame _ hn hB.inv hB.nodup
      intro op hop e
      obtain ⟨d, hd, rfl⟩ := List.mem_map.1 hop
      apply hq d hd
      unfold opOf at e
      split at e <;> exact e
    refine ⟨hfr, ?_⟩
    intro b hb
    rw [hW]
    apply p2
    intro hmem
    obtain ⟨x, hx, rfl⟩ := List.mem_map.1 hmem
    obtain ⟨hx1, hx2⟩ := ups_sub_pairs ds res.cells x hx
    have h1 := hfind x hx1
    rw [hx2] at h1
    simp only [Bool.false_eq_true, if_false] at h1
    rw [← hfr] at hb
    have l1 := (find_lt hn' h1).2.2
    have l2 := (find_lt hn' hb).2.2
    exact hq _ (mem_pairs ds res.cells x hx1) (by rw [← l1, l2])

/-! ## C17: only what changed is written -/

theorem metaRedo_frame (hash : Bytes → Nat) : ∀ (ds : List Dirty) (bs : List Nat) (m : Bytes) (j : Nat),
    (∀ x ∈ pairs ds bs, x.1 ≠ j) → (metaRedo hash m ds bs)[j]? = m[j]? := by
  intro ds
  induction ds with
  | nil => intro bs m j _; cases bs <;> rfl
  | cons d ds ih =>
    intro bs m j hj
    cases bs with
    | nil => rfl
    | cons b bs =>
      simp only [metaRedo]
      rw [ih bs _ j (fun x hx => hj x (by simp [pairs, hx])), List.getElem?_set]
      have := hj (b, d) (by simp [pairs])
      simp only at this
      simp [this]

/-- **the write list holds only what changed**: every element is the page of an updated page at its bucket or the new
content of a meta page holding the bucket of a cleared / freshly placed page; a page stored in the old table that the
changeset does not name has neither its bucket in the list nor its meta byte changed -/
theorem prepareSync_touches_only_changed {hash : Bytes → Nat} {debug : Bool} {S : St} {T : Wal.Table} {seqn : Nat}
    {ds : List Dirty} {b0 : Builder} {res : Res} (hB : Before hash S T) (hC : ChangesOK hash S T ds)
    (h : prepareSync hash debug S seqn ds b0 = .ok res) :
    (∀ y ∈ res.ht,
      (∃ x ∈ ups ds res.cells, y = (dataOffset S.mm.buckets + x.1, x.2.page)) ∨
      (y.1 < dataOffset S.mm.buckets ∧ y.2 = slice res.mm.bitvec (y.1 * 4096) 4096 ∧
        ∃ x ∈ pairs ds res.cells, y.1 = x.1 / 4096 ∧
          (x.2.diff.cleared = true ∨ x.2.bucket = .fresh ∨ x.2.bucket = .depUnset))) ∧
    (∀ q b, find (hashN hash) (viewOf S.mm T.pages) q = some b → (∀ d ∈ ds, pidN d.pid ≠ q) →
      (∀ y ∈ res.ht, y.1 ≠ dataOffset S.mm.buckets + b) ∧ res.mm.bitvec[b]? = S.mm.bitvec[b]?) := by
  obtain ⟨C, f1, f2, f3, f4, _, _, f7, _, _, f10, f11, _, _, _, _, _, f17⟩ := prepareSync_facts hB hC h
  refine ⟨?_, ?_⟩
  · intro y hy
    have := f4.mem_iff.1 hy
    unfold htCanon at this
    rcases List.mem_append.1 this with hm | hm
    · obtain ⟨x, hx, rfl⟩ := List.mem_map.1 hm
      exact Or.inl ⟨x, hx, rfl⟩
    · obtain ⟨p, hp, rfl⟩ := List.mem_map.1 hm
      exact Or.inr ⟨f2 p hp, rfl, f3 p hp⟩
  · intro q b hb hq
    obtain ⟨_, _, _, _, _, a6, _, a8⟩ := prepareSync_abstraction hB hC h res.ht (List.Perm.refl _)
    have hn : 0 < (viewOf S.mm T.pages).n := by rw [viewOf_n hB.wf.ok]; exact hB.wf.ok.pos
    have hstat := static_of_contractFrom ds _ hn hB.inv hB.nodup hC.pids hC.contract
    -- `b` is the bucket of no page of the changeset
    have hnot : ∀ x ∈ pairs ds res.cells, x.1 ≠ b := by
      intro x hx e
      have hd := mem_pairs ds res.cells x hx
      have hstored : ∀ b', (x.2.bucket = .known b' ∨ x.2.bucket = .depSet b') → b' = b → False := by
        intro b' hbk e'
        have hag := hstat _ hd
        unfold AgreesAt at hag
        have hf : find (hashN hash) (viewOf S.mm T.pages) (pidN x.2.pid) = some b' := by
          rcases hbk with k | k <;> (rw [k] at hag; exact hag)
        rw [e'] at hf
        have l1 := (find_lt hn hf).2.2
        have l2 := (find_lt hn hb).2.2
        exact hq _ hd (by rw [← l1, l2])
      rcases f17 x hx with k | k | ⟨hc, _⟩
      · exact hstored _ (Or.inl k) e
      · exact hstored _ (Or.inr k) e
      · -- a freshly placed page: afterwards both it and `q` would be stored in `b`
        obtain ⟨g1, _⟩ := a6 x hx hc
        obtain ⟨g2, _⟩ := a8 q hq
        rw [e] at g1
        rw [← g2] at hb
        have hn' : 0 < (viewOf res.mm (applyHt (dataOffset S.mm.buckets) T res.ht).pages).n := by
          obtain ⟨w1, w2, _⟩ := prepareSync_abstraction hB hC h res.ht (List.Perm.refl _)
          have hok : res.mm.Ok := by
            obtain ⟨_, _, _, _, _, _, _, r7, r8, _⟩ := prepareSync_facts hB hC h
            refine ⟨by rw [r8]; exact hB.wf.ok.pos, ?_⟩
            rw [r8, r7, metaRedo_length, hB.disk_meta]
            exact hB.wf.ok.le
          rw [viewOf_n hok]; exact hok.pos
        have l1 := (find_lt hn' g1).2.2
        have l2 := (find_lt hn' hb).2.2
        exact hq _ hd (by rw [← l1, l2])
    refine ⟨?_, ?_⟩
    · intro y hy e
      have := f4.mem_iff.1 hy
      unfold htCanon at this
      rcases List.mem_append.1 this with hm | hm
      · obtain ⟨x, hx, rfl⟩ := List.mem_map.1 hm
        simp only at e
        exact hnot x (ups_sub_pairs ds res.cells x hx).1 (by omega)
      · obtain ⟨p, hp, rfl⟩ := List.mem_map.1 hm
        have := f2 p hp
        simp only at e
        omega
    · rw [f7, hB.disk_meta]
      exact metaRedo_frame hash ds res.cells _ b hnot

/-- recovery touches nothing foreign either: a page stored in the old table that the changeset does not name keeps its
bucket page and its meta byte through redo of the WAL -/
theorem prepareSync_redo_touches_only_changed {hash : Bytes → Nat} {debug : Bool} {S : St} {T : Wal.Table} {seqn : Nat}
    {ds : List Dirty} {b0 : Builder} {res : Res} (hB : Before hash S T) (hC : ChangesOK hash S T ds)
    (hs : seqn < 2 ^ 32) (h : prepareSync hash debug S seqn ds b0 = .ok res) :
    ∃ U, recover hash seqn T res.wal.asSlice.toArray = .ok U ∧
      ∀ q b, find (hashN hash) (viewOf S.mm T.pages) q = some b → (∀ d ∈ ds, pidN d.pid ≠ q) →
        U.pages[b]? = T.pages[b]? ∧ U.meta[b]? = T.meta[b]? := by
  obtain ⟨U, h1, _, h3, _, h5, _⟩ := prepareSync_redo_vs_writeout hB hC hs h res.ht (List.Perm.refl _)
  refine ⟨U, h1, ?_⟩
  intro q b hb hq
  obtain ⟨t1, t2⟩ := (prepareSync_touches_only_changed hB hC h).2 q b hb hq
  obtain ⟨a1, _, _, _, _, _, _, a8⟩ := prepareSync_abstraction hB hC h res.ht (List.Perm.refl _)
  obtain ⟨_, _, _, _, f4, _⟩ := prepareSync_facts hB hC h
  refine ⟨?_, ?_⟩
  · rw [h5 b, (a8 q hq).2 b hb]
    intro hmem
    obtain ⟨x, hx, rfl⟩ := List.mem_map.1 hmem
    apply t1 (dataOffset S.mm.buckets + x.1, x.2.page) _ rfl
    apply f4.mem_iff.2
    unfold htCanon
    exact List.mem_append_left _ (List.mem_map.2 ⟨x, hx, rfl⟩)
  · rw [h3, a1, t2, hB.disk_meta]

/-! ## C03: the blob -/

/-- the WAL blob of `prepare_sync`: the encoding of one entry per page of the changeset (a clear entry with the bucket
of a cleared page; an update entry with page id, diff, the slots the diff names, the elided-children bits and the bucket
of any other page), a whole number of pages, which the reader returns as exactly that sequence number and those entries -/
theorem prepareSync_wal_blob {hash : Bytes → Nat} {debug : Bool} {S : St} {T : Wal.Table} {seqn : Nat}
    {ds : List Dirty} {b0 : Builder} {res : Res} (hB : Before hash S T) (hC : ChangesOK hash S T ds)
    (hs : seqn < 2 ^ 32) (h : prepareSync hash debug S seqn ds b0 = .ok res) :
    res.wal.asSlice = encode seqn (entriesOf ds res.cells) ∧ res.wal.asSlice.length % PAGE_SIZE = 0 ∧
    res.cells.length = ds.length ∧
    ∃ r, readAll res.wal.asSlice.toArray = .ok r ∧ r.seqn = seqn ∧ r.entries = entriesOf ds res.cells ∧ r.ending = .ok () := by
  obtain ⟨_, _, _, _, _, f5, f6, _, _, _, _, _, _, _, _, _, f16, _⟩ := prepareSync_facts hB hC h
  refine ⟨f5, by rw [f5]; exact Builder.encode_length_mod _ _, f16, ?_⟩
  rw [f5]
  exact readAll_encode seqn hs _ f6

/-! ## C04: a crash in the middle of the write-out -/

theorem entryOf_mem : ∀ (ds : List Dirty) (bs : List Nat) (x : Nat × Dirty), x ∈ pairs ds bs →
    entryOf x.2 x.1 ∈ entriesOf ds bs := by
  intro ds
  induction ds with
  | nil => intro bs x h; cases bs <;> simp [pairs] at h
  | cons d ds ih =>
    intro bs x h
    cases bs with
    | nil => simp [pairs] at h
    | cons b bs =>
      simp only [pairs, List.mem_cons] at h
      simp only [entriesOf, List.mem_cons]
      rcases h with rfl | h
      · exact Or.inl rfl
      · exact Or.inr (ih bs x h)

theorem applyHt_WF (off : Nat) : ∀ (l : List (Nat × Bytes)) (T : Wal.Table), T.WF → (∀ x ∈ l, x.2.length = 4096) →
    (applyHt off T l).WF := by
  intro l
  induction l with
  | nil => intro T w _; exact w
  | cons x r ih =>
    intro T w h
    rw [applyHt_cons]
    apply ih _ _ (fun y hy => h y (List.mem_cons_of_mem _ hy))
    unfold apply1
    by_cases hlt : x.1 < off
    · simp only [hlt, if_true]; exact w
    · simp only [hlt, if_false]
      intro p hp
      rcases List.mem_or_eq_of_mem_set hp with h1 | h1
      · exact w p h1
      · rw [h1]; exact h x (List.mem_cons_self ..)

/-- **any part of the write-out may have reached the disk**: with covering diffs, recovery of the sync's WAL on the OLD
table with ANY sub-list of the returned pages already applied (4 KiB pages atomic; any subset, any order) gives exactly the
table of the completed write-out -/
theorem prepareSync_partial_writeout {hash : Bytes → Nat} {debug : Bool} {S : St} {T : Wal.Table} {seqn : Nat}
    {ds : List Dirty} {b0 : Builder} {res : Res} (hB : Before hash S T) (hC : ChangesOK hash S T ds)
    (hs : seqn < 2 ^ 32) (h : prepareSync hash debug S seqn ds b0 = .ok res)
    (hcov : ∀ x ∈ ups ds res.cells, Covers (T.pages.getD x.1 []) x.2)
    (ht' : List (Nat × Bytes)) (hp : ht'.Perm res.ht) (sub : List (Nat × Bytes)) (hsub : sub.Sublist ht') :
    recover hash seqn (applyHt (dataOffset S.mm.buckets) T sub) res.wal.asSlice.toArray =
      .ok (applyHt (dataOffset S.mm.buckets) T ht') := by
  have hfull := (prepareSync_wal_covers_ht_iff hB hC hs h ht' hp).2 hcov
  obtain ⟨C, f1, f2, _, f4, f5, f6, f7, _, f9, f10, f11, _⟩ := prepareSync_facts hB hC h
  rw [f5, recover_encode hash seqn _ seqn hs _ f6] at hfull ⊢
  simp only [ne_eq, not_true_eq_false, if_false] at hfull ⊢
  have hfit := fit_of_facts hB hC f10
  have hlen := before_len hB
  -- the pages of the list
  have hperm : ht'.Perm (htCanon (dataOffset S.mm.buckets) ds res.cells C res.mm.bitvec) := hp.trans f4
  have hmem : ∀ x, x ∈ ht' ↔ x ∈ htCanon (dataOffset S.mm.buckets) ds res.cells C res.mm.bitvec := fun x => hperm.mem_iff
  have hkeys : (ht'.map (·.1)).Nodup := (hperm.map (·.1)).nodup_iff.2 (htCanon_keys_nodup f11 f1 f2)
  have hM'len : res.mm.bitvec.length = T.meta.length := by rw [f7, metaRedo_length]
  have hokAll : HtOK (dataOffset S.mm.buckets) T.meta.length ht' := by
    intro x hx
    rw [hmem] at hx
    unfold htCanon at hx
    rcases List.mem_append.1 hx with hx | hx
    · obtain ⟨y, hy, rfl⟩ := List.mem_map.1 hx
      obtain ⟨hy1, hy2⟩ := ups_sub_pairs ds res.cells y hy
      exact ⟨((hfit y hy1).2 hy2).2.page, fun hlt => by simp only at hlt; omega⟩
    · obtain ⟨p, hp', rfl⟩ := List.mem_map.1 hx
      have hpo := f2 p hp'
      have hb : p * 4096 + 4096 ≤ T.meta.length := by
        rw [hlen]
        have : (p + 1) * 4096 ≤ dataOffset S.mm.buckets * 4096 := Nat.mul_le_mul_right _ hpo
        omega
      exact ⟨slice_length (by rw [hM'len]; exact hb), fun _ => hb⟩
  have hokSub : HtOK (dataOffset S.mm.buckets) T.meta.length sub := fun x hx => hokAll x (hsub.subset hx)
  have hkeysSub : (sub.map (·.1)).Nodup := (hsub.map (·.1)).nodup hkeys
  obtain ⟨l1, l2⟩ := applyHt_lengths _ sub T hokSub
  apply redoAll_agree hash _ f6 hB.pagesWF
    (applyHt_WF _ sub T hB.pagesWF (fun x hx => (hokSub x hx).1)) ⟨l1.symm, l2.symm⟩ _ hfull
  intro pos hnw
  have hnoEntry : ∀ x ∈ pairs ds res.cells, ¬ (entryOf x.2 x.1).writes pos :=
    fun x hx hw => hnw ⟨_, entryOf_mem ds res.cells x hx, hw⟩
  cases pos with
  | «meta» j =>
    show T.meta[j]? = (applyHt _ T sub).meta[j]?
    have hj : ∀ x ∈ pairs ds res.cells, x.1 ≠ j := by
      intro x hx e
      apply hnoEntry x hx
      unfold entryOf
      split
      · exact e.symm
      · exact e.symm
    have hsame : res.mm.bitvec[j]? = T.meta[j]? := by rw [f7]; exact metaRedo_frame hash ds res.cells _ j hj
    by_cases hc : ∃ x ∈ sub, x.1 < dataOffset S.mm.buckets ∧ j / 4096 = x.1
    · obtain ⟨x, hx, hlt, e⟩ := hc
      have := applyHt_meta_hit _ sub T hokSub hkeysSub x hx hlt (j % 4096) (Nat.mod_lt _ (by omega))
      have e2 : x.1 * 4096 + j % 4096 = j := by omega
      rw [e2] at this
      rw [this]
      have hx' := (hmem x).1 (hsub.subset hx)
      unfold htCanon at hx'
      rcases List.mem_append.1 hx' with hx' | hx'
      · obtain ⟨y, _, rfl⟩ := List.mem_map.1 hx'
        simp only at hlt; omega
      · obtain ⟨p, _, rfl⟩ := List.mem_map.1 hx'
        simp only at e2 ⊢
        rw [getElem?_slice, if_pos (Nat.mod_lt _ (by omega)), e2, hsame]
    · rw [applyHt_meta_frame _ sub T hokSub j]
      intro x hx hlt e
      exact hc ⟨x, hx, hlt, e⟩
  | byte b o =>
    show (T.pages[b]?).bind (·[o]?) = ((applyHt _ T sub).pages[b]?).bind (·[o]?)
    by_cases hc : ∃ x ∈ sub, dataOffset S.mm.buckets ≤ x.1 ∧ x.1 - dataOffset S.mm.buckets = b
    · obtain ⟨x, hx, hle, e⟩ := hc
      have hx' := (hmem x).1 (hsub.subset hx)
      unfold htCanon at hx'
      rcases List.mem_append.1 hx' with hx' | hx'
      · obtain ⟨y, hy, rfl⟩ := List.mem_map.1 hx'
        obtain ⟨hy1, hy2⟩ := ups_sub_pairs ds res.cells y hy
        obtain ⟨hbl, hupd⟩ := (hfit y hy1).2 hy2
        simp only at e hle
        have eb : y.1 = b := by omega
        have := applyHt_pages_hit _ sub T hkeysSub _ hx (Nat.le_add_right _ _)
          (by show dataOffset S.mm.buckets + y.1 - dataOffset S.mm.buckets < _; omega)
        simp only [Nat.add_sub_cancel_left] at this
        rw [← eb, this, List.getElem?_eq_getElem hbl]
        simp only [Option.bind_some]
        have hgd : T.pages.getD y.1 [] = T.pages[y.1]'hbl := by
          rw [List.getD_eq_getElem?_getD, List.getElem?_eq_getElem hbl]; rfl
        have hcv := hcov y hy
        rw [hgd] at hcv
        -- the position is not written by the entry of `y`
        have hnot := hnoEntry y hy1
        unfold entryOf at hnot
        rw [if_neg (by rw [hy2]; simp)] at hnot
        simp only [Entry.writes, eb, true_and, not_or, Nat.not_le] at hnot
        exact hcv o hnot.1 hnot.2
      · obtain ⟨p, hp', rfl⟩ := List.mem_map.1 hx'
        have := f2 p hp'
        simp only at hle; omega
    · rw [applyHt_pages_frame _ sub T b]
      intro x hx hle e
      exact hc ⟨x, hx, hle, e⟩

/-! ## C19: the occupancy counter -/

theorem applyDelta_diff {occ o : Nat} (h1 : occ < 2 ^ 64) (h2 : o < 2 ^ 64) :
    applyDelta occ ((o : Int) - (occ : Int)) = o := by
  unfold applyDelta
  by_cases a : (o : Int) - (occ : Int) < 0
  · simp only [a, if_true]; omega
  · simp only [a, if_false]
    by_cases b : (o : Int) - (occ : Int) > 0
    · simp only [b, if_true]; omega
    · simp only [b, if_false]; omega

/-- **`occupied_buckets` after = stored pages after**, when the counter was right before -/
theorem prepareSync_occupancy {hash : Bytes → Nat} {debug : Bool} {S : St} {T : Wal.Table} {seqn : Nat}
    {ds : List Dirty} {b0 : Builder} {res : Res} (hB : Before hash S T) (hC : ChangesOK hash S T ds)
    (h : prepareSync hash debug S seqn ds b0 = .ok res) (hocc : S.occupied = occupied (viewOf S.mm T.pages))
    (ht' : List (Nat × Bytes)) (hp : ht'.Perm res.ht) :
    res.occupied = occupied (viewOf res.mm (applyHt (dataOffset S.mm.buckets) T ht').pages) ∧
    res.occupied = (storedPages (viewOf res.mm (applyHt (dataOffset S.mm.buckets) T ht').pages)).length := by
  have hW := prepareSync_writeout hB hC h ht' hp
  obtain ⟨_, _, _, _, _, _, _, f7, f8, _, _, _, f12, f13, _⟩ := prepareSync_facts hB hC h
  rw [hW]
  simp only
  have hn32 : S.mm.buckets < 2 ^ 32 := hB.wf.2.1
  have l1 : occupied (viewOf S.mm T.pages) ≤ S.mm.buckets := by
    have : occupied (viewOf S.mm T.pages) ≤ (viewOf S.mm T.pages).n := List.countP_le_length
    rw [viewOf_n hB.wf.ok] at this; exact this
  have l2 : occupied (viewOf res.mm (pagesAfter T.pages ds res.cells)) ≤ S.mm.buckets := by
    have : occupied (viewOf res.mm (pagesAfter T.pages ds res.cells)) ≤
        (viewOf res.mm (pagesAfter T.pages ds res.cells)).n := List.countP_le_length
    rw [f12, run_n, viewOf_n hB.wf.ok] at this; rw [f12]; exact this
  have e : res.occupied = occupied (viewOf res.mm (pagesAfter T.pages ds res.cells)) := by
    rw [f13, hocc]
    exact applyDelta_diff (by omega) (by omega)
  refine ⟨e, ?_⟩
  rw [e]
  unfold storedPages occupied
  rw [length_labelsFrom]

end Nomt.PrepSync
