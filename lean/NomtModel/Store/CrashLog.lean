import NomtModel.Store.Crash3
/-!
# The rollback-log component of the crash / power-loss theorem

`Store/Crash*.lean` prove atomicity of a sync for the (tree, hash-table view) part of what recovery reads and
forbid every `logSet`.  Here the abstraction is extended by the rollback log:

* the meta record carries a live range `[startLive, endLive]` (`Meta::rollback_start_live / rollback_end_live`);
* `liveRecs m l` — mirror of `seglog::open`: records beyond `end_live` are truncated away, records before
  `start_live` are skipped / their segments removed;
* `absLog m l` — what `Rollback::read` keeps of them: the **last `maxLen`** live records (the start of the range in
  the meta lags one sync behind the in-memory log, so `read` trims to `max_rollback_log_len`; repair of F4b).

Protocol (`Rollback::commit` → `seglog.append` + fsync at commit time, i.e. before the meta write;
`writeout_start` computes the range written into the meta; `writeout_end` → `prune_oldest` / `prune_recent` after the
meta fsync):

* pre-meta a `logSet l'` is accepted iff recovery under the OLD meta reads the same records from `l'` as from the old
  log (`absLog_append_beyond`: appends beyond the old live range are of that kind);
* post-meta a `logSet l'` is accepted iff recovery under the NEW meta reads the same records from `l'` as from the
  log at the time of the meta write (`liveRecs_filter_keep`: pruning outside the new live range;
  `absLog_drop_lagging`: pruning the one lagging record at the start).

The proof re-uses phases A and C of `Crash.lean` / `Crash2.lean` on the trace with the log effects erased (`stripE`) and
adds an effect-wise invariant for the log component.
-/
namespace NomtDisk
variable {Content MetaRec WalRec LogRec TreeAbs : Type}

/-! ## What recovery reads of the rollback log -/

structure LogParams (MetaRec LogRec : Type) where
  recId : LogRec → Nat
  startLive : MetaRec → Nat
  endLive : MetaRec → Nat
  /-- `max_rollback_log_len` -/
  maxLen : Nat

section logabs
variable (L : LogParams MetaRec LogRec)

def LogParams.live (m : MetaRec) (r : LogRec) : Bool :=
  decide (L.startLive m ≤ L.recId r) && decide (L.recId r ≤ L.endLive m)

/-- `seglog::open`: the records of the live range, in log order -/
def liveRecs (m : MetaRec) (l : List LogRec) : List LogRec := l.filter (L.live m)

def lastN {α : Type} (n : Nat) (l : List α) : List α := l.drop (l.length - n)

/-- `Rollback::read`: the last `maxLen` records of the live range -/
def absLog (m : MetaRec) (l : List LogRec) : List LogRec := lastN L.maxLen (liveRecs L m l)

/-- appending records whose ids lie beyond the live range of `m` is invisible to recovery under `m` -/
theorem liveRecs_append_beyond (m : MetaRec) (l ext : List LogRec)
    (h : ∀ r ∈ ext, L.endLive m < L.recId r) : liveRecs L m (l ++ ext) = liveRecs L m l := by
  have : ext.filter (L.live m) = [] := by
    rw [List.filter_eq_nil_iff]
    intro r hr
    have := h r hr
    simp only [LogParams.live, Bool.and_eq_true, decide_eq_true_eq, not_and]
    omega
  simp [liveRecs, List.filter_append, this]

theorem absLog_append_beyond (m : MetaRec) (l ext : List LogRec)
    (h : ∀ r ∈ ext, L.endLive m < L.recId r) : absLog L m (l ++ ext) = absLog L m l := by
  simp [absLog, liveRecs_append_beyond L m l ext h]

/-- dropping records that are not live under `m` (pruning outside the live range, truncating the tail) is
invisible to recovery under `m` -/
theorem liveRecs_filter_keep (m : MetaRec) (l : List LogRec) (keep : LogRec → Bool)
    (h : ∀ r, L.live m r = true → keep r = true) : liveRecs L m (l.filter keep) = liveRecs L m l := by
  simp only [liveRecs, List.filter_filter]
  apply List.filter_congr
  intro r _
  cases hl : L.live m r with
  | false => simp
  | true => simp [h r hl]

theorem absLog_filter_keep (m : MetaRec) (l : List LogRec) (keep : LogRec → Bool)
    (h : ∀ r, L.live m r = true → keep r = true) : absLog L m (l.filter keep) = absLog L m l := by
  simp [absLog, liveRecs_filter_keep L m l keep h]

theorem lastN_append {α : Type} (n : Nat) (a b : List α) (h : n ≤ b.length) : lastN n (a ++ b) = lastN n b := by
  unfold lastN
  have : (a ++ b).length - n = a.length + (b.length - n) := by simp; omega
  rw [this, List.drop_append]
  have h1 : a.length + (b.length - n) - a.length = b.length - n := by omega
  rw [h1, List.drop_eq_nil_of_le (by omega), List.nil_append]

/-- `prune_oldest` with the lagging start: whole old segments `dead` may go even if they hold records of the range
written into the meta, as long as `maxLen` live records remain (those are all `Rollback::read` keeps) -/
theorem absLog_drop_lagging (m : MetaRec) (dead rest : List LogRec)
    (h : L.maxLen ≤ (liveRecs L m rest).length) : absLog L m rest = absLog L m (dead ++ rest) := by
  simp only [absLog, liveRecs, List.filter_append]
  exact (lastN_append _ _ _ h).symm

end logabs

/-! ## Erasing the log effects from an execution -/

def Eff.isLog : Eff Content MetaRec WalRec LogRec → Bool
  | .logSet _ => true
  | _ => false

def Ev.isLogEff : Ev Content MetaRec WalRec LogRec → Bool
  | .eff e => e.isLog
  | .fsync _ => false

/-- the non-log effects -/
def nl (es : List (Eff Content MetaRec WalRec LogRec)) : List (Eff Content MetaRec WalRec LogRec) :=
  es.filter (fun e => !e.isLog)

def stripE (tr : List (Ev Content MetaRec WalRec LogRec)) : List (Ev Content MetaRec WalRec LogRec) :=
  tr.filter (fun ev => !ev.isLogEff)

def setLog (c : List LogRec) (d : Disk Content MetaRec WalRec LogRec) : Disk Content MetaRec WalRec LogRec :=
  { d with log := c }

def stripS (c : List LogRec) (s : Exec Content MetaRec WalRec LogRec) : Exec Content MetaRec WalRec LogRec :=
  ⟨setLog c s.dur, nl s.vol⟩

theorem setLog_self (d : Disk Content MetaRec WalRec LogRec) : setLog d.log d = d := by
  cases d; rfl

theorem setLog_applyEff (c : List LogRec) (d : Disk Content MetaRec WalRec LogRec)
    (e : Eff Content MetaRec WalRec LogRec) :
    setLog c (applyEff d e) = if e.isLog then setLog c d else applyEff (setLog c d) e := by
  cases e <;> rfl

theorem setLog_applyEffs (c : List LogRec) (es : List (Eff Content MetaRec WalRec LogRec)) :
    ∀ d : Disk Content MetaRec WalRec LogRec, setLog c (applyEffs d es) = applyEffs (setLog c d) (nl es) := by
  induction es with
  | nil => intro d; rfl
  | cons e es ih =>
    intro d
    simp only [applyEffs, List.foldl_cons] at ih ⊢
    rw [ih, setLog_applyEff]
    cases he : e.isLog <;> simp [nl, he, List.filter_cons]

theorem nl_filter (es : List (Eff Content MetaRec WalRec LogRec)) (p : Eff Content MetaRec WalRec LogRec → Bool) :
    nl (es.filter p) = (nl es).filter p := by
  simp only [nl, List.filter_filter]
  apply List.filter_congr
  intro e _
  exact Bool.and_comm _ _

theorem step_strip (c : List LogRec) (s : Exec Content MetaRec WalRec LogRec)
    (ev : Ev Content MetaRec WalRec LogRec) :
    stripS c (step s ev) = if ev.isLogEff then stripS c s else step (stripS c s) ev := by
  cases ev with
  | eff e =>
    cases he : e.isLog
    · simp [Ev.isLogEff, he, stripS, step, nl, List.filter_append, List.filter_cons]
    · simp [Ev.isLogEff, he, stripS, step, nl, List.filter_append, List.filter_cons]
  | fsync f =>
    simp only [Ev.isLogEff, Bool.false_eq_true, if_false, stripS, step]
    rw [setLog_applyEffs, nl_filter, nl_filter]

theorem run_strip (c : List LogRec) (tr : List (Ev Content MetaRec WalRec LogRec)) :
    ∀ s : Exec Content MetaRec WalRec LogRec, stripS c (run s tr) = run (stripS c s) (stripE tr) := by
  induction tr with
  | nil => intro s; rfl
  | cons ev tr ih =>
    intro s
    simp only [run, List.foldl_cons] at ih ⊢
    rw [ih, step_strip]
    cases he : ev.isLogEff <;> simp [stripE, he, List.filter_cons]

theorem isImage_strip (c : List LogRec) (s : Exec Content MetaRec WalRec LogRec)
    (img : Disk Content MetaRec WalRec LogRec) (h : IsImage s img) : IsImage (stripS c s) (setLog c img) := by
  obtain ⟨sub, hsub, rfl⟩ := h
  exact ⟨nl sub, hsub.filter _, setLog_applyEffs c sub s.dur⟩

theorem absOf_setLog (P : Params Content MetaRec WalRec TreeAbs) (c : List LogRec)
    (d : Disk Content MetaRec WalRec LogRec) : absOf P (setLog c d) = absOf P d := rfl

/-! ## Effect-wise invariants (generic) -/

section generic
variable (G : Disk Content MetaRec WalRec LogRec → Prop) (A : Eff Content MetaRec WalRec LogRec → Prop)

def EvA : Ev Content MetaRec WalRec LogRec → Prop
  | .eff e => A e
  | .fsync _ => True

variable (hGA : ∀ d e, G d → A e → G (applyEff d e))
include hGA

theorem g_applyEffs (es : List (Eff Content MetaRec WalRec LogRec)) :
    ∀ d, G d → (∀ e ∈ es, A e) → G (applyEffs d es) := by
  induction es with
  | nil => intro d hg _; exact hg
  | cons e es ih =>
    intro d hg ha
    simp only [applyEffs, List.foldl_cons]
    exact ih _ (hGA d e hg (ha e (by simp))) (fun e' he' => ha e' (by simp [he']))

theorem invG_run (tr : List (Ev Content MetaRec WalRec LogRec)) :
    ∀ s : Exec Content MetaRec WalRec LogRec, (G s.dur ∧ ∀ e ∈ s.vol, A e) → (∀ ev ∈ tr, EvA A ev) →
      (G (run s tr).dur ∧ ∀ e ∈ (run s tr).vol, A e) := by
  induction tr with
  | nil => intro s hi _; exact hi
  | cons ev tr ih =>
    intro s hi hall
    simp only [run, List.foldl_cons]
    apply ih _ _ (fun e he => hall e (by simp [he]))
    have hev := hall ev (by simp)
    obtain ⟨hg, hv⟩ := hi
    cases ev with
    | eff e =>
      refine ⟨hg, ?_⟩
      intro e' he'
      simp only [step, List.mem_append, List.mem_singleton] at he'
      rcases he' with he' | rfl
      · exact hv e' he'
      · exact hev
    | fsync f =>
      exact ⟨g_applyEffs G A hGA _ _ hg (fun e he => hv e (List.mem_filter.mp he).1),
        fun e he => hv e (List.mem_filter.mp he).1⟩

/-- every image of a run of `A`-effects from a `G`-state (with `A`-effects pending) is a `G`-disk -/
theorem invG_images (tr : List (Ev Content MetaRec WalRec LogRec)) (s : Exec Content MetaRec WalRec LogRec)
    (hi : G s.dur ∧ ∀ e ∈ s.vol, A e) (hall : ∀ ev ∈ tr, EvA A ev)
    (img : Disk Content MetaRec WalRec LogRec) (himg : IsImage (run s tr) img) : G img := by
  obtain ⟨sub, hsub, rfl⟩ := himg
  have h := invG_run G A hGA tr s hi hall
  exact g_applyEffs G A hGA sub _ h.1 (fun e he => h.2 e (hsub.subset he))

end generic

/-! ## The log component: the meta is fixed and every `logSet` keeps what recovery reads -/

section logInv
variable (L : LogParams MetaRec LogRec) (m : MetaRec) (ref : List LogRec)

def LogKeeps : Eff Content MetaRec WalRec LogRec → Prop
  | .logSet l => absLog L m l = ref
  | .setMeta _ => False
  | _ => True

def LogGood (d : Disk Content MetaRec WalRec LogRec) : Prop := d.mt = m ∧ absLog L m d.log = ref

theorem logGood_applyEff (d : Disk Content MetaRec WalRec LogRec) (e : Eff Content MetaRec WalRec LogRec)
    (hg : LogGood L m ref d) (ha : LogKeeps L m ref e) : LogGood L m ref (applyEff d e) := by
  cases e with
  | page f pn c => exact hg
  | setMeta m' => exact absurd ha (by simp [LogKeeps])
  | walSet w => exact hg
  | logSet l => exact ⟨hg.1, ha⟩

theorem logGood_images (tr : List (Ev Content MetaRec WalRec LogRec)) (d : Disk Content MetaRec WalRec LogRec)
    (hg : LogGood L m ref d) (hall : ∀ ev ∈ tr, EvA (LogKeeps L m ref) ev)
    (img : Disk Content MetaRec WalRec LogRec) (himg : IsImage (run ⟨d, []⟩ tr) img) : LogGood L m ref img :=
  invG_images (LogGood L m ref) (LogKeeps L m ref) (logGood_applyEff L m ref) tr ⟨d, []⟩
    ⟨hg, fun e he => by cases he⟩ hall img himg

end logInv

/-! ## The sync protocol with the rollback log -/

section sync
variable (P : Params Content MetaRec WalRec TreeAbs) (L : LogParams MetaRec LogRec)

/-- everything recovery reads: tree, hash-table view, live rollback records -/
def absOfL (d : Disk Content MetaRec WalRec LogRec) : (TreeAbs × (Nat → Content)) × List LogRec :=
  (absOf P d, absLog L d.mt d.log)

/-- pre-meta effects: as in `AllowedPre`, plus changes of the rollback log that recovery under the OLD meta cannot
see (appends beyond the old live range) -/
def AllowedPreL (d0 : Disk Content MetaRec WalRec LogRec) : Eff Content MetaRec WalRec LogRec → Prop
  | .logSet l => absLog L d0.mt l = absLog L d0.mt d0.log
  | .page f pn c => AllowedPre P d0 (.page f pn c)
  | .walSet w => AllowedPre P d0 (.walSet w)
  | .setMeta _ => False

def EvPreL (d0 : Disk Content MetaRec WalRec LogRec) : Ev Content MetaRec WalRec LogRec → Prop
  | .eff e => AllowedPreL P L d0 e
  | .fsync _ => True

theorem evPreL_strip (d0 : Disk Content MetaRec WalRec LogRec) (tr : List (Ev Content MetaRec WalRec LogRec))
    (h : ∀ ev ∈ tr, EvPreL P L d0 ev) : ∀ ev ∈ stripE tr, EvPre P d0 ev := by
  intro ev hev
  obtain ⟨hmem, hnl⟩ := List.mem_filter.mp hev
  have := h ev hmem
  cases ev with
  | fsync f => trivial
  | eff e =>
    cases e with
    | logSet l => simp [Ev.isLogEff, Eff.isLog] at hnl
    | page f pn c => exact this
    | walSet w => exact this
    | setMeta m => exact this

theorem evPreL_logKeeps (d0 : Disk Content MetaRec WalRec LogRec) (tr : List (Ev Content MetaRec WalRec LogRec))
    (h : ∀ ev ∈ tr, EvPreL P L d0 ev) :
    ∀ ev ∈ tr, EvA (LogKeeps L d0.mt (absLog L d0.mt d0.log)) ev := by
  intro ev hev
  have := h ev hev
  cases ev with
  | fsync f => trivial
  | eff e =>
    cases e with
    | logSet l => exact this
    | page f pn c => trivial
    | walSet w => trivial
    | setMeta m => exact this

/-- **Phase A with the log**: every image taken while only accepted pre-meta events have been issued abstracts —
tree, table view and live rollback records — to the old state -/
theorem phaseAL_images (d0 : Disk Content MetaRec WalRec LogRec)
    (hinert : ∀ b, htView P d0 b = d0.pages File.fHt b)
    (p : List (Ev Content MetaRec WalRec LogRec)) (hp : ∀ ev ∈ p, EvPreL P L d0 ev)
    (img : Disk Content MetaRec WalRec LogRec) (himg : IsImage (run ⟨d0, []⟩ p) img) :
    absOfL P L img = absOfL P L d0 := by
  -- tree and table: the run with the log effects erased is a phase-A run
  have h1 : absOf P img = absOf P d0 := by
    have hi := isImage_strip d0.log _ img himg
    rw [run_strip] at hi
    have hs : stripS d0.log (⟨d0, []⟩ : Exec Content MetaRec WalRec LogRec) = ⟨d0, []⟩ := by
      simp [stripS, setLog_self, nl]
    rw [hs] at hi
    have hA0 : InvA P d0 (⟨d0, []⟩ : Exec Content MetaRec WalRec LogRec) :=
      ⟨⟨rfl, fun _ _ _ => rfl, Or.inl rfl⟩, fun e he => by cases he⟩
    have := phaseA_images P d0 hinert _ (invA_run P d0 (stripE p) _ hA0 (evPreL_strip P L d0 p hp)) _ hi
    rwa [absOf_setLog] at this
  -- the log
  have h2 := logGood_images L d0.mt (absLog L d0.mt d0.log) p d0 ⟨rfl, rfl⟩ (evPreL_logKeeps P L d0 p hp) img himg
  simp only [absOfL, h1, h2.1, h2.2]

variable (dA : Disk Content MetaRec WalRec LogRec) (m1 : MetaRec) (w1 : WalRec)

/-- post-meta events: as in `EvPostOK`, plus changes of the rollback log that recovery under the NEW meta cannot see
(pruning outside the new live range) -/
def EvPostOKL (s : Exec Content MetaRec WalRec LogRec) (ev : Ev Content MetaRec WalRec LogRec) : Prop :=
  match ev with
  | .eff (.logSet l) => absLog L m1 l = absLog L m1 dA.log
  | _ => EvPostOK P w1 s ev

def PostOKL : Exec Content MetaRec WalRec LogRec → List (Ev Content MetaRec WalRec LogRec) → Prop
  | _, [] => True
  | s, ev :: rest => EvPostOKL P L dA m1 w1 s ev ∧ PostOKL (step s ev) rest

theorem postOKL_prefix : ∀ (q r : List (Ev Content MetaRec WalRec LogRec)) (s : Exec Content MetaRec WalRec LogRec),
    PostOKL P L dA m1 w1 s (q ++ r) → PostOKL P L dA m1 w1 s q := by
  intro q
  induction q with
  | nil => intro r s _; trivial
  | cons ev q ih => intro r s h; exact ⟨h.1, ih r _ h.2⟩

theorem postOKL_append : ∀ (q r : List (Ev Content MetaRec WalRec LogRec)) (s : Exec Content MetaRec WalRec LogRec),
    PostOKL P L dA m1 w1 s q → PostOKL P L dA m1 w1 (run s q) r → PostOKL P L dA m1 w1 s (q ++ r) := by
  intro q
  induction q with
  | nil => intro r s _ h; exact h
  | cons ev q ih =>
    intro r s h1 h2
    exact ⟨h1.1, ih r _ h1.2 (by simpa [run] using h2)⟩

theorem postOKL_strip (c : List LogRec) : ∀ (tr : List (Ev Content MetaRec WalRec LogRec))
    (s : Exec Content MetaRec WalRec LogRec),
    PostOKL P L dA m1 w1 s tr → PostOK P w1 (stripS c s) (stripE tr) := by
  intro tr
  induction tr with
  | nil => intro s _; trivial
  | cons ev tr ih =>
    intro s h
    have hrest := ih _ h.2
    rw [step_strip] at hrest
    have hev := h.1
    cases ev with
    | fsync f =>
      simp only [stripE, Ev.isLogEff, Bool.not_false, List.filter_cons_of_pos]
      simp only [Ev.isLogEff, Bool.false_eq_true, if_false] at hrest
      exact ⟨trivial, hrest⟩
    | eff e =>
      cases e with
      | logSet l =>
        simp only [Ev.isLogEff, Eff.isLog, if_true] at hrest
        simpa [stripE, Ev.isLogEff, Eff.isLog] using hrest
      | page f pn c =>
        simp only [Ev.isLogEff, Eff.isLog, Bool.false_eq_true, if_false] at hrest
        simp only [stripE, Ev.isLogEff, Eff.isLog, Bool.not_false, List.filter_cons_of_pos]
        exact ⟨hev, hrest⟩
      | setMeta m => exact absurd hev (by simp [EvPostOKL, EvPostOK])
      | walSet w =>
        simp only [Ev.isLogEff, Eff.isLog, Bool.false_eq_true, if_false] at hrest
        simp only [stripE, Ev.isLogEff, Eff.isLog, Bool.not_false, List.filter_cons_of_pos]
        cases w with
        | none => exact ⟨hev, hrest⟩
        | some w => exact absurd hev (by simp [EvPostOKL, EvPostOK])

theorem postOKL_logKeeps : ∀ (tr : List (Ev Content MetaRec WalRec LogRec))
    (s : Exec Content MetaRec WalRec LogRec), PostOKL P L dA m1 w1 s tr →
    ∀ ev ∈ tr, EvA (LogKeeps L m1 (absLog L m1 dA.log)) ev := by
  intro tr
  induction tr with
  | nil => intro s _ ev hev; cases hev
  | cons ev0 tr ih =>
    intro s h ev hev
    rcases List.mem_cons.mp hev with rfl | hmem
    · have hev0 := h.1
      cases ev with
      | fsync f => trivial
      | eff e =>
        cases e with
        | logSet l => exact hev0
        | page f pn c => trivial
        | walSet w => trivial
        | setMeta m => exact absurd hev0 (by simp [EvPostOKL, EvPostOK])
    · exact ih _ h.2 ev hmem

/-- **Phase C with the log**: every image of a run of accepted post-meta events, started in a flushed state that is
`GoodC` and whose log reads (under the new meta) like the log at the meta write, abstracts to the new state -/
theorem phaseCL_images (hseq : P.walSeqn w1 = P.seqn m1)
    (d : Disk Content MetaRec WalRec LogRec) (hg : GoodC P dA m1 w1 d)
    (hl : absLog L m1 d.log = absLog L m1 dA.log)
    (q : List (Ev Content MetaRec WalRec LogRec)) (hq : PostOKL P L dA m1 w1 ⟨d, []⟩ q)
    (img : Disk Content MetaRec WalRec LogRec) (himg : IsImage (run ⟨d, []⟩ q) img) :
    absOfL P L img = (absNew P dA m1 w1, absLog L m1 dA.log) ∧ (img.wal = some w1 ∨ img.wal = none) := by
  have hs : stripS d.log (⟨d, []⟩ : Exec Content MetaRec WalRec LogRec) = ⟨d, []⟩ := by
    simp [stripS, setLog_self, nl]
  have hi := isImage_strip d.log _ img himg
  rw [run_strip, hs] at hi
  have hok := postOKL_strip P L dA m1 w1 d.log q _ hq
  rw [hs] at hok
  have hC0 : InvC P dA m1 w1 (⟨d, []⟩ : Exec Content MetaRec WalRec LogRec) :=
    ⟨hg, fun e he => (by cases he), fun ⟨e, he, _⟩ => (by cases he)⟩
  have hC := invC_run P dA m1 w1 (stripE q) _ hC0 hok
  have h1 := phaseC_images P dA m1 w1 hseq _ hC _ hi
  rw [absOf_setLog] at h1
  have hgood : GoodC P dA m1 w1 (setLog d.log img) := by
    obtain ⟨sub, hsub, hsubeq⟩ := hi
    rw [hsubeq]
    exact (goodC_applyEffs P dA m1 w1 sub _ hC.1 (fun e he => hC.2.1 e (hsub.subset he))
      (fun ⟨e, he, hte⟩ => hC.2.2 ⟨e, hsub.subset he, hte⟩)).1
  have hwal : img.wal = some w1 ∨ img.wal = none := by
    rcases hgood.2.2.2 with h | h
    · exact Or.inl h
    · exact Or.inr h.1
  have h2 := logGood_images L m1 (absLog L m1 dA.log) q d ⟨hg.1, hl⟩
    (postOKL_logKeeps P L dA m1 w1 q _ hq) img himg
  refine ⟨?_, hwal⟩
  simp only [absOfL, h1, h2.1, h2.2]

end sync

/-- **C03 / C04 with the rollback log**: for an accepted sync trace `pre ++ [meta write, meta fsync] ++ post` — where
`pre` may append to the rollback log beyond the old live range and `post` may prune it outside the new live range —
every crash image (durable part plus any sub-list of the un-synced effects) of every prefix abstracts — tree,
hash-table view **and live rollback records** — to exactly the old or exactly the new state; after the whole trace
it is the new state. -/
theorem sync_crash_atomic_log
    (P : Params Content MetaRec WalRec TreeAbs) (L : LogParams MetaRec LogRec)
    (d0 : Disk Content MetaRec WalRec LogRec)
    (hinert : ∀ b, htView P d0 b = d0.pages File.fHt b)
    (pre post : List (Ev Content MetaRec WalRec LogRec)) (m1 : MetaRec) (w1 : WalRec)
    (hpre : ∀ ev ∈ pre, EvPreL P L d0 ev)
    (hflushed : (run ⟨d0, []⟩ pre).vol = [])
    (hwal : (run ⟨d0, []⟩ pre).dur.wal = some w1)
    (hseq : P.walSeqn w1 = P.seqn m1)
    (hpost : PostOKL P L (run ⟨d0, []⟩ pre).dur m1 w1
      ⟨applyEff (run ⟨d0, []⟩ pre).dur (.setMeta m1), []⟩ post) :
    (∀ p, p <+: pre ++ ([Ev.eff (.setMeta m1), Ev.fsync File.fMeta] ++ post) →
       ∀ img, IsImage (run ⟨d0, []⟩ p) img →
         absOfL P L img = absOfL P L d0 ∨
         absOfL P L img = (absNew P (run ⟨d0, []⟩ pre).dur m1 w1, absLog L m1 (run ⟨d0, []⟩ pre).dur.log)) ∧
    (∀ img, IsImage (run ⟨d0, []⟩ (pre ++ ([Ev.eff (.setMeta m1), Ev.fsync File.fMeta] ++ post))) img →
       absOfL P L img = (absNew P (run ⟨d0, []⟩ pre).dur m1 w1, absLog L m1 (run ⟨d0, []⟩ pre).dur.log)) := by
  rcases hsA : run (⟨d0, []⟩ : Exec Content MetaRec WalRec LogRec) pre with ⟨dA, volA⟩
  rw [hsA] at hflushed hwal hpost
  simp only at hflushed hwal hpost ⊢
  subst hflushed
  have hgM : GoodC P dA m1 w1 (applyEff dA (.setMeta m1)) :=
    ⟨rfl, fun _ _ _ => rfl, fun _ => Or.inl rfl, Or.inl (by simpa [applyEff] using hwal)⟩
  have hstepMeta : run (⟨dA, []⟩ : Exec Content MetaRec WalRec LogRec)
      [Ev.eff (.setMeta m1), Ev.fsync File.fMeta] = ⟨applyEff dA (.setMeta m1), []⟩ := by
    simp [run, step, Eff.file, applyEffs]
  have phaseC : ∀ q, q <+: post → ∀ img,
      IsImage (run ⟨d0, []⟩ (pre ++ ([Ev.eff (.setMeta m1), Ev.fsync File.fMeta] ++ q))) img →
      absOfL P L img = (absNew P dA m1 w1, absLog L m1 dA.log) := by
    intro q hq img himg
    obtain ⟨r, hr⟩ := hq
    have hok : PostOKL P L dA m1 w1 ⟨applyEff dA (.setMeta m1), []⟩ q := by
      apply postOKL_prefix P L dA m1 w1 q r; rw [hr]; exact hpost
    rw [run_append, hsA, run_append, hstepMeta] at himg
    exact (phaseCL_images P L dA m1 w1 hseq _ hgM rfl q hok img himg).1
  constructor
  · intro p hp img himg
    rcases prefix_append_cases pre _ p hp with h1 | ⟨t, ht, rfl⟩
    · left
      obtain ⟨r, hr⟩ := h1
      exact phaseAL_images P L d0 hinert p (fun ev hev => hpre ev (by rw [← hr]; simp [hev])) img himg
    · match t, ht with
      | [], _ =>
        left
        rw [List.append_nil] at himg
        exact phaseAL_images P L d0 hinert pre hpre img himg
      | [ev1], ht =>
        have h1 : ev1 = Ev.eff (.setMeta m1) := by
          have := ht
          simp only [List.cons_append, List.nil_append, List.cons_prefix_cons] at this
          exact this.1
        subst h1
        rw [run_append, hsA] at himg
        obtain ⟨sub, hsub, rfl⟩ := himg
        simp only [run, List.foldl_cons, List.foldl_nil, step, List.nil_append] at hsub ⊢
        cases sub with
        | nil =>
          left
          apply phaseAL_images P L d0 hinert pre hpre
          rw [hsA]
          exact ⟨[], List.Sublist.refl _, rfl⟩
        | cons e es =>
          right
          have hes : e = .setMeta m1 ∧ es = [] := by
            have hlen := List.Sublist.length_le hsub
            have hmem := hsub.subset (List.mem_cons_self)
            simp only [List.mem_singleton] at hmem
            refine ⟨hmem, ?_⟩
            cases es with
            | nil => rfl
            | cons _ _ => simp at hlen
          obtain ⟨rfl, rfl⟩ := hes
          simp only [applyEffs, List.foldl_cons, List.foldl_nil]
          exact (phaseCL_images P L dA m1 w1 hseq _ hgM rfl [] trivial _
            ⟨[], List.Sublist.refl _, rfl⟩).1
      | ev1 :: ev2 :: q, ht =>
        right
        have h12 : ev1 = Ev.eff (.setMeta m1) ∧ ev2 = Ev.fsync File.fMeta ∧ q <+: post := by
          have := ht
          simp only [List.cons_append, List.nil_append, List.cons_prefix_cons] at this
          exact ⟨this.1, this.2.1, this.2.2⟩
        obtain ⟨rfl, rfl, hq⟩ := h12
        exact phaseC q hq img himg
  · intro img himg
    exact phaseC post (List.prefix_refl _) img himg

/-! ## Start state with a pending, un-synced WAL truncation

`bitbox` does not fsync the truncation of the WAL at the end of a sync (`truncate_wal(.., false)`): when the next sync
starts, the effect `walSet none` of the previous one may still be un-synced.  The theorems above start from a flushed
state `⟨d0, []⟩`; this section starts from `⟨d0, vol0⟩` where `vol0` holds only WAL truncations (and also accepts WAL
truncations anywhere before the meta write: the old image's WAL is inert). -/

section pending
variable (P : Params Content MetaRec WalRec TreeAbs) (L : LogParams MetaRec LogRec)
variable (d0 : Disk Content MetaRec WalRec LogRec)

def AllowedPreL' : Eff Content MetaRec WalRec LogRec → Prop
  | .walSet none => True
  | .walSet (some w) => P.walSeqn w ≠ P.seqn d0.mt
  | .logSet l => absLog L d0.mt l = absLog L d0.mt d0.log
  | .page f pn c => AllowedPre P d0 (.page f pn c)
  | .setMeta _ => False

def GoodAL' (d : Disk Content MetaRec WalRec LogRec) : Prop :=
  d.mt = d0.mt ∧
  (∀ f pn, (P.reach d0.mt f pn ∨ f = File.fHt) → d.pages f pn = d0.pages f pn) ∧
  (d.wal = d0.wal ∨ d.wal = none ∨ ∃ w, d.wal = some w ∧ P.walSeqn w ≠ P.seqn d0.mt) ∧
  absLog L d0.mt d.log = absLog L d0.mt d0.log

theorem goodAL'_applyEff (d : Disk Content MetaRec WalRec LogRec) (e : Eff Content MetaRec WalRec LogRec)
    (hg : GoodAL' P L d0 d) (ha : AllowedPreL' P L d0 e) : GoodAL' P L d0 (applyEff d e) := by
  obtain ⟨hm, hp, hw, hl⟩ := hg
  cases e with
  | page f pn c =>
    obtain ⟨hf, hr⟩ := ha
    refine ⟨hm, ?_, hw, hl⟩
    intro f' pn' h
    simp only [applyEff]
    by_cases heq : f' = f ∧ pn' = pn
    · obtain ⟨rfl, rfl⟩ := heq
      rcases h with h | h
      · exact absurd h hr
      · rcases hf with hf | hf <;> rw [hf] at h <;> cases h
    · rw [if_neg heq]; exact hp f' pn' h
  | setMeta m => exact absurd ha (by simp [AllowedPreL'])
  | walSet w =>
    cases w with
    | none => exact ⟨hm, hp, Or.inr (Or.inl rfl), hl⟩
    | some w => exact ⟨hm, hp, Or.inr (Or.inr ⟨w, rfl, ha⟩), hl⟩
  | logSet l => exact ⟨hm, hp, hw, ha⟩

theorem goodAL'_abs (hinert : ∀ b, htView P d0 b = d0.pages File.fHt b)
    (d : Disk Content MetaRec WalRec LogRec) (hg : GoodAL' P L d0 d) : absOfL P L d = absOfL P L d0 := by
  obtain ⟨hm, hp, hw, hl⟩ := hg
  have h1 : absOf P d = absOf P d0 := by
    rcases hw with hw | hw | hw
    · exact goodA_abs P d0 hinert d ⟨hm, hp, Or.inl hw⟩
    · have htree : P.absTree d.mt d.pages = P.absTree d0.mt d0.pages := by
        rw [hm]; exact P.frame _ _ _ (fun f pn h => hp f pn (Or.inl h))
      have hht : htView P d = htView P d0 := by
        funext b
        rw [hinert b]
        simp only [htView, hw]
        exact hp File.fHt b (Or.inr rfl)
      simp [absOf, htree, hht]
    · exact goodA_abs P d0 hinert d ⟨hm, hp, Or.inr hw⟩
  simp only [absOfL, h1, hm, hl]

/-- **Phase A from a state with pending WAL truncations** -/
theorem phaseAL'_images (hinert : ∀ b, htView P d0 b = d0.pages File.fHt b)
    (vol0 : List (Eff Content MetaRec WalRec LogRec)) (hvol0 : ∀ e ∈ vol0, e = Eff.walSet none)
    (p : List (Ev Content MetaRec WalRec LogRec)) (hp : ∀ ev ∈ p, EvA (AllowedPreL' P L d0) ev)
    (img : Disk Content MetaRec WalRec LogRec) (himg : IsImage (run ⟨d0, vol0⟩ p) img) :
    absOfL P L img = absOfL P L d0 :=
  goodAL'_abs P L d0 hinert img
    (invG_images (GoodAL' P L d0) (AllowedPreL' P L d0) (goodAL'_applyEff P L d0) p ⟨d0, vol0⟩
      ⟨⟨rfl, fun _ _ _ => rfl, Or.inl rfl, rfl⟩, fun e he => by rw [hvol0 e he]; trivial⟩ hp img himg)

/-- **C03 / C04 with the rollback log, started while the previous sync's WAL truncation is still un-synced.** -/
theorem sync_crash_atomic_log_pending
    (hinert : ∀ b, htView P d0 b = d0.pages File.fHt b)
    (vol0 : List (Eff Content MetaRec WalRec LogRec)) (hvol0 : ∀ e ∈ vol0, e = Eff.walSet none)
    (pre post : List (Ev Content MetaRec WalRec LogRec)) (m1 : MetaRec) (w1 : WalRec)
    (hpre : ∀ ev ∈ pre, EvA (AllowedPreL' P L d0) ev)
    (hflushed : (run ⟨d0, vol0⟩ pre).vol = [])
    (hwal : (run ⟨d0, vol0⟩ pre).dur.wal = some w1)
    (hseq : P.walSeqn w1 = P.seqn m1)
    (hpost : PostOKL P L (run ⟨d0, vol0⟩ pre).dur m1 w1
      ⟨applyEff (run ⟨d0, vol0⟩ pre).dur (.setMeta m1), []⟩ post) :
    (∀ p, p <+: pre ++ ([Ev.eff (.setMeta m1), Ev.fsync File.fMeta] ++ post) →
       ∀ img, IsImage (run ⟨d0, vol0⟩ p) img →
         absOfL P L img = absOfL P L d0 ∨
         absOfL P L img = (absNew P (run ⟨d0, vol0⟩ pre).dur m1 w1, absLog L m1 (run ⟨d0, vol0⟩ pre).dur.log)) ∧
    (∀ img, IsImage (run ⟨d0, vol0⟩ (pre ++ ([Ev.eff (.setMeta m1), Ev.fsync File.fMeta] ++ post))) img →
       absOfL P L img = (absNew P (run ⟨d0, vol0⟩ pre).dur m1 w1, absLog L m1 (run ⟨d0, vol0⟩ pre).dur.log)) := by
  rcases hsA : run (⟨d0, vol0⟩ : Exec Content MetaRec WalRec LogRec) pre with ⟨dA, volA⟩
  rw [hsA] at hflushed hwal hpost
  simp only at hflushed hwal hpost ⊢
  subst hflushed
  have hgM : GoodC P dA m1 w1 (applyEff dA (.setMeta m1)) :=
    ⟨rfl, fun _ _ _ => rfl, fun _ => Or.inl rfl, Or.inl (by simpa [applyEff] using hwal)⟩
  have hstepMeta : run (⟨dA, []⟩ : Exec Content MetaRec WalRec LogRec)
      [Ev.eff (.setMeta m1), Ev.fsync File.fMeta] = ⟨applyEff dA (.setMeta m1), []⟩ := by
    simp [run, step, Eff.file, applyEffs]
  have phaseC : ∀ q, q <+: post → ∀ img,
      IsImage (run ⟨d0, vol0⟩ (pre ++ ([Ev.eff (.setMeta m1), Ev.fsync File.fMeta] ++ q))) img →
      absOfL P L img = (absNew P dA m1 w1, absLog L m1 dA.log) := by
    intro q hq img himg
    obtain ⟨r, hr⟩ := hq
    have hok : PostOKL P L dA m1 w1 ⟨applyEff dA (.setMeta m1), []⟩ q := by
      apply postOKL_prefix P L dA m1 w1 q r; rw [hr]; exact hpost
    rw [run_append, hsA, run_append, hstepMeta] at himg
    exact (phaseCL_images P L dA m1 w1 hseq _ hgM rfl q hok img himg).1
  constructor
  · intro p hp img himg
    rcases prefix_append_cases pre _ p hp with h1 | ⟨t, ht, rfl⟩
    · left
      obtain ⟨r, hr⟩ := h1
      exact phaseAL'_images P L d0 hinert vol0 hvol0 p
        (fun ev hev => hpre ev (by rw [← hr]; simp [hev])) img himg
    · match t, ht with
      | [], _ =>
        left
        rw [List.append_nil] at himg
        exact phaseAL'_images P L d0 hinert vol0 hvol0 pre hpre img himg
      | [ev1], ht =>
        have h1 : ev1 = Ev.eff (.setMeta m1) := by
          have := ht
          simp only [List.cons_append, List.nil_append, List.cons_prefix_cons] at this
          exact this.1
        subst h1
        rw [run_append, hsA] at himg
        obtain ⟨sub, hsub, rfl⟩ := himg
        simp only [run, List.foldl_cons, List.foldl_nil, step, List.nil_append] at hsub ⊢
        cases sub with
        | nil =>
          left
          apply phaseAL'_images P L d0 hinert vol0 hvol0 pre hpre
          rw [hsA]
          exact ⟨[], List.Sublist.refl _, rfl⟩
        | cons e es =>
          right
          have hes : e = .setMeta m1 ∧ es = [] := by
            have hlen := List.Sublist.length_le hsub
            have hmem := hsub.subset (List.mem_cons_self)
            simp only [List.mem_singleton] at hmem
            refine ⟨hmem, ?_⟩
            cases es with
            | nil => rfl
            | cons _ _ => simp at hlen
          obtain ⟨rfl, rfl⟩ := hes
          simp only [applyEffs, List.foldl_cons, List.foldl_nil]
          exact (phaseCL_images P L dA m1 w1 hseq _ hgM rfl [] trivial _
            ⟨[], List.Sublist.refl _, rfl⟩).1
      | ev1 :: ev2 :: q, ht =>
        right
        have h12 : ev1 = Ev.eff (.setMeta m1) ∧ ev2 = Ev.fsync File.fMeta ∧ q <+: post := by
          have := ht
          simp only [List.cons_append, List.nil_append, List.cons_prefix_cons] at this
          exact ⟨this.1, this.2.1, this.2.2⟩
        obtain ⟨rfl, rfl, hq⟩ := h12
        exact phaseC q hq img himg
  · intro img himg
    exact phaseC post (List.prefix_refl _) img himg

end pending

/-- the new live records after a commit are the old ones plus the appended record (when the meta keeps the start and
moves the end to the new record, and nothing lay beyond the old end) -/
theorem liveRecs_commit (L : LogParams MetaRec LogRec) (m0 m1 : MetaRec) (l : List LogRec) (r : LogRec)
    (hs : L.startLive m1 = L.startLive m0) (he : L.endLive m1 = L.recId r)
    (hr : L.endLive m0 < L.recId r) (hsr : L.startLive m0 ≤ L.recId r)
    (hl : ∀ x ∈ l, L.recId x ≤ L.endLive m0) :
    liveRecs L m1 (l ++ [r]) = liveRecs L m0 l ++ [r] := by
  simp only [liveRecs, List.filter_append]
  congr 1
  · apply List.filter_congr
    intro x hx
    have := hl x hx
    simp only [LogParams.live, hs, he]
    congr 1
    simp only [decide_eq_decide]
    constructor <;> intro _ <;> omega
  · simp [LogParams.live, hs, he, hsr]

end NomtDisk
