import NomtModel.Store.StageGlueBranchStage
import NomtModel.Store.BranchUpdKeys
/-!
# The branch stage as a whole (`branchStage_spec`)
-/
namespace Nomt.StageGlue
open Nomt
open Nomt.LeafUpd (Entry Sorted write1 applyAll CellSize)
open Nomt.ExtRange (Tracker TE Inner Pn upsert lookupE filterCs)
open Nomt.BranchUpd (DbNode OutNode Produced Node KF kfReal chs)

/-! ## the record of tracker calls only grows; the first `reset_branch_base` deletes a node -/

def Grows (x x' : BRun) : Prop := ∃ s, x'.evs = x.evs ++ s

theorem Grows.refl (x : BRun) : Grows x x := ⟨[], by simp⟩
theorem Grows.trans {a b c : BRun} (h1 : Grows a b) (h2 : Grows b c) : Grows a c := by
  obtain ⟨s1, e1⟩ := h1; obtain ⟨s2, e2⟩ := h2
  exact ⟨s1 ++ s2, by rw [e2, e1]; simp⟩

theorem grows_resetToB (key : Nat) (x : BRun) : Grows x (resetToB key x) := by
  unfold resetToB
  split
  · split
    · exact ⟨_, rfl⟩
    · exact ⟨[], by simp⟩
  · exact ⟨[], by simp⟩

theorem grows_afterDigestB (x : BRun) (st' : BranchUpd.St) (nodes : List Produced) : Grows x (afterDigestB x st' nodes) :=
  ⟨_, rfl⟩

theorem grows_scopeLoopB (kf : KF) (key : Nat) : ∀ (fuel : Nat) (x x' : BRun), scopeLoopB kf key fuel x = some x' → Grows x x'
  | 0, _, _, h => by simp [scopeLoopB] at h
  | fuel + 1, x, x', h => by
    unfold scopeLoopB at h
    by_cases hs : BranchUpd.inScope x.r.st key
    · simp only [hs, if_true, Option.some.injEq] at h; subst h; exact Grows.refl _
    · simp only [hs, Bool.false_eq_true, if_false] at h
      cases hd : BranchUpd.digest kf x.r.st with
      | none => rw [hd] at h; cases h
      | some t =>
        obtain ⟨st', nodes, res⟩ := t
        rw [hd] at h
        exact ((grows_afterDigestB x st' nodes).trans (grows_resetToB _ _)).trans (grows_scopeLoopB kf key fuel _ x' h)

theorem grows_runChangesB (kf : KF) : ∀ (cs : List (Nat × Option Nat)) (x x' : BRun), runChangesB kf cs x = some x' → Grows x x'
  | [], x, x', h => by simp only [runChangesB, Option.some.injEq] at h; subst h; exact Grows.refl _
  | (key, pn) :: cs, x, x', h => by
    unfold runChangesB at h
    cases h1 : scopeLoopB kf key (x.r.rest.length + 1) x with
    | none => rw [h1] at h; cases h
    | some x1 =>
      rw [h1] at h
      simp only [] at h
      cases hi : BranchUpd.ingest kf x1.r.st key pn with
      | none => rw [hi] at h; cases h
      | some st =>
        rw [hi] at h
        have g1 := grows_scopeLoopB kf key _ x x1 h1
        have g2 := grows_runChangesB kf cs _ x' h
        exact g1.trans (Grows.trans ⟨[], by simp⟩ g2)

theorem grows_finishLoopB (kf : KF) : ∀ (fuel : Nat) (x x' : BRun), finishLoopB kf fuel x = some x' → Grows x x'
  | 0, _, _, h => by simp [finishLoopB] at h
  | fuel + 1, x, x', h => by
    unfold finishLoopB at h
    cases hd : BranchUpd.digest kf x.r.st with
    | none => rw [hd] at h; cases h
    | some t =>
      obtain ⟨st', nodes, res⟩ := t
      rw [hd] at h
      cases res with
      | finished => simp only [Option.some.injEq] at h; subst h; exact grows_afterDigestB x st' nodes
      | needsMerge c =>
        exact ((grows_afterDigestB x st' nodes).trans (grows_resetToB _ _)).trans (grows_finishLoopB kf fuel _ x' h)

theorem skipToB_le (key : Nat) : ∀ (rest : List DbNode) (l0 : DbNode), l0.sep ≤ key →
    ∃ sk l rest', BranchUpd.skipTo key (l0 :: rest) = (sk, l :: rest') ∧ l.sep ≤ key
  | [], l0, h => ⟨[], l0, [], rfl, h⟩
  | b :: rest, l0, h => by
    unfold BranchUpd.skipTo
    by_cases hb : b.sep ≤ key
    · obtain ⟨sk, l, rest', e, hl⟩ := skipToB_le key rest b hb
      simp only [hb, if_true, e]
      exact ⟨l0 :: sk, l, rest', rfl, hl⟩
    · simp only [hb, if_false]
      exact ⟨[], l0, b :: rest, rfl, h⟩

/-- on a non-empty index whose first separator is at most the first changed key, the worker deletes a node -/
theorem branchWorker_deletes (kf : KF) (db : List DbNode) (k : Nat) (pn : Option Nat) (cs : List (Nat × Option Nat)) (x : BRun)
    (l0 : DbNode) (r : List DbNode) (hdb : db = l0 :: r) (h0 : l0.sep ≤ k)
    (h : branchWorker kf db ((k, pn) :: cs) = some x) : delsOf x.evs ≠ [] := by
  unfold branchWorker at h
  simp only [] at h
  cases h1 : runChangesB kf ((k, pn) :: cs) (resetToB k { r := { rest := db } }) with
  | none => rw [h1] at h; cases h
  | some x1 =>
    rw [h1] at h
    obtain ⟨s, hs⟩ := (grows_runChangesB kf _ _ x1 h1).trans (grows_finishLoopB kf _ x1 x h)
    rw [hs]
    obtain ⟨sk, l, rest', e, hl⟩ := skipToB_le k r l0 h0
    have : (resetToB k ({ r := { rest := db } } : BRun)).evs = [.del l.sep l.bbn (rest'.head?.map (·.sep))] := by
      unfold resetToB
      simp only [hdb, e, hl, if_true, List.nil_append]
    rw [this]
    simp [delsOf]

/-! ## the new index as `toDb` of the level -/

theorem newAtB_skip (fresh : Nat → Nat) (k : Nat) : ∀ (A B : List Produced) (a : Nat), (∀ l ∈ A, l.sep ≠ k) →
    newAtB fresh a (A ++ B) k = newAtB fresh (a + A.length) B k
  | [], B, a, _ => by simp
  | l :: A, B, a, h => by
    simp only [List.cons_append, newAtB, h l (by simp), if_false, List.length_cons]
    rw [newAtB_skip fresh k A B (a + 1) (fun x hx => h x (by simp [hx]))]
    congr 1; omega

/-- the page number of a produced node of `out`, looked up by its separator -/
def pnOfProduced (fresh : Nat → Nat) (out : List OutNode) (p : Produced) : Nat :=
  match newAtB fresh 0 (newsOfB out) p.sep with
  | some (_, pn) => pn
  | none => 0

theorem idxOf_eq_map (fresh : Nat → Nat) (out : List OutNode) (hout : OutAscB out) : ∀ (t pre : List OutNode),
    out = pre ++ t → idxOf fresh (newsOfB pre).length t = t.map (BranchUpd.toDb (pnOfProduced fresh out))
  | [], _, _ => rfl
  | .old l :: t, pre, h => by
    have := idxOf_eq_map fresh out hout t (pre ++ [.old l]) (by rw [h]; simp)
    simp only [newsOfB_append, newsOfB, List.append_nil] at this
    simp only [idxOf, List.map_cons, BranchUpd.toDb, this]
  | .new p :: t, pre, h => by
    have ih := idxOf_eq_map fresh out hout t (pre ++ [.new p]) (by rw [h]; simp)
    simp only [newsOfB_append, newsOfB, List.length_append, List.length_cons, List.length_nil] at ih
    simp only [idxOf, List.map_cons, BranchUpd.toDb]
    rw [ih]
    congr 1
    -- the page number found by separator is the one allocated at this position
    have hasc := newsOfB_asc hout
    rw [h, newsOfB_append] at hasc
    simp only [newsOfB] at hasc
    have hlt : ∀ l ∈ newsOfB pre, l.sep ≠ p.sep := by
      intro l hl
      have := (List.pairwise_append.1 hasc).2.2 l hl p (by simp)
      omega
    unfold pnOfProduced
    rw [h, newsOfB_append, newAtB_skip fresh p.sep _ _ 0 hlt]
    simp [newsOfB, newAtB]

/-! ## ascending separators of the new level -/

theorem outAscB_of (out : List OutNode) (hp : out.Pairwise BranchUpd.Before)
    (hne : ∀ o ∈ out, ∃ it ∈ o.items, o.sep ≤ it.key) : OutAscB out := by
  refine hp.imp_of_mem ?_
  intro a b ha _ hab
  obtain ⟨it, hit, hle⟩ := hne a ha
  have := hab it.ent (List.mem_map.2 ⟨it, hit, rfl⟩)
  have e : it.ent.key = it.key := rfl
  omega

theorem chOK_of_asc : ∀ (cs : List (Nat × Option Nat)) (lo : Nat), CsAsc cs → (∀ c ∈ cs, lo ≤ c.1 ∧ c.1 < 2 ^ 256) →
    BranchUpd.ChOK lo cs
  | [], _, _, _ => trivial
  | (k, w) :: cs, lo, h, hb => by
    have h' := List.pairwise_cons.1 h
    refine ⟨(hb (k, w) (by simp)).1, (hb (k, w) (by simp)).2, chOK_of_asc cs (k + 1) h'.2 ?_⟩
    intro c hc
    have := h'.1 c hc
    exact ⟨by simp only at this; omega, (hb c (by simp [hc])).2⟩

/-- **the branch stage** (one worker, the code as it is): on a well-formed non-empty index whose first separator is the
zero key and a non-empty ascending changeset of 256-bit keys it reaches no panic site — none of the updater's, not
`assert!(entry.deleted.is_none())`, not the `assert!`s / `len() - 1` of `filter_branch_changeset` —; the index it leaves is
well formed, holds the old entries with the changeset applied, and consists of the untouched nodes and the produced nodes
under the page numbers `handle_new_branch` allocated; the released pages are the pages of the replaced nodes, each once. -/
theorem branchStage_spec (fresh : Nat → Nat) (idx : BIndex) (lcs : List (Nat × Option Nat))
    (hdb : BranchUpd.DbOK kfReal idx) (hidx : idx ≠ [] ∨ ∃ c ∈ lcs, c.2.isSome = true)
    (hz : ∀ l, idx.head? = some l → l.sep = 0)
    (hasc : CsAsc lcs) (hlt : ∀ c ∈ lcs, c.1 < 2 ^ 256) (hne : lcs ≠ []) :
    ∃ bo rel, branchStage kfReal fresh idx lcs = some bo ∧
      BranchUpd.runWorker kfReal idx lcs = some (bo.level, rel) ∧
      BranchUpd.DbOK kfReal bo.index ∧
      BranchUpd.flat bo.index = applyAll (BranchUpd.flat idx) (chs lcs) ∧
      bo.index = idxOf fresh 0 bo.level ∧ OutAscB bo.level ∧
      bo.freed.Perm ((idx.filter fun n => decide (n.sep ∉ (oldsOfB bo.level).map (·.sep))).map (·.bbn)) ∧
      bo.allocs = (newsOfB bo.level).length ∧ (∀ n ∈ oldsOfB bo.level, n ∈ idx) := by
  obtain ⟨c0, cs', rfl⟩ := List.exists_cons_of_ne_nil hne
  obtain ⟨k0, pn0⟩ := c0
  have hch : BranchUpd.ChOK 0 ((k0, pn0) :: cs') :=
    chOK_of_asc _ 0 hasc (fun c hc => ⟨Nat.zero_le _, hlt c hc⟩)
  have hfirst : ∀ l, idx.head? = some l → l.sep ≤ 0 := fun l hl => by rw [hz l hl]; exact Nat.le_refl _
  obtain ⟨out, rel, erun, hcontent, hnews, hbefore, holds⟩ :=
    BranchUpd.runWorker_spec BranchUpd.kfReal_ok idx ((k0, pn0) :: cs') 0 hdb hch hfirst
  have her := branchWorker_erase kfReal (by decide) idx k0 pn0 cs'
  rw [erun] at her
  cases hw : branchWorker kfReal idx ((k0, pn0) :: cs') with
  | none => rw [hw] at her; cases her
  | some x =>
    rw [hw] at her
    simp only [Option.map_some, Option.some.injEq, Prod.mk.injEq] at her
    obtain ⟨hxo, hxl⟩ := her
    have hb := branchWorker_book kfReal idx _ x hw
    -- separators of the old and of the new level ascend
    have hidxasc : IdxAsc idx := by
      have hp := BranchUpd.DbOK.pairwise hdb
      have hall := BranchUpd.DbOK.oldOK hdb
      refine hp.imp_of_mem ?_
      intro a b ha _ hab
      obtain ⟨it, t, hit⟩ := List.exists_cons_of_ne_nil (hall a ha).1.ne
      have h1 := (hall a ha).2 it (by rw [hit]; simp)
      have h2 := hab it (by rw [hit]; simp)
      omega
    have houtasc : OutAscB out := by
      apply outAscB_of out hbefore
      intro o ho
      cases o with
      | old l =>
        obtain ⟨it, t, hit⟩ := List.exists_cons_of_ne_nil (holds l ho).1.ne
        exact ⟨it, by simp [OutNode.items, hit], (holds l ho).2 it (by rw [hit]; simp)⟩
      | new p =>
        have g := hnews p ho
        obtain ⟨it, t, hit⟩ := List.exists_cons_of_ne_nil g.ne
        have hs := g.sep
        rw [hit] at hs
        simp only [List.head?_cons, Option.map_some, Option.some.injEq] at hs
        exact ⟨it, by simp [OutNode.items, hit], by show p.sep ≤ it.key; omega⟩
    obtain ⟨tr, hr, hiasc, hxf, hcasc, hindex, hfreed, hnonempty, hnonempty2⟩ :=
      branch_index_change fresh idx x hidxasc hb (by rw [hxo]; exact houtasc)
    have hchne : trackerNodes fresh tr.inner ≠ [] := by
      by_cases hie : idx = []
      · -- the empty index: the changeset inserts something, so a node is produced
        obtain ⟨c, hc, hsome⟩ : ∃ c ∈ ((k0, pn0) :: cs' : List (Nat × Option Nat)), c.2.isSome = true := by
          rcases hidx with h | h
          · exact absurd hie h
          · exact h
        apply hnonempty2
        have hkeys : (chs ((k0, pn0) :: cs')).Pairwise (fun a b => a.1 ≠ b.1) := chs_keys_ne hasc
        have hget := getE_applyAll (chs ((k0, pn0) :: cs')) (BranchUpd.flat idx) c.1 hkeys
        have hgc : getC (chs ((k0, pn0) :: cs')) c.1 = some (BranchUpd.chOf c.2) := by
          have key : ∀ (l : List (Nat × Option Nat)), l.Pairwise (fun a b => a.1 < b.1) → c ∈ l →
              getC (chs l) c.1 = some (BranchUpd.chOf c.2) := by
            intro l
            induction l with
            | nil => intro _ h; cases h
            | cons y t ih =>
              intro hp hm
              have hp' := List.pairwise_cons.1 hp
              rw [chs_cons, getC_cons]
              rcases List.mem_cons.1 hm with rfl | hm
              · simp
              · have : y.1 ≠ c.1 := by have := hp'.1 c hm; omega
                simp only [this, if_false]
                exact ih hp'.2 hm
          exact key _ hasc hc
        rw [hgc] at hget
        rw [← hcontent] at hget
        -- the produced level is not empty, and it has no untouched node
        have hne2 : BranchUpd.flatOut out ≠ [] := by
          intro e0
          rw [e0] at hget
          cases hc2 : c.2 with
          | none => rw [hc2] at hsome; cases hsome
          | some p => rw [hc2] at hget; simp [BranchUpd.chOf, getE_nil] at hget
        intro hnil
        apply hne2
        have hall : ∀ o ∈ out, ∃ p, o = OutNode.new p := by
          intro o ho
          cases o with
          | new p => exact ⟨p, rfl⟩
          | old l =>
            exfalso
            obtain ⟨⟨consumed, _, hperm⟩, _⟩ := hb
            have : l ∈ oldsOfB out := by
              have key : ∀ (o : List OutNode), OutNode.old l ∈ o → l ∈ oldsOfB o := by
                intro o
                induction o with
                | nil => intro h; cases h
                | cons y t ih =>
                  intro h
                  cases y with
                  | old l' =>
                    rcases List.mem_cons.1 h with e | h
                    · cases e; simp [oldsOfB]
                    · simp [oldsOfB, ih h]
                  | new l' =>
                    rcases List.mem_cons.1 h with e | h
                    · cases e
                    · simp [oldsOfB, ih h]
              exact key out ho
            rw [← hxo, oldsOfB_append, oldsOfB_old] at this
            have := hperm.mem_iff.1 (List.mem_append_right _ this)
            rw [hie] at this
            cases this
        have hnews0 : newsOfB out = [] := by rw [← hxo, newsOfB_append, newsOfB_old, List.append_nil]; exact hnil
        cases hout : out with
        | nil => rfl
        | cons o t =>
          obtain ⟨p, hp⟩ := hall o (by rw [hout]; simp)
          rw [hout, hp] at hnews0
          simp [newsOfB] at hnews0
      · obtain ⟨l0, r0, hidx0⟩ := List.exists_cons_of_ne_nil hie
        exact hnonempty (branchWorker_deletes kfReal idx k0 pn0 cs' x l0 r0 hidx0
          (by rw [hz l0 (by rw [hidx0]; rfl)]; exact Nat.zero_le _) hw)
    have hfilt := filterCs_of_asc false (trackerNodes fresh tr.inner) (Or.inr hchne) hcasc
    have hres : branchStage kfReal fresh idx ((k0, pn0) :: cs') =
        some { index := applyToIndex idx (trackerNodes fresh tr.inner),
               freed := trackerFreed tr.inner ++ tr.extraFreed.map (resolve fresh),
               submittedIo := (trackerInserted fresh tr.inner).length + tr.extraFreed.length,
               allocs := (newsOfB x.r.out).length, level := x.r.out ++ x.r.rest.map .old } := by
      simp only [branchStage, hw, hr, hfilt]
      rfl
    refine ⟨_, rel, hres, ?_, ?_, ?_, ?_, ?_, ?_, ?_, ?_⟩
    · simp only [hxo]; exact erun
    · -- well-formed: the level as `toDb`
      obtain ⟨out', rel', e', g1, _⟩ := BranchUpd.level_closed BranchUpd.kfReal_ok BranchUpd.kfReal_canon idx
        ((k0, pn0) :: cs') 0 hdb hch hfirst (pnOfProduced fresh out)
      rw [erun] at e'
      simp only [Option.some.injEq, Prod.mk.injEq] at e'
      obtain ⟨rfl, _⟩ := e'
      simp only [hindex, hxo]
      have := idxOf_eq_map fresh out houtasc out [] (by simp)
      simp only [newsOfB, List.length_nil] at this
      rw [this]
      exact g1
    · obtain ⟨out', rel', e', _, g2⟩ := BranchUpd.level_closed BranchUpd.kfReal_ok BranchUpd.kfReal_canon idx
        ((k0, pn0) :: cs') 0 hdb hch hfirst (pnOfProduced fresh out)
      rw [erun] at e'
      simp only [Option.some.injEq, Prod.mk.injEq] at e'
      obtain ⟨rfl, _⟩ := e'
      simp only [hindex, hxo]
      have := idxOf_eq_map fresh out houtasc out [] (by simp)
      simp only [newsOfB, List.length_nil] at this
      rw [this]
      exact g2
    · simp only [hindex]
    · simp only [hxo]; exact houtasc
    · simp only [hxf, List.map_nil, List.append_nil, oldsOfB_append, oldsOfB_old]
      exact hfreed
    · simp only [newsOfB_append, newsOfB_old, List.append_nil]
    · intro n hn
      obtain ⟨⟨consumed, _, hperm⟩, _⟩ := hb
      simp only [oldsOfB_append, oldsOfB_old] at hn
      exact hperm.mem_iff.1 (List.mem_append_right _ hn)

end Nomt.StageGlue
