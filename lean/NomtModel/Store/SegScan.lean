import NomtModel.Store.SegModel
/-!
# `scan_segment` on consecutive record ids

The recovery state machine (`on_next_record`) over a run of records whose ids are `nx, nx+1, …`: no error, the
records handed to the callback are exactly those in `[s, e]`, `live_segment_start` / `live_segment_end` are set by the
first record `≥ s` / the record `e`.
-/
namespace Nomt.Seg

def live (s e : Nat) (r : Rec) : Bool := decide (s ≤ r.id) && decide (r.id ≤ e)

/-- ids `a, a+1, …` -/
def IdsFrom : Nat → List Rec → Prop
  | _, [] => True
  | a, r :: rs => r.id = a ∧ IdsFrom (a + 1) rs

/-- the phases of the recovery state relative to the next record id `nx` -/
def StOK (s e nx : Nat) (σ : RState) : Prop :=
  (σ.ls = none ∧ σ.le = none ∧ nx ≤ e) ∨
  (σ.ls.isSome ∧ σ.le = none ∧ s ≤ nx ∧ nx ≤ e) ∨
  (σ.ls.isSome ∧ σ.le.isSome ∧ e < nx)

def orIdx (o : Option Nat) (b : Bool) (idx : Nat) : Option Nat :=
  if o.isSome then o else if b then some idx else none

theorem onNext_pre_below (s e idx id : Nat) (out : List Rec) (h : id < s) :
    onNext s e idx id ⟨none, none, out⟩ = (⟨none, none, out⟩, false) := by
  have : ¬ s ≤ id := by omega
  simp [onNext, RState.isLive, this]

theorem onNext_pre_enter (s e idx id : Nat) (out : List Rec) (hs : 0 < s) (h : s ≤ id) (h2 : id < e) :
    onNext s e idx id ⟨none, none, out⟩ = (⟨some idx, none, out⟩, true) := by
  have : ¬ e ≤ id := by omega
  have hs0 : s ≠ 0 := by omega
  simp [onNext, RState.isLive, this, h, hs0]

theorem onNext_pre_both (s e idx id : Nat) (out : List Rec) (hs : 0 < s) (h : s ≤ id) (h2 : e ≤ id) :
    onNext s e idx id ⟨none, none, out⟩ = (⟨some idx, some idx, out⟩, true) := by
  have hs0 : s ≠ 0 := by omega
  simp [onNext, RState.isLive, h, h2, hs0]

theorem onNext_live_stay (s e idx id i : Nat) (out : List Rec) (hs : 0 < s) (h2 : id < e) :
    onNext s e idx id ⟨some i, none, out⟩ = (⟨some i, none, out⟩, true) := by
  have : ¬ e ≤ id := by omega
  have hs0 : s ≠ 0 := by omega
  simp [onNext, RState.isLive, this, hs0]

theorem onNext_live_exit (s e idx id i : Nat) (out : List Rec) (hs : 0 < s) (h2 : e ≤ id) :
    onNext s e idx id ⟨some i, none, out⟩ = (⟨some i, some idx, out⟩, true) := by
  have hs0 : s ≠ 0 := by omega
  simp [onNext, RState.isLive, h2, hs0]

theorem onNext_done (s e idx id i j : Nat) (out : List Rec) :
    onNext s e idx id ⟨some i, some j, out⟩ = (⟨some i, some j, out⟩, false) := by
  simp [onNext, RState.isLive]

theorem scanFrame_ok (s e idx : Nat) (hs : 0 < s) (hse : s ≤ e) (r : Rec) (c : SegScan)
    (hst : StOK s e r.id c.σ) (hlast : c.last = none ∨ c.last = some (r.id - 1) ∧ 0 < r.id) :
    ∃ c', scanFrame s e idx r true c = .ok c' ∧ StOK s e (r.id + 1) c'.σ ∧
      c'.σ.out = c.σ.out ++ [r].filter (live s e) ∧
      c'.σ.ls = orIdx c.σ.ls (decide (s ≤ r.id)) idx ∧
      c'.σ.le = orIdx c.σ.le (decide (e ≤ r.id)) idx ∧
      c'.last = some r.id ∧
      c'.min = newMin c.min r.id ∧ c'.max = newMax c.max r.id := by
  obtain ⟨⟨ls, le, out⟩, mn, mx, last⟩ := c
  simp only at hst hlast ⊢
  have hord : unorderedAfter last r.id = false := by
    rcases hlast with h | ⟨h, hp⟩
    · rw [h]; rfl
    · rw [h]; simp [unorderedAfter]; omega
  unfold scanFrame
  simp only [hord, Bool.false_eq_true, if_false, Bool.not_true, Bool.and_false]
  refine ⟨_, rfl, ?_⟩
  rcases hst with ⟨h1, h2, h3⟩ | ⟨h1, h2, h3, h4⟩ | ⟨h1, h2, h3⟩
  · simp only at h1 h2; subst h1 h2
    by_cases hlt : s ≤ r.id
    · by_cases hle : e ≤ r.id
      · have he : r.id ≤ e := h3
        rw [onNext_pre_both s e idx r.id out hs hlt hle]
        simp [StOK, orIdx, live, hlt, hle, he]; omega
      · rw [onNext_pre_enter s e idx r.id out hs hlt (by omega)]
        have he : r.id ≤ e := h3
        simp [StOK, orIdx, live, hlt, hle, he]; omega
    · rw [onNext_pre_below s e idx r.id out (by omega)]
      have hle : ¬ e ≤ r.id := by omega
      simp [StOK, orIdx, live, hlt, hle]; omega
  · simp only at h1 h2; subst h2
    obtain ⟨i, rfl⟩ := Option.isSome_iff_exists.mp h1
    by_cases hle : e ≤ r.id
    · rw [onNext_live_exit s e idx r.id i out hs hle]
      simp [StOK, orIdx, live, hle, h3, h4]; omega
    · rw [onNext_live_stay s e idx r.id i out hs (by omega)]
      simp [StOK, orIdx, live, hle, h3, h4]; omega
  · simp only at h1 h2
    obtain ⟨i, rfl⟩ := Option.isSome_iff_exists.mp h1
    obtain ⟨j, rfl⟩ := Option.isSome_iff_exists.mp h2
    rw [onNext_done]
    have : ¬ r.id ≤ e := by omega
    simp [StOK, orIdx, live, this]; omega

theorem orIdx_orIdx (o : Option Nat) (b1 b2 : Bool) (idx : Nat) :
    orIdx (orIdx o b1 idx) b2 idx = orIdx o (b1 || b2) idx := by
  cases o <;> cases b1 <;> cases b2 <;> simp [orIdx]

theorem orIdx_false (o : Option Nat) (idx : Nat) : orIdx o false idx = o := by
  cases o <;> simp [orIdx]

def foldMin (mn : Option Nat) (rs : List Rec) : Option Nat := rs.foldl (fun m r => newMin m r.id) mn
def foldMax (mx : Option Nat) (rs : List Rec) : Option Nat := rs.foldl (fun m r => newMax m r.id) mx
def foldLast (l : Option Nat) (rs : List Rec) : Option Nat := rs.foldl (fun _ r => some r.id) l

theorem scanRecs_ok (s e idx : Nat) (hs : 0 < s) (hse : s ≤ e) :
    ∀ (rs : List Rec) (nx : Nat) (c : SegScan), IdsFrom nx rs → StOK s e nx c.σ →
      (c.last = none ∨ c.last = some (nx - 1) ∧ 0 < nx) →
      ∃ c', scanRecs s e idx rs c = .ok c' ∧ StOK s e (nx + rs.length) c'.σ ∧
        c'.σ.out = c.σ.out ++ rs.filter (live s e) ∧
        c'.σ.ls = orIdx c.σ.ls (rs.any (fun r => decide (s ≤ r.id))) idx ∧
        c'.σ.le = orIdx c.σ.le (rs.any (fun r => decide (e ≤ r.id))) idx ∧
        c'.last = foldLast c.last rs ∧ c'.min = foldMin c.min rs ∧ c'.max = foldMax c.max rs := by
  intro rs
  induction rs with
  | nil =>
    intro nx c _ hst _
    exact ⟨c, rfl, by simpa using hst, by simp, by simp [orIdx_false], by simp [orIdx_false], rfl, rfl, rfl⟩
  | cons r rs ih =>
    intro nx c hids hst hlast
    obtain ⟨hid, hrest⟩ := hids
    subst hid
    obtain ⟨c1, h1, hst1, hout1, hls1, hle1, hlast1, hmin1, hmax1⟩ := scanFrame_ok s e idx hs hse r c hst hlast
    obtain ⟨c2, h2, hst2, hout2, hls2, hle2, hlast2, hmin2, hmax2⟩ :=
      ih (r.id + 1) c1 hrest hst1 (Or.inr ⟨by simp [hlast1], by omega⟩)
    refine ⟨c2, ?_, ?_, ?_, ?_, ?_, ?_, ?_, ?_⟩
    · simp [scanRecs, h1, h2]
    · have : r.id + (rs.length + 1) = r.id + 1 + rs.length := by omega
      simpa [this] using hst2
    · rw [hout2, hout1]; simp [List.filter_cons]; split <;> simp
    · rw [hls2, hls1, orIdx_orIdx]; simp
    · rw [hle2, hle1, orIdx_orIdx]; simp
    · rw [hlast2, hlast1]; simp [foldLast]
    · rw [hmin2, hmin1]; simp [foldMin]
    · rw [hmax2, hmax1]; simp [foldMax]

theorem foldLast_idsFrom : ∀ (rs : List Rec) (nx : Nat) (l : Option Nat), IdsFrom nx rs →
    foldLast l rs = if rs = [] then l else some (nx + rs.length - 1)
  | [], _, _, _ => rfl
  | r :: rs, nx, l, h => by
    obtain ⟨hid, hrest⟩ := h
    have := foldLast_idsFrom rs (nx + 1) (some r.id) hrest
    simp only [foldLast, List.foldl_cons] at this ⊢
    rw [this]
    cases rs with
    | nil => simp [hid]
    | cons a as => simp; omega

/-- a frame met after the live end has been found is skipped whatever its payload -/
theorem scanFrame_done (s e idx : Nat) (r : Rec) (avail : Bool) (c : SegScan) (i j : Nat) (out : List Rec)
    (hσ : c.σ = ⟨some i, some j, out⟩) (hlast : c.last = none ∨ c.last = some (r.id - 1) ∧ 0 < r.id) :
    scanFrame s e idx r avail c =
      .ok { σ := c.σ, min := newMin c.min r.id, max := newMax c.max r.id, last := some r.id } := by
  obtain ⟨σ, mn, mx, last⟩ := c
  simp only at hσ hlast ⊢
  subst hσ
  have hord : unorderedAfter last r.id = false := by
    rcases hlast with h | ⟨h, hp⟩
    · rw [h]; rfl
    · rw [h]; simp [unorderedAfter]; omega
  simp [scanFrame, hord, onNext_done]

/-- the torn tail continues the ids, lies beyond the live end and holds at least a header -/
def TornOK (e nx : Nat) : Option (Rec × Nat) → Prop
  | none => True
  | some (r, k) => r.id = nx ∧ e < r.id ∧ HDR ≤ k ∧ k < r.size

/-- the records the reader meets in a file (the torn one included when its header is there) -/
def frameRecs (f : SegFile) : List Rec :=
  match f.torn with
  | none => f.recs
  | some (r, k) => if k = 0 then f.recs else f.recs ++ [r]

def metaOf (x : Nat × SegFile) : SegMeta :=
  ⟨x.1, (foldMin none (frameRecs x.2)).getD 0, (foldMax none (frameRecs x.2)).getD 0⟩

def hasGe (b : Nat) (f : SegFile) : Bool := f.recs.any (fun r => decide (b ≤ r.id))

theorem scanSegment_ok (s e idx : Nat) (hs : 0 < s) (hse : s ≤ e) (id : Nat) (f : SegFile) (nx : Nat) (σ : RState)
    (hids : IdsFrom nx f.recs) (htorn : TornOK e (nx + f.recs.length) f.torn) (hst : StOK s e nx σ) :
    ∃ σ', scanSegment s e idx f σ = .ok (σ', (metaOf (id, f)).min, (metaOf (id, f)).max) ∧
      StOK s e (nx + f.recs.length) σ' ∧
      σ'.out = σ.out ++ f.recs.filter (live s e) ∧
      σ'.ls = orIdx σ.ls (hasGe s f) idx ∧ σ'.le = orIdx σ.le (hasGe e f) idx := by
  obtain ⟨c1, h1, hst1, hout1, hls1, hle1, hlast1, hmin1, hmax1⟩ :=
    scanRecs_ok s e idx hs hse f.recs nx { σ := σ } hids hst (Or.inl rfl)
  unfold scanSegment
  rw [h1]
  simp only
  obtain ⟨recs, torn⟩ := f
  simp only at *
  cases torn with
  | none =>
    refine ⟨c1.σ, ?_, hst1, hout1, hls1, hle1⟩
    simp [metaOf, frameRecs, hmin1, hmax1]
  | some rk =>
    obtain ⟨r, k⟩ := rk
    obtain ⟨hid, hbeyond, hk, _⟩ := htorn
    have hk0 : k ≠ 0 := by simp [HDR] at hk; omega
    have hk1 : ¬ k < HDR := by omega
    simp only [hk0, hk1, if_false]
    -- the state is past the live end
    have hdone : ∃ i j, c1.σ = ⟨some i, some j, c1.σ.out⟩ := by
      rcases hst1 with ⟨_, _, h⟩ | ⟨_, _, _, h⟩ | ⟨h1', h2', _⟩
      · omega
      · omega
      · obtain ⟨i, hi⟩ := Option.isSome_iff_exists.mp h1'
        obtain ⟨j, hj⟩ := Option.isSome_iff_exists.mp h2'
        refine ⟨i, j, ?_⟩
        cases hc : c1.σ
        simp [hc] at hi hj ⊢
        exact ⟨hi, hj⟩
    obtain ⟨i, j, hσ⟩ := hdone
    have hl : c1.last = none ∨ c1.last = some (r.id - 1) ∧ 0 < r.id := by
      rw [hlast1]
      rw [foldLast_idsFrom recs nx none hids]
      by_cases hr : recs = []
      · left; simp [hr]
      · right
        have : 0 < recs.length := List.length_pos_iff.mpr hr
        simp [hr, hid]; omega
    rw [scanFrame_done s e idx r _ c1 i j _ hσ hl]
    refine ⟨c1.σ, ?_, hst1, hout1, hls1, hle1⟩
    simp [metaOf, frameRecs, hk0, hmin1, hmax1, foldMin, foldMax, List.foldl_append]

/-- the files of `d` hold the records `nx, nx+1, …` in order; only the last file may be empty or end in a torn
frame, which then lies beyond `e` -/
def RecsFrom (e : Nat) : Nat → Dir → Prop
  | _, [] => True
  | nx, x :: rest =>
    IdsFrom nx x.2.recs ∧ (rest ≠ [] → x.2.torn = none ∧ x.2.recs ≠ []) ∧
      TornOK e (nx + x.2.recs.length) x.2.torn ∧
      RecsFrom e (nx + x.2.recs.length) rest

/-- the complete records of a directory listed in order -/
def flatRecs (d : Dir) : List Rec := d.flatMap (·.2.recs)

def firstIdx (p : SegFile → Bool) : Nat → Dir → Option Nat
  | _, [] => none
  | idx, x :: rest => if p x.2 then some idx else firstIdx p (idx + 1) rest

theorem orIdx_or (o : Option Nat) (b : Bool) (idx : Nat) (o2 : Option Nat) :
    (orIdx o b idx).or o2 = o.or (if b then some idx else o2) := by
  cases o <;> cases b <;> simp [orIdx]

theorem scanAll_ok (s e : Nat) (hs : 0 < s) (hse : s ≤ e) :
    ∀ (d : Dir) (idx nx : Nat) (σ : RState), RecsFrom e nx d → StOK s e nx σ →
      ∃ σ', scanAll s e idx d σ = .ok (σ', d.map metaOf) ∧ StOK s e (nx + (flatRecs d).length) σ' ∧
        σ'.out = σ.out ++ (flatRecs d).filter (live s e) ∧
        σ'.ls = σ.ls.or (firstIdx (hasGe s) idx d) ∧ σ'.le = σ.le.or (firstIdx (hasGe e) idx d) := by
  intro d
  induction d with
  | nil =>
    intro idx nx σ _ hst
    exact ⟨σ, rfl, by simpa [flatRecs] using hst, by simp [flatRecs], by simp [firstIdx], by simp [firstIdx]⟩
  | cons x rest ih =>
    intro idx nx σ hrec hst
    obtain ⟨id, f⟩ := x
    obtain ⟨hids, _, htorn, hrest⟩ := hrec
    obtain ⟨σ1, h1, hst1, hout1, hls1, hle1⟩ := scanSegment_ok s e idx hs hse id f nx σ hids htorn hst
    obtain ⟨σ2, h2, hst2, hout2, hls2, hle2⟩ := ih (idx + 1) _ σ1 hrest hst1
    refine ⟨σ2, ?_, ?_, ?_, ?_, ?_⟩
    · simp only [scanAll, h1, h2, List.map_cons]
      rfl
    · have : nx + (flatRecs ((id, f) :: rest)).length = nx + f.recs.length + (flatRecs rest).length := by
        simp [flatRecs]; omega
      rw [this]; exact hst2
    · rw [hout2, hout1]; simp [flatRecs]
    · rw [hls2, hls1, orIdx_or]; simp [firstIdx]
    · rw [hle2, hle1, orIdx_or]; simp [firstIdx]

end Nomt.Seg
