import NomtModel.Store.Crash2
namespace NomtDisk
variable {Content MetaRec WalRec LogRec TreeAbs : Type}
variable (P : Params Content MetaRec WalRec TreeAbs)

theorem prefix_append_cases {α : Type} : ∀ (a b p : List α), p <+: a ++ b →
    p <+: a ∨ ∃ t, t <+: b ∧ p = a ++ t := by
  intro a
  induction a with
  | nil => intro b p h; exact Or.inr ⟨p, h, rfl⟩
  | cons x xs ih =>
    intro b p h
    cases p with
    | nil => exact Or.inl (List.nil_prefix)
    | cons y ys =>
      have h' : y :: ys <+: x :: (xs ++ b) := h
      rw [List.cons_prefix_cons] at h'
      obtain ⟨rfl, h'⟩ := h'
      rcases ih b ys h' with h1 | ⟨t, ht, rfl⟩
      · exact Or.inl (by rw [List.cons_prefix_cons]; exact ⟨rfl, h1⟩)
      · exact Or.inr ⟨t, ht, rfl⟩

theorem run_append (s : Exec Content MetaRec WalRec LogRec) (a b : List (Ev Content MetaRec WalRec LogRec)) :
    run s (a ++ b) = run (run s a) b := by
  simp [run, List.foldl_append]

/-- **C03/C04 (calibration form)**: for an accepted sync trace, every crash image (durable part plus
any subset of the unsynced effects) of every prefix abstracts to the old state or to the new state;
after the whole trace it is the new state. -/
theorem sync_crash_atomic
    (d0 : Disk Content MetaRec WalRec LogRec)
    (hinert : ∀ b, htView P d0 b = d0.pages File.fHt b)
    (pre post : List (Ev Content MetaRec WalRec LogRec)) (m1 : MetaRec) (w1 : WalRec)
    (hpre : ∀ ev ∈ pre, EvPre P d0 ev)
    (hflushed : (run ⟨d0, []⟩ pre).vol = [])
    (hwal : (run ⟨d0, []⟩ pre).dur.wal = some w1)
    (hseq : P.walSeqn w1 = P.seqn m1)
    (hpost : PostOK P w1 ⟨applyEff (run ⟨d0, []⟩ pre).dur (.setMeta m1), []⟩ post) :
    (∀ p, p <+: pre ++ ([Ev.eff (.setMeta m1), Ev.fsync File.fMeta] ++ post) →
       ∀ img, IsImage (run ⟨d0, []⟩ p) img →
         absOf P img = absOf P d0 ∨ absOf P img = absNew P (run ⟨d0, []⟩ pre).dur m1 w1) ∧
    (∀ img, IsImage (run ⟨d0, []⟩ (pre ++ ([Ev.eff (.setMeta m1), Ev.fsync File.fMeta] ++ post))) img →
       absOf P img = absNew P (run ⟨d0, []⟩ pre).dur m1 w1) := by
  -- the state at the end of the pre-meta phase
  have hA0 : InvA P d0 (⟨d0, []⟩ : Exec Content MetaRec WalRec LogRec) :=
    ⟨⟨rfl, fun _ _ _ => rfl, Or.inl rfl⟩, fun e he => by cases he⟩
  have hA : InvA P d0 (run ⟨d0, []⟩ pre) := invA_run P d0 pre _ hA0 hpre
  rcases hsA : run (⟨d0, []⟩ : Exec Content MetaRec WalRec LogRec) pre with ⟨dA, volA⟩
  rw [hsA] at hflushed hwal hpost hA
  simp only at hflushed hwal hpost
  subst hflushed
  -- the state right after the meta fsync
  have hC0 : InvC P dA m1 w1 (⟨applyEff dA (.setMeta m1), []⟩ : Exec Content MetaRec WalRec LogRec) := by
    refine ⟨⟨rfl, fun _ _ _ => rfl, fun _ => Or.inl rfl, Or.inl ?_⟩, ?_, ?_⟩
    · simpa [applyEff] using hwal
    · intro e he; cases he
    · rintro ⟨e, he, _⟩; cases he
  have hstepMeta : step (step ⟨dA, []⟩ (Ev.eff (.setMeta m1))) (Ev.fsync File.fMeta)
      = (⟨applyEff dA (.setMeta m1), []⟩ : Exec Content MetaRec WalRec LogRec) := by
    simp [step, Eff.file, applyEffs]
  have phaseC : ∀ q, q <+: post → ∀ img,
      IsImage (run ⟨d0, []⟩ (pre ++ ([Ev.eff (.setMeta m1), Ev.fsync File.fMeta] ++ q))) img →
      absOf P img = absNew P dA m1 w1 := by
    intro q hq img himg
    obtain ⟨r, hr⟩ := hq
    have hok : PostOK P w1 ⟨applyEff dA (.setMeta m1), []⟩ q := by
      apply PostOK_prefix P w1 q r; rw [hr]; exact hpost
    rw [run_append, hsA, run_append] at himg
    have : run (⟨dA, []⟩ : Exec Content MetaRec WalRec LogRec) [Ev.eff (.setMeta m1), Ev.fsync File.fMeta]
        = ⟨applyEff dA (.setMeta m1), []⟩ := by
      simp only [run, List.foldl_cons, List.foldl_nil]; exact hstepMeta
    rw [this] at himg
    exact phaseC_images P dA m1 w1 hseq _ (invC_run P dA m1 w1 q _ hC0 hok) img himg
  constructor
  · intro p hp img himg
    rcases prefix_append_cases pre _ p hp with h1 | ⟨t, ht, rfl⟩
    · -- still in the pre-meta phase
      left
      obtain ⟨r, hr⟩ := h1
      have hallowed : ∀ ev ∈ p, EvPre P d0 ev := fun ev hev => hpre ev (by rw [← hr]; simp [hev])
      exact phaseA_images P d0 hinert _ (invA_run P d0 p _ hA0 hallowed) img himg
    · -- at or after the meta write
      match t, ht with
      | [], _ =>
        left
        rw [List.append_nil, hsA] at himg
        exact phaseA_images P d0 hinert _ hA img himg
      | [ev1], ht =>
        have h1 : ev1 = Ev.eff (.setMeta m1) := by
          have := ht
          simp only [List.cons_append, List.nil_append, List.cons_prefix_cons] at this
          exact this.1
        subst h1
        rw [run_append, hsA] at himg
        obtain ⟨sub, hsub, rfl⟩ := himg
        simp only [run, List.foldl_cons, List.foldl_nil, step, List.nil_append] at hsub ⊢
        -- the only unsynced effect is the meta write
        cases sub with
        | nil =>
          left
          exact goodA_abs P d0 hinert _ hA.1
        | cons e es =>
          right
          have hes : e = .setMeta m1 ∧ es = [] := by
            have hlen := List.Sublist.length_le hsub
            have hmem := hsub.subset (List.mem_cons_self)
            simp only [List.mem_singleton] at hmem
            refine ⟨hmem, ?_⟩
            cases es with
            | nil => rfl
            | cons _ _ => simp at hlen
          obtain ⟨rfl, rfl⟩ := hes
          simp only [applyEffs, List.foldl_cons, List.foldl_nil]
          exact goodC_abs P dA m1 w1 hseq _ hC0.1
      | ev1 :: ev2 :: q, ht =>
        right
        have h12 : ev1 = Ev.eff (.setMeta m1) ∧ ev2 = Ev.fsync File.fMeta ∧ q <+: post := by
          have := ht
          simp only [List.cons_append, List.nil_append, List.cons_prefix_cons] at this
          exact ⟨this.1, this.2.1, this.2.2⟩
        obtain ⟨rfl, rfl, hq⟩ := h12
        exact phaseC q hq img himg
  · intro img himg
    exact phaseC post (List.prefix_refl _) img himg

end NomtDisk

