import NomtModel.Store.LeafUpdRun3
/-!
# The leaf stage on the EMPTY tree: the first produced leaf gets the zero key

On an empty tree `reset_leaf_base` finds nothing (`indexed_leaf` = `None`): the updater keeps `base = None`, `cutoff = None`,
every key is in scope, every change is ingested without a base, and the one `digest` of the final loop hands out leaves whose
separator chain starts at `separator()` = `[0; 32]` (`separator_override = None`, `base = None`).
-/
namespace Nomt.StageGlue
open Nomt
open Nomt.LeafUpd

variable {V : Type} [CellSize V]

/-- the run state on an empty tree before the final loop -/
structure NilRun (r : Run V) : Prop where
  rest : r.rest = []
  out : r.out = []
  base : r.st.base = none
  cutoff : r.st.cutoff = none
  sepOv : r.st.sepOv = none

theorem ingest_nil (st : St V) (k : Nat) (ch : Option (V × Bool)) (hb : st.base = none) :
    (ingest st k ch).1.base = none ∧ (ingest st k ch).1.cutoff = st.cutoff ∧ (ingest st k ch).1.sepOv = st.sepOv := by
  unfold ingest ingestG keepUpToG
  rw [hb]
  cases ch with
  | none => exact ⟨hb, rfl, rfl⟩
  | some vo => obtain ⟨v, o⟩ := vo; exact ⟨hb, rfl, rfl⟩

theorem runChanges_nil (sepf : Nat → Nat → Option Nat) : ∀ (cs : List (Nat × Option (V × Bool))) (r r' : Run V),
    NilRun r → runChanges sepf cs r = some r' → NilRun r'
  | [], r, r', h, e => by simp only [runChanges, Option.some.injEq] at e; subst e; exact h
  | (k, ch) :: cs, r, r', h, e => by
    unfold runChanges at e
    have hs : scopeLoop sepf k (r.rest.length + 1) r = some r := by
      unfold scopeLoop
      simp [inScope, h.cutoff]
    rw [hs] at e
    simp only [] at e
    obtain ⟨i1, i2, i3⟩ := ingest_nil r.st k ch h.base
    have hn : NilRun ({ r with st := (ingest r.st k ch).1, log := r.log ++ (ingest r.st k ch).2 } : Run V) :=
      ⟨h.rest, h.out, i1, i2.trans h.cutoff, i3.trans h.sepOv⟩
    exact runChanges_nil sepf cs _ r' hn e

/-- **on the empty tree the first leaf the stage produces has the zero key as separator** -/
theorem runWorker_nil_head (sepf : Nat → Nat → Option Nat) (KB : Nat) (hsep : SepOK sepf KB)
    (cs : List (Nat × Option (V × Bool))) (lo : Nat) (hcs : ChOK KB lo cs) (out : List (OutLeaf V)) (log : List V)
    (h : runWorker sepf ([] : List (DbLeaf V)) cs = some (out, log)) :
    (∀ o, out.head? = some o → o.sep = 0) ∧ ∀ l, OutLeaf.old l ∉ out := by
  cases cs with
  | nil =>
    have e0 : runWorker sepf ([] : List (DbLeaf V)) ([] : List (Nat × Option (V × Bool))) = some ([], []) := rfl
    rw [e0] at h
    cases h
    exact ⟨fun o ho => (by cases ho), fun l hl => (by cases hl)⟩
  | cons c cs' =>
    obtain ⟨k0, ch0⟩ := c
    have hr0 : resetTo k0 ({ rest := [] } : Run V) = { rest := [] } := rfl
    have hn0 : NilRun ({ rest := [] } : Run V) := ⟨rfl, rfl, rfl, rfl, rfl⟩
    have rs0 : RS KB ({ rest := [] } : Run V) := ⟨inv_init KB, trivial, rfl, by intro b c hb; cases hb⟩
    have rb0 : RB ({ rest := [] } : Run V) k0 :=
      ⟨by intro e he; simp [den] at he, by intro e he; simp at he, by intro b hb; cases hb⟩
    have re0 : RE ([] : List (Entry V)) (ovfLog ([] : List (Entry V)) (((k0, ch0) :: cs').map (·.1)))
        (((k0, ch0) :: cs').map (·.1)) ({ rest := [] } : Run V) :=
      ⟨by simp [content, restOf, den], by simp [content, restOf, den, ovfLog], by intro l hl; simp at hl, trivial⟩
    have hcs0 : ChOK KB k0 ((k0, ch0) :: cs') := ⟨Nat.le_refl _, hcs.2.1, hcs.2.2.1, hcs.2.2.2⟩
    obtain ⟨r1, e1, rs1, _⟩ := runChanges_spec sepf KB hsep _ ((k0, ch0) :: cs') k0 _ _ hcs0 rs0 rb0 re0
    have hn1 := runChanges_nil sepf _ _ r1 hn0 e1
    simp only [runWorker, hr0, e1] at h
    -- the one `digest` of the final loop
    obtain ⟨st', leaves, res, ed, od⟩ := digest_spec sepf KB hsep r1.st rs1.inv
    have hfin : res = .finished := by
      cases res with
      | finished => rfl
      | needsMerge c =>
        have := (od.merge c rfl).1
        rw [hn1.cutoff] at this
        cases this
    subst hfin
    have hf : finishLoop sepf (r1.rest.length + 1) r1 =
        some { r1 with st := st', out := r1.out ++ leaves.map .new } := by
      simp only [finishLoop, ed]
    rw [hf] at h
    simp only [Option.some.injEq, Prod.mk.injEq] at h
    obtain ⟨hout, _⟩ := h
    rw [hn1.out, hn1.rest] at hout
    simp only [List.nil_append, List.map_nil, List.append_nil] at hout
    subst hout
    have hchain := (od.fin rfl).2.2.2
    have hsep0 : separator r1.st = 0 := by simp [separator, hn1.sepOv, hn1.base]
    rw [hsep0] at hchain
    constructor
    · intro o ho
      cases leaves with
      | nil => cases ho
      | cons l t =>
        simp only [List.map_cons, List.head?_cons, Option.some.injEq] at ho
        subst ho
        cases t with
        | nil => exact hchain.1
        | cons l2 t2 => exact hchain.1
    · intro l hl
      obtain ⟨y, _, e⟩ := List.mem_map.1 hl
      cases e

end Nomt.StageGlue
