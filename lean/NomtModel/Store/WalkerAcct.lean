import NomtModel.Store.WalkerModel
/-!
# The accounting behind `new_parent_children_leaves_counter ≥ 0`

When a page `c` is elided, `handle_elision_threshold` replaces, in the counter of its parent `P`, what `c` weighed when it was
loaded (`page_leaves_counter + prev_children_leaves_counter`) by what it weighs now.  The subtraction cannot go below zero
as long as the counter of `P` still covers the old weight of every reconstructed child of `P` that has not been left yet
(`restSum`), which holds when `P` was loaded if the page set is consistent (`originOK`: the `children_leaves_counter` of a
reconstructed page is at least the sum of the old weights of its reconstructed children — what `reconstruct_pages` produces)
and is kept by every step because no page is left twice.
-/
namespace Nomt.Walker
open Nomt Nomt.TriePos

variable {Node : Type}

/-- the weight a reconstructed page of the page set carries: `page_leaves_counter + children_leaves_counter` (`0` for a
page that is absent or was loaded from the hash table) -/
def oldTot (ps : PageSet Node) (P : PageId) : Nat :=
  match ps.get P with
  | some (_, .reconstructed pl cl _) => pl + cl
  | _ => 0

/-- the `children_leaves_counter` a reconstructed page of the page set carries -/
def oldCl (ps : PageSet Node) (P : PageId) : Nat :=
  match ps.get P with
  | some (_, .reconstructed _ cl _) => cl
  | _ => 0

/-- the old weights of the child pages of `P` that are not among `ids` -/
def restSum (ps : PageSet Node) (ids : List PageId) (P : PageId) : Nat :=
  ((List.range 64).map (fun ci => if P ++ [ci] ∈ ids then 0 else oldTot ps (P ++ [ci]))).sum

/-- the old weights of all child pages of `P` -/
def fullSum (ps : PageSet Node) (P : PageId) : Nat := restSum ps [] P

/-- **the consistency of the counters of the page set at `P`** (decidable): a page that is not loaded from the hash table —
reconstructed, or absent — accounts for its reconstructed children.  This is what the oracle `C02 recon counters` checks of
the pages `reconstruct_pages` returns (there with equality). -/
def originOK (ps : PageSet Node) (P : PageId) : Bool :=
  match ps.get P with
  | some (_, .persisted _) => true
  | _ => decide (fullSum ps P ≤ oldCl ps P)

/-- `OriginsOK`: every page of the page set is consistent -/
def OriginsOK (ps : PageSet Node) : Prop := ∀ P, originOK ps P = true

theorem sum_map_le {α : Type} (f g : α → Nat) : ∀ (L : List α), (∀ x ∈ L, f x ≤ g x) → (L.map f).sum ≤ (L.map g).sum := by
  intro L
  induction L with
  | nil => intro _; exact Nat.le_refl _
  | cons x xs ih =>
    intro h
    simp only [List.map_cons, List.sum_cons]
    have := h x (List.mem_cons_self ..)
    have := ih (fun y hy => h y (List.mem_cons_of_mem _ hy))
    omega

theorem restSum_mono (ps : PageSet Node) (ids ids' : List PageId) (P : PageId) (h : ∀ i ∈ ids, i ∈ ids') :
    restSum ps ids' P ≤ restSum ps ids P := by
  unfold restSum
  apply sum_map_le
  intro ci _
  by_cases h1 : P ++ [ci] ∈ ids
  · rw [if_pos h1, if_pos (h _ h1)]; exact Nat.le_refl _
  · rw [if_neg h1]; split
    · exact Nat.zero_le _
    · exact Nat.le_refl _

theorem restSum_le_full (ps : PageSet Node) (ids : List PageId) (P : PageId) : restSum ps ids P ≤ fullSum ps P :=
  restSum_mono ps [] ids P (fun i hi => by cases hi)

theorem sum_map_split {f f' : Nat → Nat} (c g : Nat) (hc : f c = g) (hc' : f' c = 0) (hne : ∀ x, x ≠ c → f' x = f x) :
    ∀ (L : List Nat), L.Nodup → c ∈ L → (L.map f').sum + g = (L.map f).sum := by
  intro L
  induction L with
  | nil => intro _ h; cases h
  | cons x xs ih =>
    intro hnd hmem
    rw [List.nodup_cons] at hnd
    simp only [List.map_cons, List.sum_cons]
    by_cases hx : x = c
    · subst hx
      have hrest : (xs.map f').sum = (xs.map f).sum := by
        congr 1
        apply List.map_congr_left
        intro y hy
        exact hne y (fun e => hnd.1 (e ▸ hy))
      rw [hc', hc, hrest]; omega
    · have hcm : c ∈ xs := by
        rcases List.mem_cons.mp hmem with e | e
        · exact absurd e.symm hx
        · exact e
      have := ih hnd.2 hcm
      rw [hne x hx]; omega

/-- leaving the child `P ++ [ci]` takes exactly its old weight out of the rest -/
theorem restSum_leave (ps : PageSet Node) (ids : List PageId) (P : PageId) (ci : Nat) (hci : ci < 64)
    (hnot : P ++ [ci] ∉ ids) :
    restSum ps (ids ++ [P ++ [ci]]) P + oldTot ps (P ++ [ci]) = restSum ps ids P := by
  unfold restSum
  apply sum_map_split ci (oldTot ps (P ++ [ci]))
  · rw [if_neg hnot]
  · rw [if_pos (by simp)]
  · intro x hx
    have hxe : P ++ [x] ≠ P ++ [ci] := by
      intro e
      have := List.append_cancel_left e
      simp at this
      exact hx this
    by_cases h1 : P ++ [x] ∈ ids
    · rw [if_pos h1, if_pos (by simp [h1])]
    · rw [if_neg h1, if_neg (by simp [h1, hxe])]
  · exact List.nodup_range
  · exact List.mem_range.mpr hci

theorem oldTot_le_restSum (ps : PageSet Node) (ids : List PageId) (P : PageId) (ci : Nat) (hci : ci < 64)
    (hnot : P ++ [ci] ∉ ids) : oldTot ps (P ++ [ci]) ≤ restSum ps ids P := by
  have := restSum_leave ps ids P ci hci hnot
  omega

theorem sum_map_zero {α : Type} (f : α → Nat) : ∀ (L : List α), (∀ x ∈ L, f x = 0) → (L.map f).sum = 0 := by
  intro L
  induction L with
  | nil => intro _; rfl
  | cons x xs ih =>
    intro h
    simp only [List.map_cons, List.sum_cons]
    rw [h x (List.mem_cons_self ..), ih (fun y hy => h y (List.mem_cons_of_mem _ hy))]

/-- no reconstructed child below `P`: nothing to account for -/
theorem fullSum_zero_of_children (ps : PageSet Node) (P : PageId) (h : ∀ ci, oldTot ps (P ++ [ci]) = 0) :
    fullSum ps P = 0 := by
  unfold fullSum restSum
  apply sum_map_zero
  intro ci _
  simp only [List.not_mem_nil, if_false]
  exact h ci

/-- a page set without reconstructed pages is consistent -/
theorem originsOK_of_no_recon (ps : PageSet Node)
    (h : ∀ P pg pl cl d, ps.get P ≠ some (pg, .reconstructed pl cl d)) : OriginsOK ps := by
  have htot : ∀ P, oldTot ps P = 0 := by
    intro P
    unfold oldTot
    cases hg : ps.get P with
    | none => rfl
    | some x =>
      obtain ⟨pg, o⟩ := x
      cases o with
      | persisted b => rfl
      | reconstructed pl cl d => exact absurd hg (h P pg pl cl d)
  intro P
  unfold originOK
  have hz := fullSum_zero_of_children ps P (fun ci => htot _)
  cases hg : ps.get P with
  | none => simp only [decide_eq_true_eq]; omega
  | some x =>
    obtain ⟨pg, o⟩ := x
    cases o with
    | persisted b => rfl
    | reconstructed pl cl d => exact absurd hg (h P pg pl cl d)

/-- the accounting of one stack page: what it weighed when it was loaded is at most what the page set says, and its counter
(the current one, and the one it was loaded with) covers the old weights of its children that have not been left -/
def Acct (ps : PageSet Node) (ids : List PageId) (sp : StackPage Node) : Prop :=
  (∀ pc, sp.prevChildrenLeaves = some pc → sp.pageLeaves.getD 0 + pc ≤ oldTot ps sp.pageId) ∧
  (∀ cur, sp.childrenLeaves.or sp.prevChildrenLeaves = some cur → restSum ps ids sp.pageId ≤ cur) ∧
  (∀ pc, sp.prevChildrenLeaves = some pc → restSum ps ids sp.pageId ≤ pc)

theorem Acct.mono {ps : PageSet Node} {ids ids' : List PageId} {sp : StackPage Node} (h : Acct ps ids sp)
    (hsub : ∀ i ∈ ids, i ∈ ids') : Acct ps ids' sp :=
  ⟨h.1, fun cur hc => Nat.le_trans (restSum_mono ps ids ids' sp.pageId hsub) (h.2.1 cur hc),
    fun pc hc => Nat.le_trans (restSum_mono ps ids ids' sp.pageId hsub) (h.2.2 pc hc)⟩

theorem Acct.of_fields {ps : PageSet Node} {ids : List PageId} {sp sp' : StackPage Node} (h : Acct ps ids sp)
    (e1 : sp'.pageId = sp.pageId) (e2 : sp'.prevChildrenLeaves = sp.prevChildrenLeaves)
    (e3 : sp'.pageLeaves = sp.pageLeaves) (e4 : sp'.childrenLeaves = sp.childrenLeaves) : Acct ps ids sp' := by
  unfold Acct
  rw [e1, e2, e3, e4]; exact h

/-- a page whose counters are wiped -/
theorem acct_wiped (ps : PageSet Node) (ids : List PageId) (sp : StackPage Node)
    (h1 : sp.prevChildrenLeaves = none) (h2 : sp.childrenLeaves = none) : Acct ps ids sp := by
  refine ⟨?_, ?_, ?_⟩
  · intro pc h; rw [h1] at h; cases h
  · intro cur h; rw [h1, h2] at h; cases h
  · intro pc h; rw [h1] at h; cases h

/-- the parent of a page that is kept: the current counter goes, the previous one goes or stays -/
theorem acct_kept {ps : PageSet Node} {ids : List PageId} {sp sp' : StackPage Node} (h : Acct ps ids sp)
    (e1 : sp'.pageId = sp.pageId) (e2 : sp'.prevChildrenLeaves = sp.prevChildrenLeaves ∨ sp'.prevChildrenLeaves = none)
    (e3 : sp'.pageLeaves = sp.pageLeaves) (e4 : sp'.childrenLeaves = none) : Acct ps ids sp' := by
  rcases e2 with e2 | e2
  · refine ⟨?_, ?_, ?_⟩
    · intro pc hpc; rw [e3, e1]; exact h.1 pc (by rw [← e2]; exact hpc)
    · intro cur hc
      rw [e4] at hc
      rw [e1]
      exact h.2.2 cur (by rw [← e2]; exact hc)
    · intro pc hpc; rw [e1]; exact h.2.2 pc (by rw [← e2]; exact hpc)
  · exact acct_wiped ps ids sp' e2 e4

/-- a page as `StackPage::new` loads it from the page set -/
theorem acct_new (ps : PageSet Node) (ids : List PageId) (P : PageId) (pg : Page Node) (d : Wal.PageDiff) (o : Origin)
    (hget : ps.get P = some (pg, o)) (hok : originOK ps P = true) : Acct ps ids (StackPage.new P pg d o) := by
  cases o with
  | persisted b => exact acct_wiped ps ids _ rfl rfl
  | reconstructed pl cl dd =>
    have hcl : oldCl ps P = cl := by unfold oldCl; rw [hget]
    have htot : oldTot ps P = pl + cl := by unfold oldTot; rw [hget]
    have hfull : fullSum ps P ≤ cl := by
      unfold originOK at hok
      rw [hget] at hok
      simp only [decide_eq_true_eq] at hok
      rw [hcl] at hok; exact hok
    have e : StackPage.new P pg d (.reconstructed pl cl dd) =
        { pageId := P, page := pg, diff := d, bucket := none, pageLeaves := some pl,
          prevChildrenLeaves := some cl, childrenLeaves := none, elided := pg.elided, reconDiff := some dd } := rfl
    rw [e]
    unfold Acct
    simp only
    have hr := Nat.le_trans (restSum_le_full ps ids P) hfull
    refine ⟨?_, ?_, ?_⟩
    · intro pc h
      have := Option.some.inj h
      subst this
      rw [htot]; simp
    · intro cur h
      have : cl = cur := Option.some.inj h
      subst this; exact hr
    · intro pc h
      have := Option.some.inj h
      subst this; exact hr

/-- a page created by `down(.., fresh = true)`: nothing of the page set hangs below it -/
theorem acct_fresh (ps : PageSet Node) (ids : List PageId) (P : PageId) (pg : Page Node) (hz : fullSum ps P = 0) :
    Acct ps ids (StackPage.new P pg Wal.PageDiff.empty freshOrigin) := by
  have e : StackPage.new P pg Wal.PageDiff.empty freshOrigin =
      { pageId := P, page := pg, diff := Wal.PageDiff.empty, bucket := none, pageLeaves := some 0,
        prevChildrenLeaves := some 0, childrenLeaves := none, elided := pg.elided,
        reconDiff := some Wal.PageDiff.empty } := rfl
  rw [e]
  unfold Acct
  simp only
  have h1 := restSum_le_full ps ids P
  rw [hz] at h1
  refine ⟨?_, ?_, ?_⟩
  · intro pc h
    have := Option.some.inj h
    subst this
    exact Nat.zero_le _
  · intro cur _
    exact Nat.le_trans h1 (Nat.zero_le _)
  · intro pc _
    exact Nat.le_trans h1 (Nat.zero_le _)

end Nomt.Walker
