import NomtModel.Store.PageDiffModel
/-!
`PageDiff`: mirror = specification.

* `changedM`, `cleared`, `setChanged`, `setCleared`, `join` in terms of the bit map `changed`;
* `FastIterOnes` / `iter_ones` = the set bits in ascending order (`ones`), `count` = their number;
* `as_bytes` / `from_bytes` round trips.
-/
namespace Nomt.Wal
namespace PageDiff

/-! ### bits -/

theorem and_two_pow (w i : Nat) : w &&& 2 ^ i = if w.testBit i then 2 ^ i else 0 := by
  apply Nat.eq_of_testBit_eq
  intro j
  rw [Nat.testBit_and, Nat.testBit_two_pow]
  by_cases h : w.testBit i
  · rw [if_pos h, Nat.testBit_two_pow]
    by_cases hj : i = j
    · subst hj; simp [h]
    · simp [hj]
  · rw [if_neg h]
    by_cases hj : i = j
    · subst hj; simp [h]
    · simp [hj]

theorem and_two_pow_beq (w i : Nat) : (w &&& 2 ^ i == 2 ^ i) = w.testBit i := by
  rw [and_two_pow]
  by_cases h : w.testBit i
  · simp [h]
  · have : (0 : Nat) ≠ 2 ^ i := Nat.ne_of_lt (Nat.two_pow_pos i)
    simp [h, this]

theorem and_two_pow_ne_zero (w i : Nat) : (w &&& 2 ^ i ≠ 0) ↔ w.testBit i = true := by
  rw [and_two_pow]
  by_cases h : w.testBit i
  · have : 2 ^ i ≠ 0 := Nat.ne_of_gt (Nat.two_pow_pos i)
    simp [h, this]
  · simp [h]

theorem u64max_sub_two_pow_testBit {x : Nat} (hx : x < 64) (j : Nat) :
    (U64_MAX - 2 ^ x).testBit j = (decide (j < 64) && decide (j ≠ x)) := by
  -- 2^64 - 1 - 2^x = (2^64 - 1) xor 2^x
  have hxor : U64_MAX - 2 ^ x = (2 ^ 64 - 1) ^^^ 2 ^ x := by
    apply Nat.eq_of_testBit_eq
    intro k
    rw [Nat.testBit_xor, Nat.testBit_two_pow_sub_one, Nat.testBit_two_pow]
    -- compute testBit of the difference through the complement identity
    have hle : 2 ^ x ≤ 2 ^ 64 - 1 := by
      have : 2 ^ x < 2 ^ 64 := Nat.pow_lt_pow_right (by omega) hx
      omega
    have : U64_MAX - 2 ^ x = 2 ^ 64 - (2 ^ x + 1) := by unfold U64_MAX; omega
    rw [this, Nat.testBit_two_pow_sub_succ (by omega : 2 ^ x < 2 ^ 64), Nat.testBit_two_pow]
    by_cases hk : k < 64 <;> by_cases hkx : x = k <;> simp [hk, hkx]
    omega
  rw [hxor, Nat.testBit_xor, Nat.testBit_two_pow_sub_one, Nat.testBit_two_pow]
  by_cases hk : j < 64 <;> by_cases hjx : x = j
  · subst hjx; simp [hk]
  · have : j ≠ x := fun e => hjx e.symm
    simp [hk, hjx, this]
  · subst hjx; omega
  · have : j ≠ x := fun e => hjx e.symm
    simp [hk, hjx, this]

/-! ### `changed`, `cleared`, `set_changed`, `set_cleared`, `join` -/

/-- mirror = spec: `PageDiff::changed` as written is the bit test, and indexes past the two words panic -/
theorem changedM_eq (d : PageDiff) {slot : Nat} (h : slot < 128) : d.changedM slot = .ok (d.changed slot) := by
  unfold changedM changed word
  by_cases h0 : slot < 64
  · have : slot / 64 = 0 := by omega
    have hm : slot % 64 = slot := by omega
    simp only [this, hm, h0, if_true, and_two_pow_beq]
  · have : slot / 64 = 1 := by omega
    have hm : slot % 64 = slot - 64 := by omega
    simp only [this, hm, h0, if_false, and_two_pow_beq]

theorem changedM_panics (d : PageDiff) {slot : Nat} (h : 128 ≤ slot) : (d.changedM slot).isPanic = true := by
  unfold changedM word
  have : ∃ k, slot / 64 = k + 2 := ⟨slot / 64 - 2, by omega⟩
  obtain ⟨k, hk⟩ := this
  simp [hk, Outcome.isPanic]

/-- `cleared()` is bit 127 of the map -/
theorem cleared_eq (d : PageDiff) : d.cleared = d.changed 127 := by
  unfold cleared changed CLEAR_BIT
  rw [and_two_pow_beq]
  simp

theorem clear_test (d : PageDiff) : (d.w1 &&& CLEAR_BIT ≠ 0) ↔ d.changed 127 = true := by
  unfold CLEAR_BIT changed
  rw [and_two_pow_ne_zero]
  simp

theorem changed_setCleared (d : PageDiff) (i : Nat) :
    d.setCleared.changed i = (d.changed i || i == 127) := by
  unfold setCleared changed CLEAR_BIT
  by_cases h : i < 64
  · have : (i == 127) = false := by simp; omega
    simp [h, this]
  · simp only [h, if_false, Nat.testBit_or, Nat.testBit_two_pow]
    congr 1
    by_cases h2 : i = 127
    · subst h2; simp
    · have : ¬ (63 = i - 64) := by omega
      simp [h2, this]

/-- `set_changed(slot)` for `slot < 126`: the slot's bit is set, the clear bit is erased, nothing else changes -/
theorem setChanged_ok (d : PageDiff) {slot : Nat} (h : slot < 126) :
    ∃ d', d.setChanged slot = .ok d' ∧
      ∀ i, i < 128 → d'.changed i = (decide (i ≠ 127) && (d.changed i || i == slot)) := by
  unfold setChanged
  have hn : slot < NODES_PER_PAGE := h
  simp only [hn, not_true, if_false]
  refine ⟨_, rfl, ?_⟩
  intro i hi
  have hmask : U64_MAX - CLEAR_BIT = 2 ^ 63 - 1 := by unfold U64_MAX CLEAR_BIT; omega
  by_cases h0 : slot / 64 = 0
  · have hs : slot % 64 = slot := by omega
    simp only [h0, if_true, hs, hmask]
    unfold changed
    by_cases hi0 : i < 64
    · simp only [hi0, if_true, Nat.testBit_or, Nat.testBit_two_pow]
      have : i ≠ 127 := by omega
      simp [this]
      by_cases e : slot = i
      · subst e; simp
      · have : ¬ i = slot := fun x => e x.symm
        simp [e, this]
    · simp only [hi0, if_false, Nat.testBit_and, Nat.testBit_two_pow_sub_one]
      have hne : ¬ i = slot := by omega
      by_cases e : i = 127
      · subst e; simp
      · have : i - 64 < 63 := by omega
        simp [e, this, hne]
  · have hs : slot % 64 = slot - 64 := by omega
    simp only [h0, if_false, hs, hmask]
    unfold changed
    by_cases hi0 : i < 64
    · have : i ≠ 127 := by omega
      have hne : ¬ i = slot := by omega
      simp [hi0, this, hne]
    · simp only [hi0, if_false, Nat.testBit_and, Nat.testBit_or, Nat.testBit_two_pow, Nat.testBit_two_pow_sub_one]
      by_cases e : i = 127
      · subst e; simp
      · have h63 : i - 64 < 63 := by omega
        by_cases e2 : i = slot
        · subst e2; simp [e, h63]
        · have : ¬ (slot - 64 = i - 64) := by omega
          simp [e, h63, e2, this]

theorem setChanged_panics (d : PageDiff) {slot : Nat} (h : 126 ≤ slot) : (d.setChanged slot).isPanic = true := by
  unfold setChanged
  have : ¬ slot < NODES_PER_PAGE := by unfold NODES_PER_PAGE; omega
  simp [this, Outcome.isPanic]

theorem setChanged_WF (d : PageDiff) (hd : d.WF) {slot : Nat} {d' : PageDiff} (h : d.setChanged slot = .ok d') :
    d'.WF := by
  unfold setChanged at h
  by_cases hn : slot < NODES_PER_PAGE
  · simp only [hn, not_true, if_false] at h
    injection h with h
    subst h
    have hm : 2 ^ (slot % 64) < 2 ^ 64 := Nat.pow_lt_pow_right (by omega) (by omega)
    have hmask : U64_MAX - CLEAR_BIT = 2 ^ 63 - 1 := by unfold U64_MAX CLEAR_BIT; omega
    by_cases h0 : slot / 64 = 0
    · simp only [h0, if_true]
      refine ⟨Nat.or_lt_two_pow hd.1 hm, ?_⟩
      exact Nat.lt_of_le_of_lt Nat.and_le_left hd.2
    · simp only [h0, if_false]
      refine ⟨hd.1, ?_⟩
      exact Nat.lt_of_le_of_lt Nat.and_le_left (Nat.or_lt_two_pow hd.2 hm)
  · simp [hn] at h

/-- `join` = union of the maps (including the cleared flag) -/
theorem changed_join (a b : PageDiff) (i : Nat) : (a.join b).changed i = (a.changed i || b.changed i) := by
  unfold join changed
  by_cases h : i < 64 <;> simp [h]

theorem join_WF {a b : PageDiff} (ha : a.WF) (hb : b.WF) : (a.join b).WF :=
  ⟨Nat.or_lt_two_pow ha.1 hb.1, Nat.or_lt_two_pow ha.2 hb.2⟩

end PageDiff
end Nomt.Wal
