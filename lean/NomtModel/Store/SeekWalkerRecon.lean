import NomtModel.Store.SeekReconOK
import NomtModel.Store.WalkerReconRun
/-!
# The contract `ReconOK` of the seek, discharged by the mirror of `page_walker::reconstruct_pages`

`walkerRecon` = the MIRROR `Walker.reconstructPages` (`Store/WalkerModel.lean`, the statement-by-statement mirror of
`page_walker.rs`) run on the seek's page set, followed by the `page_set.insert` loop of `continue_leaves_fetch`.  The walker
sees the WORKING map of the page set (`reconstruct` asks `page_set.contains`, which looks at the working map only, and `get`s
nothing but the page it has just inserted there); pool pages (`PageSet::fresh`) hold arbitrary content `fresh`.

`walkerRecon_ok`: in every world whose other hypotheses hold (`World.Pre` = `World.OK` without the contract), `walkerRecon`
fulfils `ReconOK` — by `Walker.reconstructPages_correct`.
-/
namespace Nomt.Seek
open Nomt Nomt.Ovl Nomt.TriePos

variable {Node VH V : Type} [DecidableEq Node] [DecidableEq VH]

/-- a seek page as the walker sees it -/
def toWPage (pg : MPage Node) : Walker.Page Node := ⟨(List.range 126).map pg.nodes, pg.elided⟩

/-- a walker page as the seek sees it -/
def ofWPage (H : Hasher Node VH) (pg : Walker.Page Node) : MPage Node := ⟨fun i => pg.nodes.getD i H.term, pg.elided⟩

def toWOrigin : Origin → Walker.Origin
  | .persisted => .persisted none
  | .reconstructed => .reconstructed 0 0 Wal.PageDiff.empty

/-- the working map of the page set as the walker's `PageSet` -/
def toWSet (fresh : PageId → List Node) (ps : PageSet Node) : Walker.PageSet Node :=
  { get := fun P => (ps.map.lookup P).map (fun x => (toWPage x.1, toWOrigin x.2)), fresh := fresh }

/-- the `for (page_id, page, …) in pages { page_set.insert(…) }` loop of `continue_leaves_fetch` -/
def insertAll (H : Hasher Node VH) (ps : PageSet Node) (l : List (Walker.Reconstructed Node)) : PageSet Node :=
  l.foldl (fun m r => m.insert r.pageId (ofWPage H r.page) .reconstructed) ps

/-- `reconstruct_pages` (the mirror) + the insert loop -/
def walkerRecon (H : Hasher Node VH) (fresh : PageId → List Node) :
    MPage Node → PageId → Pos → PageSet Node → List (Key × VH) → Outcome Unit (PageSet Node) :=
  fun page pid pos ps leaves =>
    match Walker.reconstructPages H (toWPage page) pid pos (toWSet fresh ps) leaves with
    | .ok (_, none) => .ok ps
    | .ok (_, some l) => .ok (insertAll H ps l)
    | .panic s => .panic s
    | .err e => .err e

/-- the hypotheses of the seek theorems without the contract of `reconstruct_pages` -/
structure World.Pre (W : World Node VH V) : Prop where
  sound : W.H.Sound
  kind : W.env.kind = W.H.kind
  root : W.env.root = nodeAt W.H KEY_BITS 0 W.view
  prim : OvSorted W.env.primary
  sec : OvSorted W.env.secondary
  leaves : LeavesOK W.env.leaves
  firstSep : ∀ l ∈ W.env.leaves.head?, ∀ k : Key, k.length = KEY_BITS → bitsLt k l.sep = false
  ov : OvSorted W.env.ov
  viewEq : W.view = kvApply (vhMap W.env.vh (baseOf W.env.primary W.env.secondary W.env.leaves)) W.env.ov
  viewLen : ∀ kv ∈ W.view, kv.1.length = KEY_BITS
  baseLen : ∀ kv ∈ baseOf W.env.primary W.env.secondary W.env.leaves, kv.1.length = KEY_BITS
  ovLen : ∀ e ∈ W.env.ov, e.1.length = KEY_BITS
  rep : Rep W

theorem World.OK.ofPre {W : World Node VH V} (h : W.Pre) (hr : ReconOK W) : W.OK :=
  ⟨h.sound, h.kind, h.root, h.prim, h.sec, h.leaves, h.firstSep, h.ov, h.viewEq, h.viewLen, h.baseLen, h.ovLen, h.rep, hr⟩

theorem World.OK.toPre {W : World Node VH V} (h : W.OK) : W.Pre :=
  ⟨h.sound, h.kind, h.root, h.prim, h.sec, h.leaves, h.firstSep, h.ov, h.viewEq, h.viewLen, h.baseLen, h.ovLen, h.rep⟩

theorem World.Pre.sortedKV {W : World Node VH V} (h : W.Pre) : SortedKV W.view := by
  have hs : KSorted W.view := by
    rw [h.viewEq]
    exact kvApply_sorted (ksorted_vhMap _ (kvApply_sorted (flat_sorted h.leaves) _)) _
  unfold SortedKV
  unfold KSorted at hs
  refine List.Pairwise.imp_of_mem ?_ hs
  intro a b ha hb hab
  exact bl_lexLt a.1 b.1 (by rw [h.viewLen a ha, h.viewLen b hb]) hab

/-- the leaves below a position are a canonical set of 256-bit keys -/
theorem World.Pre.keysOK {W : World Node VH V} (h : W.Pre) (p : List Bool) : Walker.KeysOK (under p W.view) := by
  have hsub : (under p W.view).Sublist W.view := by
    unfold under; rw [restrict_eq_filterD]; exact List.filter_sublist
  have hlen : ∀ kv ∈ under p W.view, kv.1.length = 256 := fun kv hkv => h.viewLen kv (hsub.subset hkv)
  refine ⟨?_, hlen⟩
  apply canon_of_sorted 256 0 _ []
  · exact List.Pairwise.sublist hsub h.sortedKV
  · intro kv hkv; rw [hlen kv hkv]
  · intro kv _; rfl

/-! ### the page set after the insert loop -/

theorem insertAll_get (H : Hasher Node VH) : ∀ (l : List (Walker.Reconstructed Node)) (ps : PageSet Node) (Q : PageId),
    (∃ r ∈ l, r.pageId = Q ∧ (insertAll H ps l).get Q = some (ofWPage H r.page, .reconstructed)) ∨
    ((∀ r ∈ l, r.pageId ≠ Q) ∧ (insertAll H ps l).get Q = ps.get Q) := by
  intro l
  induction l with
  | nil => intro ps Q; exact Or.inr ⟨fun r hr => (by cases hr), rfl⟩
  | cons r rest ih =>
    intro ps Q
    have e : insertAll H ps (r :: rest) = insertAll H (ps.insert r.pageId (ofWPage H r.page) .reconstructed) rest := rfl
    rw [e]
    rcases ih (ps.insert r.pageId (ofWPage H r.page) .reconstructed) Q with ⟨r', hr', h1, h2⟩ | ⟨h1, h2⟩
    · exact Or.inl ⟨r', List.mem_cons_of_mem _ hr', h1, h2⟩
    · rw [get_insert] at h2
      by_cases hq : Q = r.pageId
      · rw [if_pos hq] at h2
        exact Or.inl ⟨r, by simp, hq.symm, h2⟩
      · rw [if_neg hq] at h2
        refine Or.inr ⟨?_, h2⟩
        intro r' hr'
        rcases List.mem_cons.mp hr' with e' | hr''
        · rw [e']; exact fun h => hq h.symm
        · exact h1 r' hr''

theorem toWPage_getNode (H : Hasher Node VH) (pg : MPage Node) (i : Nat) (n : Node) (h : pg.node i = some n) :
    (toWPage pg).getNode H i = .ok n := by
  unfold MPage.node at h
  unfold Walker.Page.getNode toWPage
  by_cases hi : i < NODES_PER_PAGE
  · rw [if_pos hi] at h
    have hi' : i < 126 := hi
    rw [if_pos (by exact hi')]
    simp only
    rw [List.getD_eq_getElem?_getD, List.getElem?_map, List.getElem?_range hi']
    simp only [Option.map_some, Option.getD_some]
    rw [Option.some.inj h]
  · rw [if_neg hi] at h; cases h

theorem toWSet_contains (fresh : PageId → List Node) (ps : PageSet Node) (P : PageId) :
    (toWSet fresh ps).contains P = ps.contains P := by
  unfold Walker.PageSet.contains toWSet PageSet.contains
  cases h : ps.map.lookup P <;> simp [h]

theorem under_mono_length (p y : List Bool) (s : List (Key × VH)) : (under (p ++ y) s).length ≤ (under p s).length := by
  rw [← under_under p y s]
  exact under_length_le _ _

/-- a position whose page is the page with prefix `c` lies below `c`, and so does its parent position -/
theorem prefix_of_specPage (bs c : List Bool) (hc6 : c.length % 6 = 0) (h : specPage bs = sextetsOf c) :
    c <+: bs.dropLast := by
  have h1 : pidBits (specPage bs) = bs.take (specPageBits bs.length) := pidBits_specPage bs
  rw [h, pidBits_sextetsOf c hc6] at h1
  have hk : specPageBits bs.length ≤ bs.length - 1 := by unfold specPageBits; omega
  rw [h1, List.dropLast_eq_take]
  have : bs.take (specPageBits bs.length) = (bs.take (bs.length - 1)).take (specPageBits bs.length) := by
    rw [List.take_take, Nat.min_eq_left hk]
  rw [this]
  exact List.take_prefix _ _

theorem wspecNode_eq (H : Hasher Node VH) (view : List (Key × VH)) (p y : List Bool) :
    Walker.specNode H (under p view) (p ++ y) = specNode H view (p ++ y) := by
  unfold Walker.specNode Walker.sub specNode
  show nodeAt H _ _ (under (p ++ y) (under p view)) = _
  rw [under_under]
  rfl

/-- **the mirror of `reconstruct_pages` fulfils the contract the seek theorems assumed** -/
theorem walkerRecon_ok (W : World Node VH V) (hpre : W.Pre) (fresh : PageId → List Node)
    (hfresh : ∀ P, (fresh P).length = 126) (hrec : W.env.recon = walkerRecon W.H fresh) : ReconOK W := by
  intro page P pos ps hwf hne h6 hP
  subst hP
  rw [hrec]
  have hplen := pos.path_length hwf
  have h1 : 1 ≤ pos.depth := by
    rcases Nat.eq_zero_or_pos pos.depth with h | h
    · rw [h] at hplen; exact absurd (List.length_eq_zero_iff.mp hplen) hne
    · exact h
  have hp6 : pos.path.length % 6 = 0 := by rw [hplen]; exact h6
  have hidx : pos.nodeIndex < NODES_PER_PAGE := by rw [hwf.idx]; exact specIndex_lt _ hne
  have hchild : childPageId (specPage pos.path) (loadBE (lp pos.path)) = .ok (sextetsOf pos.path) := by
    unfold childPageId MAX_PAGE_DEPTH
    have hKB : KEY_BITS = 256 := rfl
    have := hwf.depthLe
    rw [if_neg (by rw [specPage_length, hplen]; omega), ← sextetsOf_bottom _ hp6 hne]
  refine ⟨?_, ?_⟩
  · -- the first elided page is in the working map already: nothing happens
    intro hc leaves
    obtain ⟨n, hn⟩ : ∃ n, (toWPage page).getNode W.H pos.nodeIndex = .ok n :=
      ⟨_, toWPage_getNode W.H page _ _ (by unfold MPage.node; rw [if_pos hidx])⟩
    have hrf : Walker.reconFirst W.H (toWSet fresh ps) (some (specPage pos.path)) pos = .ok none := by
      unfold Walker.reconFirst
      simp only
      rw [childPageIndex_eq pos hwf h1 h6]
      simp only
      rw [hchild]
      simp only
      rw [toWSet_contains, hc]
      rfl
    unfold walkerRecon Walker.reconstructPages
    rw [hn]
    simp only
    unfold Walker.Walker.reconstruct
    rw [if_neg (by simp [Walker.Walker.newReconstructor, Walker.Walker.newInner])]
    have hpp : (Walker.Walker.newReconstructor n (specPage pos.path)).parentPage = some (specPage pos.path) := rfl
    rw [hpp, hrf]
  · intro hc h2 hsmall hnode hps
    have hk : Walker.KeysOK (under pos.path W.view) := hpre.keysOK pos.path
    have hrp : Walker.ReconPre W.H (toWSet fresh ps) pos (under pos.path W.view) :=
      ⟨hpre.sound, hk, hwf, hne, h6, under_under_self _ _, h2, hsmall, hfresh, by rw [toWSet_contains]; exact hc⟩
    have hspec0 : Walker.specNode W.H (under pos.path W.view) pos.path = specNode W.H W.view pos.path := by
      have := wspecNode_eq W.H W.view pos.path []
      simpa using this
    obtain ⟨l, Lc, hrun, hids, hB, hall⟩ := Walker.reconstructPages_correct W.H hrp (toWPage page)
      (by rw [hspec0]; exact toWPage_getNode W.H page _ _ hnode)
    have hres : walkerRecon W.H fresh page (specPage pos.path) pos ps (under pos.path W.view) =
        .ok (insertAll W.H ps l) := by
      unfold walkerRecon
      rw [hrun]
    -- the pages of the list are in the new page set
    have hin : ∀ c ∈ Lc, ∃ r ∈ l, r.pageId = sextetsOf c ∧
        (insertAll W.H ps l).get (sextetsOf c) = some (ofWPage W.H r.page, .reconstructed) := by
      intro c hc'
      have hmem : sextetsOf c ∈ l.map (·.pageId) := by rw [hids]; exact List.mem_map_of_mem hc'
      rcases insertAll_get W.H l ps (sextetsOf c) with ⟨r, hr, e1, e2⟩ | ⟨hno, _⟩
      · exact ⟨r, hr, e1, e2⟩
      · obtain ⟨r, hr, e⟩ := List.mem_map.mp hmem
        exact absurd e (hno r hr)
    have hext : Ext ps (insertAll W.H ps l) := by
      intro Q ⟨x, hx⟩
      rcases insertAll_get W.H l ps Q with ⟨r, _, _, e2⟩ | ⟨_, e2⟩
      · exact ⟨_, e2⟩
      · exact ⟨x, by rw [e2]; exact hx⟩
    have hpLc : pos.path ∈ Lc := (hB.2 pos.path).mpr ⟨List.prefix_refl _, hp6, by
      have := hwf.depthLe
      have hKB : KEY_BITS = 256 := rfl
      rw [hplen]; omega, by
      show 2 ≤ (under pos.path (under pos.path W.view)).length
      rw [under_under_self]; exact h2⟩
    refine ⟨_, hres, ?_, hext, ?_⟩
    · -- every page of the new page set is good
      intro Q pg o hq
      rcases insertAll_get W.H l ps Q with ⟨r, hr, hrQ, hget⟩ | ⟨_, hget⟩
      · rw [hget] at hq
        have hpg : pg = ofWPage W.H r.page := by injection hq with e; exact (Prod.mk.inj e).1.symm
        obtain ⟨c, hcL, hrc, hlen, hcontent, _, _⟩ := hall r hr
        obtain ⟨hpc, hc6, hcl, hc2⟩ := (hB.2 c).mp hcL
        have hQc : Q = sextetsOf c := by rw [← hrQ, hrc]
        -- positions of the page lie below `c`, hence below the position
        have hbelow : ∀ bs : List Bool, specPage bs = Q → ∃ y, bs.dropLast = pos.path ++ y := by
          intro bs hsp
          have := prefix_of_specPage bs c hc6 (by rw [hsp, hQc])
          obtain ⟨y1, hy1⟩ := hpc
          obtain ⟨y2, hy2⟩ := this
          exact ⟨y1 ++ y2, by rw [← hy2, ← hy1, List.append_assoc]⟩
        refine ⟨?_, ?_⟩
        · -- faithful
          intro bs hbne hbl hsp hthr
          obtain ⟨y, hy⟩ := hbelow bs hsp
          have hbs : bs = pos.path ++ (y ++ [bs.getLast hbne]) := by
            rw [← List.append_assoc, ← hy]; exact (List.dropLast_concat_getLast hbne).symm
          have hmean : Walker.Mean (under pos.path W.view) bs := by
            right
            show 2 ≤ (under bs.dropLast (under pos.path W.view)).length
            rw [hy, under_under]
            have hj := hthr (bs.length - 1) (by
              have := specPage_length bs
              rw [hsp] at this
              omega) (by
              have : 1 ≤ bs.length := List.length_pos_iff.mpr hbne
              omega)
            rw [← List.dropLast_eq_take, hy] at hj
            exact hj
          have := hcontent bs hbne hbl (by rw [hsp, hrQ]) hmean
          rw [hpg]
          show r.page.nodes.getD (specIndex bs) W.H.term = _
          rw [this, hbs]
          exact wspecNode_eq W.H W.view pos.path _
        · -- the children
          intro bs hl hlen hsp hthr h2c
          have hbne : bs ≠ [] := by intro e; rw [e] at hl; simp at hl
          obtain ⟨y, hy⟩ := hbelow bs hsp
          have hbs : bs = pos.path ++ (y ++ [bs.getLast hbne]) := by
            rw [← List.append_assoc, ← hy]; exact (List.dropLast_concat_getLast hbne).symm
          refine ⟨fun _ => ?_, fun _ => Or.inl ?_⟩
          · rw [hbs]
            exact Nat.lt_of_le_of_lt (under_mono_length _ _ _) hsmall
          · have hbL : bs ∈ Lc := (hB.2 bs).mpr ⟨⟨_, hbs.symm⟩, by rw [hl]; omega, hlen, by
              show 2 ≤ (under bs (under pos.path W.view)).length
              rw [hbs, under_under, ← hbs]; exact h2c⟩
            obtain ⟨r', _, _, e⟩ := hin bs hbL
            exact ⟨_, e⟩
      · rw [hget] at hq
        exact pgood_mono hext (hps Q pg o hq)
    · obtain ⟨r, _, _, e⟩ := hin pos.path hpLc
      exact ⟨_, e⟩

end Nomt.Seek
