import NomtModel.Store.FramePlacement
import NomtModel.Store.ImgLemmas
/-!
# Concrete page writes on a file (`ByteArray`) satisfy `Touched`

`writePage f pn c`: the file after `pwrite(c, 4096, pn * 4096)` — the page is replaced, or the file is extended with zeros up
to the page and the page appended.  `applyWrites f ws`: a list of page writes applied in order.  For ANY sub-list of any
write list the result is `Touched` on the written page numbers: torn executions (every page write applied or not).
-/
namespace Nomt.Store

def zeros (n : Nat) : ByteArray := (List.replicate n (0 : UInt8)).toByteArray

theorem size_zeros (n : Nat) : (zeros n).size = n := by simp [zeros, List.size_toByteArray]

def writePage (f : ByteArray) (pn : Nat) (c : ByteArray) : ByteArray :=
  if pn * PAGE ≤ f.size then f.extract 0 (pn * PAGE) ++ c ++ f.extract ((pn + 1) * PAGE) f.size
  else f ++ zeros (pn * PAGE - f.size) ++ c

theorem ba_eq_empty (x : ByteArray) (h : x.size = 0) : x = ByteArray.empty := by
  apply ByteArray.ext
  exact Array.eq_empty_of_size_eq_zero (by simpa using h)

theorem extract_append_left' {a b : ByteArray} {i j : Nat} (h : j ≤ a.size) : (a ++ b).extract i j = a.extract i j := by
  rw [ByteArray.extract_append]
  have : b.extract (i - a.size) (j - a.size) = ByteArray.empty := by
    apply ba_eq_empty; rw [ByteArray.size_extract]; omega
  rw [this, ByteArray.append_empty]

theorem extract_append_right' {a b : ByteArray} {i j : Nat} (h : a.size ≤ i) :
    (a ++ b).extract i j = b.extract (i - a.size) (j - a.size) := by
  rw [ByteArray.extract_append]
  have : a.extract i j = ByteArray.empty := by
    apply ba_eq_empty; rw [ByteArray.size_extract]; omega
  rw [this, ByteArray.empty_append]

theorem pageOf_eq_some {f : ByteArray} {q : Nat} {pg : ByteArray} (h : pageOf f q = some pg) :
    (q + 1) * PAGE ≤ f.size ∧ pg = f.extract (q * PAGE) ((q + 1) * PAGE) := by
  unfold pageOf at h
  by_cases hs : (q + 1) * PAGE ≤ f.size
  · rw [if_pos hs] at h
    injection h with h
    exact ⟨hs, h.symm⟩
  · rw [if_neg hs] at h; cases h

theorem succ_mul_page (n : Nat) : (n + 1) * PAGE = n * PAGE + PAGE := by rw [Nat.add_mul, Nat.one_mul]

theorem writePage_touched_in (f : ByteArray) (pn : Nat) (c : ByteArray) (hc : c.size = PAGE) (h : pn * PAGE ≤ f.size) :
    Touched f (f.extract 0 (pn * PAGE) ++ c ++ f.extract ((pn + 1) * PAGE) f.size) [pn] := by
  have hsa : (f.extract 0 (pn * PAGE)).size = pn * PAGE := by rw [ByteArray.size_extract]; omega
  have e := succ_mul_page pn
  generalize hX : pn * PAGE = X at *
  generalize hY : (pn + 1) * PAGE = Y at *
  constructor
  · simp only [ByteArray.size_append, ByteArray.size_extract, hc]; omega
  · intro q hq pg hpg
    have hne : q ≠ pn := by simpa using hq
    obtain ⟨hs, rfl⟩ := pageOf_eq_some hpg
    have e2 := succ_mul_page q
    rcases Nat.lt_or_gt_of_ne hne with hlt | hgt
    · have hle : (q + 1) * PAGE ≤ X := by rw [← hX]; exact Nat.mul_le_mul_right _ hlt
      have hsz : (q + 1) * PAGE ≤ (f.extract 0 X ++ c ++ f.extract Y f.size).size := by
        simp only [ByteArray.size_append, ByteArray.size_extract, hc]; omega
      rw [pageOf_some hsz]
      congr 1
      rw [ByteArray.append_assoc, extract_append_left' (by rw [hsa]; exact hle), ByteArray.extract_extract]
      rw [Nat.zero_add, Nat.zero_add, Nat.min_eq_left hle]
    · have hge : Y ≤ q * PAGE := by rw [← hY]; exact Nat.mul_le_mul_right _ hgt
      have hsz : (q + 1) * PAGE ≤ (f.extract 0 X ++ c ++ f.extract Y f.size).size := by
        simp only [ByteArray.size_append, ByteArray.size_extract, hc]; omega
      rw [pageOf_some hsz]
      congr 1
      have hsac : (f.extract 0 X ++ c).size = Y := by rw [ByteArray.size_append, hsa, hc, e]
      rw [extract_append_right' (by rw [hsac]; exact hge), hsac, ByteArray.extract_extract]
      have hge2 : Y ≤ (q + 1) * PAGE := by omega
      rw [Nat.add_sub_cancel' hge, Nat.add_sub_cancel' hge2, Nat.min_eq_left hs]

theorem writePage_touched_out (f : ByteArray) (pn : Nat) (c : ByteArray) (h : ¬ pn * PAGE ≤ f.size) :
    Touched f (f ++ zeros (pn * PAGE - f.size) ++ c) [pn] := by
  constructor
  · simp only [ByteArray.size_append]; omega
  · intro q _ pg hpg
    obtain ⟨hs, rfl⟩ := pageOf_eq_some hpg
    have hsz : (q + 1) * PAGE ≤ (f ++ zeros (pn * PAGE - f.size) ++ c).size := by
      simp only [ByteArray.size_append]; omega
    rw [pageOf_some hsz]
    congr 1
    rw [ByteArray.append_assoc, extract_append_left' hs]

theorem writePage_touched (f : ByteArray) (pn : Nat) (c : ByteArray) (hc : c.size = PAGE) :
    Touched f (writePage f pn c) [pn] := by
  unfold writePage
  by_cases h : pn * PAGE ≤ f.size
  · rw [if_pos h]; exact writePage_touched_in f pn c hc h
  · rw [if_neg h]; exact writePage_touched_out f pn c h

theorem Touched.refl (f : ByteArray) (T : List Nat) : Touched f f T := ⟨Nat.le_refl _, fun _ _ _ h => h⟩

theorem Touched.trans {f g k : ByteArray} {T U : List Nat} (h1 : Touched f g T) (h2 : Touched g k U) : Touched f k (T ++ U) := by
  refine ⟨Nat.le_trans h1.1 h2.1, fun q hq pg hpg => ?_⟩
  simp only [List.mem_append, not_or] at hq
  exact h2.2 q hq.2 pg (h1.2 q hq.1 pg hpg)

theorem Touched.mono {f g : ByteArray} {T U : List Nat} (h : Touched f g T) (hs : ∀ x ∈ T, x ∈ U) : Touched f g U :=
  ⟨h.1, fun q hq pg hpg => h.2 q (fun hc => hq (hs q hc)) pg hpg⟩

/-- page writes `(page number, contents)` applied in order -/
def applyWrites (f : ByteArray) : List (Nat × ByteArray) → ByteArray
  | [] => f
  | (pn, c) :: ws => applyWrites (writePage f pn c) ws

theorem applyWrites_touched : ∀ (ws : List (Nat × ByteArray)) (f : ByteArray), (∀ w ∈ ws, w.2.size = PAGE) →
    Touched f (applyWrites f ws) (ws.map (·.1)) := by
  intro ws
  induction ws with
  | nil => intro f _; exact Touched.refl f _
  | cons w ws ih =>
    obtain ⟨pn, c⟩ := w
    intro f hs
    have h1 := writePage_touched f pn c (hs (pn, c) List.mem_cons_self)
    have h2 := ih (writePage f pn c) (fun w hw => hs w (List.mem_cons_of_mem _ hw))
    exact (h1.trans h2).mono (fun x hx => by simpa using hx)

/-- **torn execution**: ANY sub-list of a list of page writes leaves the file `Touched` on the page numbers of the
whole list -/
theorem applyWrites_sublist_touched (ws sub : List (Nat × ByteArray)) (f : ByteArray) (hsub : sub.Sublist ws)
    (hs : ∀ w ∈ ws, w.2.size = PAGE) : Touched f (applyWrites f sub) (ws.map (·.1)) :=
  (applyWrites_touched sub f (fun w hw => hs w (hsub.subset hw))).mono
    (fun x hx => by
      obtain ⟨w, hw, rfl⟩ := List.mem_map.1 hx
      exact List.mem_map.2 ⟨w, hsub.subset hw, rfl⟩)

/-! ## a write onto a marked page: the in-place update of a leaf is visible to the old manifest -/

theorem writePage_at (f : ByteArray) (pn : Nat) (c : ByteArray) (hc : c.size = PAGE) (h : pn * PAGE ≤ f.size) :
    pageOf (writePage f pn c) pn = some c := by
  unfold writePage
  rw [if_pos h]
  have hsa : (f.extract 0 (pn * PAGE)).size = pn * PAGE := by rw [ByteArray.size_extract]; omega
  have e := succ_mul_page pn
  have hsac : (f.extract 0 (pn * PAGE) ++ c).size = (pn + 1) * PAGE := by rw [ByteArray.size_append, hsa, hc, e]
  have hsz : (pn + 1) * PAGE ≤ (f.extract 0 (pn * PAGE) ++ c ++ f.extract ((pn + 1) * PAGE) f.size).size := by
    rw [ByteArray.size_append, hsac]; omega
  rw [pageOf_some hsz]
  congr 1
  rw [extract_append_left' (by rw [hsac]; exact Nat.le_refl _), extract_append_right' (by rw [hsa]; exact Nat.le_refl _), hsa,
    Nat.sub_self, e, Nat.add_sub_cancel_left, ← hc, ByteArray.extract_zero_size]

theorem u8_zeros (n i : Nat) : u8 (zeros n) i = 0 := by
  unfold zeros
  rw [u8_toByteArray]
  simp only [List.getD_eq_getElem?_getD, List.getElem?_replicate]
  split <;> rfl

theorem decodeLeaf_n0 (z : ByteArray) (hs : z.size = PAGE) (h2 : u16le z 0 = 0) : decodeLeaf z = .error "leaf: n = 0" := by
  unfold decodeLeaf
  have h1 : (z.size != PAGE) = false := by rw [hs]; simp
  simp only [h1, h2, bind, Except.bind, pure, Except.pure, Bool.false_eq_true, if_false]
  simp [throw, throwThe, MonadExceptOf.throw]

theorem u16le_zeros (n : Nat) : u16le (zeros n) 0 = 0 := by simp [u16le, u8_zeros]

theorem get!_zeros (n i : Nat) : (zeros n).get! i = 0 := by
  unfold zeros
  rw [get!_toByteArray]
  simp only [List.getD_eq_getElem?_getD, List.getElem?_replicate]
  split <;> rfl

theorem allZero_zeros (n : Nat) : allZero (zeros n) 0 n = true := by
  unfold allZero
  rw [List.all_eq_true]
  intro i _
  rw [get!_zeros]; rfl

attribute [irreducible] zeros

theorem decodeLeaf_zeros : decodeLeaf (zeros PAGE) = .error "leaf: n = 0" :=
  decodeLeaf_n0 _ (size_zeros _) (u16le_zeros _)

theorem mapM_ok_mem {α β ε : Type} (f : α → Except ε β) : ∀ (l : List α) (r : List β), l.mapM f = .ok r →
    ∀ a ∈ l, ∃ b, f a = .ok b := by
  intro l
  induction l with
  | nil => intro r _ a ha; cases ha
  | cons x l ih =>
    intro r h a ha
    rw [List.mapM_cons] at h
    cases hx : f x with
    | error e => rw [hx] at h; cases h
    | ok b =>
      rw [hx] at h
      simp only [bind, Except.bind] at h
      cases hl : l.mapM f with
      | error e => rw [hl] at h; cases h
      | ok bs =>
        rcases List.mem_cons.1 ha with rfl | ha
        · exact ⟨b, hx⟩
        · exact ih bs hl a ha

/-- **counterexample to in-place updates**: for EVERY accepted image and every leaf `(separator, pn)` of it, the image that
differs only by a page write onto that leaf's page — a page the walk marks 1, so `checkPlacement` rejects the write — no
longer abstracts to the old state under the old manifest, although every other page of every file is untouched. -/
theorem inplace_leaf_write_visible {A : Image} {st : Stats} {lnM bbnM : Array UInt8} (hd : wfDetailM A = .ok (st, lnM, bbnM))
    {ls : List (List (ByteArray × ByteArray))} (hl : absLeaves A = .ok ls) {m : Meta} (hm : imageMeta A = .ok m)
    {seps : List (Nat × Nat)} (hs : imageSeps A m = .ok seps) (s : Nat × Nat) (hmem : s ∈ seps)
    (z : ByteArray) (hz : z.size = PAGE) {e : String} (hze : decodeLeaf z = .error e) :
    lnM[s.2]! = 1 ∧ s.2 ≠ 0 ∧ s.2 < m.lnBump ∧
    Touched A.ln (writePage A.ln s.2 z) [s.2] ∧
    absLeaves { A with ln := writePage A.ln s.2 z } ≠ absLeaves A := by
  obtain ⟨P⟩ := wfDetailM_parts hd
  have hPm : P.m = m := by have := P.hm; rw [hm] at this; injection this with this; exact this.symm
  have hsepsA : imageSeps A P.m = .ok (allSeps P.brs) := by
    unfold imageSeps
    simp only [bind, Except.bind, P.hbbnFl, P.hbrs, pure, Except.pure]
  have hse : seps = allSeps P.brs := by rw [hPm, hs] at hsepsA; injection hsepsA
  obtain ⟨hsl1, _, _, _⟩ := claimFreeList_spec P.m.lnBump "ln" P.lnFl _ _ P.hlnC (by simp)
  obtain ⟨hsl2, _, hmk, _⟩ := leafWalk_spec A.ln P.m.lnBump _ _ _ _ _ _ _ P.hwalk hsl1
  obtain ⟨h1, h0, hlt'⟩ := hmk s (hse ▸ hmem)
  have hlt : s.2 < m.lnBump := hPm ▸ hlt'
  have hsz : s.2 * PAGE ≤ A.ln.size := by
    have := P.hlnS
    rw [hPm] at this
    have : s.2 * PAGE ≤ m.lnBump * PAGE := Nat.mul_le_mul_right _ (Nat.le_of_lt hlt)
    omega
  have hB : pageOf (writePage A.ln s.2 z) s.2 = some z := writePage_at _ _ _ hz hsz
  have hkv : ∃ e, leafKVs (writePage A.ln s.2 z) m.lnBump s.2 = .error e := by
    have he := hze
    have hc : (s.2 == 0 || decide (s.2 ≥ m.lnBump)) = false := by
      simp only [Bool.or_eq_false_iff, beq_eq_false_iff_ne, decide_eq_false_iff_not]
      exact ⟨h0, Nat.not_le.2 hlt⟩
    refine ⟨e, ?_⟩
    unfold leafKVs
    simp only [hc, Bool.false_eq_true, if_false, bind, Except.bind, pure, Except.pure, hB, he]
  refine ⟨h1, h0, hlt, writePage_touched _ _ _ hz, ?_⟩
  intro heq
  rw [hl] at heq
  obtain ⟨e, he⟩ := hkv
  unfold absLeaves decodeAll at heq
  have hmB : imageMeta { A with ln := writePage A.ln s.2 z } = .ok m := hm
  have hsB : imageSeps { A with ln := writePage A.ln s.2 z } m = .ok seps := hs
  simp only [bind, Except.bind, hmB, hsB, pure, Except.pure] at heq
  cases hmm : seps.mapM (fun s' => leafKVs (writePage A.ln s.2 z) m.lnBump s'.2) with
  | error e' => rw [hmm] at heq; cases heq
  | ok r =>
    obtain ⟨b, hb⟩ := mapM_ok_mem _ _ _ hmm s hmem
    rw [he] at hb; cases hb

end Nomt.Store
