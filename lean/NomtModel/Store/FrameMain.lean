import NomtModel.Store.FrameImage
/-!
# Main frame theorem: `ReadAgree A B` ⇒ every reader gives on `B` what it gives on `A`
-/
namespace Nomt.Store

theorem imageMeta_frame {A B : Image} (h : B.metaF = A.metaF) : imageMeta B = imageMeta A := by
  unfold imageMeta; rw [h]

theorem validateMeta_bump {m : Meta} (h : validateMeta m = .ok ()) : m.lnBump ≠ 0 ∧ m.bbnBump ≠ 0 := by
  unfold validateMeta at h
  simp only [bind, Except.bind, pure, Except.pure] at h
  by_cases c1 : (m.magic != MAGIC) = true
  · simp [c1, throw, throwThe, MonadExceptOf.throw] at h
  simp only [c1, Bool.false_eq_true, if_false] at h
  by_cases c2 : (m.version != VERSION) = true
  · simp [c2, throw, throwThe, MonadExceptOf.throw] at h
  simp only [c2, Bool.false_eq_true, if_false] at h
  by_cases c3 : ((m.rollbackStartLive == 0) != (m.rollbackEndLive == 0)) = true
  · simp [c3, throw, throwThe, MonadExceptOf.throw] at h
  simp only [c3, Bool.false_eq_true, if_false] at h
  by_cases c4 : m.rollbackStartLive > m.rollbackEndLive
  · simp [c4, throw, throwThe, MonadExceptOf.throw] at h
  simp only [c4, if_false] at h
  by_cases c5 : (m.lnBump == 0) = true
  · simp [c5, throw, throwThe, MonadExceptOf.throw] at h
  simp only [c5, Bool.false_eq_true, if_false] at h
  by_cases c6 : (m.bbnBump == 0) = true
  · simp [c6, throw, throwThe, MonadExceptOf.throw] at h
  exact ⟨by simpa using c5, by simpa using c6⟩

theorem imageMeta_bump {A : Image} {m : Meta} (h : imageMeta A = .ok m) : m.lnBump ≠ 0 ∧ m.bbnBump ≠ 0 := by
  unfold imageMeta at h
  cases hd : decodeMeta A.metaF with
  | none => rw [hd] at h; simp [throw, throwThe, MonadExceptOf.throw] at h
  | some m' =>
    rw [hd] at h
    simp only [bind, Except.bind] at h
    cases hv : validateMeta m' with
    | error e => rw [hv] at h; cases h
    | ok u =>
      rw [hv] at h
      simp only [pure, Except.pure, Except.ok.injEq] at h
      subst h
      exact validateMeta_bump hv

theorem lt_size_of_get!_ne_zero {a : Array UInt8} {p : Nat} (h : a[p]! ≠ 0) : p < a.size := by
  apply Classical.byContradiction
  intro hn
  apply h
  simp only [getElem!_def]
  rw [Array.getElem?_eq_none (Nat.not_lt.1 hn)]
  rfl

/-- what the frame property gives, reader by reader -/
structure SameReads (A B : Image) (m : Meta) : Prop where
  meta_eq : imageMeta B = imageMeta A
  lnFree : freeListAll B.ln m.lnBump m.lnBump m.lnFreelistPn = freeListAll A.ln m.lnBump m.lnBump m.lnFreelistPn
  bbnFree : freeListAll B.bbn m.bbnBump m.bbnBump m.bbnFreelistPn = freeListAll A.bbn m.bbnBump m.bbnBump m.bbnFreelistPn
  walk : wfDetailM B = wfDetailM A
  seps : imageSeps B m = imageSeps A m
  decoded : decodeAll B = decodeAll A

theorem frame_core {A B : Image} {st : Stats} {lnM bbnM : Array UInt8} (hd : wfDetailM A = .ok (st, lnM, bbnM))
    (P : WalkParts A st lnM bbnM) (hag : ReadAgree A B P.m lnM bbnM) : SameReads A B P.m := by
  have hmB : imageMeta B = .ok P.m := by rw [imageMeta_frame hag.hmeta, P.hm]
  obtain ⟨hb1, hb2⟩ := imageMeta_bump P.hm
  -- marks
  obtain ⟨hsl1, _, hlnfl3, _⟩ := claimFreeList_spec P.m.lnBump "ln" P.lnFl _ _ P.hlnC (by simp)
  obtain ⟨hsb1, _, hbbnfl3, hbbnch⟩ := claimFreeList_spec P.m.bbnBump "bbn" P.bbnFl _ _ P.hbbnC (by simp)
  obtain ⟨hsb2, hbble, _, hbrch⟩ := claimAll_spec P.m.bbnBump 1 _ (by decide) _ _ _ P.hbrC hsb1
  obtain ⟨hsl2, hlnle, _, hwalkF⟩ := leafWalk_spec A.ln P.m.lnBump _ _ _ _ _ _ _ P.hwalk hsl1
  -- free lists
  have hlnFlB : freeListAll B.ln P.m.lnBump P.m.lnBump P.m.lnFreelistPn = .ok P.lnFl := by
    apply freeListAll_frame A.ln B.ln _ _ _ _ P.hlnFl
    intro x hx
    obtain ⟨h3, hlt⟩ := hlnfl3 x hx
    exact hag.ln x.1 hlt (Or.inr (Or.inr (by rw [hlnle.2 x.1 (by rw [h3]; decide), h3])))
  have hbbnFlB : freeListAll B.bbn P.m.bbnBump P.m.bbnBump P.m.bbnFreelistPn = .ok P.bbnFl := by
    apply freeListAll_frame A.bbn B.bbn _ _ _ _ P.hbbnFl
    intro x hx
    obtain ⟨h3, hlt⟩ := hbbnfl3 x hx
    exact hag.bbn x.1 hlt (by rw [hbble.2 x.1 (by rw [h3]; decide), h3]; decide)
  -- page 0
  obtain ⟨pl0, hpl0⟩ := pageOf_isSome_of_lt P.hlnS (Nat.pos_of_ne_zero hb1)
  obtain ⟨pb0, hpb0⟩ := pageOf_isSome_of_lt P.hbbnS (Nat.pos_of_ne_zero hb2)
  have hz2B : allZero B.ln 0 PAGE = true := by
    rw [allZero_page0 B.ln pl0 (by rw [hag.ln0, hpl0]), ← allZero_page0 A.ln pl0 hpl0]; exact P.hz2
  have hz1B : allZero B.bbn 0 PAGE = true := by
    rw [allZero_page0 B.bbn pb0 (by rw [hag.bbn0, hpb0]), ← allZero_page0 A.bbn pb0 hpb0]; exact P.hz1
  -- branches
  have hbrsB : liveBranches B.bbn P.m.bbnBump (mkMarks P.m.bbnBump (trackedOf P.bbnFl)) = .ok P.brs := by
    rw [liveBranches_frame A.bbn B.bbn _ _ P.hbbnS (Nat.le_trans P.hbbnS hag.bbnSize), P.hbrs]
    intro pn hlt htr
    apply hag.bbn pn hlt
    intro h4
    have h41 : P.bbnM1[pn]! = 4 := by
      rcases hbrch pn with h | ⟨_, h⟩
      · rw [← h, h4]
      · rw [h4] at h; cases h
    rcases hbbnch pn with h | h
    · rw [h41, get!_replicate_zero] at h; cases h
    · rw [mkMarks_mem _ _ _ h.1 hlt] at htr; cases htr
  -- leaves
  obtain ⟨hwalkB, hkvs⟩ := hwalkF B.ln (by
    intro p hp
    have hne : lnM[p]! ≠ 0 := by rcases hp with h | h <;> rw [h] <;> decide
    have hlt : p < P.m.lnBump := by rw [← hsl2]; exact lt_size_of_get!_ne_zero hne
    rcases hp with h | h
    · exact hag.ln p hlt (Or.inl h)
    · exact hag.ln p hlt (Or.inr (Or.inl h)))
  have c1 : ¬ P.m.lnBump * PAGE > B.ln.size := Nat.not_lt.2 (Nat.le_trans P.hlnS hag.lnSize)
  have c2 : ¬ P.m.bbnBump * PAGE > B.bbn.size := Nat.not_lt.2 (Nat.le_trans P.hbbnS hag.bbnSize)
  have hwB : wfDetailM B = .ok (st, lnM, bbnM) := by
    unfold wfDetailM
    simp only [bind, Except.bind, hmB, c1, c2, if_false, pure, Except.pure, hlnFlB, hbbnFlB, P.hlnC, P.hbbnC, hz1B, hz2B,
      Bool.not_true, Bool.false_eq_true, hbrsB, P.hbrC, P.hsorted]
    have hf := P.hfirst
    cases hs : allSeps P.brs with
    | nil =>
      have hw := hwalkB
      rw [hs] at hw
      simp only [hw, P.hst, hs]
    | cons x xs =>
      obtain ⟨s, c⟩ := x
      rw [hs] at hf
      simp only at hf
      have hw := hwalkB
      rw [hs] at hw
      have : (s != 0) = false := by simp [hf]
      simp only [this, Bool.false_eq_true, if_false, hw, P.hst, hs]
  have hsepsA : imageSeps A P.m = .ok (allSeps P.brs) := by
    unfold imageSeps
    simp only [bind, Except.bind, P.hbbnFl, P.hbrs, pure, Except.pure]
  have hsepsB : imageSeps B P.m = .ok (allSeps P.brs) := by
    unfold imageSeps
    simp only [bind, Except.bind, hbbnFlB, hbrsB, pure, Except.pure]
  refine ⟨by rw [hmB, P.hm], by rw [hlnFlB, P.hlnFl], by rw [hbbnFlB, P.hbbnFl], by rw [hwB, hd], by rw [hsepsA, hsepsB], ?_⟩
  unfold decodeAll
  simp only [bind, Except.bind, hmB, P.hm, hsepsA, hsepsB]
  rw [mapM_congr_except _ _ _ (fun s hs => hkvs s hs)]

/-- **the frame property of the real decoder**: if the walk accepts `A` and `B` agrees with `A` on the pages the walk
reads, then `wfImage`, `absImage`, `absLeaves`, both free lists, the separators and the walk (marks, statistics) of `B` are
those of `A`. -/
theorem frame_main {A B : Image} {st : Stats} {lnM bbnM : Array UInt8} {m : Meta}
    (hm : imageMeta A = .ok m) (hd : wfDetailM A = .ok (st, lnM, bbnM)) (hag : ReadAgree A B m lnM bbnM) :
    wfImage B = wfImage A ∧ absImage B = absImage A ∧ absLeaves B = absLeaves A ∧ wfDetailM B = wfDetailM A ∧
    freeListAll B.ln m.lnBump m.lnBump m.lnFreelistPn = freeListAll A.ln m.lnBump m.lnBump m.lnFreelistPn ∧
    freeListAll B.bbn m.bbnBump m.bbnBump m.bbnFreelistPn = freeListAll A.bbn m.bbnBump m.bbnBump m.bbnFreelistPn ∧
    imageMeta B = imageMeta A := by
  obtain ⟨P⟩ := wfDetailM_parts hd
  have hmm : P.m = m := by have := P.hm; rw [hm] at this; injection this with this; exact this.symm
  have hag' : ReadAgree A B P.m lnM bbnM := by rw [hmm]; exact hag
  have S := frame_core hd P hag'
  rw [hmm] at S
  refine ⟨?_, ?_, ?_, S.walk, S.lnFree, S.bbnFree, S.meta_eq⟩
  · unfold wfImage wfDetail; rw [S.decoded, S.walk]
  · unfold absImage absLeaves; rw [S.decoded]
  · unfold absLeaves; rw [S.decoded]

end Nomt.Store
