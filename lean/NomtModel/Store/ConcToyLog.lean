import NomtModel.Store.ConcCrashLog
import NomtModel.Store.ConcToy
/-! A tiny concurrent trace in the shape of the real commit trace (rollback-log append, `wal.write` setting the length of
the WAL to 0 before appending, pruning after the switch-over), over `NomtDisk.Toy`. -/
namespace NomtDisk.CToy
open NomtDisk.Toy

/-- old state with the rollback records 1 and 2 live -/
def d0L : D := { d0 with log := [1, 2] }

/-- a commit in the shape of the real trace: append to the rollback log and fsync it; `wal.write` first sets the length
of the WAL to 0 and then appends, while a worker writes the new root page; fsyncs of `wal` and `ln` -/
def cpreL : List CE :=
  [.effBegin 0 (.logSet [1, 2, 3]), .effEnd 0, .fsyncBegin "t1" .fLog, .fsyncEnd "t1" .fLog,
   .effBegin 4 (.walSet none),
   .effBegin 5 (.page .fLn 2 7),
   .effEnd 4,
   .effBegin 7 (.walSet (some w1)), .effEnd 7,
   .fsyncBegin "t12" .fWal, .fsyncEnd "t12" .fWal,
   .effEnd 5,
   .fsyncBegin "t11" .fLn, .fsyncEnd "t11" .fLn]

/-- after the meta write: prune the lagging rollback record, write the table page, fsync, truncate the WAL -/
def crestL : List CE :=
  [.effEnd 14, .fsyncBegin "t1" .fMeta, .fsyncEnd "t1" .fMeta,
   .effBegin 18 (.logSet [2, 3]), .effEnd 18,
   .effBegin 20 (.page .fHt 5 9), .effEnd 20, .fsyncBegin "t1" .fHt, .fsyncEnd "t1" .fHt,
   .effBegin 24 (.walSet none), .effEnd 24]

def goodL : List CE := cpreL ++ .effBegin 14 (.setMeta m1) :: crestL

theorem hinertL : ∀ b, htView P d0L b = d0L.pages File.fHt b := fun _ => rfl

theorem goodL_ord : cAll ordChk 0 (cinit d0L) goodL := by
  simp [goodL, cpreL, crestL, cAll, ordChk, nextPhase, cstep, cinit, markEnded, takeCSync, flush, covered, coverable,
    Eff.file, Eff.isMeta]

theorem hwalL : (crun (cinit d0L) cpreL).dur.wal = some w1 := by
  simp [cpreL, crun, cstep, cinit, markEnded, takeCSync, flush, covered, coverable, Eff.file, applyEffs, applyEff]

theorem hlogL : (crun (cinit d0L) cpreL).dur.log = [1, 2, 3] := by
  simp [cpreL, crun, cstep, cinit, markEnded, takeCSync, flush, covered, coverable, Eff.file, applyEffs, applyEff]

theorem goodL_phase : phRun 0 (cinit d0L) goodL = 2 := by
  simp [goodL, cpreL, crestL, phRun, nextPhase, cstep, cinit, markEnded, takeCSync, flush, covered, coverable,
    Eff.file, Eff.isMeta]

theorem goodL_cont : cAll (contChk (AllowedPreL' P L d0L) (contPostL P L (crun (cinit d0L) cpreL).dur m1 w1)) 0
    (cinit d0L) goodL := by
  have hlog := hlogL
  generalize (crun (cinit d0L) cpreL).dur = dA at hlog
  simp [goodL, cpreL, crestL, cAll, contChk, nextPhase, cstep, cinit, markEnded, takeCSync, flush, covered, coverable,
    Eff.file, Eff.isMeta]
  refine ⟨?_, trivial, ⟨Or.inl rfl, fun h => absurd h.2 (by decide)⟩, ?_, ?_, ⟨⟨rfl, rfl⟩, fun h => h.elim⟩,
    trivial, fun _ => ?_⟩
  · show absLog L d0L.mt [1, 2, 3] = absLog L d0L.mt d0L.log
    decide
  · show (2 : Nat) ≠ 1
    decide
  · show absLog L m1 [2, 3] = absLog L m1 dA.log
    rw [hlog]; decide
  · intro b c h
    simp only [P, w1, lookupD] at h
    by_cases hb : 5 = b
    · subst hb; simp at h; subst h; rfl
    · simp [hb] at h

/-- the new state, with the rollback log -/
def newAbsL : (Nat × (Nat → Nat)) × List Nat :=
  (absNew P (crun (cinit d0L) cpreL).dur m1 w1, absLog L m1 (crun (cinit d0L) cpreL).dur.log)

theorem oldL_ne_newL : absOfL P L d0L ≠ newAbsL := by
  intro h
  have := congrArg Prod.snd h
  revert this
  show absLog L d0L.mt [1, 2] = absLog L m1 (crun (cinit d0L) cpreL).dur.log → False
  rw [hlogL]
  decide

/-! ### the same commit, started while the previous sync's WAL truncation is still un-synced -/

/-- the old state with the previous (applied) WAL still on disk -/
def d0P : D := { d0L with wal := some (1, []) }

/-- the state the operation starts in: the truncation of that WAL was issued and has ended, no fsync covers it yet -/
def s0P : CState Nat TMeta (Nat × List (Nat × Nat)) Nat := ⟨d0P, [⟨100, .walSet none, true⟩], []⟩

theorem hinertP : ∀ b, htView P s0P.dur b = s0P.dur.pages File.fHt b := fun _ => rfl

theorem hvol0P : ∀ e ∈ s0P.volEffs, AllowedPreL' P L s0P.dur e := by
  intro e he
  simp [s0P, CState.volEffs] at he
  subst he; trivial

theorem goodP_ord : cAll ordChk 0 s0P goodL := by
  simp [s0P, goodL, cpreL, crestL, cAll, ordChk, nextPhase, cstep, markEnded, takeCSync, flush, covered, coverable,
    Eff.file, Eff.isMeta]

theorem hwalP : (crun s0P cpreL).dur.wal = some w1 := by
  simp [s0P, cpreL, crun, cstep, markEnded, takeCSync, flush, covered, coverable, Eff.file, applyEffs, applyEff]

theorem hlogP : (crun s0P cpreL).dur.log = [1, 2, 3] := by
  simp [s0P, cpreL, crun, cstep, markEnded, takeCSync, flush, covered, coverable, Eff.file, applyEffs, applyEff]

theorem goodP_phase : phRun 0 s0P goodL = 2 := by
  simp [s0P, goodL, cpreL, crestL, phRun, nextPhase, cstep, markEnded, takeCSync, flush, covered, coverable,
    Eff.file, Eff.isMeta]

theorem goodP_cont : cAll (contChk (AllowedPreL' P L s0P.dur) (contPostL P L (crun s0P cpreL).dur m1 w1)) 0 s0P goodL := by
  have hlog := hlogP
  generalize (crun s0P cpreL).dur = dA at hlog
  simp [s0P, goodL, cpreL, crestL, cAll, contChk, nextPhase, cstep, markEnded, takeCSync, flush, covered, coverable,
    Eff.file, Eff.isMeta]
  refine ⟨?_, trivial, ⟨Or.inl rfl, fun h => absurd h.2 (by decide)⟩, ?_, ?_, ⟨⟨rfl, rfl⟩, fun h => h.elim⟩,
    trivial, fun _ => ?_⟩
  · show absLog L d0P.mt [1, 2, 3] = absLog L d0P.mt d0P.log
    decide
  · show (2 : Nat) ≠ 1
    decide
  · show absLog L m1 [2, 3] = absLog L m1 dA.log
    rw [hlog]; decide
  · intro b c h
    simp only [P, w1, lookupD] at h
    by_cases hb : 5 = b
    · subst hb; simp at h; subst h; rfl
    · simp [hb] at h

def newAbsP : (Nat × (Nat → Nat)) × List Nat :=
  (absNew P (crun s0P cpreL).dur m1 w1, absLog L m1 (crun s0P cpreL).dur.log)

theorem oldP_ne_newP : absOfL P L s0P.dur ≠ newAbsP := by
  intro h
  have := congrArg Prod.snd h
  revert this
  show absLog L d0P.mt [1, 2] = absLog L m1 (crun s0P cpreL).dur.log → False
  rw [hlogP]
  decide

end NomtDisk.CToy
