import NomtModel.Store.PrepareSyncModel
/-!
# What one successful iteration / a successful run of the loop of `prepare_sync` did

`StepOk`: the effect of one iteration that returned `ok`, as equations (bucket `b` of the page, `chg` =
`meta_map_changed`).  `Chain`: a successful run of the loop is a chain of such steps.  All later files reason about
chains, not about the nested `match`es of the mirror.
-/
namespace Nomt.PrepSync
open Nomt Nomt.Wal Nomt.Store

/-- what the Rust types guarantee about a dirty page: `[u8; 32]` page id, a `FatPage`, `[u64; 2]` diff words, `u64`
bucket indices -/
structure Dirty.Typed (d : Dirty) : Prop where
  pid : d.pid.length = 32
  page : d.page.length = PAGE_SIZE
  diff : d.diff.WF
  bucket : match d.bucket with
    | .known b => b < 2 ^ 64
    | .depSet b => b < 2 ^ 64
    | _ => True

structure StepOk (hash : Bytes → Nat) (off : Nat) (a : Acc) (d : Dirty) (a' : Acc) (b : Nat) (chg : Bool) : Prop where
  cells : a'.cells = a.cells ++ [b]
  wal : a.wal.writeEntry (entryOf d b) = .ok a'.wal
  ht : a'.ht = a.ht ++ (if d.diff.cleared then [] else [(off + b, d.page)])
  cache : a'.cache = a.cache ++ [(d.pid, if d.diff.cleared then none else some (d.page, b))]
  buckets : a'.mm.buckets = a.mm.buckets
  bitvec : a'.mm.bitvec =
    if d.diff.cleared then a.mm.bitvec.set b TOMBSTONE
    else if chg then a.mm.bitvec.set b (fullEntry (hash d.pid)) else a.mm.bitvec
  changed : a'.changed = if d.diff.cleared || chg then insertSet a.changed (b / 4096) else a.changed
  delta : a'.delta = if d.diff.cleared then a.delta - 1 else if chg then a.delta + 1 else a.delta
  src :
    if d.diff.cleared then (d.bucket = .known b ∨ d.bucket = .depSet b) ∧ b < a.mm.bitvec.length ∧ chg = false
    else if chg then
      (d.bucket = .fresh ∨ d.bucket = .depUnset) ∧ a.mm.buckets ≠ 0 ∧
      Probe.allocLoop a.mm.slots Probe.ALLOC_ATTEMPTS (2 * a.mm.buckets + 2) 0
        (Probe.PS.new (hash d.pid) a.mm.buckets) = some (some b) ∧ b < a.mm.bitvec.length
    else (d.bucket = .known b ∨ d.bucket = .depSet b)
  pn : d.diff.cleared = false → off + b < 2 ^ 64

theorem liftW_ok {α : Type} {x : Wal.Out α} {a : α} (h : liftW x = .ok a) : x = .ok a := by
  cases x with
  | ok a' => simp only [liftW] at h; injection h with h; rw [h]
  | err e => simp [liftW] at h
  | panic s => simp [liftW] at h

theorem liftW_okv {α : Type} (a : α) : liftW (.ok a : Wal.Out α) = .ok a := rfl

theorem pack_typed {d : Dirty} (hp : d.page.length = PAGE_SIZE) (hc : d.diff.cleared = false) :
    d.diff.pack d.page = .ok (packedOf d.page d.diff) := by
  apply PageDiff.pack_eq
  · rw [← PageDiff.cleared_eq]; exact hc
  · intro i hi
    have := (PageDiff.mem_ones.mp hi).1
    rw [hp]; unfold PAGE_SIZE; omega

theorem stepCleared_ok {a a' : Acc} {d : Dirty} {hash : Bytes → Nat} {off : Nat} (hc : d.diff.cleared = true)
    (h : stepCleared a d = .ok a') : ∃ b, StepOk hash off a d a' b false := by
  unfold stepCleared at h
  have key : ∀ b, (d.bucket = .known b ∨ d.bucket = .depSet b) →
      (match a.mm.setTombstone b with
        | none => (.panic "set_tombstone: bitvec[bucket]" : POut Acc)
        | some mm =>
          match liftW (a.wal.writeClear b) with
          | .ok w =>
            .ok { a with mm := mm, changed := insertSet a.changed (MetaMap.pageIndex b),
                         cache := a.cache ++ [(d.pid, none)], delta := a.delta - 1, wal := w, cells := a.cells ++ [b] }
          | .err e => .err e
          | .panic s => .panic s) = .ok a' → StepOk hash off a d a' b false := by
    intro b hb h
    unfold MetaMap.setTombstone at h
    by_cases hlt : b < a.mm.bitvec.length
    · simp only [hlt, if_true] at h
      cases hw : liftW (a.wal.writeClear b) with
      | ok w =>
        rw [hw] at h
        injection h with h
        subst h
        have hw' := liftW_ok hw
        exact {
          cells := rfl
          wal := by simp only [entryOf, hc, if_true, Builder.writeEntry]; exact hw'
          ht := by simp [hc]
          cache := by simp [hc]
          buckets := rfl
          bitvec := by simp [hc]
          changed := by simp [hc, MetaMap.pageIndex]
          delta := by simp [hc]
          src := by simp only [hc, if_true]; exact ⟨hb, hlt, trivial⟩
          pn := by intro h'; rw [hc] at h'; cases h' }
      | err e => rw [hw] at h; cases h
      | panic s => rw [hw] at h; cases h
    · simp only [hlt, if_false] at h; cases h
  cases hbk : d.bucket with
  | known b => rw [hbk] at h; exact ⟨b, key b (Or.inl hbk) h⟩
  | depSet b => rw [hbk] at h; exact ⟨b, key b (Or.inr hbk) h⟩
  | fresh => rw [hbk] at h; cases h
  | depUnset => rw [hbk] at h; cases h

theorem resolve_ok {hash : Bytes → Nat} {mm mm1 : MetaMap} {d : Dirty} {chg : Bool} {b : Nat}
    (h : resolve hash mm d = .ok (chg, b, mm1)) :
    (chg = false ∧ mm1 = mm ∧ (d.bucket = .known b ∨ d.bucket = .depSet b)) ∨
    (chg = true ∧ (d.bucket = .fresh ∨ d.bucket = .depUnset) ∧ mm.buckets ≠ 0 ∧
      Probe.allocLoop mm.slots Probe.ALLOC_ATTEMPTS (2 * mm.buckets + 2) 0 (Probe.PS.new (hash d.pid) mm.buckets)
        = some (some b) ∧ b < mm.bitvec.length ∧
      mm1 = { mm with bitvec := mm.bitvec.set b (fullEntry (hash d.pid)) }) := by
  unfold resolve at h
  have alloc : (d.bucket = .fresh ∨ d.bucket = .depUnset) →
      (match allocateBucket hash mm d.pid with
        | .ok (some (b, mm')) => (.ok (true, b, mm') : POut (Bool × Nat × MetaMap))
        | .ok none => .err (.bucketExhaustion mm)
        | .err e => .err e
        | .panic s => .panic s) = .ok (chg, b, mm1) →
      ((chg = false ∧ mm1 = mm ∧ (d.bucket = .known b ∨ d.bucket = .depSet b)) ∨
      (chg = true ∧ (d.bucket = .fresh ∨ d.bucket = .depUnset) ∧ mm.buckets ≠ 0 ∧
        Probe.allocLoop mm.slots Probe.ALLOC_ATTEMPTS (2 * mm.buckets + 2) 0 (Probe.PS.new (hash d.pid) mm.buckets)
          = some (some b) ∧ b < mm.bitvec.length ∧
        mm1 = { mm with bitvec := mm.bitvec.set b (fullEntry (hash d.pid)) })) := by
    intro hb h
    right
    unfold allocateBucket at h
    by_cases h0 : mm.buckets = 0
    · simp only [h0, if_true] at h; cases h
    · simp only [h0, if_false] at h
      cases hal : Probe.allocLoop mm.slots Probe.ALLOC_ATTEMPTS (2 * mm.buckets + 2) 0
          (Probe.PS.new (hash d.pid) mm.buckets) with
      | none => rw [hal] at h; cases h
      | some r =>
        rw [hal] at h
        cases r with
        | none => cases h
        | some b' =>
          simp only at h
          unfold MetaMap.setFull at h
          by_cases hlt : b' < mm.bitvec.length
          · simp only [hlt, if_true] at h
            injection h with h
            simp only [Prod.mk.injEq] at h
            obtain ⟨h1, h2, h3⟩ := h
            subst h2
            exact ⟨h1.symm, hb, h0, rfl, hlt, h3.symm⟩
          · simp only [hlt, if_false] at h; cases h
  cases hbk : d.bucket with
  | known b' =>
    rw [hbk] at h
    injection h with h
    simp only [Prod.mk.injEq] at h
    obtain ⟨h1, h2, h3⟩ := h
    subst h2
    exact Or.inl ⟨h1.symm, h3.symm, Or.inl rfl⟩
  | depSet b' =>
    rw [hbk] at h
    injection h with h
    simp only [Prod.mk.injEq] at h
    obtain ⟨h1, h2, h3⟩ := h
    subst h2
    exact Or.inl ⟨h1.symm, h3.symm, Or.inr rfl⟩
  | fresh => rw [hbk] at h; have r := alloc (Or.inl hbk) h; rw [hbk] at r; exact r
  | depUnset => rw [hbk] at h; have r := alloc (Or.inr hbk) h; rw [hbk] at r; exact r

theorem stepUpdate_ok {a a' : Acc} {d : Dirty} {hash : Bytes → Nat} {off : Nat} (hc : d.diff.cleared = false)
    (hp : d.page.length = PAGE_SIZE) (h : stepUpdate hash off a d = .ok a') : ∃ b chg, StepOk hash off a d a' b chg := by
  unfold stepUpdate at h
  cases hr : resolve hash a.mm d with
  | err e => rw [hr] at h; cases h
  | panic s => rw [hr] at h; cases h
  | ok r =>
    obtain ⟨chg, b, mm1⟩ := r
    rw [hr] at h
    simp only at h
    have hres := resolve_ok hr
    -- the meta map after the (repeated) `set_full`
    have hmm2 : ∃ mm2, (if chg then mm1.setFull b (hash d.pid) else some mm1) = some mm2 ∧ mm2.buckets = a.mm.buckets ∧
        mm2.bitvec = if chg then a.mm.bitvec.set b (fullEntry (hash d.pid)) else a.mm.bitvec := by
      rcases hres with ⟨h1, h2, _⟩ | ⟨h1, _, _, _, hlt, h2⟩
      · subst h1; subst h2; exact ⟨a.mm, rfl, rfl, rfl⟩
      · subst h1; subst h2
        refine ⟨{ a.mm with bitvec := (a.mm.bitvec.set b (fullEntry (hash d.pid))).set b (fullEntry (hash d.pid)) }, ?_, rfl, ?_⟩
        · simp only [if_true, MetaMap.setFull, List.length_set, hlt]
        · simp only [if_true, List.set_set]
    obtain ⟨mm2, e2, hb2, hv2⟩ := hmm2
    rw [e2] at h
    simp only at h
    rw [pack_typed hp hc, liftW_okv] at h
    simp only at h
    have hel : elidedChildren d.page = .ok (elidedOf d.page) := by
      unfold elidedChildren
      rw [hp]; simp [PAGE_SIZE]
    rw [hel] at h
    simp only at h
    cases hw : liftW (a.wal.writeUpdate d.pid d.diff (packedOf d.page d.diff) (elidedOf d.page) b) with
    | err e => rw [hw] at h; cases h
    | panic s => rw [hw] at h; cases h
    | ok w =>
      rw [hw] at h
      simp only at h
      by_cases hpn : off + b ≥ 2 ^ 64
      · simp only [hpn, if_true] at h; cases h
      · simp only [hpn, if_false] at h
        injection h with h
        subst h
        refine ⟨b, chg, ?_⟩
        exact {
          cells := rfl
          wal := by simp only [entryOf, hc, Bool.false_eq_true, if_false, Builder.writeEntry]; exact liftW_ok hw
          ht := by simp [hc]
          cache := by simp [hc]
          buckets := hb2
          bitvec := by simp only [hc, Bool.false_eq_true, if_false]; exact hv2
          changed := by simp [hc, MetaMap.pageIndex]
          delta := by simp [hc]
          src := by
            simp only [hc, Bool.false_eq_true, if_false]
            rcases hres with ⟨h1, _, h3⟩ | ⟨h1, h3, h0, h4, h5, _⟩
            · subst h1; simpa using h3
            · subst h1; simp only [if_true]; exact ⟨h3, h0, h4, h5⟩
          pn := by intro _; omega }

theorem stepDirty_ok {a a' : Acc} {d : Dirty} {hash : Bytes → Nat} {off : Nat}
    (hp : d.page.length = PAGE_SIZE) (h : stepDirty hash off a d = .ok a') : ∃ b chg, StepOk hash off a d a' b chg := by
  unfold stepDirty at h
  by_cases hc : d.diff.cleared = true
  · rw [if_pos hc] at h
    obtain ⟨b, hb⟩ := stepCleared_ok (hash := hash) (off := off) hc h
    exact ⟨b, false, hb⟩
  · rw [if_neg hc] at h
    exact stepUpdate_ok (by simpa using hc) hp h

/-- a successful run of the loop: the buckets `bs` and the flags `cs` of its iterations -/
inductive Chain (hash : Bytes → Nat) (off : Nat) : Acc → List Dirty → List Nat → List Bool → Acc → Prop where
  | nil (a : Acc) : Chain hash off a [] [] [] a
  | cons {a a1 a' : Acc} {d : Dirty} {ds : List Dirty} {b : Nat} {bs : List Nat} {c : Bool} {cs : List Bool} :
      StepOk hash off a d a1 b c → Chain hash off a1 ds bs cs a' → Chain hash off a (d :: ds) (b :: bs) (c :: cs) a'

theorem loop_chain {hash : Bytes → Nat} {off : Nat} : ∀ (ds : List Dirty) (a a' : Acc),
    (∀ d ∈ ds, d.page.length = PAGE_SIZE) → loop hash off a ds = .ok a' → ∃ bs cs, Chain hash off a ds bs cs a' := by
  intro ds
  induction ds with
  | nil =>
    intro a a' _ h
    simp only [loop] at h
    injection h with h
    subst h
    exact ⟨[], [], .nil a⟩
  | cons d ds ih =>
    intro a a' hp h
    simp only [loop] at h
    cases hs : stepDirty hash off a d with
    | err e => rw [hs] at h; cases h
    | panic s => rw [hs] at h; cases h
    | ok a1 =>
      rw [hs] at h
      obtain ⟨b, c, hstep⟩ := stepDirty_ok (hp d (List.mem_cons_self ..)) hs
      obtain ⟨bs, cs, hch⟩ := ih a1 a' (fun d' hd' => hp d' (List.mem_cons_of_mem _ hd')) h
      exact ⟨b :: bs, c :: cs, .cons hstep hch⟩

namespace Chain
variable {hash : Bytes → Nat} {off : Nat}

theorem lengths {a a' : Acc} {ds : List Dirty} {bs : List Nat} {cs : List Bool} (h : Chain hash off a ds bs cs a') :
    bs.length = ds.length ∧ cs.length = ds.length := by
  induction h with
  | nil => exact ⟨rfl, rfl⟩
  | cons _ _ ih => simp [ih.1, ih.2]

theorem cells_eq {a a' : Acc} {ds : List Dirty} {bs : List Nat} {cs : List Bool} (h : Chain hash off a ds bs cs a') :
    a'.cells = a.cells ++ bs := by
  induction h with
  | nil => simp
  | cons s _ ih => rw [ih, s.cells]; simp

theorem buckets_eq {a a' : Acc} {ds : List Dirty} {bs : List Nat} {cs : List Bool} (h : Chain hash off a ds bs cs a') :
    a'.mm.buckets = a.mm.buckets := by
  induction h with
  | nil => rfl
  | cons s _ ih => rw [ih, s.buckets]

theorem wal_eq {a a' : Acc} {ds : List Dirty} {bs : List Nat} {cs : List Bool} (h : Chain hash off a ds bs cs a') :
    a.wal.writeEntries (entriesOf ds bs) = .ok a'.wal := by
  induction h with
  | nil => rfl
  | cons s _ ih =>
    simp only [entriesOf, Builder.writeEntries]
    rw [s.wal]
    exact ih

/-- the data pages pushed by the loop: one per page that is not cleared, at `off + bucket` -/
def dataPages (off : Nat) : List Dirty → List Nat → List (Nat × Bytes)
  | d :: ds, b :: bs => (if d.diff.cleared then [] else [(off + b, d.page)]) ++ dataPages off ds bs
  | _, _ => []

theorem ht_eq {a a' : Acc} {ds : List Dirty} {bs : List Nat} {cs : List Bool} (h : Chain hash off a ds bs cs a') :
    a'.ht = a.ht ++ dataPages off ds bs := by
  induction h with
  | nil => simp [dataPages]
  | cons s _ ih => rw [ih, s.ht]; simp [dataPages]

end Chain

end Nomt.PrepSync
