import NomtModel.Store.StageGlueBranchLevel
import NomtModel.Store.StageGlueLeafSpec
/-!
# The branch changeset turns the old index into the new one (`branch_index_change`)
-/
namespace Nomt.StageGlue
open Nomt
open Nomt.LeafUpd (Entry Sorted write1 applyAll CellSize)
open Nomt.ExtRange (Tracker TE Inner Pn upsert lookupE)
open Nomt.BranchUpd (DbNode OutNode Produced Node KF)

theorem chsN_keys_ne {cs : List (Nat × Option (Node × Nat))} (h : cs.Pairwise (fun a b => a.1 < b.1)) :
    (chsN cs).Pairwise (fun a b => a.1 ≠ b.1) := by
  unfold chsN
  rw [List.pairwise_map]
  exact h.imp (fun hab => by simp only; omega)

/-- **the branch changeset is the difference between the old and the new index** (the twin of `leaf_level_change`) -/
theorem branch_index_change (fresh : Nat → Nat) (db : List DbNode) (x : BRun)
    (hdb : IdxAsc db) (hb : BookB db x) (hout : OutAscB (x.r.out ++ x.r.rest.map .old)) :
    ∃ tr, runEvs {} 0 x.evs = some (tr, (newsOfB x.r.out).length) ∧ InnerAsc tr.inner ∧ tr.extraFreed = [] ∧
      (trackerNodes fresh tr.inner).Pairwise (fun a b => a.1 < b.1) ∧
      applyToIndex db (trackerNodes fresh tr.inner) = idxOf fresh 0 (x.r.out ++ x.r.rest.map .old) ∧
      (trackerFreed tr.inner).Perm
        ((db.filter fun n => decide (n.sep ∉ (oldsOfB x.r.out ++ x.r.rest).map (·.sep))).map (·.bbn)) ∧
      (delsOf x.evs ≠ [] → trackerNodes fresh tr.inner ≠ []) ∧
      (newsOfB x.r.out ≠ [] → trackerNodes fresh tr.inner ≠ []) := by
  obtain ⟨⟨consumed, hc1, hc2⟩, hins⟩ := hb
  have hsasc : (db.map (·.sep)).Pairwise (· < ·) := (List.pairwise_map).2 hdb
  have hperm : ((consumed ++ (oldsOfB x.r.out ++ x.r.rest)).map (·.sep)).Perm (db.map (·.sep)) := hc2.map _
  have hndall : ((consumed ++ (oldsOfB x.r.out ++ x.r.rest)).map (·.sep)).Nodup :=
    hperm.nodup_iff.2 (hsasc.imp (fun h => by omega))
  have hnd := hndall
  rw [List.map_append, List.nodup_append] at hnd
  obtain ⟨hnd1, hnd2, hnd3⟩ := hnd
  have hmem : ∀ k, k ∈ db.map (·.sep) ↔ k ∈ consumed.map (·.sep) ∨ k ∈ (oldsOfB x.r.out ++ x.r.rest).map (·.sep) := by
    intro k
    rw [← hperm.mem_iff, List.map_append, List.mem_append]
  have hdk : (delsOf x.evs).map (·.1) = consumed.map (·.sep) := by rw [hc1]; simp
  obtain ⟨tr, e1, hasc, hx, hD, hI⟩ := runEvs_spec x.evs ({} : Tracker Node) 0 List.Pairwise.nil
    (delOnce_nil x.evs (by rw [hdk]; exact hnd1))
  have hlen : (insOf x.evs).length = (newsOfB x.r.out).length := by rw [hins]; simp
  have hnews : (newsOfB x.r.out).Pairwise (fun a b => a.sep < b.sep) := by
    have := newsOfB_asc hout
    rwa [newsOfB_append, newsOfB_old, List.append_nil] at this
  -- the page number recorded with a `delete` call
  have bbnOf : ∀ k, ∀ n ∈ consumed, n.sep = k → expDelL (consumed.map fun l => (l.sep, l.bbn)) k = some n.bbn := by
    intro k
    have key : ∀ (c : List DbNode), (c.map (·.sep)).Nodup → ∀ n ∈ c, n.sep = k →
        expDelL (c.map fun l => (l.sep, l.bbn)) k = some n.bbn := by
      intro c
      induction c with
      | nil => intro _ n hn; cases hn
      | cons y t ih =>
        intro hnd n hn hk
        simp only [List.map_cons, List.nodup_cons] at hnd
        simp only [List.map_cons, expDelL]
        rcases List.mem_cons.1 hn with rfl | hn
        · rw [expDelL_none (by
            intro z hz e
            obtain ⟨w, hw, rfl⟩ := List.mem_map.1 hz
            simp only at e
            exact hnd.1 (List.mem_map.2 ⟨w, hw, by rw [e, hk]⟩))]
          simp [hk]
        · rw [ih hnd.2 n hn hk]
    exact key consumed hnd1
  have hD' : ∀ k, delV tr.inner k = (consumed.find? fun n => n.sep == k).map (·.bbn) := by
    intro k
    rw [hD k, expDel_eq, hc1]
    cases hf : consumed.find? (fun n => n.sep == k) with
    | none =>
      rw [expDelL_none (by
        intro z hz e
        obtain ⟨w, hw, rfl⟩ := List.mem_map.1 hz
        have := List.find?_eq_none.1 hf w hw
        simp only at e
        simp [e] at this)]
      simp [delV, lookupE]
    | some n =>
      have hn := List.mem_of_find?_eq_some hf
      have hk : n.sep = k := by have := List.find?_some hf; simpa using this
      rw [bbnOf k n hn hk]
      rfl
  have hI' : ∀ k, (insV tr.inner k).map (fun y => (y.1, resolve fresh y.2)) = newAtB fresh 0 (newsOfB x.r.out) k := by
    intro k
    rw [hI k, expIns_eq, hins, ← expInsL_newsB fresh k _ 0 hnews]
    cases expInsL 0 ((newsOfB x.r.out).map fun p => (p.sep, p.node)) k with
    | some y => rfl
    | none => simp [insV, lookupE]
  have hcs := trackerNodes_asc fresh tr.inner hasc
  have hdelIff : ∀ k, (delV tr.inner k).isSome = true ↔ k ∈ consumed.map (·.sep) := by
    intro k
    rw [hD' k]
    constructor
    · intro h
      cases hf : consumed.find? (fun n => n.sep == k) with
      | none => rw [hf] at h; cases h
      | some n =>
        have hn := List.mem_of_find?_eq_some hf
        have hk : n.sep = k := by have := List.find?_some hf; simpa using this
        exact List.mem_map.2 ⟨n, hn, hk⟩
    · intro h
      obtain ⟨n, hn, hk⟩ := List.mem_map.1 h
      cases hf : consumed.find? (fun n => n.sep == k) with
      | none =>
        have := List.find?_eq_none.1 hf n hn
        simp [hk] at this
      | some n' => rfl
  refine ⟨tr, by rw [e1, hlen]; simp, hasc, hx, hcs, ?_, ?_, ?_, ?_⟩
  · -- the index
    apply idxEnts_inj
    rw [applyToIndex_ents _ _ hdb]
    apply sorted_ext (LeafUpd.applyAll_sorted (idxEnts_sorted hdb) _) (idxEnts_sorted (idxOf_asc fresh _ 0 hout))
    intro k
    rw [getE_applyAll _ _ k (chsN_keys_ne hcs), getC_trackerNodes fresh k tr.inner hasc, getE_idxOf fresh k _ 0 hout,
      newsOfB_append, newsOfB_old, List.append_nil, oldsOfB_append, oldsOfB_old, ← hI' k, getE_idxEnts]
    cases hi : insV tr.inner k with
    | some y => simp
    | none =>
      simp only [Option.isSome_none, Bool.false_or, Option.map_none]
      have hm := hmem k
      rw [← oldAt_perm hc2 hndall k, oldAt_append]
      by_cases hc : k ∈ consumed.map (·.sep)
      · have h2 : k ∉ (oldsOfB x.r.out ++ x.r.rest).map (·.sep) := fun h2 => hnd3 k hc k h2 rfl
        rw [if_pos ((hdelIff k).2 hc)]
        rw [oldAt_none (l := oldsOfB x.r.out ++ x.r.rest) (fun n hn e => h2 (List.mem_map.2 ⟨n, hn, e⟩))]
      · have : (delV tr.inner k).isSome = false := by
          cases h : (delV tr.inner k).isSome
          · rfl
          · exact absurd ((hdelIff k).1 h) hc
        rw [if_neg (by rw [this]; simp)]
        rw [oldAt_none (l := consumed) (fun n hn e => hc (List.mem_map.2 ⟨n, hn, e⟩))]
  · -- released pages
    have hfun : ∀ n ∈ db, (consumed.find? fun m => m.sep == n.sep).map (·.bbn) =
        if n.sep ∈ consumed.map (·.sep) then some n.bbn else none := by
      intro n hn
      by_cases hc : n.sep ∈ consumed.map (·.sep)
      · rw [if_pos hc]
        obtain ⟨m, hm, hk⟩ := List.mem_map.1 hc
        -- `m` and `n` are nodes of `db` with the same separator: the same node
        have hmdb : m ∈ db := hc2.mem_iff.1 (List.mem_append_left _ hm)
        have hmn : m = n := by
          have key : ∀ (l : List DbNode), (l.map (·.sep)).Nodup → m ∈ l → n ∈ l → m.sep = n.sep → m = n := by
            intro l
            induction l with
            | nil => intro _ h; cases h
            | cons y t ih =>
              intro hnd h1 h2 he
              simp only [List.map_cons, List.nodup_cons] at hnd
              rcases List.mem_cons.1 h1 with rfl | h1' <;> rcases List.mem_cons.1 h2 with rfl | h2'
              · rfl
              · exact absurd (List.mem_map.2 ⟨n, h2', he.symm⟩) hnd.1
              · exact (hnd.1 (List.mem_map.2 ⟨m, h1', he⟩)).elim
              · exact ih hnd.2 h1' h2' he
          exact key db (hsasc.imp (fun h => by omega)) hmdb hn hk
        subst hmn
        cases hf : consumed.find? (fun z => z.sep == m.sep) with
        | none => have := List.find?_eq_none.1 hf m hm; simp at this
        | some z =>
          have hz := List.mem_of_find?_eq_some hf
          have hzk : z.sep = m.sep := by have := List.find?_some hf; simpa using this
          have : z = m := by
            have key : ∀ (l : List DbNode), (l.map (·.sep)).Nodup → z ∈ l → m ∈ l → z.sep = m.sep → z = m := by
              intro l
              induction l with
              | nil => intro _ h; cases h
              | cons y t ih =>
                intro hnd h1 h2 he
                simp only [List.map_cons, List.nodup_cons] at hnd
                rcases List.mem_cons.1 h1 with rfl | h1' <;> rcases List.mem_cons.1 h2 with rfl | h2'
                · rfl
                · exact absurd (List.mem_map.2 ⟨m, h2', he.symm⟩) hnd.1
                · exact (hnd.1 (List.mem_map.2 ⟨z, h1', he⟩)).elim
                · exact ih hnd.2 h1' h2' he
            exact key consumed hnd1 hz hm hzk
          rw [this]; rfl
      · rw [if_neg hc]
        cases hf : consumed.find? (fun z => z.sep == n.sep) with
        | none => rfl
        | some z =>
          have hz := List.mem_of_find?_eq_some hf
          have hzk : z.sep = n.sep := by have := List.find?_some hf; simpa using this
          exact absurd (List.mem_map.2 ⟨z, hz, hzk⟩) hc
    -- page number as a function of the separator
    let f : Nat → Nat := fun k => ((db.find? fun n => n.sep == k).map (·.bbn)).getD 0
    have hf : ∀ n ∈ db, f n.sep = n.bbn := by
      intro n hn
      have key : ∀ (l : List DbNode), (l.map (·.sep)).Nodup → n ∈ l → (l.find? fun m => m.sep == n.sep) = some n := by
        intro l
        induction l with
        | nil => intro _ h; cases h
        | cons y t ih =>
          intro hnd h1
          simp only [List.map_cons, List.nodup_cons] at hnd
          rcases List.mem_cons.1 h1 with rfl | h1
          · simp
          · have : y.sep ≠ n.sep := fun e => hnd.1 (List.mem_map.2 ⟨n, h1, e.symm⟩)
            simp [List.find?_cons, this, ih hnd.2 h1]
      show ((db.find? fun m => m.sep == n.sep).map (·.bbn)).getD 0 = n.bbn
      rw [key db (hsasc.imp (fun h => by omega)) hn]
      rfl
    have hdf : ((db.filter fun n => decide (n.sep ∉ (oldsOfB x.r.out ++ x.r.rest).map (·.sep))).map (·.bbn)) =
        ((db.filter fun n => decide (n.sep ∉ (oldsOfB x.r.out ++ x.r.rest).map (·.sep))).map (·.sep)).map f := by
      rw [List.map_map]
      apply List.map_congr_left
      intro n hn
      exact (hf n (List.mem_filter.1 hn).1).symm
    rw [hdf]
    have hPk : ∀ k, (k ∈ db.map (·.sep) ∧ k ∉ (oldsOfB x.r.out ++ x.r.rest).map (·.sep)) ↔ k ∈ consumed.map (·.sep) := by
      intro k
      constructor
      · rintro ⟨h1, h2⟩
        rcases (hmem k).1 h1 with h | h
        · exact h
        · exact absurd h h2
      · intro h
        exact ⟨(hmem k).2 (Or.inl h), fun h2 => hnd3 k h k h2 rfl⟩
    have hval : ∀ k, k ∈ consumed.map (·.sep) → delV tr.inner k = some (f k) := by
      intro k hk
      obtain ⟨n, hn, rfl⟩ := List.mem_map.1 hk
      have hndb : n ∈ db := hc2.mem_iff.1 (List.mem_append_left _ hn)
      rw [hD' n.sep, hfun n hndb, if_pos hk, hf n hndb]
    apply trackerFreed_perm f (fun k => k ∈ db.map (·.sep) ∧ k ∉ (oldsOfB x.r.out ++ x.r.rest).map (·.sep)) tr.inner hasc
    · intro k
      by_cases hc : k ∈ consumed.map (·.sep)
      · exact Or.inr ⟨(hPk k).2 hc, hval k hc⟩
      · left
        cases h : delV tr.inner k with
        | none => rfl
        | some p => exact absurd ((hdelIff k).1 (by rw [h]; rfl)) hc
    · intro k hk
      exact hval k ((hPk k).1 hk)
    · have : ((db.map (·.sep)).filter fun s => decide (s ∉ (oldsOfB x.r.out ++ x.r.rest).map (·.sep))).Nodup :=
        ((List.Pairwise.filter _ hsasc).imp (fun h => by omega))
      rw [List.filter_map] at this
      exact this
    · intro k
      simp only [List.mem_map, List.mem_filter, decide_eq_true_eq]
      constructor
      · rintro ⟨l, ⟨hl, hn⟩, rfl⟩
        exact ⟨⟨l, hl, rfl⟩, hn⟩
      · rintro ⟨⟨l, hl, rfl⟩, hn⟩
        exact ⟨l, ⟨hl, hn⟩, rfl⟩
  · -- a `delete` call leaves an entry
    intro hne
    have hcne : consumed ≠ [] := by
      intro e; rw [e] at hc1; exact hne (by simpa using hc1)
    obtain ⟨n, t, hnt⟩ := List.exists_cons_of_ne_nil hcne
    have hk : n.sep ∈ consumed.map (·.sep) := by rw [hnt]; simp
    have hd := (hdelIff n.sep).2 hk
    unfold delV at hd
    cases hl : lookupE n.sep tr.inner with
    | none => rw [hl] at hd; cases hd
    | some e =>
      rw [hl] at hd
      simp only [Option.bind_some] at hd
      have hin : ∀ (inner : Inner Node), lookupE n.sep inner = some e → (n.sep, e) ∈ inner := by
        intro inner
        induction inner with
        | nil => intro h; cases h
        | cons y t ih =>
          intro h
          obtain ⟨k0, e0⟩ := y
          by_cases hk : n.sep = k0
          · subst hk; simp [lookupE] at h; subst h; simp
          · simp only [lookupE, hk, if_false] at h
            exact List.mem_cons_of_mem _ (ih h)
      intro hempty
      unfold trackerNodes at hempty
      have : (n.sep, e) ∈ tr.inner.filter fun (_, e) => e.inserted.isSome || e.deleted.isSome :=
        List.mem_filter.2 ⟨hin tr.inner hl, by simp [hd]⟩
      rw [List.map_eq_nil_iff] at hempty
      rw [hempty] at this
      cases this
  · -- an `insert` call leaves an entry
    intro hne
    obtain ⟨p, t, hpt⟩ := List.exists_cons_of_ne_nil hne
    have h1 := hI' p.sep
    rw [hpt] at h1
    simp only [newAtB, if_true] at h1
    cases hi : insV tr.inner p.sep with
    | none => rw [hi] at h1; cases h1
    | some y =>
      unfold insV at hi
      cases hl : lookupE p.sep tr.inner with
      | none => rw [hl] at hi; cases hi
      | some e =>
        rw [hl] at hi
        simp only [Option.bind_some] at hi
        intro hempty
        unfold trackerNodes at hempty
        have : (p.sep, e) ∈ tr.inner.filter fun (_, e) => e.inserted.isSome || e.deleted.isSome :=
          List.mem_filter.2 ⟨mem_of_lookupE hl, by simp [hi]⟩
        rw [List.map_eq_nil_iff] at hempty
        rw [hempty] at this
        cases this

end Nomt.StageGlue
