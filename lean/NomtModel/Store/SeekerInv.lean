import NomtModel.Store.SeekerRun
import NomtModel.Store.SeekRun
/-!
# The refinement invariant of the `Seeker`: the waiter lists name exactly the requests that wait
(helper lemmas for `Props/C05_Seeker.lean`, `T5_seeker_is_proveSpec`)

The `Seeker` (`Store/Seeker.lean`) is tied to the request-level system `Sys` of `Store/Seek.lean` by a GHOST function
`aw : request index → Option Query` ("what the request is waiting for"): `absSys m aw` is the `Sys` whose requests are
the live requests of `m`, each tagged with `aw` of its absolute index.  `MInv` says: that `Sys` satisfies `SysInv`
(Q18's invariant), every index on the waiter list of `q` has `aw = some q` and is live, every index in `idle_requests`
has `aw = none`, the slab's free list is well formed, every page load in the slab is for a page the hash table holds
and its probe counter has not passed the bucket of the page, and the reads in flight / the parked loads point to
slab entries of the right kind and state.
-/
namespace Nomt.Seeker
open Nomt Nomt.Ovl Nomt.TriePos Nomt.Seek

variable {Node VH V : Type}

/-! ### the ghost tagging -/

def upd (aw : Nat → Option Query) (idx : Nat) (v : Option Query) : Nat → Option Query :=
  fun j => if j = idx then v else aw j

theorem upd_self (aw : Nat → Option Query) (idx : Nat) (v : Option Query) : upd aw idx v idx = v := by simp [upd]
theorem upd_ne (aw : Nat → Option Query) {idx j : Nat} (v : Option Query) (h : j ≠ idx) : upd aw idx v j = aw j := by
  simp [upd, h]

def tag (aw : Nat → Option Query) : Nat → List (Req Node VH V) → List (Req Node VH V × Option Query)
  | _, [] => []
  | p, r :: rs => (r, aw p) :: tag aw (p + 1) rs

theorem tag_getElem? (aw : Nat → Option Query) : ∀ (l : List (Req Node VH V)) (p i : Nat),
    (tag aw p l)[i]? = (l[i]?).map (fun r => (r, aw (p + i)))
  | [], p, i => by simp [tag]
  | r :: rs, p, 0 => by simp [tag]
  | r :: rs, p, i + 1 => by
    simp only [tag, List.getElem?_cons_succ]
    rw [tag_getElem? aw rs (p + 1) i]
    have : p + 1 + i = p + (i + 1) := by omega
    rw [this]

theorem tag_length (aw : Nat → Option Query) : ∀ (l : List (Req Node VH V)) (p : Nat), (tag aw p l).length = l.length
  | [], p => rfl
  | r :: rs, p => by simp [tag, tag_length aw rs (p + 1)]

theorem tag_set_upd (aw : Nat → Option Query) (l : List (Req Node VH V)) (p i : Nat) (r' : Req Node VH V)
    (v : Option Query) : tag (upd aw (p + i) v) p (l.set i r') = (tag aw p l).set i (r', v) := by
  apply List.ext_getElem?
  intro j
  rw [tag_getElem?, List.getElem?_set, List.getElem?_set, tag_getElem?, tag_length]
  by_cases hij : i = j
  · subst hij
    simp only [if_true]
    by_cases hlt : i < l.length
    · simp [hlt, upd]
    · simp [hlt]
  · simp only [if_neg hij]
    have : p + j ≠ p + i := by omega
    rw [upd_ne _ _ this]

theorem tag_set (aw : Nat → Option Query) (l : List (Req Node VH V)) (p i : Nat) (r' : Req Node VH V) :
    tag aw p (l.set i r') = (tag aw p l).set i (r', aw (p + i)) := by
  have := tag_set_upd aw l p i r' (aw (p + i))
  have e : upd aw (p + i) (aw (p + i)) = aw := by
    funext j; unfold upd; split
    · rename_i h; rw [h]
    · rfl
  rw [e] at this
  exact this

theorem tag_append (aw : Nat → Option Query) : ∀ (l : List (Req Node VH V)) (p : Nat) (r : Req Node VH V),
    tag aw p (l ++ [r]) = tag aw p l ++ [(r, aw (p + l.length))]
  | [], p, r => by simp [tag]
  | a :: as, p, r => by
    simp only [List.cons_append, tag, List.length_cons]
    rw [tag_append aw as (p + 1) r]
    have : p + 1 + as.length = p + (as.length + 1) := by omega
    rw [this]

theorem tag_congr (aw aw' : Nat → Option Query) : ∀ (l : List (Req Node VH V)) (p : Nat),
    (∀ i, i < l.length → aw (p + i) = aw' (p + i)) → tag aw p l = tag aw' p l
  | [], p, _ => rfl
  | a :: as, p, h => by
    simp only [tag]
    have h0 := h 0 (by simp)
    simp only [Nat.add_zero] at h0
    rw [h0, tag_congr aw aw' as (p + 1) (fun i hi => by
      have := h (i + 1) (by simp; omega)
      have e : p + 1 + i = p + (i + 1) := by omega
      rw [e]; exact this)]

/-- the request-level system a seeker state stands for -/
def absSys (m : Mux Node VH V) (aw : Nat → Option Query) : Sys Node VH V :=
  { ps := m.ps, cache := m.cache, reqs := tag aw m.processed m.reqs }

/-! ### the slab's free list -/

/-- the vacant entries chained from `k`, ending at `entries.length` -/
inductive Chain (es : List Entry) : Nat → List Nat → Prop
  | nil : Chain es es.length []
  | cons {k n : Nat} {ks : List Nat} : es[k]? = some (.vac n) → Chain es n ks → k ∉ ks → Chain es k (k :: ks)

def Slab.WF (s : Slab) : Prop := ∃ ks, Chain s.entries s.next ks

theorem chain_mem_vac {es : List Entry} : ∀ {n : Nat} {ks : List Nat}, Chain es n ks → ∀ k ∈ ks, ∃ n', es[k]? = some (.vac n') := by
  intro n ks h
  induction h with
  | nil => intro k hk; cases hk
  | cons h1 _ _ ih =>
    intro k hk
    rcases List.mem_cons.1 hk with rfl | hk
    · exact ⟨_, h1⟩
    · exact ih k hk

theorem chain_set {es : List Entry} (k : Nat) (e : Entry) : ∀ {n : Nat} {ks : List Nat}, Chain es n ks → k ∉ ks →
    Chain (es.set k e) n ks := by
  intro n ks h
  induction h with
  | nil =>
    intro _
    have := @Chain.nil (es.set k e)
    rw [List.length_set] at this
    exact this
  | @cons k' n' ks' h1 _ h3 ih =>
    intro hk
    have hne : k ≠ k' := fun e => hk (by rw [e]; exact List.mem_cons_self ..)
    refine Chain.cons ?_ (ih (fun h => hk (List.mem_cons_of_mem _ h))) h3
    rw [List.getElem?_set]
    simp [hne, h1]

theorem chain_head {es : List Entry} {n : Nat} {ks : List Nat} (h : Chain es n ks) :
    n = es.length ∨ ∃ n', es[n]? = some (.vac n') := by
  cases h with
  | nil => exact .inl rfl
  | cons h1 _ _ => exact .inr ⟨_, h1⟩

theorem chain_inv {es : List Entry} {n : Nat} {ks : List Nat} (h : Chain es n ks) :
    (n = es.length ∧ ks = []) ∨ ∃ n' ks', ks = n :: ks' ∧ es[n]? = some (.vac n') ∧ Chain es n' ks' ∧ n ∉ ks' := by
  cases h with
  | nil => exact .inl ⟨rfl, rfl⟩
  | cons h1 h2 h3 => exact .inr ⟨_, _, rfl, h1, h2, h3⟩

theorem Slab.get_lt {s : Slab} {k : Nat} {v : IoReq} (h : s.get k = some v) : s.entries[k]? = some (.occ v) := by
  unfold Slab.get at h
  split at h
  · rename_i r hr; cases h; exact hr
  · cases h

theorem Slab.get_of_occ {s : Slab} {k : Nat} {v : IoReq} (h : s.entries[k]? = some (.occ v)) : s.get k = some v := by
  unfold Slab.get; rw [h]

/-- `insert` never reaches its `unreachable!` on a well-formed slab -/
theorem Slab.insert_ok (s : Slab) (hwf : s.WF) (v : IoReq) :
    ∃ s' k, s.insert v = .ok (s', k) ∧ s'.WF ∧ s.get k = none ∧ s'.get k = some v ∧ ∀ j, j ≠ k → s'.get j = s.get j := by
  obtain ⟨ks, hc⟩ := hwf
  unfold Slab.insert
  by_cases hn : s.next = s.entries.length
  · rw [if_pos hn]
    refine ⟨_, _, rfl, ⟨[], ?_⟩, ?_, ?_, ?_⟩
    · have := @Chain.nil (s.entries ++ [Entry.occ v])
      simp only [List.length_append, List.length_singleton] at this
      simp only
      rw [hn]; exact this
    · simp [Slab.get, hn]
    · simp [Slab.get, hn]
    · intro j hj
      simp only [Slab.get]
      by_cases hlt : j < s.entries.length
      · rw [List.getElem?_append_left hlt]
      · have e1 : s.entries[j]? = none := List.getElem?_eq_none (by omega)
        have e2 : (s.entries ++ [Entry.occ v])[j]? = none :=
          List.getElem?_eq_none (by simp only [List.length_append, List.length_singleton]; omega)
        rw [e1, e2]
  · rw [if_neg hn]
    rcases chain_inv hc with ⟨h0, _⟩ | ⟨n, ks', _, h1, h2, h3⟩
    · exact absurd h0 hn
    · rw [h1]
      have hlt : s.next < s.entries.length := (List.getElem?_eq_some_iff.1 h1).1
      refine ⟨_, _, rfl, ⟨ks', chain_set _ _ h2 h3⟩, by simp [Slab.get, h1], ?_, ?_⟩
      · simp [Slab.get, List.getElem?_set, hlt]
      · intro j hj
        simp only [Slab.get]
        rw [List.getElem?_set]
        have : ¬ s.next = j := fun e => hj e.symm
        simp [this]

theorem Slab.remove_ok (s : Slab) (hwf : s.WF) (k : Nat) (v : IoReq) (hg : s.get k = some v) :
    ∃ s', s.remove k = .ok (s', v) ∧ s'.WF ∧ s'.get k = none ∧ ∀ j, j ≠ k → s'.get j = s.get j := by
  obtain ⟨ks, hc⟩ := hwf
  have ho := Slab.get_lt hg
  have hlt : k < s.entries.length := (List.getElem?_eq_some_iff.1 ho).1
  unfold Slab.remove
  rw [ho]
  have hk : k ∉ ks := by
    intro hm
    obtain ⟨n', hn'⟩ := chain_mem_vac hc k hm
    rw [ho] at hn'; cases hn'
  refine ⟨_, rfl, ⟨k :: ks, Chain.cons ?_ (chain_set _ _ hc hk) hk⟩, ?_, ?_⟩
  · simp [List.getElem?_set, hlt]
  · simp [Slab.get, List.getElem?_set, hlt]
  · intro j hj
    simp only [Slab.get]
    rw [List.getElem?_set]
    have : ¬ k = j := fun e => hj e.symm
    simp [this]

theorem Slab.put_ok (s : Slab) (hwf : s.WF) (k : Nat) (v0 v : IoReq) (hg : s.get k = some v0) :
    (s.put k v).WF ∧ (s.put k v).get k = some v ∧ ∀ j, j ≠ k → (s.put k v).get j = s.get j := by
  obtain ⟨ks, hc⟩ := hwf
  have ho := Slab.get_lt hg
  have hlt : k < s.entries.length := (List.getElem?_eq_some_iff.1 ho).1
  have hk : k ∉ ks := by
    intro hm
    obtain ⟨n', hn'⟩ := chain_mem_vac hc k hm
    rw [ho] at hn'; cases hn'
  refine ⟨⟨ks, chain_set _ _ hc hk⟩, ?_, ?_⟩
  · simp [Slab.put, Slab.get, List.getElem?_set, hlt]
  · intro j hj
    simp only [Slab.put, Slab.get]
    rw [List.getElem?_set]
    have : ¬ k = j := fun e => hj e.symm
    simp [this]

/-! ### the invariant -/

section inv
variable [DecidableEq Node] [DecidableEq VH]

/-- what is known of a page some load is in progress for (facts about the world only) -/
structure PageFacts (W : World Node VH V) (pid : PageId) : Prop where
  ov : W.env.ovPages.lookup pid = none
  ud : W.U pid = W.env.disk.lookup pid
  good : ∃ pg, W.U pid = some pg ∧ ∀ ps, PGood W ps pid pg

/-- the probe sequence of every stored page reaches a bucket labelled with the page -/
def HtOK (W : World Node VH V) (ht : Ht) : Prop :=
  ∀ pid page, W.env.disk.lookup pid = some page → ∃ (j b : Nat), (ht.probes pid)[j]? = some b ∧ ht.label b = some pid ∧
    ∀ (j' b' : Nat), j' < j → (ht.probes pid)[j']? = some b' → ht.label b' ≠ some pid

/-- the probe counter `k` of a load has not passed the bucket of the page -/
def ProbeOK (ht : Ht) (pid : PageId) (k : Nat) (sub : Bool) : Prop :=
  ∃ (j b : Nat), (ht.probes pid)[j]? = some b ∧ ht.label b = some pid ∧
    (∀ (j' b' : Nat), j' < j → (ht.probes pid)[j']? = some b' → ht.label b' ≠ some pid) ∧
    (if sub then 1 ≤ k ∧ k ≤ j + 1 else k ≤ j)

/-- a read in flight belongs to a submitted load of the right kind -/
def InflOK (ht : Ht) (slab : Slab) (ud : Nat) (cmd : Cmd) : Prop :=
  (∃ pid k b, slab.get ud = some (.merkle pid k true) ∧ cmd = .bucket b ∧ 1 ≤ k ∧ (ht.probes pid)[k - 1]? = some b) ∨
  (∃ l, slab.get ud = some (.leaf l) ∧ cmd = .leaf l)

structure MInv (W : World Node VH V) (ht : Ht) (m : Mux Node VH V) (aw : Nat → Option Query) : Prop where
  sys : SysInv W (absSys m aw)
  wkeys : (m.waiters.map (·.1)).Nodup
  wmem : ∀ q w, (q, w) ∈ m.waiters → w.Nodup ∧ ∀ idx ∈ w, aw idx = some q ∧ m.processed ≤ idx ∧ idx < m.processed + m.reqs.length
  idleN : m.idleReqs.Nodup
  idle : ∀ idx ∈ m.idleReqs, aw idx = none ∧ idx < m.processed + m.reqs.length
  slabwf : m.slab.WF
  merk : ∀ si pid k sub, m.slab.get si = some (.merkle pid k sub) → PageFacts W pid ∧ ProbeOK ht pid k sub
  inflN : (m.inflight.map (·.1)).Nodup
  infl : ∀ ud cmd, (ud, cmd) ∈ m.inflight → InflOK ht m.slab ud cmd
  idleLN : m.idleLoads.Nodup
  idleL : ∀ si ∈ m.idleLoads, ∃ pid k, m.slab.get si = some (.merkle pid k false)

theorem absSys_get {m : Mux Node VH V} {aw : Nat → Option Query} {i : Nat} {r : Req Node VH V} (h : m.reqs[i]? = some r) :
    (absSys m aw).reqs[i]? = some (r, aw (m.processed + i)) := by
  simp [absSys, tag_getElem?, h]

theorem minv_req {W : World Node VH V} {ht : Ht} {m : Mux Node VH V} {aw : Nat → Option Query} (h : MInv W ht m aw)
    {i : Nat} {r : Req Node VH V} (hi : m.reqs[i]? = some r) : ReqOK W m.ps r (aw (m.processed + i)) :=
  h.sys.reqs _ (List.mem_of_getElem? (absSys_get hi))

theorem completed_aw {W : World Node VH V} {ps : PageSet Node} {r : Req Node VH V} {a : Option Query}
    (h : ReqOK W ps r a) (hc : r.isCompleted = true) : a = none := by
  obtain ⟨_, _, hst⟩ := h
  unfold StOK at hst
  unfold Req.isCompleted at hc
  cases hs : r.st with
  | completed t => rw [hs] at hst; exact hst.1
  | seeking => rw [hs] at hc; cases hc
  | fetchingLeaf dels it needed => rw [hs] at hc; cases hc
  | fetchingLeaves page range it needed coll => rw [hs] at hc; cases hc

/-- `push` -/
theorem push_inv (W : World Node VH V) (hOK : W.OK) (ht : Ht) (m : Mux Node VH V) (aw : Nat → Option Query)
    (h : MInv W ht m aw) (key : Key) (hk : key.length = KEY_BITS) :
    ∃ m', Seeker.push W.env m key = .ok m' ∧ MInv W ht m' (upd aw (m.processed + m.reqs.length) none) := by
  obtain ⟨s', e1, e2, r, e3, _⟩ := push_ok W hOK (absSys m aw) h.sys key hk
  unfold Seek.push at e1
  unfold Seeker.push
  cases hn : Req.new W.env key with
  | panic s => rw [hn] at e1; cases e1
  | err e => rw [hn] at e1; cases e1
  | ok r0 =>
    rw [hn] at e1
    simp only at e1 ⊢
    cases e1
    refine ⟨_, rfl, ?_⟩
    have hlt : ∀ idx, idx < m.processed + m.reqs.length → upd aw (m.processed + m.reqs.length) none idx = aw idx :=
      fun idx hidx => upd_ne _ _ (by omega)
    refine ⟨?_, h.wkeys, ?_, ?_, ?_, h.slabwf, h.merk, h.inflN, h.infl, h.idleLN, h.idleL⟩
    · have : absSys { m with reqs := m.reqs ++ [r0], idleReqs := m.idleReqs ++ [m.processed + m.reqs.length] }
          (upd aw (m.processed + m.reqs.length) none) =
          { absSys m aw with reqs := (absSys m aw).reqs ++ [(r0, none)] } := by
        simp only [absSys]
        rw [tag_append, upd_self, tag_congr _ aw m.reqs m.processed (fun i hi => hlt _ (by omega))]
      rw [this]; exact e2
    · intro q w hqw
      obtain ⟨h1, h2⟩ := h.wmem q w hqw
      refine ⟨h1, fun idx hidx => ?_⟩
      obtain ⟨a, b, c⟩ := h2 idx hidx
      simp only [List.length_append, List.length_singleton]
      exact ⟨by rw [hlt idx c]; exact a, b, by omega⟩
    · simp only
      rw [List.nodup_append]
      refine ⟨h.idleN, by simp, ?_⟩
      intro a ha b hb
      have : b = m.processed + m.reqs.length := by simpa using hb
      have := (h.idle a ha).2
      omega
    · intro idx hidx
      simp only [List.length_append, List.length_singleton]
      rcases List.mem_append.1 hidx with h1 | h1
      · obtain ⟨a, b⟩ := h.idle idx h1
        exact ⟨by rw [hlt idx b]; exact a, by omega⟩
      · have : idx = m.processed + m.reqs.length := by simpa using h1
        subst this
        exact ⟨upd_self _ _ _, by omega⟩

/-- `take_completion` -/
theorem take_inv (W : World Node VH V) (ht : Ht) (m : Mux Node VH V) (aw : Nat → Option Query) (h : MInv W ht m aw) :
    MInv W ht (takeCompletion m).1 aw := by
  unfold takeCompletion
  split
  · rename_i r rest hm
    split
    · rename_i hc
      have hr : ReqOK W m.ps r (aw (m.processed + 0)) := minv_req h (i := 0) (by rw [hm]; rfl)
      have ha : aw m.processed = none := by simpa using completed_aw hr hc
      have hlen : m.reqs.length = rest.length + 1 := by rw [hm]; rfl
      refine ⟨?_, h.wkeys, ?_, h.idleN, ?_, h.slabwf, h.merk, h.inflN, h.infl, h.idleLN, h.idleL⟩
      · refine ⟨h.sys.ps, h.sys.mem, ?_⟩
        intro x hx
        apply h.sys.reqs x
        simp only [absSys] at hx ⊢
        rw [hm]
        simp only [tag]
        exact List.mem_cons_of_mem _ hx
      · intro q w hqw
        obtain ⟨h1, h2⟩ := h.wmem q w hqw
        refine ⟨h1, fun idx hidx => ?_⟩
        obtain ⟨a, b, c⟩ := h2 idx hidx
        have : idx ≠ m.processed := fun e => by rw [e, ha] at a; cases a
        simp only
        exact ⟨a, by omega, by omega⟩
      · intro idx hidx
        obtain ⟨a, b⟩ := h.idle idx hidx
        simp only
        exact ⟨a, by omega⟩
    · exact h
  · exact h

/-- `recvErr`: the read disappears from the pool -/
theorem recvErr_inv (W : World Node VH V) (ht : Ht) (m : Mux Node VH V) (aw : Nat → Option Query) (h : MInv W ht m aw)
    (ud : Nat) : MInv W ht (recvErr m ud) aw := by
  unfold recvErr
  refine ⟨h.sys, h.wkeys, h.wmem, h.idleN, h.idle, h.slabwf, h.merk, ?_, ?_, h.idleLN, h.idleL⟩
  · exact List.Pairwise.sublist (List.Sublist.map _ (List.eraseP_sublist ..)) h.inflN
  · intro u c hc
    exact h.infl u c (List.mem_of_mem_eraseP hc)

/-- a leaf for a request that waits for it: what `feedLeaf` does is `Sys.supplyLeaf` -/
theorem feedLeaf_sys (W : World Node VH V) (hOK : W.OK) (s : Sys Node VH V) (hs : SysInv W s) (i : Nat) (r : Req Node VH V)
    (l : Nat) (hi : s.reqs[i]? = some (r, some (.leaf l))) :
    ∃ ps' r', feedLeaf W.env s.ps r l = .ok (ps', r') ∧
      SysInv W { ps := ps', cache := s.cache, reqs := s.reqs.set i (r', none) } ∧
      sysMeasure W.env.leaves.length { ps := ps', cache := s.cache, reqs := s.reqs.set i (r', none) } <
        sysMeasure W.env.leaves.length s ∧ r.isCompleted = false := by
  rcases supplyLeaf_ok W hOK s hs i with ⟨s', e, hs', hm⟩ | ⟨_, hne⟩
  · unfold supplyLeaf at e
    rw [hi] at e
    simp only at e
    unfold forceLeaf at e
    have hget : (setReq s i (r, none)).reqs[i]? = some (r, none) := getElem?_set_self hi
    rw [hget] at e
    unfold feedLeaf
    cases hleaf : W.env.leaves[l]? with
    | none => rw [hleaf] at e; cases e
    | some leaf =>
      rw [hleaf] at e
      simp only at e ⊢
      cases hcmp : r.isCompleted with
      | true => rw [hcmp] at e; cases e
      | false =>
        rw [hcmp] at e
        simp only [Bool.false_eq_true, if_false] at e
        cases hst : r.st with
        | seeking => rw [hst] at e; cases e
        | completed t => rw [hst] at e; cases e
        | fetchingLeaf dels it needed =>
          rw [hst] at e
          simp only at e ⊢
          cases hc : continueLeafFetch W.env r (some leaf) with
          | panic x => rw [hc] at e; cases e
          | err x => rw [hc] at e; cases e
          | ok r' =>
            rw [hc] at e
            simp only at e ⊢
            cases e
            have : setReq (setReq s i (r, none)) i (r', none) =
                { ps := s.ps, cache := s.cache, reqs := s.reqs.set i (r', none) } := by
              simp [setReq, List.set_set]
            rw [this] at hs' hm
            exact ⟨_, _, rfl, hs', hm, by first | rfl | trivial⟩
        | fetchingLeaves page range it needed coll =>
          rw [hst] at e
          simp only at e ⊢
          have e0 : (setReq s i (r, none)).ps = s.ps := rfl
          rw [e0] at e
          cases hc : continueLeavesFetch W.env s.ps r (some leaf) with
          | panic x => rw [hc] at e; cases e
          | err x => rw [hc] at e; cases e
          | ok x =>
            obtain ⟨ps', r'⟩ := x
            rw [hc] at e
            simp only at e ⊢
            cases e
            have : ({ setReq s i (r, none) with ps := ps', reqs := (setReq s i (r, none)).reqs.set i (r', none) } : Sys Node VH V) =
                { ps := ps', cache := s.cache, reqs := s.reqs.set i (r', none) } := by
              simp [setReq, List.set_set]
            rw [this] at hs' hm
            exact ⟨_, _, rfl, hs', hm, by first | rfl | trivial⟩
  · exact absurd hi (hne r l)

/-- a parked load (occupied, not submitted, in neither queue) is probed: `submit_idle_page_load` -/
theorem submitIdleLoad_inv (W : World Node VH V) (ht : Ht) (m : Mux Node VH V) (aw : Nat → Option Query)
    (h : MInv W ht m aw) (si : Nat) (pid : PageId) (k : Nat) (hg : m.slab.get si = some (.merkle pid k false))
    (hnl : si ∉ m.idleLoads) :
    ∃ m', submitIdleLoad ht m si = .ok m' ∧ MInv W ht m' aw ∧ m'.reqs = m.reqs ∧ m'.processed = m.processed ∧
      m'.idleReqs = m.idleReqs ∧ m'.idleLoads = m.idleLoads ∧ m'.waiters = m.waiters ∧ m'.ps = m.ps ∧ m'.cache = m.cache ∧
      m'.maxInflight = m.maxInflight := by
  obtain ⟨hpf, j, b, hj, hlab, hbefore, hk⟩ := h.merk si pid k false hg
  simp only [Bool.false_eq_true, if_false] at hk
  have hjl : j < (ht.probes pid).length := (List.getElem?_eq_some_iff.1 hj).1
  have hkl : k < (ht.probes pid).length := by omega
  have hni : si ∉ m.inflight.map (·.1) := by
    intro hm
    obtain ⟨⟨u, c⟩, hc, hu⟩ := List.mem_map.1 hm
    simp only at hu; subst hu
    rcases h.infl u c hc with ⟨_, _, _, e, _⟩ | ⟨_, e, _⟩
    · rw [hg] at e; cases e
    · rw [hg] at e; cases e
  unfold submitIdleLoad
  rw [hg]
  simp only
  rw [List.getElem?_eq_getElem hkl]
  simp only
  obtain ⟨p1, p2, p3⟩ := Slab.put_ok m.slab h.slabwf si _ (.merkle pid (k + 1) true) hg
  refine ⟨_, rfl, ?_, rfl, rfl, rfl, rfl, rfl, rfl, rfl, rfl⟩
  refine ⟨h.sys, h.wkeys, h.wmem, h.idleN, h.idle, p1, ?_, ?_, ?_, h.idleLN, ?_⟩
  · intro si' pid' k' sub' hg'
    by_cases hs : si' = si
    · subst hs
      simp only at hg'
      rw [p2] at hg'
      cases hg'
      exact ⟨hpf, j, b, hj, hlab, hbefore, by simp; omega⟩
    · simp only at hg'
      rw [p3 si' hs] at hg'
      exact h.merk si' pid' k' sub' hg'
  · simp only [List.map_append, List.map_cons, List.map_nil]
    rw [List.nodup_append]
    refine ⟨h.inflN, by simp, ?_⟩
    intro a ha b' hb
    have : b' = si := by simpa using hb
    subst this
    exact fun e => hni (e ▸ ha)
  · intro u c hc
    simp only at hc ⊢
    rcases List.mem_append.1 hc with h1 | h1
    · have hne : u ≠ si := fun e => hni (by rw [← e]; exact List.mem_map.2 ⟨(u, c), h1, rfl⟩)
      unfold InflOK
      rw [p3 u hne]
      exact h.infl u c h1
    · have : (u, c) = (si, Cmd.bucket (ht.probes pid)[k]) := by simpa using h1
      cases this
      exact .inl ⟨pid, k + 1, _, p2, rfl, by omega, by simp [List.getElem?_eq_getElem hkl]⟩
  · intro si' hs'
    have hne : si' ≠ si := fun e => hnl (e ▸ hs')
    simp only
    rw [p3 si' hne]
    exact h.idleL si' hs'

theorem minv_idleLoads_tail {W : World Node VH V} {ht : Ht} {m : Mux Node VH V} {aw : Nat → Option Query}
    (h : MInv W ht m aw) {si : Nat} {rest : List Nat} (hl : m.idleLoads = si :: rest) :
    MInv W ht { m with idleLoads := rest } aw ∧ si ∉ rest ∧ ∃ pid k, m.slab.get si = some (.merkle pid k false) := by
  have hn := h.idleLN
  rw [hl] at hn
  have hn' := List.nodup_cons.1 hn
  refine ⟨⟨h.sys, h.wkeys, h.wmem, h.idleN, h.idle, h.slabwf, h.merk, h.inflN, h.infl, hn'.2, ?_⟩, hn'.1, ?_⟩
  · intro s hs
    exact h.idleL s (by rw [hl]; exact List.mem_cons_of_mem _ hs)
  · exact h.idleL si (by rw [hl]; exact List.mem_cons_self ..)

/-- `submit_idle_page_loads` -/
theorem submitIdleLoads_inv (W : World Node VH V) (ht : Ht) (aw : Nat → Option Query) : ∀ (l : List Nat) (m : Mux Node VH V),
    MInv W ht m aw → m.idleLoads = l →
    ∃ m', submitIdleLoads ht l m = .ok m' ∧ MInv W ht m' aw ∧ m'.reqs = m.reqs ∧ m'.processed = m.processed ∧
      m'.idleReqs = m.idleReqs ∧ m'.idleLoads = [] ∧ m'.waiters = m.waiters ∧ m'.maxInflight = m.maxInflight
  | [], m, h, hl => ⟨m, rfl, h, rfl, rfl, rfl, hl, rfl, rfl⟩
  | si :: rest, m, h, hl => by
    obtain ⟨h1, hnr, pid, k, hg⟩ := minv_idleLoads_tail h hl
    obtain ⟨m1, e1, i1, f1, f2, f3, f4, f5, _, _, f8⟩ := submitIdleLoad_inv W ht _ aw h1 si pid k hg hnr
    obtain ⟨m2, e2, i2, g1, g2, g3, g4, g5, g6⟩ := submitIdleLoads_inv W ht aw rest m1 i1 f4
    unfold submitIdleLoads
    rw [e1]
    simp only
    exact ⟨m2, e2, i2, g1.trans f1, g2.trans f2, g3.trans f3, g4, g5.trans f5, g6.trans f8⟩

/-! ### helpers for `submit_key_path_request` -/

theorem reqOK_ios {W : World Node VH V} {ps : PageSet Node} {r : Req Node VH V} {a : Option Query} (h : ReqOK W ps r a)
    (n : Nat) : ReqOK W ps { r with ios := n } a :=
  ⟨⟨h.1.klen, h.1.wf, h.1.raw, h.1.through, h.1.sibs⟩, h.2.1, h.2.2⟩

theorem reqMeasure_ios (N : Nat) (r : Req Node VH V) (a : Option Query) (n : Nat) :
    reqMeasure N { r with ios := n } a = reqMeasure N r a := rfl

theorem sum_set_eq {α : Type} (f : α → Nat) : ∀ (l : List α) (i : Nat) (x y : α), l[i]? = some x →
    ((l.set i y).map f).sum + f x = (l.map f).sum + f y
  | [], i, x, y, h => by simp at h
  | a :: as, 0, x, y, h => by
    simp only [List.getElem?_cons_zero, Option.some.injEq] at h
    subst h
    simp only [List.set_cons_zero, List.map_cons, List.sum_cons]
    omega
  | a :: as, i + 1, x, y, h => by
    simp only [List.getElem?_cons_succ] at h
    have := sum_set_eq f as i x y h
    simp only [List.set_cons_succ, List.map_cons, List.sum_cons]
    omega

/-- a decrease of the system's measure by an operation on request `i` is a decrease of that request's measure -/
theorem measure_of_sys {N : Nat} {s : Sys Node VH V} {i : Nat} {x y : Req Node VH V × Option Query}
    (hi : s.reqs[i]? = some x) {ps' : PageSet Node} {cache' : List (PageId × MPage Node)}
    (h : sysMeasure N { ps := ps', cache := cache', reqs := s.reqs.set i y } < sysMeasure N s) :
    reqMeasure N y.1 y.2 < reqMeasure N x.1 x.2 := by
  unfold sysMeasure at h
  have := sum_set_eq (fun x => reqMeasure N x.1 x.2) s.reqs i x y hi
  simp only at this h
  omega

theorem lookup_mem {β : Type} : ∀ (ws : List (Query × β)) (q : Query) (w : β), ws.lookup q = some w → (q, w) ∈ ws
  | [], q, w, h => by simp at h
  | (q', w') :: rest, q, w, h => by
    simp only [List.lookup_cons] at h
    by_cases e : q = q'
    · subst e
      simp at h
      subst h
      exact List.mem_cons_self ..
    · have : (q == q') = false := by simpa using e
      rw [this] at h
      exact List.mem_cons_of_mem _ (lookup_mem rest q w h)

theorem lookup_none {β : Type} : ∀ (ws : List (Query × β)) (q : Query), ws.lookup q = none → q ∉ ws.map (·.1)
  | [], q, _ => by simp
  | (q', w') :: rest, q, h => by
    simp only [List.lookup_cons] at h
    by_cases e : q = q'
    · subst e; simp at h
    · have : (q == q') = false := by simpa using e
      rw [this] at h
      simp only [List.map_cons, List.mem_cons, not_or]
      exact ⟨e, lookup_none rest q h⟩

/-- a request starts to wait: it goes onto a waiter list (an existing one, or a new one at the end) -/
theorem wait_inv (W : World Node VH V) (ht : Ht) (m : Mux Node VH V) (aw : Nat → Option Query) (h : MInv W ht m aw)
    (idx : Nat) (r r1 : Req Node VH V) (q : Query) (hp : m.processed ≤ idx) (hi : m.reqs[idx - m.processed]? = some r)
    (ha : aw idx = none) (hid : idx ∉ m.idleReqs) (hr1 : ReqOK W m.ps r1 (some q)) (ws' : List (Query × List Nat))
    (hk : (ws'.map (·.1)).Nodup)
    (hmem : ∀ q' w', (q', w') ∈ ws' → (q', w') ∈ m.waiters ∨
      (q' = q ∧ ((∃ w0, (q, w0) ∈ m.waiters ∧ w' = w0 ++ [idx]) ∨ w' = [idx]))) :
    MInv W ht { m with reqs := m.reqs.set (idx - m.processed) r1, waiters := ws' } (upd aw idx (some q)) := by
  have hlt : idx - m.processed < m.reqs.length := (List.getElem?_eq_some_iff.1 hi).1
  have hpi : m.processed + (idx - m.processed) = idx := by omega
  refine ⟨?_, hk, ?_, h.idleN, ?_, h.slabwf, h.merk, h.inflN, h.infl, h.idleLN, h.idleL⟩
  · have : absSys { m with reqs := m.reqs.set (idx - m.processed) r1, waiters := ws' } (upd aw idx (some q)) =
        { ps := m.ps, cache := m.cache, reqs := (absSys m aw).reqs.set (idx - m.processed) (r1, some q) } := by
      simp only [absSys]
      have := tag_set_upd aw m.reqs m.processed (idx - m.processed) r1 (some q)
      rw [hpi] at this
      rw [this]
    rw [this]
    exact sysinv_set h.sys h.sys.ps (ext_refl _) h.sys.mem _ hr1
  · intro q' w' hqw
    simp only [List.length_set]
    have old : ∀ w0, (q', w0) ∈ m.waiters → w0.Nodup ∧ ∀ idx' ∈ w0, upd aw idx (some q) idx' = some q' ∧ m.processed ≤ idx' ∧
        idx' < m.processed + m.reqs.length := by
      intro w0 h0
      obtain ⟨n0, h2⟩ := h.wmem q' w0 h0
      refine ⟨n0, fun idx' hidx' => ?_⟩
      obtain ⟨a, b, c⟩ := h2 idx' hidx'
      have : idx' ≠ idx := fun e => by rw [e, ha] at a; cases a
      exact ⟨by rw [upd_ne _ _ this]; exact a, b, c⟩
    rcases hmem q' w' hqw with h0 | ⟨rfl, ⟨w0, h0, rfl⟩ | rfl⟩
    · exact old w' h0
    · obtain ⟨n0, h2⟩ := old w0 h0
      have hni : idx ∉ w0 := by
        intro hm
        have := (h.wmem q' w0 h0).2 idx hm
        rw [ha] at this; cases this.1
      refine ⟨?_, fun idx' hidx' => ?_⟩
      · rw [List.nodup_append]
        refine ⟨n0, by simp, ?_⟩
        intro a ha' b hb
        have : b = idx := by simpa using hb
        subst this
        exact fun e => hni (e ▸ ha')
      · rcases List.mem_append.1 hidx' with h3 | h3
        · exact h2 idx' h3
        · have : idx' = idx := by simpa using h3
          subst this
          exact ⟨upd_self _ _ _, hp, by omega⟩
    · refine ⟨by simp, fun idx' hidx' => ?_⟩
      have : idx' = idx := by simpa using hidx'
      subst this
      exact ⟨upd_self _ _ _, hp, by omega⟩
  · intro idx' hidx'
    simp only [List.length_set]
    obtain ⟨a, b⟩ := h.idle idx' hidx'
    have : idx' ≠ idx := fun e => hid (e ▸ hidx')
    exact ⟨by rw [upd_ne _ _ this]; exact a, b⟩

/-- the `Occupied` arm of `io_waiters.entry(..)` -/
theorem join_inv (W : World Node VH V) (ht : Ht) (m : Mux Node VH V) (aw : Nat → Option Query) (h : MInv W ht m aw)
    (idx : Nat) (r r1 : Req Node VH V) (q : Query) (hp : m.processed ≤ idx) (hi : m.reqs[idx - m.processed]? = some r)
    (ha : aw idx = none) (hid : idx ∉ m.idleReqs) (hr1 : ReqOK W m.ps r1 (some q))
    (res : Outcome Unit (List (Query × List Nat))) (hj : joinWaiters m.waiters q idx = some res) :
    ∃ ws, res = .ok ws ∧
      MInv W ht { m with reqs := m.reqs.set (idx - m.processed) r1, waiters := ws } (upd aw idx (some q)) := by
  unfold joinWaiters at hj
  cases hl : m.waiters.lookup q with
  | none => rw [hl] at hj; cases hj
  | some w =>
    rw [hl] at hj
    simp only at hj
    have hqw := lookup_mem _ _ _ hl
    have hni : idx ∉ w := by
      intro hm
      have := (h.wmem q w hqw).2 idx hm
      rw [ha] at this; cases this.1
    have hc : w.contains idx = false := by simpa using hni
    rw [hc] at hj
    simp only [Bool.false_eq_true, if_false, Option.some.injEq] at hj
    subst hj
    refine ⟨_, rfl, wait_inv W ht m aw h idx r r1 q hp hi ha hid hr1 _ ?_ ?_⟩
    · have : (m.waiters.map (fun e => if e.1 = q then (e.1, e.2 ++ [idx]) else e)).map (·.1) = m.waiters.map (·.1) := by
        rw [List.map_map]
        apply List.map_congr_left
        intro e _
        simp only [Function.comp]
        split <;> rfl
      rw [this]; exact h.wkeys
    · intro q' w' hm
      obtain ⟨e, he, hf⟩ := List.mem_map.1 hm
      by_cases hq : e.1 = q
      · rw [if_pos hq] at hf
        cases hf
        exact .inr ⟨hq, .inl ⟨e.2, by rw [← hq]; exact he, rfl⟩⟩
      · rw [if_neg hq] at hf
        subst hf
        exact .inl he

/-- the `Vacant` arm: a new waiter list at the end -/
theorem newWait_inv (W : World Node VH V) (ht : Ht) (m : Mux Node VH V) (aw : Nat → Option Query) (h : MInv W ht m aw)
    (idx : Nat) (r r1 : Req Node VH V) (q : Query) (hp : m.processed ≤ idx) (hi : m.reqs[idx - m.processed]? = some r)
    (ha : aw idx = none) (hid : idx ∉ m.idleReqs) (hr1 : ReqOK W m.ps r1 (some q))
    (hj : joinWaiters m.waiters q idx = none) :
    MInv W ht { m with reqs := m.reqs.set (idx - m.processed) r1, waiters := m.waiters ++ [(q, [idx])] }
      (upd aw idx (some q)) := by
  have hl : m.waiters.lookup q = none := by
    unfold joinWaiters at hj
    cases hl : m.waiters.lookup q with
    | none => rfl
    | some w => rw [hl] at hj; simp only at hj; split at hj <;> cases hj
  refine wait_inv W ht m aw h idx r r1 q hp hi ha hid hr1 _ ?_ ?_
  · simp only [List.map_append, List.map_cons, List.map_nil]
    rw [List.nodup_append]
    refine ⟨h.wkeys, by simp, ?_⟩
    intro a ha' b hb
    have : b = q := by simpa using hb
    subst this
    exact fun e => lookup_none _ _ hl (e ▸ ha')
  · intro q' w' hm
    rcases List.mem_append.1 hm with h0 | h0
    · exact .inl h0
    · have : (q', w') = (q, [idx]) := by simpa using h0
      cases this
      exact .inr ⟨rfl, .inr rfl⟩

/-- `io_slab.insert(..)` of a load that is not yet submitted / in flight -/
theorem slabInsert_inv (W : World Node VH V) (ht : Ht) (m : Mux Node VH V) (aw : Nat → Option Query) (h : MInv W ht m aw)
    (v : IoReq) (hv : ∀ pid k sub, v = .merkle pid k sub → PageFacts W pid ∧ ProbeOK ht pid k sub) :
    ∃ slab si, m.slab.insert v = .ok (slab, si) ∧ MInv W ht { m with slab := slab } aw ∧ slab.get si = some v ∧
      si ∉ m.idleLoads ∧ si ∉ m.inflight.map (·.1) := by
  obtain ⟨slab, si, e1, e2, e3, e4, e5⟩ := Slab.insert_ok m.slab h.slabwf v
  have hnl : si ∉ m.idleLoads := by
    intro hm
    obtain ⟨_, _, e⟩ := h.idleL si hm
    rw [e3] at e; cases e
  have hni : si ∉ m.inflight.map (·.1) := by
    intro hm
    obtain ⟨⟨u, c⟩, hc, hu⟩ := List.mem_map.1 hm
    simp only at hu; subst hu
    rcases h.infl u c hc with ⟨_, _, _, e, _⟩ | ⟨_, e, _⟩
    · rw [e3] at e; cases e
    · rw [e3] at e; cases e
  refine ⟨slab, si, e1, ⟨h.sys, h.wkeys, h.wmem, h.idleN, h.idle, e2, ?_, h.inflN, ?_, h.idleLN, ?_⟩, e4, hnl, hni⟩
  · intro si' pid k sub hg
    by_cases hs : si' = si
    · subst hs
      simp only at hg
      rw [e4] at hg
      exact hv pid k sub (Option.some.inj hg)
    · simp only at hg
      rw [e5 si' hs] at hg
      exact h.merk si' pid k sub hg
  · intro u c hc
    have hne : u ≠ si := fun e => hni (by rw [← e]; exact List.mem_map.2 ⟨(u, c), hc, rfl⟩)
    unfold InflOK
    simp only
    rw [e5 u hne]
    exact h.infl u c hc
  · intro si' hs'
    have hne : si' ≠ si := fun e => hnl (e ▸ hs')
    simp only
    rw [e5 si' hne]
    exact h.idleL si' hs'

/-- the leaf read goes to the I/O pool -/
theorem leafRead_inv (W : World Node VH V) (ht : Ht) (m : Mux Node VH V) (aw : Nat → Option Query) (h : MInv W ht m aw)
    (si l : Nat) (hg : m.slab.get si = some (.leaf l)) (hni : si ∉ m.inflight.map (·.1)) :
    MInv W ht { m with inflight := m.inflight ++ [(si, .leaf l)] } aw := by
  refine ⟨h.sys, h.wkeys, h.wmem, h.idleN, h.idle, h.slabwf, h.merk, ?_, ?_, h.idleLN, h.idleL⟩
  · simp only [List.map_append, List.map_cons, List.map_nil]
    rw [List.nodup_append]
    refine ⟨h.inflN, by simp, ?_⟩
    intro a ha b hb
    have : b = si := by simpa using hb
    subst this
    exact fun e => hni (e ▸ ha)
  · intro u c hc
    rcases List.mem_append.1 hc with h1 | h1
    · exact h.infl u c h1
    · have : (u, c) = (si, Cmd.leaf l) := by simpa using h1
      cases this
      exact .inr ⟨l, hg, rfl⟩

/-! ### one iteration of the query loop is `Sys.step` -/

theorem step_nq_panic (env : Env Node VH V) (s : Sys Node VH V) (i : Nat) (r : Req Node VH V) (x : String)
    (hsi : s.reqs[i]? = some (r, none)) (hq : nextQuery r = .panic x) : step env s i = .panic x := by
  unfold step; rw [hsi]; simp only [hq]

theorem step_nq_err (env : Env Node VH V) (s : Sys Node VH V) (i : Nat) (r : Req Node VH V) (x : Unit)
    (hsi : s.reqs[i]? = some (r, none)) (hq : nextQuery r = .err x) : step env s i = .err x := by
  unfold step; rw [hsi]; simp only [hq]

theorem step_leaf (env : Env Node VH V) (s : Sys Node VH V) (i : Nat) (r r1 : Req Node VH V) (l : Nat)
    (hsi : s.reqs[i]? = some (r, none)) (hq : nextQuery r = .ok (r1, some (.leaf l))) :
    step env s i = .ok (setReq s i (r1, some (.leaf l)), .needLeaf l) := by
  unfold step; rw [hsi]; simp only [hq]

theorem step_page (env : Env Node VH V) (m : Mux Node VH V) (aw : Nat → Option Query) (i : Nat) (r r1 : Req Node VH V)
    (pid : PageId) (hsi : (absSys m aw).reqs[i]? = some (r, none)) (hq : nextQuery r = .ok (r1, some (.page pid))) :
    (∀ pg psX, memPage env m pid = some (pg, psX) → ∃ src, step env (absSys m aw) i =
      (match continueSeek env psX r1 pid pg with
       | .panic x => .panic x
       | .err e => .err e
       | .ok (ps', r') =>
         .ok ({ ps := ps', cache := m.cache, reqs := (absSys m aw).reqs.set i (r', none) }, .continued pid src))) ∧
    (memPage env m pid = none → step env (absSys m aw) i =
      .ok (setReq (absSys m aw) i ({ r1 with ios := r1.ios + 1 }, some (.page pid)), .needPage pid)) := by
  have hps : (absSys m aw).ps = m.ps := rfl
  have hca : (absSys m aw).cache = m.cache := rfl
  constructor
  · intro pg psX hmp
    unfold step
    rw [hsi]
    simp only [hq, hps, hca]
    unfold memPage at hmp
    cases h1 : m.ps.get pid with
    | some x =>
      obtain ⟨pg0, o⟩ := x
      rw [h1] at hmp
      simp only [Option.some.injEq, Prod.mk.injEq] at hmp
      obtain ⟨rfl, rfl⟩ := hmp
      refine ⟨.set, ?_⟩
      first | rfl | (dsimp only)
    | none =>
      rw [h1] at hmp
      simp only at hmp
      cases h2 : env.ovPages.lookup pid with
      | some pg0 =>
        rw [h2] at hmp
        simp only [Option.some.injEq, Prod.mk.injEq] at hmp
        obtain ⟨rfl, rfl⟩ := hmp
        refine ⟨.ovl, ?_⟩
        first | rfl | (dsimp only)
      | none =>
        rw [h2] at hmp
        simp only at hmp
        cases h3 : m.cache.lookup pid with
        | some pg0 =>
          rw [h3] at hmp
          simp only [Option.some.injEq, Prod.mk.injEq] at hmp
          obtain ⟨rfl, rfl⟩ := hmp
          refine ⟨.cache, ?_⟩
          first | rfl | (dsimp only)
        | none => rw [h3] at hmp; cases hmp
  · intro hmp
    unfold step
    rw [hsi]
    simp only [hq, hps, hca]
    unfold memPage at hmp
    cases h1 : m.ps.get pid with
    | some x => obtain ⟨pg0, o⟩ := x; rw [h1] at hmp; cases hmp
    | none =>
      rw [h1] at hmp
      simp only at hmp
      cases h2 : env.ovPages.lookup pid with
      | some pg0 => rw [h2] at hmp; cases hmp
      | none =>
        rw [h2] at hmp
        simp only at hmp
        cases h3 : m.cache.lookup pid with
        | some pg0 => rw [h3] at hmp; cases hmp
        | none => rfl

theorem pageFacts_of_wait (W : World Node VH V) (hOK : W.OK) (ps : PageSet Node) (r : Req Node VH V) (pid : PageId)
    (h : ReqOK W ps r (some (.page pid))) : PageFacts W pid := by
  obtain ⟨hst, h6, h2, hC, hg, hov, hUd⟩ := awaiting_page h
  subst hC
  have hd := h.1.wf.depthLe
  obtain ⟨pg, hU, _⟩ := live_page_good hOK ps r.key r.pos.depth h.1.klen hd h6 h2 hg
  refine ⟨hov, hUd, pg, hU, fun ps' => ?_⟩
  obtain ⟨pg', hU', hg'⟩ := live_page_good hOK ps' r.key r.pos.depth h.1.klen hd h6 h2 hg
  rw [hU] at hU'; cases hU'; exact hg'

theorem probeOK_start (W : World Node VH V) (ht : Ht) (hHt : HtOK W ht) (pid : PageId) (hpf : PageFacts W pid) :
    ProbeOK ht pid 0 false := by
  obtain ⟨pg, hU, _⟩ := hpf.good
  obtain ⟨j, b, h1, h2, h3⟩ := hHt pid pg (by rw [← hpf.ud]; exact hU)
  exact ⟨j, b, h1, h2, h3, by simp⟩

/-- the request goes on after an in-memory step -/
theorem cont_inv (W : World Node VH V) (ht : Ht) (m : Mux Node VH V) (aw : Nat → Option Query) (h : MInv W ht m aw)
    (idx : Nat) (hp : m.processed ≤ idx) (ha : aw idx = none) (ps' : PageSet Node) (r' : Req Node VH V)
    (hs : SysInv W { ps := ps', cache := m.cache, reqs := (absSys m aw).reqs.set (idx - m.processed) (r', none) }) :
    MInv W ht { m with ps := ps', reqs := m.reqs.set (idx - m.processed) r' } aw := by
  refine ⟨?_, h.wkeys, ?_, h.idleN, ?_, h.slabwf, h.merk, h.inflN, h.infl, h.idleLN, h.idleL⟩
  · have : absSys { m with ps := ps', reqs := m.reqs.set (idx - m.processed) r' } aw =
        { ps := ps', cache := m.cache, reqs := (absSys m aw).reqs.set (idx - m.processed) (r', none) } := by
      simp only [absSys]
      rw [tag_set, show m.processed + (idx - m.processed) = idx by omega, ha]
    rw [this]; exact hs
  · intro q w hqw
    simp only [List.length_set]
    exact h.wmem q w hqw
  · intro idx' hidx'
    simp only [List.length_set]
    exact h.idle idx' hidx'

/-- **`submit_key_path_request`** for a live request that waits for nothing: no panic site, the invariant is kept -/
theorem submitReq_live (W : World Node VH V) (hOK : W.OK) (ht : Ht) (hHt : HtOK W ht) :
    ∀ (fuel : Nat) (m : Mux Node VH V) (aw : Nat → Option Query) (idx : Nat) (r : Req Node VH V),
    MInv W ht m aw → m.processed ≤ idx → m.reqs[idx - m.processed]? = some r → aw idx = none → idx ∉ m.idleReqs →
    reqMeasure W.env.leaves.length r none < fuel →
    ∃ m' aw', submitReq W.env ht fuel m idx = .ok m' ∧ MInv W ht m' aw' ∧ m'.processed = m.processed ∧
      m'.reqs.length = m.reqs.length ∧ m'.idleReqs = m.idleReqs ∧ m'.maxInflight = m.maxInflight
  | 0, m, aw, idx, r, _, _, _, _, _, hf => absurd hf (Nat.not_lt_zero _)
  | fuel + 1, m, aw, idx, r, h, hp, hi, ha, hid, hf => by
    have hpi : m.processed + (idx - m.processed) = idx := by omega
    have hsi : (absSys m aw).reqs[idx - m.processed]? = some (r, none) := by
      have := absSys_get (aw := aw) hi
      rw [hpi, ha] at this; exact this
    unfold submitReq
    rw [if_neg (by omega)]
    try simp only
    rw [hi]
    try simp only
    have hstepok : ∃ s' out, step W.env (absSys m aw) (idx - m.processed) = .ok (s', out) ∧ SysInv W s' ∧
        (out ≠ .noQuery → out ≠ .busy →
          sysMeasure W.env.leaves.length s' < sysMeasure W.env.leaves.length (absSys m aw)) := by
      rcases step_ok W hOK (absSys m aw) h.sys (idx - m.processed) with ⟨s', out, a, b, _, d⟩ | ⟨_, hn⟩
      · exact ⟨s', out, a, b, d⟩
      · rw [hsi] at hn; cases hn
    obtain ⟨s', out, hstep, hs', hdec⟩ := hstepok
    cases hq : nextQuery r with
    | panic x => rw [step_nq_panic _ _ _ _ _ hsi hq] at hstep; cases hstep
    | err x => rw [step_nq_err _ _ _ _ _ hsi hq] at hstep; cases hstep
    | ok x =>
      obtain ⟨r1, oq⟩ := x
      try simp only
      cases oq with
      | none => exact ⟨m, aw, rfl, h, rfl, rfl, rfl, rfl⟩
      | some q =>
        cases q with
        | leaf l =>
          rw [step_leaf _ _ _ _ _ _ hsi hq] at hstep
          cases hstep
          have hr1 : ReqOK W m.ps r1 (some (.leaf l)) := hs'.reqs _ (List.mem_of_getElem? (getElem?_set_self hsi))
          have d1 : reqMeasure W.env.leaves.length r1 (some (.leaf l)) < reqMeasure W.env.leaves.length r none :=
            measure_of_sys hsi (hdec (by simp) (by simp))
          try simp only
          cases hj : joinWaiters m.waiters (.leaf l) idx with
          | some res =>
            obtain ⟨ws, e, hm'⟩ := join_inv W ht m aw h idx r r1 _ hp hi ha hid hr1 res hj
            subst e
            exact ⟨_, _, rfl, hm', rfl, by simp, rfl, rfl⟩
          | none =>
            try simp only
            cases hlc : m.leafCache.contains l with
            | true =>
              simp only [if_true]
              obtain ⟨ps', r', e1, e2, e3, _⟩ :=
                feedLeaf_sys W hOK _ hs' (idx - m.processed) r1 l (getElem?_set_self hsi)
              have e1' : feedLeaf W.env m.ps r1 l = .ok (ps', r') := e1
              rw [e1']
              try simp only
              have d2 : reqMeasure W.env.leaves.length r' none < reqMeasure W.env.leaves.length r1 (some (.leaf l)) :=
                measure_of_sys (getElem?_set_self hsi) e3
              simp only [setReq, List.set_set] at e2
              have hm2 := cont_inv W ht m aw h idx hp ha ps' r' e2
              obtain ⟨m', aw', e, hm', f1, f2, f3, f4⟩ := submitReq_live W hOK ht hHt fuel _ aw idx r' hm2 hp
                (getElem?_set_self hi) ha hid (by omega)
              exact ⟨m', aw', e, hm', f1, by rw [f2]; simp, f3, f4⟩
            | false =>
              simp only [Bool.false_eq_true, if_false]
              have hm1 := newWait_inv W ht m aw h idx r { r1 with ios := r1.ios + 1 } (.leaf l) hp hi ha hid
                (reqOK_ios hr1 _) hj
              obtain ⟨slab, si, e1, hm2, e4, _, hni⟩ := slabInsert_inv W ht _ _ hm1 (.leaf l) (by intro _ _ _ e; cases e)
              have e1' : m.slab.insert (.leaf l) = .ok (slab, si) := e1
              rw [e1']
              try simp only
              have hm3 := leafRead_inv W ht _ _ hm2 si l e4 hni
              exact ⟨_, _, rfl, hm3, rfl, by simp, rfl, rfl⟩
        | page pid =>
          obtain ⟨sp1, sp2⟩ := step_page W.env m aw (idx - m.processed) r r1 pid hsi hq
          try simp only
          cases hmp : memPage W.env m pid with
          | some x =>
            obtain ⟨pg, psX⟩ := x
            obtain ⟨src, e⟩ := sp1 pg psX hmp
            rw [e] at hstep
            try simp only
            cases hc : continueSeek W.env psX r1 pid pg with
            | panic x => rw [hc] at hstep; cases hstep
            | err x => rw [hc] at hstep; cases hstep
            | ok y =>
              obtain ⟨ps', r'⟩ := y
              rw [hc] at hstep
              simp only at hstep ⊢
              cases hstep
              have d1 : reqMeasure W.env.leaves.length r' none < reqMeasure W.env.leaves.length r none :=
                measure_of_sys hsi (hdec (by simp) (by simp))
              have hm2 := cont_inv W ht m aw h idx hp ha ps' r' hs'
              obtain ⟨m', aw', e, hm', f1, f2, f3, f4⟩ := submitReq_live W hOK ht hHt fuel _ aw idx r' hm2 hp
                (getElem?_set_self hi) ha hid (by omega)
              exact ⟨m', aw', e, hm', f1, by rw [f2]; simp, f3, f4⟩
          | none =>
            rw [sp2 hmp] at hstep
            cases hstep
            have hr1 : ReqOK W m.ps { r1 with ios := r1.ios + 1 } (some (.page pid)) :=
              hs'.reqs _ (List.mem_of_getElem? (getElem?_set_self hsi))
            try simp only
            cases hj : joinWaiters m.waiters (.page pid) idx with
            | some res =>
              have hr1' : ReqOK W m.ps r1 (some (.page pid)) := reqOK_ios hr1 r1.ios
              obtain ⟨ws, e, hm'⟩ := join_inv W ht m aw h idx r r1 _ hp hi ha hid hr1' res hj
              subst e
              exact ⟨_, _, rfl, hm', rfl, by simp, rfl, rfl⟩
            | none =>
              try simp only
              have hpf := pageFacts_of_wait W hOK _ _ _ hr1
              have hm1 := newWait_inv W ht m aw h idx r { r1 with ios := r1.ios + 1 } (.page pid) hp hi ha hid hr1 hj
              obtain ⟨slab, si, e1, hm2, e4, hnl, _⟩ := slabInsert_inv W ht _ _ hm1 (.merkle pid 0 false) (by
                intro pid' k' sub' e
                cases e
                exact ⟨hpf, probeOK_start W ht hHt _ hpf⟩)
              have e1' : m.slab.insert (.merkle pid 0 false) = .ok (slab, si) := e1
              rw [e1']
              try simp only
              obtain ⟨m3, e3, hm3, g1, g2, g3, _, _, _, _, g8⟩ := submitIdleLoad_inv W ht _ _ hm2 si pid 0 e4 hnl
              exact ⟨m3, _, e3, hm3, g2, by rw [g1]; simp, g3, g8⟩

theorem reqFuel_enough (W : World Node VH V) {ps : PageSet Node} {r : Req Node VH V} {a : Option Query}
    (h : ReqOK W ps r a) : reqMeasure W.env.leaves.length r a < reqFuel W.env := by
  have h1 := reqMeasure_le h
  have h3 : (257 - r.pos.depth) * (2 * W.env.leaves.length + 6) ≤ 257 * (2 * W.env.leaves.length + 6) :=
    Nat.mul_le_mul_right _ (by omega)
  unfold reqFuel
  omega

/-- **`submit_key_path_request(page_set, request_index)`** as `submit_idle_key_path_requests` calls it -/
theorem submitReq_inv (W : World Node VH V) (hOK : W.OK) (ht : Ht) (hHt : HtOK W ht) (m : Mux Node VH V)
    (aw : Nat → Option Query) (idx : Nat) (h : MInv W ht m aw) (ha : aw idx = none) (hid : idx ∉ m.idleReqs)
    (hlt : idx < m.processed + m.reqs.length) :
    ∃ m' aw', submitReq W.env ht (reqFuel W.env) m idx = .ok m' ∧ MInv W ht m' aw' ∧ m'.processed = m.processed ∧
      m'.reqs.length = m.reqs.length ∧ m'.idleReqs = m.idleReqs ∧ m'.maxInflight = m.maxInflight := by
  by_cases hd : idx < m.processed
  · have : reqFuel W.env = (reqFuel W.env - 1) + 1 := by unfold reqFuel; omega
    rw [this]
    unfold submitReq
    rw [if_pos hd]
    exact ⟨m, aw, rfl, h, rfl, rfl, rfl, rfl⟩
  · have hp : m.processed ≤ idx := by omega
    have hl : idx - m.processed < m.reqs.length := by omega
    have hi : m.reqs[idx - m.processed]? = some m.reqs[idx - m.processed] := List.getElem?_eq_getElem hl
    have hr := minv_req h hi
    rw [show m.processed + (idx - m.processed) = idx by omega, ha] at hr
    exact submitReq_live W hOK ht hHt _ m aw idx _ h hp hi ha hid (reqFuel_enough W hr)

/-- `submit_idle_key_path_requests` -/
theorem submitIdleReqs_inv (W : World Node VH V) (hOK : W.OK) (ht : Ht) (hHt : HtOK W ht) :
    ∀ (l : List Nat) (m : Mux Node VH V) (aw : Nat → Option Query), MInv W ht m aw → m.idleReqs = l →
    ∃ m' aw', submitIdleReqs W.env ht l m = .ok m' ∧ MInv W ht m' aw' ∧ m'.processed = m.processed ∧
      m'.reqs.length = m.reqs.length ∧ m'.maxInflight = m.maxInflight
  | [], m, aw, h, _ => ⟨m, aw, rfl, h, rfl, rfl, rfl⟩
  | idx :: rest, m, aw, h, hl => by
    unfold submitIdleReqs
    cases hroom : m.hasRoom with
    | false => exact ⟨m, aw, rfl, h, rfl, rfl, rfl⟩
    | true =>
      simp only [Bool.not_true, Bool.false_eq_true, if_false]
      have hn := h.idleN
      rw [hl] at hn
      have hn' := List.nodup_cons.1 hn
      have hmem : idx ∈ m.idleReqs := by rw [hl]; exact List.mem_cons_self ..
      have h1 : MInv W ht { m with idleReqs := rest } aw :=
        ⟨h.sys, h.wkeys, h.wmem, hn'.2, fun i hi => h.idle i (by rw [hl]; exact List.mem_cons_of_mem _ hi), h.slabwf,
          h.merk, h.inflN, h.infl, h.idleLN, h.idleL⟩
      obtain ⟨m1, aw1, e1, i1, f1, f2, f3, f4⟩ := submitReq_inv W hOK ht hHt _ aw idx h1 (h.idle idx hmem).1 hn'.1
        (h.idle idx hmem).2
      rw [e1]
      simp only
      obtain ⟨m2, aw2, e2, i2, g1, g2, g3⟩ := submitIdleReqs_inv W hOK ht hHt rest m1 aw1 i1 f3
      exact ⟨m2, aw2, e2, i2, g1.trans f1, g2.trans f2, g3.trans f4⟩

/-- **`submit_all(page_set)`** -/
theorem submitAll_inv (W : World Node VH V) (hOK : W.OK) (ht : Ht) (hHt : HtOK W ht) (m : Mux Node VH V)
    (aw : Nat → Option Query) (h : MInv W ht m aw) :
    ∃ m' aw', submitAll W.env ht m = .ok m' ∧ MInv W ht m' aw' ∧ m'.processed = m.processed ∧
      m'.reqs.length = m.reqs.length ∧ m'.maxInflight = m.maxInflight := by
  unfold submitAll
  cases hroom : m.hasRoom with
  | false => exact ⟨m, aw, rfl, h, rfl, rfl, rfl⟩
  | true =>
    simp only [Bool.not_true, Bool.false_eq_true, if_false]
    obtain ⟨m1, e1, i1, f1, f2, _, _, _, f6⟩ := submitIdleLoads_inv W ht aw m.idleLoads m h rfl
    rw [e1]
    simp only
    obtain ⟨m2, aw2, e2, i2, g1, g2, g3⟩ := submitIdleReqs_inv W hOK ht hHt m1.idleReqs m1 aw i1 rfl
    exact ⟨m2, aw2, e2, i2, g1.trans f2, by rw [g2, f1], g3.trans f6⟩

/-- the waiter loop of a completion handler: every request of the list waits for `q`, `deliver` serves one of them -/
theorem wakeLoop_inv (W : World Node VH V) (ht : Ht) (q : Query)
    (deliver : PageSet Node → Req Node VH V → Outcome Unit (PageSet Node × Req Node VH V))
    (hdel : ∀ (s : Sys Node VH V) (i : Nat) (r : Req Node VH V), SysInv W s → s.reqs[i]? = some (r, some q) →
      ∃ ps' r', deliver s.ps r = .ok (ps', r') ∧
        SysInv W { ps := ps', cache := s.cache, reqs := s.reqs.set i (r', none) }) :
    ∀ (l : List Nat) (m : Mux Node VH V) (aw : Nat → Option Query), MInv W ht m aw → q ∉ m.waiters.map (·.1) → l.Nodup →
    (∀ idx ∈ l, aw idx = some q ∧ m.processed ≤ idx ∧ idx < m.processed + m.reqs.length) →
    ∃ m' aw', wakeLoop deliver l m = .ok m' ∧ MInv W ht m' aw' ∧ m'.processed = m.processed ∧
      m'.reqs.length = m.reqs.length ∧ m'.maxInflight = m.maxInflight
  | [], m, aw, h, _, _, _ => ⟨m, aw, rfl, h, rfl, rfl, rfl⟩
  | w :: rest, m, aw, h, hq, hn, hl => by
    obtain ⟨haw, hp, hlt⟩ := hl w (List.mem_cons_self ..)
    have hn' := List.nodup_cons.1 hn
    have hlen : w - m.processed < m.reqs.length := by omega
    have hi : m.reqs[w - m.processed]? = some m.reqs[w - m.processed] := List.getElem?_eq_getElem hlen
    have hpi : m.processed + (w - m.processed) = w := by omega
    have hr := minv_req h hi
    rw [hpi, haw] at hr
    have hnc : (m.reqs[w - m.processed]).isCompleted = false := by
      cases hc : (m.reqs[w - m.processed]).isCompleted with
      | false => rfl
      | true => have := completed_aw hr hc; cases this
    have hsi : (absSys m aw).reqs[w - m.processed]? = some (m.reqs[w - m.processed], some q) := by
      have := absSys_get (aw := aw) hi
      rw [hpi, haw] at this; exact this
    obtain ⟨ps', r', e1, e2⟩ := hdel (absSys m aw) (w - m.processed) _ h.sys hsi
    have e1' : deliver m.ps m.reqs[w - m.processed] = .ok (ps', r') := e1
    unfold wakeLoop
    rw [if_neg (by omega), hi]
    simp only [hnc, Bool.false_eq_true, if_false, e1']
    have hwi : w ∉ m.idleReqs := fun hm => by have := (h.idle w hm).1; rw [haw] at this; cases this
    have hm2 : MInv W ht { m with ps := ps', reqs := m.reqs.set (w - m.processed) r',
                                  idleReqs := if r'.isCompleted then m.idleReqs else m.idleReqs ++ [w] }
        (upd aw w none) := by
      refine ⟨?_, h.wkeys, ?_, ?_, ?_, h.slabwf, h.merk, h.inflN, h.infl, h.idleLN, h.idleL⟩
      · have : absSys { m with ps := ps', reqs := m.reqs.set (w - m.processed) r',
                                 idleReqs := if r'.isCompleted then m.idleReqs else m.idleReqs ++ [w] }
              (upd aw w none) =
            { ps := ps', cache := m.cache, reqs := (absSys m aw).reqs.set (w - m.processed) (r', none) } := by
          simp only [absSys]
          have := tag_set_upd aw m.reqs m.processed (w - m.processed) r' none
          rw [hpi] at this
          rw [this]
        rw [this]; exact e2
      · intro q' w' hqw
        simp only [List.length_set]
        obtain ⟨n0, h2⟩ := h.wmem q' w' hqw
        refine ⟨n0, fun idx' hidx' => ?_⟩
        obtain ⟨a, b, c⟩ := h2 idx' hidx'
        have : idx' ≠ w := fun e => by
          rw [e, haw] at a
          cases a
          exact hq (List.mem_map.2 ⟨(q, w'), hqw, rfl⟩)
        exact ⟨by rw [upd_ne _ _ this]; exact a, b, c⟩
      · simp only
        split
        · exact h.idleN
        · rw [List.nodup_append]
          refine ⟨h.idleN, by simp, ?_⟩
          intro a ha b hb
          have : b = w := by simpa using hb
          subst this
          exact fun e => hwi (e ▸ ha)
      · intro idx' hidx'
        simp only [List.length_set]
        have old : ∀ i ∈ m.idleReqs, upd aw w none i = none ∧ i < m.processed + m.reqs.length := by
          intro i hi'
          obtain ⟨a, b⟩ := h.idle i hi'
          have : i ≠ w := fun e => hwi (e ▸ hi')
          exact ⟨by rw [upd_ne _ _ this]; exact a, b⟩
        simp only at hidx'
        split at hidx'
        · exact old idx' hidx'
        · rcases List.mem_append.1 hidx' with h3 | h3
          · exact old idx' h3
          · have : idx' = w := by simpa using h3
            subst this
            exact ⟨upd_self _ _ _, hlt⟩
    obtain ⟨m3, aw3, e3, i3, g1, g2, g3⟩ := wakeLoop_inv W ht q deliver hdel rest _ _ hm2 hq hn'.2 (by
      intro idx hidx
      obtain ⟨a, b, c⟩ := hl idx (List.mem_cons_of_mem _ hidx)
      have : idx ≠ w := fun e => hn'.1 (e ▸ hidx)
      simp only [List.length_set]
      exact ⟨by rw [upd_ne _ _ this]; exact a, b, c⟩)
    exact ⟨m3, aw3, e3, i3, g1, by rw [g2]; simp, g3⟩

/-! ### the completion handlers -/

/-- the load leaves the slab, its waiter list leaves `io_waiters` -/
theorem removeLoad_inv (W : World Node VH V) (ht : Ht) (m : Mux Node VH V) (aw : Nat → Option Query) (h : MInv W ht m aw)
    (ud : Nat) (v : IoReq) (q : Query) (hg : m.slab.get ud = some v) (hni : ud ∉ m.inflight.map (·.1))
    (hnl : ud ∉ m.idleLoads) :
    ∃ slab, m.slab.remove ud = .ok (slab, v) ∧
      MInv W ht { m with slab := slab, waiters := m.waiters.filter (fun e => e.1 ≠ q) } aw := by
  obtain ⟨slab, e1, w1, g1, g2⟩ := Slab.remove_ok m.slab h.slabwf ud v hg
  refine ⟨slab, e1, ⟨h.sys, ?_, ?_, h.idleN, h.idle, w1, ?_, h.inflN, ?_, h.idleLN, ?_⟩⟩
  · exact List.Pairwise.sublist (List.Sublist.map _ (List.filter_sublist ..)) h.wkeys
  · intro q' w' hqw
    exact h.wmem q' w' (List.mem_filter.1 hqw).1
  · intro si pid k sub hs
    by_cases hsi : si = ud
    · subst hsi; simp only at hs; rw [g1] at hs; cases hs
    · simp only at hs
      rw [g2 si hsi] at hs
      exact h.merk si pid k sub hs
  · intro u c hc
    have hne : u ≠ ud := fun e => hni (by rw [← e]; exact List.mem_map.2 ⟨(u, c), hc, rfl⟩)
    unfold InflOK
    simp only
    rw [g2 u hne]
    exact h.infl u c hc
  · intro si hs
    have hne : si ≠ ud := fun e => hnl (e ▸ hs)
    simp only
    rw [g2 si hne]
    exact h.idleL si hs

theorem woken_ok {W : World Node VH V} {ht : Ht} {m : Mux Node VH V} {aw : Nat → Option Query} (h : MInv W ht m aw)
    (q : Query) : ((m.waiters.lookup q).getD []).Nodup ∧
      ∀ idx ∈ (m.waiters.lookup q).getD [], aw idx = some q ∧ m.processed ≤ idx ∧ idx < m.processed + m.reqs.length := by
  cases hl : m.waiters.lookup q with
  | none => simp
  | some w => simpa using h.wmem q w (lookup_mem _ _ _ hl)

theorem filter_nokey (ws : List (Query × List Nat)) (q : Query) : q ∉ (ws.filter (fun e => e.1 ≠ q)).map (·.1) := by
  intro hm
  obtain ⟨e, he, hq⟩ := List.mem_map.1 hm
  have := (List.mem_filter.1 he).2
  simp at this
  exact this hq

/-- **`handle_merkle_page_and_continue`** -/
theorem handleMerkle_inv (W : World Node VH V) (hOK : W.OK) (ht : Ht) (m : Mux Node VH V) (aw : Nat → Option Query)
    (h : MInv W ht m aw) (ud : Nat) (pid : PageId) (k : Nat) (hg : m.slab.get ud = some (.merkle pid k true))
    (hni : ud ∉ m.inflight.map (·.1)) (page : MPage Node) (hd : W.env.disk.lookup pid = some page) :
    ∃ m' aw', handleMerkle W.env m ud page = .ok m' ∧ MInv W ht m' aw' ∧ m'.processed = m.processed ∧
      m'.reqs.length = m.reqs.length ∧ m'.maxInflight = m.maxInflight := by
  obtain ⟨hpf, _⟩ := h.merk ud pid k true hg
  have hnl : ud ∉ m.idleLoads := by
    intro hm
    obtain ⟨_, _, e⟩ := h.idleL ud hm
    rw [hg] at e; cases e
  obtain ⟨slab, e1, hm1⟩ := removeLoad_inv W ht m aw h ud _ (.page pid) hg hni hnl
  obtain ⟨pgU, hU, hgood⟩ := hpf.good
  have hpage : pgU = page := by rw [hpf.ud, hd] at hU; exact (Option.some.inj hU).symm
  subst hpage
  obtain ⟨_, m2, _⟩ := mem_lookup h.sys.mem pid
  unfold handleMerkle
  rw [e1]
  simp only
  obtain ⟨wn, wl⟩ := woken_ok h (.page pid)
  have fin : ∀ cache', MemOK W cache' → ∃ m' aw',
      wakeLoop (fun ps r => continueSeek W.env ps r pid pgU) (removeWaiters m.waiters (.page pid)).2
        { m with slab := slab, cache := cache', ps := m.ps.insert pid pgU .persisted,
                 waiters := (removeWaiters m.waiters (.page pid)).1 } = .ok m' ∧
      MInv W ht m' aw' ∧ m'.processed = m.processed ∧ m'.reqs.length = m.reqs.length ∧ m'.maxInflight = m.maxInflight := by
    intro cache' hmem'
    have hm2 : MInv W ht { m with slab := slab, cache := cache', ps := m.ps.insert pid pgU .persisted,
                                  waiters := (removeWaiters m.waiters (.page pid)).1 } aw := by
      refine ⟨⟨psinv_insert h.sys.ps (hgood _) _, hmem', ?_⟩, hm1.wkeys, hm1.wmem, hm1.idleN, hm1.idle, hm1.slabwf,
        hm1.merk, hm1.inflN, hm1.infl, hm1.idleLN, hm1.idleL⟩
      intro x hx
      exact reqOK_mono (ext_insert _ _ _ _) (h.sys.reqs x hx)
    exact wakeLoop_inv W ht (.page pid) (fun ps r => continueSeek W.env ps r pid pgU) (by
        intro s i r hs hi
        have hr : ReqOK W s.ps r (some (.page pid)) := hs.reqs _ (List.mem_of_getElem? hi)
        obtain ⟨hst, h6, h2, hC, _, _, _⟩ := awaiting_page hr
        have hg' : PGood W s.ps (sextetsOf (r.key.take r.pos.depth)) pgU := by rw [← hC]; exact hgood s.ps
        obtain ⟨ps', r', c1, _, _, c4, c5, c6, _⟩ := continueSeek_ok W hOK s.ps hs.ps r hr.1 hst h6 h2 pgU hg'
        rw [← hC] at c1
        exact ⟨ps', r', c1, sysinv_set hs c4 c5 hs.mem i c6⟩)
      _ _ aw hm2 (filter_nokey _ _) wn wl
  cases hca : m.cache.lookup pid with
  | some pg =>
    have : pg = pgU := by have := m2 hpf.ov pg hca; rw [hU] at this; exact (Option.some.inj this).symm
    subst this
    exact fin _ h.sys.mem
  | none => exact fin _ (memOK_insert h.sys.mem hpf.ov hca hU)

/-- **`handle_leaf_page_and_continue`** -/
theorem handleLeaf_inv (W : World Node VH V) (hOK : W.OK) (ht : Ht) (m : Mux Node VH V) (aw : Nat → Option Query)
    (h : MInv W ht m aw) (ud l : Nat) (hg : m.slab.get ud = some (.leaf l)) (hni : ud ∉ m.inflight.map (·.1)) :
    ∃ m' aw', handleLeaf W.env m ud = .ok m' ∧ MInv W ht m' aw' ∧ m'.processed = m.processed ∧
      m'.reqs.length = m.reqs.length ∧ m'.maxInflight = m.maxInflight := by
  have hnl : ud ∉ m.idleLoads := by
    intro hm
    obtain ⟨_, _, e⟩ := h.idleL ud hm
    rw [hg] at e; cases e
  obtain ⟨slab, e1, hm1⟩ := removeLoad_inv W ht m aw h ud _ (.leaf l) hg hni hnl
  unfold handleLeaf
  rw [e1]
  simp only
  have hm2 : MInv W ht { m with slab := slab, waiters := (removeWaiters m.waiters (.leaf l)).1,
                                leafCache := l :: m.leafCache } aw :=
    ⟨hm1.sys, hm1.wkeys, hm1.wmem, hm1.idleN, hm1.idle, hm1.slabwf, hm1.merk, hm1.inflN, hm1.infl, hm1.idleLN, hm1.idleL⟩
  obtain ⟨wn, wl⟩ := woken_ok h (.leaf l)
  exact wakeLoop_inv W ht (.leaf l) (fun ps r => feedLeaf W.env ps r l) (by
      intro s i r hs hi
      obtain ⟨ps', r', c1, c2, _, _⟩ := feedLeaf_sys W hOK s hs i r l hi
      exact ⟨ps', r', c1, c2⟩)
    _ _ aw hm2 (filter_nokey _ _) wn wl

theorem erase_notin : ∀ (l : List (Nat × Cmd)) (ud : Nat), (l.map (·.1)).Nodup → (∃ c, (ud, c) ∈ l) →
    ud ∉ (l.eraseP (fun c => c.1 == ud)).map (·.1)
  | [], ud, _, ⟨_, h⟩ => by cases h
  | (u, c) :: rest, ud, hn, hm => by
    simp only [List.map_cons] at hn
    have hn' := List.nodup_cons.1 hn
    by_cases hu : u = ud
    · subst hu
      rw [List.eraseP_cons]
      simp only [beq_self_eq_true, cond_true]
      exact hn'.1
    · have hb : (u == ud) = false := by simpa using hu
      rw [List.eraseP_cons]
      simp only [hb, cond_false, List.map_cons, List.mem_cons, not_or]
      refine ⟨fun e => hu e.symm, erase_notin rest ud hn'.2 ?_⟩
      obtain ⟨c', hc'⟩ := hm
      rcases List.mem_cons.1 hc' with h1 | h1
      · cases h1; exact absurd rfl hu
      · exact ⟨c', h1⟩

/-- **`handle_completion`** for the read with user data `ud` -/
theorem recv_inv (W : World Node VH V) (hOK : W.OK) (ht : Ht) (m : Mux Node VH V) (aw : Nat → Option Query)
    (h : MInv W ht m aw) (ud : Nat) :
    (∃ m' aw', recv W.env ht m ud = .ok m' ∧ MInv W ht m' aw' ∧ m'.processed = m.processed ∧
      m'.reqs.length = m.reqs.length ∧ m'.maxInflight = m.maxInflight) ∨ recv W.env ht m ud = .err () := by
  unfold recv
  cases hf : m.inflight.find? (fun c => c.1 == ud) with
  | none => exact .inr rfl
  | some x =>
    obtain ⟨u, cmd⟩ := x
    have hmem := List.mem_of_find?_eq_some hf
    have hu : u = ud := by simpa using List.find?_some hf
    subst hu
    simp only
    have h0 : MInv W ht { m with inflight := m.inflight.eraseP (fun c => c.1 == u) } aw := recvErr_inv W ht m aw h u
    have hni : u ∉ (m.inflight.eraseP (fun c => c.1 == u)).map (·.1) := erase_notin _ _ h.inflN ⟨cmd, hmem⟩
    rcases h.infl u cmd hmem with ⟨pid, k, b, hg, hc, hk1, hb⟩ | ⟨l, hg, hc⟩
    · rw [hg]
      subst hc
      simp only [Bool.not_true, Bool.false_eq_true, if_false]
      obtain ⟨hpf, j, bj, hj, hlab, hbefore, hk⟩ := h.merk u pid k true hg
      simp only [if_true] at hk
      by_cases hhit : (ht.label b == some pid) = true
      · rw [if_pos hhit]
        obtain ⟨pgU, hU, _⟩ := hpf.good
        have hd : W.env.disk.lookup pid = some pgU := by rw [← hpf.ud]; exact hU
        rw [hd]
        simp only
        exact .inl (handleMerkle_inv W hOK ht _ aw h0 u pid k hg hni pgU hd)
      · rw [if_neg hhit]
        left
        have hlabne : ht.label b ≠ some pid := by simpa using hhit
        have hkj : k ≤ j := by
          by_cases e : k - 1 = j
          · rw [e, hj] at hb
            cases hb
            exact absurd hlab hlabne
          · omega
        obtain ⟨p1, p2, p3⟩ := Slab.put_ok m.slab h.slabwf u _ (.merkle pid k false) hg
        have hnl : u ∉ m.idleLoads := by
          intro hm
          obtain ⟨_, _, e⟩ := h.idleL u hm
          rw [hg] at e; cases e
        refine ⟨_, aw, rfl, ?_, rfl, rfl, rfl⟩
        refine ⟨h0.sys, h0.wkeys, h0.wmem, h0.idleN, h0.idle, p1, ?_, h0.inflN, ?_, ?_, ?_⟩
        · intro si pid' k' sub' hs
          by_cases hsi : si = u
          · subst hsi
            simp only at hs
            rw [p2] at hs
            cases hs
            exact ⟨hpf, j, bj, hj, hlab, hbefore, by simpa using hkj⟩
          · simp only at hs
            rw [p3 si hsi] at hs
            exact h.merk si pid' k' sub' hs
        · intro u' c hc
          have hne : u' ≠ u := fun e => hni (List.mem_map.2 ⟨(u', c), hc, e⟩)
          unfold InflOK
          simp only
          rw [p3 u' hne]
          exact h0.infl u' c hc
        · simp only
          rw [List.nodup_append]
          refine ⟨h.idleLN, by simp, ?_⟩
          intro a ha b' hb'
          have : b' = u := by simpa using hb'
          subst this
          exact fun e => hnl (e ▸ ha)
        · intro si hs
          simp only at hs ⊢
          rcases List.mem_append.1 hs with h3 | h3
          · have hne : si ≠ u := fun e => hnl (e ▸ h3)
            rw [p3 si hne]
            exact h.idleL si h3
          · have : si = u := by simpa using h3
            subst this
            exact ⟨pid, k, p2⟩
    · rw [hg]
      simp only
      exact .inl (handleLeaf_inv W hOK ht _ aw h0 u l hg hni)

/-! ### runs -/

/-- a request that was handed out: completed, and consistent with the world -/
def Done (W : World Node VH V) (r : Req Node VH V) : Prop := ∃ ps a, ReqOK W ps r a

theorem exec_inv (W : World Node VH V) (hOK : W.OK) (ht : Ht) (hHt : HtOK W ht) (s : Seeker.Run Node VH V)
    (aw : Nat → Option Query) (h : MInv W ht s.m aw) (hout : ∀ r ∈ s.out, Done W r) (o : Seeker.Op)
    (hk : ∀ k, o = .push k → k.length = KEY_BITS) :
    ∃ s' aw', Seeker.exec W.env ht s o = .ok s' ∧ MInv W ht s'.m aw' ∧ (∀ r ∈ s'.out, Done W r) := by
  cases o with
  | push key =>
    obtain ⟨m', e, hm'⟩ := push_inv W hOK ht s.m aw h key (hk key rfl)
    exact ⟨{ s with m := m' }, _, by simp only [Seeker.exec, e], hm', hout⟩
  | submitAll =>
    obtain ⟨m', aw', e, hm', _⟩ := submitAll_inv W hOK ht hHt s.m aw h
    exact ⟨{ s with m := m' }, aw', by simp only [Seeker.exec, e], hm', hout⟩
  | recv ud =>
    rcases recv_inv W hOK ht s.m aw h ud with ⟨m', aw', e, hm', _⟩ | e
    · exact ⟨{ s with m := m' }, aw', by simp only [Seeker.exec, e], hm', hout⟩
    · exact ⟨s, aw, by simp only [Seeker.exec, e], h, hout⟩
  | recvErr ud => exact ⟨{ s with m := recvErr s.m ud }, aw, rfl, recvErr_inv W ht s.m aw h ud, hout⟩
  | take =>
    have ht' := take_inv W ht s.m aw h
    simp only [Seeker.exec]
    cases hc : takeCompletion s.m with
    | mk m' o =>
      rw [hc] at ht'
      cases o with
      | none => exact ⟨{ s with m := m' }, aw, rfl, ht', hout⟩
      | some r =>
        refine ⟨{ m := m', out := s.out ++ [r] }, aw, rfl, ht', ?_⟩
        intro r' hr'
        rcases List.mem_append.1 hr' with h1 | h1
        · exact hout r' h1
        · have : r' = r := by simpa using h1
          subst this
          obtain ⟨_, _, _, hh⟩ := take_some _ _ _ hc
          have hi : s.m.reqs[0]? = some r' := by rw [← List.head?_eq_getElem?]; exact hh
          exact ⟨_, _, minv_req h hi⟩

/-- **every run keeps the refinement invariant and reaches no panic site** -/
theorem run_inv (W : World Node VH V) (hOK : W.OK) (ht : Ht) (hHt : HtOK W ht) : ∀ (ops : List Seeker.Op)
    (s : Seeker.Run Node VH V) (aw : Nat → Option Query), MInv W ht s.m aw → (∀ r ∈ s.out, Done W r) →
    (∀ k, Seeker.Op.push k ∈ ops → k.length = KEY_BITS) →
    ∃ s' aw', Seeker.run W.env ht s ops = .ok s' ∧ MInv W ht s'.m aw' ∧ (∀ r ∈ s'.out, Done W r)
  | [], s, aw, h, hout, _ => ⟨s, aw, rfl, h, hout⟩
  | o :: os, s, aw, h, hout, hk => by
    obtain ⟨s1, aw1, e1, h1, o1⟩ := exec_inv W hOK ht hHt s aw h hout o (fun k e => hk k (by rw [e]; exact List.mem_cons_self ..))
    obtain ⟨s2, aw2, e2, h2, o2⟩ := run_inv W hOK ht hHt os s1 aw1 h1 o1 (fun k hm => hk k (List.mem_cons_of_mem _ hm))
    refine ⟨s2, aw2, ?_, h2, o2⟩
    unfold Seeker.run
    rw [e1]
    exact e2

/-- a fresh seeker over a good page set and good in-memory sources -/
theorem minv_init (W : World Node VH V) (ht : Ht) (maxInflight : Nat) (cache : List (PageId × MPage Node))
    (ps : PageSet Node) (leafCache : List Nat) (hps : PSInv W ps) (hmem : MemOK W cache) :
    MInv W ht { maxInflight := maxInflight, cache := cache, ps := ps, leafCache := leafCache } (fun _ => none) := by
  refine ⟨⟨hps, hmem, ?_⟩, ?_, ?_, ?_, ?_, ⟨[], Chain.nil⟩, ?_, ?_, ?_, ?_, ?_⟩
  · intro x hx; cases hx
  · exact List.nodup_nil
  · intro q w h; cases h
  · exact List.nodup_nil
  · intro i h; cases h
  · intro si pid k sub hs
    simp [Slab.get] at hs
  · exact List.nodup_nil
  · intro u c h; cases h
  · exact List.nodup_nil
  · intro i h; cases h

end inv

end Nomt.Seeker
