import NomtModel.Store.StageGlueLevel
/-!
# The leaf changeset turns the old leaf level into the new one (`leaf_level_change`)
-/
namespace Nomt.StageGlue
open Nomt
open Nomt.LeafUpd (Entry DbLeaf OutLeaf Leaf CellSize Sorted write1 applyAll)
open Nomt.ExtRange (Tracker TE Inner Pn upsert lookupE)
open Nomt.BranchUpd (chs chOf)

variable {V : Type} [CellSize V] {N : Type}

theorem lookupE_of_mem {k : Nat} {e : TE N} : ∀ {inner : Inner N}, InnerAsc inner → (k, e) ∈ inner → lookupE k inner = some e
  | [], _, h => by cases h
  | (k0, e0) :: t, hasc, h => by
    have h' := List.pairwise_cons.1 hasc
    rcases List.mem_cons.1 h with e' | h
    · cases e'; simp [lookupE]
    · have : k0 < k := h'.1 (k, e) h
      have hne : ¬ k = k0 := by omega
      simp only [lookupE, hne, if_false]
      exact lookupE_of_mem h'.2 h

theorem newsOf_asc : ∀ {out : List (OutLeaf V)}, OutAsc out → (newsOf out).Pairwise (fun x y => x.sep < y.sep)
  | [], _ => List.Pairwise.nil
  | .old l :: t, h => newsOf_asc (out := t) (List.pairwise_cons.1 h).2
  | .new l :: t, h => by
    have h' := List.pairwise_cons.1 h
    refine List.pairwise_cons.2 ⟨?_, newsOf_asc (out := t) h'.2⟩
    intro y hy
    exact h'.1 _ (mem_newsOf hy)

theorem chs_keys_ne {cs : List (Nat × Option Nat)} (h : CsAsc cs) : (chs cs).Pairwise (fun a b => a.1 ≠ b.1) := by
  unfold chs
  rw [List.pairwise_map]
  exact h.imp (fun hab => by simp only; omega)

/-- **the leaf changeset is the difference between the old and the new leaf level.**  `db` = the old leaves (ascending
separators), `x` = a state of the instrumented worker with the bookkeeping invariant whose leaves, left to right, have
ascending separators.  Then the recorded tracker calls never trip `assert!(entry.deleted.is_none())`; the tracker's
entries are ascending; a `None` entry of the changeset names an old leaf; and applying the changeset to the old level
gives `lvlOf`: the untouched leaves under their old page numbers and the produced leaves under the freshly allocated
ones, in order. -/
theorem leaf_level_change (lpn fresh : Nat → Nat) (a0 : Nat) (db : List (DbLeaf V)) (x : LRun V)
    (hdb : (db.map (·.sep)).Pairwise (· < ·)) (hb : Book lpn db x)
    (hout : OutAsc (x.r.out ++ x.r.rest.map .old)) :
    ∃ tr, runEvs {} a0 x.evs = some (tr, a0 + (newsOf x.r.out).length) ∧ InnerAsc tr.inner ∧ tr.extraFreed = [] ∧
      CsAsc (trackerChanges fresh tr.inner) ∧
      (∀ k, (k, none) ∈ trackerChanges fresh tr.inner → k ∈ db.map (·.sep)) ∧
      applyAll (lvlEnts (db.map fun l => (l.sep, lpn l.sep))) (chs (trackerChanges fresh tr.inner)) =
        lvlEnts (lvlOf lpn fresh a0 (x.r.out ++ x.r.rest.map .old)) ∧
      (∀ k, delV tr.inner k = if k ∈ db.map (·.sep) ∧ k ∉ (oldsOf x.r.out ++ x.r.rest).map (·.sep) then some (lpn k) else none) ∧
      (∀ k, (insV tr.inner k).map (fun y => resolve fresh y.2) = newAt fresh a0 (newsOf x.r.out) k) ∧
      (∀ k, insV tr.inner k = expInsL a0 ((newsOf x.r.out).map fun l => (l.sep, l)) k) := by
  obtain ⟨⟨consumed, hc1, hc2⟩, hins⟩ := hb
  -- separators of the old level are pairwise different
  have hperm : ((consumed ++ (oldsOf x.r.out ++ x.r.rest)).map (·.sep)).Perm (db.map (·.sep)) := hc2.map _
  have hnd : ((consumed ++ (oldsOf x.r.out ++ x.r.rest)).map (·.sep)).Nodup :=
    hperm.nodup_iff.2 (hdb.imp (fun h => by omega))
  rw [List.map_append, List.nodup_append] at hnd
  obtain ⟨hnd1, hnd2, hnd3⟩ := hnd
  have hmem : ∀ k, k ∈ db.map (·.sep) ↔ k ∈ consumed.map (·.sep) ∨ k ∈ (oldsOf x.r.out ++ x.r.rest).map (·.sep) := by
    intro k
    rw [← hperm.mem_iff, List.map_append, List.mem_append]
  have hdk : (delsOf x.evs).map (·.1) = consumed.map (·.sep) := by rw [hc1]; simp
  obtain ⟨tr, e1, hasc, hx, hD, hI⟩ := runEvs_spec x.evs ({} : Tracker (Leaf V)) a0 List.Pairwise.nil
    (delOnce_nil x.evs (by rw [hdk]; exact hnd1))
  have hlen : (insOf x.evs).length = (newsOf x.r.out).length := by rw [hins]; simp
  have hnews : (newsOf x.r.out).Pairwise (fun a b => a.sep < b.sep) := by
    have := newsOf_asc hout
    rwa [newsOf_append, newsOf_old, List.append_nil] at this
  have hD' : ∀ k, delV tr.inner k = if k ∈ consumed.map (·.sep) then some (lpn k) else none := by
    intro k
    rw [hD k, expDel_eq, hc1, expDelL_consumed]
    by_cases hk : k ∈ consumed.map (·.sep)
    · simp [hk]
    · simp [hk, delV, lookupE]
  have hI' : ∀ k, (insV tr.inner k).map (fun y => resolve fresh y.2) = newAt fresh a0 (newsOf x.r.out) k := by
    intro k
    rw [hI k, expIns_eq, hins, ← expInsL_news fresh k _ a0 hnews]
    cases expInsL a0 ((newsOf x.r.out).map fun l => (l.sep, l)) k with
    | some y => rfl
    | none => simp [insV, lookupE]
  have hcs := trackerChanges_asc fresh tr.inner hasc
  have hI2 : ∀ k, insV tr.inner k = expInsL a0 ((newsOf x.r.out).map fun l => (l.sep, l)) k := by
    intro k
    rw [hI k, expIns_eq, hins]
    cases expInsL a0 ((newsOf x.r.out).map fun l => (l.sep, l)) k with
    | some y => rfl
    | none => simp [insV, lookupE]
  refine ⟨tr, by rw [e1, hlen], hasc, hx, hcs, ?_, ?_, ?_, hI', hI2⟩
  · -- a `None` entry names a consumed leaf
    intro k hk
    unfold trackerChanges at hk
    obtain ⟨⟨k', e⟩, he, heq⟩ := List.mem_map.1 hk
    simp only [Prod.mk.injEq] at heq
    obtain ⟨rfl, hnone⟩ := heq
    obtain ⟨hmem', hp⟩ := List.mem_filter.1 he
    have hl := lookupE_of_mem hasc hmem'
    have hi : e.inserted = none := by cases h : e.inserted <;> simp [h] at hnone ⊢
    have hd : e.deleted.isSome = true := by simpa [hi] using hp
    have : delV tr.inner k' = e.deleted := by simp [delV, hl]
    rw [hD' k'] at this
    by_cases hc : k' ∈ consumed.map (·.sep)
    · exact (hmem k').2 (Or.inl hc)
    · rw [if_neg hc] at this; rw [← this] at hd; cases hd
  · -- the level
    have hA : LvlAsc (db.map fun l => (l.sep, lpn l.sep)) := by
      unfold LvlAsc; rw [List.pairwise_map]; exact (List.pairwise_map).1 hdb
    apply sorted_ext (LeafUpd.applyAll_sorted (lvlEnts_sorted hA) _)
      (lvlEnts_sorted (lvlOf_asc lpn fresh _ a0 hout))
    intro k
    rw [getE_applyAll _ _ k (chs_keys_ne hcs), getC_trackerChanges fresh k tr.inner hasc, getE_lvlOf lpn fresh k _ a0 hout,
      newsOf_append, newsOf_old, List.append_nil, oldsOf_append, oldsOf_old, ← hI' k, getE_lvlEnts_db, hD' k]
    cases hi : insV tr.inner k with
    | some y => simp
    | none =>
      simp only [Option.isSome_none, Bool.false_or, Option.map_none]
      have hm := hmem k
      by_cases hc : k ∈ consumed.map (·.sep)
      · have h2 : k ∉ (oldsOf x.r.out ++ x.r.rest).map (·.sep) := fun h2 => hnd3 k hc k h2 rfl
        rw [if_pos hc, if_neg h2]
        rfl
      · rw [if_neg hc]
        by_cases h2 : k ∈ (oldsOf x.r.out ++ x.r.rest).map (·.sep)
        · rw [if_pos h2, if_pos (hm.2 (Or.inr h2))]
          rfl
        · have h3 : k ∉ db.map (·.sep) := fun h => by
            rcases hm.1 h with h | h
            · exact hc h
            · exact h2 h
          rw [if_neg h2, if_neg h3]
          rfl
  · intro k
    rw [hD' k]
    have := hmem k
    by_cases hc : k ∈ consumed.map (·.sep)
    · have h2 : k ∉ (oldsOf x.r.out ++ x.r.rest).map (·.sep) := fun h2 => hnd3 k hc k h2 rfl
      rw [if_pos hc, if_pos ⟨this.2 (Or.inl hc), h2⟩]
    · rw [if_neg hc, if_neg]
      rintro ⟨h3, h4⟩
      rcases this.1 h3 with h | h
      · exact hc h
      · exact h4 h

end Nomt.StageGlue
