import NomtModel.Store.DeltaCodec
/-!
# `Delta::decode (Delta::encode d) = d`

For every delta whose keys are 32 bytes long and pairwise distinct (it is a hash map keyed by `KeyPath = [u8; 32]`),
with fewer than 2³² entries per group and values shorter than 2³² bytes (the `as u32` casts of `encode`), in whatever
order the hash map is iterated, and whatever bytes follow the encoding.
-/
namespace Nomt.Seg

theorem leBytes_length : ∀ (k n : Nat), (leBytes k n).length = k
  | 0, _ => rfl
  | k + 1, n => by simp [leBytes, leBytes_length k]

theorem leVal_leBytes : ∀ (k n : Nat), leVal (leBytes k n) = n % 256 ^ k
  | 0, n => by simp [leBytes, leVal, Nat.mod_one]
  | k + 1, n => by
    simp only [leBytes, leVal, leVal_leBytes k (n / 256)]
    have h1 : (UInt8.ofNat (n % 256)).toNat = n % 256 := by
      simp [UInt8.toNat_ofNat']
    rw [h1, Nat.pow_succ, Nat.mul_comm (256 ^ k) 256, Nat.mod_mul]

theorem leVal_leBytes4 (n : Nat) (h : n < 4294967296) : leVal (leBytes 4 n) = n := by
  rw [leVal_leBytes]; exact Nat.mod_eq_of_lt (by simpa using h)

theorem readExact_append (a rest : Bytes) : readExact a.length (a ++ rest) = some (a, rest) := by
  simp [readExact]

/-- the keys of `l` are pairwise distinct and none of them is in `seen` (the order `decode` meets them in) -/
def DistinctFrom : List Bytes → List Bytes → Prop
  | _, [] => True
  | seen, k :: ks => k ∉ seen ∧ DistinctFrom (seen ++ [k]) ks

theorem distinctFrom_of_nodup : ∀ (l seen : List Bytes), (seen ++ l).Nodup → DistinctFrom seen l
  | [], _, _ => trivial
  | k :: ks, seen, h => by
    refine ⟨?_, distinctFrom_of_nodup ks (seen ++ [k]) (by simpa using h)⟩
    intro hk
    exact (List.nodup_append.mp h).2.2 k hk k (by simp) rfl

theorem distinctFrom_append : ∀ (a b seen : List Bytes), DistinctFrom seen (a ++ b) →
    DistinctFrom seen a ∧ DistinctFrom (seen ++ a) b
  | [], b, seen, h => ⟨trivial, by simpa using h⟩
  | k :: a, b, seen, h => by
    obtain ⟨h1, h2⟩ := h
    obtain ⟨i1, i2⟩ := distinctFrom_append a b (seen ++ [k]) h2
    exact ⟨⟨h1, i1⟩, by simpa using i2⟩

theorem hasKey_false (m : PMap) (k : Bytes) (h : k ∉ m.map (·.1)) : hasKey m k = false := by
  simp only [hasKey, List.any_eq_false, beq_iff_eq]
  intro x hx hxk
  exact h (List.mem_map.mpr ⟨x, hx, hxk⟩)

theorem decErase_ok : ∀ (keys : List Bytes) (rest : Bytes) (m : PMap),
    (∀ k ∈ keys, k.length = 32) → DistinctFrom (m.map (·.1)) keys →
    decErase keys.length (keys.flatMap id ++ rest) m = .ok (m ++ keys.map (fun k => (k, none)), rest)
  | [], rest, m, _, _ => by simp [decErase]
  | k :: keys, rest, m, hlen, hnd => by
    have hk : k.length = 32 := hlen k (by simp)
    have hrd : readExact 32 ((k :: keys).flatMap id ++ rest) = some (k, keys.flatMap id ++ rest) := by
      have := readExact_append k (keys.flatMap id ++ rest)
      rw [hk] at this
      simpa using this
    have hnk : hasKey m k = false := hasKey_false m k hnd.1
    have ih := decErase_ok keys rest (m ++ [(k, none)]) (fun x hx => hlen x (by simp [hx])) (by simpa using hnd.2)
    simp only [List.length_cons, decErase, hrd, hnk, Bool.false_eq_true, if_false, ih, List.map_cons]
    simp

theorem decReinstate_ok : ∀ (kvs : List (Bytes × Bytes)) (rest : Bytes) (m : PMap),
    (∀ kv ∈ kvs, kv.1.length = 32 ∧ kv.2.length < 4294967296) → DistinctFrom (m.map (·.1)) (kvs.map (·.1)) →
    decReinstate kvs.length (kvs.flatMap encReinstate ++ rest) m = .ok (m ++ kvs.map (fun kv => (kv.1, some kv.2)), rest)
  | [], rest, m, _, _ => by simp [decReinstate]
  | kv :: kvs, rest, m, hlen, hnd => by
    obtain ⟨hk, hv⟩ := hlen kv (by simp)
    have hflat : (kv :: kvs).flatMap encReinstate ++ rest =
        kv.1 ++ (leBytes 4 kv.2.length ++ (kv.2 ++ (kvs.flatMap encReinstate ++ rest))) := by
      simp [encReinstate]
    have hrd1 : readExact 32 (kv.1 ++ (leBytes 4 kv.2.length ++ (kv.2 ++ (kvs.flatMap encReinstate ++ rest)))) =
        some (kv.1, leBytes 4 kv.2.length ++ (kv.2 ++ (kvs.flatMap encReinstate ++ rest))) := by
      have := readExact_append kv.1 (leBytes 4 kv.2.length ++ (kv.2 ++ (kvs.flatMap encReinstate ++ rest)))
      rwa [hk] at this
    have hrd2 : readExact 4 (leBytes 4 kv.2.length ++ (kv.2 ++ (kvs.flatMap encReinstate ++ rest))) =
        some (leBytes 4 kv.2.length, kv.2 ++ (kvs.flatMap encReinstate ++ rest)) := by
      have := readExact_append (leBytes 4 kv.2.length) (kv.2 ++ (kvs.flatMap encReinstate ++ rest))
      rwa [leBytes_length] at this
    have hrd3 : readExact (leVal (leBytes 4 kv.2.length)) (kv.2 ++ (kvs.flatMap encReinstate ++ rest)) =
        some (kv.2, kvs.flatMap encReinstate ++ rest) := by
      rw [leVal_leBytes4 _ hv]; exact readExact_append _ _
    have hnk : hasKey m kv.1 = false := hasKey_false m kv.1 hnd.1
    have ih := decReinstate_ok kvs rest (m ++ [(kv.1, some kv.2)]) (fun x hx => hlen x (by simp [hx]))
      (by simpa using hnd.2)
    rw [hflat]
    simp only [List.length_cons, decReinstate, hrd1, hrd2, hrd3, hnk, Bool.false_eq_true, if_false, ih, List.map_cons]
    simp

/-- **round trip** -/
theorem delta_roundtrip (d : Priors) (extra : Bytes)
    (hk1 : ∀ k ∈ d.erase, k.length = 32)
    (hk2 : ∀ kv ∈ d.reinstate, kv.1.length = 32 ∧ kv.2.length < 4294967296)
    (hn1 : d.erase.length < 4294967296) (hn2 : d.reinstate.length < 4294967296)
    (hdist : (d.erase ++ d.reinstate.map (·.1)).Nodup) :
    deltaDecode (deltaEncode d ++ extra) = .ok d.toMap := by
  have hD := distinctFrom_of_nodup _ [] (by simpa using hdist)
  obtain ⟨hD1, hD2⟩ := distinctFrom_append _ _ _ hD
  have henc : deltaEncode d ++ extra = leBytes 4 d.erase.length ++ (d.erase.flatMap id ++
      (leBytes 4 d.reinstate.length ++ (d.reinstate.flatMap encReinstate ++ extra))) := by
    simp [deltaEncode]
  have hr1 : readExact 4 (leBytes 4 d.erase.length ++ (d.erase.flatMap id ++
      (leBytes 4 d.reinstate.length ++ (d.reinstate.flatMap encReinstate ++ extra)))) =
      some (leBytes 4 d.erase.length, d.erase.flatMap id ++
        (leBytes 4 d.reinstate.length ++ (d.reinstate.flatMap encReinstate ++ extra))) := by
    have := readExact_append (leBytes 4 d.erase.length) (d.erase.flatMap id ++
      (leBytes 4 d.reinstate.length ++ (d.reinstate.flatMap encReinstate ++ extra)))
    rwa [leBytes_length] at this
  have hr2 : readExact 4 (leBytes 4 d.reinstate.length ++ (d.reinstate.flatMap encReinstate ++ extra)) =
      some (leBytes 4 d.reinstate.length, d.reinstate.flatMap encReinstate ++ extra) := by
    have := readExact_append (leBytes 4 d.reinstate.length) (d.reinstate.flatMap encReinstate ++ extra)
    rwa [leBytes_length] at this
  have he := decErase_ok d.erase (leBytes 4 d.reinstate.length ++ (d.reinstate.flatMap encReinstate ++ extra)) []
    hk1 (by simpa using hD1)
  have hre := decReinstate_ok d.reinstate extra ([] ++ d.erase.map (fun k => (k, none))) hk2
    (by simpa [Function.comp_def] using hD2)
  rw [henc]
  simp only [List.nil_append] at hre
  simp only [deltaDecode, hr1, leVal_leBytes4 _ hn1, he, hr2, leVal_leBytes4 _ hn2, hre, Priors.toMap, List.nil_append]

end Nomt.Seg
