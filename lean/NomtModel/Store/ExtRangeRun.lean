import NomtModel.Store.ExtRangeStep
/-!
Consequences of `step_ok` for whole runs: the protocol invariant holds along EVERY schedule, no protocol panic site is
reached, and the protocol never deadlocks: as long as a worker has not returned, some worker can move.
-/
namespace Nomt.ExtRange

variable {σ N C : Type}

theorem exists_max (P : Nat → Prop) : ∀ n, (∃ i, i < n ∧ P i) → ∃ i, i < n ∧ P i ∧ ∀ k, i < k → k < n → ¬ P k := by
  intro n
  induction n with
  | zero => intro ⟨i, hi, _⟩; omega
  | succ n ih =>
    intro ⟨i, hi, hp⟩
    by_cases hn : P n
    · exact ⟨n, by omega, hn, fun k h1 h2 => by omega⟩
    · have hin : i < n := by
        rcases Nat.lt_or_ge i n with h | h
        · exact h
        · have : i = n := by omega
          subst this; exact absurd hp hn
      obtain ⟨m, hm, hpm, hmax⟩ := ih ⟨i, hin, hp⟩
      refine ⟨m, by omega, hpm, fun k h1 h2 => ?_⟩
      by_cases hk : k = n
      · subst hk; exact hn
      · exact hmax k h1 (by omega)

theorem exists_min (P : Nat → Prop) : ∀ n, (∃ i, i < n ∧ P i) → ∃ i, i < n ∧ P i ∧ ∀ k, k < i → ¬ P k := by
  intro n
  induction n with
  | zero => intro ⟨i, hi, _⟩; omega
  | succ n ih =>
    intro ⟨i, hi, hp⟩
    by_cases hex : ∃ i, i < n ∧ P i
    · obtain ⟨m, hm, hpm, hmin⟩ := ih hex
      exact ⟨m, by omega, hpm, hmin⟩
    · have hin : i = n := by
        rcases Nat.lt_or_ge i n with h | h
        · exact absurd ⟨i, h, hp⟩ hex
        · omega
      subst hin
      exact ⟨i, hi, hp, fun k hk hpk => hex ⟨k, hk, hpk⟩⟩

/-- no deadlock: if every worker is blocked (or has returned), all have returned -/
theorem AInv.no_deadlock {a : AG} (h : AInv a) (hb : ∀ i, i < a.n → BlockedP a i) :
    ∀ i, i < a.n → (a.pv i).kind = .done := by
  apply Classical.byContradiction
  intro hcon
  have hex : ∃ i, i < a.n ∧ (a.pv i).kind ≠ .done := by
    apply Classical.byContradiction
    intro hne
    apply hcon
    intro i hi
    apply Classical.byContradiction
    intro hk
    exact hne ⟨i, hi, hk⟩
  by_cases hw : ∃ i, i < a.n ∧ (a.pv i).kind = .wait
  · -- the right-most worker that waits for a response
    obtain ⟨i, hi, hkw, hmax⟩ := exists_max _ _ hw
    have hresp : (a.pv i).resp = none := by
      rcases hb i hi with ⟨_, h2⟩ | ⟨h1, _⟩ | h1
      · exact h2
      · rw [hkw] at h1; cases h1
      · rw [hkw] at h1; cases h1
    rcases h.waitOk i hi hkw with hr | ⟨j, hrj, hm⟩
    · rw [hresp] at hr; cases hr
    · obtain ⟨hij, hjn, hjl, hjd⟩ := h.topo i j hi (by rw [effRight_of_resp_none hresp]; exact hrj)
      rcases hb j hjn with ⟨h1, _⟩ | ⟨h1, _, hc, _⟩ | h1
      · exact hmax j hij hjn h1
      · rcases hm with hm | hm
        · rw [hc] at hm; cases hm
        · rw [h.frecvPend j hjn h1] at hm; cases hm
      · exact hjd h1
  · -- nobody waits: the left-most worker that has not returned is blocked on a channel whose sender is held further left
    obtain ⟨j, hj, hkj, hmin⟩ := exists_min _ _ hex
    rcases hb j hj with ⟨h1, _⟩ | ⟨h1, _, _, ⟨i, hi, hh⟩⟩ | h1
    · exact hw ⟨j, hj, h1⟩
    · have hri : (a.pv i).resp = none := by
        cases hr : (a.pv i).resp with
        | none => rfl
        | some x => exact absurd ⟨i, hi, h.respWait i hi (by rw [hr]; rfl)⟩ hw
      rcases hh with ⟨hd, hr⟩ | ⟨hh, hr⟩
      · obtain ⟨hij, _⟩ := h.topo i j hi (by rw [effRight_of_resp_none hri]; exact hr)
        exact hmin i hij hd
      · rw [hri] at hr; cases hr
    · exact hkj h1

/-- the invariant along every schedule; a schedule never ends in a protocol panic site -/
theorem inv_runSched (U : Upd σ N C) (cfg : Cfg) (db : List (DbN N)) (hs : cfg.staleHigh = false)
    (hm : cfg.highMax = false) :
    ∀ (s : List Nat) (g : G σ N C), AInv (absG g) →
      match runSched U cfg db s g with
      | .inr g' => AInv (absG g')
      | .inl site => site ∈ updSites
  | [], g, h => h
  | i :: s, g, h => by
    unfold runSched
    by_cases hi : i < g.n
    · rw [if_pos hi]
      have := step_ok U cfg db g i hi h hs hm
      cases hst : step U cfg db g i with
      | ok g' =>
        rw [hst] at this
        exact inv_runSched U cfg db hs hm s g' (ATrans.inv h this)
      | blocked => exact inv_runSched U cfg db hs hm s g h
      | panic site => rw [hst] at this; exact this
    · rw [if_neg hi]; exact inv_runSched U cfg db hs hm s g h

theorem allDone_iff (g : G σ N C) : allDone g = true ↔ ∀ i, i < g.n → ((absG g).pv i).kind = .done := by
  simp only [allDone, List.all_eq_true, List.mem_range, beq_iff_eq, absG, view]
  constructor
  · intro h i hi; exact (kindOf_done _).2 (h i hi)
  · intro h i hi; exact (kindOf_done _).1 (h i hi)

/-- progress: under the invariant, unless every worker has returned, some worker's step is not `blocked` — it is a move
that keeps the invariant, or a panic of the updater / tracker -/
theorem progress (U : Upd σ N C) (cfg : Cfg) (db : List (DbN N)) (hs : cfg.staleHigh = false)
    (hm : cfg.highMax = false) (g : G σ N C)
    (h : AInv (absG g)) (hnd : allDone g = false) :
    ∃ i, i < g.n ∧ ((∃ g', step U cfg db g i = .ok g' ∧ AInv (absG g')) ∨
      ∃ site, step U cfg db g i = .panic site ∧ site ∈ updSites) := by
  apply Classical.byContradiction
  intro hcon
  have hb : ∀ i, i < g.n → BlockedP (absG g) i := by
    intro i hi
    have := step_ok U cfg db g i hi h hs hm
    cases hst : step U cfg db g i with
    | ok g' => rw [hst] at this; exact absurd ⟨i, hi, Or.inl ⟨g', hst, ATrans.inv h this⟩⟩ hcon
    | blocked => rw [hst] at this; exact this
    | panic site => rw [hst] at this; exact absurd ⟨i, hi, Or.inr ⟨site, hst, this⟩⟩ hcon
  have := (allDone_iff g).2 (h.no_deadlock hb)
  rw [this] at hnd; cases hnd

end Nomt.ExtRange
