import NomtModel.Api.DeltaBuild
/-!
# Mirror of `Rollback` (C09 / C10 / C12): `nomt/src/rollback/mod.rs`

`InMemory` (`push_recent`, `pop_recent`, `pop_oldest`, `total_len`, `pending_truncate`), `Rollback::commit`,
`commit_nonblocking` (the two `try_lock`s, the delta handed back), `truncate(n)` (the `assert!`, the refusal, the
pop loop filling the traceback `BTreeMap`, `earliest_record_id.prev().unwrap()`, `pending_truncate`),
`writeout_start` (= `SyncController::begin_sync`: the range to publish in the meta; with a pending truncation the
range left in memory, otherwise the seglog's range and `pop_oldest` when more than `max_rollback_log_len` deltas are
held), `writeout_end` (= `post_meta` / `wait_post_meta`: `prune_oldest`, `prune_recent`), `Rollback::read` (every
live record pushed, then trimmed to `max_rollback_log_len`).

The `SegmentedLog` appears as what `Rollback` sees of it (`Seg`): the live range and the records in the segment
files; `append` / `prune_oldest` / `prune_recent` / `open` at this level are what `T9_seglog_refines_list`
(`Props/C09_Seglog.lean`) proves of the directory-of-segments model: `append` returns `end_live + 1`, `prune_oldest n`
removes only whole files of records `< n` (here: none — the theorems quantify over any such removal), `prune_recent n`
cuts after record `n`, `open(s, e)` hands out the records with `s ≤ id ≤ e`.  Every `panic!` / `unwrap` / `assert!` is
an explicit `Outcome.panic`, the `Err` of `truncate_head_segment` an `Outcome.err`.
-/
namespace Nomt.Rb
open Nomt
variable {V : Type}

/-- `Delta { priors }` -/
abbrev Delta (V : Type) := Dlt.PMap V

/-- what `Rollback` sees of the `SegmentedLog` -/
structure Seg (V : Type) where
  startLive : Nat := 0
  endLive : Nat := 0
  recs : List (Nat × Delta V) := []      -- the records in the segment files (ascending ids), payloads decoded
deriving Repr

/-- `SegmentedLog::append` (payload within `MAX_RECORD_PAYLOAD_SIZE`, no I/O error) -/
def Seg.append (g : Seg V) (d : Delta V) : Nat × Seg V :=
  let id := g.endLive + 1
  (id, { startLive := if g.startLive = 0 then id else g.startLive, endLive := id, recs := g.recs ++ [(id, d)] })

/-- `SegmentedLog::prune_oldest` -/
def Seg.pruneOldest (g : Seg V) (n : Nat) : Outcome Unit (Seg V) :=
  if n = 0 then .ok {}                            -- nil: `remove_all_segments`
  else if g.recs.isEmpty then .ok g               -- `self.segments.is_empty()`
  else if n > g.endLive then .panic "prune_oldest: New live start is greater than the live end"
  else if n < g.startLive then .panic "prune_oldest: The new start of the live range is less than the existing live start"
  else .ok { g with startLive := n }

/-- `SegmentedLog::prune_recent` -/
def Seg.pruneRecent (g : Seg V) (n : Nat) : Outcome Unit (Seg V) :=
  if n = 0 then .ok {}
  else if g.recs.isEmpty then .ok g
  else if g.recs.any (fun x => x.1 == n) then .ok { g with endLive := n, recs := g.recs.filter (fun x => x.1 ≤ n) }
  else .err ()                                    -- "Failed to find the last live record in the head segment"

/-- `Shared` (`in_memory`, `seglog`, `max_rollback_log_len`) -/
structure Rb (V : Type) where
  log : List (Nat × Delta V) := []       -- `InMemory::log`, front (oldest) first
  pending : Option Nat := none           -- `InMemory::pending_truncate`
  seg : Seg V := {}
  maxLen : Nat
deriving Repr

/-- `Rollback::commit` -/
def Rb.commit (r : Rb V) (d : Delta V) : Rb V :=
  let a := r.seg.append d
  { r with seg := a.2, log := r.log ++ [(a.1, d)] }

/-- `Rollback::commit_nonblocking`; `inMemFree` / `segFree`: whether `try_lock` obtains the lock -/
def Rb.commitNonblocking (r : Rb V) (inMemFree segFree : Bool) (d : Delta V) : Option (Delta V) × Rb V :=
  if !inMemFree then (some d, r)
  else if !segFree then (some d, r)
  else (none, r.commit d)

/-- the `while n > 0` loop of `truncate`: `pop_recent().unwrap()`, `traceback.insert` for every prior -/
def truncLoop : Nat → List (Nat × Delta V) → Dlt.PMap V → Option Nat →
    Outcome Unit (List (Nat × Delta V) × Dlt.PMap V × Option Nat)
  | 0, log, tb, e => .ok (log, tb, e)
  | n + 1, log, tb, _ =>
    match log.getLast? with
    | none => .panic "truncate: pop_recent().unwrap()"
    | some (id, d) => truncLoop n log.dropLast (Dlt.extend tb d) (some id)

/-- `Rollback::truncate(n)` -/
def Rb.truncate (r : Rb V) (n : Nat) : Outcome Unit (Option (Dlt.PMap V) × Rb V) :=
  if n = 0 then .panic "truncate: assert!(n > 0)"
  else if n > r.log.length then .ok (none, r)
  else
    match truncLoop n r.log [] none with
    | .ok (log', tb, some e) =>
      if e = 0 then .panic "truncate: earliest_record_id.prev().unwrap()"
      else .ok (some tb, { r with log := log', pending := some (e - 1) })
    | .ok (_, _, none) => .panic "truncate: earliest_record_id.unwrap()"
    | .err e => .err e
    | .panic s => .panic s

/-- `WriteoutData` -/
structure Writeout where
  startLive : Nat
  endLive : Nat
  pruneStart : Option Nat
  pruneEnd : Option Nat
deriving Repr, DecidableEq

/-- `Rollback::writeout_start` (`SyncController::begin_sync`) -/
def Rb.writeoutStart (r : Rb V) : Outcome Unit (Writeout × Rb V) :=
  match r.pending with
  | some pt =>
    let se : Nat × Nat := match r.log.head? with
      | some (first, _) => (first, pt)
      | none => (0, 0)
    .ok ({ startLive := se.1, endLive := se.2,
           pruneStart := if se.1 > r.seg.startLive then some se.1 else none,
           pruneEnd := some se.2 },
         { r with pending := none })
  | none =>
    if r.log.length > r.maxLen then
      match r.log with
      | (id, _) :: rest =>
        .ok ({ startLive := r.seg.startLive, endLive := r.seg.endLive, pruneStart := some (id + 1), pruneEnd := none },
             { r with log := rest })
      | [] => .panic "writeout_start: pop_oldest().unwrap()"
    else
      .ok ({ startLive := r.seg.startLive, endLive := r.seg.endLive, pruneStart := none, pruneEnd := none }, r)

/-- `Rollback::writeout_end` (`post_meta` + `wait_post_meta`) -/
def Rb.writeoutEnd (r : Rb V) (w : Writeout) : Outcome Unit (Rb V) :=
  match (match w.pruneStart with | some n => r.seg.pruneOldest n | none => .ok r.seg) with
  | .ok g1 =>
    (match (match w.pruneEnd with | some n => g1.pruneRecent n | none => .ok g1) with
     | .ok g2 => .ok { r with seg := g2 }
     | .err e => .err e
     | .panic s => .panic s)
  | .err e => .err e
  | .panic s => .panic s

/-- one sync: `begin_sync`, the meta is written with the returned range, `post_meta`, `wait_post_meta` -/
def Rb.sync (r : Rb V) : Outcome Unit ((Nat × Nat) × Rb V) :=
  match r.writeoutStart with
  | .ok (w, r1) =>
    (match r1.writeoutEnd w with
     | .ok r2 => .ok ((w.startLive, w.endLive), r2)
     | .err e => .err e
     | .panic s => .panic s)
  | .err e => .err e
  | .panic s => .panic s

/-- the records `seglog::open(s, e)` hands to the callback -/
def liveRecs (s e : Nat) (recs : List (Nat × Delta V)) : List (Nat × Delta V) :=
  if s = 0 then [] else recs.filter (fun x => decide (s ≤ x.1) && decide (x.1 ≤ e))

/-- `while in_memory.total_len() > max { pop_oldest() }` -/
def trim (maxLen : Nat) (log : List (Nat × Delta V)) : List (Nat × Delta V) := log.drop (log.length - maxLen)

/-- `Rollback::read` on a directory holding `recs` with the live range of the meta (`seglog::open` refuses a range of
which exactly one end is nil; a range naming records that do not exist is outside this model — `Store/SegOpen.lean`) -/
def Rb.read (maxLen : Nat) (range : Nat × Nat) (recs : List (Nat × Delta V)) : Outcome Unit (Rb V) :=
  if (range.1 = 0 ∧ range.2 ≠ 0) ∨ (range.1 ≠ 0 ∧ range.2 = 0) then .err ()
  else .ok
    { log := trim maxLen (liveRecs range.1 range.2 recs), pending := none,
      seg := { startLive := range.1, endLive := range.2,
               recs := if range.1 = 0 then [] else recs.filter (fun x => x.1 ≤ range.2) },
      maxLen := maxLen }

/-- abstraction to the specification-level log of `Api.Exec`: the deltas, newest first -/
def Rb.absLog (r : Rb V) : List (Dlt.PMap V) := (r.log.map (·.2)).reverse

end Nomt.Rb
