import NomtModel.Store.StageGlueModel
import NomtModel.Store.BranchUpdRun
import NomtModel.Store.LeafUpdKV
/-!
# `enforce_first_leaf_separator`: specification

On a leaf level whose first separator is the zero key and an ascending leaf changeset whose deletions name leaves of the
level: the function does not panic, keeps the changeset ascending, and the leaf level the branch stage builds from the
result is the one it would build from the input with the FIRST LEAF RELABELLED to the zero key (`relabel0`).
-/
namespace Nomt.StageGlue
open Nomt
open Nomt.LeafUpd (Entry Sorted write1 applyAll)
open Nomt.BranchUpd (chs chOf)

/-- the leaf level as the entries of the branch level -/
def lvlEnts (l : Level) : List (Entry Nat) := l.map fun x => ⟨x.1, x.2, false⟩

@[simp] theorem lvlEnts_nil : lvlEnts [] = [] := rfl
@[simp] theorem lvlEnts_cons (x : Nat × Nat) (l : Level) : lvlEnts (x :: l) = ⟨x.1, x.2, false⟩ :: lvlEnts l := rfl
@[simp] theorem lvlEnts_append (a b : Level) : lvlEnts (a ++ b) = lvlEnts a ++ lvlEnts b := by simp [lvlEnts]

/-- strictly ascending separators -/
def LvlAsc (l : Level) : Prop := l.Pairwise fun a b => a.1 < b.1

/-- strictly ascending keys -/
def CsAsc (cs : List (Nat × Option Nat)) : Prop := cs.Pairwise fun a b => a.1 < b.1

theorem lvlEnts_sorted {l : Level} (h : LvlAsc l) : Sorted (lvlEnts l) := by
  unfold LvlAsc at h
  unfold Sorted lvlEnts
  rw [List.pairwise_map]
  exact h

/-- the first entry moved under the zero key -/
def relabel0 (l : List (Entry Nat)) : List (Entry Nat) :=
  match l with
  | [] => []
  | x :: t => ⟨0, x.val, x.ovf⟩ :: t

/-! ## `indexed_leaf` at a separator of the level -/

theorem indexedLeaf_at : ∀ (A : Level) (x : Nat × Nat) (R : Level), LvlAsc (A ++ x :: R) →
    indexedLeaf (A ++ x :: R) x.1 = some (x.1, R.head?.map (·.1), x.2)
  | [], x, R, h => by
    obtain ⟨s, pn⟩ := x
    cases R with
    | nil => simp [indexedLeaf]
    | cons y R' =>
      obtain ⟨s2, pn2⟩ := y
      have : s < s2 := (List.pairwise_cons.1 h).1 (s2, pn2) (by simp)
      simp [indexedLeaf, this]
  | a :: A', x, R, h => by
    obtain ⟨s0, pn0⟩ := a
    have h' := List.pairwise_cons.1 h
    have hlt : s0 < x.1 := h'.1 x (by simp)
    have ih := indexedLeaf_at A' x R h'.2
    cases hA : A' with
    | nil =>
      subst hA
      obtain ⟨s, pn⟩ := x
      simp only [List.cons_append, List.nil_append, indexedLeaf] at ih ⊢
      have h1 : ¬ s < s0 := by simp at hlt; omega
      simp only [Nat.lt_irrefl, if_false] at ih
      simp only [h1, if_false, Nat.lt_irrefl]
      exact ih
    | cons b A'' =>
      subst hA
      obtain ⟨s1, pn1⟩ := b
      have hlt1 : s1 < x.1 := (List.pairwise_cons.1 h'.2).1 x (by simp)
      simp only [List.cons_append, indexedLeaf] at ih ⊢
      have h1 : ¬ x.1 < s0 := by omega
      have h2 : ¬ x.1 < s1 := by omega
      simp only [h1, h2, if_false]
      simp only [h2, if_false] at ih
      exact ih

theorem nextCandidate_at (A : Level) (x : Nat × Nat) (R : Level) (h : LvlAsc (A ++ x :: R)) :
    nextCandidate (A ++ x :: R) x.1 = some (R.head?, (R.head?.map (·.1)).getD x.1) := by
  unfold nextCandidate
  rw [indexedLeaf_at A x R h]
  cases R with
  | nil => simp
  | cons y R' =>
    have h2 : LvlAsc ((A ++ [x]) ++ y :: R') := by simpa using h
    have := indexedLeaf_at (A ++ [x]) y R' h2
    simp only [List.append_assoc, List.singleton_append] at this
    simp [this]

/-! ## the loop -/

/-- how many entries the loop skips: deletions of consecutive leaves -/
def skipRun : Level → List (Nat × Option Nat) → Nat
  | (s, _) :: R', (k, none) :: post' => if s = k then skipRun R' post' + 1 else 0
  | _, _ => 0

theorem enforceLoop_spec (c0 : Nat × Option Nat) : ∀ (post : List (Nat × Option Nat)) (A : Level) (x : Nat × Nat) (R : Level)
    (pre : List (Nat × Option Nat)) (fuel : Nat), LvlAsc (A ++ x :: R) → post.length + 1 ≤ fuel →
    enforceLoop false (A ++ x :: R) (c0 :: pre ++ post) fuel x.1 (pre.length + 1) =
      some ((R.drop (skipRun R post)).head?, pre.length + 1 + skipRun R post) := by
  intro post
  induction post with
  | nil =>
    intro A x R pre fuel h hf
    obtain ⟨f, rfl⟩ : ∃ f, fuel = f + 1 := ⟨fuel - 1, by simp at hf; omega⟩
    have hs : skipRun R [] = 0 := by cases R with | nil => rfl | cons y R' => obtain ⟨a, b⟩ := y; rfl
    simp only [enforceLoop, nextCandidate_at A x R h, hs, List.drop_zero, Nat.add_zero]
    have : (c0 :: pre ++ [])[pre.length + 1]? = none := by simp
    simp [this]
  | cons p post' ih =>
    intro A x R pre fuel h hf
    obtain ⟨f, rfl⟩ : ∃ f, fuel = f + 1 := ⟨fuel - 1, by simp at hf; omega⟩
    have hget : (c0 :: pre ++ p :: post')[pre.length + 1]? = some p := by simp
    simp only [enforceLoop, nextCandidate_at A x R h]
    rw [hget]
    obtain ⟨k, w⟩ := p
    cases w with
    | some pn =>
      have hs : skipRun R ((k, some pn) :: post') = 0 := by
        cases R with | nil => rfl | cons y R' => obtain ⟨a, b⟩ := y; rfl
      simp [hs]
    | none =>
      cases R with
      | nil => simp [skipGuard, skipRun]
      | cons y R' =>
        obtain ⟨s, pn⟩ := y
        by_cases hsk : s = k
        · subst hsk
          have h2 : LvlAsc ((A ++ [x]) ++ (s, pn) :: R') := by simpa using h
          have := ih (A ++ [x]) (s, pn) R' (pre ++ [(s, none)]) f h2 (by simp at hf ⊢; omega)
          simp only [List.append_assoc, List.singleton_append, List.length_append, List.length_singleton] at this
          simp only [skipGuard, skipRun, List.head?_cons, Option.map_some, Option.getD_some, if_true,
            decide_true, Bool.false_eq_true, if_false]
          have e : (c0 :: (pre ++ [(s, none)])) ++ post' = (c0 :: pre) ++ (s, none) :: post' := by simp
          rw [e] at this
          rw [this]
          simp only [List.drop_succ_cons]
          congr 2
          omega
        · simp [skipGuard, skipRun, hsk]

/-- what the skipped entries are and why the loop stopped -/
theorem skipRun_spec : ∀ (R : Level) (post : List (Nat × Option Nat)),
    post.take (skipRun R post) = (R.take (skipRun R post)).map (fun x => (x.1, none)) ∧
      skipRun R post ≤ R.length ∧ skipRun R post ≤ post.length ∧
      (∀ s pn R' k post', R.drop (skipRun R post) = (s, pn) :: R' → post.drop (skipRun R post) = (k, none) :: post' → s ≠ k)
  | [], post => by cases post <;> simp [skipRun]
  | (s, pn) :: R', [] => by simp [skipRun]
  | (s, pn) :: R', (k, some p) :: post' => by simp [skipRun]
  | (s, pn) :: R', (k, none) :: post' => by
    by_cases hsk : s = k
    · subst hsk
      obtain ⟨a, b, c, d⟩ := skipRun_spec R' post'
      simp only [skipRun, if_true, List.take_succ_cons, List.map_cons, List.drop_succ_cons, List.length_cons]
      exact ⟨by rw [a], by omega, by omega, d⟩
    · simp only [skipRun, hsk, if_false, List.take_zero, List.map_nil, List.drop_zero, Nat.zero_le, true_and]
      intro s' pn' R'' k' post'' e1 e2
      cases e1; cases e2
      exact hsk

/-! ## applying a changeset to a level -/

theorem applyAll_cons_lt (x : Entry Nat) : ∀ (cs : List (Nat × Option (Nat × Bool))) (l : List (Entry Nat)),
    (∀ c ∈ cs, x.key < c.1) → applyAll (x :: l) cs = x :: applyAll l cs := by
  intro cs
  induction cs with
  | nil => intro l _; rfl
  | cons c cs ih =>
    intro l h
    show applyAll (write1 (x :: l) c.1 c.2) cs = x :: applyAll (write1 l c.1 c.2) cs
    rw [LeafUpd.write1_cons_below (h c (by simp)) c.2]
    exact ih _ (fun c' hc' => h c' (by simp [hc']))

/-- deleting a prefix of the level -/
theorem applyAll_del_prefix : ∀ (D R : Level) (cs : List (Nat × Option Nat)), LvlAsc (D ++ R) →
    applyAll (lvlEnts (D ++ R)) (chs (D.map (fun x => (x.1, none)) ++ cs)) = applyAll (lvlEnts R) (chs cs)
  | [], R, cs, _ => rfl
  | d :: D', R, cs, h => by
    have h' := List.pairwise_cons.1 h
    show applyAll (write1 (lvlEnts (d :: D' ++ R)) d.1 none) (chs (D'.map (fun x => (x.1, none)) ++ cs)) = _
    have : write1 (lvlEnts (d :: D' ++ R)) d.1 none = lvlEnts (D' ++ R) := by
      simp only [List.cons_append, lvlEnts_cons]
      apply LeafUpd.write1_none_head_eq rfl
      intro e he
      obtain ⟨y, hy, rfl⟩ := List.mem_map.1 he
      exact h'.1 y hy
    rw [this]
    exact applyAll_del_prefix D' R cs h'.2

theorem chs_cons (c : Nat × Option Nat) (cs : List (Nat × Option Nat)) : chs (c :: cs) = (c.1, chOf c.2) :: chs cs := rfl
theorem chs_append (a b : List (Nat × Option Nat)) : chs (a ++ b) = chs a ++ chs b := by simp [chs]
theorem mem_chs {c : Nat × Option (Nat × Bool)} {cs : List (Nat × Option Nat)} (h : c ∈ chs cs) : ∃ c' ∈ cs, c'.1 = c.1 := by
  obtain ⟨y, hy, rfl⟩ := List.mem_map.1 h
  exact ⟨y, hy, rfl⟩

end Nomt.StageGlue
