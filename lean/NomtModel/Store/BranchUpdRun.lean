import NomtModel.Store.BranchUpdDigest
import NomtModel.Store.LeafUpdRun
/-!
# The branch stage as a whole: `reset_branch_base`, the scope loop, the change loop, the final merge loop

`flat db` / `flatOut out`: the (separator, page number) entries of a level, left to right.  `DbOK kf db`: the nodes of the
old level are well formed (`NodeOK`), their index separators ascend, the keys of a node lie between its separator and the
next one.  The invariant of the run (`RS`): the updater's own invariant, the untouched nodes to the right, and the fact
that `out ++ updater ++ rest` is ascending.
-/
namespace Nomt.BranchUpd
open Nomt.LeafUpd (Entry Sorted write1 applyAll write1_append_below write1_append_above write1_sorted mem_write1
  applyAll_sorted)

def flat (db : List DbNode) : List (Entry Nat) := db.flatMap fun n => ents n.node.items
def flatOut (out : List OutNode) : List (Entry Nat) := out.flatMap fun o => ents o.items

@[simp] theorem flat_nil : flat [] = [] := rfl
@[simp] theorem flat_cons (l : DbNode) (r : List DbNode) : flat (l :: r) = ents l.node.items ++ flat r := rfl
@[simp] theorem flat_append (a b : List DbNode) : flat (a ++ b) = flat a ++ flat b := by simp [flat]
@[simp] theorem flatOut_nil : flatOut [] = [] := rfl
@[simp] theorem flatOut_append (a b : List OutNode) : flatOut (a ++ b) = flatOut a ++ flatOut b := by simp [flatOut]
theorem flatOut_old (a : List DbNode) : flatOut (a.map .old) = flat a := by
  induction a with
  | nil => rfl
  | cons x r ih => simp only [List.map_cons, flat_cons]; rw [← ih]; rfl
theorem flatOut_new (a : List Produced) : flatOut (a.map .new) = flatP a := by
  induction a with
  | nil => rfl
  | cons x r ih =>
    simp only [List.map_cons]
    show ents x.node.items ++ flatOut (r.map .new) = flatP (x :: r)
    rw [ih]; rfl

/-- the changes in the vocabulary of the sorted-list update -/
def chs (cs : List (Nat × Option Nat)) : List (Nat × Option (Nat × Bool)) := cs.map fun c => (c.1, chOf c.2)

/-! ## guards -/

def NodeIn (kf : KF) (n : DbNode) (hi : Option Nat) : Prop :=
  NodeOK kf n.node ∧ (∀ it ∈ n.node.items, n.sep ≤ it.key) ∧
    (∀ c, hi = some c → n.sep < c ∧ ∀ it ∈ n.node.items, it.key < c)

def DbOK (kf : KF) : List DbNode → Prop
  | [] => True
  | [l] => NodeIn kf l none
  | l :: l2 :: r => NodeIn kf l (some l2.sep) ∧ DbOK kf (l2 :: r)

/-- ascending keys `≥ lo`, below `2^256` -/
def ChOK : Nat → List (Nat × Option Nat) → Prop
  | _, [] => True
  | lo, (k, _) :: cs => lo ≤ k ∧ k < 2 ^ 256 ∧ ChOK (k + 1) cs

theorem DbOK.tail {kf : KF} {l : DbNode} {r : List DbNode} (h : DbOK kf (l :: r)) : DbOK kf r := by
  cases r with
  | nil => trivial
  | cons l2 r => exact h.2

theorem DbOK.head {kf : KF} {l : DbNode} {r : List DbNode} (h : DbOK kf (l :: r)) :
    NodeIn kf l (r.head?.map (·.sep)) := by
  cases r with
  | nil => exact h
  | cons l2 r => exact h.1

theorem DbOK.append_right {kf : KF} : ∀ {a b : List DbNode}, DbOK kf (a ++ b) → DbOK kf b := by
  intro a
  induction a with
  | nil => intro b h; exact h
  | cons l r ih => intro b h; exact ih (DbOK.tail (l := l) h)

theorem mem_ents {l : List Item} {e : Entry Nat} (h : e ∈ ents l) : ∃ it ∈ l, it.ent = e := List.mem_map.1 h

theorem DbOK.lower {kf : KF} : ∀ {r : List DbNode} {l : DbNode}, DbOK kf (l :: r) → ∀ e ∈ flat (l :: r), l.sep ≤ e.key := by
  intro r
  induction r with
  | nil =>
    intro l h e he
    simp only [flat_cons, flat_nil, List.append_nil] at he
    obtain ⟨it, hit, rfl⟩ := mem_ents he
    exact h.2.1 it hit
  | cons l2 r ih =>
    intro l h e he
    simp only [flat_cons, List.mem_append] at he
    rcases he with he | he
    · obtain ⟨it, hit, rfl⟩ := mem_ents he
      exact h.1.2.1 it hit
    · have := ih h.2 e (by simpa using he)
      have := (h.1.2.2 l2.sep rfl).1
      omega

theorem NodeOK.sorted_ents {kf : KF} {nd : Node} (h : NodeOK kf nd) : Sorted (ents nd.items) := by
  rw [← sortedK_ekeys, ekeys_ents]; exact h.sorted

theorem DbOK.sorted {kf : KF} : ∀ {r : List DbNode}, DbOK kf r → Sorted (flat r) := by
  intro r
  induction r with
  | nil => intro _; exact List.Pairwise.nil
  | cons l r ih =>
    intro h
    have h1 := h.head
    simp only [flat_cons, Sorted]
    rw [List.pairwise_append]
    refine ⟨h1.1.sorted_ents, ih h.tail, ?_⟩
    intro a ha b hb
    cases r with
    | nil => simp at hb
    | cons l2 r =>
      obtain ⟨it, hit, rfl⟩ := mem_ents ha
      have := (h1.2.2 l2.sep rfl).2 it hit
      have := DbOK.lower h.tail b hb
      simp only [Item.ent]
      omega

theorem DbOK.below {kf : KF} : ∀ {r : List DbNode}, DbOK kf r → ∀ e ∈ flat r, e.key < 2 ^ 256 := by
  intro r
  induction r with
  | nil => intro _ e he; simp at he
  | cons l r ih =>
    intro h e he
    simp only [flat_cons, List.mem_append] at he
    rcases he with he | he
    · obtain ⟨it, hit, rfl⟩ := mem_ents he
      exact h.head.1.below _ (List.mem_map.2 ⟨it, hit, rfl⟩)
    · exact ih h.tail e he

theorem DbOK.sep_mono {kf : KF} : ∀ {r : List DbNode} {l : DbNode}, DbOK kf (l :: r) → ∀ x ∈ r, l.sep ≤ x.sep := by
  intro r
  induction r with
  | nil => intro l _ x hx; simp at hx
  | cons l2 r ih =>
    intro l h x hx
    have h12 := (h.1.2.2 l2.sep rfl).1
    rcases List.mem_cons.1 hx with rfl | hx
    · omega
    · have := ih h.2 x hx; omega

/-! ## `Index::lookup` among the nodes to the right -/

theorem skipTo_spec {kf : KF} (key : Nat) : ∀ (r : List DbNode) (l : DbNode), DbOK kf (l :: r) → l.sep ≤ key →
    ∃ skipped l' rest', skipTo key (l :: r) = (skipped, l' :: rest') ∧ l :: r = skipped ++ l' :: rest' ∧
      l'.sep ≤ key ∧ (∀ e ∈ flat skipped, e.key < l'.sep) ∧
      (∀ n, r.head? = some n → key < n.sep → skipped = []) ∧ l.sep ≤ l'.sep := by
  intro r
  induction r with
  | nil =>
    intro l _ hl
    exact ⟨[], l, [], rfl, rfl, hl, by simp, by simp, Nat.le_refl _⟩
  | cons l2 r ih =>
    intro l h hl
    by_cases h2 : l2.sep ≤ key
    · obtain ⟨sk, l', rest', e1, e2, e3, e5, _, e7⟩ := ih l2 h.2 h2
      have h12 := (h.1.2.2 l2.sep rfl).1
      refine ⟨l :: sk, l', rest', by simp [skipTo, h2, e1], by simp [e2], e3, ?_, ?_, by omega⟩
      · intro e he
        simp only [flat_cons, List.mem_append] at he
        rcases he with he | he
        · obtain ⟨it, hit, rfl⟩ := mem_ents he
          have := (h.1.2.2 l2.sep rfl).2 it hit
          simp only [Item.ent]
          omega
        · exact e5 e he
      · intro n hn hlt; simp at hn; subst hn; omega
    · exact ⟨[], l, l2 :: r, by simp [skipTo, h2], rfl, hl, by simp, by simp, Nat.le_refl _⟩

/-! ## the run invariant -/

/-- an untouched node of the old level: well formed, its separator at most its keys -/
def OldOK (kf : KF) (l : DbNode) : Prop := NodeOK kf l.node ∧ ∀ it ∈ l.node.items, l.sep ≤ it.key

theorem DbOK.oldOK {kf : KF} : ∀ {db : List DbNode}, DbOK kf db → ∀ n ∈ db, OldOK kf n := by
  intro db
  induction db with
  | nil => intro _ n hn; cases hn
  | cons l r ih =>
    intro h n hn
    rcases List.mem_cons.1 hn with e | e
    · rw [e]; exact ⟨h.head.1, h.head.2.1⟩
    · exact ih h.tail n e

theorem mem_out_old_append {l : DbNode} {out : List OutNode} {ls : List Produced} {sk : List DbNode}
    (h : OutNode.old l ∈ out ++ ls.map .new ++ sk.map .old) : OutNode.old l ∈ out ∨ l ∈ sk := by
  rcases List.mem_append.1 h with h | h
  · rcases List.mem_append.1 h with h | h
    · exact Or.inl h
    · obtain ⟨q, _, e⟩ := List.mem_map.1 h
      cases e
  · obtain ⟨q, hq, e⟩ := List.mem_map.1 h
    cases e; exact Or.inr hq

/-- every key of `o` is below the separator of `o'` -/
def Before (o o' : OutNode) : Prop := ∀ e ∈ ents o.items, e.key < o'.sep

theorem DbOK.pairwise {kf : KF} : ∀ {db : List DbNode}, DbOK kf db →
    db.Pairwise (fun n n' => ∀ it ∈ n.node.items, it.key < n'.sep) := by
  intro db
  induction db with
  | nil => intro _; exact List.Pairwise.nil
  | cons l r ih =>
    intro h
    refine List.Pairwise.cons ?_ (ih h.tail)
    intro n' hn' it hit
    cases r with
    | nil => cases hn'
    | cons l2 r2 =>
      have h1 := (h.1.2.2 l2.sep rfl).2 it hit
      rcases List.mem_cons.1 hn' with e | e
      · rw [e]; exact h1
      · have := DbOK.sep_mono h.2 n' e
        omega

theorem pairwise_old {l : List DbNode} (h : l.Pairwise (fun n n' => ∀ it ∈ n.node.items, it.key < n'.sep)) :
    (l.map OutNode.old).Pairwise Before := by
  rw [List.pairwise_map]
  refine h.imp ?_
  intro a b hab e he
  obtain ⟨it, hit, rfl⟩ := mem_ents he
  exact hab it hit

/-- produced nodes whose entries ascend and whose separators are their first keys are chained -/
theorem pairwise_new {kf : KF} {cut : Option Nat} : ∀ {ls : List Produced}, Sorted (flatP ls) →
    (∀ p ∈ ls, NodeGood kf cut p) → (ls.map OutNode.new).Pairwise Before := by
  intro ls
  induction ls with
  | nil => intro _ _; exact List.Pairwise.nil
  | cons p r ih =>
    intro hs hg
    have hs' : Sorted (ents p.node.items ++ flatP r) := hs
    refine List.Pairwise.cons ?_ (ih (List.pairwise_append.1 hs').2.1 (fun q hq => hg q (by simp [hq])))
    intro o' ho' e he
    obtain ⟨q, hq, rfl⟩ := List.mem_map.1 ho'
    have g := hg q (by simp [hq])
    obtain ⟨f, rr, hfr⟩ := List.exists_cons_of_ne_nil g.ne
    have hsep : f.key = q.sep := by
      have := g.sep; rw [hfr] at this; simpa using this
    have hmem : f.ent ∈ flatP r := by
      unfold flatP
      rw [List.mem_flatMap]
      exact ⟨q, hq, by rw [hfr]; simp⟩
    have := (List.pairwise_append.1 hs').2.2 e he f.ent hmem
    show e.key < q.sep
    rw [← hsep]; exact this

/-- what every node handed to `handle_new_branch` satisfies -/
def NewGood (kf : KF) (p : Produced) : Prop := NodeGood kf p.cutoff p

structure RS (kf : KF) (r : Run) (lo : Nat) : Prop where
  inv : TInv kf r.st
  rest : DbOK kf r.rest
  cut : r.st.cutoff = r.rest.head?.map (·.sep)
  sortedT : Sorted (flatOut r.out ++ (content r.st ++ flat r.rest))
  belowT : ∀ e ∈ flatOut r.out ++ (content r.st ++ flat r.rest), e.key < 2 ^ 256
  hi : ∀ c, r.st.cutoff = some c → ∀ e ∈ content r.st, e.key < c
  out_lo : ∀ e ∈ flatOut r.out, e.key < lo
  den_lo : ∀ e ∈ den r.st.base r.st.ops, e.key < lo
  passed : ∀ b, r.st.base = some b → ∀ it ∈ b.node.items.take b.low, it.key < lo
  news : ∀ p, OutNode.new p ∈ r.out → NewGood kf p
  out_hi : ∀ c, r.st.cutoff = some c → ∀ e ∈ flatOut r.out, e.key < c
  chain : r.out.Pairwise Before
  olds : ∀ l, OutNode.old l ∈ r.out → OldOK kf l

theorem RS.mono {kf : KF} {r : Run} {lo lo' : Nat} (h : RS kf r lo) (hl : lo ≤ lo') : RS kf r lo' :=
  ⟨h.inv, h.rest, h.cut, h.sortedT, h.belowT, h.hi, fun e he => by have := h.out_lo e he; omega,
    fun e he => by have := h.den_lo e he; omega, fun b hb it hit => by have := h.passed b hb it hit; omega, h.news,
    h.out_hi, h.chain, h.olds⟩

/-- the run after `reset_branch_base_fresh` found the node `l` behind the skipped ones -/
def Run.reset (r : Run) (skipped : List DbNode) (l : DbNode) (rest' : List DbNode) : Run :=
  { r with st := resetBase r.st (some { node := l.node }) (rest'.head?.map (·.sep)), rest := rest',
           out := r.out ++ skipped.map .old, released := r.released ++ [l.bbn] }

/-- `reset_branch_base_fresh`: the updater is pointed at the node covering `key`; the ops it carries (all `Insert`s)
stay consistent -/
theorem resetTo_spec {kf : KF} (r : Run) (key : Nat) (l0 : DbNode) (rest0 : List DbNode)
    (hrest : r.rest = l0 :: rest0) (hdb : DbOK kf r.rest) (hl0 : l0.sep ≤ key) (hinv : TInv kf r.st)
    (hrn : restOf r.st.base = []) (hai : AllIns r.st.ops)
    (hbelow : ∀ e ∈ den r.st.base r.st.ops, e.key < l0.sep)
    (hmerge : den r.st.base r.st.ops ≠ [] → key = l0.sep) :
    ∃ skipped l rest', r.rest = skipped ++ l :: rest' ∧
      resetTo key r = r.reset skipped l rest' ∧
      l.sep ≤ key ∧ (den r.st.base r.st.ops ≠ [] → skipped = []) ∧ (∀ e ∈ flat skipped, e.key < l.sep) ∧
      DbOK kf (l :: rest') ∧
      TInv kf (resetBase r.st (some { node := l.node }) (rest'.head?.map (·.sep))) ∧
      content (resetBase r.st (some { node := l.node }) (rest'.head?.map (·.sep))) = den r.st.base r.st.ops ++ ents l.node.items ∧
      den (some ({ node := l.node } : Base)) r.st.ops = den r.st.base r.st.ops := by
  rw [hrest] at hdb
  obtain ⟨skipped, l, rest', e1, e2, e3, e5, e6, e7⟩ := skipTo_spec key rest0 l0 hdb hl0
  have hdbl : DbOK kf (l :: rest') := by rw [e2] at hdb; exact hdb.append_right
  have hnode := hdbl.head
  have hres : resetTo key r = r.reset skipped l rest' := by
    simp only [resetTo, hrest, e1, e3, if_true, Run.reset]
  have hden : den (some ({ node := l.node } : Base)) r.st.ops = den r.st.base r.st.ops := den_allIns hai _ _
  have hcont : content (resetBase r.st (some { node := l.node }) (rest'.head?.map (·.sep))) =
      den r.st.base r.st.ops ++ ents l.node.items := by
    simp only [content, resetBase, hden, restOf, List.drop_zero]
  have hcont0 : content r.st = den r.st.base r.st.ops := by simp [content, hrn]
  have hskip : den r.st.base r.st.ops ≠ [] → skipped = [] := by
    intro hne
    have hk := hmerge hne
    cases rest0 with
    | nil =>
      cases skipped with
      | nil => rfl
      | cons s sk =>
        have := congrArg List.length e2
        simp at this
    | cons n rest0' =>
      have := (hdb.1.2.2 n.sep rfl).1
      exact e6 n rfl (by omega)
  have hop_lt_l : ∀ e ∈ den r.st.base r.st.ops, e.key < l.sep := fun e he => by have := hbelow e he; omega
  refine ⟨skipped, l, rest', by rw [hrest, e2], hres, e3, hskip, e5, hdbl, ?_, hcont, hden⟩
  refine ⟨hinv.valid, ⟨wf_allIns hai, ?_, hinv.tr.pc⟩, ?_, ?_, ?_⟩
  · show GOK kf r.st.gauge (ekeys (den (some _) r.st.ops))
    rw [hden]; exact hinv.tr.gauge
  · intro b hb
    simp only [resetBase, Option.some.injEq] at hb
    subst hb
    exact ⟨hnode.1, by simp⟩
  · rw [hcont]
    unfold Sorted
    rw [List.pairwise_append]
    refine ⟨by have := hinv.sorted; rw [hcont0] at this; exact this, hnode.1.sorted_ents, ?_⟩
    intro a ha b hb
    obtain ⟨it, hit, rfl⟩ := mem_ents hb
    have := hop_lt_l a ha
    have := hnode.2.1 it hit
    simp only [Item.ent]
    omega
  · rw [hcont]
    intro e he
    rcases List.mem_append.1 he with he | he
    · exact hinv.below e (by rw [hcont0]; exact he)
    · obtain ⟨it, hit, rfl⟩ := mem_ents he
      exact hnode.1.below _ (List.mem_map.2 ⟨it, hit, rfl⟩)

/-! ## one `digest` + `reset_branch_base` -/

/-- the entries of the whole level as the run sees it: emitted, owned by the updater, still to the right -/
def Run.total (r : Run) : List (Entry Nat) := flatOut r.out ++ (content r.st ++ flat r.rest)

theorem newGood_of_nodeGood {kf : KF} {cut : Option Nat} {p : Produced} (h : NodeGood kf cut p) : NewGood kf p := by
  unfold NewGood; rw [h.cutoff]; exact h

theorem mem_out_new_append {p : Produced} {out : List OutNode} {ls : List Produced} {sk : List DbNode}
    (h : OutNode.new p ∈ out ++ ls.map .new ++ sk.map .old) : OutNode.new p ∈ out ∨ p ∈ ls := by
  rcases List.mem_append.1 h with h | h
  · rcases List.mem_append.1 h with h | h
    · exact Or.inl h
    · obtain ⟨q, hq, e⟩ := List.mem_map.1 h
      cases e; exact Or.inr hq
  · obtain ⟨q, _, e⟩ := List.mem_map.1 h
    cases e

/-- the produced nodes of a `digest` and untouched nodes from the front of the rest extend the chain -/
theorem chain_extend {kf : KF} {r : Run} {lo : Nat} (hrs : RS kf r lo) {st' : St} {ls : List Produced}
    {res : DigestResult} (o : DigestOut kf r.st st' ls res) (sk tail : List DbNode) (hsplit : r.rest = sk ++ tail) :
    (r.out ++ ls.map OutNode.new ++ sk.map OutNode.old).Pairwise Before := by
  have hlsub : ∀ e ∈ flatP ls, e ∈ content r.st := fun e he => by
    rw [← o.content_eq]; exact List.mem_append_left _ he
  have hsls : Sorted (flatP ls) := by
    have := hrs.inv.sorted
    rw [← o.content_eq] at this
    exact this.append_left
  -- the separators of the untouched nodes are at least the cutoff
  have hskc : ∀ n ∈ sk, ∀ e, e ∈ flatOut r.out ∨ e ∈ content r.st → e.key < n.sep := by
    intro n hn e he
    cases hr : r.rest with
    | nil =>
      rw [hr] at hsplit
      have : sk = [] := by
        cases sk with
        | nil => rfl
        | cons a b => simp at hsplit
      rw [this] at hn; cases hn
    | cons l0 rest0 =>
      have hcut := hrs.cut
      rw [hr] at hcut
      simp only [List.head?_cons, Option.map_some] at hcut
      have hnr : n ∈ l0 :: rest0 := by rw [← hr, hsplit]; exact List.mem_append_left _ hn
      have hdb := hrs.rest
      rw [hr] at hdb
      have hge : l0.sep ≤ n.sep := by
        rcases List.mem_cons.1 hnr with h | h
        · rw [h]; exact Nat.le_refl _
        · exact DbOK.sep_mono hdb n h
      rcases he with he | he
      · have := hrs.out_hi _ hcut e he; omega
      · have := hrs.hi _ hcut e he; omega
  rw [List.append_assoc, List.pairwise_append]
  refine ⟨hrs.chain, ?_, ?_⟩
  · rw [List.pairwise_append]
    refine ⟨pairwise_new hsls o.nodes, ?_, ?_⟩
    · have := DbOK.pairwise hrs.rest
      rw [hsplit] at this
      exact pairwise_old (List.pairwise_append.1 this).1
    · intro a ha b hb e he
      obtain ⟨p, hp, rfl⟩ := List.mem_map.1 ha
      obtain ⟨n, hn, rfl⟩ := List.mem_map.1 hb
      apply hskc n hn e
      right
      apply hlsub
      unfold flatP
      rw [List.mem_flatMap]
      exact ⟨p, hp, he⟩
  · intro a ha b hb e he
    have hea : e ∈ flatOut r.out := by
      unfold flatOut
      rw [List.mem_flatMap]
      exact ⟨a, ha, he⟩
    rcases List.mem_append.1 hb with hb | hb
    · obtain ⟨q, hq, rfl⟩ := List.mem_map.1 hb
      have g := o.nodes q hq
      obtain ⟨f, rr, hfr⟩ := List.exists_cons_of_ne_nil g.ne
      have hsep : f.key = q.sep := by
        have := g.sep; rw [hfr] at this; simpa using this
      have hmem : f.ent ∈ content r.st := by
        apply hlsub
        unfold flatP
        rw [List.mem_flatMap]
        exact ⟨q, hq, by rw [hfr]; simp⟩
      have := (List.pairwise_append.1 hrs.sortedT).2.2 e hea f.ent (List.mem_append_left _ hmem)
      show e.key < q.sep
      rw [← hsep]; exact this
    · obtain ⟨n, hn, rfl⟩ := List.mem_map.1 hb
      exact hskc n hn e (Or.inl hea)

theorem step_spec {kf : KF} (hkf : KFOK kf) (r : Run) (lo : Nat) (hrs : RS kf r lo) (c : Nat)
    (hc : r.st.cutoff = some c) (k : Nat) (hck : c ≤ k) :
    ∃ st' ls res, digest kf r.st = some (st', ls, res) ∧ DigestOut kf r.st st' ls res ∧
      RS kf (resetTo (keyOf res k) { r with st := st', out := r.out ++ ls.map .new }) (max lo k) ∧
      (resetTo (keyOf res k) { r with st := st', out := r.out ++ ls.map .new }).rest.length < r.rest.length ∧
      (resetTo (keyOf res k) { r with st := st', out := r.out ++ ls.map .new }).total = r.total := by
  obtain ⟨st', ls, res, ed, o⟩ := digest_spec hkf r.st hrs.inv
  refine ⟨st', ls, res, ed, o, ?_⟩
  have hcut := hrs.cut
  rw [hc] at hcut
  obtain ⟨l0, rest0, hrest, hl0⟩ : ∃ l0 rest0, r.rest = l0 :: rest0 ∧ l0.sep = c := by
    cases hr : r.rest with
    | nil => rw [hr] at hcut; simp at hcut
    | cons l0 rest0 => rw [hr] at hcut; simp at hcut; exact ⟨l0, rest0, rfl, hcut.symm⟩
  have hsub : ∀ e ∈ den st'.base st'.ops, e ∈ content r.st := fun e he => by
    rw [← o.content_eq]; exact List.mem_append_right _ he
  have hlsub : ∀ e ∈ flatP ls, e ∈ content r.st := fun e he => by
    rw [← o.content_eq]; exact List.mem_append_left _ he
  have hlt : ∀ e ∈ content r.st, e.key < c := hrs.hi c hc
  have hcont' : content st' = den st'.base st'.ops := by simp [content, o.rest_nil]
  have hinv' : TInv kf st' := by
    refine ⟨o.valid, o.tr, o.base_ok, ?_, ?_⟩
    · rw [hcont']
      have := hrs.inv.sorted
      rw [← o.content_eq] at this
      exact this.append_right
    · rw [hcont']
      intro e he
      exact hrs.inv.below e (hsub e he)
  have hkey : l0.sep ≤ keyOf res k ∧ keyOf res k ≤ k ∧ (den st'.base st'.ops ≠ [] → keyOf res k = l0.sep) ∧
      AllIns st'.ops := by
    cases res with
    | finished =>
      have h1 := o.fin rfl
      refine ⟨by simp [keyOf]; omega, by simp [keyOf], ?_, by rw [h1]; trivial⟩
      intro hne; rw [h1] at hne; simp at hne
    | needsMerge c' =>
      obtain ⟨h1, h2, _⟩ := o.merge c' rfl
      have : c' = c := by rw [hc] at h1; exact (Option.some.inj h1).symm
      subst this
      exact ⟨by simp [keyOf]; omega, by simp [keyOf]; omega, fun _ => by simp [keyOf]; omega, h2⟩
  obtain ⟨hk1, hk2, hk3, hk4⟩ := hkey
  obtain ⟨skipped, l, rest', f1, f2, f3, f4, f5, f6, f7, f8, f9⟩ :=
    resetTo_spec (kf := kf) ({ r with st := st', out := r.out ++ ls.map .new } : Run) (keyOf res k) l0 rest0 hrest
      hrs.rest hk1 hinv' o.rest_nil hk4 (fun e he => by have := hlt e (hsub e he); omega) hk3
  rw [f2]
  simp only [Run.reset]
  have hnodeIn := f6.head
  have hflat : flat r.rest = flat skipped ++ (ents l.node.items ++ flat rest') := by
    have : r.rest = skipped ++ l :: rest' := f1
    rw [this]; simp
  have hcase : den st'.base st'.ops = [] ∨ skipped = [] := by
    by_cases h : den st'.base st'.ops = []
    · exact Or.inl h
    · exact Or.inr (f4 h)
  have htotal : (flatOut (r.out ++ ls.map .new ++ skipped.map .old)) ++
      (content (resetBase st' (some { node := l.node }) (rest'.head?.map (·.sep))) ++ flat rest') = r.total := by
    unfold Run.total
    rw [f8, hflat, ← o.content_eq]
    simp only [flatOut_append, flatOut_new, flatOut_old]
    rcases hcase with h | h
    · rw [h]; simp
    · rw [h]; simp
  have hsk_lt : ∀ e ∈ flat skipped, e.key < k := fun e he => by have := f5 e he; omega
  have hl0l : l0.sep ≤ l.sep := by
    have hdb := hrs.rest
    rw [hrest] at hdb
    cases skipped with
    | nil =>
      have : l0 :: rest0 = l :: rest' := by rw [← hrest]; exact f1
      cases this; exact Nat.le_refl _
    | cons s sk =>
      have h2 : l0 :: rest0 = s :: (sk ++ l :: rest') := by rw [← hrest]; exact f1
      cases h2
      exact DbOK.sep_mono hdb l (by simp)
  refine ⟨⟨f7, f6.tail, rfl, ?_, ?_, ?_, ?_, ?_, ?_, ?_, ?_, ?_, ?_⟩, ?_, htotal⟩
  · show Sorted (flatOut (r.out ++ ls.map .new ++ skipped.map .old) ++ (content _ ++ flat rest'))
    rw [htotal]; exact hrs.sortedT
  · show ∀ e ∈ flatOut (r.out ++ ls.map .new ++ skipped.map .old) ++ (content _ ++ flat rest'), e.key < 2 ^ 256
    rw [htotal]; exact hrs.belowT
  · intro c' hc' e he
    simp only [resetBase] at hc'
    rw [f8] at he
    have hlc := hnodeIn.2.2 c' hc'
    rcases List.mem_append.1 he with he | he
    · have := hlt e (hsub e he)
      have := hnodeIn.2.1
      have hl0l : l0.sep ≤ l.sep := by
        have hdb := hrs.rest
        rw [hrest] at hdb
        cases skipped with
        | nil =>
          have : l0 :: rest0 = l :: rest' := by rw [← hrest]; exact f1
          cases this; exact Nat.le_refl _
        | cons s sk =>
          have h2 : l0 :: rest0 = s :: (sk ++ l :: rest') := by rw [← hrest]; exact f1
          cases h2
          exact DbOK.sep_mono hdb l (by simp)
      omega
    · obtain ⟨it, hit, rfl⟩ := mem_ents he
      exact hlc.2 it hit
  · intro e he
    simp only [flatOut_append, flatOut_new, flatOut_old] at he
    rcases List.mem_append.1 he with he | he
    · rcases List.mem_append.1 he with he | he
      · have := hrs.out_lo e he; omega
      · have := hlt e (hlsub e he); omega
    · have := hsk_lt e he; omega
  · intro e he
    show e.key < max lo k
    simp only [resetBase] at he
    rw [f9] at he
    have := hlt e (hsub e he); omega
  · intro b hb it hit
    simp only [resetBase, Option.some.injEq] at hb
    subst hb
    simp at hit
  · intro p hp
    rcases mem_out_new_append hp with h | h
    · exact hrs.news p h
    · exact newGood_of_nodeGood (o.nodes p h)
  · -- everything emitted is below the new cutoff
    intro c' hc' e he
    simp only [resetBase] at hc'
    have hlc := (hnodeIn.2.2 c' hc').1
    simp only [flatOut_append, flatOut_new, flatOut_old] at he
    rcases List.mem_append.1 he with he | he
    · rcases List.mem_append.1 he with he | he
      · have := hrs.out_hi c hc e he; omega
      · have := hlt e (hlsub e he); omega
    · have := f5 e he; omega
  · exact chain_extend hrs o skipped (l :: rest') f1
  · intro n hn
    rcases mem_out_old_append hn with h | h
    · exact hrs.olds n h
    · exact DbOK.oldOK hrs.rest n (by rw [f1]; exact List.mem_append_left _ h)
  · show rest'.length < r.rest.length
    rw [f1]; simp; omega

/-! ## the loops -/

theorem scopeLoop_spec {kf : KF} (hkf : KFOK kf) (k : Nat) : ∀ fuel (r : Run) (lo : Nat), RS kf r lo → lo ≤ k →
    r.rest.length < fuel →
    ∃ r', scopeLoop kf k fuel r = some r' ∧ RS kf r' k ∧ inScope r'.st k = true ∧ r'.total = r.total := by
  intro fuel
  induction fuel with
  | zero => intro r lo _ _ h; omega
  | succ fuel ih =>
    intro r lo hrs hlo hfuel
    simp only [scopeLoop]
    by_cases hin : inScope r.st k = true
    · simp only [hin, if_true]
      exact ⟨r, rfl, hrs.mono hlo, hin, rfl⟩
    · simp only [hin, Bool.false_eq_true, if_false]
      obtain ⟨c, hc, hck⟩ : ∃ c, r.st.cutoff = some c ∧ c ≤ k := by
        unfold inScope at hin
        cases hx : r.st.cutoff with
        | none => rw [hx] at hin; simp at hin
        | some c => rw [hx] at hin; simp at hin; exact ⟨c, rfl, hin⟩
      obtain ⟨st', ls, res, ed, _, h1, h2, h3⟩ := step_spec hkf r lo hrs c hc k hck
      simp only [ed]
      rw [Nat.max_eq_right hlo] at h1
      obtain ⟨r', e1, e2, e3, e4⟩ := ih _ k h1 (Nat.le_refl _) (by omega)
      exact ⟨r', e1, e2, e3, by rw [e4, h3]⟩

theorem applyAll_cons (T : List (Entry Nat)) (k : Nat) (ch : Option (Nat × Bool)) (cs : List (Nat × Option (Nat × Bool))) :
    applyAll T ((k, ch) :: cs) = applyAll (write1 T k ch) cs := rfl

theorem runChanges_spec {kf : KF} (hkf : KFOK kf) : ∀ (cs : List (Nat × Option Nat)) (r : Run) (lo : Nat),
    RS kf r lo → ChOK lo cs →
    ∃ r' lo', runChanges kf cs r = some r' ∧ RS kf r' lo' ∧ r'.total = applyAll r.total (chs cs) := by
  intro cs
  induction cs with
  | nil => intro r lo hrs _; exact ⟨r, lo, rfl, hrs, rfl⟩
  | cons c cs ih =>
    intro r lo hrs hch
    obtain ⟨k, pn⟩ := c
    obtain ⟨hlo, hk, hch'⟩ := hch
    obtain ⟨r1, e1, e2, e3, e4⟩ := scopeLoop_spec hkf k (r.rest.length + 1) r lo hrs hlo (by omega)
    simp only [runChanges, e1]
    obtain ⟨st2, i1, i2, i3, i4, i5, i6, i7⟩ := ingest_spec hkf r1.st k pn e2.inv (fun e he => e2.den_lo e he)
      (fun b hb it hit => e2.passed b hb it hit) hk
    simp only [i1]
    -- keys of the nodes to the right are above `k`
    have hrest_gt : ∀ e ∈ flat r1.rest, k < e.key := by
      intro e he
      cases hr : r1.rest with
      | nil => rw [hr] at he; simp at he
      | cons l0 rest0 =>
        have hcut := e2.cut
        rw [hr] at hcut
        simp only [List.head?_cons, Option.map_some] at hcut
        have hin := e3
        unfold inScope at hin
        rw [hcut] at hin
        simp only [decide_eq_true_eq] at hin
        have hdb := e2.rest
        rw [hr] at hdb he
        have := DbOK.lower hdb e he
        omega
    have htot : ({ r1 with st := st2 } : Run).total = write1 r1.total k (chOf pn) := by
      unfold Run.total
      simp only
      rw [write1_append_below (fun e he => e2.out_lo e he), write1_append_above hrest_gt, i2]
    have hrs2 : RS kf ({ r1 with st := st2 } : Run) (k + 1) := by
      refine ⟨i3, e2.rest, by rw [i5]; exact e2.cut, ?_, ?_, ?_, ?_, ?_, ?_, e2.news, by rw [i5]; exact e2.out_hi, e2.chain, e2.olds⟩
      · show Sorted ({ r1 with st := st2 } : Run).total
        rw [htot]; exact write1_sorted e2.sortedT k _
      · show ∀ e ∈ ({ r1 with st := st2 } : Run).total, e.key < 2 ^ 256
        rw [htot]
        intro e he
        rcases mem_write1 he with h | ⟨v, o, _, rfl⟩
        · exact e2.belowT e h
        · exact hk
      · intro c hc e he
        simp only at hc he
        rw [i5] at hc
        rw [i2] at he
        rcases mem_write1 he with h | ⟨v, o, _, rfl⟩
        · exact e2.hi c hc e h
        · have hin := e3
          unfold inScope at hin
          rw [hc] at hin
          simpa using hin
      · intro e he; have := e2.out_lo e he; omega
      · intro e he; have := i4 e he; omega
      · intro b hb it hit; have := i7 b hb it hit; omega
    obtain ⟨r', lo', f1, f2, f3⟩ := ih _ (k + 1) hrs2 hch'
    refine ⟨r', lo', f1, f2, ?_⟩
    rw [f3, htot, e4]
    rfl

theorem finishLoop_spec {kf : KF} (hkf : KFOK kf) : ∀ fuel (r : Run) (lo : Nat), RS kf r lo → r.rest.length < fuel →
    ∃ r', finishLoop kf fuel r = some r' ∧ flatOut r'.out ++ flat r'.rest = r.total ∧
      (∀ p, OutNode.new p ∈ r'.out → NewGood kf p) ∧ (r'.out ++ r'.rest.map OutNode.old).Pairwise Before ∧
      (∀ l, OutNode.old l ∈ r'.out ++ r'.rest.map OutNode.old → OldOK kf l) := by
  intro fuel
  induction fuel with
  | zero => intro r lo _ h; omega
  | succ fuel ih =>
    intro r lo hrs hfuel
    simp only [finishLoop]
    obtain ⟨st', ls, res, ed, o⟩ := digest_spec hkf r.st hrs.inv
    cases res with
    | finished =>
      simp only [ed]
      refine ⟨_, rfl, ?_, ?_, chain_extend hrs o r.rest [] (by simp), ?_⟩
      rotate_right 1
      · intro n hn
        rcases mem_out_old_append hn with h | h
        · exact hrs.olds n h
        · exact DbOK.oldOK hrs.rest n h
      · simp only [flatOut_append, flatOut_new]
        unfold Run.total
        rw [← o.content_eq, o.fin rfl]
        simp
      · intro p hp
        rcases List.mem_append.1 hp with h | h
        · exact hrs.news p h
        · obtain ⟨q, hq, e⟩ := List.mem_map.1 h
          have : q = p := by injection e
          subst this
          exact newGood_of_nodeGood (o.nodes q hq)
    | needsMerge c =>
      have hc := (o.merge c rfl).1
      obtain ⟨st2, ls2, res2, ed2, o2, h1, h2, h3⟩ := step_spec hkf r lo hrs c hc c (Nat.le_refl _)
      rw [ed] at ed2
      cases ed2
      simp only [ed]
      have hs1 : ¬ kf.seeded = 1 := by rw [hkf.seeded]; decide
      simp only [hs1, if_false]
      obtain ⟨r', e1, e2, e3, e4, e5⟩ := ih _ _ h1 (Nat.lt_of_lt_of_le h2 (by omega))
      simp only [keyOf] at e1 e2 h3
      exact ⟨r', e1, by rw [e2, h3], e3, e4, e5⟩

theorem tinv_init (kf : KF) : TInv kf {} :=
  ⟨rfl, ⟨wf_nil _ _, GOK.nil kf, trivial⟩, (by intro b hb; cases hb), List.Pairwise.nil, (by intro e he; simp [content, restOf] at he)⟩

/-- the whole stage -/
theorem runWorker_spec {kf : KF} (hkf : KFOK kf) (db : List DbNode) (cs : List (Nat × Option Nat)) (lo : Nat)
    (hdb : DbOK kf db) (hcs : ChOK lo cs) (hfirst : ∀ l, db.head? = some l → l.sep ≤ lo) :
    ∃ out rel, runWorker kf db cs = some (out, rel) ∧ flatOut out = applyAll (flat db) (chs cs) ∧
      (∀ p, OutNode.new p ∈ out → NewGood kf p) ∧ out.Pairwise Before ∧ (∀ l, OutNode.old l ∈ out → OldOK kf l) := by
  cases cs with
  | nil => exact ⟨db.map .old, [], rfl, by simp [flatOut_old, chs, applyAll], (by
      intro p hp; obtain ⟨q, _, e⟩ := List.mem_map.1 hp; cases e), pairwise_old (DbOK.pairwise hdb), (by
      intro l hl; obtain ⟨q, hq, e⟩ := List.mem_map.1 hl; cases e; exact DbOK.oldOK hdb l hq)⟩
  | cons c cs' =>
    obtain ⟨k, pn⟩ := c
    have hk : lo ≤ k := hcs.1
    -- the first `reset_branch_base`
    have hinit : ∃ r0, resetTo k ({ rest := db } : Run) = r0 ∧ RS kf r0 k ∧ r0.total = flat db := by
      cases db with
      | nil =>
        refine ⟨_, rfl, ⟨tinv_init kf, trivial, rfl, ?_, ?_, ?_, ?_, ?_, ?_, ?_, ?_, ?_, ?_⟩, ?_⟩ <;>
          simp [resetTo, skipTo, Run.total, content, restOf, Sorted]
      | cons l0 rest0 =>
        have hl0 : l0.sep ≤ k := by have := hfirst l0 rfl; omega
        obtain ⟨skipped, l, rest', f1, f2, f3, f4, f5, f6, f7, f8, f9⟩ :=
          resetTo_spec (kf := kf) ({ rest := l0 :: rest0 } : Run) k l0 rest0 rfl hdb hl0 (tinv_init kf) rfl trivial
            (by intro e he; simp at he) (by intro h; simp at h)
        refine ⟨_, rfl, ?_, ?_⟩
        · rw [f2]
          simp only [Run.reset]
          have hnodeIn := f6.head
          have htot : flatOut (([] : List OutNode) ++ skipped.map .old) ++
              (content (resetBase {} (some { node := l.node }) (rest'.head?.map (·.sep))) ++ flat rest') = flat (l0 :: rest0) := by
            have e1 : l0 :: rest0 = skipped ++ l :: rest' := f1
            rw [f8, e1]
            simp [flatOut_old]
          have hskl : ∀ e ∈ flat skipped, e.key < l.sep := f5
          refine ⟨f7, f6.tail, rfl, ?_, ?_, ?_, ?_, ?_, ?_, ?_, ?_, ?_, ?_⟩
          rotate_right 3
          · intro c' hc' e he
            simp only [resetBase] at hc'
            simp only [List.nil_append, flatOut_old] at he
            have := (hnodeIn.2.2 c' hc').1
            have := hskl e he
            omega
          · simp only [List.nil_append]
            have e1 : l0 :: rest0 = skipped ++ l :: rest' := f1
            have := DbOK.pairwise hdb
            rw [e1] at this
            exact pairwise_old (List.pairwise_append.1 this).1
          · intro n hn
            simp only [List.nil_append] at hn
            obtain ⟨q, hq, e⟩ := List.mem_map.1 hn
            cases e
            have e1 : l0 :: rest0 = skipped ++ l :: rest' := f1
            exact DbOK.oldOK hdb n (by rw [e1]; exact List.mem_append_left _ hq)
          · show Sorted (flatOut (([] : List OutNode) ++ skipped.map .old) ++ (content _ ++ flat rest'))
            rw [htot]; exact hdb.sorted
          · show ∀ e ∈ flatOut (([] : List OutNode) ++ skipped.map .old) ++ (content _ ++ flat rest'), e.key < 2 ^ 256
            rw [htot]; exact hdb.below
          · intro c' hc' e he
            simp only [resetBase] at hc'
            rw [f8] at he
            simp only [den_nil, List.nil_append] at he
            obtain ⟨it, hit, rfl⟩ := mem_ents he
            exact (hnodeIn.2.2 c' hc').2 it hit
          · intro e he
            simp only [List.nil_append, flatOut_old] at he
            have := f5 e he
            omega
          · intro e he; simp [resetBase] at he
          · intro b hb it hit
            simp only [resetBase, Option.some.injEq] at hb
            subst hb
            simp at hit
          · intro p hp
            simp only [List.nil_append] at hp
            obtain ⟨q, _, e⟩ := List.mem_map.1 hp
            cases e
        · rw [f2]
          simp only [Run.reset, Run.total]
          have e1 : l0 :: rest0 = skipped ++ l :: rest' := f1
          rw [f8, e1]
          simp [flatOut_old]
    obtain ⟨r0, hr0, hrs0, htot0⟩ := hinit
    obtain ⟨r1, lo1, g1, g2, g3⟩ := runChanges_spec hkf ((k, pn) :: cs') r0 k hrs0 ⟨Nat.le_refl _, hcs.2⟩
    obtain ⟨r2, h1, h2, h3, h4, h5⟩ := finishLoop_spec hkf (r1.rest.length + 1) r1 lo1 g2 (by omega)
    refine ⟨r2.out ++ r2.rest.map .old, r2.released, ?_, ?_, ?_, h4, h5⟩
    · simp only [runWorker, hr0, g1, h1]
    · rw [flatOut_append, flatOut_old, h2, g3, htot0]
    · intro p hp
      rcases List.mem_append.1 hp with h | h
      · exact h3 p h
      · obtain ⟨q, _, e⟩ := List.mem_map.1 h
        cases e

/-! ## the new level is a well-formed level again -/

/-- the node of the new level an `OutNode` stands for (`f`: the page number the allocator gives a produced node) -/
def toDb (f : Produced → Nat) : OutNode → DbNode
  | .old l => l
  | .new p => ⟨p.sep, f p, p.node⟩

theorem dbOK_of_chain {kf : KF} : ∀ (l : List DbNode), (∀ n ∈ l, OldOK kf n) →
    l.Pairwise (fun n n' => ∀ it ∈ n.node.items, it.key < n'.sep) → DbOK kf l
  | [], _, _ => trivial
  | [n], h, _ => ⟨(h n (by simp)).1, (h n (by simp)).2, by intro c hc; cases hc⟩
  | n :: n2 :: r, h, hp => by
    have hn := h n (by simp)
    have hp' := List.pairwise_cons.1 hp
    refine ⟨⟨hn.1, hn.2, ?_⟩, dbOK_of_chain (n2 :: r) (fun x hx => h x (by simp [hx])) hp'.2⟩
    intro c hc
    cases hc
    have hlt := hp'.1 n2 (by simp)
    refine ⟨?_, hlt⟩
    obtain ⟨f, rr, hfr⟩ := List.exists_cons_of_ne_nil hn.1.ne
    have h1 := hn.2 f (by rw [hfr]; simp)
    have h2 := hlt f (by rw [hfr]; simp)
    omega

/-- with the repair of F22 the level the stage produces satisfies `DbOK` again -/
theorem level_closed {kf : KF} (hkf : KFOK kf) (hc : kf.canon = true) (db : List DbNode) (cs : List (Nat × Option Nat))
    (lo : Nat) (hdb : DbOK kf db) (hcs : ChOK lo cs) (hfirst : ∀ l, db.head? = some l → l.sep ≤ lo)
    (f : Produced → Nat) :
    ∃ out rel, runWorker kf db cs = some (out, rel) ∧ DbOK kf (out.map (toDb f)) ∧
      flat (out.map (toDb f)) = applyAll (flat db) (chs cs) := by
  obtain ⟨out, rel, e, h1, h2, h3, h4⟩ := runWorker_spec hkf db cs lo hdb hcs hfirst
  refine ⟨out, rel, e, ?_, ?_⟩
  · apply dbOK_of_chain
    · intro n hn
      obtain ⟨o, ho, rfl⟩ := List.mem_map.1 hn
      cases o with
      | old l => exact h4 l ho
      | new p =>
        have g := h2 p ho
        refine ⟨g.nodeOK hc, ?_⟩
        intro it hit
        show p.sep ≤ it.key
        obtain ⟨f0, rr, hfr⟩ := List.exists_cons_of_ne_nil g.ne
        have hsep : f0.key = p.sep := by
          have := g.sep; rw [hfr] at this; simpa using this
        have hit' : it ∈ f0 :: rr := by rw [← hfr]; exact hit
        rcases List.mem_cons.1 hit' with h | h
        · rw [h]; omega
        · have hs := g.sorted
          simp only [Node.keys, hfr, List.map_cons] at hs
          have := (List.pairwise_cons.1 hs).1 it.key (List.mem_map.2 ⟨it, h, rfl⟩)
          omega
    · rw [List.pairwise_map]
      refine h3.imp ?_
      intro a b hab it hit
      have : (toDb f b).sep = b.sep := by cases b <;> rfl
      rw [this]
      have hit' : it.ent ∈ ents a.items := by
        cases a <;> exact List.mem_map.2 ⟨it, hit, rfl⟩
      exact hab it.ent hit'
  · rw [← h1]
    unfold flat flatOut
    rw [List.flatMap_map]
    congr 1
    funext o
    cases o <;> rfl

/-- a history of stages: each round's change list is ascending and starts at or behind the first separator of the level
it meets (the allocator's page numbers `f` are arbitrary) -/
inductive Rounds (kf : KF) (f : Produced → Nat) : List DbNode → List (List (Nat × Option Nat)) → List DbNode → Prop
  | nil (db : List DbNode) : Rounds kf f db [] db
  | cons (db : List DbNode) (cs : List (Nat × Option Nat)) (css : List (List (Nat × Option Nat))) (lo : Nat)
      (out : List OutNode) (rel : List Nat) (db' : List DbNode) :
      ChOK lo cs → (∀ l, db.head? = some l → l.sep ≤ lo) → runWorker kf db cs = some (out, rel) →
      Rounds kf f (out.map (toDb f)) css db' → Rounds kf f db (cs :: css) db'

end Nomt.BranchUpd
