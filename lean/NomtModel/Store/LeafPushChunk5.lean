import NomtModel.Store.LeafPushChunk4
/-!
# every page accepted by `decodeLeaf` is `encodeLeafL bes pad` with `leafOK bes pad`
-/
namespace Nomt.Store
open Nomt (Outcome)

theorem list_split_at (L : List UInt8) (a b : Nat) (hab : a ≤ b) :
    L = L.take a ++ (bslice L a b ++ L.drop b) := by
  have h1 : L.drop b = (L.drop a).drop (b - a) := by rw [List.drop_drop]; congr 1; omega
  rw [h1, bslice, List.take_append_drop, List.take_append_drop]

theorem extract_tba (L : List UInt8) (a b : Nat) (hab : a ≤ b) (hb : b ≤ L.length) :
    L.toByteArray.extract a b = (bslice L a b).toByteArray := by
  have hL := list_split_at L a b hab
  have hl1 : (L.take a).length = a := by simp; omega
  have hl2 : (bslice L a b).length = b - a := by simp [bslice]; omega
  have hsz : (L.take a).toByteArray.size = a := by rw [List.size_toByteArray]; exact hl1
  conv => lhs; rw [hL]
  simp only [List.toByteArray_append]
  have e1 : a = (L.take a).toByteArray.size + 0 := by omega
  have e2 : b = (L.take a).toByteArray.size + (b - a) := by omega
  conv => lhs; arg 3; rw [e2]
  conv => lhs; arg 2; rw [e1]
  rw [ByteArray.extract_append_size_add' (by rfl)]
  rw [ByteArray.extract_append_eq_left (by rw [List.size_toByteArray, hl2])]

/-- start of cell `i` as the decoder reads it -/
def sOf (p : ByteArray) (i : Nat) : Nat := u16le p (2 + 34 * i + 32) % 32768
/-- end of cell `i` as the decoder reads it -/
def eOf (p : ByteArray) (n i : Nat) : Nat := if i + 1 = n then PAGE else sOf p (i + 1)

theorem decodeLeafEntry_inv (p : ByteArray) (n i : Nat) (e : LeafEntry) (h : decodeLeafEntry p n i = .ok e) :
    ¬ (sOf p i < 2 + 34 * n) ∧ ¬ (eOf p n i < sOf p i) ∧ ¬ (PAGE < eOf p n i) ∧
    e = { key := p.extract (2 + 34 * i) (2 + 34 * i + 32), overflow := decide (32768 ≤ u16le p (2 + 34 * i + 32)),
          cell := p.extract (sOf p i) (eOf p n i) } ∧
    (if 32768 ≤ u16le p (2 + 34 * i + 32) then
       ¬ ((eOf p n i - sOf p i < 44 ∨ ¬ (eOf p n i - sOf p i) % 4 = 0) ∨
          40 + 4 * MAX_OVERFLOW_CELL_NODE_POINTERS < eOf p n i - sOf p i)
     else ¬ (MAX_LEAF_VALUE_SIZE < eOf p n i - sOf p i)) := by
  simp [decodeLeafEntry, bind, Except.bind, pure, Except.pure, throw, throwThe, MonadExceptOf.throw] at h
  have hE : (if i + 1 = n then PAGE else u16le p (2 + 34 * (i + 1) + 32) % 32768) = eOf p n i := rfl
  have hS : u16le p (2 + 34 * i + 32) % 32768 = sOf p i := rfl
  rw [hE] at h
  rw [hS] at h
  split at h
  · cases h
  next c1 =>
  split at h
  · cases h
  next c2 =>
  split at h
  · cases h
  next c3 =>
  split at h
  next c4 =>
    split at h
    · cases h
    next c5 =>
      injection h with h
      exact ⟨c1, c2, c3, h.symm, by rw [if_pos c4]; exact c5⟩
  next c4 =>
    split at h
    · cases h
    next c5 =>
      injection h with h
      exact ⟨c1, c2, c3, h.symm, by rw [if_neg c4]; exact c5⟩

theorem bslice_append (L : List UInt8) (a b c : Nat) (hab : a ≤ b) (hbc : b ≤ c) :
    bslice L a b ++ bslice L b c = bslice L a c := by
  unfold bslice
  have h1 : c - a = (b - a) + (c - b) := by omega
  have h2 : L.drop b = (L.drop a).drop (b - a) := by rw [List.drop_drop]; congr 1; omega
  rw [h1, List.take_add, h2]

theorem bslice_self (L : List UInt8) (a : Nat) : bslice L a a = [] := by simp [bslice]

theorem length_bslice (L : List UInt8) (a b : Nat) (hab : a ≤ b) (hb : b ≤ L.length) :
    (bslice L a b).length = b - a := by simp [bslice]; omega

theorem tba_data_toList (X : List UInt8) : X.toByteArray.data.toList = X := by
  simp [List.data_toByteArray]

theorem rd16_lt (L : List UInt8) (o : Nat) : rd16 L o < 65536 := by
  unfold rd16
  have h1 := (L.getD o 0).toNat_lt
  have h2 := (L.getD (o + 1) 0).toNat_lt
  omega

theorem le16_rd16 (L : List UInt8) (o : Nat) (ho : o + 2 ≤ L.length) : le16 (rd16 L o) = bslice L o (o + 2) := by
  have hL := list_split_at L o (o + 2) (by omega)
  have hlen : (bslice L o (o + 2)).length = 2 := by rw [length_bslice L o (o + 2) (by omega) ho]; omega
  have hA : (L.take o).length = o := by simp; omega
  generalize bslice L o (o + 2) = M at hL hlen ⊢
  match M, hlen with
  | [x, y], _ =>
    have h0 : rd16 L o = x.toNat + 256 * y.toNat := by
      have := rd16_append_right (L.take o) ([x, y] ++ L.drop (o + 2)) 0
      rw [← hL, hA, Nat.add_zero] at this
      rw [this]; simp [rd16]
    have hx := x.toNat_lt
    have hy := y.toNat_lt
    rw [h0]
    have e1 : (x.toNat + 256 * y.toNat) % 256 = x.toNat := by omega
    have e2 : (x.toNat + 256 * y.toNat) / 256 % 256 = y.toNat := by omega
    simp [le16, e1, e2]

/-- the decoder's start of cell `k`, `PAGE` after the last one -/
def sAt (p : ByteArray) (n k : Nat) : Nat := if k = n then PAGE else sOf p k

theorem eOf_eq_sAt (p : ByteArray) (n i : Nat) : eOf p n i = sAt p n (i + 1) := rfl

/-- the entries `es` are what the decoder reads at the positions `k, k+1, …` -/
def DecAt (p : ByteArray) (n k : Nat) (es : List LeafEntry) : Prop :=
  ∀ j (h : j < es.length), decodeLeafEntry p n (k + j) = .ok es[j]

theorem DecAt_cons {p : ByteArray} {n k : Nat} {e : LeafEntry} {r : List LeafEntry} (h : DecAt p n k (e :: r)) :
    decodeLeafEntry p n k = .ok e ∧ DecAt p n (k + 1) r := by
  refine ⟨h 0 (by simp), ?_⟩
  intro j hj
  have := h (j + 1) (by simp; omega)
  simp only [List.getElem_cons_succ] at this
  rw [show k + 1 + j = k + (j + 1) by omega]
  exact this

theorem cells_chain (L : List UInt8) (hL : L.length = PAGE) (n : Nat) :
    ∀ (es : List LeafEntry) (k : Nat), DecAt L.toByteArray n k es → k + es.length = n →
    sAt L.toByteArray n k ≤ PAGE ∧ leafCellsL es = bslice L (sAt L.toByteArray n k) PAGE ∧
      leafTotal es = PAGE - sAt L.toByteArray n k := by
  intro es
  induction es with
  | nil =>
    intro k _ hk
    have : sAt L.toByteArray n k = PAGE := by simp at hk; simp [sAt, hk]
    rw [this]; simp [leafCellsL, leafTotal, bslice_self]
  | cons e r ih =>
    intro k hd hk
    obtain ⟨h0, hr⟩ := DecAt_cons hd
    simp only [List.length_cons] at hk
    obtain ⟨ih1, ih2, ih3⟩ := ih (k + 1) hr (by omega)
    obtain ⟨c1, c2, c3, he, _⟩ := decodeLeafEntry_inv _ n k e h0
    rw [eOf_eq_sAt] at c2 c3 he
    have hs : sAt L.toByteArray n k = sOf L.toByteArray k := by simp [sAt]; omega
    rw [hs]
    have hcell : e.cell = (bslice L (sOf L.toByteArray k) (sAt L.toByteArray n (k + 1))).toByteArray := by
      rw [he]; exact extract_tba L _ _ (by omega) (by omega)
    have hsz : e.cell.size = sAt L.toByteArray n (k + 1) - sOf L.toByteArray k := by
      rw [hcell, List.size_toByteArray, length_bslice L _ _ (by omega) (by omega)]
    refine ⟨by omega, ?_, ?_⟩
    · simp only [leafCellsL]
      rw [ih2]
      conv => lhs; arg 1; rw [hcell, tba_data_toList]
      exact bslice_append L _ _ _ (by omega) (by omega)
    · simp only [leafTotal]; omega

theorem entry_facts (L : List UInt8) (hL : L.length = PAGE) (n : Nat) (hn : 2 + 34 * n < PAGE) (k : Nat) (hk : k < n)
    (e : LeafEntry) (h : decodeLeafEntry L.toByteArray n k = .ok e) :
    sOf L.toByteArray k ≤ sAt L.toByteArray n (k + 1) ∧ sAt L.toByteArray n (k + 1) ≤ PAGE ∧
    2 + 34 * n ≤ sOf L.toByteArray k ∧
    e.cell.size = sAt L.toByteArray n (k + 1) - sOf L.toByteArray k ∧
    e.key.data.toList = bslice L (2 + 34 * k) (2 + 34 * k + 32) ∧
    le16 (sOf L.toByteArray k + (if e.overflow then 32768 else 0)) = bslice L (2 + 34 * k + 32) (2 + 34 * k + 34) ∧
    leafEntryOK e = true := by
  obtain ⟨c1, c2, c3, he, hsz⟩ := decodeLeafEntry_inv _ n k e h
  rw [eOf_eq_sAt] at c2 c3 he hsz
  have hP : PAGE = 4096 := rfl
  have hkey : e.key = (bslice L (2 + 34 * k) (2 + 34 * k + 32)).toByteArray := by
    rw [he]; exact extract_tba L _ _ (by omega) (by omega)
  have hcell : e.cell = (bslice L (sOf L.toByteArray k) (sAt L.toByteArray n (k + 1))).toByteArray := by
    rw [he]; exact extract_tba L _ _ (by omega) (by omega)
  have hov : e.overflow = decide (32768 ≤ u16le L.toByteArray (2 + 34 * k + 32)) := by rw [he]
  have hcs : e.cell.size = sAt L.toByteArray n (k + 1) - sOf L.toByteArray k := by
    rw [hcell, List.size_toByteArray, length_bslice L _ _ (by omega) (by omega)]
  have hks : e.key.size = 32 := by
    rw [hkey, List.size_toByteArray, length_bslice L _ _ (by omega) (by omega)]; omega
  have hraw : u16le L.toByteArray (2 + 34 * k + 32) = rd16 L (2 + 34 * k + 32) := (rd16_eq _ _).symm
  have hrlt := rd16_lt L (2 + 34 * k + 32)
  have hs : sOf L.toByteArray k = rd16 L (2 + 34 * k + 32) % 32768 := by unfold sOf; rw [hraw]
  refine ⟨by omega, by omega, by omega, hcs, by rw [hkey, tba_data_toList], ?_, ?_⟩
  · rw [← le16_rd16 L (2 + 34 * k + 32) (by omega)]
    congr 1
    rw [hov, hs, hraw]
    by_cases hc : 32768 ≤ rd16 L (2 + 34 * k + 32)
    · simp [hc]; omega
    · simp [hc]; omega
  · unfold leafEntryOK
    rw [hov, hcs]
    by_cases hc : 32768 ≤ u16le L.toByteArray (2 + 34 * k + 32)
    · rw [if_pos hc] at hsz
      simp [hc, hks]
      omega
    · rw [if_neg hc] at hsz
      simp [hc, hks]
      omega

theorem ptrs_chain (L : List UInt8) (hL : L.length = PAGE) (n : Nat) (hn : 2 + 34 * n < PAGE) :
    ∀ (es : List LeafEntry) (k : Nat), DecAt L.toByteArray n k es → k + es.length = n →
    leafPtrsL es (sAt L.toByteArray n k) = bslice L (2 + 34 * k) (2 + 34 * n) := by
  intro es
  induction es with
  | nil =>
    intro k _ hk
    have : k = n := by simpa using hk
    subst this
    simp [leafPtrsL, bslice_self]
  | cons e r ih =>
    intro k hd hk
    obtain ⟨h0, hr⟩ := DecAt_cons hd
    simp only [List.length_cons] at hk
    obtain ⟨f1, f2, f3, f4, f5, f6, _⟩ := entry_facts L hL n hn k (by omega) e h0
    have hs : sAt L.toByteArray n k = sOf L.toByteArray k := by simp [sAt]; omega
    have hnext : sOf L.toByteArray k + e.cell.size = sAt L.toByteArray n (k + 1) := by omega
    simp only [leafPtrsL]
    rw [hs, hnext, ih (k + 1) hr (by omega), f5, f6]
    rw [show 2 + 34 * (k + 1) = 2 + 34 * k + 34 by omega]
    rw [bslice_append L _ _ _ (by omega) (by omega), bslice_append L _ _ _ (by omega) (by omega)]

theorem mapM_ok_inv {α β : Type} (f : α → Except String β) : ∀ (l : List α) (r : List β), l.mapM f = .ok r →
    r.length = l.length ∧ ∀ j (hj : j < l.length) (hj' : j < r.length), f l[j] = .ok r[j] := by
  intro l
  induction l with
  | nil =>
    intro r h
    have := mapM_nil_ok f h
    subst this
    exact ⟨rfl, fun j hj => absurd hj (by simp)⟩
  | cons a l ih =>
    intro r h
    obtain ⟨b, bs, h1, h2, h3⟩ := mapM_cons_ok f h
    subst h3
    obtain ⟨i1, i2⟩ := ih bs h2
    refine ⟨by simp [i1], ?_⟩
    intro j hj hj'
    cases j with
    | zero => simpa using h1
    | succ j =>
      simp only [List.getElem_cons_succ]
      exact i2 j (by simpa using hj) (by simpa using hj')

theorem decodeLeaf_inv (p : ByteArray) (bes : List LeafEntry) (h : decodeLeaf p = .ok bes) :
    p.size = PAGE ∧ u16le p 0 ≠ 0 ∧ 2 + 34 * u16le p 0 < PAGE ∧
      (List.range (u16le p 0)).mapM (decodeLeafEntry p (u16le p 0)) = .ok bes := by
  simp [decodeLeaf, bind, Except.bind, throw, throwThe, MonadExceptOf.throw] at h
  split at h
  next c0 =>
    split at h
    · cases h
    next c1 =>
      split at h
      · cases h
      next c2 => exact ⟨c0, c1, by omega, h⟩
  · cases h

/-- **every page the leaf decoder accepts is an encoder output**: `decodeLeaf` is injective up to the padding,
and its accepted pages are exactly the `encodeLeafL bes pad` with `leafOK bes pad` (converse of `leaf_rt`) -/
theorem decodeLeaf_surj (L : List UInt8) (bes : List LeafEntry) (h : decodeLeaf L.toByteArray = .ok bes) :
    ∃ pad, L = encodeLeafL bes pad ∧ leafOK bes pad = true := by
  obtain ⟨h0, h1, h2, h3⟩ := decodeLeaf_inv _ bes h
  have hP : PAGE = 4096 := rfl
  have hL : L.length = PAGE := by rw [← List.size_toByteArray]; exact h0
  obtain ⟨m1, m2⟩ := mapM_ok_inv _ _ _ h3
  simp only [List.length_range] at m1 m2
  have hn : u16le L.toByteArray 0 = rd16 L 0 := (rd16_eq _ _).symm
  generalize hnn : u16le L.toByteArray 0 = n at *
  have hdec : DecAt L.toByteArray n 0 bes := by
    intro j hj
    have := m2 j (by omega) hj
    simpa using this
  obtain ⟨a1, a2, a3⟩ := cells_chain L hL n bes 0 hdec (by omega)
  have a4 := ptrs_chain L hL n h2 bes 0 hdec (by omega)
  -- the first cell starts after the cell pointers
  have hs0 : 2 + 34 * n ≤ sAt L.toByteArray n 0 := by
    cases bes with
    | nil => simp at m1; omega
    | cons e r =>
      obtain ⟨_, _, f3, _⟩ := entry_facts L hL n h2 0 (by omega) e (DecAt_cons hdec).1
      have : sAt L.toByteArray n 0 = sOf L.toByteArray 0 := by simp [sAt]; omega
      omega
  have hall : ∀ e ∈ bes, leafEntryOK e = true := by
    intro e he
    obtain ⟨j, hj, hje⟩ := List.getElem_of_mem he
    have hd := hdec j hj
    rw [hje, Nat.zero_add] at hd
    exact (entry_facts L hL n h2 j (by omega) e hd).2.2.2.2.2.2
  refine ⟨bslice L (2 + 34 * n) (sAt L.toByteArray n 0), ?_, ?_⟩
  · unfold encodeLeafL
    have hle : le16 n = bslice L 0 2 := by rw [hn]; exact le16_rd16 L 0 (by omega)
    rw [m1, hle, show PAGE - leafTotal bes = sAt L.toByteArray n 0 by omega, a4, a2]
    rw [bslice_append L _ _ _ hs0 a1, bslice_append L _ _ _ (by omega) (by omega),
      bslice_append L _ _ _ (by omega) (by omega)]
    simp [bslice, ← hL]
  · unfold leafOK
    simp only [Bool.and_eq_true, Bool.not_eq_true', List.all_eq_true, beq_iff_eq]
    refine ⟨⟨?_, hall⟩, ?_⟩
    · cases bes with
      | nil => simp at m1; omega
      | cons a r => rfl
    · rw [length_bslice L _ _ hs0 (by omega), m1, a3]; omega

end Nomt.Store
