import NomtModel.Store.BitOpsCallSites
/-!
# `BranchNodeBuilder::push_chunk` — layout facts, step 1 (cells) and the arithmetic of the slices

Helper layer of the whole-`push_chunk` round trip (`Store/PushChunkRt.lean`): bytes ↔ bits of a page, `setU16`,
the header / cell facts of a page under construction (`Lay`) and their stability under writes behind the cells,
`raw_separators_data` computed from them, the slice bounds every `bitwise_memcpy` call site of `push_chunk` needs
(derived from the capacity bound `body_size ≤ BRANCH_NODE_BODY_SIZE`), and the specification of the cell loop.
-/
namespace Nomt.BitOps

theorem getD_eq_of_bits {a b : List Nat} (ha : Bytes a) (hb : Bytes b) (i : Nat)
    (h : ∀ u, u < 8 → bitOf a (8 * i + u) = bitOf b (8 * i + u)) : a.getD i 0 = b.getD i 0 := by
  apply byte_ext (getD_lt_of_bytes ha i) (getD_lt_of_bytes hb i)
  intro u hu
  have := h (7 - u) (by omega)
  unfold bitOf at this
  have e1 : (8 * i + (7 - u)) / 8 = i := by omega
  have e2 : 7 - (8 * i + (7 - u)) % 8 = u := by omega
  rw [e1, e2] at this
  exact this

theorem bitOf_eq_of_getD {a b : List Nat} (p : Nat) (h : a.getD (p / 8) 0 = b.getD (p / 8) 0) : bitOf a p = bitOf b p := by
  unfold bitOf; rw [h]

theorem u16At_congr {a b : List Nat} (hl : a.length = b.length) (o : Nat) (h0 : a.getD o 0 = b.getD o 0)
    (h1 : a.getD (o + 1) 0 = b.getD (o + 1) 0) : u16At a o = u16At b o := by
  unfold u16At; rw [hl, h0, h1]

theorem setU16_spec (pg : List Nat) (o v : Nat) (h : o + 2 ≤ pg.length) (hv : v < 65536) (hB : Bytes pg) :
    ∃ pg', setU16 pg o v = some pg' ∧ pg'.length = pg.length ∧ Bytes pg' ∧ u16At pg' o = some v ∧
      ∀ i, (i < o ∨ o + 2 ≤ i) → pg'.getD i 0 = pg.getD i 0 := by
  have hl : (writeAt pg o [v % 256, v / 256 % 256]).length = pg.length := length_writeAt _ _ _ (by simpa using h)
  refine ⟨writeAt pg o [v % 256, v / 256 % 256], ?_, hl, ?_, ?_, ?_⟩
  · unfold setU16; rw [if_pos h]
  · apply bytes_writeAt hB
    intro b hb
    simp only [List.mem_cons, List.not_mem_nil, or_false] at hb
    rcases hb with rfl | rfl <;> omega
  · unfold u16At
    rw [hl, if_pos h, getD_writeAt _ _ _ _ (by omega), getD_writeAt _ _ _ _ (by omega)]
    rw [if_neg (by omega), if_pos (by simp), if_neg (by omega), if_pos (by simp)]
    have e1 : o - o = 0 := by omega
    have e2 : o + 1 - o = 1 := by omega
    rw [e1, e2]
    simp only [List.getD_cons_zero, List.getD_cons_succ]
    congr 1; omega
  · intro i hi
    rw [getD_writeAt _ _ _ _ (by omega)]
    rcases hi with hi | hi
    · rw [if_pos hi]
    · rw [if_neg (by omega), if_neg (by simp; omega)]

/-- the cell in front of cell `i` (`0` in front of the first) -/
def prevCell (c : Nat → Nat) (i : Nat) : Nat := if i = 0 then 0 else c (i - 1)

theorem prevCell_succ (c : Nat → Nat) (i : Nat) : prevCell c (i + 1) = c i := by simp [prevCell]

/-- header and the first `m` cells of a 4096-byte page -/
structure Lay (pg : List Nat) (n pc pl : Nat) (cell : Nat → Nat) (m : Nat) : Prop where
  bytes : Bytes pg
  len : pg.length = 4096
  hn : nodeN pg = some n
  hpc : nodePc pg = some pc
  hpl : nodePl pg = some pl
  hcell : ∀ i, i < m → nodeCell pg i = some (cell i)

/-- header and cells survive every write that leaves the bytes in front of `10 + 2 m'` alone -/
theorem Lay.of_agree {pg pg' : List Nat} {n pc pl : Nat} {cell : Nat → Nat} {m : Nat} (L : Lay pg n pc pl cell m)
    (hl : pg'.length = pg.length) (hB : Bytes pg') (hm : ∀ i, i < 10 + 2 * m → pg'.getD i 0 = pg.getD i 0) :
    Lay pg' n pc pl cell m := by
  refine ⟨hB, by rw [hl, L.len], ?_, ?_, ?_, ?_⟩
  · rw [← L.hn]; unfold nodeN; exact u16At_congr hl 4 (hm 4 (by omega)) (hm 5 (by omega))
  · rw [← L.hpc]; unfold nodePc; exact u16At_congr hl 6 (hm 6 (by omega)) (hm 7 (by omega))
  · rw [← L.hpl]; unfold nodePl; exact u16At_congr hl 8 (hm 8 (by omega)) (hm 9 (by omega))
  · intro i hi
    rw [← L.hcell i hi]; unfold nodeCell
    simp only [BRANCH_HEADER]
    exact u16At_congr hl _ (hm _ (by omega)) (hm _ (by omega))

/-- the same from a bit-level frame (what the `bitwise_memcpy` call-site lemmas give) -/
theorem Lay.of_agree_bits {pg pg' : List Nat} {n pc pl : Nat} {cell : Nat → Nat} {m : Nat} (L : Lay pg n pc pl cell m)
    (hl : pg'.length = pg.length) (hB : Bytes pg') (hm : ∀ p, p < 8 * (10 + 2 * m) → bitOf pg' p = bitOf pg p) :
    Lay pg' n pc pl cell m :=
  L.of_agree hl hB fun i hi => getD_eq_of_bits hB L.bytes i fun u hu => hm _ (by omega)

theorem Lay.mono {pg : List Nat} {n pc pl : Nat} {cell : Nat → Nat} {m m' : Nat} (L : Lay pg n pc pl cell m) (h : m' ≤ m) :
    Lay pg n pc pl cell m' :=
  ⟨L.bytes, L.len, L.hn, L.hpc, L.hpl, fun i hi => L.hcell i (by omega)⟩

theorem Lay.congr_cell {pg : List Nat} {n pc pl : Nat} {cell cell' : Nat → Nat} {m : Nat} (L : Lay pg n pc pl cell m)
    (h : ∀ i, i < m → cell' i = cell i) : Lay pg n pc pl cell' m :=
  ⟨L.bytes, L.len, L.hn, L.hpc, L.hpl, fun i hi => by rw [h i hi]; exact L.hcell i hi⟩

/-- `round_up_8(⌈(bit_start + bit_len) / 8⌉)`, `0` for an empty range — the byte length `raw_separators_data` hands out -/
def rawLen (bitStart bitLen : Nat) : Nat := if bitLen = 0 then 0 else ((bitStart + bitLen + 7) / 8 + 7) / 8 * 8

/-- `raw_separators_data(a, b)` from the layout facts -/
theorem Lay.rsd {pg : List Nat} {n pc pl : Nat} {cell : Nat → Nat} {m : Nat} (L : Lay pg n pc pl cell m)
    (a b : Nat) (hab : a < b) (hb : b ≤ m) (hmono : prevCell cell a ≤ cell (b - 1)) :
    rawSeparatorsData pg a b =
      some (10 + n * 2 + (pl + prevCell cell a) / 8, rawLen ((pl + prevCell cell a) % 8) (cell (b - 1) - prevCell cell a),
            (pl + prevCell cell a) % 8, cell (b - 1) - prevCell cell a) := by
  have hs : (if a ≠ 0 then nodeCell pg (a - 1) else some 0) = some (prevCell cell a) := by
    unfold prevCell
    by_cases h0 : a = 0
    · simp [h0]
    · rw [if_pos h0, if_neg h0]; exact L.hcell _ (by omega)
  unfold rawSeparatorsData
  simp only [L.hpl, L.hn, Option.bind_some, hs, L.hcell (b - 1) (by omega), BRANCH_HEADER]
  rw [if_neg (by omega), if_neg (by omega)]
  have : pl + cell (b - 1) - (pl + prevCell cell a) = cell (b - 1) - prevCell cell a := by omega
  simp only [this, rawLen]

/-! ## slice bounds from the capacity bound -/

/-- a slice that `raw_separators_data` describes ends inside the page: the over-read of at most 7 bytes (the
multiple-of-8 rounding) falls into the node pointers, or — in a node with a single item — far from the end -/
theorem slot_fit (n pl a L last : Nat) (fit : 10 + 2 * n + (pl + last + 7) / 8 + 4 * n ≤ 4096) (hal : a + L ≤ last)
    (hlast : last ≤ 256 * n) (hpl : pl ≤ 256) (hn : 1 ≤ n) :
    10 + n * 2 + (pl + a) / 8 + rawLen ((pl + a) % 8) L ≤ 4096 := by
  unfold rawLen
  split
  · omega
  · by_cases h1 : n = 1
    · subst h1; omega
    · omega

/-- the same when the slice starts up to 256 bits later and still has the length computed for the earlier start
(the destination of the second copy of the prefix-extension path, the source of the prefix-growth path) -/
theorem slot_fit_shift (n pl a L last d : Nat) (fit : 10 + 2 * n + (pl + last + 7) / 8 + 4 * n ≤ 4096) (hal : a + L ≤ last)
    (hlast : last ≤ 256 * n) (hpl : pl ≤ 256) (hn : 1 ≤ n) (hd : d ≤ 256) (hdL : d ≤ L) :
    10 + n * 2 + (pl + a) / 8 + ((pl + a) % 8 + d) / 8 + rawLen ((pl + a) % 8) L ≤ 4096 := by
  unfold rawLen
  split
  · omega
  · by_cases h1 : n ≤ 9
    · omega
    · omega

/-! ## step 1 of `push_chunk`: the cells -/

/-- `separator_len += diff` / `saturating_sub(diff)` -/
def adjLen (isExt diff l : Nat) : Nat := if isExt = 1 then l + diff else l - diff

/-- the sum of the adjusted lengths of the first `k` separators of the chunk -/
def cellSum (c : Nat → Nat) (frm isExt diff : Nat) : Nat → Nat
  | 0 => 0
  | k + 1 => cellSum c frm isExt diff k + adjLen isExt diff (c (frm + k) - prevCell c (frm + k))

theorem cellSum_mono (c : Nat → Nat) (frm isExt diff : Nat) : ∀ (j k : Nat), j ≤ k → cellSum c frm isExt diff j ≤ cellSum c frm isExt diff k := by
  intro j k h
  induction k with
  | zero => have : j = 0 := by omega
            subst this; exact Nat.le_refl _
  | succ k ih =>
    by_cases hj : j = k + 1
    · subst hj; exact Nat.le_refl _
    · have := ih (by omega)
      simp only [cellSum]; omega

theorem copyCells_spec (base : List Nat) (c : Nat → Nat) (frm isExt diff idx off : Nat) :
    ∀ (nItems k : Nat) (pg : List Nat),
      (∀ j, k ≤ j → j < k + nItems → nodeCell base (frm + j) = some (c (frm + j))) →
      (∀ j, k ≤ j → j < k + nItems → prevCell c (frm + j) ≤ c (frm + j)) →
      10 + 2 * (idx + k + nItems) ≤ pg.length →
      off + cellSum c frm isExt diff (k + nItems) < 65536 →
      Bytes pg →
      ∃ pg', copyCells base frm isExt diff k nItems idx pg (prevCell c (frm + k)) (off + cellSum c frm isExt diff k) =
          some (pg', off + cellSum c frm isExt diff (k + nItems)) ∧
        pg'.length = pg.length ∧ Bytes pg' ∧
        (∀ j, k ≤ j → j < k + nItems → nodeCell pg' (idx + j) = some (off + cellSum c frm isExt diff (j + 1))) ∧
        (∀ i, (i < 10 + 2 * (idx + k) ∨ 10 + 2 * (idx + k + nItems) ≤ i) → pg'.getD i 0 = pg.getD i 0) := by
  intro nItems
  induction nItems with
  | zero =>
    intro k pg _ _ _ _ hB
    exact ⟨pg, by simp [copyCells], rfl, hB, fun j h1 h2 => by omega, fun _ _ => rfl⟩
  | succ nItems ih =>
    intro k pg hc hmono hlen h16 hB
    have hck := hc k (Nat.le_refl _) (by omega)
    have hmk := hmono k (Nat.le_refl _) (by omega)
    have hcs : cellSum c frm isExt diff (k + 1) ≤ cellSum c frm isExt diff (k + (nItems + 1)) :=
      cellSum_mono c frm isExt diff _ _ (by omega)
    have hcp : off + cellSum c frm isExt diff k + adjLen isExt diff (c (frm + k) - prevCell c (frm + k)) =
        off + cellSum c frm isExt diff (k + 1) := by simp only [cellSum]; omega
    obtain ⟨pg1, s1, s2, s3, s4, s5⟩ := setU16_spec pg (BRANCH_HEADER + (idx + k) * 2) (off + cellSum c frm isExt diff (k + 1))
      (by simp only [BRANCH_HEADER]; omega) (by omega) hB
    obtain ⟨pg2, r1, r2, r3, r4, r5⟩ := ih (k + 1) pg1 (fun j h1 h2 => hc j (by omega) (by omega))
      (fun j h1 h2 => hmono j (by omega) (by omega)) (by rw [s2]; omega)
      (by have : k + 1 + nItems = k + (nItems + 1) := by omega
          rw [this]; exact h16) s3
    refine ⟨pg2, ?_, by rw [r2, s2], r3, ?_, ?_⟩
    · unfold copyCells
      rw [hck, Option.bind_some, if_neg (by omega)]
      simp only []
      have hadj : (if isExt = 1 then c (frm + k) - prevCell c (frm + k) + diff else c (frm + k) - prevCell c (frm + k) - diff) =
          adjLen isExt diff (c (frm + k) - prevCell c (frm + k)) := rfl
      rw [hadj, hcp, if_neg (by omega), s1, Option.bind_some]
      have e : k + 1 + nItems = k + (nItems + 1) := by omega
      rw [← e, ← prevCell_succ c (frm + k)]
      exact r1
    · intro j h1 h2
      by_cases hj : j = k
      · subst hj
        have := r5 (10 + 2 * (idx + j)) (by left; omega)
        have h2' := r5 (10 + 2 * (idx + j) + 1) (by left; omega)
        unfold nodeCell
        simp only [BRANCH_HEADER] at s4 ⊢
        have e : (idx + j) * 2 = 2 * (idx + j) := by omega
        rw [e] at s4
        rw [u16At_congr r2 _ this h2', s4]
      · exact r4 j (by omega) (by omega)
    · intro i hi
      rw [r5 i (by omega), s5 i (by simp only [BRANCH_HEADER]; omega)]

end Nomt.BitOps
