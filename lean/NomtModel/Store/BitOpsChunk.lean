import NomtModel.Store.BitOpsMasks
/-!
# `bitwise_memcpy`: the word a chunk iteration writes, bit by bit

Under the contract (`Ctx`) the 64-bit word the loop body stores for chunk `ci` — source chunk masked,
shifted, merged with the kept destination bits, plus the remainder carried over the chunk boundary — has,
at every bit, the value the specification `memcpyBit` prescribes.
-/
namespace Nomt.BitOps

/-- the contract of `bitwise_memcpy` for a non-empty copy, with `n` the number of source chunks -/
structure Ctx (dst : List Nat) (dbs : Nat) (src : List Nat) (sbs len n : Nat) : Prop where
  hdst : Bytes dst
  hsrc : Bytes src
  hs : sbs ≤ 7
  hd : dbs ≤ 7
  hlen : 0 < len
  hn : n = (sbs + len + 63) / 64
  hsl : src.length / 8 = n
  hD : (dbs + len + 7) / 8 ≤ dst.length

theorem testBit_getD (l : List Nat) (hl : Bytes l) (k u : Nat) :
    (l.getD k 0).testBit u = (decide (u < 8) && bitOf l (8 * k + (7 - u))) := by
  by_cases hu : u < 8
  · unfold bitOf
    have e1 : (8 * k + (7 - u)) / 8 = k := by omega
    have e2 : 7 - (8 * k + (7 - u)) % 8 = u := by omega
    simp only [hu, decide_true, Bool.true_and, e1, e2]
  · simp only [hu, decide_false, Bool.false_and]
    have h8 : (256 : Nat) = 2 ^ 8 := by decide
    apply Nat.testBit_lt_two_pow
    exact Nat.lt_of_lt_of_le (h8 ▸ getD_lt_of_bytes hl k) (Nat.pow_le_pow_right (by decide) (by omega))

variable {dst : List Nat} {dbs : Nat} {src : List Nat} {sbs len n : Nat}

/-- no shift -/
theorem word_none (c : Ctx dst dbs src sbs len n) (he : dbs = sbs) (ci : Nat) (hci : ci < n) (i : Nat) (hi : i < 64) :
    ((word src (ci * 8) &&& effMask sbs len n ci) ||| (word dst (ci * 8) &&& (M64 ^^^ effMask dbs len n ci))).testBit i
      = memcpyBit dst dbs src sbs len (64 * ci + (63 - i)) := by
  obtain ⟨hdst, hsrc, hs, hd, hlen, hn, hsl, hD⟩ := c
  subst he
  rw [Nat.testBit_or, Nat.testBit_and, Nat.testBit_and, Nat.testBit_xor, testBit_M64, testBit_word _ hsrc,
    testBit_word _ hdst, testBit_effMask]
  unfold memcpyBit
  have e : 8 * (ci * 8) + (63 - i) = 64 * ci + (63 - i) := by omega
  rw [e]
  by_cases hC : dbs ≤ 64 * ci + (63 - i) ∧ 64 * ci + (63 - i) < dbs + len
  · have hA : i < 64 ∧ (ci ≠ 0 ∨ i < 64 - dbs) ∧ (ci ≠ n - 1 ∨ 64 - (dbs + len - (n - 1) * 64) ≤ i) := by omega
    have e2 : dbs + (64 * ci + (63 - i) - dbs) = 64 * ci + (63 - i) := by omega
    simp only [decide_eq_true hA, decide_eq_true hi, if_pos hC, e2]
    simp
  · have hA : ¬ (i < 64 ∧ (ci ≠ 0 ∨ i < 64 - dbs) ∧ (ci ≠ n - 1 ∨ 64 - (dbs + len - (n - 1) * 64) ≤ i)) := by omega
    simp only [decide_eq_false hA, decide_eq_true hi, if_neg hC]
    simp

/-- left shift, last chunk: nothing is carried in -/
theorem word_left_last (c : Ctx dst dbs src sbs len n) (a : Nat) (ha : 0 < a) (he : sbs = dbs + a)
    (ci : Nat) (hci : ci = n - 1) (i : Nat) (hi : i < 64) :
    ((((word src (ci * 8) &&& effMask sbs len n ci) <<< a) % 2 ^ 64) |||
        (word dst (ci * 8) &&& (M64 ^^^ effMask dbs len n ci))).testBit i
      = memcpyBit dst dbs src sbs len (64 * ci + (63 - i)) := by
  obtain ⟨hdst, hsrc, hs, hd, hlen, hn, hsl, hD⟩ := c
  simp only [Nat.testBit_or, Nat.testBit_and, Nat.testBit_xor, testBit_M64, Nat.testBit_mod_two_pow,
    Nat.testBit_shiftLeft, testBit_word _ hsrc, testBit_word _ hdst, testBit_effMask]
  unfold memcpyBit
  grind

/-- left shift, not the last chunk, more destination bytes follow: the top bits of the next source byte
fill the end of the word -/
theorem word_left_mid (c : Ctx dst dbs src sbs len n) (a : Nat) (ha : 0 < a) (he : sbs = dbs + a)
    (ci : Nat) (hci : ci < n - 1) (hr : ¬ ci * 8 + 8 = (dbs + len + 7) / 8) (i : Nat) (hi : i < 64) :
    ((((word src (ci * 8) &&& effMask sbs len n ci) <<< a) % 2 ^ 64) |||
        (word dst (ci * 8) &&& (M64 ^^^ effMask dbs len n ci)) |||
        (((src.getD ((ci + 1) * 8) 0 &&& 255) >>> (8 - a)) ||| 0)).testBit i
      = memcpyBit dst dbs src sbs len (64 * ci + (63 - i)) := by
  obtain ⟨hdst, hsrc, hs, hd, hlen, hn, hsl, hD⟩ := c
  have h255 : (255 : Nat) = 2 ^ 8 - 1 := by decide
  simp only [h255, Nat.testBit_or, Nat.testBit_and, Nat.testBit_xor, testBit_M64, Nat.testBit_mod_two_pow,
    Nat.testBit_shiftLeft, Nat.testBit_shiftRight, testBit_word _ hsrc, testBit_word _ hdst, testBit_effMask,
    testBit_getD _ hsrc, Nat.testBit_two_pow_sub_one, Nat.zero_testBit]
  unfold memcpyBit
  grind

/-- left shift, the second-to-last source chunk ends the destination ("rare case" of the Rust comment): only
the valid bits of the last source chunk's first byte are carried in, and the bits of the last destination
byte after the copied range are kept -/
theorem word_left_rare (c : Ctx dst dbs src sbs len n) (a : Nat) (ha : 0 < a) (he : sbs = dbs + a)
    (ci : Nat) (hci : ci < n - 1) (hr : ci * 8 + 8 = (dbs + len + 7) / 8) (i : Nat) (hi : i < 64) :
    ((((word src (ci * 8) &&& effMask sbs len n ci) <<< a) % 2 ^ 64) |||
        (word dst (ci * 8) &&& (M64 ^^^ effMask dbs len n ci)) |||
        (((src.getD ((ci + 1) * 8) 0 &&& (lcmVal (sbs + len - (n - 1) * 64) >>> 56)) >>> (8 - a)) |||
          (dst.getD (ci * 8 + 7) 0 &&& (2 ^ ((dbs + len + 7) / 8 * 8 - (dbs + len)) - 1)))).testBit i
      = memcpyBit dst dbs src sbs len (64 * ci + (63 - i)) := by
  obtain ⟨hdst, hsrc, hs, hd, hlen, hn, hsl, hD⟩ := c
  simp only [Nat.testBit_or, Nat.testBit_and, Nat.testBit_xor, testBit_M64, Nat.testBit_mod_two_pow,
    Nat.testBit_shiftLeft, Nat.testBit_shiftRight, testBit_word _ hsrc, testBit_word _ hdst, testBit_effMask,
    testBit_getD _ hsrc, testBit_getD _ hdst, testBit_lcmVal, Nat.testBit_two_pow_sub_one]
  unfold memcpyBit
  grind

/-- `curr_remainder` of chunk `cj` for a right shift by `a` -/
def remAt (src : List Nat) (sbs len n a cj : Nat) : Nat :=
  ((src.getD (cj * 8 + 7) 0 &&&
    (if cj = n - 1 then (2 ^ a - 1) &&& (lcmVal (sbs + len - (n - 1) * 64) % 256) else 2 ^ a - 1)) <<< (8 - a)) % 256

theorem remAt_lt (src : List Nat) (sbs len n a cj : Nat) : remAt src sbs len n a cj < 256 := Nat.mod_lt _ (by decide)

/-- right shift: with the remainder of the previous source byte in the first destination byte -/
theorem word_right (c : Ctx dst dbs src sbs len n) (a : Nat) (ha : 0 < a) (he : dbs = sbs + a)
    (ci : Nat) (hci : ci < n) (i : Nat) (hi : i < 64) :
    (((word src (ci * 8) &&& effMask sbs len n ci) >>> a) |||
        (word dst (ci * 8) &&& (M64 ^^^ effMask dbs len n ci)) |||
        ((if ci = 0 then 0 else remAt src sbs len n a (ci - 1)) <<< 56)).testBit i
      = memcpyBit dst dbs src sbs len (64 * ci + (63 - i)) := by
  obtain ⟨hdst, hsrc, hs, hd, hlen, hn, hsl, hD⟩ := c
  have h256 : (256 : Nat) = 2 ^ 8 := by decide
  by_cases h0 : ci = 0
  · simp only [if_pos h0, h256, Nat.testBit_or, Nat.testBit_and, Nat.testBit_xor, testBit_M64, Nat.testBit_mod_two_pow,
      Nat.testBit_shiftLeft, Nat.testBit_shiftRight, testBit_word _ hsrc, testBit_word _ hdst, testBit_effMask,
      testBit_getD _ hsrc, Nat.testBit_two_pow_sub_one, Nat.zero_testBit]
    unfold memcpyBit
    grind
  · have h1 : ¬ (ci - 1 = n - 1) := by omega
    simp only [remAt, if_neg h0, if_neg h1, h256, Nat.testBit_or, Nat.testBit_and, Nat.testBit_xor, testBit_M64,
      Nat.testBit_mod_two_pow, Nat.testBit_shiftLeft, Nat.testBit_shiftRight, testBit_word _ hsrc, testBit_word _ hdst,
      testBit_effMask, testBit_getD _ hsrc, Nat.testBit_two_pow_sub_one, Nat.zero_testBit]
    unfold memcpyBit
    grind

/-- right shift: the one more byte after the last chunk -/
theorem byte_right_final (c : Ctx dst dbs src sbs len n) (a : Nat) (ha : 0 < a) (he : dbs = sbs + a)
    (hmore : n * 8 < (dbs + len + 7) / 8) (u : Nat) (hu : u < 8) :
    ((dst.getD (n * 8) 0 &&& (2 ^ (8 - (a - (n * 64 - (sbs + len)))) - 1)) |||
      (remAt src sbs len n a (n - 1) &&& (255 ^^^ (2 ^ (8 - (a - (n * 64 - (sbs + len)))) - 1)))).testBit u
      = memcpyBit dst dbs src sbs len (64 * n + (7 - u)) := by
  obtain ⟨hdst, hsrc, hs, hd, hlen, hn, hsl, hD⟩ := c
  have h256 : (256 : Nat) = 2 ^ 8 := by decide
  have h255 : (255 : Nat) = 2 ^ 8 - 1 := by decide
  simp only [remAt, if_true, h256, h255, Nat.testBit_or, Nat.testBit_and, Nat.testBit_xor, Nat.testBit_mod_two_pow,
      Nat.testBit_shiftLeft, testBit_getD _ hsrc, testBit_getD _ hdst, Nat.testBit_two_pow_sub_one, testBit_lcmVal]
  unfold memcpyBit
  grind

end Nomt.BitOps
