import NomtModel.Store.ImgBytes
/-!
XXH3-64 with a seed, for inputs of exactly 32 bytes (the `17..=128` branch of the algorithm with a
single `mix16` pair), as used by bitbox to place page ids (`bitbox::hash_raw_page_id`,
`twox_hash::xxhash3_64::Hasher::oneshot_with_seed`).  Constants from the XXH3 specification /
`twox-hash-2.1.0/src/xxhash3.rs` (`DEFAULT_SECRET_RAW`, `PRIME64_1`, `PRIME_MX1`).
-/
namespace Nomt.Store

def M64 : Nat := 2^64
def PRIME64_1 : Nat := 0x9E3779B185EBCA87
def PRIME_MX1 : Nat := 0x165667919E3779F9
/-- first 32 bytes of the default secret as four little-endian words -/
def SECRET0 : Nat := 0xbe4ba423396cfeb8
def SECRET1 : Nat := 0x1cad21f72c81017c
def SECRET2 : Nat := 0xdb979083e96dd4de
def SECRET3 : Nat := 0x1f67b3b7a4a44072

def mix16 (lo hi s0 s1 seed : Nat) : Nat :=
  let a := Nat.xor lo ((s0 + seed) % M64)
  let b := Nat.xor hi ((s1 + M64 - seed) % M64)
  let m := a * b
  Nat.xor (m % M64) (m / M64 % M64)

def avalanche (x : Nat) : Nat :=
  let x := Nat.xor x (x / 2^37)
  let x := x * PRIME_MX1 % M64
  Nat.xor x (x / 2^32)

/-- XXH3-64 of the 32 bytes at offset `o` of `b` with `seed` (`seed < 2^64`) -/
def xxh3_32 (b : ByteArray) (o : Nat) (seed : Nat) : Nat :=
  let acc := 32 * PRIME64_1 % M64
  let acc := (acc + mix16 (u64le b o) (u64le b (o + 8)) SECRET0 SECRET1 seed) % M64
  let acc := (acc + mix16 (u64le b (o + 16)) (u64le b (o + 24)) SECRET2 SECRET3 seed) % M64
  avalanche acc

end Nomt.Store
