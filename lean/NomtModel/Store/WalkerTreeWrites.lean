import NomtModel.Store.WalkerTreeRec
/-!
# The slots `replace_terminal` writes

The tree walker records (ghost field `wl`) every slot it writes with `set_node` / `set_sibling`.  While it builds the block
below a position `P` it writes `P` itself and EVERY meaningful slot strictly below `P` (`tw_replace_wl`): the node slots of
the sub-trie, and — by `zero_sibling` — the terminator slots next to one-sided branches.  The mirror names every slot it
writes in the page diff (`set_changed` unconditionally), which makes "the diff names every meaningful slot of a page created
below a replaced terminal" a statement that does not depend on what the pool page held.
-/
namespace Nomt.Walker
open Nomt Nomt.TriePos

variable {Node VH : Type} [DecidableEq Node] [DecidableEq VH] (H : Hasher Node VH)

theorem tw_up_wl (a : TW Node) : a.up.wl = a.wl := by unfold TW.up; split <;> rfl

theorem tw_downBit_wl (cfg : TWCfg Node) (fresh : Bool) (a : TW Node) (b : Bool) : (a.downBit cfg fresh b).wl = a.wl := by
  unfold TW.downBit; split <;> rfl

theorem tw_down_wl (cfg : TWCfg Node) : ∀ (bits : List Bool) (a : TW Node) (fresh : Bool),
    (a.down cfg bits fresh).wl = a.wl := by
  intro bits
  induction bits with
  | nil => intro a fresh; rfl
  | cons b bs ih => intro a fresh; simp only [TW.down]; rw [ih, tw_downBit_wl]

/-- the slots one visitor call writes: the sibling slot first when it is zeroed, the slot it ends at last -/
theorem tw_visit_wl (cfg : TWCfg Node) (sd : Nat) (a : TW Node) (c : WriteNode Node VH) :
    ∃ pre, (a.visit H cfg sd c).wl = pre ++ [(a.visit H cfg sd c).pos] ∧
      (pre = a.wl ∨ pre = a.wl ++ [sibPath a.pos]) ∧
      (∀ l r n, c = .internal l r n →
        (if a.pos.getLast?.getD false then decide (H.kind l = .terminator) else decide (H.kind r = .terminator)) = true →
        pre = a.wl ++ [sibPath a.pos]) := by
  have hfin : ∀ (x : TW Node) (d : List Bool) (nd : Node),
      ((x.descend cfg sd d).setNode nd).wl = x.wl ++ [((x.descend cfg sd d).setNode nd).pos] := by
    intro x d nd
    rw [tw_descend_eq]
    show (x.down cfg d true).wl ++ [(x.down cfg d true).pos] = _
    rw [tw_down_wl]; rfl
  unfold TW.visit
  cases c with
  | terminator =>
    simp only [WriteNode.up, WriteNode.down]
    exact ⟨a.wl, hfin a [] _, Or.inl rfl, fun l r n h => by cases h⟩
  | leaf up down k v n =>
    cases up with
    | false =>
      simp only [WriteNode.up, WriteNode.down]
      exact ⟨a.wl, hfin a down _, Or.inl rfl, fun l r n h => by cases h⟩
    | true =>
      cases down with
      | nil =>
        simp only [WriteNode.up, WriteNode.down]
        refine ⟨a.wl, ?_, Or.inl rfl, fun l r n h => by cases h⟩
        rw [hfin a.up [] _, tw_up_wl]
      | cons d0 rest =>
        simp only [WriteNode.up, WriteNode.down]
        split
        · refine ⟨a.wl, ?_, Or.inl rfl, fun l r n h => by cases h⟩
          exact hfin ({ a with pos := sibPath a.pos } : TW Node) rest _
        · refine ⟨a.wl, ?_, Or.inl rfl, fun l r n h => by cases h⟩
          rw [hfin a.up (d0 :: rest) _, tw_up_wl]
  | internal l r n =>
    simp only [WriteNode.up, WriteNode.down]
    by_cases hz : (if a.pos.getLast?.getD false then decide (H.kind l = .terminator) else decide (H.kind r = .terminator)) = true
    · rw [if_pos hz]
      refine ⟨a.wl ++ [sibPath a.pos], ?_, Or.inr rfl, fun _ _ _ _ _ => rfl⟩
      rw [hfin (a.setSibling H.term).up [] _, tw_up_wl]; rfl
    · rw [if_neg hz]
      refine ⟨a.wl, ?_, Or.inl rfl, ?_⟩
      · rw [hfin a.up [] _, tw_up_wl]
      · intro l' r' n' e hz'
        injection e with e1 e2 e3
        subst e1; subst e2
        exact absurd hz' hz

theorem tw_visit_wl_sub (cfg : TWCfg Node) (sd : Nat) (a : TW Node) (c : WriteNode Node VH) :
    ∀ q ∈ a.wl, q ∈ (a.visit H cfg sd c).wl := by
  intro q hq
  obtain ⟨pre, h1, h2, _⟩ := tw_visit_wl H cfg sd a c
  rw [h1]
  rcases h2 with e | e <;> rw [e] <;> simp [hq]

theorem tw_visit_wl_last (cfg : TWCfg Node) (sd : Nat) (a : TW Node) (c : WriteNode Node VH) :
    (a.visit H cfg sd c).pos ∈ (a.visit H cfg sd c).wl := by
  obtain ⟨pre, h1, _, _⟩ := tw_visit_wl H cfg sd a c
  rw [h1]; simp

theorem tw_visit_internal_pos (cfg : TWCfg Node) (sd : Nat) (a : TW Node) (l r n : Node) :
    (a.visit H cfg sd (.internal l r n : WriteNode Node VH)).pos = a.pos.dropLast := by
  unfold TW.visit
  simp only [WriteNode.up, WriteNode.down, tw_descend_eq, TW.down]
  show (TW.up _).pos = _
  rw [tw_up_pos]
  split <;> (split <;> rfl)

/-- the block below `P` is written: `P` and every meaningful slot strictly below it -/
def BlockWritten (O : List (Key × VH)) (P : Path) (wl : List Path) : Prop :=
  P ∈ wl ∧ ∀ q, P <+: q → q ≠ P → q.length ≤ 256 → Mean O q → q ∈ wl

theorem mean_child {O : List (Key × VH)} (P : Path) (b : Bool) (h2 : 2 ≤ (sub O P).length) : Mean O (P ++ [b]) := by
  right; simpa using h2

/-- **what the calls of a block write** -/
theorem tw_visit_tree_wl (hs : H.Sound) {O : List (Key × VH)} (hk : KeysOK O) (cfg : TWCfg Node) (t : Path) :
    ∀ (f : Nat) (P : Path) (prev : Option Key) (J : Path) (a : TW Node),
      256 - P.length = f → t <+: P → P.length ≤ 256 → sub O P ≠ [] → J <+: P →
      PreJ t.length t prev (sub O P) J a.pos →
      (∀ q ∈ a.wl, q ∈ (TW.visitAll H cfg t.length a
          (treeEv H t.length (256 - P.length) (P.length - t.length) (sub O P) prev)).wl) ∧
      BlockWritten O P (TW.visitAll H cfg t.length a
          (treeEv H t.length (256 - P.length) (P.length - t.length) (sub O P) prev)).wl := by
  apply tw_visit_tree_rec H hs hk cfg t (fun P a a' => (∀ q ∈ a.wl, q ∈ a'.wl) ∧ BlockWritten O P a'.wl)
  · -- a single key: the leaf slot
    intro P prev J a k v htP hP hB hJ hpre
    obtain ⟨r1, _⟩ := tw_leaf_step H (fun _ => True) hs hk cfg t P prev J a k v htP hP hB hJ hpre
    refine ⟨tw_visit_wl_sub H cfg _ a _, ?_, ?_⟩
    · have := tw_visit_wl_last H cfg t.length a (leafEv H t.length (P.length - t.length) prev k v)
      rw [r1] at this; exact this
    · intro q hq hne hl hm
      exact absurd hm (not_mean_below hk P q (by rw [hB]; simp) hq hne hl)
  · -- one half is empty: its root slot is zeroed by the closing call
    intro P b a a1 htP hPlt h2 he hR hpos
    obtain ⟨hsub, hroot, hbelow⟩ := hR
    obtain ⟨pre, hw, hpre, hzero⟩ := tw_visit_wl H cfg t.length a1
      (.internal (specNode H O (P ++ [false])) (specNode H O (P ++ [true]))
        (H.internal (specNode H O (P ++ [false])) (specNode H O (P ++ [true]))))
    have hposf : (a1.visit H cfg t.length (.internal (specNode H O (P ++ [false])) (specNode H O (P ++ [true]))
        (H.internal (specNode H O (P ++ [false])) (specNode H O (P ++ [true]))))).pos = P := by
      rw [tw_visit_internal_pos, hpos]; simp
    have hz : pre = a1.wl ++ [sibPath a1.pos] := by
      apply hzero _ _ _ rfl
      rw [hpos]
      simp only [List.getLast?_append, List.getLast?_singleton, Option.some_or, Option.getD_some]
      cases b with
      | true =>
        simp only [if_true, decide_eq_true_eq]
        have he' : sub O (P ++ [false]) = [] := he
        rw [specNode_nil_eq H O _ he']; exact hs.kind_term
      | false =>
        simp only [Bool.false_eq_true, if_false, decide_eq_true_eq]
        have he' : sub O (P ++ [true]) = [] := he
        rw [specNode_nil_eq H O _ he']; exact hs.kind_term
    have hall : ∀ q ∈ a1.wl, q ∈ (a1.visit H cfg t.length (.internal (specNode H O (P ++ [false]))
        (specNode H O (P ++ [true])) (H.internal (specNode H O (P ++ [false])) (specNode H O (P ++ [true]))))).wl :=
      tw_visit_wl_sub H cfg _ a1 _
    refine ⟨fun q hq => hall q (hsub q hq), ?_, ?_⟩
    · rw [hw, hposf]; simp
    · intro q hq hne hl hm
      have hvis : ∀ q, (P ++ [b]) <+: q → q.length ≤ 256 → Mean O q →
          q ∈ (a1.visit H cfg t.length (.internal (specNode H O (P ++ [false])) (specNode H O (P ++ [true]))
            (H.internal (specNode H O (P ++ [false])) (specNode H O (P ++ [true]))))).wl := by
        intro q hc hl hm
        by_cases hqb : q = P ++ [b]
        · rw [hqb]; exact hall _ hroot
        · exact hall q (hbelow q hc hqb hl hm)
      have hemp : ∀ q, (P ++ [!b]) <+: q → q.length ≤ 256 → Mean O q →
          q ∈ (a1.visit H cfg t.length (.internal (specNode H O (P ++ [false])) (specNode H O (P ++ [true]))
            (H.internal (specNode H O (P ++ [false])) (specNode H O (P ++ [true]))))).wl := by
        intro q hc hl hm
        by_cases hqe : q = P ++ [!b]
        · rw [hw, hz, hpos, sibPath_snoc, hqe]; simp
        · exact absurd hm (not_mean_below hk (P ++ [!b]) q (by rw [he]; simp) hc hqe hl)
      rcases prefix_child_cases hq hne with hc | hc
      · cases b with
        | false => exact hvis q hc hl hm
        | true => exact hemp q hc hl hm
      · cases b with
        | false => exact hemp q hc hl hm
        | true => exact hvis q hc hl hm
  · -- both halves
    intro P a a0 a1 htP hPlt h0 h1 hR0 hR1 hpos
    obtain ⟨hsub0, hroot0, hbelow0⟩ := hR0
    obtain ⟨hsub1, hroot1, hbelow1⟩ := hR1
    have hall := tw_visit_wl_sub H cfg t.length a1
      (.internal (specNode H O (P ++ [false])) (specNode H O (P ++ [true]))
        (H.internal (specNode H O (P ++ [false])) (specNode H O (P ++ [true]))))
    have hlast := tw_visit_wl_last H cfg t.length a1
      (.internal (specNode H O (P ++ [false])) (specNode H O (P ++ [true]))
        (H.internal (specNode H O (P ++ [false])) (specNode H O (P ++ [true]))))
    have hposf : (a1.visit H cfg t.length (.internal (specNode H O (P ++ [false])) (specNode H O (P ++ [true]))
        (H.internal (specNode H O (P ++ [false])) (specNode H O (P ++ [true]))))).pos = P := by
      rw [tw_visit_internal_pos, hpos]; simp
    refine ⟨fun q hq => hall q (hsub1 q (hsub0 q hq)), ?_, ?_⟩
    · rw [hposf] at hlast; exact hlast
    · intro q hq hne hl hm
      rcases prefix_child_cases hq hne with hc | hc
      · by_cases hqb : q = P ++ [false]
        · rw [hqb]; exact hall _ (hsub1 _ hroot0)
        · exact hall q (hsub1 q (hbelow0 q hc hqb hl hm))
      · by_cases hqb : q = P ++ [true]
        · rw [hqb]; exact hall _ hroot1
        · exact hall q (hbelow1 q hc hqb hl hm)

/-- **the slots `replace_terminal` writes**: the position itself and every meaningful slot strictly below it -/
theorem tw_replace_wl (hs : H.Sound) {O : List (Key × VH)} (hk : KeysOK O) (cfg : TWCfg Node) (a : TW Node)
    (ht : a.pos.length ≤ 256) :
    (∀ q ∈ a.wl, q ∈ (a.replaceTerminal H cfg (sub O a.pos)).wl) ∧
    BlockWritten O a.pos (a.replaceTerminal H cfg (sub O a.pos)).wl := by
  unfold TW.replaceTerminal
  rw [buildEvents_sub H hk a.pos ht]
  simp only
  by_cases he : sub O a.pos = []
  · rw [if_pos he]
    simp only [TW.visitAll]
    refine ⟨tw_visit_wl_sub H cfg _ a _, ?_, ?_⟩
    · have := tw_visit_wl_last H cfg a.pos.length a (.terminator : WriteNode Node VH)
      rw [tw_visit_terminator] at this ⊢
      exact this
    · intro q hq hne hl hm
      exact absurd hm (not_mean_below hk a.pos q (by rw [he]; simp) hq hne hl)
  · rw [if_neg he]
    have := tw_visit_tree_wl H hs hk cfg a.pos (256 - a.pos.length) a.pos none a.pos a rfl (List.prefix_refl _) ht he
      (List.prefix_refl _) ⟨rfl, rfl⟩
    simpa using this

theorem tw_visitAll_wl_mono (cfg : TWCfg Node) (sd : Nat) : ∀ (evs : List (WriteNode Node VH)) (a : TW Node),
    ∀ q ∈ a.wl, q ∈ (TW.visitAll H cfg sd a evs).wl := by
  intro evs
  induction evs with
  | nil => intro a q hq; exact hq
  | cons c cs ih =>
    intro a q hq
    simp only [TW.visitAll]
    exact ih _ q (tw_visit_wl_sub H cfg sd a c q hq)

theorem tw_replace_wl_mono (cfg : TWCfg Node) (a : TW Node) (ops : List (Key × VH)) :
    ∀ q ∈ a.wl, q ∈ (a.replaceTerminal H cfg ops).wl := by
  unfold TW.replaceTerminal
  split
  · exact tw_visitAll_wl_mono H cfg _ _ a
  · intro q hq; exact hq

/-! ## the write list only grows; after a run every replaced block is written -/

theorem tw_compactStep_wl_mono (a : TW Node) : ∀ q ∈ a.wl, q ∈ (a.compactStep H).2.wl := by
  intro q hq
  rw [tw_compactStep_snd]
  split
  · exact List.mem_append_left _ hq
  · split
    · exact List.mem_append_left _ hq
    · exact hq

theorem tw_compactLoop_wl_mono (cfg : TWCfg Node) : ∀ (n : Nat) (a : TW Node), ∀ q ∈ a.wl, q ∈ (TW.compactLoop H cfg n a).wl := by
  intro n
  induction n with
  | zero => intro a q hq; exact hq
  | succ n ih =>
    intro a q hq
    have h1 : q ∈ ((a.compactStep H).2.up).wl := by rw [tw_up_wl]; exact tw_compactStep_wl_mono H a q hq
    rw [tw_compactLoop_succ]
    split
    · split
      · exact h1
      · exact List.mem_append_left _ h1
    · exact ih _ q (List.mem_append_left _ h1)

theorem tw_compactUp_wl_mono (cfg : TWCfg Node) (a : TW Node) (t : Option Path) : ∀ q ∈ a.wl, q ∈ (a.compactUp H cfg t).wl := by
  intro q hq
  unfold TW.compactUp
  split
  · exact hq
  · cases t with
    | some t => exact tw_compactLoop_wl_mono H cfg _ a q hq
    | none => exact tw_compactLoop_wl_mono H cfg _ a q hq

theorem tw_step_wl_mono (cfg : TWCfg Node) (a : TW Node) (s : Step VH) : ∀ q ∈ a.wl, q ∈ (a.step H cfg s).wl := by
  intro q hq
  unfold TW.step
  cases s.2 with
  | none => exact tw_compactUp_wl_mono H cfg a _ q hq
  | some ops =>
    simp only
    unfold TW.advanceAndReplace
    exact tw_replace_wl_mono H cfg _ ops q (tw_compactUp_wl_mono H cfg a (some s.1) q hq)

theorem tw_run_wl_mono (cfg : TWCfg Node) : ∀ (todo : List (Step VH)) (a : TW Node), ∀ q ∈ a.wl, q ∈ (a.run H cfg todo).wl := by
  intro todo
  induction todo with
  | nil => intro a q hq; exact hq
  | cons s todo ih => intro a q hq; exact ih _ q (tw_step_wl_mono H cfg a s q hq)

theorem blockWritten_mono {O : List (Key × VH)} {P : Path} {wl wl' : List Path} (h : BlockWritten O P wl)
    (hsub : ∀ q ∈ wl, q ∈ wl') : BlockWritten O P wl' :=
  ⟨hsub _ h.1, fun q h1 h2 h3 h4 => hsub q (h.2 q h1 h2 h3 h4)⟩

/-- **after a run, the block below every replaced terminal is written** -/
theorem tw_run_written (hs : H.Sound) {S' : List (Key × VH)} (hS' : KeysOK S') (cfg : TWCfg Node) :
    ∀ (todo : List (Step VH)) (a : TW Node),
      (∀ s ∈ todo, s.1.length ≤ 256 ∧ ∀ ops, s.2 = some ops → ops = sub S' s.1) →
      ∀ s ∈ todo, s.2.isSome = true → BlockWritten S' s.1 (a.run H cfg todo).wl := by
  intro todo
  induction todo with
  | nil => intro a _ s hs'; cases hs'
  | cons s0 todo ih =>
    intro a hall s hs' hsome
    rcases List.mem_cons.mp hs' with e | hmem
    · subst e
      cases hop : s.2 with
      | none => rw [hop] at hsome; cases hsome
      | some ops =>
        have hops := (hall s (List.mem_cons_self ..)).2 ops hop
        have hlen := (hall s (List.mem_cons_self ..)).1
        have hstep : a.step H cfg s = ({ a.compactUp H cfg (some s.1) with pos := s.1 } : TW Node).replaceTerminal H cfg (sub S' s.1) := by
          unfold TW.step; rw [hop]; simp only
          unfold TW.advanceAndReplace; rw [hops]
        have hw := (tw_replace_wl H hs hS' cfg ({ a.compactUp H cfg (some s.1) with pos := s.1 } : TW Node) hlen).2
        rw [← hstep] at hw
        exact blockWritten_mono hw (tw_run_wl_mono H cfg todo _)
    · exact ih _ (fun s1 h1 => hall s1 (List.mem_cons_of_mem _ h1)) s hmem hsome

end Nomt.Walker
