import NomtModel.Store.StageGlueEnforce2
/-!
# `enforce_first_leaf_separator`: the specification theorem, main case analysis
-/
namespace Nomt.StageGlue
open Nomt
open Nomt.LeafUpd (Entry Sorted write1 applyAll)
open Nomt.BranchUpd (chs chOf)

theorem csAsc_iff (cs : List (Nat × Option Nat)) : CsAsc cs ↔ (cs.map (·.1)).Pairwise (· < ·) := by
  unfold CsAsc; rw [List.pairwise_map]

abbrev delOf (D : Level) : List (Nat × Option Nat) := D.map fun x => (x.1, none)

theorem delOf_keys (D : Level) : (delOf D).map (·.1) = D.map (·.1) := by simp [delOf]

theorem caseC (pn0 : Nat) (D : Level) (s pn : Nat) (R3 : Level) (post2 : List (Nat × Option Nat))
    (hl : LvlAsc ((0, pn0) :: D ++ (s, pn) :: R3)) (hc : CsAsc ((0, none) :: (delOf D ++ post2)))
    (hlt : ∀ c ∈ post2, s < c.1) :
    CsAsc ((0, some pn) :: (delOf D ++ (s, none) :: post2)) ∧
      applyAll (lvlEnts ((0, pn0) :: D ++ (s, pn) :: R3)) (chs ((0, some pn) :: (delOf D ++ (s, none) :: post2))) =
        relabel0 (applyAll (lvlEnts ((s, pn) :: R3)) (chs post2)) := by
  have hl' := List.pairwise_cons.1 hl
  have hc' := List.pairwise_cons.1 hc
  have hla := List.pairwise_append.1 hl'.2
  have hca := List.pairwise_append.1 hc'.2
  have hs0 : 0 < s := hl'.1 (s, pn) (by simp)
  have hR3 : ∀ y ∈ R3, s < y.1 := fun y hy => (List.pairwise_cons.1 hla.2.1).1 y hy
  constructor
  · refine List.pairwise_cons.2 ⟨?_, List.pairwise_append.2 ⟨hca.1, List.pairwise_cons.2 ⟨hlt, hca.2.1⟩, ?_⟩⟩
    · intro c hc2
      rcases List.mem_append.1 hc2 with h1 | h1
      · exact hc'.1 c (List.mem_append_left _ h1)
      · rcases List.mem_cons.1 h1 with rfl | h1
        · exact hs0
        · exact hc'.1 c (List.mem_append_right _ h1)
    · intro a ha b hb
      rcases List.mem_cons.1 hb with rfl | hb
      · obtain ⟨x, hx, rfl⟩ := List.mem_map.1 ha
        exact hla.2.2 x hx (s, pn) (by simp)
      · exact hca.2.2 a ha b hb
  · rw [apply_set_zero pn0 pn D ((s, pn) :: R3) ((s, none) :: post2) hl
      (by intro c hc2; rcases List.mem_cons.1 hc2 with rfl | h1
          · exact hs0
          · exact hc'.1 c (List.mem_append_right _ h1))
      (fun x hx => hl'.1 x (List.mem_append_left _ hx))]
    have e1 : applyAll (lvlEnts ((s, pn) :: R3)) (chs ((s, none) :: post2)) = applyAll (lvlEnts R3) (chs post2) := by
      show applyAll (write1 (lvlEnts ((s, pn) :: R3)) s none) (chs post2) = _
      rw [lvlEnts_cons, LeafUpd.write1_none_head_eq rfl]
      intro e he
      obtain ⟨y, hy, rfl⟩ := List.mem_map.1 he
      exact hR3 y hy
    have e2 : applyAll (lvlEnts ((s, pn) :: R3)) (chs post2) = ⟨s, pn, false⟩ :: applyAll (lvlEnts R3) (chs post2) := by
      rw [lvlEnts_cons, applyAll_cons_lt]
      intro c hc2
      obtain ⟨c', hc', e⟩ := mem_chs hc2
      show s < c.1
      rw [← e]; exact hlt c' hc'
    rw [e1, e2]; rfl

theorem caseB1 (pn0 : Nat) (D : Level) (k pn p : Nat) (R3 : Level) (post3 : List (Nat × Option Nat))
    (hl : LvlAsc ((0, pn0) :: D ++ (k, pn) :: R3)) (hc : CsAsc ((0, none) :: (delOf D ++ (k, some p) :: post3))) :
    CsAsc ((0, some p) :: (delOf D ++ (k, none) :: post3)) ∧
      applyAll (lvlEnts ((0, pn0) :: D ++ (k, pn) :: R3)) (chs ((0, some p) :: (delOf D ++ (k, none) :: post3))) =
        relabel0 (applyAll (lvlEnts ((k, pn) :: R3)) (chs ((k, some p) :: post3))) := by
  have hl' := List.pairwise_cons.1 hl
  have hc' := List.pairwise_cons.1 hc
  have hla := List.pairwise_append.1 hl'.2
  have hca := List.pairwise_append.1 hc'.2
  have hk0 : 0 < k := hl'.1 (k, pn) (by simp)
  have hR3 : ∀ y ∈ R3, k < y.1 := fun y hy => (List.pairwise_cons.1 hla.2.1).1 y hy
  have hp3 : ∀ c ∈ post3, k < c.1 := fun c hc2 => (List.pairwise_cons.1 hca.2.1).1 c hc2
  constructor
  · rw [csAsc_iff] at hc ⊢
    simpa using hc
  · rw [apply_set_zero pn0 p D ((k, pn) :: R3) ((k, none) :: post3) hl
      (by intro c hc2; rcases List.mem_cons.1 hc2 with rfl | h1
          · exact hk0
          · have := hp3 c h1; omega)
      (fun x hx => hl'.1 x (List.mem_append_left _ hx))]
    have e1 : applyAll (lvlEnts ((k, pn) :: R3)) (chs ((k, none) :: post3)) = applyAll (lvlEnts R3) (chs post3) := by
      show applyAll (write1 (lvlEnts ((k, pn) :: R3)) k none) (chs post3) = _
      rw [lvlEnts_cons, LeafUpd.write1_none_head_eq rfl]
      intro e he
      obtain ⟨y, hy, rfl⟩ := List.mem_map.1 he
      exact hR3 y hy
    have e2 : applyAll (lvlEnts ((k, pn) :: R3)) (chs ((k, some p) :: post3)) =
        ⟨k, p, false⟩ :: applyAll (lvlEnts R3) (chs post3) := by
      show applyAll (write1 (lvlEnts ((k, pn) :: R3)) k (some (p, false))) (chs post3) = _
      rw [lvlEnts_cons, LeafUpd.write1_some_head_eq rfl, applyAll_cons_lt]
      · intro c hc2
        obtain ⟨c', hc', e⟩ := mem_chs hc2
        show k < c.1
        rw [← e]; exact hp3 c' hc'
      · intro e he
        obtain ⟨y, hy, rfl⟩ := List.mem_map.1 he
        exact hR3 y hy
    rw [e1, e2]; rfl

theorem caseB2 (pn0 : Nat) (D R2 : Level) (k p : Nat) (post3 : List (Nat × Option Nat))
    (hl : LvlAsc ((0, pn0) :: D ++ R2)) (hc : CsAsc ((0, none) :: (delOf D ++ (k, some p) :: post3)))
    (hR : ∀ y ∈ R2, k < y.1) :
    CsAsc ((0, some p) :: (delOf D ++ post3)) ∧
      applyAll (lvlEnts ((0, pn0) :: D ++ R2)) (chs ((0, some p) :: (delOf D ++ post3))) =
        relabel0 (applyAll (lvlEnts R2) (chs ((k, some p) :: post3))) := by
  have hl' := List.pairwise_cons.1 hl
  have hc' := List.pairwise_cons.1 hc
  have hca := List.pairwise_append.1 hc'.2
  have hp3 : ∀ c ∈ post3, k < c.1 := fun c hc2 => (List.pairwise_cons.1 hca.2.1).1 c hc2
  constructor
  · rw [csAsc_iff] at hc ⊢
    refine List.Pairwise.sublist ?_ hc
    simp only [List.map_cons, List.map_append]
    exact List.Sublist.cons_cons _ (List.Sublist.append (List.Sublist.refl _) (List.sublist_cons_self _ _))
  · rw [apply_set_zero pn0 p D R2 post3 hl
      (fun c hc2 => hc'.1 c (List.mem_append_right _ (List.mem_cons_of_mem _ hc2)))
      (fun x hx => hl'.1 x (List.mem_append_left _ hx))]
    have e2 : applyAll (lvlEnts R2) (chs ((k, some p) :: post3)) = ⟨k, p, false⟩ :: applyAll (lvlEnts R2) (chs post3) := by
      show applyAll (write1 (lvlEnts R2) k (some (p, false))) (chs post3) = _
      rw [LeafUpd.write1_some_all_above, applyAll_cons_lt]
      · intro c hc2
        obtain ⟨c', hc', e⟩ := mem_chs hc2
        show k < c.1
        rw [← e]; exact hp3 c' hc'
      · intro e he
        obtain ⟨y, hy, rfl⟩ := List.mem_map.1 he
        exact hR y hy
    rw [e2]; rfl

/-- the tail of `enforce_first_leaf_separator` once the loop has stopped behind the deleted run `D` -/
theorem enforce_tail (pn0 : Nat) (D R2 : Level) (post2 : List (Nat × Option Nat))
    (hl : LvlAsc ((0, pn0) :: D ++ R2)) (hc : CsAsc ((0, none) :: (delOf D ++ post2)))
    (hdel : ∀ k, (k, none) ∈ post2 → ∃ pn, (k, pn) ∈ R2)
    (hstop : ∀ s pn R3 k post3, R2 = (s, pn) :: R3 → post2 = (k, none) :: post3 → s ≠ k)
    (hloop : enforceLoop false ((0, pn0) :: D ++ R2) ((0, none) :: (delOf D ++ post2))
      (((0, none) :: (delOf D ++ post2)).length + 1) 0 1 = some (R2.head?, (delOf D).length + 1)) :
    ∃ cs', enforceFirst false ((0, pn0) :: D ++ R2) ((0, none) :: (delOf D ++ post2)) = some cs' ∧ CsAsc cs' ∧
      applyAll (lvlEnts ((0, pn0) :: D ++ R2)) (chs cs') =
        relabel0 (applyAll (lvlEnts ((0, pn0) :: D ++ R2)) (chs ((0, none) :: (delOf D ++ post2)))) := by
  have hl' := List.pairwise_cons.1 hl
  have hD0 : ∀ x ∈ D, 0 < x.1 := fun x hx => hl'.1 x (List.mem_append_left _ hx)
  have hR0 : ∀ x ∈ R2, 0 < x.1 := fun x hx => hl'.1 x (List.mem_append_right _ hx)
  have hDR : ∀ x ∈ D, ∀ y ∈ R2, x.1 < y.1 := (List.pairwise_append.1 hl'.2).2.2
  have hR2 : LvlAsc R2 := (List.pairwise_append.1 hl'.2).2.1
  have hc' := List.pairwise_cons.1 hc
  have hpost0 : ∀ c ∈ post2, 0 < c.1 := fun c hc2 => hc'.1 c (List.mem_append_right _ hc2)
  have hDpost : ∀ x ∈ D, ∀ c ∈ post2, x.1 < c.1 := by
    intro x hx c hc2
    exact (List.pairwise_append.1 hc'.2).2.2 (x.1, none) (List.mem_map.2 ⟨x, hx, rfl⟩) c hc2
  have hpost2 : CsAsc post2 := (List.pairwise_append.1 hc'.2).2.1
  have hA := apply_del_zero pn0 D R2 post2 hl
  rw [hA]
  unfold enforceFirst
  simp only [hloop, get_at]
  cases hp : post2 with
  | nil =>
    subst hp
    cases hR : R2 with
    | nil =>
      subst hR
      refine ⟨_, rfl, hc, ?_⟩
      rw [hA]; rfl
    | cons y R3 =>
      subst hR
      obtain ⟨s, pn⟩ := y
      obtain ⟨c1, c2⟩ := caseC pn0 D s pn R3 [] hl hc (by intro c h; cases h)
      simp only [List.head?_nil, List.head?_cons, setFirst, insert_at]
      exact ⟨_, rfl, c1, c2⟩
  | cons q post3 =>
    subst hp
    obtain ⟨k, w⟩ := q
    have hp3 : ∀ c ∈ post3, k < c.1 := fun c hc2 => (List.pairwise_cons.1 hpost2).1 c hc2
    cases w with
    | none =>
      obtain ⟨pnk, hk⟩ := hdel k (by simp)
      cases hR : R2 with
      | nil => subst hR; cases hk
      | cons y R3 =>
        subst hR
        obtain ⟨s, pn⟩ := y
        have hne := hstop s pn R3 k post3 rfl rfl
        have hsk : s < k := by
          rcases List.mem_cons.1 hk with h | h
          · cases h; exact absurd rfl hne
          · exact (List.pairwise_cons.1 hR2).1 (k, pnk) h
        obtain ⟨c1, c2⟩ := caseC pn0 D s pn R3 ((k, none) :: post3) hl hc (by
          intro c h
          rcases List.mem_cons.1 h with rfl | h
          · exact hsk
          · have := hp3 c h; omega)
        simp only [List.head?_cons, setFirst, insert_at]
        exact ⟨_, rfl, c1, c2⟩
    | some p =>
      cases hR : R2 with
      | nil =>
        subst hR
        obtain ⟨c1, c2⟩ := caseB2 pn0 D [] k p post3 hl hc (by intro y hy; cases hy)
        simp only [List.head?_cons, List.head?_nil, setFirst, erase_at, if_true, Bool.false_eq_true, if_false]
        exact ⟨_, rfl, c1, c2⟩
      | cons y R3 =>
        subst hR
        obtain ⟨s, pn⟩ := y
        by_cases hge : s ≥ k
        · by_cases heq : s = k
          · subst heq
            obtain ⟨c1, c2⟩ := caseB1 pn0 D s pn p R3 post3 hl hc
            simp only [List.head?_cons, setFirst, set_at, ge_iff_le, Nat.le_refl, decide_true, if_true]
            exact ⟨_, rfl, c1, c2⟩
          · obtain ⟨c1, c2⟩ := caseB2 pn0 D ((s, pn) :: R3) k p post3 hl hc (by
              intro y hy
              rcases List.mem_cons.1 hy with rfl | hy
              · show k < s; omega
              · have := (List.pairwise_cons.1 hR2).1 y hy; omega)
            simp only [List.head?_cons, setFirst, erase_at, ge_iff_le, hge, decide_true, if_true, heq, decide_false,
              Bool.false_eq_true, if_false]
            exact ⟨_, rfl, c1, c2⟩
        · have hsk : s < k := by omega
          obtain ⟨c1, c2⟩ := caseC pn0 D s pn R3 ((k, some p) :: post3) hl hc (by
            intro c h
            rcases List.mem_cons.1 h with rfl | h
            · exact hsk
            · have := hp3 c h; omega)
          simp only [List.head?_cons, setFirst, insert_at, ge_iff_le, hge, decide_false, Bool.false_eq_true, if_false]
          exact ⟨_, rfl, c1, c2⟩

/-- **`enforce_first_leaf_separator` when the first leaf is deleted**: no panic, the changeset stays ascending, and the
level the branch stage builds from the result is the level it would build from the input with the first leaf moved under
the zero key. -/
theorem enforceFirst_spec {lvl : Level} {post : List (Nat × Option Nat)} (h : EnfPre lvl ((0, none) :: post)) :
    ∃ cs', enforceFirst false lvl ((0, none) :: post) = some cs' ∧ CsAsc cs' ∧
      applyAll (lvlEnts lvl) (chs cs') = relabel0 (applyAll (lvlEnts lvl) (chs ((0, none) :: post))) := by
  obtain ⟨pn0', h0⟩ := h.dels 0 (by simp)
  obtain ⟨x, L1, rfl⟩ := List.exists_cons_of_ne_nil (List.ne_nil_of_mem h0)
  obtain ⟨s0, pn0⟩ := x
  have hs0 : s0 = 0 := h.lvl_zero (s0, pn0) rfl
  subst hs0
  have hl := h.lvl_asc
  have hL1 : LvlAsc L1 := (List.pairwise_cons.1 hl).2
  obtain ⟨a, b, c, d⟩ := skipRun_spec L1 post
  generalize hn : skipRun L1 post = n at a b c d
  have eL : L1 = L1.take n ++ L1.drop n := (List.take_append_drop n L1).symm
  have eP : post = delOf (L1.take n) ++ post.drop n := by
    rw [delOf, ← a]; exact (List.take_append_drop n post).symm
  have hlen : (delOf (L1.take n)).length = n := by simp [delOf]; omega
  have hloop := enforceLoop_spec (0, none) post [] (0, pn0) L1 [] (post.length + 2) (by simpa using hl) (by omega)
  simp only [List.nil_append, List.length_nil, Nat.zero_add, hn] at hloop
  have key := enforce_tail pn0 (L1.take n) (L1.drop n) (post.drop n)
    (by rw [List.cons_append, ← eL]; exact hl)
    (by rw [← eP]; exact h.cs_asc)
    (by
      intro k hk
      have hk' : (k, none) ∈ post := List.mem_of_mem_drop hk
      obtain ⟨pn, hpn⟩ := h.dels k (List.mem_cons_of_mem _ hk')
      refine ⟨pn, ?_⟩
      rcases List.mem_cons.1 hpn with e | hpn
      · cases e
        have := (List.pairwise_cons.1 h.cs_asc).1 (0, none) hk'
        exact absurd this (Nat.lt_irrefl 0)
      · rw [eL] at hpn
        rcases List.mem_append.1 hpn with h1 | h1
        · -- `k` would be one of the skipped separators, which are smaller than everything left in `post`
          exfalso
          have hmem : (k, (none : Option Nat)) ∈ delOf (L1.take n) := List.mem_map.2 ⟨(k, pn), h1, rfl⟩
          have hasc := (List.pairwise_cons.1 h.cs_asc).2
          rw [eP] at hasc
          have := (List.pairwise_append.1 hasc).2.2 (k, none) hmem (k, none) hk
          exact Nat.lt_irrefl k this
        · exact h1)
    (by intro s pn R3 k post3 e1 e2; exact d s pn R3 k post3 e1 e2)
    (by
      rw [hlen, ← eP, List.cons_append, ← eL]
      have : ((0, none) :: post : List (Nat × Option Nat)).length + 1 = post.length + 2 := by simp
      rw [this]
      have e2 : 0 + 1 + n = n + 1 := by omega
      rw [e2] at hloop
      exact hloop)
  rw [← eP, List.cons_append, ← eL] at key
  exact key

/-- `enforce_first_leaf_separator` does nothing unless the changeset starts with the deletion of the zero key -/
theorem enforceFirst_noop (seeded : Bool) (lvl : Level) (cs : List (Nat × Option Nat))
    (h : cs.head? ≠ some (0, none)) : enforceFirst seeded lvl cs = some cs := by
  unfold enforceFirst
  split
  · rename_i t
    exact absurd rfl h
  · rfl

end Nomt.StageGlue
