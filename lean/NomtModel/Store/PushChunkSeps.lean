import NomtModel.Store.PushChunkBase
/-!
# `BranchNodeBuilder::push_chunk` — step 3: the separators

The whole loop of `copy_and_shift_separators` in both directions (prefix growth: every separator loses its first
`diff` bits; prefix extension: every separator gets the last `diff` bits of the base prefix in front), by induction
over the chunk with the single-iteration lemmas of `Store/BitOpsCallSites.lean`; every `bitwise_memcpy` call is inside
its contract and every slice inside the page because the node under construction and the base node satisfy the
capacity bound (`Fit`).
-/
namespace Nomt.BitOps

/-- the capacity facts of a node with `n` items, prefix length `pl`, and `last` separator bits in total:
`body_size(pl, last, n) ≤ BRANCH_NODE_BODY_SIZE`, no separator longer than a key -/
structure Fit (n pl last : Nat) : Prop where
  fit : 10 + 2 * n + (pl + last + 7) / 8 + 4 * n ≤ 4096
  hlast : last ≤ 256 * n
  hpl : pl ≤ 256
  hn : 1 ≤ n

theorem Fit.slot {n pl last : Nat} (F : Fit n pl last) (a L : Nat) (hal : a + L ≤ last) :
    10 + n * 2 + (pl + a) / 8 + rawLen ((pl + a) % 8) L ≤ 4096 :=
  slot_fit n pl a L last F.fit hal F.hlast F.hpl F.hn

theorem Fit.slot_shift {n pl last : Nat} (F : Fit n pl last) (a L d : Nat) (hal : a + L ≤ last) (hd : d ≤ 256) (hdL : d ≤ L) :
    10 + n * 2 + (pl + a) / 8 + ((pl + a) % 8 + d) / 8 + rawLen ((pl + a) % 8) L ≤ 4096 :=
  slot_fit_shift n pl a L last d F.fit hal F.hlast F.hpl F.hn hd hdL

/-- the source slice of the prefix-growth copy (recomputed for the bits behind the skipped ones) ends inside the page -/
theorem grow_src_fit (n pl s c last d L' : Nat) (F : Fit n pl last) (hsc : s ≤ c) (hc : c ≤ last) (hd : d ≤ 256)
    (hL : L' = c - s - d) :
    10 + n * 2 + (pl + s) / 8 + ((pl + s) % 8 + d) / 8 +
      (if L' = 0 then 0 else ((((pl + s) % 8 + d) % 8 + L' + 7) / 8 + 7) / 8 * 8) ≤ 4096 := by
  obtain ⟨fit, hlast, hpl, hn⟩ := F
  split
  · by_cases h1 : n ≤ 118
    · omega
    · omega
  · by_cases h1 : n = 1
    · subst h1; omega
    · omega

/-- the carried prefix bits `[plN, plN + diff)` of the base prefix: the source slice ends inside the page -/
theorem carry_src_fit (n pl last plN d : Nat) (F : Fit n pl last) (h : plN + d = pl) :
    10 + n * 2 + plN / 8 + ((plN % 8 + d + 7) / 8 + 7) / 8 * 8 ≤ 4096 := by
  obtain ⟨fit, hlast, hpl, hn⟩ := F
  by_cases h1 : n = 1
  · subst h1; omega
  · omega

theorem copyShiftLoop_grow (base : List Nat) (nB pcB plB : Nat) (cB : Nat → Nat) (LB : Lay base nB pcB plB cB nB)
    (nN pcN plN : Nat) (cN : Nat → Nat) (m lastN lastB diff : Nat) (FN : Fit nN plN lastN) (FB : Fit nB plB lastB)
    (hm : m ≤ nN) (hdiff : diff ≤ 256) :
    ∀ (nItems index baseIndex : Nat) (pg : List Nat), Lay pg nN pcN plN cN m → index + nItems ≤ m → baseIndex + nItems ≤ nB →
      (∀ j, j < nItems → prevCell cN (index + j) ≤ cN (index + j) ∧ cN (index + j) ≤ lastN) →
      (∀ j, j < nItems → prevCell cB (baseIndex + j) ≤ cB (baseIndex + j) ∧ cB (baseIndex + j) ≤ lastB) →
      (∀ j, j < nItems → cN (index + j) - prevCell cN (index + j) = cB (baseIndex + j) - prevCell cB (baseIndex + j) - diff) →
      ∃ pg', copyShiftLoop base none 0 diff nItems index baseIndex pg = some pg' ∧ pg'.length = pg.length ∧ Bytes pg' ∧
        (∀ j, j < nItems → ∀ t, t < cN (index + j) - prevCell cN (index + j) →
          bitOf pg' (8 * (10 + nN * 2) + plN + prevCell cN (index + j) + t) =
            bitOf base (8 * (10 + nB * 2) + plB + prevCell cB (baseIndex + j) + diff + t)) ∧
        (∀ p, (p < 8 * (10 + nN * 2) + plN + prevCell cN index ∨ 8 * (10 + nN * 2) + plN + lastN ≤ p) →
          bitOf pg' p = bitOf pg p) := by
  intro nItems
  induction nItems with
  | zero =>
    intro index baseIndex pg L _ _ _ _ _
    exact ⟨pg, by simp [copyShiftLoop], rfl, L.bytes, fun j hj => by omega, fun _ _ => rfl⟩
  | succ nItems ih =>
    intro index baseIndex pg L hi hbi hN hB hlen
    have hN0 := hN 0 (by omega)
    have hB0 := hB 0 (by omega)
    have hl0 := hlen 0 (by omega)
    simp only [Nat.add_zero] at hN0 hB0 hl0
    have hs := L.rsd index (index + 1) (by omega) (by omega) (by rw [Nat.add_sub_cancel]; exact hN0.1)
    have hb := LB.rsd baseIndex (baseIndex + 1) (by omega) (by omega) (by rw [Nat.add_sub_cancel]; exact hB0.1)
    rw [Nat.add_sub_cancel] at hs hb
    have hr1 := FN.slot (prevCell cN index) (cN index - prevCell cN index) (by omega)
    have hr2 := grow_src_fit nB plB (prevCell cB baseIndex) (cB baseIndex) lastB diff (cN index - prevCell cN index) FB
      hB0.1 hB0.2 hdiff hl0
    obtain ⟨pg1, a1, a2, a3, a4, a5⟩ := copyShiftOne_grow pg base index baseIndex diff _ _ _ _ _ _ _ _ L.bytes LB.bytes hs hb hl0
      (by rw [L.len]; exact hr1) (by rw [LB.len]; exact hr2)
    have L1 : Lay pg1 nN pcN plN cN m := L.of_agree_bits a2 a3 fun p hp => a5 p (by left; omega)
    obtain ⟨pg2, r1, r2, r3, r4, r5⟩ := ih (index + 1) (baseIndex + 1) pg1 L1 (by omega) (by omega)
      (fun j hj => by have := hN (j + 1) (by omega); rwa [show index + (j + 1) = index + 1 + j by omega] at this)
      (fun j hj => by have := hB (j + 1) (by omega); rwa [show baseIndex + (j + 1) = baseIndex + 1 + j by omega] at this)
      (fun j hj => by
        have := hlen (j + 1) (by omega)
        rwa [show index + (j + 1) = index + 1 + j by omega, show baseIndex + (j + 1) = baseIndex + 1 + j by omega] at this)
    rw [prevCell_succ] at r5
    refine ⟨pg2, ?_, by rw [r2, a2], r3, ?_, ?_⟩
    · unfold copyShiftLoop
      rw [a1, Option.bind_some]; exact r1
    · intro j hj t ht
      by_cases hj0 : j = 0
      · subst hj0
        simp only [Nat.add_zero] at ht ⊢
        rw [r5 _ (by left; omega)]
        have := a4 t ht
        rw [show 8 * (10 + nN * 2) + plN + prevCell cN index + t =
          8 * (10 + nN * 2 + (plN + prevCell cN index) / 8) + (plN + prevCell cN index) % 8 + t by omega, this]
        congr 1; omega
      · have := r4 (j - 1) (by omega) t (by rwa [show index + 1 + (j - 1) = index + j by omega])
        rw [show index + 1 + (j - 1) = index + j by omega, show baseIndex + 1 + (j - 1) = baseIndex + j by omega] at this
        exact this
    · intro p hp
      rw [r5 p (by omega), a5 p (by omega)]

theorem copyShiftLoop_extend (base : List Nat) (nB pcB plB : Nat) (cB : Nat → Nat) (LB : Lay base nB pcB plB cB nB)
    (nN pcN plN : Nat) (cN : Nat → Nat) (m lastN lastB diff : Nat) (FN : Fit nN plN lastN) (FB : Fit nB plB lastB)
    (hm : m ≤ nN) (hdiff : 0 < diff) (hpl : plN + diff = plB) :
    ∀ (nItems index baseIndex : Nat) (pg : List Nat), Lay pg nN pcN plN cN m → index + nItems ≤ m → baseIndex + nItems ≤ nB →
      (∀ j, j < nItems → prevCell cN (index + j) ≤ cN (index + j) ∧ cN (index + j) ≤ lastN) →
      (∀ j, j < nItems → prevCell cB (baseIndex + j) ≤ cB (baseIndex + j) ∧ cB (baseIndex + j) ≤ lastB) →
      (∀ j, j < nItems → cN (index + j) - prevCell cN (index + j) = cB (baseIndex + j) - prevCell cB (baseIndex + j) + diff) →
      ∃ pg', copyShiftLoop base
          (some (10 + nB * 2 + plN / 8, 10 + nB * 2 + plN / 8 + ((plN % 8 + diff + 7) / 8 + 7) / 8 * 8, plN % 8)) 1 diff
          nItems index baseIndex pg = some pg' ∧ pg'.length = pg.length ∧ Bytes pg' ∧
        (∀ j, j < nItems → ∀ t, t < diff →
          bitOf pg' (8 * (10 + nN * 2) + plN + prevCell cN (index + j) + t) = bitOf base (8 * (10 + nB * 2) + plN + t)) ∧
        (∀ j, j < nItems → ∀ t, t < cB (baseIndex + j) - prevCell cB (baseIndex + j) →
          bitOf pg' (8 * (10 + nN * 2) + plN + prevCell cN (index + j) + diff + t) =
            bitOf base (8 * (10 + nB * 2) + plB + prevCell cB (baseIndex + j) + t)) ∧
        (∀ p, (p < 8 * (10 + nN * 2) + plN + prevCell cN index ∨ 8 * (10 + nN * 2) + plN + lastN ≤ p) →
          bitOf pg' p = bitOf pg p) := by
  intro nItems
  induction nItems with
  | zero =>
    intro index baseIndex pg L _ _ _ _ _
    exact ⟨pg, by simp [copyShiftLoop], rfl, L.bytes, fun j hj => by omega, fun j hj => by omega, fun _ _ => rfl⟩
  | succ nItems ih =>
    intro index baseIndex pg L hi hbi hN hB hlen
    have hN0 := hN 0 (by omega)
    have hB0 := hB 0 (by omega)
    have hl0 := hlen 0 (by omega)
    simp only [Nat.add_zero] at hN0 hB0 hl0
    have hs := L.rsd index (index + 1) (by omega) (by omega) (by rw [Nat.add_sub_cancel]; exact hN0.1)
    have hb := LB.rsd baseIndex (baseIndex + 1) (by omega) (by omega) (by rw [Nat.add_sub_cancel]; exact hB0.1)
    rw [Nat.add_sub_cancel] at hs hb
    have hd256 : diff ≤ 256 := by have := FB.hpl; omega
    have hr1 := FN.slot (prevCell cN index) (cN index - prevCell cN index) (by omega)
    have hr2 := carry_src_fit nB plB lastB plN diff FB hpl
    have hr3 := FN.slot_shift (prevCell cN index) (cN index - prevCell cN index) diff (by omega) hd256 (by omega)
    have hr4 := FB.slot (prevCell cB baseIndex) (cB baseIndex - prevCell cB baseIndex) (by omega)
    obtain ⟨pg1, a1, a2, a3, a4, a4', a5⟩ := copyShiftOne_extend pg base index baseIndex diff _ _ _ _ _ _ _ _
      (10 + nB * 2 + plN / 8) (plN % 8) L.bytes LB.bytes hs hb hl0 hdiff (by omega)
      (by rw [L.len]; exact hr1) (by rw [LB.len]; exact hr2) (by rw [L.len]; exact hr3) (by rw [LB.len]; exact hr4)
    have L1 : Lay pg1 nN pcN plN cN m := L.of_agree_bits a2 a3 fun p hp => a5 p (by left; omega)
    obtain ⟨pg2, r1, r2, r3, r4, r4', r5⟩ := ih (index + 1) (baseIndex + 1) pg1 L1 (by omega) (by omega)
      (fun j hj => by have := hN (j + 1) (by omega); rwa [show index + (j + 1) = index + 1 + j by omega] at this)
      (fun j hj => by have := hB (j + 1) (by omega); rwa [show baseIndex + (j + 1) = baseIndex + 1 + j by omega] at this)
      (fun j hj => by
        have := hlen (j + 1) (by omega)
        rwa [show index + (j + 1) = index + 1 + j by omega, show baseIndex + (j + 1) = baseIndex + 1 + j by omega] at this)
    rw [prevCell_succ] at r5
    refine ⟨pg2, ?_, by rw [r2, a2], r3, ?_, ?_, ?_⟩
    · unfold copyShiftLoop
      rw [a1, Option.bind_some]; exact r1
    · intro j hj t ht
      by_cases hj0 : j = 0
      · subst hj0
        simp only [Nat.add_zero]
        rw [r5 _ (by left; omega)]
        have := a4 t ht
        rw [show 8 * (10 + nN * 2) + plN + prevCell cN index + t =
          8 * (10 + nN * 2 + (plN + prevCell cN index) / 8) + (plN + prevCell cN index) % 8 + t by omega, this]
        congr 1; omega
      · have := r4 (j - 1) (by omega) t ht
        rw [show index + 1 + (j - 1) = index + j by omega] at this
        exact this
    · intro j hj t ht
      by_cases hj0 : j = 0
      · subst hj0
        simp only [Nat.add_zero] at ht ⊢
        rw [r5 _ (by left; omega)]
        have := a4' t ht
        rw [show 8 * (10 + nN * 2) + plN + prevCell cN index + diff + t =
          8 * (10 + nN * 2 + (plN + prevCell cN index) / 8) + (plN + prevCell cN index) % 8 + diff + t by omega, this]
        congr 1; omega
      · have := r4' (j - 1) (by omega) t (by rwa [show baseIndex + 1 + (j - 1) = baseIndex + j by omega])
        rw [show index + 1 + (j - 1) = index + j by omega, show baseIndex + 1 + (j - 1) = baseIndex + j by omega] at this
        exact this
    · intro p hp
      rw [r5 p (by omega), a5 p (by omega)]

end Nomt.BitOps
