import NomtModel.Store.FrameMarks
/-!
# Frame lemmas of the on-disk decoders: each reader depends only on the pages it reads

All reads of `ln` / `bbn` by the decoders of `Store/ImgFormats.lean` / `ImgCheck.lean` go through `pageOf` (one 4 KiB page), the
file size (only `bump * PAGE ≤ size`) and `allZero f 0 PAGE` (the reserved page 0).  For every reader: if image `B` agrees
with image `A` on the pages the run on `A` reads, the run on `B` is the same.
-/
namespace Nomt.Store

theorem pageOf_some {f : ByteArray} {pn : Nat} (h : (pn + 1) * PAGE ≤ f.size) :
    pageOf f pn = some (f.extract (pn * PAGE) ((pn + 1) * PAGE)) := by
  simp [pageOf, h]

theorem pageOf_isSome_of_lt {f : ByteArray} {pn bump : Nat} (hb : bump * PAGE ≤ f.size) (h : pn < bump) :
    ∃ pg, pageOf f pn = some pg := by
  refine ⟨_, pageOf_some ?_⟩
  have : (pn + 1) * PAGE ≤ bump * PAGE := Nat.mul_le_mul_right _ h
  omega

/-! ## the free-list reader -/

theorem freeListAll_frame (A B : ByteArray) (bump : Nat) :
    ∀ (fuel pn : Nat) (fl : List (Nat × List Nat)), freeListAll A bump fuel pn = .ok fl →
      (∀ x ∈ fl, pageOf B x.1 = pageOf A x.1) → freeListAll B bump fuel pn = .ok fl := by
  intro fuel
  induction fuel with
  | zero =>
    intro pn fl h _
    cases pn with
    | zero => simpa [freeListAll] using h
    | succ n => simp [freeListAll, throw, throwThe, MonadExceptOf.throw] at h
  | succ fuel ih =>
    intro pn fl h hag
    cases pn with
    | zero => simpa [freeListAll] using h
    | succ n =>
      simp only [freeListAll] at h ⊢
      by_cases hb : n + 1 ≥ bump
      · simp [hb, bind, Except.bind, throw, throwThe, MonadExceptOf.throw] at h
      · simp only [hb, if_false, bind, Except.bind, pure, Except.pure] at h ⊢
        cases hp : pageOf A (n + 1) with
        | none => rw [hp] at h; simp [throw, throwThe, MonadExceptOf.throw] at h
        | some pg =>
          rw [hp] at h
          simp only at h
          cases hd : decodeFreeListPage pg with
          | none => rw [hd] at h; simp [throw, throwThe, MonadExceptOf.throw] at h
          | some pi =>
            obtain ⟨prev, items⟩ := pi
            rw [hd] at h
            simp only at h
            by_cases hi : items.isEmpty = true
            · simp [hi, throw, throwThe, MonadExceptOf.throw] at h
            · simp only [hi, Bool.false_eq_true, if_false] at h
              cases hr : freeListAll A bump fuel prev with
              | error e => rw [hr] at h; cases h
              | ok rest =>
                rw [hr] at h
                simp only [Except.ok.injEq] at h
                subst h
                have hB : pageOf B (n + 1) = some pg := by
                  rw [hag (n + 1, items) (List.mem_cons_self), hp]
                have hrB := ih prev rest hr (fun x hx => hag x (List.mem_cons_of_mem _ hx))
                rw [hB]
                simp only [hd, hi, Bool.false_eq_true, if_false, hrB]

/-! ## the live branch nodes (reconstruction rule) -/

theorem foldrM_congr_except {α β ε : Type} (f g : α → β → Except ε β) (l : List α) (init : β)
    (h : ∀ a ∈ l, ∀ b, f a b = g a b) : l.foldrM f init = l.foldrM g init := by
  induction l with
  | nil => rfl
  | cons a l ih =>
    rw [List.foldrM_cons, List.foldrM_cons, ih (fun x hx => h x (List.mem_cons_of_mem _ hx))]
    congr 1
    funext b
    exact h a List.mem_cons_self b

/-- `liveBranches` reads every page below the frontier that the free list does not track (page 0 and never-used zero pages
included), and nothing else -/
theorem liveBranches_frame (A B : ByteArray) (bump : Nat) (tracked : Array Bool)
    (hA : bump * PAGE ≤ A.size) (hB : bump * PAGE ≤ B.size)
    (hag : ∀ pn, pn < bump → tracked[pn]! = false → pageOf B pn = pageOf A pn) :
    liveBranches B bump tracked = liveBranches A bump tracked := by
  unfold liveBranches
  apply foldrM_congr_except
  intro pn hpn acc
  have hlt : pn < bump := List.mem_range.1 hpn
  obtain ⟨pa, hpa⟩ := pageOf_isSome_of_lt hA hlt
  obtain ⟨pb, hpb⟩ := pageOf_isSome_of_lt hB hlt
  by_cases ht : tracked[pn]! = true
  · rw [hpa, hpb]
    simp only [ht, if_true]
    by_cases h1 : allZero pa 0 PAGE = true <;> by_cases h2 : allZero pb 0 PAGE = true <;> simp [h1, h2]
  · have ht' : tracked[pn]! = false := by simpa using ht
    rw [hag pn hlt ht']

/-! ## overflow chains -/

theorem readOverflowLoop_prefix (A : ByteArray) (bump : Nat) :
    ∀ (fuel : Nat) (q : Array Nat) (idx : Nat) (acc v : ByteArray) (q' : Array Nat),
      readOverflowLoop A bump fuel q idx acc = .ok (v, q') → ∃ r, q' = q ++ r := by
  intro fuel
  induction fuel with
  | zero =>
    intro q idx acc v q' h
    simp only [readOverflowLoop] at h
    split at h
    · simp only [pure, Except.pure, Except.ok.injEq, Prod.mk.injEq] at h
      exact ⟨#[], by simp [h.2]⟩
    · simp [throw, throwThe, MonadExceptOf.throw] at h
  | succ fuel ih =>
    intro q idx acc v q' h
    simp only [readOverflowLoop] at h
    split at h
    · simp only [pure, Except.pure, Except.ok.injEq, Prod.mk.injEq] at h
      exact ⟨#[], by simp [h.2]⟩
    · split at h
      · simp [bind, Except.bind, throw, throwThe, MonadExceptOf.throw] at h
      · simp only [bind, Except.bind, pure, Except.pure] at h
        split at h
        · simp [throw, throwThe, MonadExceptOf.throw] at h
        · rename_i pg hp
          cases hd : decodeOverflowPage pg with
          | error e => rw [hd] at h; cases h
          | ok r =>
            obtain ⟨pns, bytes⟩ := r
            rw [hd] at h
            simp only at h
            obtain ⟨r, hr⟩ := ih _ _ _ _ _ h
            exact ⟨pns.toArray ++ r, by rw [hr, Array.append_assoc]⟩

theorem readOverflowLoop_frame (A B : ByteArray) (bump : Nat) :
    ∀ (fuel : Nat) (q : Array Nat) (idx : Nat) (acc v : ByteArray) (q' : Array Nat),
      readOverflowLoop A bump fuel q idx acc = .ok (v, q') → (∀ p, p ∈ q' → pageOf B p = pageOf A p) →
      readOverflowLoop B bump fuel q idx acc = .ok (v, q') := by
  intro fuel
  induction fuel with
  | zero =>
    intro q idx acc v q' h _
    simpa only [readOverflowLoop] using h
  | succ fuel ih =>
    intro q idx acc v q' h hag
    obtain ⟨r, hr⟩ := readOverflowLoop_prefix A bump _ _ _ _ _ _ h
    simp only [readOverflowLoop] at h ⊢
    by_cases hi : idx ≥ q.size
    · simpa only [hi, if_true] using h
    · simp only [hi, if_false] at h ⊢
      have hmem : q[idx]! ∈ q' := by
        have hlt : idx < q.size := Nat.not_le.1 hi
        rw [hr]
        apply Array.mem_append_left
        rw [getElem!_pos q idx hlt]
        exact Array.getElem_mem hlt
      rw [hag _ hmem]
      split at h
      · simp [bind, Except.bind, throw, throwThe, MonadExceptOf.throw] at h
      · rename_i hrange
        simp only [hrange, if_false, bind, Except.bind, pure, Except.pure] at h ⊢
        cases hp : pageOf A q[idx]! with
        | none => rw [hp] at h; simp [throw, throwThe, MonadExceptOf.throw] at h
        | some pg =>
          rw [hp] at h
          simp only at h ⊢
          cases hd : decodeOverflowPage pg with
          | error e => rw [hd] at h; cases h
          | ok r =>
            obtain ⟨pns, bytes⟩ := r
            rw [hd] at h
            simp only at h ⊢
            exact ih _ _ _ _ _ h hag

theorem readOverflowValue_frame (A B : ByteArray) (bump : Nat) (cell v : ByteArray) (pages : List Nat)
    (h : readOverflowValue A bump cell = .ok (v, pages)) (hag : ∀ p ∈ pages, pageOf B p = pageOf A p) :
    readOverflowValue B bump cell = .ok (v, pages) := by
  unfold readOverflowValue at h ⊢
  cases hc : decodeOverflowCell cell with
  | none => rw [hc] at h; simp [bind, Except.bind, throw, throwThe, MonadExceptOf.throw] at h
  | some c =>
    rw [hc] at h
    simp only [bind, Except.bind, pure, Except.pure] at h ⊢
    by_cases h1 : c.valueSize > MAX_OVERFLOW_VALUE_SIZE
    · simp [h1, throw, throwThe, MonadExceptOf.throw] at h
    · simp only [h1, if_false] at h ⊢
      by_cases h2 : c.valueSize ≤ MAX_LEAF_VALUE_SIZE
      · simp [h2, throw, throwThe, MonadExceptOf.throw] at h
      · simp only [h2, if_false] at h ⊢
        cases hl : readOverflowLoop A bump bump c.pages.toArray 0 ByteArray.empty with
        | error e => rw [hl] at h; cases h
        | ok r =>
          obtain ⟨v', q'⟩ := r
          rw [hl] at h
          simp only at h
          by_cases h3 : (v'.size != c.valueSize) = true
          · simp [h3, throw, throwThe, MonadExceptOf.throw] at h
          · simp only [h3, Bool.false_eq_true, if_false] at h
            by_cases h4 : (q'.size != totalNeededPages c.valueSize) = true
            · simp [h4, throw, throwThe, MonadExceptOf.throw] at h
            · simp only [h4, Bool.false_eq_true, if_false] at h
              by_cases h5 : (c.pages.length != min (totalNeededPages c.valueSize) MAX_OVERFLOW_CELL_NODE_POINTERS) = true
              · simp [h5, throw, throwThe, MonadExceptOf.throw] at h
              · simp only [h5, Bool.false_eq_true, if_false, Except.ok.injEq, Prod.mk.injEq] at h
                obtain ⟨rfl, rfl⟩ := h
                have := readOverflowLoop_frame A B bump bump _ _ _ _ _ hl (fun p hp => hag p (Array.mem_toList_iff.2 hp))
                rw [this]
                simp only [h3, h4, h5, Bool.false_eq_true, if_false]

/-! ## the reserved page 0 -/

theorem allZero_page0 (f pg : ByteArray) (h : pageOf f 0 = some pg) : allZero f 0 PAGE = allZero pg 0 PAGE := by
  unfold pageOf at h
  split at h
  · rename_i hs
    simp only [Nat.zero_mul, Nat.zero_add, Nat.one_mul, Option.some.injEq] at h hs
    subst h
    unfold allZero
    have key : ∀ i, i ∈ List.range PAGE → ((f.get! (0 + i) == 0) = ((f.extract 0 PAGE).get! (0 + i) == 0)) := by
      intro i hi
      have hi' : i < PAGE := List.mem_range.1 hi
      have hsz : i < (f.extract 0 PAGE).size := by rw [ByteArray.size_extract]; omega
      have e1 : (f.extract 0 PAGE).get! (0 + i) = (f.extract 0 PAGE)[i] := by
        simp only [Nat.zero_add]
        show (f.extract 0 PAGE).data[i]! = _
        rw [getElem!_pos _ i (by simpa using hsz)]
        rfl
      have e2 : f.get! (0 + i) = f[i]'(by omega) := by
        simp only [Nat.zero_add]
        show f.data[i]! = _
        rw [getElem!_pos _ i (by simp; omega)]
        rfl
      rw [e1, e2, ByteArray.getElem_extract]
      simp
    rw [Bool.eq_iff_iff, List.all_eq_true, List.all_eq_true]
    constructor
    · intro h i hi; rw [← key i hi]; exact h i hi
    · intro h i hi; rw [key i hi]; exact h i hi
  · cases h

end Nomt.Store
