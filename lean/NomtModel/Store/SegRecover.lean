import NomtModel.Store.SegOpenMain
/-!
# Recovery is idempotent under interruption

`Recoverable s e i0 a d`: the hypotheses of `open_ok`.  Removing dead files (all records `< s`) from the front, dead
files (all records `> e`) from the back, and cutting the head after `e` keep a directory recoverable with the same
live records (`trim`, `cutLast`); every prefix of the effects of `open` is such a change (`recover_prefix`), hence
recovery interrupted at any effect — to any depth — and run again returns the same records (`recover_nested`).
-/
namespace Nomt.Seg

structure Recoverable (s e i0 a : Nat) (d : Dir) : Prop where
  hs : 0 < s
  hse : s ≤ e
  hi : 0 < i0
  hseg : SegIdsFrom i0 d
  hrec : RecsFrom e a d
  hae : a ≤ e
  heb : e < a + (flatRecs d).length

def liveOf (s e : Nat) (d : Dir) : List Rec := (flatRecs d).filter (live s e)

theorem filter_live_nil_lt (s e : Nat) (l : List Rec) (h : ∀ r ∈ l, r.id < s) : l.filter (live s e) = [] := by
  rw [List.filter_eq_nil_iff]
  intro r hr
  have := h r hr
  simp [live]; omega

theorem filter_live_nil_gt (s e : Nat) (l : List Rec) (h : ∀ r ∈ l, e < r.id) : l.filter (live s e) = [] := by
  rw [List.filter_eq_nil_iff]
  intro r hr
  have := h r hr
  simp [live]; omega

/-- dropping dead files at both ends -/
theorem trim (s e i0 a : Nat) (d A B C : Dir) (R : Recoverable s e i0 a d) (hd : d = A ++ B ++ C)
    (hA : ∀ r ∈ flatRecs A, r.id < s) (hC : ∀ r ∈ flatRecs C, e < r.id)
    (h1 : a + (flatRecs A).length ≤ e) (h2 : e < a + (flatRecs A).length + (flatRecs B).length) :
    Recoverable s e (i0 + A.length) (a + (flatRecs A).length) B ∧ liveOf s e B = liveOf s e d := by
  have hBne : B ≠ [] := by
    intro hB
    rw [hB] at h2
    have : (flatRecs ([] : Dir)).length = 0 := rfl
    omega
  have hseg := R.hseg
  rw [hd, List.append_assoc, segIdsFrom_append] at hseg
  have hsegB := ((segIdsFrom_append B C _).mp hseg.2).1
  have hrec := R.hrec
  rw [hd, List.append_assoc] at hrec
  have hrecBC := (recsFrom_append e A (B ++ C) a hrec (by simp [hBne])).2.2
  have hrecB := recsFrom_prefix e B C _ hrecBC
  refine ⟨⟨R.hs, R.hse, by have := R.hi; omega, hsegB, hrecB, h1, h2⟩, ?_⟩
  simp only [liveOf, hd, flatRecs_append, List.filter_append, filter_live_nil_lt s e _ hA,
    filter_live_nil_gt s e _ hC, List.nil_append, List.append_nil]

theorem flatRecs_single (x : Nat × SegFile) : flatRecs [x] = x.2.recs := by simp [flatRecs]

theorem idsFrom_take : ∀ (l : List Rec) (nx m : Nat), IdsFrom nx l → IdsFrom nx (l.take m)
  | [], _, _, _ => by simp [IdsFrom]
  | _ :: _, _, 0, _ => by simp [IdsFrom]
  | x :: l, nx, m + 1, h => ⟨h.1, idsFrom_take l (nx + 1) m h.2⟩

theorem recsFrom_cut_last (e : Nat) : ∀ (M : Dir) (y : Nat × SegFile) (nx m : Nat), RecsFrom e nx (M ++ [y]) →
    RecsFrom e nx (M ++ [(y.1, { recs := y.2.recs.take m, torn := none })])
  | [], y, nx, m, h => by
    obtain ⟨h1, _, _, _⟩ := h
    exact ⟨idsFrom_take _ _ _ h1, by simp, trivial, trivial⟩
  | x :: M, y, nx, m, h => by
    obtain ⟨h1, h2, h3, h4⟩ := h
    exact ⟨h1, fun _ => h2 (by simp), h3, recsFrom_cut_last e M y _ m h4⟩

/-- cutting the head after `e` -/
theorem cutLast (s e i0 a : Nat) (M : Dir) (y : Nat × SegFile) (R : Recoverable s e i0 a (M ++ [y]))
    (h1 : a + (flatRecs M).length ≤ e) :
    Recoverable s e i0 a (liveDir M y (e - (a + (flatRecs M).length) + 1)) ∧
      liveOf s e (liveDir M y (e - (a + (flatRecs M).length) + 1)) = liveOf s e (M ++ [y]) := by
  have hb := R.heb
  simp only [flatRecs_append, List.length_append] at hb
  have hylen : (flatRecs [y]).length = y.2.recs.length := by rw [flatRecs_single]
  rw [hylen] at hb
  have hm : e - (a + (flatRecs M).length) + 1 ≤ y.2.recs.length := by omega
  have hseg : SegIdsFrom i0 (liveDir M y (e - (a + (flatRecs M).length) + 1)) := by
    have := R.hseg
    unfold liveDir
    rw [segIdsFrom_append] at this ⊢
    exact ⟨this.1, this.2.1, trivial⟩
  have hyids : IdsFrom (a + (flatRecs M).length) y.2.recs :=
    (recsFrom_append e M [y] a R.hrec (by simp)).2.2.1
  refine ⟨⟨R.hs, R.hse, R.hi, hseg, recsFrom_cut_last e M y a _ R.hrec, R.hae, ?_⟩, ?_⟩
  · simp only [liveDir, flatRecs_append, List.length_append]
    have : (flatRecs [(y.1, ({ recs := y.2.recs.take (e - (a + (flatRecs M).length) + 1), torn := none } : SegFile))]).length
        = e - (a + (flatRecs M).length) + 1 := by
      rw [flatRecs_single]; simp only [List.length_take]; omega
    rw [this]; omega
  · simp only [liveOf, liveDir, flatRecs_append, List.filter_append]
    congr 1
    have hsplit : y.2.recs = y.2.recs.take (e - (a + (flatRecs M).length) + 1) ++
        y.2.recs.drop (e - (a + (flatRecs M).length) + 1) := (List.take_append_drop _ _).symm
    have hdead : ∀ r ∈ y.2.recs.drop (e - (a + (flatRecs M).length) + 1), e < r.id := by
      intro r hr
      rw [hsplit, idsFrom_append] at hyids
      have := idsFrom_mem _ _ hyids.2 r hr
      simp only [List.length_take] at this
      omega
    rw [flatRecs_single, flatRecs_single]
    conv => rhs; rw [hsplit, List.filter_append, filter_live_nil_gt s e _ hdead, List.append_nil]

theorem unlink_front (i : Nat) (A R : Dir) (h : SegIdsFrom i (A ++ R)) :
    applyEffs (A ++ R) (A.map (fun x => FsEff.unlink x.1)) = R := by
  have : A.map (fun x => FsEff.unlink x.1) = (A.map (·.1)).map FsEff.unlink := by simp [Function.comp_def]
  rw [this, applyEffs_unlinks]
  exact filter_drop_left i A R h

theorem unlink_back (i : Nat) (R B : Dir) (h : SegIdsFrom i (R ++ B)) :
    applyEffs (R ++ B) (B.reverse.map (fun x => FsEff.unlink x.1)) = R := by
  have : B.reverse.map (fun x => FsEff.unlink x.1) = (B.reverse.map (·.1)).map FsEff.unlink := by
    simp [Function.comp_def]
  rw [this, applyEffs_unlinks]
  exact filter_drop_right i R B _ (by intro j; simp) h

theorem flatRecs_take_le (P : Dir) (k : Nat) : (flatRecs (P.take k)).length ≤ (flatRecs P).length := by
  conv => rhs; rw [← List.take_append_drop k P, flatRecs_append, List.length_append]
  omega

theorem mem_flatRecs_take (P : Dir) (k : Nat) (r : Rec) (h : r ∈ flatRecs (P.take k)) : r ∈ flatRecs P := by
  rw [← List.take_append_drop k P, flatRecs_append]
  exact List.mem_append_left _ h

theorem mem_flatRecs_drop (P : Dir) (k : Nat) (r : Rec) (h : r ∈ flatRecs (P.drop k)) : r ∈ flatRecs P := by
  rw [← List.take_append_drop k P, flatRecs_append]
  exact List.mem_append_right _ h

/-- every prefix of the effects of `open` leaves a recoverable directory with the same live records -/
theorem recover_prefix (maxSeg s e i0 a : Nat) (d : Dir) (R : Recoverable s e i0 a d) (k : Nat) :
    ∃ i0' a', Recoverable s e i0' a' (applyEffs d ((openM maxSeg s e d).effs.take k)) ∧
      liveOf s e (applyEffs d ((openM maxSeg s e d).effs.take k)) = liveOf s e d := by
  obtain ⟨P, D, T, y, ny, hd, hPdead, hTdead, hny, hnye, hey, heffs, _, _⟩ :=
    open_ok maxSeg s e i0 a d R.hs R.hse R.hi R.hseg R.hrec R.hae R.heb
  rw [heffs]
  have hseg := R.hseg
  have hflatPD : (flatRecs (P ++ D)).length = (flatRecs P).length + (flatRecs D).length := by
    rw [flatRecs_append, List.length_append]
  have hflatDy : (flatRecs (D ++ [y])).length = (flatRecs D).length + y.2.recs.length := by
    rw [flatRecs_append, List.length_append, flatRecs_single]
  by_cases hk1 : k ≤ P.length
  · -- some of the files below the live range are gone
    have htake : (P.map (fun x => FsEff.unlink x.1) ++ T.reverse.map (fun x => FsEff.unlink x.1) ++
        [FsEff.setLen y.1 (recsSize (y.2.recs.take (e - ny + 1))), FsEff.fsync y.1]).take k
        = (P.take k).map (fun x => FsEff.unlink x.1) := by
      rw [List.append_assoc, List.take_append_of_le_length (by simpa using hk1), List.map_take]
    rw [htake]
    have hP : P = P.take k ++ P.drop k := (List.take_append_drop k P).symm
    have hd2 : d = P.take k ++ (P.drop k ++ (D ++ [y]) ++ T) := by
      calc d = P ++ (D ++ [y]) ++ T := hd
        _ = (P.take k ++ P.drop k) ++ (D ++ [y]) ++ T := by rw [← hP]
        _ = _ := by simp only [List.append_assoc]
    have himg : applyEffs d ((P.take k).map (fun x => FsEff.unlink x.1)) = P.drop k ++ (D ++ [y]) ++ T := by
      rw [hd2]; exact unlink_front i0 _ _ (hd2 ▸ hseg)
    rw [himg]
    have hle := flatRecs_take_le P k
    obtain ⟨R', hl⟩ := trim s e i0 a d (P.take k) (P.drop k ++ (D ++ [y]) ++ T) [] R (by rw [hd2]; simp)
      (fun r hr => hPdead r (mem_flatRecs_take P k r hr)) (by intro r hr; cases hr)
      (by omega)
      (by
        have hb := R.heb
        rw [hd2, flatRecs_append, List.length_append] at hb
        omega)
    exact ⟨_, _, R', hl⟩
  · by_cases hk2 : k ≤ P.length + T.length
    · -- all files below, some files above the live range are gone
      have htake : (P.map (fun x => FsEff.unlink x.1) ++ T.reverse.map (fun x => FsEff.unlink x.1) ++
          [FsEff.setLen y.1 (recsSize (y.2.recs.take (e - ny + 1))), FsEff.fsync y.1]).take k
          = P.map (fun x => FsEff.unlink x.1) ++ ((T.drop (T.length - (k - P.length))).reverse).map (fun x => FsEff.unlink x.1) := by
        rw [List.take_append_of_le_length (by simp; omega), List.take_append,
          List.take_of_length_le (by simp; omega)]
        simp only [List.length_map, ← List.map_take, List.take_reverse]
      rw [htake, applyEffs_append]
      have hd2 : d = P ++ ((D ++ [y]) ++ T) := by rw [hd]; simp
      have himg1 : applyEffs d (P.map (fun x => FsEff.unlink x.1)) = (D ++ [y]) ++ T := by
        rw [hd2]; exact unlink_front i0 _ _ (hd2 ▸ hseg)
      rw [himg1]
      have hsegLT : SegIdsFrom (i0 + P.length) ((D ++ [y]) ++ T) := ((segIdsFrom_append P _ i0).mp (hd2 ▸ hseg)).2
      have hT : T = T.take (T.length - (k - P.length)) ++ T.drop (T.length - (k - P.length)) :=
        (List.take_append_drop _ _).symm
      have himg2 : applyEffs ((D ++ [y]) ++ T) (((T.drop (T.length - (k - P.length))).reverse).map (fun x => FsEff.unlink x.1))
          = (D ++ [y]) ++ T.take (T.length - (k - P.length)) := by
        have h3 : (D ++ [y]) ++ T = ((D ++ [y]) ++ T.take (T.length - (k - P.length))) ++ T.drop (T.length - (k - P.length)) := by
          conv => lhs; rw [hT]
          simp
        rw [h3]
        exact unlink_back (i0 + P.length) _ _ (h3 ▸ hsegLT)
      rw [himg2]
      obtain ⟨R', hl⟩ := trim s e i0 a d P ((D ++ [y]) ++ T.take (T.length - (k - P.length)))
        (T.drop (T.length - (k - P.length))) R
        (by rw [hd]; conv => lhs; rw [hT]
            simp)
        hPdead (fun r hr => hTdead r (mem_flatRecs_drop T _ r hr))
        (by omega)
        (by rw [flatRecs_append, List.length_append, hflatDy]; omega)
      exact ⟨_, _, R', hl⟩
    · -- the head has been cut as well
      have hk3 : P.length + T.length + 1 ≤ k := by omega
      have himgeq : applyEffs d ((P.map (fun x => FsEff.unlink x.1) ++ T.reverse.map (fun x => FsEff.unlink x.1) ++
          [FsEff.setLen y.1 (recsSize (y.2.recs.take (e - ny + 1))), FsEff.fsync y.1]).take k)
          = liveDir D y (e - ny + 1) := by
        have hlenE : (P.map (fun x => FsEff.unlink x.1) ++ T.reverse.map (fun x => FsEff.unlink x.1)).length
            = P.length + T.length := by simp
        rw [List.take_append, List.take_of_length_le (by rw [hlenE]; omega), hlenE, applyEffs_append, applyEffs_append]
        have hd2 : d = P ++ ((D ++ [y]) ++ T) := by rw [hd]; simp
        have himg1 : applyEffs d (P.map (fun x => FsEff.unlink x.1)) = (D ++ [y]) ++ T := by
          rw [hd2]; exact unlink_front i0 _ _ (hd2 ▸ hseg)
        have hsegLT : SegIdsFrom (i0 + P.length) ((D ++ [y]) ++ T) := ((segIdsFrom_append P _ i0).mp (hd2 ▸ hseg)).2
        have himg2 : applyEffs ((D ++ [y]) ++ T) (T.reverse.map (fun x => FsEff.unlink x.1)) = D ++ [y] :=
          unlink_back _ _ _ hsegLT
        rw [himg1, himg2]
        have hsegL : SegIdsFrom (i0 + P.length) (D ++ [y]) := ((segIdsFrom_append _ T _).mp hsegLT).1
        have hm : e - ny + 1 ≤ y.2.recs.length := by omega
        have hset : applyEff (D ++ [y]) (FsEff.setLen y.1 (recsSize (y.2.recs.take (e - ny + 1)))) = liveDir D y (e - ny + 1) := by
          simp only [applyEff]
          rw [updFile_last _ D y _ hsegL, setLen_at_boundary y.2 _ hm]
          rfl
        obtain ⟨k3, hk3'⟩ : ∃ k3, k - (P.length + T.length) = k3 + 1 := ⟨k - (P.length + T.length) - 1, by omega⟩
        rw [hk3']
        cases k3 with
        | zero => simp [applyEffs, hset]
        | succ k3 =>
          have : ([FsEff.setLen y.1 (recsSize (y.2.recs.take (e - ny + 1))), FsEff.fsync y.1]).take (k3 + 1 + 1)
              = [FsEff.setLen y.1 (recsSize (y.2.recs.take (e - ny + 1))), FsEff.fsync y.1] := by simp
          rw [this]
          simp only [applyEffs, List.foldl_cons, List.foldl_nil, hset]
          rfl
      rw [himgeq]
      obtain ⟨R1, hl1⟩ := trim s e i0 a d P (D ++ [y]) T R hd hPdead hTdead (by omega)
        (by rw [hflatDy]; omega)
      obtain ⟨R2, hl2⟩ := cutLast s e (i0 + P.length) (a + (flatRecs P).length) D y R1 (by omega)
      have hmeq : e - (a + (flatRecs P).length + (flatRecs D).length) + 1 = e - ny + 1 := by omega
      rw [hmeq] at R2 hl2
      exact ⟨_, _, R2, by rw [hl2, hl1]⟩

/-- `open` on a recoverable directory: success and exactly the live records -/
theorem open_recoverable (maxSeg s e i0 a : Nat) (d : Dir) (R : Recoverable s e i0 a d) :
    ∃ L, (openM maxSeg s e d).out = .ok (L, liveOf s e d) ∧ L.startLive = s ∧ L.endLive = e := by
  obtain ⟨P, D, T, y, ny, _, _, _, _, _, _, _, _, hout⟩ :=
    open_ok maxSeg s e i0 a d R.hs R.hse R.hi R.hseg R.hrec R.hae R.heb
  exact ⟨_, hout, rfl, rfl⟩

/-- directories reachable by recoveries interrupted at arbitrary effects, to any depth -/
inductive Interrupted (maxSeg s e : Nat) : Dir → Dir → Prop
  | refl (d : Dir) : Interrupted maxSeg s e d d
  | step (d d' : Dir) (k : Nat) : Interrupted maxSeg s e d d' →
      Interrupted maxSeg s e d (applyEffs d' ((openM maxSeg s e d').effs.take k))

theorem recover_nested (maxSeg s e i0 a : Nat) (d d' : Dir) (R : Recoverable s e i0 a d)
    (h : Interrupted maxSeg s e d d') :
    ∃ i0' a', Recoverable s e i0' a' d' ∧ liveOf s e d' = liveOf s e d := by
  induction h with
  | refl => exact ⟨i0, a, R, rfl⟩
  | step d' k _ ih =>
    obtain ⟨i1, a1, R1, hl1⟩ := ih
    obtain ⟨i2, a2, R2, hl2⟩ := recover_prefix maxSeg s e i1 a1 d' R1 k
    exact ⟨i2, a2, R2, by rw [hl2, hl1]⟩

end Nomt.Seg
