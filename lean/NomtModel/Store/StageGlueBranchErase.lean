import NomtModel.Store.StageGlueErase
import NomtModel.Store.BranchUpdRelease
/-!
# The instrumented branch worker: erasure and bookkeeping (the branch twin of `Store/StageGlueErase.lean`)
-/
namespace Nomt.StageGlue
open Nomt
open Nomt.BranchUpd (DbNode OutNode Produced Node KF)

/-! ## erasure -/

theorem resetToB_r (key : Nat) (x : BRun) : (resetToB key x).r = BranchUpd.resetTo key x.r := by
  unfold resetToB
  split
  · split <;> rfl
  · rfl

theorem scopeLoopB_erase (kf : KF) (key : Nat) : ∀ (fuel : Nat) (x : BRun),
    (scopeLoopB kf key fuel x).map (·.r) = BranchUpd.scopeLoop kf key fuel x.r
  | 0, _ => rfl
  | fuel + 1, x => by
    unfold scopeLoopB BranchUpd.scopeLoop
    by_cases hs : BranchUpd.inScope x.r.st key
    · simp [hs]
    · simp only [hs, Bool.false_eq_true, if_false]
      cases hd : BranchUpd.digest kf x.r.st with
      | none => rfl
      | some t =>
        obtain ⟨st', nodes, res⟩ := t
        simp only []
        rw [scopeLoopB_erase kf key fuel, resetToB_r]
        rfl

theorem runChangesB_erase (kf : KF) : ∀ (cs : List (Nat × Option Nat)) (x : BRun),
    (runChangesB kf cs x).map (·.r) = BranchUpd.runChanges kf cs x.r
  | [], _ => rfl
  | (key, pn) :: cs, x => by
    unfold runChangesB BranchUpd.runChanges
    have h := scopeLoopB_erase kf key (x.r.rest.length + 1) x
    cases h1 : scopeLoopB kf key (x.r.rest.length + 1) x with
    | none => rw [h1] at h; simp only [Option.map_none] at h; rw [← h]; rfl
    | some x1 =>
      rw [h1] at h; simp only [Option.map_some] at h; rw [← h]
      simp only []
      cases hi : BranchUpd.ingest kf x1.r.st key pn with
      | none => rfl
      | some st => exact runChangesB_erase kf cs _

theorem finishLoopB_erase (kf : KF) (hseed : kf.seeded ≠ 1) : ∀ (fuel : Nat) (x : BRun),
    (finishLoopB kf fuel x).map (·.r) = BranchUpd.finishLoop kf fuel x.r
  | 0, _ => rfl
  | fuel + 1, x => by
    unfold finishLoopB BranchUpd.finishLoop
    cases hd : BranchUpd.digest kf x.r.st with
    | none => rfl
    | some t =>
      obtain ⟨st', nodes, res⟩ := t
      simp only []
      cases res with
      | finished => rfl
      | needsMerge c =>
        simp only [hseed, if_false]
        rw [finishLoopB_erase kf hseed fuel, resetToB_r]
        rfl

/-- **erasure**: the instrumented branch worker ends iff `BranchUpd.runWorker` does, in the same run state -/
theorem branchWorker_erase (kf : KF) (hseed : kf.seeded ≠ 1) (db : List DbNode) (k : Nat) (pn : Option Nat)
    (cs : List (Nat × Option Nat)) :
    (branchWorker kf db ((k, pn) :: cs)).map (fun x => (x.r.out ++ x.r.rest.map .old, x.r.released)) =
      BranchUpd.runWorker kf db ((k, pn) :: cs) := by
  unfold branchWorker BranchUpd.runWorker
  simp only []
  have h := runChangesB_erase kf ((k, pn) :: cs) (resetToB k { r := { rest := db } })
  rw [resetToB_r] at h
  cases h1 : runChangesB kf ((k, pn) :: cs) (resetToB k { r := { rest := db } }) with
  | none => rw [h1] at h; simp only [Option.map_none] at h; rw [← h]; rfl
  | some x1 =>
    rw [h1] at h; simp only [Option.map_some] at h; rw [← h]
    simp only []
    have h2 := finishLoopB_erase kf hseed (x1.r.rest.length + 1) x1
    cases h3 : finishLoopB kf (x1.r.rest.length + 1) x1 with
    | none => rw [h3] at h2; simp only [Option.map_none] at h2; rw [← h2]; rfl
    | some x2 => rw [h3] at h2; simp only [Option.map_some] at h2; rw [← h2]; rfl

/-! ## bookkeeping -/

def oldsOfB : List OutNode → List DbNode
  | [] => []
  | .old l :: t => l :: oldsOfB t
  | .new _ :: t => oldsOfB t

def newsOfB : List OutNode → List Produced
  | [] => []
  | .old _ :: t => newsOfB t
  | .new l :: t => l :: newsOfB t

theorem oldsOfB_append (a b : List OutNode) : oldsOfB (a ++ b) = oldsOfB a ++ oldsOfB b := by
  induction a with
  | nil => rfl
  | cons x t ih => cases x <;> simp [oldsOfB, ih]
theorem newsOfB_append (a b : List OutNode) : newsOfB (a ++ b) = newsOfB a ++ newsOfB b := by
  induction a with
  | nil => rfl
  | cons x t ih => cases x <;> simp [newsOfB, ih]
theorem oldsOfB_old (l : List DbNode) : oldsOfB (l.map OutNode.old) = l := by
  induction l with
  | nil => rfl
  | cons x t ih => simp [oldsOfB, ih]
theorem newsOfB_old (l : List DbNode) : newsOfB (l.map OutNode.old) = [] := by
  induction l with
  | nil => rfl
  | cons x t ih => simp [newsOfB, ih]
theorem oldsOfB_new (l : List Produced) : oldsOfB (l.map OutNode.new) = [] := by
  induction l with
  | nil => rfl
  | cons x t ih => simp [oldsOfB, ih]
theorem newsOfB_new (l : List Produced) : newsOfB (l.map OutNode.new) = l := by
  induction l with
  | nil => rfl
  | cons x t ih => simp [newsOfB, ih]

theorem delsOf_insB (l : List Produced) : delsOf (l.map fun p => Ev.ins p.sep p.node p.cutoff) = [] := by
  induction l with
  | nil => rfl
  | cons x t ih => simp [delsOf, ih]
theorem insOf_insB (l : List Produced) :
    insOf (l.map fun p => Ev.ins p.sep p.node p.cutoff) = l.map fun p => (p.sep, p.node) := by
  induction l with
  | nil => rfl
  | cons x t ih => simp [insOf, ih]

/-- bookkeeping invariant of the instrumented branch run relative to the old index `db` -/
structure BookB (db : List DbNode) (x : BRun) : Prop where
  dels : ∃ consumed : List DbNode, delsOf x.evs = consumed.map (fun l => (l.sep, l.bbn)) ∧
    (consumed ++ (oldsOfB x.r.out ++ x.r.rest)).Perm db
  ins : insOf x.evs = (newsOfB x.r.out).map fun p => (p.sep, p.node)

theorem BookB.resetToB {db : List DbNode} {x : BRun} (h : BookB db x) (key : Nat) : BookB db (resetToB key x) := by
  obtain ⟨⟨consumed, h1, h2⟩, h3⟩ := h
  have happ := BranchUpd.skipTo_append key x.r.rest
  unfold StageGlue.resetToB BranchUpd.resetTo
  cases hsk : BranchUpd.skipTo key x.r.rest with
  | mk skipped tl =>
    rw [hsk] at happ
    simp only at happ
    cases tl with
    | nil => exact ⟨⟨consumed, h1, h2⟩, h3⟩
    | cons l rest' =>
      simp only []
      by_cases hle : l.sep ≤ key
      · simp only [hle, if_true]
        refine ⟨⟨consumed ++ [l], ?_, ?_⟩, ?_⟩
        · simp [delsOf_append, delsOf, h1]
        · simp only [oldsOfB_append, oldsOfB_old]
          refine List.Perm.trans ?_ h2
          rw [← happ]
          simp only [List.append_assoc]
          refine List.Perm.append_left _ ?_
          refine List.Perm.trans (List.perm_append_comm_assoc _ _ _) ?_
          refine List.Perm.append_left _ ?_
          simpa using (List.perm_middle (a := l) (l₁ := skipped) (l₂ := rest')).symm
        · simp [insOf_append, insOf, h3, newsOfB_append, newsOfB_old]
      · simp only [hle, if_false]
        exact ⟨⟨consumed, h1, h2⟩, h3⟩

theorem BookB.afterDigestB {db : List DbNode} {x : BRun} (h : BookB db x) (st' : BranchUpd.St) (nodes : List Produced) :
    BookB db (afterDigestB x st' nodes) := by
  obtain ⟨⟨consumed, h1, h2⟩, h3⟩ := h
  refine ⟨⟨consumed, ?_, ?_⟩, ?_⟩
  · simp [StageGlue.afterDigestB, delsOf_append, delsOf_insB, h1]
  · simpa [StageGlue.afterDigestB, oldsOfB_append, oldsOfB_new] using h2
  · simp [StageGlue.afterDigestB, insOf_append, insOf_insB, h3, newsOfB_append, newsOfB_new]

theorem scopeLoopB_book {db : List DbNode} (kf : KF) (key : Nat) :
    ∀ (fuel : Nat) (x x' : BRun), BookB db x → scopeLoopB kf key fuel x = some x' → BookB db x'
  | 0, _, _, _, h => by simp [scopeLoopB] at h
  | fuel + 1, x, x', hb, h => by
    unfold scopeLoopB at h
    by_cases hs : BranchUpd.inScope x.r.st key
    · simp only [hs, if_true, Option.some.injEq] at h; subst h; exact hb
    · simp only [hs, Bool.false_eq_true, if_false] at h
      cases hd : BranchUpd.digest kf x.r.st with
      | none => rw [hd] at h; cases h
      | some t =>
        obtain ⟨st', nodes, res⟩ := t
        rw [hd] at h
        exact scopeLoopB_book kf key fuel _ x' ((hb.afterDigestB st' nodes).resetToB _) h

theorem runChangesB_book {db : List DbNode} (kf : KF) :
    ∀ (cs : List (Nat × Option Nat)) (x x' : BRun), BookB db x → runChangesB kf cs x = some x' → BookB db x'
  | [], x, x', hb, h => by simp only [runChangesB, Option.some.injEq] at h; subst h; exact hb
  | (key, pn) :: cs, x, x', hb, h => by
    unfold runChangesB at h
    cases h1 : scopeLoopB kf key (x.r.rest.length + 1) x with
    | none => rw [h1] at h; cases h
    | some x1 =>
      rw [h1] at h
      have hb1 := scopeLoopB_book kf key _ x x1 hb h1
      simp only [] at h
      cases hi : BranchUpd.ingest kf x1.r.st key pn with
      | none => rw [hi] at h; cases h
      | some st =>
        rw [hi] at h
        refine runChangesB_book kf cs _ x' ?_ h
        exact ⟨hb1.dels, hb1.ins⟩

theorem finishLoopB_book {db : List DbNode} (kf : KF) :
    ∀ (fuel : Nat) (x x' : BRun), BookB db x → finishLoopB kf fuel x = some x' → BookB db x'
  | 0, _, _, _, h => by simp [finishLoopB] at h
  | fuel + 1, x, x', hb, h => by
    unfold finishLoopB at h
    cases hd : BranchUpd.digest kf x.r.st with
    | none => rw [hd] at h; cases h
    | some t =>
      obtain ⟨st', nodes, res⟩ := t
      rw [hd] at h
      cases res with
      | finished => simp only [Option.some.injEq] at h; subst h; exact hb.afterDigestB st' nodes
      | needsMerge c => exact finishLoopB_book kf fuel _ x' ((hb.afterDigestB st' nodes).resetToB _) h

theorem branchWorker_book (kf : KF) (db : List DbNode) (cs : List (Nat × Option Nat)) (x : BRun)
    (h : branchWorker kf db cs = some x) : BookB db x := by
  unfold branchWorker at h
  cases cs with
  | nil => cases h
  | cons c cs' =>
    obtain ⟨k, pn⟩ := c
    simp only [] at h
    have h0 : BookB db ({ r := { rest := db } } : BRun) := ⟨⟨[], rfl, by simp [oldsOfB]⟩, rfl⟩
    cases h1 : runChangesB kf ((k, pn) :: cs') (resetToB k { r := { rest := db } }) with
    | none => rw [h1] at h; cases h
    | some x1 =>
      rw [h1] at h
      exact finishLoopB_book kf _ x1 x (runChangesB_book kf _ _ x1 (h0.resetToB k) h1) h

end Nomt.StageGlue
