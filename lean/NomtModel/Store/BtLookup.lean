import NomtModel.Store.ImgCheck
import NomtModel.Core.MultiProof
import NomtModel.Core.Outcome
/-!
# The read path of the beatree at code level (C16 / C01): mirrors of

* `Index::lookup` (`OrdMap::get_prev`), `Index::next_key`, `Index::insert` — `nomt/src/beatree/index.rs`
  (the persistent map itself is not mirrored: the index is the ascending association list it denotes);
* `find_key_pos` (prefix shortcuts, then the `while low < high` binary search with `get_key`), `search_branch`,
  `partial_lookup` — `nomt/src/beatree/ops/mod.rs`;
* `LeafNode::get` (`slice::binary_search_by` over the cell pointers — the mirrored `binarySearchBy` of
  `Core/MultiProof.lean` —, then the cell) — `nomt/src/beatree/leaf/node.rs`.

Nodes are their decoded content (the decoders of `Store/ImgFormats.lean`; a branch node additionally keeps its raw
prefix bits, which `find_key_pos` compares the key with).  Keys are 256-bit numbers.  Every index expression, `unwrap`
and loop bound of the Rust code is an explicit `Outcome.panic`; loops take fuel.
-/
namespace Nomt.BtLookup
open Nomt Nomt.Store

/-- a bottom-level branch node as `find_key_pos` sees it -/
structure BNode where
  bbnPn : Nat
  /-- `prefix_len` -/
  pl : Nat
  /-- `prefix_compressed` -/
  pc : Nat
  /-- the `prefix_len` prefix bits stored in the page, as a number -/
  pfx : Nat
  /-- `(get_key(node, i), node_pointer(i))` -/
  seps : List (Nat × Nat)
deriving DecidableEq, Repr

/-- the first `n` bits of a 256-bit key -/
def top (k n : Nat) : Nat := k / 2 ^ (256 - n)

def decodeBNode (p : ByteArray) : Except String BNode := do
  let b ← decodeBranch p
  let n := u16le p 4
  pure { bbnPn := b.bbnPn, pl := b.prefixLen, pc := b.prefixCompressed,
         pfx := bitsNat p (BRANCH_HEADER + 2 * n) 0 b.prefixLen, seps := b.seps }

/-- the `while low < high` loop of `find_key_pos` -/
def fkpLoop (nd : BNode) (key : Nat) : Nat → Nat → Nat → Outcome Unit (Bool × Nat)
  | 0, _, _ => .panic "find_key_pos: fuel"
  | fuel + 1, low, high =>
    if low < high then
      let mid := low + (high - low) / 2
      match nd.seps[mid]? with
      | none => .panic "get_key: index out of bounds"
      | some (km, _) =>
        if key = km then .ok (true, mid)
        else if key < km then fkpLoop nd key fuel low mid
        else fkpLoop nd key fuel (mid + 1) high
    else .ok (false, high)

/-- `find_key_pos(branch, key, low)` -/
def findKeyPos (nd : BNode) (key : Nat) (low : Option Nat) : Outcome Unit (Bool × Nat) :=
  let n := nd.seps.length
  if nd.pl > 256 then .panic "key.view_bits()[..prefix.len()]" else
  let kp := top key nd.pl
  if kp < nd.pfx then .ok (false, 0)
  else if nd.pfx < kp ∧ n = nd.pc then .ok (false, n)
  else fkpLoop nd key (n + 1) (low.getD 0) n

/-- `search_branch(branch, key)`: `(index, leaf page number)` -/
def searchBranch (nd : BNode) (key : Nat) : Outcome Unit (Option (Nat × Nat)) :=
  match findKeyPos nd key none with
  | .ok (found, pos) =>
    if found then
      match nd.seps[pos]? with
      | some (_, pn) => .ok (some (pos, pn))
      | none => .panic "node_pointer: index out of bounds"
    else if pos = 0 then .ok none
    else
      match nd.seps[pos - 1]? with
      | some (_, pn) => .ok (some (pos - 1, pn))
      | none => .panic "node_pointer: index out of bounds"
  | .err e => .err e
  | .panic m => .panic m

/-- the index: `(key the node is stored under, node)`, ascending -/
abbrev Index := List (Nat × BNode)

/-- `Index::lookup` = `OrdMap::get_prev(&key)`: the entry with the greatest key `≤ key` -/
def Index.getPrev : Index → Nat → Option (Nat × BNode)
  | [], _ => none
  | (s, b) :: rest, key =>
    if key < s then none else
    match Index.getPrev rest key with
    | some r => some r
    | none => some (s, b)

/-- `Index::next_key`: the first key greater than `key` -/
def Index.nextKey (idx : Index) (key : Nat) : Option Nat := (idx.find? (fun e => decide (key < e.1))).map (·.1)

/-- `Index::insert` = `OrdMap::insert`: `(new map, was the key present)` -/
def Index.insert : Index → Nat → BNode → Index × Bool
  | [], k, b => ([(k, b)], false)
  | (s, b0) :: rest, k, b =>
    if k = s then ((k, b) :: rest, true)
    else if k < s then ((k, b) :: (s, b0) :: rest, false)
    else let r := Index.insert rest k b; ((s, b0) :: r.1, r.2)

/-- `partial_lookup(key, bbn_index)` -/
def partialLookup (idx : Index) (key : Nat) : Outcome Unit (Option Nat) :=
  match idx.getPrev key with
  | none => .ok none
  | some (_, b) =>
    match searchBranch b key with
    | .ok r => .ok (r.map (·.2))
    | .err e => .err e
    | .panic m => .panic m

/-- `Ord::cmp` of a cell pointer's key with the key -/
def cmpKey (key : Nat) (e : LeafEntry) : Outcome Unit Ordering :=
  .ok (if keyNat e.key < key then .lt else if key < keyNat e.key then .gt else .eq)

/-- `LeafNode::get(key)`: `(cell bytes, overflow flag)` -/
def leafGet (es : List LeafEntry) (key : Nat) : Outcome Unit (Option (ByteArray × Bool)) :=
  match binarySearchBy (cmpKey key) es with
  | .ok (.found i) =>
    match es[i]? with
    | some e => .ok (some (e.cell, e.overflow))
    | none => .panic "value_range: index out of bounds"
  | .ok (.notFound _) => .ok none
  | .err e => .err e
  | .panic m => .panic m

/-- strictly ascending first components -/
abbrev Asc (l : List (Nat × Nat)) : Prop := l.Pairwise (fun a b => a.1 < b.1)

/-- all `(separator, leaf page)` pairs of an index, in order -/
def Index.flat (idx : Index) : List (Nat × Nat) := idx.flatMap (·.2.seps)

end Nomt.BtLookup
