import NomtModel.Basic.Blake3
/-!
BLAKE3 for inputs of arbitrary length (chunks of 1024 bytes, binary tree of chaining values, per the
BLAKE3 specification §2.4–2.6), built on the compression function of `Basic/Blake3.lean`.
Executable only.  Validated against the Rust `blake3` crate by the image runs: every value decoded
from a real directory is hashed here and compared with the hash computed by the harness.
-/
namespace Nomt.Blake3

def CHUNK_START : UInt32 := 1
def CHUNK_END : UInt32 := 2
def PARENT : UInt32 := 4
def ROOT : UInt32 := 8

/-- 16 output words of the last compression of the chunk `input[off, off+len)` (`len ≤ 1024`) -/
def chunkOut (input : ByteArray) (off len : Nat) (counter : UInt64) (root : Bool) : Array UInt32 :=
  let nblocks := if len = 0 then 1 else (len + 63) / 64
  let rec go (i : Nat) (fuel : Nat) (cv : Array UInt32) : Array UInt32 :=
    match fuel with
    | 0 => cv
    | fuel+1 =>
      let last := i + 1 = nblocks
      let blen : Nat := if last then len - 64 * i else 64
      let blk : ByteArray := input.extract (off + 64 * i) (off + 64 * i + blen) ++ ⟨Array.replicate (64 - blen) 0⟩
      let flags : UInt32 := (if i = 0 then CHUNK_START else 0) ||| (if last then CHUNK_END else 0) |||
        (if last && root then ROOT else 0)
      let out := compress cv (wordsOfBlock blk 0) counter (UInt32.ofNat blen) flags
      if last then out else go (i+1) fuel (out.extract 0 8)
  go 0 nblocks IV

/-- largest power of two strictly below `n` (for `n ≥ 2`) -/
def leftChunks (n : Nat) : Nat := 2 ^ (Nat.log2 (n - 1))

/-- output words of the subtree over `input[off, off+len)` whose first chunk has index `chunk` -/
def subtreeOut (input : ByteArray) : (fuel : Nat) → (off len chunk : Nat) → (root : Bool) → Array UInt32
  | 0, off, len, chunk, root => chunkOut input off (min len 1024) (UInt64.ofNat chunk) root
  | fuel+1, off, len, chunk, root =>
    if len ≤ 1024 then chunkOut input off len (UInt64.ofNat chunk) root else
    let lc := leftChunks ((len + 1023) / 1024)
    let l := subtreeOut input fuel off (lc * 1024) chunk false
    let r := subtreeOut input fuel (off + lc * 1024) (len - lc * 1024) (chunk + lc) false
    compress IV (l.extract 0 8 ++ r.extract 0 8) 0 64 (PARENT ||| (if root then ROOT else 0))

/-- BLAKE3 hash (32 bytes) of an input of any length -/
def hashAny (input : ByteArray) : ByteArray :=
  let out := subtreeOut input 64 0 input.size 0 true
  (Array.range 8).foldl (fun acc i =>
    let w : UInt32 := out[i]!
    (((acc.push w.toUInt8).push (w >>> 8).toUInt8).push (w >>> 16).toUInt8).push (w >>> 24).toUInt8) ByteArray.empty

end Nomt.Blake3
