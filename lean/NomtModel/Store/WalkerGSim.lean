import NomtModel.Store.WalkerSim
import NomtModel.Store.WalkerAcct
import NomtModel.Store.WalkerModel
import NomtModel.Store.WalkerTreeRun3
import NomtModel.Core.TriePosReach
import NomtModel.Store.PageDiffLemmas
/-!
# The mirror of `PageWalker` simulates the tree walker

`Sim ps w a`: the mirror state `w` (position, stack of pages, root) and the tree-walker state `a` (path, flat store) agree:
the stack holds exactly the pages from the page of the position up to the parent page, and every slot of a page on the
stack holds what the flat store holds at the slot's path.  Every step of the mirror then (i) does not reach a panic site and
(ii) leads to a state that simulates the corresponding step of the tree walker.
-/
namespace Nomt.Walker.G
open Nomt Nomt.TriePos
open Nomt.Wal (PageDiff)

variable {Node VH : Type} [DecidableEq Node] [DecidableEq VH] (H : Hasher Node VH)

/-- the one panic site the generalised simulation does not exclude: the `try_into().unwrap()` of the counter arithmetic in
`handle_elision_threshold` (`new_parent_children_leaves_counter < 0`) -/
def GUARD : String := "handle_elision_threshold: try_into().unwrap()"

/-- the leaf counters of a stack entry, ANY origin: a page that carries a current counter carries a previous one (so
`prev_children_leaves_counter.unwrap()` cannot fail) -/
def CountersOK (sp : StackPage Node) : Prop :=
  sp.childrenLeaves.isSome = true → sp.prevChildrenLeaves.isSome = true

/-- the accounting of the counters of the pages on the stack against the pages left so far -/
def AcctInv (ps : PageSet Node) (w : Walker Node) (a : TW Node) : Prop :=
  ∀ sp ∈ w.stack, Acct ps (a.log.map (·.1)) sp

theorem AcctInv.cast {ps : PageSet Node} {w w' : Walker Node} {a a' : TW Node} (h : AcctInv ps w a)
    (e1 : w'.stack = w.stack) (e3 : a'.log = a.log) : AcctInv ps w' a' := by
  unfold AcctInv
  rw [e1, e3]; exact h

/-- **every slot written is named**: a slot the tree walker has written (`a.wl`) is named by the diff of its page — on the
stack, or handed out — unless its page was left without being handed out (an elided page that never had a bucket); and no
page is handed out twice -/
def NamedInv (w : Walker Node) (a : TW Node) : Prop :=
  (w.outputPages.map PageOut.pageId).Nodup ∧
  ∀ q ∈ a.wl, q ≠ [] →
    (∃ sp ∈ w.stack, sp.pageId = specPage q ∧ sp.diff.changed (specIndex q) = true) ∨
    (∃ o ∈ w.outputPages, o.pageId = specPage q ∧ o.diff.changed (specIndex q) = true) ∨
    (specPage q ∈ a.log.map (·.1) ∧ ∀ o ∈ w.outputPages, o.pageId ≠ specPage q)

theorem NamedInv.cast {w w' : Walker Node} {a a' : TW Node} (h : NamedInv w a)
    (e1 : w'.stack = w.stack) (e2 : w'.outputPages = w.outputPages) (e3 : a'.wl = a.wl) (e4 : a'.log = a.log) :
    NamedInv w' a' := by
  unfold NamedInv
  rw [e1, e2, e3, e4]; exact h

/-- more pages on the stack -/
theorem NamedInv.push {w w' : Walker Node} {a a' : TW Node} (h : NamedInv w a)
    (e1 : ∀ sp ∈ w.stack, sp ∈ w'.stack) (e2 : w'.outputPages = w.outputPages) (e3 : a'.wl = a.wl) (e4 : a'.log = a.log) :
    NamedInv w' a' := by
  unfold NamedInv
  rw [e2, e3, e4]
  refine ⟨h.1, ?_⟩
  intro q hq hne
  rcases h.2 q hq hne with ⟨sp, hsp, h1, h2⟩ | h'
  · exact Or.inl ⟨sp, e1 sp hsp, h1, h2⟩
  · exact Or.inr h'

/-- writing the root node (no page) -/
theorem NamedInv.write_root {w : Walker Node} {a : TW Node} (h : NamedInv w a) (hp : a.pos = []) (n : Node) :
    NamedInv w (a.setNode n) := by
  refine ⟨h.1, ?_⟩
  intro q hq hne
  have hq' : q ∈ a.wl ++ [a.pos] := hq
  rcases List.mem_append.mp hq' with h1 | h1
  · exact h.2 q h1 hne
  · rw [List.mem_singleton, hp] at h1
    exact absurd h1 hne

structure Sim (ps : PageSet Node) (w : Walker Node) (a : TW Node) : Prop where
  wf : w.position.WF
  pos : w.position.path = a.pos
  root : w.root = a.store []
  stackE : w.stack = [] ↔ a.pos.length ≤ 6 * k0 w.parentPage
  stackT : ∀ sp rest, w.stack = sp :: rest → sp.pageId = specPage a.pos
  chain : ChainBelow w.parentPage (w.stack.map (·.pageId))
  pages : ∀ sp ∈ w.stack, PageMatches H sp a.store
  counters : ∀ sp ∈ w.stack, CountersOK sp
  recon : ReconInv H w a
  cpr : w.childPageRoots.map (fun e => (e.1.path, e.2)) = a.cpr
  outs : ∀ o ∈ w.outputPages, OutMatches H ps o a.log
  nofix : w.preFix = false
  diffs : ∀ sp ∈ w.stack, DiffOK H ps sp
  acct : AcctInv ps w a
  named : NamedInv w a

/-- the output pages of a walker that is not a reconstructor are `UpdatedPage`s (the form the update-mode theorems use) -/
theorem outMatches_updated {ps : PageSet Node} {w : Walker Node} {a : TW Node} (h : Sim H ps w a)
    (hnr : w.reconstruction = false) (o : PageOut Node) (ho : o ∈ w.outputPages) :
    ∃ P pg d b st, o = .updated P pg d b ∧ (P, st) ∈ a.log ∧ pg.nodes.length = 126 ∧
      (∀ q, q ≠ [] → q.length ≤ 256 → specPage q = P → pg.nodes.getD (specIndex q) H.term = st q) ∧
      ∃ base, BaseOf ps P base ∧ DiffNames H pg.nodes base d := by
  have hk := h.recon.kinds o ho
  rw [hnr] at hk
  obtain ⟨st, h1, h2, h3, h4⟩ := h.outs o ho
  cases o with
  | updated P pg d b => exact ⟨P, pg, d, b, st, rfl, h1, h2, h3, h4⟩
  | reconstructed P pg cl d => simp [PageOut.isReconstructed] at hk

/-! ## slots and paths -/

section
variable (ps : PageSet Node)

/-- replacing the page on top of the stack (same id, same counters) and the flat store consistently -/
theorem sim_update_top {w : Walker Node} {a : TW Node} (h : Sim H ps w a) (top : StackPage Node) (rest : List (StackPage Node))
    (hst : w.stack = top :: rest) (top' : StackPage Node) (st' : Store Node)
    (hid : top'.pageId = top.pageId) (hc : CountersOK top') (hdf : DiffOK H ps top')
    (hctr : top'.prevChildrenLeaves = top.prevChildrenLeaves ∧ top'.pageLeaves = top.pageLeaves ∧
      top'.childrenLeaves = top.childrenLeaves)
    (hm : PageMatches H top' st') (hrest : ∀ sp ∈ rest, PageMatches H sp st') (hroot : st' [] = a.store [])
    (wl' : List Path)
    (hdm : ∀ i, i < 126 → top.diff.changed i = true → top'.diff.changed i = true)
    (hwl : ∀ q ∈ wl', q ≠ [] → q ∈ a.wl ∨ (specPage q = top'.pageId ∧ top'.diff.changed (specIndex q) = true)) :
    Sim H ps { w with stack := top' :: rest } { a with store := st', wl := wl' } := by
  have hrecon : ReconInv H ({ w with stack := top' :: rest } : Walker Node)
      ({ a with store := st', wl := wl' } : TW Node) := by
    refine ⟨h.recon.kinds, ?_, ?_, h.recon.outIds⟩
    · intro hr
      obtain ⟨h1, h2⟩ := h.recon.rc hr
      refine ⟨h1, ?_⟩
      intro sp hsp
      rcases List.mem_cons.mp hsp with e | hsp'
      · rw [e, hctr.1, hctr.2.1]; exact h2 top (by rw [hst]; simp)
      · exact h2 sp (by rw [hst]; exact List.mem_cons_of_mem _ hsp')
    · intro hr
      have := h.recon.acct hr
      rw [hst] at this
      show ((top' :: rest).map clOf).sum ≤ _
      simp only [List.map_cons, List.sum_cons] at this ⊢
      have e : clOf top' = clOf top := by unfold clOf; rw [hctr.2.2]
      rw [e]; exact this
  refine ⟨h.wf, h.pos, ?_, ?_, ?_, ?_, ?_, ?_, hrecon, h.cpr, h.outs, h.nofix, ?_, ?_, ?_⟩
  rotate_right
  · refine ⟨h.named.1, ?_⟩
    intro q hq hne
    have hq' : q ∈ wl' := hq
    rcases hwl q hq' hne with hold | ⟨h1, h2⟩
    · rcases h.named.2 q hold hne with ⟨sp, hsp, h1, h2⟩ | h'
      · rw [hst] at hsp
        rcases List.mem_cons.mp hsp with e | hsp'
        · left
          refine ⟨top', List.mem_cons_self .., by rw [hid, ← e]; exact h1, ?_⟩
          exact hdm _ (specIndex_lt q hne) (by rw [← e]; exact h2)
        · exact Or.inl ⟨sp, List.mem_cons_of_mem _ hsp', h1, h2⟩
      · exact Or.inr h'
    · exact Or.inl ⟨top', List.mem_cons_self .., h1.symm, h2⟩
  rotate_right
  · intro sp hsp
    rcases List.mem_cons.mp hsp with e | hsp'
    · rw [e]
      exact (h.acct top (by rw [hst]; simp)).of_fields hid hctr.1 hctr.2.1 hctr.2.2
    · exact h.acct sp (by rw [hst]; exact List.mem_cons_of_mem _ hsp')
  · show w.root = st' []
    rw [hroot]; exact h.root
  · constructor
    · intro e; cases e
    · intro hle
      have := h.stackE.mpr hle
      rw [hst] at this; cases this
  · intro sp rest' e
    simp only [List.cons.injEq] at e
    rw [← e.1, hid]
    exact h.stackT top rest hst
  · have := h.chain
    rw [hst] at this
    simpa [hid] using this
  · intro sp hsp
    rcases List.mem_cons.mp hsp with e | hsp'
    · rw [e]; exact hm
    · exact hrest sp hsp'
  · intro sp hsp
    rcases List.mem_cons.mp hsp with e | hsp'
    · rw [e]; exact hc
    · exact h.counters sp (by rw [hst]; exact List.mem_cons_of_mem _ hsp')
  · intro sp hsp
    rcases List.mem_cons.mp hsp with e | hsp'
    · rw [e]; exact hdf
    · exact h.diffs sp (by rw [hst]; exact List.mem_cons_of_mem _ hsp')

/-- the stack is not empty below the top layer -/
theorem sim_stack_cons {w : Walker Node} {a : TW Node} (h : Sim H ps w a) (hd : 6 * k0 w.parentPage < a.pos.length) :
    ∃ top rest, w.stack = top :: rest ∧ top.pageId = specPage a.pos := by
  cases hs : w.stack with
  | nil => have := h.stackE.mp hs; omega
  | cons top rest => exact ⟨top, rest, rfl, h.stackT top rest hs⟩

theorem sim_pos_ne {w : Walker Node} {a : TW Node} (hd : 6 * k0 w.parentPage < a.pos.length) : a.pos ≠ [] := by
  intro e; rw [e] at hd; simp at hd

theorem sim_len {w : Walker Node} {a : TW Node} (h : Sim H ps w a) : a.pos.length ≤ 256 := by
  rw [← pos_depth_pos h.wf h.pos]; exact h.wf.depthLe

/-- `node()` reads the flat store at the position -/
theorem sim_node {w : Walker Node} {a : TW Node} (h : Sim H ps w a) (hd : 6 * k0 w.parentPage < a.pos.length) :
    w.node H = .ok a.cur := by
  obtain ⟨top, rest, hst, htop⟩ := sim_stack_cons H ps h hd
  have hne := sim_pos_ne (w := w) hd
  have hdepth : 1 ≤ w.position.depth := by
    rw [pos_depth_pos h.wf h.pos]; exact List.length_pos_iff.mpr hne
  have hidx := (wf_nodeIndex_lt w.position h.wf hdepth).1
  obtain ⟨_, hm⟩ := h.pages top (by rw [hst]; simp)
  unfold Walker.node
  rw [hst]
  simp only [Page.getNode, hidx, if_true]
  rw [h.wf.idx, h.pos, hm a.pos hne (sim_len H ps h) htop.symm]
  rfl

/-- `sibling_node()` reads the flat store at the sibling path -/
theorem sim_siblingNode {w : Walker Node} {a : TW Node} (h : Sim H ps w a) (hd : 6 * k0 w.parentPage < a.pos.length) :
    w.siblingNode H = .ok a.sib := by
  obtain ⟨top, rest, hst, htop⟩ := sim_stack_cons H ps h hd
  have hne := sim_pos_ne (w := w) hd
  have hdepth : 1 ≤ w.position.depth := by
    rw [pos_depth_pos h.wf h.pos]; exact List.length_pos_iff.mpr hne
  have hidx := (wf_nodeIndex_lt w.position h.wf hdepth).2
  obtain ⟨_, hm⟩ := h.pages top (by rw [hst]; simp)
  unfold Walker.siblingNode
  rw [hst]
  simp only [Page.getNode, hidx, if_true]
  have hsi : w.position.siblingIndex = specIndex (sibPath a.pos) := by
    unfold Pos.siblingIndex
    rw [h.wf.idx, h.pos, specIndex_sibPath a.pos hne]
  have hsne : sibPath a.pos ≠ [] := by
    intro e
    have := congrArg List.length e
    rw [sibPath_length] at this
    exact hne (List.eq_nil_of_length_eq_zero this)
  rw [hsi, hm (sibPath a.pos) hsne (by rw [sibPath_length]; exact sim_len H ps h)
    (by rw [specPage_sibPath]; exact htop.symm)]
  rfl

/-- writing one slot of the page on top of the stack = writing the flat store at the slot's path -/
theorem sim_write_top {w : Walker Node} {a : TW Node} (h : Sim H ps w a) (top : StackPage Node)
    (rest : List (StackPage Node)) (hst : w.stack = top :: rest) (r : Path) (hr : r ≠ []) (hrl : r.length ≤ 256)
    (hrp : specPage r = top.pageId) (n : Node) (d' : PageDiff)
    (hd' : ∀ i, i < 126 → (top.diff.changed i = true ∨ i = specIndex r) → d'.changed i = true) :
    Sim H ps { w with stack := { top with page := { top.page with nodes := top.page.nodes.set (specIndex r) n },
                                          diff := d' } :: rest }
      { a with store := upd a.store r n, wl := a.wl ++ [r] } := by
  obtain ⟨hlen, hm⟩ := h.pages top (by rw [hst]; simp)
  have hidx : specIndex r < 126 := specIndex_lt r hr
  apply sim_update_top H ps h top rest hst
  · rfl
  · exact h.counters top (by rw [hst]; simp)
  · obtain ⟨base, hb, hdn⟩ := h.diffs top (by rw [hst]; simp)
    refine ⟨base, hb, ?_⟩
    intro i hi hne
    apply hd' i hi
    by_cases e : i = specIndex r
    · exact Or.inr e
    · left
      apply hdn i hi
      simp only at hne
      rw [getD_set_ne _ _ _ _ _ (Ne.symm e)] at hne
      exact hne
  · exact ⟨rfl, rfl, rfl⟩
  · refine ⟨by simp [hlen], ?_⟩
    intro q hq hql hqp
    simp only at hqp
    by_cases e : q = r
    · subst e
      simp only [upd_same]
      exact getD_set_eq _ _ _ _ (by rw [hlen]; exact hidx)
    · rw [upd_other _ _ _ _ e]
      have : specIndex r ≠ specIndex q := by
        intro hi
        exact e (path_of_slot q r hq hr (by rw [hqp, hrp]) hi.symm)
      simp only
      rw [getD_set_ne _ _ _ _ _ this]
      exact hm q hq hql hqp
  · intro sp hsp
    obtain ⟨hl2, hm2⟩ := h.pages sp (by rw [hst]; exact List.mem_cons_of_mem _ hsp)
    refine ⟨hl2, ?_⟩
    intro q hq hql hqp
    have : q ≠ r := by
      intro e
      subst e
      have hc := h.chain
      rw [hst] at hc
      have := chain_shorter w.parentPage top.pageId (rest.map (·.pageId)) (by simpa using hc) sp.pageId
        (List.mem_map_of_mem hsp)
      rw [← hqp, hrp] at this
      omega
    rw [upd_other _ _ _ _ this]
    exact hm2 q hq hql hqp
  · rw [upd_other _ _ _ _ (Ne.symm hr)]
  · intro i hi hch
    exact hd' i hi (Or.inl hch)
  · intro q hq hne
    rcases List.mem_append.mp hq with h1 | h1
    · exact Or.inl h1
    · rw [List.mem_singleton] at h1
      subst h1
      exact Or.inr ⟨hrp, hd' _ (specIndex_lt q hne) (Or.inr rfl)⟩

/-- `set_node` -/
theorem sim_setNode {w : Walker Node} {a : TW Node} (h : Sim H ps w a) (hd : 6 * k0 w.parentPage < a.pos.length)
    (n : Node) :
    ∃ w', w.setNode H n = .ok w' ∧ Sim H ps w' (a.setNode n) ∧ Same w w' ∧ w'.position = w.position ∧
      w'.childPageRoots = w.childPageRoots ∧ w'.root = w.root := by
  obtain ⟨top, rest, hst, htop⟩ := sim_stack_cons H ps h hd
  have hne := sim_pos_ne (w := w) hd
  have hdepth : 1 ≤ w.position.depth := by
    rw [pos_depth_pos h.wf h.pos]; exact List.length_pos_iff.mpr hne
  have hidx := (wf_nodeIndex_lt w.position h.wf hdepth).1
  have hni : w.position.nodeIndex = specIndex a.pos := by rw [h.wf.idx, h.pos]
  have hsim := fun d' hd' => sim_write_top H ps h top rest hst a.pos hne (sim_len H ps h) htop.symm n d' hd'
  unfold Walker.setNode
  rw [sim_siblingNode H ps h hd, hst]
  simp only [Page.setNode, hidx, if_true]
  have hchg : ∀ d : PageDiff, ∃ d', diffSetChanged d w.position.nodeIndex = .ok d' ∧
      ∀ i, i < 126 → (d.changed i = true ∨ i = w.position.nodeIndex) → d'.changed i = true := by
    intro d
    obtain ⟨d', h1, h2⟩ := PageDiff.setChanged_ok d hidx
    refine ⟨d', by unfold diffSetChanged; rw [h1], ?_⟩
    intro i hi hor
    rw [h2 i (by omega)]
    have : i ≠ 127 := by omega
    rcases hor with hh | hh
    · simp [this, hh]
    · subst hh; simp [this]
  rw [if_neg (by rw [h.nofix]; simp)]
  obtain ⟨d', hd', hd2⟩ := hchg top.diff
  rw [hd']
  refine ⟨_, rfl, ?_, Same.rfl' _, rfl, rfl, rfl⟩
  have := hsim (if (w.position.isFirstLayerInPage && decide (n = H.term) && decide (a.sib = H.term)) = true
    then d'.setCleared else d') (by
      intro i hi hor
      rw [← hni] at hor
      have := hd2 i hi hor
      split
      · rw [PageDiff.changed_setCleared, this]; rfl
      · exact this)
  rw [← hni] at this
  exact this

/-- `set_sibling` -/
theorem sim_setSibling {w : Walker Node} {a : TW Node} (h : Sim H ps w a) (hd : 6 * k0 w.parentPage < a.pos.length)
    (n : Node) :
    ∃ w', w.setSibling n = .ok w' ∧ Sim H ps w' (a.setSibling n) ∧ Same w w' ∧ w'.position = w.position ∧
      w'.childPageRoots = w.childPageRoots ∧ w'.root = w.root := by
  obtain ⟨top, rest, hst, htop⟩ := sim_stack_cons H ps h hd
  have hne := sim_pos_ne (w := w) hd
  have hdepth : 1 ≤ w.position.depth := by
    rw [pos_depth_pos h.wf h.pos]; exact List.length_pos_iff.mpr hne
  have hidx := (wf_nodeIndex_lt w.position h.wf hdepth).2
  have hsi : w.position.siblingIndex = specIndex (sibPath a.pos) := by
    unfold Pos.siblingIndex
    rw [h.wf.idx, h.pos, specIndex_sibPath a.pos hne]
  have hsne : sibPath a.pos ≠ [] := by
    intro e
    have := congrArg List.length e
    rw [sibPath_length] at this
    exact hne (List.eq_nil_of_length_eq_zero this)
  have hsim := fun d' hd' => sim_write_top H ps h top rest hst (sibPath a.pos) hsne
    (by rw [sibPath_length]; exact sim_len H ps h) (by rw [specPage_sibPath]; exact htop.symm) n d' hd'
  unfold Walker.setSibling
  rw [hst]
  simp only [Page.setNode, hidx, if_true]
  have hchg : ∃ d', diffSetChanged top.diff w.position.siblingIndex = .ok d' ∧
      ∀ i, i < 126 → (top.diff.changed i = true ∨ i = w.position.siblingIndex) → d'.changed i = true := by
    obtain ⟨d', h1, h2⟩ := PageDiff.setChanged_ok top.diff hidx
    refine ⟨d', by unfold diffSetChanged; rw [h1], ?_⟩
    intro i hi hor
    rw [h2 i (by omega)]
    have : i ≠ 127 := by omega
    rcases hor with hh | hh
    · simp [this, hh]
    · subst hh; simp [this]
  obtain ⟨d', hd', hd2⟩ := hchg
  rw [hd']
  refine ⟨_, rfl, ?_, Same.rfl' _, rfl, rfl, rfl⟩
  have := hsim d' (by intro i hi hor; rw [← hsi] at hor; exact hd2 i hi hor)
  rw [← hsi] at this
  exact this

end

end Nomt.Walker.G
