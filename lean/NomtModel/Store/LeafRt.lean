import NomtModel.Store.ImgLemmas
/-!
# Leaf pages: encoder (mirror of `LeafBuilder`) and `decodeLeaf (encodeLeaf es pad) = ok es`

`LeafBuilder::new(n, total_value_size)` + `push_cell(key, value, overflow)` × n + `finish`
(`nomt/src/beatree/leaf/node.rs`): `n` as u16; cell pointer `i` = key ‖ u16 (offset | overflow bit);
the first cell starts at `PAGE_SIZE - total_value_size`, every next one where the previous ends; the
bytes between the cell pointers and the first cell are whatever the pool page held (`pad`).
-/
namespace Nomt.Store

def leafTotal : List LeafEntry → Nat
  | [] => 0
  | e :: r => e.cell.size + leafTotal r

def leafCellsL : List LeafEntry → List UInt8
  | [] => []
  | e :: r => e.cell.data.toList ++ leafCellsL r

/-- `encode_cell_pointer` for every entry, `off` = offset of the first cell -/
def leafPtrsL : List LeafEntry → Nat → List UInt8
  | [], _ => []
  | e :: r, off =>
    e.key.data.toList ++ (le16 (off + (if e.overflow then 32768 else 0)) ++ leafPtrsL r (off + e.cell.size))

def encodeLeafL (es : List LeafEntry) (pad : List UInt8) : List UInt8 :=
  le16 es.length ++ (leafPtrsL es (PAGE - leafTotal es) ++ (pad ++ leafCellsL es))

def encodeLeaf (es : List LeafEntry) (pad : List UInt8) : ByteArray := (encodeLeafL es pad).toByteArray

/-- what the builder's callers guarantee for one cell: 32-byte key; an inline value is at most
`MAX_LEAF_VALUE_SIZE` long; an overflow cell is `8 + 32 + 4k` bytes with `1 ≤ k ≤ 15` -/
def leafEntryOK (e : LeafEntry) : Bool :=
  e.key.size == 32 &&
  (if e.overflow then
    decide (44 ≤ e.cell.size) && e.cell.size % 4 == 0 && decide (e.cell.size ≤ 40 + 4 * MAX_OVERFLOW_CELL_NODE_POINTERS)
   else decide (e.cell.size ≤ MAX_LEAF_VALUE_SIZE))

/-- the guard: at least one entry, every entry admissible, and header + pointers + padding + cells
fill the page exactly (`body_size(n, total) ≤ LEAF_NODE_BODY_SIZE` of the callers) -/
def leafOK (es : List LeafEntry) (pad : List UInt8) : Bool :=
  !es.isEmpty && es.all leafEntryOK && 2 + 34 * es.length + pad.length + leafTotal es == PAGE

/-! ## sizes -/

theorem length_leafCellsL : ∀ es : List LeafEntry, (leafCellsL es).length = leafTotal es := by
  intro es
  induction es with
  | nil => rfl
  | cons e r ih => simp [leafCellsL, leafTotal, ih, ByteArray.size_data]

theorem length_leafPtrsL : ∀ (es : List LeafEntry) (off : Nat), (∀ e ∈ es, e.key.size = 32) →
    (leafPtrsL es off).length = 34 * es.length := by
  intro es
  induction es with
  | nil => intro off _; rfl
  | cons e r ih =>
    intro off hk
    have h1 : e.key.data.toList.length = 32 := by
      rw [Array.length_toList, ByteArray.size_data]; exact hk e (List.mem_cons_self ..)
    simp only [leafPtrsL, List.length_append, length_le16, h1, List.length_cons,
      ih _ (fun x hx => hk x (List.mem_cons_of_mem _ hx))]
    omega

theorem leafTotal_take_succ : ∀ (es : List LeafEntry) (i : Nat) (e : LeafEntry), es[i]? = some e →
    leafTotal (es.take (i + 1)) = leafTotal (es.take i) + e.cell.size := by
  intro es
  induction es with
  | nil => intro i e h; simp at h
  | cons x r ih =>
    intro i e h
    cases i with
    | zero => simp at h; subst h; simp [leafTotal]
    | succ i =>
      simp at h
      simp only [List.take_succ_cons, leafTotal]
      rw [ih i e h]; omega

theorem leafTotal_take_le : ∀ (es : List LeafEntry) (i : Nat), leafTotal (es.take i) ≤ leafTotal es := by
  intro es
  induction es with
  | nil => intro i; simp [leafTotal]
  | cons x r ih =>
    intro i
    cases i with
    | zero => simp [leafTotal]
    | succ i => simp only [List.take_succ_cons, leafTotal]; have := ih i; omega

/-! ## reading the pieces back -/

theorem u16le_ptr : ∀ (es : List LeafEntry) (off : Nat) (pre post : List UInt8) (i : Nat) (e : LeafEntry),
    (∀ x ∈ es, x.key.size = 32) → es[i]? = some e → off + leafTotal es < 32768 →
    u16le (pre ++ (leafPtrsL es off ++ post)).toByteArray (pre.length + 34 * i + 32) =
      off + leafTotal (es.take i) + (if e.overflow then 32768 else 0) := by
  intro es
  induction es with
  | nil => intro off pre post i e _ h; simp at h
  | cons x r ih =>
    intro off pre post i e hk h hlt
    have h1 : x.key.data.toList.length = 32 := by
      rw [Array.length_toList, ByteArray.size_data]; exact hk x (List.mem_cons_self ..)
    simp only [leafTotal] at hlt
    cases i with
    | zero =>
      simp at h; subst h
      simp only [leafPtrsL, List.take_zero, leafTotal, Nat.mul_zero, Nat.add_zero]
      have e1 : pre ++ (x.key.data.toList ++ (le16 (off + if x.overflow = true then 32768 else 0) ++
          leafPtrsL r (off + x.cell.size)) ++ post) =
          (pre ++ x.key.data.toList) ++ (le16 (off + if x.overflow = true then 32768 else 0) ++
          (leafPtrsL r (off + x.cell.size) ++ post)) := by simp
      rw [e1]
      have e2 : pre.length + 32 = (pre ++ x.key.data.toList).length + 0 := by simp [h1]
      rw [e2, u16le_append_right, u16le_le16 _ _ (by split <;> omega)]
    | succ i =>
      simp at h
      simp only [leafPtrsL, List.take_succ_cons, leafTotal]
      have e1 : pre ++ (x.key.data.toList ++ (le16 (off + if x.overflow = true then 32768 else 0) ++
          leafPtrsL r (off + x.cell.size)) ++ post) =
          (pre ++ x.key.data.toList ++ le16 (off + if x.overflow = true then 32768 else 0)) ++
          (leafPtrsL r (off + x.cell.size) ++ post) := by simp
      rw [e1]
      have e2 : pre.length + 34 * (i + 1) + 32 =
          (pre ++ x.key.data.toList ++ le16 (off + if x.overflow = true then 32768 else 0)).length + 34 * i + 32 := by
        simp [h1, length_le16]; omega
      rw [e2, ih (off + x.cell.size) _ post i e (fun y hy => hk y (List.mem_cons_of_mem _ hy)) h (by omega)]
      omega

theorem extract_key : ∀ (es : List LeafEntry) (off : Nat) (pre post : List UInt8) (i : Nat) (e : LeafEntry),
    (∀ x ∈ es, x.key.size = 32) → es[i]? = some e →
    (pre ++ (leafPtrsL es off ++ post)).toByteArray.extract (pre.length + 34 * i) (pre.length + 34 * i + 32) = e.key := by
  intro es
  induction es with
  | nil => intro off pre post i e _ h; simp at h
  | cons x r ih =>
    intro off pre post i e hk h
    have h1 : x.key.data.toList.length = 32 := by
      rw [Array.length_toList, ByteArray.size_data]; exact hk x (List.mem_cons_self ..)
    cases i with
    | zero =>
      simp at h; subst h
      simp only [leafPtrsL, Nat.mul_zero, Nat.add_zero, List.append_assoc, List.toByteArray_append]
      rw [show pre.length = pre.length + 0 from rfl, Nat.add_assoc,
        ByteArray.extract_append_size_add' (by simp [List.size_toByteArray])]
      rw [Nat.zero_add, ByteArray.extract_append_eq_left (by simp [List.size_toByteArray, h1])]
      exact toByteArray_data_toList _
    | succ i =>
      simp at h
      simp only [leafPtrsL]
      have e1 : pre ++ (x.key.data.toList ++ (le16 (off + if x.overflow = true then 32768 else 0) ++
          leafPtrsL r (off + x.cell.size)) ++ post) =
          (pre ++ x.key.data.toList ++ le16 (off + if x.overflow = true then 32768 else 0)) ++
          (leafPtrsL r (off + x.cell.size) ++ post) := by simp
      rw [e1]
      have e2 : pre.length + 34 * (i + 1) =
          (pre ++ x.key.data.toList ++ le16 (off + if x.overflow = true then 32768 else 0)).length + 34 * i := by
        simp [h1, length_le16]; omega
      rw [e2]
      exact ih (off + x.cell.size) _ post i e (fun y hy => hk y (List.mem_cons_of_mem _ hy)) h

theorem extract_cell : ∀ (es : List LeafEntry) (pre : List UInt8) (i : Nat) (e : LeafEntry), es[i]? = some e →
    (pre ++ leafCellsL es).toByteArray.extract (pre.length + leafTotal (es.take i))
      (pre.length + leafTotal (es.take (i + 1))) = e.cell := by
  intro es
  induction es with
  | nil => intro pre i e h; simp at h
  | cons x r ih =>
    intro pre i e h
    cases i with
    | zero =>
      simp at h; subst h
      simp only [leafCellsL, List.take_zero, List.take_succ_cons, leafTotal, Nat.add_zero, List.toByteArray_append]
      rw [show pre.length = pre.length + 0 from rfl, Nat.add_assoc,
        ByteArray.extract_append_size_add' (by simp [List.size_toByteArray])]
      rw [Nat.zero_add, ByteArray.extract_append_eq_left (by simp [List.size_toByteArray, ByteArray.size_data])]
      exact toByteArray_data_toList _
    | succ i =>
      simp at h
      simp only [leafCellsL, List.take_succ_cons, leafTotal]
      have e1 : pre ++ (x.cell.data.toList ++ leafCellsL r) = (pre ++ x.cell.data.toList) ++ leafCellsL r := by simp
      rw [e1]
      have e2 : ∀ t, pre.length + (x.cell.size + t) = (pre ++ x.cell.data.toList).length + t := by
        intro t; simp [ByteArray.size_data]; omega
      rw [e2, e2]
      exact ih _ i e h

/-! ## the round trip -/

theorem mapM_ok_of_forall {α β : Type} (f : α → Except String β) (g : α → β) : ∀ (l : List α),
    (∀ a ∈ l, f a = .ok (g a)) → l.mapM f = .ok (l.map g) := by
  intro l
  induction l with
  | nil => intro _; rfl
  | cons a l ih =>
    intro h
    rw [List.mapM_cons, h a (List.mem_cons_self ..), ih (fun x hx => h x (List.mem_cons_of_mem _ hx))]
    rfl

theorem leafOK_parts {es : List LeafEntry} {pad : List UInt8} (h : leafOK es pad = true) :
    0 < es.length ∧ (∀ e ∈ es, leafEntryOK e = true) ∧ 2 + 34 * es.length + pad.length + leafTotal es = PAGE := by
  unfold leafOK at h
  simp only [Bool.and_eq_true, Bool.not_eq_true', List.all_eq_true, beq_iff_eq] at h
  refine ⟨?_, h.1.2, h.2⟩
  cases es with
  | nil => simp at h
  | cons a r => simp

theorem leafEntryOK_key {e : LeafEntry} (h : leafEntryOK e = true) : e.key.size = 32 := by
  unfold leafEntryOK at h
  simp only [Bool.and_eq_true, beq_iff_eq] at h
  exact h.1

/-- entry `i` of the encoded page decodes to entry `i` of the input -/
theorem decodeLeafEntry_encode (es : List LeafEntry) (pad : List UInt8) (hok : leafOK es pad = true)
    (i : Nat) (e : LeafEntry) (hi : es[i]? = some e) :
    decodeLeafEntry (encodeLeaf es pad) es.length i = .ok e := by
  obtain ⟨hpos, hall, hsz⟩ := leafOK_parts hok
  have hk : ∀ x ∈ es, x.key.size = 32 := fun x hx => leafEntryOK_key (hall x hx)
  have hPAGE : PAGE = 4096 := rfl
  have hilt : i < es.length := by
    rcases Nat.lt_or_ge i es.length with h | h
    · exact h
    · rw [List.getElem?_eq_none h] at hi; cases hi
  have hoff0 : PAGE - leafTotal es + leafTotal es < 32768 := by omega
  -- pointer words
  have hraw : ∀ j x, es[j]? = some x →
      u16le (encodeLeaf es pad) (2 + 34 * j + 32) =
        PAGE - leafTotal es + leafTotal (es.take j) + (if x.overflow then 32768 else 0) := by
    intro j x hj
    have := u16le_ptr es (PAGE - leafTotal es) (le16 es.length) (pad ++ leafCellsL es) j x hk hj hoff0
    simpa [encodeLeaf, encodeLeafL, length_le16] using this
  have hraw_i := hraw i e hi
  have hle_i := leafTotal_take_le es i
  have hle_i1 := leafTotal_take_le es (i + 1)
  have hsucc := leafTotal_take_succ es i e hi
  -- start and end of the cell
  have hs : u16le (encodeLeaf es pad) (2 + 34 * i + 32) % 32768 = PAGE - leafTotal es + leafTotal (es.take i) := by
    rw [hraw_i]; split <;> omega
  have he : (if (i + 1 == es.length) = true then PAGE
      else u16le (encodeLeaf es pad) (2 + 34 * (i + 1) + 32) % 32768) =
      PAGE - leafTotal es + leafTotal (es.take (i + 1)) := by
    by_cases hlast : i + 1 = es.length
    · have : es.take (i + 1) = es := by rw [hlast]; exact List.take_length
      simp only [hlast, beq_self_eq_true, if_true]
      rw [← hlast, this]; omega
    · have hb : (i + 1 == es.length) = false := by simpa using hlast
      have hlt : i + 1 < es.length := by omega
      obtain ⟨x, hx⟩ : ∃ x, es[i + 1]? = some x := ⟨es[i + 1], List.getElem?_eq_getElem hlt⟩
      have hle2 := leafTotal_take_le es (i + 1)
      rw [hb, hraw (i + 1) x hx]
      simp only [Bool.false_eq_true, if_false]
      split <;> omega
  have hov : decide (u16le (encodeLeaf es pad) (2 + 34 * i + 32) ≥ 32768) = e.overflow := by
    rw [hraw_i]
    cases hovb : e.overflow with
    | true => simp <;> omega
    | false => simp <;> omega
  -- the extracted pieces
  have hkey : (encodeLeaf es pad).extract (2 + 34 * i) (2 + 34 * i + 32) = e.key := by
    have := extract_key es (PAGE - leafTotal es) (le16 es.length) (pad ++ leafCellsL es) i e hk hi
    simpa [encodeLeaf, encodeLeafL, length_le16] using this
  have hcell : (encodeLeaf es pad).extract (PAGE - leafTotal es + leafTotal (es.take i))
      (PAGE - leafTotal es + leafTotal (es.take (i + 1))) = e.cell := by
    have := extract_cell es (le16 es.length ++ (leafPtrsL es (PAGE - leafTotal es) ++ pad)) i e hi
    have hlen : (le16 es.length ++ (leafPtrsL es (PAGE - leafTotal es) ++ pad)).length = PAGE - leafTotal es := by
      simp only [List.length_append, length_le16, length_leafPtrsL es _ hk]; omega
    rw [hlen] at this
    simpa [encodeLeaf, encodeLeafL] using this
  have hlen : PAGE - leafTotal es + leafTotal (es.take (i + 1)) - (PAGE - leafTotal es + leafTotal (es.take i)) =
      e.cell.size := by omega
  -- the admissibility tests of the decoder
  have hE := hall e (List.mem_of_getElem? hi)
  unfold leafEntryOK at hE
  simp only [Bool.and_eq_true, beq_iff_eq] at hE
  unfold decodeLeafEntry
  simp only [hs, he, hov, hkey, hcell, hlen]
  have c1 : ¬ (PAGE - leafTotal es + leafTotal (es.take i) < 2 + 34 * es.length) := by omega
  have c2 : ¬ (PAGE - leafTotal es + leafTotal (es.take (i + 1)) < PAGE - leafTotal es + leafTotal (es.take i)) := by omega
  have c3 : ¬ (PAGE - leafTotal es + leafTotal (es.take (i + 1)) > PAGE) := by omega
  simp only [c1, c2, c3, if_false]
  cases hovb : e.overflow with
  | true =>
    rw [hovb] at hE
    simp only [if_true, Bool.and_eq_true, decide_eq_true_eq, beq_iff_eq] at hE
    have d1 : ¬ e.cell.size < 44 := by omega
    have d2 : ¬ e.cell.size % 4 ≠ 0 := by omega
    have d3 : ¬ e.cell.size > 40 + 4 * MAX_OVERFLOW_CELL_NODE_POINTERS := by omega
    have hge : 32768 ≤ u16le (encodeLeaf es pad) (2 + 34 * i + 32) := by rw [hraw_i, hovb]; simp
    simp [hge, d1, d2, d3, hE.2.1.2, pure, Except.pure, bind, Except.bind]
    rw [← hovb]
  | false =>
    rw [hovb] at hE
    simp only [Bool.false_eq_true, if_false, decide_eq_true_eq] at hE
    have d1 : ¬ e.cell.size > MAX_LEAF_VALUE_SIZE := by omega
    have hge : ¬ 32768 ≤ u16le (encodeLeaf es pad) (2 + 34 * i + 32) := by rw [hraw_i, hovb]; simp; omega
    simp [hge, d1, pure, Except.pure, bind, Except.bind]
    rw [← hovb]

theorem size_encodeLeaf (es : List LeafEntry) (pad : List UInt8) (hok : leafOK es pad = true) :
    (encodeLeaf es pad).size = PAGE := by
  obtain ⟨_, hall, hsz⟩ := leafOK_parts hok
  have hk : ∀ x ∈ es, x.key.size = 32 := fun x hx => leafEntryOK_key (hall x hx)
  simp only [encodeLeaf, encodeLeafL, List.size_toByteArray, List.length_append, length_le16,
    length_leafPtrsL es _ hk, length_leafCellsL]
  omega

/-- **leaf round trip** -/
theorem leaf_rt (es : List LeafEntry) (pad : List UInt8) (hok : leafOK es pad = true) :
    decodeLeaf (encodeLeaf es pad) = .ok es := by
  obtain ⟨hpos, hall, hsz⟩ := leafOK_parts hok
  have hPAGE : PAGE = 4096 := rfl
  have hn : u16le (encodeLeaf es pad) 0 = es.length := by
    simp only [encodeLeaf, encodeLeafL]
    exact u16le_le16 _ _ (by omega)
  unfold decodeLeaf
  have c0 : ((encodeLeaf es pad).size != PAGE) = false := by simp [size_encodeLeaf es pad hok]
  have c1 : (es.length == 0) = false := beq_eq_false_iff_ne.mpr (by omega)
  have c2 : ¬ (2 + 34 * es.length ≥ PAGE) := by omega
  simp only [hn, c0, c1, c2, Bool.false_eq_true, if_false, pure, Except.pure, bind, Except.bind]
  have hmap : es = (List.range es.length).map (fun i => es.getD i ⟨ByteArray.empty, false, ByteArray.empty⟩) := by
    apply List.ext_getElem
    · simp
    · intro i h1 h2
      simp [List.getD_eq_getElem?_getD, List.getElem?_eq_getElem h1]
  have := mapM_ok_of_forall (decodeLeafEntry (encodeLeaf es pad) es.length) (fun i => es.getD i ⟨ByteArray.empty, false, ByteArray.empty⟩)
    (List.range es.length) (by
      intro i hi
      have hlt : i < es.length := List.mem_range.mp hi
      have hg : es[i]? = some es[i] := List.getElem?_eq_getElem hlt
      rw [decodeLeafEntry_encode es pad hok i es[i] hg]
      simp [List.getD_eq_getElem?_getD, hg])
  rw [← hmap] at this
  exact this

end Nomt.Store
