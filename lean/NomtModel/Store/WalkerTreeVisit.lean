import NomtModel.Store.WalkerTreeCompact
/-!
# The visitor of `replace_terminal` on the tree walker writes the specified sub-trie

`tw_visit_tree`: folding the visitor over the post-order calls `treeEv` of a block (the keys `sub O P` below position `P`)
leaves the walker at `P` with the specified node at `P`, every meaningful slot below `P` specified, nothing changed outside
the sub-trie the first `Leaf` call jumped into, and every page left on the way logged with its meaningful slots right.
-/
namespace Nomt.Walker
open Nomt Nomt.TriePos

variable {Node VH : Type} [DecidableEq Node] [DecidableEq VH] (H : Hasher Node VH) (D : Path → Prop)

/-! ## `down` -/

theorem tw_downBit_pos (cfg : TWCfg Node) (fresh : Bool) (a : TW Node) (b : Bool) :
    (a.downBit cfg fresh b).pos = a.pos ++ [b] := by
  unfold TW.downBit; split <;> rfl

theorem tw_downBit_log (cfg : TWCfg Node) (fresh : Bool) (a : TW Node) (b : Bool) :
    (a.downBit cfg fresh b).log = a.log ∧ (a.downBit cfg fresh b).cpr = a.cpr := by
  unfold TW.downBit; split <;> exact ⟨rfl, rfl⟩

/-- members of the page entered from `x` lie strictly below `x` -/
theorem page_below_boundary (x : Path) (b : Bool) (q : Path) (hx : x.length % 6 = 0) (hq : q ≠ [])
    (hp : specPage q = specPage (x ++ [b])) : x <+: q ∧ q ≠ x := by
  have hd : dip (x ++ [b]) = 1 := by
    unfold dip specR
    rw [if_neg (by simp)]
    simp only [List.length_append, List.length_singleton, Nat.add_sub_cancel]
    omega
  have := page_members_below (x ++ [b]) q (by simp) hd hq hp
  simpa using this

theorem tw_downBit_store (cfg : TWCfg Node) (fresh : Bool) (a : TW Node) (b : Bool) (q : Path)
    (hq : ¬ (a.pos <+: q ∧ q ≠ a.pos)) : (a.downBit cfg fresh b).store q = a.store q := by
  unfold TW.downBit
  split
  · rename_i h
    show havoc a.store cfg.fresh (a.pos ++ [b]) q = a.store q
    unfold havoc
    split
    · rename_i h2
      exact absurd (page_below_boundary a.pos b q h.1 h2.1 h2.2) hq
    · rfl
  · rfl

theorem tw_down_spec (cfg : TWCfg Node) : ∀ (bits : List Bool) (a : TW Node) (fresh : Bool),
    (a.down cfg bits fresh).pos = a.pos ++ bits ∧ (a.down cfg bits fresh).log = a.log ∧
    (a.down cfg bits fresh).cpr = a.cpr ∧
    (∀ q, ¬ (a.pos <+: q ∧ q ≠ a.pos) → (a.down cfg bits fresh).store q = a.store q) := by
  intro bits
  induction bits with
  | nil => intro a fresh; simp [TW.down]
  | cons b bs ih =>
    intro a fresh
    obtain ⟨h1, h2, h3, h4⟩ := ih (a.downBit cfg fresh b) fresh
    have hl := tw_downBit_log cfg fresh a b
    simp only [TW.down]
    refine ⟨?_, ?_, ?_, ?_⟩
    · rw [h1, tw_downBit_pos]; simp
    · rw [h2, hl.1]
    · rw [h3, hl.2]
    · intro q hq
      rw [h4 q, tw_downBit_store cfg fresh a b q hq]
      rw [tw_downBit_pos]
      intro ⟨hp, _⟩
      apply hq
      refine ⟨List.IsPrefix.trans (List.prefix_append _ _) hp, ?_⟩
      intro e
      rw [e] at hp
      have := hp.length_le
      simp at this
      omega

/-- the freshness hint of the first bit is the page-boundary test itself -/
theorem tw_down_hint (cfg : TWCfg Node) (a : TW Node) (d0 : Bool) (drest : List Bool) :
    (a.down cfg [d0] (decide (dip a.pos = DEPTH) || decide (a.pos = []))).down cfg drest true =
      a.down cfg (d0 :: drest) true := by
  simp only [TW.down]
  congr 1
  unfold TW.downBit
  by_cases h6 : a.pos.length % 6 = 0
  · have : (decide (dip a.pos = DEPTH) || decide (a.pos = [])) = true := by
      by_cases hn : a.pos = []
      · simp [hn]
      · have hl : 1 ≤ a.pos.length := List.length_pos_iff.mpr hn
        have : dip a.pos = DEPTH := by
          unfold dip specR DEPTH; rw [if_neg hn]; omega
        simp [this]
    rw [this]
  · simp [h6]

theorem tw_descend_eq (cfg : TWCfg Node) (skip : Nat) (a : TW Node) (down : List Bool) :
    a.descend cfg skip down = a.down cfg down true := by
  unfold TW.descend
  cases hd : decide (a.pos.length > skip) <;> cases down with
  | nil => rfl
  | cons d0 drest => first | exact tw_down_hint cfg a d0 drest | rfl

/-! ## the three kinds of visitor calls -/

theorem tw_visit_leaf_first (cfg : TWCfg Node) (skip : Nat) (a : TW Node) (down : List Bool) (k : Key) (v : VH) (n : Node) :
    TW.visit H cfg skip a (.leaf false down k v n) = (a.down cfg down true).setNode n := by
  unfold TW.visit
  simp only [WriteNode.up, WriteNode.down, WriteNode.node, tw_descend_eq]

theorem tw_visit_leaf_jump (cfg : TWCfg Node) (skip : Nat) (a : TW Node) (x : Path) (rest : List Bool) (k : Key) (v : VH)
    (n : Node) (hp : a.pos = x ++ [false]) :
    TW.visit H cfg skip a (.leaf true (true :: rest) k v n) =
      (({ a with pos := x ++ [true] } : TW Node).down cfg rest true).setNode n := by
  unfold TW.visit
  simp only [WriteNode.up, WriteNode.down, WriteNode.node, tw_descend_eq, hp, List.getLast?_append,
    List.getLast?_singleton, Option.some_or, Option.getD_some, Bool.not_false, if_true, sibPath_snoc]

theorem tw_visit_internal (cfg : TWCfg Node) (skip : Nat) (a : TW Node) (x : Path) (b : Bool) (l r n : Node)
    (hp : a.pos = x ++ [b]) :
    TW.visit H cfg skip a (.internal l r n : WriteNode Node VH) =
      ((if (if b then decide (H.kind l = .terminator) else decide (H.kind r = .terminator)) = true
          then a.setSibling H.term else a).up).setNode n := by
  unfold TW.visit
  simp only [WriteNode.up, WriteNode.down, WriteNode.node, tw_descend_eq, hp, List.getLast?_append,
    List.getLast?_singleton, Option.some_or, Option.getD_some, TW.down]

/-! ## monotonicity of `sub` -/

theorem sub_mono {O : List (Key × VH)} (hk : KeysOK O) (P q : Path) (hpq : P <+: q) (hq : q.length ≤ 256) :
    ∀ kv ∈ sub O q, kv ∈ sub O P := by
  intro kv h
  have hP : P.length ≤ 256 := Nat.le_trans hpq.length_le hq
  rw [mem_sub hk q hq] at h
  rw [mem_sub hk P hP]
  exact ⟨h.1, List.IsPrefix.trans hpq h.2⟩

theorem sub_nil_of_prefix {O : List (Key × VH)} (hk : KeysOK O) (P q : Path) (hpq : P <+: q) (hq : q.length ≤ 256)
    (h : sub O P = []) : sub O q = [] := by
  apply List.eq_nil_iff_forall_not_mem.mpr
  intro kv hkv
  have := sub_mono hk P q hpq hq kv hkv
  rw [h] at this; cases this

theorem sub_length_mono {O : List (Key × VH)} (hk : KeysOK O) (P : Path) (hP : P.length < 256) (b : Bool) :
    (sub O (P ++ [b])).length ≤ (sub O P).length := by
  rw [sub_snoc]; exact side_length_le _ _ _

theorem sub_length_mono_prefix {O : List (Key × VH)} (hk : KeysOK O) (P : Path) :
    ∀ (r : Path), (P ++ r).length ≤ 256 → (sub O (P ++ r)).length ≤ (sub O P).length := by
  intro r
  induction r using snoc_induction with
  | hnil => intro _; simp
  | hsnoc l x ih =>
    intro h
    have hl : (P ++ l).length < 256 := by simp at h ⊢; omega
    have := sub_length_mono hk (P ++ l) hl x
    rw [List.append_assoc] at this
    exact Nat.le_trans this (ih (by omega))

/-- below a position with at most one key nothing is meaningful -/
theorem not_mean_below {O : List (Key × VH)} (hk : KeysOK O) (X r : Path) (hX : (sub O X).length ≤ 1)
    (hpre : X <+: r) (hne : r ≠ X) (hlen : r.length ≤ 256) : ¬ Mean O r := by
  intro hm
  obtain ⟨b, rest, rfl⟩ := prefix_strict_cases hpre hne
  rcases hm with h | h
  · simp at h
  · have hd : (X ++ b :: rest).dropLast = X ++ (b :: rest).dropLast := by
      rw [List.dropLast_append_of_ne_nil (by simp)]
    rw [hd] at h
    have hl2 : (X ++ (b :: rest).dropLast).length ≤ 256 := by
      have : (X ++ (b :: rest).dropLast).length ≤ (X ++ b :: rest).length := by simp
      omega
    have := sub_length_mono_prefix hk X ((b :: rest).dropLast) hl2
    omega

/-! ## the visitor over an append -/

theorem tw_visitAll_append (cfg : TWCfg Node) (skip : Nat) (a : TW Node) (e1 e2 : List (WriteNode Node VH)) :
    TW.visitAll H cfg skip a (e1 ++ e2) = TW.visitAll H cfg skip (TW.visitAll H cfg skip a e1) e2 := by
  induction e1 generalizing a with
  | nil => rfl
  | cons c cs ih => simp only [List.cons_append, TW.visitAll]; exact ih _

/-! ## the `Internal` call closing a node -/

/-- the state before the calls of a block -/
def PreJ (skip : Nat) (t : Path) (prev : Option Key) (B : List (Key × VH)) (J pos : Path) : Prop :=
  match prev with
  | none => pos = t ∧ J = t
  | some pk => ∃ x, pos = x ++ [false] ∧ J = x ++ [true] ∧ skip ≤ x.length ∧
      ∀ kv ∈ B, sharedRel skip pk kv.1 = x.length - skip

theorem preJ_mono (skip : Nat) (t : Path) (prev : Option Key) (B B' : List (Key × VH)) (J pos : Path)
    (h : PreJ skip t prev B J pos) (hsub : ∀ kv ∈ B', kv ∈ B) : PreJ skip t prev B' J pos := by
  cases prev with
  | none => exact h
  | some pk =>
    obtain ⟨x, h1, h2, h3, h4⟩ := h
    exact ⟨x, h1, h2, h3, fun kv hkv => h4 kv (hsub kv hkv)⟩

theorem tw_internal_step (hs : H.Sound) {O : List (Key × VH)} (hk : KeysOK O) (cfg : TWCfg Node) (skip : Nat)
    (a : TW Node) (P : Path) (b : Bool) (hP : P.length < 256) (hp : a.pos = P ++ [b])
    (h2 : 2 ≤ (sub O P).length)
    (hg : Good H O a.store (P ++ [b])) (hsub : SubOK H D O a.store (P ++ [b]))
    (hne : sub O (P ++ [b]) ≠ [])
    (hsib : sub O (P ++ [!b]) = [] ∨
      (sub O (P ++ [!b]) ≠ [] ∧ Good H O a.store (P ++ [!b]) ∧ SubOK H D O a.store (P ++ [!b]))) :
    let a' := TW.visit H cfg skip a
      (.internal (specNode H O (P ++ [false])) (specNode H O (P ++ [true]))
        (H.internal (specNode H O (P ++ [false])) (specNode H O (P ++ [true]))) : WriteNode Node VH)
    a'.pos = P ∧ Good H O a'.store P ∧ SubOK H D O a'.store P ∧
    (∀ q, ¬ P <+: q → a'.store q = a.store q) ∧
    (∀ e ∈ a'.log, e ∈ a.log ∨ LogOK H D O e) ∧ (∀ e ∈ a.log, e ∈ a'.log) ∧ a'.cpr = a.cpr := by
  intro a'
  have hnode : specNode H O P = H.internal (specNode H O (P ++ [false])) (specNode H O (P ++ [true])) := by
    unfold specNode
    have e : 256 - P.length = (255 - P.length) + 1 := by omega
    rw [sub_snoc, sub_snoc, e]
    simp only [List.length_append, List.length_singleton]
    have e2 : 256 - (P.length + 1) = 255 - P.length := by omega
    rw [e2]
    match hB : sub O P, h2 with
    | x :: y :: rest, _ => exact nodeAt_two H _ _ x y rest
  -- is the sibling zeroed?
  have hkinds := fun (x : Bool) => kind_specNode H hs hk (P ++ [x]) (by simp; omega)
  have hzero : (if b then decide (H.kind (specNode H O (P ++ [false])) = .terminator)
                  else decide (H.kind (specNode H O (P ++ [true])) = .terminator)) = true ↔
      sub O (P ++ [!b]) = [] := by
    have hso := fun (x : Bool) => sub_of_kind H hs hk (P ++ [x]) (by simp; omega)
    cases b
    · simp only [Bool.false_eq_true, if_false, decide_eq_true_eq, Bool.not_false]
      exact ⟨(hso true).1, (hkinds true).1⟩
    · simp only [if_true, decide_eq_true_eq, Bool.not_true]
      exact ⟨(hso false).1, (hkinds false).1⟩
  -- the walker after the optional zeroing
  have hvis := tw_visit_internal H cfg skip a P b (specNode H O (P ++ [false])) (specNode H O (P ++ [true]))
    (H.internal (specNode H O (P ++ [false])) (specNode H O (P ++ [true]))) hp
  generalize hzdef : (if b then decide (H.kind (specNode H O (P ++ [false])) = .terminator)
                  else decide (H.kind (specNode H O (P ++ [true])) = .terminator)) = z at hzero hvis
  obtain ⟨a1, ha1def⟩ : ∃ a1 : TW Node, a1 = if z = true then a.setSibling H.term else a := ⟨_, rfl⟩
  have ha' : a' = (a1.up).setNode (H.internal (specNode H O (P ++ [false])) (specNode H O (P ++ [true]))) := by
    rw [ha1def]; exact hvis
  have ha1pos : a1.pos = P ++ [b] := by
    rw [ha1def]; cases z <;> simp [TW.setSibling, hp]
  have ha1log : a1.log = a.log ∧ a1.cpr = a.cpr := by
    rw [ha1def]; cases z <;> exact ⟨rfl, rfl⟩
  have hne' : ∀ x : Bool, P ++ [x] ≠ P := by
    intro x e; have := congrArg List.length e; simp at this
  have hflip : P ++ [!b] ≠ P ++ [b] := by
    intro e; have := List.append_cancel_left e; cases b <;> simp at this
  -- the store of a1
  have ha1st : ∀ q, q ≠ P ++ [!b] → a1.store q = a.store q := by
    intro q hq
    rw [ha1def]
    cases z
    · rfl
    · simp [TW.setSibling, hp, sibPath_snoc, upd_other _ _ _ _ hq]
  have ha1sib : Good H O a1.store (P ++ [!b]) ∧ SubOK H D O a1.store (P ++ [!b]) := by
    rcases hsib with he | ⟨hne2, hg2, hs2⟩
    · have hz : z = true := hzero.mpr he
      constructor
      · show a1.store _ = _
        rw [ha1def, hz]
        simp [TW.setSibling, hp, sibPath_snoc, upd_same, specNode_nil_eq H O _ he]
      · intro r hpre hner hlen hD hmean
        exact absurd hmean (not_mean_below hk (P ++ [!b]) r (by rw [he]; simp) hpre hner hlen)
    · have hz : z = false := by
        cases z
        · rfl
        · exact absurd (hzero.mp rfl) hne2
      have : a1 = a := by rw [ha1def, hz]; rfl
      rw [this]; exact ⟨hg2, hs2⟩
  have ha1g : Good H O a1.store (P ++ [b]) := by
    show a1.store _ = _
    rw [ha1st _ hflip.symm]; exact hg
  have ha1sub : SubOK H D O a1.store (P ++ [b]) := by
    intro r hpre hner hlen hD hmean
    have : r ≠ P ++ [!b] := by
      intro e
      rw [e] at hpre
      have := not_prefix_flip P b (P ++ [!b]) hpre (List.prefix_refl _)
      exact this
    rw [ha1st _ this]; exact hsub r hpre hner hlen hD hmean
  -- every meaningful slot strictly below P is right in a1
  have hbelow : SubOK H D O a1.store P := by
    intro r hpre hner hlen hD hmean
    obtain ⟨b', rest, rfl⟩ := prefix_strict_cases hpre hner
    have hcases : b' = b ∨ b' = !b := by cases b <;> cases b' <;> simp
    cases rest with
    | nil =>
      rcases hcases with h | h <;> subst h
      · exact ha1g
      · exact ha1sib.1
    | cons x xs =>
      have hl : ∀ y : Bool, P ++ b' :: x :: xs ≠ P ++ [y] := by
        intro y e; have := congrArg List.length e; simp at this
      rcases hcases with h | h <;> subst h
      · exact ha1sub _ (snoc_prefix_of_cons P _ (x :: xs)) (hl _) hlen hD hmean
      · exact ha1sib.2 _ (snoc_prefix_of_cons P _ (x :: xs)) (hl _) hlen hD hmean
  have hupst : (a1.up).store = a1.store := by unfold TW.up; split <;> rfl
  have huppos : (a1.up).pos = P := by unfold TW.up; simp [ha1pos]
  have hupcpr : (a1.up).cpr = a.cpr := by unfold TW.up; split <;> exact ha1log.2
  have huplog : (a1.up).log = if dip a1.pos = 1 then a1.log ++ [(specPage a1.pos, a1.store)] else a1.log := by
    unfold TW.up; split <;> rfl
  rw [ha']
  refine ⟨?_, ?_, ?_, ?_, ?_, ?_, ?_⟩
  · simp [TW.setNode, huppos]
  · show (a1.up.setNode _).store P = _
    simp only [TW.setNode, huppos, upd_same]
    exact hnode.symm
  · have := subOK_upd_self H D (S := O) a1.store P
      (H.internal (specNode H O (P ++ [false])) (specNode H O (P ++ [true]))) hbelow
    simpa [TW.setNode, huppos, hupst] using this
  · intro q hq
    have hqP : q ≠ P := by intro e; apply hq; rw [e]; exact List.prefix_refl _
    have hqs : q ≠ P ++ [!b] := by intro e; apply hq; rw [e]; exact List.prefix_append _ _
    simp only [TW.setNode, huppos, upd_other _ _ _ _ hqP, hupst]
    exact ha1st q hqs
  · intro e he
    simp only [TW.setNode] at he
    rw [huplog] at he
    split at he
    · rename_i hd
      rw [List.mem_append, List.mem_singleton] at he
      rcases he with he | he
      · left; rw [← ha1log.1]; exact he
      · right
        subst he
        intro q hq hpg hq256 hD hmean
        have := page_members_below a1.pos q (by rw [ha1pos]; simp) hd hq hpg
        rw [ha1pos] at this
        simp only [List.dropLast_concat] at this
        exact hbelow q this.1 this.2 hq256 hD hmean
    · left; rw [← ha1log.1]; exact he
  · intro e he
    simp only [TW.setNode]
    rw [huplog, ha1log.1]
    split
    · exact List.mem_append_left _ he
    · exact he
  · simp [TW.setNode, hupcpr]

/-! ## the `Leaf` call -/

theorem tw_leaf_step (hs : H.Sound) {O : List (Key × VH)} (hk : KeysOK O) (cfg : TWCfg Node) (t P : Path)
    (prev : Option Key) (J : Path) (a : TW Node) (k : Key) (v : VH)
    (htP : t <+: P) (hP : P.length ≤ 256) (hsubP : sub O P = [(k, v)]) (hJ : J <+: P)
    (hpre : PreJ t.length t prev [(k, v)] J a.pos) :
    let a' := TW.visit H cfg t.length a (leafEv H t.length (P.length - t.length) prev k v)
    a'.pos = P ∧ Good H O a'.store P ∧ SubOK H D O a'.store P ∧
    (∀ q, ¬ J <+: q → a'.store q = a.store q) ∧ a'.log = a.log ∧ a'.cpr = a.cpr := by
  intro a'
  have hkP : P <+: k := by
    have : (k, v) ∈ sub O P := by rw [hsubP]; simp
    exact ((mem_sub hk P hP (k, v)).mp this).2
  have htake : k.take P.length = P := (bl_prefix_iff_take P k).mp hkP
  have hle : t.length ≤ P.length := htP.length_le
  have hse : t.length + (P.length - t.length) = P.length := by omega
  have hgoodP : ∀ st : Store Node, st P = H.leaf k v → Good H O st P := by
    intro st h; unfold Good; rw [h, specNode_single_eq H O P (k, v) hsubP]
  have hsubok : ∀ st : Store Node, SubOK H D O st P := by
    intro st r hpre' hner hlen hD hmean
    exact absurd hmean (not_mean_below hk P r (by rw [hsubP]; simp) hpre' hner hlen)
  cases prev with
  | none =>
    obtain ⟨hpos, hJt⟩ := hpre
    have hev : leafEv H t.length (P.length - t.length) none k v =
        .leaf false (P.drop t.length) k v (H.leaf k v) := by
      unfold leafEv; simp [hse, htake]
    have ha' : a' = (a.down cfg (P.drop t.length) true).setNode (H.leaf k v) := by
      show TW.visit H cfg t.length a _ = _
      rw [hev]; exact tw_visit_leaf_first H cfg _ a _ k v _
    obtain ⟨d1, d2, d3, d4⟩ := tw_down_spec cfg (P.drop t.length) a true
    have hposP : (a.down cfg (P.drop t.length) true).pos = P := by
      rw [d1, hpos]; exact List.prefix_iff_eq_append.mp htP
    rw [ha']
    refine ⟨by simp [TW.setNode, hposP], hgoodP _ (by simp [TW.setNode, hposP, upd_same]), hsubok _, ?_, ?_, ?_⟩
    · intro q hq
      have hqP : q ≠ P := by intro e; apply hq; rw [e]; exact hJ
      simp only [TW.setNode, hposP, upd_other _ _ _ _ hqP]
      apply d4
      rw [hpos, ← hJt]
      exact fun h => hq h.1
    · simp [TW.setNode, d2]
    · simp [TW.setNode, d3]
  | some pk =>
    obtain ⟨x, hpos, hJx, hxl, hsh⟩ := hpre
    have hsh' := hsh (k, v) (by simp)
    simp only at hsh'
    have hxP : (x ++ [true]) <+: P := by rw [← hJx]; exact hJ
    have hdrop : P.drop x.length = true :: P.drop (x.length + 1) := by
      obtain ⟨tl, htl⟩ := hxP
      rw [← htl]
      simp [List.drop_append]
    have hev : leafEv H t.length (P.length - t.length) (some pk) k v =
        .leaf true (true :: P.drop (x.length + 1)) k v (H.leaf k v) := by
      unfold leafEv
      simp only [Option.isSome_some, Option.map_some, Option.getD_some, hse, htake, hsh']
      have : t.length + (x.length - t.length) = x.length := by omega
      rw [this, hdrop]
    have ha' : a' = (({ a with pos := x ++ [true] } : TW Node).down cfg (P.drop (x.length + 1)) true).setNode (H.leaf k v) := by
      show TW.visit H cfg t.length a _ = _
      rw [hev]; exact tw_visit_leaf_jump H cfg _ a x _ k v _ hpos
    obtain ⟨d1, d2, d3, d4⟩ := tw_down_spec cfg (P.drop (x.length + 1)) ({ a with pos := x ++ [true] } : TW Node) true
    have hposP : (({ a with pos := x ++ [true] } : TW Node).down cfg (P.drop (x.length + 1)) true).pos = P := by
      rw [d1]
      have := List.prefix_iff_eq_append.mp hxP
      simpa using this
    rw [ha']
    refine ⟨by simp [TW.setNode, hposP], hgoodP _ (by simp [TW.setNode, hposP, upd_same]), hsubok _, ?_, ?_, ?_⟩
    · intro q hq
      have hqP : q ≠ P := by intro e; apply hq; rw [e]; exact hJ
      simp only [TW.setNode, hposP, upd_other _ _ _ _ hqP]
      rw [d4 q]
      simp only
      rw [← hJx]
      exact fun h => hq h.1
    · simp [TW.setNode, d2]
    · simp [TW.setNode, d3]

/-! ## the whole block -/

theorem treeEv_sub_two {O : List (Key × VH)} (t P : Path) (htP : t <+: P) (hP : P.length < 256)
    (h2 : 2 ≤ (sub O P).length) (prev : Option Key) :
    treeEv H t.length (256 - P.length) (P.length - t.length) (sub O P) prev =
      treeEv H t.length (256 - (P ++ [false]).length) ((P ++ [false]).length - t.length) (sub O (P ++ [false])) prev ++
      treeEv H t.length (256 - (P ++ [true]).length) ((P ++ [true]).length - t.length) (sub O (P ++ [true]))
        (prevOf (sub O (P ++ [false])) prev) ++
      [.internal (specNode H O (P ++ [false])) (specNode H O (P ++ [true]))
        (H.internal (specNode H O (P ++ [false])) (specNode H O (P ++ [true])))] := by
  have hle : t.length ≤ P.length := htP.length_le
  have e1 : 256 - P.length = (255 - P.length) + 1 := by omega
  have e2 : t.length + (P.length - t.length) = P.length := by omega
  have e3 : ∀ b : Bool, 256 - (P ++ [b]).length = 255 - P.length := by intro b; simp
  have e4 : ∀ b : Bool, (P ++ [b]).length - t.length = (P.length - t.length) + 1 := by intro b; simp; omega
  unfold specNode
  rw [e3, e3, e4, e4, sub_snoc, sub_snoc]
  simp only [List.length_append, List.length_singleton]
  match hB : sub O P, h2 with
  | x :: y :: rest, _ =>
    rw [e1, treeEv_two, e2]

/-- folding the visitor over the post-order calls of the block below `P` builds the specified sub-trie below `P` -/
theorem tw_visit_tree (hs : H.Sound) {O : List (Key × VH)} (hk : KeysOK O) (cfg : TWCfg Node) (t : Path) :
    ∀ (f : Nat) (P : Path) (prev : Option Key) (J : Path) (a : TW Node),
      256 - P.length = f → t <+: P → P.length ≤ 256 → sub O P ≠ [] → J <+: P →
      PreJ t.length t prev (sub O P) J a.pos →
      let a' := TW.visitAll H cfg t.length a
        (treeEv H t.length (256 - P.length) (P.length - t.length) (sub O P) prev)
      a'.pos = P ∧ Good H O a'.store P ∧ SubOK H D O a'.store P ∧ (∀ q, ¬ J <+: q → a'.store q = a.store q) ∧
      (∀ e ∈ a'.log, e ∈ a.log ∨ LogOK H D O e) ∧ (∀ e ∈ a.log, e ∈ a'.log) ∧ a'.cpr = a.cpr := by
  intro f
  induction f with
  | zero =>
    intro P prev J a hf htP hP hne hJ hpre
    -- `P` has all 256 bits: a single key
    have hP256 : P.length = 256 := by omega
    have h1 := sub_length_le_one_of_full hk P hP256
    match hB : sub O P, hne, h1 with
    | [(k, v)], _, _ =>
      rw [hB] at hpre
      simp only [treeEv_single, TW.visitAll]
      obtain ⟨r1, r2, r3, r4, r5, r6⟩ := tw_leaf_step H D hs hk cfg t P prev J a k v htP hP hB hJ hpre
      exact ⟨r1, r2, r3, r4, fun e he => Or.inl (by rw [← r5]; exact he), fun e he => by rw [r5]; exact he, r6⟩
  | succ f ih =>
    intro P prev J a hf htP hP hne hJ hpre
    match hB : sub O P, hne with
    | [(k, v)], _ =>
      rw [hB] at hpre
      simp only [treeEv_single, TW.visitAll]
      obtain ⟨r1, r2, r3, r4, r5, r6⟩ := tw_leaf_step H D hs hk cfg t P prev J a k v htP hP hB hJ hpre
      exact ⟨r1, r2, r3, r4, fun e he => Or.inl (by rw [← r5]; exact he), fun e he => by rw [r5]; exact he, r6⟩
    | x :: y :: rest, _ =>
      have h2 : 2 ≤ (sub O P).length := by rw [hB]; simp
      have hPlt : P.length < 256 := lt_of_two_le_sub hk P hP h2
      rw [← hB, treeEv_sub_two H t P htP hPlt h2 prev, tw_visitAll_append, tw_visitAll_append]
      simp only [TW.visitAll]
      have hf' : ∀ b : Bool, 256 - (P ++ [b]).length = f := by intro b; simp; omega
      have htP' : ∀ b : Bool, t <+: (P ++ [b]) := fun b => List.IsPrefix.trans htP (List.prefix_append _ _)
      have hP' : ∀ b : Bool, (P ++ [b]).length ≤ 256 := by intro b; simp; omega
      have hJ' : ∀ b : Bool, J <+: (P ++ [b]) := fun b => List.IsPrefix.trans hJ (List.prefix_append _ _)
      have hmono : ∀ b : Bool, ∀ kv ∈ sub O (P ++ [b]), kv ∈ sub O P :=
        fun b => sub_mono hk P (P ++ [b]) (List.prefix_append _ _) (hP' b)
      have hsplit := sub_length_split (S := O) P
      have hJout : ∀ q, ¬ J <+: q → ¬ P <+: q := fun q hq h => hq (List.IsPrefix.trans hJ h)
      by_cases h0 : sub O (P ++ [false]) = []
      · -- everything on the right
        have h1 : sub O (P ++ [true]) ≠ [] := by
          intro h1; rw [h0, h1] at hsplit; simp at hsplit; rw [hsplit] at h2; simp at h2
        rw [h0, treeEv_nil]
        simp only [TW.visitAll]
        have hpo : prevOf ([] : List (Key × VH)) prev = prev := rfl
        rw [hpo]
        obtain ⟨p1, p2, p3, p4, p5, p6, p7⟩ := ih (P ++ [true]) prev J a (hf' true) (htP' true) (hP' true) h1 (hJ' true)
          (preJ_mono _ _ _ _ _ _ _ hpre (hmono true))
        obtain ⟨q1, q2, q3, q4, q5, q6, q7⟩ := tw_internal_step H D hs hk cfg t.length _ P true hPlt p1 h2 p2 p3 h1
          (Or.inl (by simpa using h0))
        refine ⟨q1, q2, q3, ?_, ?_, ?_, by rw [q7, p7]⟩
        · intro q hq; rw [q4 q (hJout q hq), p4 q hq]
        · intro e he
          rcases q5 e he with h | h
          · exact p5 e h
          · exact Or.inr h
        · intro e he; exact q6 e (p6 e he)
      · by_cases h1 : sub O (P ++ [true]) = []
        · -- everything on the left
          rw [h1, treeEv_nil]
          simp only [TW.visitAll]
          obtain ⟨p1, p2, p3, p4, p5, p6, p7⟩ := ih (P ++ [false]) prev J a (hf' false) (htP' false) (hP' false) h0
            (hJ' false) (preJ_mono _ _ _ _ _ _ _ hpre (hmono false))
          obtain ⟨q1, q2, q3, q4, q5, q6, q7⟩ := tw_internal_step H D hs hk cfg t.length _ P false hPlt p1 h2 p2 p3 h0
            (Or.inl (by simpa using h1))
          refine ⟨q1, q2, q3, ?_, ?_, ?_, by rw [q7, p7]⟩
          · intro q hq; rw [q4 q (hJout q hq), p4 q hq]
          · intro e he
            rcases q5 e he with h | h
            · exact p5 e h
            · exact Or.inr h
          · intro e he; exact q6 e (p6 e he)
        · -- both sides
          obtain ⟨p1, p2, p3, p4, p5, p6, p7⟩ := ih (P ++ [false]) prev J a (hf' false) (htP' false) (hP' false) h0
            (hJ' false) (preJ_mono _ _ _ _ _ _ _ hpre (hmono false))
          -- the key before the right block
          obtain ⟨init0, l0, hinit⟩ : ∃ init l, sub O (P ++ [false]) = init ++ [l] :=
            ⟨(sub O (P ++ [false])).dropLast, (sub O (P ++ [false])).getLast h0,
              (List.dropLast_concat_getLast h0).symm⟩
          have hl0 : l0 ∈ sub O (P ++ [false]) := by rw [hinit]; simp
          have hpo : prevOf (sub O (P ++ [false])) prev = some l0.1 := by
            rw [hinit]; exact prevOf_append_singleton _ _ _
          rw [hpo]
          have hle : t.length ≤ P.length := htP.length_le
          have hpre1 : PreJ t.length t (some l0.1) (sub O (P ++ [true])) (P ++ [true])
              (TW.visitAll H cfg t.length a (treeEv H t.length (256 - (P ++ [false]).length)
                ((P ++ [false]).length - t.length) (sub O (P ++ [false])) prev)).pos := by
            refine ⟨P, p1, rfl, hle, ?_⟩
            intro kv hkv
            have m0 := (mem_sub hk (P ++ [false]) (hP' false) l0).mp hl0
            have m1 := (mem_sub hk (P ++ [true]) (hP' true) kv).mp hkv
            have hlen0 := hk.len l0 m0.1
            have hlen1 := hk.len kv m1.1
            have ht0 : l0.1.take (P ++ [false]).length = P ++ [false] := (bl_prefix_iff_take _ _).mp m0.2
            have ht1 : kv.1.take (P ++ [true]).length = P ++ [true] := (bl_prefix_iff_take _ _).mp m1.2
            have hPP0 : l0.1.take P.length = P := by
              have := congrArg (List.take P.length) ht0
              simpa [List.take_take] using this
            have hPP1 : kv.1.take P.length = P := by
              have := congrArg (List.take P.length) ht1
              simpa [List.take_take] using this
            have hb0 : l0.1.getD P.length false = false := by
              have := bl_getD_of_prefix _ _ m0.2 P.length (by simp)
              simpa using this
            have hb1 : kv.1.getD P.length false = true := by
              have := bl_getD_of_prefix _ _ m1.2 P.length (by simp)
              simpa using this
            have e : t.length + (P.length - t.length) = P.length := by omega
            apply sharedRel_split t.length (P.length - t.length) l0.1 kv.1
            · rw [e, hPP0, hPP1]
            · rw [e, hlen0]; exact hPlt
            · rw [e, hlen1]; exact hPlt
            · rw [e, hb0, hb1]; simp
          obtain ⟨r1, r2, r3, r4, r5, r6, r7⟩ := ih (P ++ [true]) (some l0.1) (P ++ [true]) _ (hf' true) (htP' true)
            (hP' true) h1 (List.prefix_refl _) hpre1
          -- the left sub-trie survives the right block
          have hkeep : ∀ q, (P ++ [false]) <+: q →
              (TW.visitAll H cfg t.length (TW.visitAll H cfg t.length a
                (treeEv H t.length (256 - (P ++ [false]).length) ((P ++ [false]).length - t.length)
                  (sub O (P ++ [false])) prev))
                (treeEv H t.length (256 - (P ++ [true]).length) ((P ++ [true]).length - t.length)
                  (sub O (P ++ [true])) (some l0.1))).store q =
              (TW.visitAll H cfg t.length a
                (treeEv H t.length (256 - (P ++ [false]).length) ((P ++ [false]).length - t.length)
                  (sub O (P ++ [false])) prev)).store q := by
            intro q hq
            apply r4
            have := not_prefix_flip P false q hq
            simpa using this
          obtain ⟨q1, q2, q3, q4, q5, q6, q7⟩ := tw_internal_step H D hs hk cfg t.length _ P true hPlt r1 h2 r2 r3 h1
            (Or.inr ⟨by simpa using h0, by
              show _ = _
              simp only [Bool.not_true]
              rw [hkeep _ (List.prefix_refl _)]; exact p2, by
              intro r hpre' hner hlen hD hmean
              simp only [Bool.not_true] at hpre' hner ⊢
              rw [hkeep _ hpre']; exact p3 r hpre' hner hlen hD hmean⟩)
          refine ⟨q1, q2, q3, ?_, ?_, ?_, by rw [q7, r7, p7]⟩
          · intro q hq
            rw [q4 q (hJout q hq), r4 q (fun h => hJout q hq (List.IsPrefix.trans (List.prefix_append _ _) h)), p4 q hq]
          · intro e he
            rcases q5 e he with h | h
            · rcases r5 e h with h' | h'
              · exact p5 e h'
              · exact Or.inr h'
            · exact Or.inr h
          · intro e he; exact q6 e (r6 e (p6 e he))

end Nomt.Walker
