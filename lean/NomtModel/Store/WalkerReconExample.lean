import NomtModel.Store.WalkerReconRun
import NomtModel.Store.WalkerReconMut
import NomtModel.Core.Sorted
/-!
# A concrete instance of the hypotheses of `reconstructPages_correct` (free term hasher)

Two leaves `0…0` and `0^6·1·0…` below the position `0^6` (bottom layer of the root page), the child page `[0]` not in the (empty)
page set, pool pages zeroed.
-/
namespace Nomt.Walker.RecEx
open Nomt Nomt.Walker Nomt.TriePos

def ra : Key := List.replicate 256 false
def rb : Key := List.replicate 6 false ++ [true] ++ List.replicate 249 false
def rO : List (Key × Nat) := [(ra, 1), (rb, 2)]
def rpath : Path := List.replicate 6 false
def rpos : Pos := posOfPath rpath
def rps : PageSet T := { get := fun _ => none, fresh := fun _ => List.replicate 126 T.term }

theorem rkeys : KeysOK rO := by
  have hlen : ∀ kv ∈ rO, kv.1.length = 256 := by decide +kernel
  refine ⟨?_, hlen⟩
  apply canon_of_sorted 256 0 rO []
  · unfold SortedKV
    have hab : lexLt ra rb := bl_lexLt ra rb (by decide +kernel) (by decide +kernel)
    exact List.Pairwise.cons (fun y hy => by rw [List.mem_singleton] at hy; rw [hy]; exact hab)
      (List.Pairwise.cons (fun y hy => by cases hy) List.Pairwise.nil)
  · intro kv hkv; rw [hlen kv hkv]
  · intro kv _; rfl

theorem rpos_path : rpos.path = rpath := (posOfPath_wf rpath (by decide)).2

theorem rpre : ReconPre TH rps rpos rO where
  sound := TH_sound
  keys := rkeys
  wf := (posOfPath_wf rpath (by decide)).1
  ne := by rw [rpos_path]; decide
  d6 := by decide
  under := by rw [rpos_path]; decide +kernel
  two := by decide
  small := by decide
  fresh := fun _ => by simp [rps]
  absent := rfl

end Nomt.Walker.RecEx
