import NomtModel.Store.LeafUpdModel
/-!
# Leaf updater: denotation of the op list, well-formedness, size arithmetic

`den b? ops` is the list of entries an op list stands for (a `KeepChunk(from, to, _)` = the entries `from … to-1` of
the base).  `WF b? ops`: every chunk is a non-empty range of the base whose recorded values size is the real one.
-/
namespace Nomt.LeafUpd
variable {V : Type} [CellSize V]

/-! ## slices -/

theorem slice_self (l : List α) (f : Nat) : slice l f f = [] := by simp [slice]

theorem slice_length (l : List α) (f t : Nat) (h : t ≤ l.length) : (slice l f t).length = t - f := by
  simp [slice]; omega

theorem slice_append (l : List α) (f m t : Nat) (h1 : f ≤ m) (h2 : m ≤ t) :
    slice l f m ++ slice l m t = slice l f t := by
  unfold slice
  have e : t - f = (m - f) + (t - m) := by omega
  rw [e, List.take_add, List.drop_drop]
  have : f + (m - f) = m := by omega
  rw [this]

theorem slice_succ (l : List α) (f : Nat) (h : f < l.length) : slice l f (f + 1) = [l[f]] := by
  unfold slice
  have : f + 1 - f = 1 := by omega
  rw [this, List.drop_eq_getElem_cons h]
  rfl

theorem slice_zero_length (l : List α) : slice l 0 l.length = l := by simp [slice]

theorem slice_eq_drop (l : List α) (f t : Nat) (h : l.length ≤ t) : slice l f t = l.drop f := by
  unfold slice
  apply List.take_of_length_le
  simp; omega

theorem slice_cons_of_lt (l : List α) (f t : Nat) (h1 : f < t) (h2 : f < l.length) :
    slice l f t = l[f] :: slice l (f + 1) t := by
  rw [← slice_append l f (f + 1) t (by omega) (by omega), slice_succ l f h2]; rfl

theorem mem_slice {l : List α} {f t : Nat} {x : α} (h : x ∈ slice l f t) : x ∈ l :=
  List.mem_of_mem_drop (List.mem_of_mem_take h)

theorem drop_eq_slice_append (l : List α) (f t : Nat) (h1 : f ≤ t) :
    l.drop f = slice l f t ++ l.drop t := by
  unfold slice
  have : l.drop t = (l.drop f).drop (t - f) := by rw [List.drop_drop]; congr 1; omega
  rw [this, List.take_append_drop]

/-! ## sizes -/

@[simp] theorem total_nil : total ([] : List (Entry V)) = 0 := rfl
@[simp] theorem total_cons (e : Entry V) (l : List (Entry V)) : total (e :: l) = e.size + total l := by
  simp [total]
@[simp] theorem total_append (a b : List (Entry V)) : total (a ++ b) = total a + total b := by
  simp [total, List.sum_append_nat]

/-- the gauge of a list of entries -/
def gaugeOf (l : List (Entry V)) : Gauge := ⟨l.length, total l⟩

/-- `body_size` of a list of entries -/
def bodyOf (l : List (Entry V)) : Nat := bodySize l.length (total l)

theorem bodyOf_eq (l : List (Entry V)) : bodyOf l = 34 * l.length + total l := by
  simp [bodyOf, bodySize]; omega

@[simp] theorem bodyOf_nil : bodyOf ([] : List (Entry V)) = 0 := by simp [bodyOf_eq]
theorem bodyOf_cons (e : Entry V) (l : List (Entry V)) : bodyOf (e :: l) = 34 + e.size + bodyOf l := by
  simp [bodyOf_eq]; omega
theorem bodyOf_append (a b : List (Entry V)) : bodyOf (a ++ b) = bodyOf a + bodyOf b := by
  simp [bodyOf_eq]; omega

theorem gaugeOf_body (l : List (Entry V)) : (gaugeOf l).body = bodyOf l := rfl
@[simp] theorem gaugeOf_nil : gaugeOf ([] : List (Entry V)) = {} := rfl

theorem gaugeOf_append (a b : List (Entry V)) : gaugeOf (a ++ b) = (gaugeOf a).ingest b.length (total b) := by
  simp [gaugeOf, Gauge.ingest]

theorem gauge_bodyAfter (g : Gauge) (n vs : Nat) : g.bodyAfter n vs = g.body + 34 * n + vs := by
  simp [Gauge.bodyAfter, Gauge.body, bodySize]; omega

theorem gauge_ingest_body (g : Gauge) (n vs : Nat) : (g.ingest n vs).body = g.body + 34 * n + vs := by
  simp [Gauge.ingest, Gauge.body, bodySize]; omega

theorem bodyOf_pos {l : List (Entry V)} (h : l ≠ []) : 34 ≤ bodyOf l := by
  cases l with
  | nil => exact absurd rfl h
  | cons e r => rw [bodyOf_cons]; omega

theorem eq_nil_of_bodyOf_zero {l : List (Entry V)} (h : bodyOf l = 0) : l = [] := by
  cases l with
  | nil => rfl
  | cons e r => rw [bodyOf_cons] at h; omega

/-! ## the entries an op list stands for -/

def baseEnts (b? : Option (Base V)) : List (Entry V) :=
  match b? with
  | some b => b.ents
  | none => []

def denOp (b? : Option (Base V)) : Op V → List (Entry V)
  | .ins e => [e]
  | .keep f t _ => slice (baseEnts b?) f t

def den (b? : Option (Base V)) : List (Op V) → List (Entry V)
  | [] => []
  | op :: r => denOp b? op ++ den b? r

@[simp] theorem den_nil (b? : Option (Base V)) : den b? [] = [] := rfl
@[simp] theorem den_cons (b? : Option (Base V)) (op : Op V) (r : List (Op V)) :
    den b? (op :: r) = denOp b? op ++ den b? r := rfl

@[simp] theorem den_append (b? : Option (Base V)) (a c : List (Op V)) : den b? (a ++ c) = den b? a ++ den b? c := by
  induction a with
  | nil => rfl
  | cons op r ih => simp [ih]

theorem den_congr {b1 b2 : Option (Base V)} (h : baseEnts b1 = baseEnts b2) (ops : List (Op V)) :
    den b1 ops = den b2 ops := by
  induction ops with
  | nil => rfl
  | cons op r ih =>
    cases op with
    | ins e => simp [denOp, ih]
    | keep f t vs => simp [denOp, ih, h]

/-- a chunk is a non-empty range of the base with the right values size -/
def OpOK (b? : Option (Base V)) : Op V → Prop
  | .ins _ => True
  | .keep f t vs => b?.isSome ∧ f < t ∧ t ≤ (baseEnts b?).length ∧ vs = valuesSize (baseEnts b?) f t

def WF (b? : Option (Base V)) (ops : List (Op V)) : Prop := ∀ op ∈ ops, OpOK b? op

theorem WF.nil (b? : Option (Base V)) : WF b? [] := by intro op h; simp at h

theorem wf_cons {b? : Option (Base V)} {op : Op V} {r : List (Op V)} :
    WF b? (op :: r) ↔ OpOK b? op ∧ WF b? r := by
  simp [WF]

theorem wf_append {b? : Option (Base V)} {a c : List (Op V)} : WF b? (a ++ c) ↔ WF b? a ∧ WF b? c := by
  simp [WF, or_imp, forall_and]

theorem WF.congr {b1 b2 : Option (Base V)} (h : baseEnts b1 = baseEnts b2) (hs : b1.isSome = b2.isSome)
    {ops : List (Op V)} (hw : WF b1 ops) : WF b2 ops := by
  intro op hop
  have := hw op hop
  cases op with
  | ins e => trivial
  | keep f t vs => simp only [OpOK] at this ⊢; rw [← h, ← hs]; exact this

theorem valuesSize_eq (ents : List (Entry V)) (f t : Nat) : valuesSize ents f t = total (slice ents f t) := rfl

theorem valuesSize_split (ents : List (Entry V)) (f m t : Nat) (h1 : f ≤ m) (h2 : m ≤ t) :
    valuesSize ents f t = valuesSize ents f m + valuesSize ents m t := by
  simp only [valuesSize_eq, ← slice_append ents f m t h1 h2, total_append]

theorem Op.count_eq_of_ok {b? : Option (Base V)} {op : Op V} (h : OpOK b? op) :
    op.count = (denOp b? op).length := by
  cases op with
  | ins e => rfl
  | keep f t vs =>
    obtain ⟨_, _, h3, _⟩ := h
    simp [Op.count, denOp, slice_length _ _ _ h3]

theorem opsCount_eq_of_wf {b? : Option (Base V)} {ops : List (Op V)} (h : WF b? ops) :
    opsCount ops = (den b? ops).length := by
  induction ops with
  | nil => rfl
  | cons op r ih =>
    rw [wf_cons] at h
    simp only [opsCount, List.map_cons, List.sum_cons, den_cons, List.length_append]
    rw [Op.count_eq_of_ok h.1]
    have := ih h.2
    simp only [opsCount] at this
    omega

theorem opEnts_of_ok {b? : Option (Base V)} {op : Op V} (h : OpOK b? op) : opEnts b? op = some (denOp b? op) := by
  cases op with
  | ins e => rfl
  | keep f t vs =>
    obtain ⟨h0, h1, h2, h3⟩ := h
    cases b? with
    | none => simp at h0
    | some b =>
      simp only [baseEnts] at h2 h3
      simp [opEnts, denOp, baseEnts, h1, h2, h3]

theorem opsEnts_of_wf {b? : Option (Base V)} {ops : List (Op V)} (h : WF b? ops) :
    opsEnts b? ops = some (den b? ops) := by
  induction ops with
  | nil => rfl
  | cons op r ih =>
    rw [wf_cons] at h
    simp [opsEnts, opEnts_of_ok h.1, ih h.2]

theorem buildLeaf_of_wf {b? : Option (Base V)} {ops : List (Op V)} (h : WF b? ops) (hb : bodyOf (den b? ops) ≤ BODY) :
    buildLeaf b? ops = some (den b? ops) := by
  unfold buildLeaf
  rw [opsEnts_of_wf h]
  simp only [bodyOf] at hb
  simp [Nat.not_lt.mpr hb]

end Nomt.LeafUpd
