import NomtModel.Store.BitOpsReconstruct
/-!
# `get_key`: reading a separator back from a branch page through `raw_prefix` / `raw_separator` / `reconstruct_key`

Mirror of the read path of `nomt/src/beatree/branch/node.rs` (`BranchNodeView::{n, prefix_compressed, prefix_len,
cell, raw_separators_data, raw_separators, raw_prefix}`, `get_key`) on a page given as a byte list, and the round
trip: on every page whose layout is sane the key returned is **prefix bits ++ stored separator bits ++ zeros**, i.e.
exactly what the on-disk decoder `decodeBranchSep` (Store/ImgFormats.lean) reads — but obtained through the real
code path (8-byte aligned raw slices, `bitwise_memcpy` with its shifts).
-/
namespace Nomt.BitOps

/-- `BRANCH_NODE_HEADER_SIZE` = 4 + 2 + 2 + 2 (tied to the generated constant in Store/ConstantsFormats.lean) -/
abbrev BRANCH_HEADER : Nat := 10

/-- `u16::from_le_bytes(inner[o..][..2])`; `none`: slice out of range -/
def u16At (pg : List Nat) (o : Nat) : Option Nat :=
  if o + 2 ≤ pg.length then some (pg.getD o 0 + 256 * pg.getD (o + 1) 0) else none

def nodeN (pg : List Nat) : Option Nat := u16At pg 4
def nodePc (pg : List Nat) : Option Nat := u16At pg 6
def nodePl (pg : List Nat) : Option Nat := u16At pg 8
def nodeCell (pg : List Nat) (i : Nat) : Option Nat := u16At pg (BRANCH_HEADER + 2 * i)

/-- `&inner[a..b]`; `none`: out of range or `a > b` -/
def sliceOf (pg : List Nat) (a b : Nat) : Option (List Nat) :=
  if a ≤ b ∧ b ≤ pg.length then some ((pg.drop a).take (b - a)) else none

/-- `raw_separators_data(from, to)` → `(start, byte_len, bit_start, bit_len)`.
`none`: `to - 1` or `bit_offset_end - bit_offset_start` underflows, a cell is out of the page. -/
def rawSeparatorsData (pg : List Nat) (frm to : Nat) : Option (Nat × Nat × Nat × Nat) :=
  (nodePl pg).bind fun pl =>
  (nodeN pg).bind fun n =>
  (if frm ≠ 0 then nodeCell pg (frm - 1) else some 0).bind fun c0 =>
  if to = 0 then none else
  (nodeCell pg (to - 1)).bind fun c1 =>
  let bitOffsetStart := pl + c0
  let bitOffsetEnd := pl + c1
  if bitOffsetEnd < bitOffsetStart then none else
  let bitLen := bitOffsetEnd - bitOffsetStart
  let bitStart := bitOffsetStart % 8
  let start := BRANCH_HEADER + n * 2 + bitOffsetStart / 8
  let byteLen := if bitLen = 0 then 0 else ((bitStart + bitLen + 7) / 8 + 7) / 8 * 8      -- next_multiple_of(8)
  some (start, byteLen, bitStart, bitLen)

/-- `raw_separators(from, to)` → `(bytes, bit_start, bit_len)` -/
def rawSeparators (pg : List Nat) (frm to : Nat) : Option (List Nat × Nat × Nat) :=
  (rawSeparatorsData pg frm to).bind fun (start, byteLen, bitStart, bitLen) =>
  (sliceOf pg start (start + byteLen)).map fun bytes => (bytes, bitStart, bitLen)

/-- `raw_prefix()` → `(bytes, bit_len)` -/
def rawPrefix (pg : List Nat) : Option (List Nat × Nat) :=
  (nodePl pg).bind fun pl =>
  (nodeN pg).bind fun n =>
  let start := BRANCH_HEADER + n * 2
  (sliceOf pg start (start + (pl + 7) / 8)).map fun bytes => (bytes, pl)

/-- `get_key(node, index)` -/
def getKey (pg : List Nat) (index : Nat) : Option (List Nat) :=
  (nodePc pg).bind fun pc =>
  (if index < pc then (rawPrefix pg).map some else some none).bind fun prefix? =>
  (rawSeparators pg index (index + 1)).bind fun (bytes, bitStart, bitLen) =>
  reconstructKey prefix? bytes bitStart bitLen

/-! ## the round trip -/

theorem bitOf_slice (l : List Nat) (a m p : Nat) : bitOf ((l.drop a).take m) p = (decide (p < 8 * m) && bitOf l (8 * a + p)) := by
  rw [bitOf_take]
  unfold bitOf
  have e1 : (8 * a + p) / 8 = a + p / 8 := by omega
  have e2 : (8 * a + p) % 8 = p % 8 := by omega
  rw [e1, e2, List.getD_eq_getElem?_getD, List.getD_eq_getElem?_getD, List.getElem?_drop]

theorem bytesOfBits_congr (f g : Nat → Bool) (n : Nat) (h : ∀ p, p < 8 * n → f p = g p) :
    bytesOfBits f n = bytesOfBits g n := by
  unfold bytesOfBits
  apply List.map_congr_left
  intro k hk
  have hk' : k < n := List.mem_range.mp hk
  apply byte_ext (byteOfBits_lt _ _) (byteOfBits_lt _ _)
  intro u hu
  rw [testBit_byteOfBits, testBit_byteOfBits, h _ (by omega)]

/-- bit `p` of the key stored as separator `i`: the shared prefix (if compressed), the stored bits, zeros -/
def storedKeyBit (pg : List Nat) (n pc pl s e i p : Nat) : Bool :=
  let B := fun q => bitOf pg (8 * (BRANCH_HEADER + 2 * n) + q)
  let pfx := if i < pc then pl else 0
  if p < pfx then B p else if p < pfx + (e - s) then B (pl + s + (p - pfx)) else false

/-- the layout facts `get_key` relies on (all checked by the decoder `decodeBranch` on real pages) -/
structure NodeOK (pg : List Nat) (n pc pl s e last i : Nat) : Prop where
  bytes : Bytes pg
  len : pg.length = 4096
  hn : nodeN pg = some n
  hpc : nodePc pg = some pc
  hpl : nodePl pg = some pl
  hs : (if i ≠ 0 then nodeCell pg (i - 1) else some 0) = some s
  he : nodeCell pg i = some e
  npos : 1 ≤ n
  hi : i < n
  pl256 : pl ≤ 256
  mono : s ≤ e
  elast : e ≤ last
  total : (if i < pc then pl else 0) + (e - s) ≤ 256
  fit : BRANCH_HEADER + 2 * n + (pl + last + 7) / 8 + 4 * n ≤ 4096

theorem getKey_spec (pg : List Nat) (n pc pl s e last i : Nat) (h : NodeOK pg n pc pl s e last i) :
    getKey pg i = some (bytesOfBits (storedKeyBit pg n pc pl s e i) 32) := by
  obtain ⟨hB, hlen, hn, hpc, hpl, hs, he, npos, hi, pl256, mono, elast, total, fit⟩ := h
  simp only [BRANCH_HEADER] at fit
  have hdata : rawSeparatorsData pg i (i + 1) =
      some (10 + n * 2 + (pl + s) / 8,
            (if e - s = 0 then 0 else (((pl + s) % 8 + (e - s) + 7) / 8 + 7) / 8 * 8), (pl + s) % 8, e - s) := by
    unfold rawSeparatorsData
    simp only [hpl, hn, Option.bind_some, hs, Nat.add_sub_cancel, he, BRANCH_HEADER]
    rw [if_neg (by omega), if_neg (by omega)]
    have : pl + e - (pl + s) = e - s := by omega
    simp only [this]
  have hfits : 10 + n * 2 + (pl + s) / 8 + (if e - s = 0 then 0 else (((pl + s) % 8 + (e - s) + 7) / 8 + 7) / 8 * 8) ≤ pg.length := by
    rw [hlen]
    have hk : (pl + s) / 8 + ((pl + s) % 8 + (e - s) + 7) / 8 = (pl + e + 7) / 8 := by omega
    have hg : (pl + e + 7) / 8 ≤ (pl + last + 7) / 8 := by omega
    have hj : (((pl + s) % 8 + (e - s) + 7) / 8 + 7) / 8 * 8 ≤ ((pl + s) % 8 + (e - s) + 7) / 8 + 7 := by omega
    split
    · omega
    · by_cases h1 : n = 1
      · subst h1
        have hi0 : i = 0 := by omega
        subst hi0
        simp at hs
        have : e - s ≤ 256 := by omega
        omega
      · omega
  have hsep : rawSeparators pg i (i + 1) =
      some ((pg.drop (10 + n * 2 + (pl + s) / 8)).take
              (if e - s = 0 then 0 else (((pl + s) % 8 + (e - s) + 7) / 8 + 7) / 8 * 8), (pl + s) % 8, e - s) := by
    unfold rawSeparators sliceOf
    rw [hdata, Option.bind_some]
    simp only []
    rw [if_pos ⟨by omega, hfits⟩, Option.map_some, Nat.add_sub_cancel_left]
  have hpre : rawPrefix pg = some ((pg.drop (10 + n * 2)).take ((pl + 7) / 8), pl) := by
    unfold rawPrefix sliceOf
    simp only [hpl, hn, Option.bind_some, BRANCH_HEADER]
    rw [if_pos ⟨by omega, by omega⟩, Option.map_some, Nat.add_sub_cancel_left]
  unfold getKey
  rw [hpc, Option.bind_some, hsep]
  simp only [Option.bind_some]
  have hsB : Bytes ((pg.drop (10 + n * 2 + (pl + s) / 8)).take
      (if e - s = 0 then 0 else (((pl + s) % 8 + (e - s) + 7) / 8 + 7) / 8 * 8)) := bytes_take (bytes_drop hB _) _
  have hsL : ((pg.drop (10 + n * 2 + (pl + s) / 8)).take
      (if e - s = 0 then 0 else (((pl + s) % 8 + (e - s) + 7) / 8 + 7) / 8 * 8)).length =
      (if e - s = 0 then 0 else (((pl + s) % 8 + (e - s) + 7) / 8 + 7) / 8 * 8) := by
    rw [List.length_take, List.length_drop]; omega
  have hg3 : e - s = 0 ∨ ((pl + s) % 8 ≤ 7 ∧
      ((pg.drop (10 + n * 2 + (pl + s) / 8)).take
        (if e - s = 0 then 0 else (((pl + s) % 8 + (e - s) + 7) / 8 + 7) / 8 * 8)).length / 8 =
        ((pl + s) % 8 + (e - s) + 63) / 64) := by
    by_cases h0 : e - s = 0
    · left; exact h0
    · right
      rw [hsL, if_neg h0]
      omega
  by_cases hc : i < pc
  · rw [if_pos hc, hpre, Option.map_some]
    simp only [Option.bind_some]
    rw [if_pos hc] at total
    have hpB : Bytes ((pg.drop (10 + n * 2)).take ((pl + 7) / 8)) := bytes_take (bytes_drop hB _) _
    have hpL : ((pg.drop (10 + n * 2)).take ((pl + 7) / 8)).length = (pl + 7) / 8 := by
      rw [List.length_take, List.length_drop]; omega
    rw [reconstructKey_some _ _ _ _ _ hpB hsB total (by rw [hpL]; omega) hg3]
    apply congrArg some
    unfold reconstructSpec
    apply bytesOfBits_congr
    intro p hp
    unfold reconstructBit storedKeyBit
    simp only [if_pos hc, bitOf_slice, BRANCH_HEADER]
    by_cases h1 : p < pl
    · rw [if_pos h1, if_pos h1]
      have : p < 8 * ((pl + 7) / 8) := by omega
      simp only [this, decide_true, Bool.true_and]
      congr 1; omega
    · rw [if_neg h1, if_neg h1]
      by_cases h2 : p < pl + (e - s)
      · rw [if_pos h2, if_pos h2]
        have h0 : ¬ (e - s = 0) := by omega
        have : (pl + s) % 8 + (p - pl) < 8 * ((((pl + s) % 8 + (e - s) + 7) / 8 + 7) / 8 * 8) := by omega
        simp only [if_neg h0, this, decide_true, Bool.true_and]
        congr 1; omega
      · rw [if_neg h2, if_neg h2]
  · rw [if_neg hc]
    simp only [Option.bind_some]
    rw [reconstructKey_none]
    rw [if_neg hc] at total
    rw [reconstructKey_some _ _ _ _ _ (by intro b hb; simp at hb) hsB (by omega) (by simp) hg3]
    apply congrArg some
    unfold reconstructSpec
    apply bytesOfBits_congr
    intro p hp
    unfold reconstructBit storedKeyBit
    simp only [if_neg hc, bitOf_slice, BRANCH_HEADER]
    rw [if_neg (Nat.not_lt_zero _), if_neg (Nat.not_lt_zero _)]
    by_cases h2 : p < 0 + (e - s)
    · rw [if_pos h2, if_pos h2]
      have h0 : ¬ (e - s = 0) := by omega
      have : (pl + s) % 8 + (p - 0) < 8 * ((((pl + s) % 8 + (e - s) + 7) / 8 + 7) / 8 * 8) := by omega
      simp only [if_neg h0, this, decide_true, Bool.true_and]
      congr 1; omega
    · rw [if_neg h2, if_neg h2]

end Nomt.BitOps
