/-! Calibration: crash / power-loss atomicity of the three-phase sync (store/sync.rs) in an abstract disk model. -/
namespace NomtDisk

/-- files that matter -/
inductive File where
  | fLn | fBbn | fHt | fWal | fLog | fMeta
deriving DecidableEq, Repr

section
variable (Content MetaRec WalRec LogRec : Type)

/-- one mutating effect -/
inductive Eff where
  | page (f : File) (pn : Nat) (c : Content)       -- in-place page write to ln / bbn / ht
  | setMeta (m : MetaRec)                           -- the single meta page
  | walSet (w : Option WalRec)                      -- write_wal (some) / truncate_wal (none)
  | logSet (l : List LogRec)                        -- append / truncate / prune, as the new record list

inductive Ev where
  | eff (e : Eff Content MetaRec WalRec LogRec)
  | fsync (f : File)

structure Disk where
  pages : File → Nat → Content
  mt : MetaRec
  wal : Option WalRec
  log : List LogRec

/-- execution state: durable disk + issued-but-unsynced effects (oldest first) -/
structure Exec where
  dur : Disk Content MetaRec WalRec LogRec
  vol : List (Eff Content MetaRec WalRec LogRec)
end

variable {Content MetaRec WalRec LogRec : Type}

def Eff.file : Eff Content MetaRec WalRec LogRec → File
  | .page f _ _ => f
  | .setMeta _ => .fMeta
  | .walSet _ => .fWal
  | .logSet _ => .fLog

def applyEff (d : Disk Content MetaRec WalRec LogRec) :
    Eff Content MetaRec WalRec LogRec → Disk Content MetaRec WalRec LogRec
  | .page f pn c => { d with pages := fun f' pn' => if f' = f ∧ pn' = pn then c else d.pages f' pn' }
  | .setMeta m => { d with mt := m }
  | .walSet w => { d with wal := w }
  | .logSet l => { d with log := l }

def applyEffs (d : Disk Content MetaRec WalRec LogRec) (es : List (Eff Content MetaRec WalRec LogRec)) :
    Disk Content MetaRec WalRec LogRec := es.foldl applyEff d

def step (s : Exec Content MetaRec WalRec LogRec) :
    Ev Content MetaRec WalRec LogRec → Exec Content MetaRec WalRec LogRec
  | .eff e => { s with vol := s.vol ++ [e] }
  | .fsync f => { dur := applyEffs s.dur (s.vol.filter (fun e => decide (e.file = f))),
                  vol := s.vol.filter (fun e => decide (e.file ≠ f)) }

def run (s : Exec Content MetaRec WalRec LogRec) (tr : List (Ev Content MetaRec WalRec LogRec)) :
    Exec Content MetaRec WalRec LogRec := tr.foldl step s

/-- the possible on-disk images if the machine stops in state `s`: the durable part plus any
    sub-list of the unsynced effects (all of them for a mere process crash) -/
def IsImage (s : Exec Content MetaRec WalRec LogRec) (img : Disk Content MetaRec WalRec LogRec) : Prop :=
  ∃ sub, List.Sublist sub s.vol ∧ img = applyEffs s.dur sub

end NomtDisk
