import NomtModel.Store.CacheOps
import NomtModel.Store.CacheLruLemmas
/-!
# The leaf cache is transparent under the callers' protocol
-/
namespace Nomt.Cache
open Nomt

variable {L : Type}

/-- where `LeafCache::get` looks -/
def LeafCache.view (lc : LeafCache L) (assign : Nat → Nat) (pn : Nat) : Option L :=
  match lc.shards[assign pn % lc.shards.length]? with
  | some s => s.cache.peek pn
  | none => none

/-- coherence: a cached leaf of a page number that is not dirty is the leaf stored there -/
def LCoh (lc : LeafCache L) (assign : Nat → Nat) (disk : LDisk L) (dirty : Nat → Bool) : Prop :=
  ∀ pn l, dirty pn = false → lc.view assign pn = some l → l = disk pn

def LSame (lc lc' : LeafCache L) : Prop :=
  lc'.shards.length = lc.shards.length ∧ lc'.shards.map (·.maxItems) = lc.shards.map (·.maxItems)

theorem LSame.refl (lc : LeafCache L) : LSame lc lc := ⟨rfl, rfl⟩
theorem LSame.trans {a b c : LeafCache L} (h1 : LSame a b) (h2 : LSame b c) : LSame a c :=
  ⟨h2.1.trans h1.1, h2.2.trans h1.2⟩

theorem lsame_set (lc : LeafCache L) (i : Nat) (s s' : LeafShard L) (hs : lc.shards[i]? = some s)
    (hl : s'.maxItems = s.maxItems) : LSame lc { shards := lc.shards.set i s' } := by
  refine ⟨by simp, ?_⟩
  simp only [List.map_set, hl]
  apply List.ext_getElem?
  intro j
  by_cases hj : i = j
  · subst hj
    have hlt : i < lc.shards.length := by
      rcases Nat.lt_or_ge i lc.shards.length with h | h
      · exact h
      · rw [List.getElem?_eq_none h] at hs; cases hs
    rw [List.getElem?_set_self (by simpa using hlt)]
    simp [hs]
  · rw [List.getElem?_set_ne hj]

theorem lview_set (lc : LeafCache L) (assign : Nat → Nat) (i : Nat) (s' : LeafShard L) (pn : Nat)
    (hlt : i < lc.shards.length) :
    ({ shards := lc.shards.set i s' } : LeafCache L).view assign pn =
      if assign pn % lc.shards.length = i then s'.cache.peek pn else lc.view assign pn := by
  simp only [LeafCache.view, List.length_set]
  by_cases h : assign pn % lc.shards.length = i
  · simp only [h, if_true]; rw [List.getElem?_set_self hlt]
  · simp only [h, if_false]; rw [List.getElem?_set_ne (fun e => h e.symm)]

theorem LeafCache.shard_of (lc : LeafCache L) (hn : 1 ≤ lc.shards.length) (h : Nat) :
    ∃ s, lc.shardIndexFor h = .ok (h % lc.shards.length) ∧ h % lc.shards.length < lc.shards.length ∧
      lc.shards[h % lc.shards.length]? = some s := by
  have hlt : h % lc.shards.length < lc.shards.length := Nat.mod_lt _ hn
  refine ⟨_, ?_, hlt, List.getElem?_eq_getElem hlt⟩
  have : lc.shards.length ≠ 0 := by omega
  simp [LeafCache.shardIndexFor, this]

theorem LeafCache.get_ok (lc : LeafCache L) (assign : Nat → Nat) (hn : 1 ≤ lc.shards.length) (pn : Nat) :
    ∃ lc', lc.get (assign pn) pn = .ok (lc.view assign pn, lc') ∧ lc'.view assign = lc.view assign ∧ LSame lc lc' := by
  obtain ⟨s, h1, h2, hs⟩ := lc.shard_of hn (assign pn)
  have hm : assign pn % lc.shards.length % lc.shards.length = assign pn % lc.shards.length := Nat.mod_mod _ _
  refine ⟨{ shards := lc.shards.set (assign pn % lc.shards.length) { s with cache := (s.cache.get pn).2 } },
    ?_, ?_, lsame_set lc _ s _ hs rfl⟩
  · simp only [LeafCache.get, h1, hm, hs, LeafCache.view, Lru.get_fst]
  · funext k
    rw [lview_set lc assign _ _ k h2]
    split
    · rename_i hk; simp only [Lru.get_peek, LeafCache.view, hk, hs]
    · rfl

/-- `insert` as it is (flag off): the view of `pn` becomes `l`, other page numbers can only lose their entry -/
theorem LeafCache.insert_ok (lc : LeafCache L) (assign : Nat → Nat) (hn : 1 ≤ lc.shards.length) (pn : Nat) (l : L) :
    ∃ lc', lc.insert {} (assign pn) pn l = .ok lc' ∧ lc'.view assign pn = some l ∧
      (∀ k, k ≠ pn → ∀ x, lc'.view assign k = some x → lc.view assign k = some x) ∧ LSame lc lc' := by
  obtain ⟨s, h1, h2, hs⟩ := lc.shard_of hn (assign pn)
  have hm : assign pn % lc.shards.length % lc.shards.length = assign pn % lc.shards.length := Nat.mod_mod _ _
  refine ⟨{ shards := lc.shards.set (assign pn % lc.shards.length) { s with cache := s.cache.put pn l } },
    ?_, ?_, ?_, lsame_set lc _ s _ hs rfl⟩
  · simp [LeafCache.insert, h1, hm, hs]
  · rw [lview_set lc assign _ _ pn h2]; simp [Lru.put_peek_self]
  · intro k hk x hx
    rw [lview_set lc assign _ _ k h2] at hx
    split at hx
    · rename_i hki
      simp only [LeafCache.view, hki, hs]
      exact Lru.put_peek_ne _ hk _ _ hx
    · exact hx

theorem LeafCache.evict_sub (lc : LeafCache L) (assign : Nat → Nat) (k : Nat) (x : L)
    (h : lc.evict.view assign k = some x) : lc.view assign k = some x := by
  simp only [LeafCache.view, LeafCache.evict, List.length_map, List.getElem?_map] at h ⊢
  cases hs : lc.shards[assign k % lc.shards.length]? with
  | none => simp [hs] at h
  | some s => simp only [hs, Option.map_some] at h; exact Lru.evict_peek _ _ _ _ h

theorem LeafCache.evict_same (lc : LeafCache L) : LSame lc lc.evict := by
  refine ⟨by simp [LeafCache.evict], ?_⟩
  simp [LeafCache.evict, List.map_map, Function.comp_def]

/-- after `evict` no shard exceeds `max_items` -/
theorem LeafCache.evict_budget (lc : LeafCache L) (s : LeafShard L) (hs : s ∈ lc.evict.shards) :
    s.cache.len ≤ s.maxItems := by
  simp only [LeafCache.evict, List.mem_map] at hs
  obtain ⟨s0, _, rfl⟩ := hs
  exact Lru.evict_len _ _

/-! ## one operation, a sequence -/

theorem lstep_ok (assign : Nat → Nat) (s : LState L) (hn : 1 ≤ s.lc.shards.length)
    (h : LCoh s.lc assign s.disk s.dirty) (op : LOp L) (rest : List (LOp L))
    (hp : LProto s.disk s.dirty (op :: rest)) :
    ∃ s', lstep {} assign s op = .ok (s', (lrefStep s.disk op).2) ∧ s'.disk = (lrefStep s.disk op).1 ∧
      LCoh s'.lc assign s'.disk s'.dirty ∧ LSame s.lc s'.lc ∧ LProto s'.disk s'.dirty rest := by
  cases op with
  | lookup pn =>
    obtain ⟨hd, hp'⟩ := hp
    obtain ⟨lc1, hg, hv1, hs1⟩ := s.lc.get_ok assign hn pn
    have hc1 : LCoh lc1 assign s.disk s.dirty := fun k l hk hl => h k l hk (by rw [← hv1]; exact hl)
    cases hc : s.lc.view assign pn with
    | some l =>
      refine ⟨{ s with lc := lc1 }, ?_, rfl, hc1, hs1, hp'⟩
      simp only [lstep, leafLookup, hg, hc, lrefStep, h pn l hd hc]
    | none =>
      obtain ⟨lc2, hi, hself, hother, hs2⟩ := lc1.insert_ok assign (hs1.1 ▸ hn) pn (s.disk pn)
      refine ⟨{ s with lc := lc2 }, ?_, rfl, ?_, hs1.trans hs2, hp'⟩
      · simp only [lstep, leafLookup, hg, hc, hi, lrefStep]
      · intro k l hk hl
        by_cases hkp : k = pn
        · subst hkp; rw [hself] at hl; cases hl; rfl
        · exact hc1 k l hk (hother k hkp l hl)
  | peek pn =>
    obtain ⟨hd, hp'⟩ := hp
    obtain ⟨lc1, hg, hv1, hs1⟩ := s.lc.get_ok assign hn pn
    have hc1 : LCoh lc1 assign s.disk s.dirty := fun k l hk hl => h k l hk (by rw [← hv1]; exact hl)
    cases hc : s.lc.view assign pn with
    | some l =>
      refine ⟨{ s with lc := lc1 }, ?_, rfl, hc1, hs1, hp'⟩
      simp only [lstep, leafPeek, hg, hc, lrefStep, h pn l hd hc]
    | none =>
      refine ⟨{ s with lc := lc1 }, ?_, rfl, hc1, hs1, hp'⟩
      simp only [lstep, leafPeek, hg, hc, lrefStep]
  | write pn l =>
    refine ⟨_, rfl, rfl, ?_, LSame.refl _, hp⟩
    intro k x hk hx
    by_cases hkp : k = pn
    · subst hkp; simp at hk
    · simp only [hkp, if_false] at hk ⊢; exact h k x hk hx
  | postIo pn l =>
    obtain ⟨hd, hp'⟩ := hp
    obtain ⟨lc1, hi, hself, hother, hs1⟩ := s.lc.insert_ok assign hn pn l
    refine ⟨{ s with lc := lc1, dirty := fun x => if x = pn then false else s.dirty x }, ?_, rfl, ?_, hs1, hp'⟩
    · simp only [lstep, hi, lrefStep]
    · intro k x hk hx
      by_cases hkp : k = pn
      · subst hkp; rw [hself] at hx; cases hx; exact hd.symm
      · simp only [hkp, if_false] at hk; exact h k x hk (hother k hkp x hx)
  | evict =>
    exact ⟨{ s with lc := s.lc.evict }, rfl, rfl, fun k x hk hx => h k x hk (s.lc.evict_sub assign k x hx),
      s.lc.evict_same, hp⟩

theorem lrun_ok (assign : Nat → Nat) (s : LState L) (hn : 1 ≤ s.lc.shards.length)
    (h : LCoh s.lc assign s.disk s.dirty) (ops : List (LOp L)) (hp : LProto s.disk s.dirty ops) :
    ∃ s', lrun {} assign s ops = .ok (s', (lrefRun s.disk ops).2) ∧ s'.disk = (lrefRun s.disk ops).1 ∧
      LCoh s'.lc assign s'.disk s'.dirty ∧ LSame s.lc s'.lc := by
  induction ops generalizing s with
  | nil => exact ⟨s, rfl, rfl, h, LSame.refl _⟩
  | cons op rest ih =>
    obtain ⟨s1, h1, hd1, hc1, hs1, hp1⟩ := lstep_ok assign s hn h op rest hp
    obtain ⟨s2, h2, hd2, hc2, hs2⟩ := ih s1 (hs1.1 ▸ hn) hc1 hp1
    refine ⟨s2, ?_, ?_, hc2, hs1.trans hs2⟩
    · simp only [lrun, h1, h2, lrefRun, hd1]
    · simp only [lrefRun, hd2, hd1]

/-! ## a whole sync meets the protocol, whatever page numbers it recycles -/

def writeAll (disk : LDisk L) : List (Nat × L) → LDisk L
  | [] => disk
  | x :: rest => writeAll (fun y => if y = x.1 then x.2 else disk y) rest

def markAll (dirty : Nat → Bool) : List (Nat × L) → Nat → Bool
  | [] => dirty
  | x :: rest => markAll (fun y => if y = x.1 then true else dirty y) rest

theorem LProto_writes (disk : LDisk L) (dirty : Nat → Bool) (leaves : List (Nat × L)) (tail : List (LOp L)) :
    LProto disk dirty (leaves.map (fun x => LOp.write x.1 x.2) ++ tail) ↔
      LProto (writeAll disk leaves) (markAll dirty leaves) tail := by
  induction leaves generalizing disk dirty with
  | nil => rfl
  | cons hd tl ih => simp only [List.map_cons, List.cons_append, LProto, writeAll, markAll]; exact ih _ _

theorem writeAll_other (disk : LDisk L) (leaves : List (Nat × L)) (y : Nat) (h : y ∉ leaves.map (·.1)) :
    writeAll disk leaves y = disk y := by
  induction leaves generalizing disk with
  | nil => rfl
  | cons hd tl ih =>
    simp only [List.map_cons, List.mem_cons, not_or] at h
    rw [writeAll, ih _ h.2]; simp [h.1]

theorem writeAll_get (disk : LDisk L) (leaves : List (Nat × L)) (hnd : (leaves.map (·.1)).Nodup) :
    ∀ x ∈ leaves, writeAll disk leaves x.1 = x.2 := by
  induction leaves generalizing disk with
  | nil => intro x hx; cases hx
  | cons hd tl ih =>
    intro x hx
    simp only [List.map_cons, List.nodup_cons] at hnd
    rcases List.mem_cons.mp hx with rfl | hx
    · rw [writeAll, writeAll_other _ _ _ hnd.1]; simp
    · exact ih _ hnd.2 x hx

theorem markAll_other (dirty : Nat → Bool) (leaves : List (Nat × L)) (y : Nat) (h : y ∉ leaves.map (·.1)) :
    markAll dirty leaves y = dirty y := by
  induction leaves generalizing dirty with
  | nil => rfl
  | cons hd tl ih =>
    simp only [List.map_cons, List.mem_cons, not_or] at h
    rw [markAll, ih _ h.2]; simp [h.1]

theorem LProto_postIos (disk : LDisk L) (dirty : Nat → Bool) (leaves : List (Nat × L)) (tail : List (LOp L))
    (hdisk : ∀ x ∈ leaves, disk x.1 = x.2)
    (hfin : LProto disk (fun x => if x ∈ leaves.map (·.1) then false else dirty x) tail) :
    LProto disk dirty (leaves.map (fun x => LOp.postIo x.1 x.2) ++ tail) := by
  induction leaves generalizing dirty with
  | nil => simpa using hfin
  | cons hd tl ih =>
    simp only [List.map_cons, List.cons_append, LProto]
    refine ⟨hdisk hd (by simp), ?_⟩
    apply ih
    · intro x hx; exact hdisk x (List.mem_cons_of_mem _ hx)
    · have : (fun x => if x ∈ tl.map (·.1) then false else if x = hd.1 then false else dirty x) =
          (fun x => if x ∈ (hd :: tl).map (·.1) then false else dirty x) := by
        funext x
        by_cases h1 : x = hd.1
        · subst h1; simp
        · simp only [List.map_cons, List.mem_cons, h1, false_or, if_false]
      rw [this]; exact hfin

/-- a sync (writes at distinct page numbers — fresh or recycled —, then `PostIoWork::run`, then `evict`) meets the
protocol, and afterwards no page number it wrote is dirty -/
theorem LProto_sync (disk : LDisk L) (dirty : Nat → Bool) (leaves : List (Nat × L)) (rest : List (LOp L))
    (hnd : (leaves.map (·.1)).Nodup)
    (hrest : LProto (writeAll disk leaves) (fun x => if x ∈ leaves.map (·.1) then false else dirty x) rest) :
    LProto disk dirty (syncOps leaves ++ rest) := by
  simp only [syncOps, List.append_assoc]
  rw [LProto_writes]
  apply LProto_postIos _ _ _ _ (writeAll_get disk leaves hnd)
  simp only [List.cons_append, List.nil_append, LProto]
  have : (fun x => if x ∈ leaves.map (·.1) then false else markAll dirty leaves x) =
      (fun x => if x ∈ leaves.map (·.1) then false else dirty x) := by
    funext x
    by_cases h : x ∈ leaves.map (·.1)
    · simp [h]
    · simp only [h, if_false]; exact markAll_other dirty leaves x h
  rw [this]; exact hrest

end Nomt.Cache
