import NomtModel.Store.WalkerF20
/-!
# A promotion history on the mirror: an elided cluster of 19 leaves is reconstructed, grows to 20 and is stored

The scenario behind the kernel-checked counterexamples of the seeded changes
`C02-elision-promoted-page-diff-drops-reconstruction` / `C03-wal-diff-drops-reconstruction` (`Walker.mutDropReconDiff`)
and `C02-elision-stale-prev-counter` (`Walker.mutStalePrev`), on the free term hasher:

* commit 1 (elision active, from the empty store) inserts the 19 keys `0^pre · bin6(i) · 0…` (`i < 19`): the root page and
  page `[0]` are handed out, everything below (`pre = 12`: page `[0,0]`; `pre = 18`: pages `[0,0]` and `[0,0,0]`) holds fewer
  than `PAGE_ELISION_THRESHOLD` leaves and is elided;
* the seek of commit 2 runs the mirrored `reconstruct_pages` below position `0^12` of page `[0]` and inserts the result into
  the page set as `PageOrigin::Reconstructed`, exactly as `continue_leaves_fetch` does;
* commit 2 inserts the 20th key `0^pre · 010011 · 0…` (terminal: the leaf of key 18 at `0^pre · 01001`): the walk ENTERS the
  reconstructed pages, the cluster reaches the threshold and its pages are promoted to stored pages.
-/
namespace Nomt.Walker.ReconMut
open Nomt Nomt.TriePos Nomt.Walker Nomt.Walker.F20
open Nomt.Wal (PageDiff)

def bin6 (i : Nat) : List Bool := [5, 4, 3, 2, 1, 0].map (fun j => (i / 2 ^ j) % 2 == 1)

/-- key `i` of the cluster below `pre` zero bits -/
def ck (pre i : Nat) : Key := List.replicate pre false ++ bin6 i ++ List.replicate (256 - pre - 6) false

def cluster (pre n : Nat) : List (Key × Nat) := (List.range n).map (fun i => (ck pre i, i + 1))

/-- what `continue_leaves_fetch` does with the pages `reconstruct_pages` yields -/
def insertRecon (ps : PageSet T) (l : List (Reconstructed T)) : PageSet T :=
  l.foldl (fun m r => m.insert r.pageId r.page (.reconstructed r.pageLeaves r.childrenLeaves r.diff)) ps

/-- both commits; the pages the second one hands out, and the reconstructed pages its seek produced -/
def scenario (pre : Nat) (drop stale : Bool) : Option (List (PageOut T) × List (Reconstructed T)) :=
  match (Walker.start T.term false).runM TH emptyPs [([], some (cluster pre 19))] with
  | .ok w1 =>
    match w1.conclude TH with
    | .ok (.root r1 pages1) =>
      let ps1 := psOfOutput pages1
      match ps1.get [0] with
      | some (pg0, _) =>
        match reconstructPages TH pg0 [0] (posOfPath (List.replicate 12 false)) ps1 (cluster pre 19) with
        | .ok (ps1', some l) =>
          let ps2 := insertRecon ps1' l
          let w := { Walker.start r1 false with mutDropReconDiff := drop, mutStalePrev := stale }
          match w.runM TH ps2 [(List.replicate pre false ++ [false, true, false, false, true],
                                some [(ck pre 18, 19), (ck pre 19, 20)])] with
          | .ok w2 =>
            match w2.conclude TH with
            | .ok (.root _ pages2) => some (pages2, l)
            | _ => none
          | _ => none
        | _ => none
      | none => none
    | _ => none
  | _ => none

def findUpdated (P : PageId) (pages : List (PageOut T)) : Option (Page T × PageDiff × Option Nat) :=
  pages.findSome? fun o =>
    match o with
    | .updated Q pg d b => if Q = P then some (pg, d, b) else none
    | .reconstructed .. => none

/-- every slot that holds a node (the pool pages of the scenario are zeroed) is named by the diff -/
def namesAll (pg : Page T) (d : PageDiff) : Bool :=
  (List.range 126).all fun i => decide (pg.nodes.getD i T.term = T.term) || d.changed i

/-- `pre = 12`: page `[0,0]` is promoted (handed out without a bucket); does its diff name every slot that holds a node? -/
def verdictDrop (drop : Bool) : Option (Bool × Bool) :=
  (scenario 12 drop false).bind fun (pages, _) =>
    (findUpdated [0, 0] pages).map fun (pg, d, b) => (b.isNone, namesAll pg d)

/-- `pre = 18`: page `[0,0,0]` reaches 20 leaves and is stored; is its parent page `[0,0]` stored as well? -/
def verdictStale (stale : Bool) : Option (Bool × Bool) :=
  (scenario 18 false stale).map fun (pages, _) =>
    ((findUpdated [0, 0, 0] pages).isSome, (findUpdated [0, 0] pages).isSome)

/-- the reconstruction of the scenario: ids, leaf counters (page, children) and whether the diff names every slot that holds
a node -/
def reconSummary (pre : Nat) : Option (List (PageId × Nat × Nat × Bool)) :=
  (scenario pre false false).map fun (_, l) => l.map fun r => (r.pageId, r.pageLeaves, r.childrenLeaves, namesAll r.page r.diff)

end Nomt.Walker.ReconMut
