import NomtModel.Store.ImgCheck
/-!
C17 placement monitor: given the directory image as it was BEFORE an operation (decoded with the
independent decoders: which pages of `ln` / `bbn` the previous state references, where its allocation
frontier is) and the ordered I/O events the operation issued (from the cfg(nomt_verif) hook), decide that
nothing the previous state references is overwritten, truncated or unlinked before the switch-over (the
write of the meta page):

* `ln` / `bbn` page writes only to pages that are on the previous state's free list (mark 4), unreferenced,
  or at / beyond its allocation frontier; never to a node, overflow page or free-list page of that state; for `bbn`
  also never to an unreferenced (mark 0) page below the frontier, because the reconstruction rule reads those;
* `ln` / `bbn` are never shrunk;
* no hash-table write at all (the table is only touched after the meta page is durable; until then the
  new pages live in the redo log `wal`, which may be rewritten freely);
* rollback segments: only appends and padding at the end; no truncation of, and no unlink of, a segment.
-/
namespace Nomt.Store

structure IoEv where
  kind : String      -- Write | Append | SetLen | Fsync | Unlink | Create | DirSync
  file : String      -- meta | ln | bbn | ht | wal | rollback:<name> | dir
  offset : Nat
  len : Nat
  site : String
deriving Repr

/-- lines `<idx> Begin <Kind> <file> <offset> <len> <site> t<thread>` (End lines are ignored) -/
def parseIoTrace (s : String) : List IoEv :=
  (s.splitOn "\n").filterMap (fun l =>
    match (l.splitOn " ").filter (· ≠ "") with
    | [_, "Begin", kind, file, off, len, site, _] =>
      match off.toNat?, len.toNat? with
      | some o, some n => some { kind := kind, file := file, offset := o, len := n, site := site }
      | _, _ => none
    | _ => none)

def markName (m : UInt8) : String :=
  if m == 1 then "a node" else if m == 2 then "an overflow page" else if m == 3 then "a free-list page" else "?"

structure PlacementStats where
  preMetaEvents : Nat := 0
  lnWrites : Nat := 0
  bbnWrites : Nat := 0
  toFreePages : Nat := 0
  beyondFrontier : Nat := 0
  sawMeta : Bool := false
deriving Repr

/-- an `ln` / `bbn` page write before the switch-over: aligned, not page 0, and either beyond the previous
allocation frontier or to a page the previous state does not use as node / overflow page / free-list page -/
def pageCheck (what : String) (marks : Array UInt8) (bump : Nat) (st : PlacementStats) (e : IoEv) : Except String PlacementStats :=
  let pn := e.offset / PAGE
  if e.offset % PAGE != 0 || e.len != PAGE then .error s!"{what}: unaligned write at offset {e.offset} len {e.len}"
  else if pn == 0 then .error s!"{what}: write to the reserved page 0"
  else if pn ≥ bump then .ok { st with beyondFrontier := st.beyondFrontier + 1 }
  else if marks[pn]! == 1 || marks[pn]! == 2 || marks[pn]! == 3 then
    .error s!"{what}: page {pn} is overwritten before the switch-over although the previous state uses it as {markName marks[pn]!} (site {e.site})"
  else .ok { st with toFreePages := st.toFreePages + 1 }

/-- a `bbn` page write before the switch-over: as `pageCheck`, and additionally never to an UNCLAIMED page (mark 0) below the
previous frontier.  The reconstruction rule (`liveBranches`, mirror of `beatree/ops/reconstruction.rs`) reads EVERY `bbn` page
below `bbn_bump` that the free list does not track — a never-written page below the frontier is read and found empty; were it
written before the switch-over, the old manifest would see one more branch node (`Store/FrameImage.lean`).  The allocator
hands out only pages of the free list or at / beyond the frontier, so no real trace does this. -/
def pageCheckBbn (marks : Array UInt8) (bump : Nat) (st : PlacementStats) (e : IoEv) : Except String PlacementStats :=
  let pn := e.offset / PAGE
  if pn != 0 && decide (pn < bump) && marks[pn]! == 0 then
    .error s!"bbn: page {pn} below the previous frontier is written before the switch-over although the previous state neither uses it nor lists it as free — the reconstruction rule reads every such page (site {e.site})"
  else pageCheck "bbn" marks bump st e

/-- check one pre-switch-over event against the previous state -/
def checkEv (lnMarks bbnMarks : Array UInt8) (lnBump bbnBump lnSize bbnSize : Nat) (st : PlacementStats) (e : IoEv) :
    Except String PlacementStats :=
  let st := { st with preMetaEvents := st.preMetaEvents + 1 }
  if e.kind == "Write" && e.file == "ln" then
    (pageCheck "ln" lnMarks lnBump st e).map (fun s => { s with lnWrites := s.lnWrites + 1 })
  else if e.kind == "Write" && e.file == "bbn" then
    (pageCheckBbn bbnMarks bbnBump st e).map (fun s => { s with bbnWrites := s.bbnWrites + 1 })
  else if e.kind == "SetLen" && e.file == "ln" then
    if e.offset < lnSize then .error s!"ln is shrunk to {e.offset} bytes before the switch-over" else .ok st
  else if e.kind == "SetLen" && e.file == "bbn" then
    if e.offset < bbnSize then .error s!"bbn is shrunk to {e.offset} bytes before the switch-over" else .ok st
  else if e.kind == "Write" && e.file == "ht" then
    .error s!"hash-table page at offset {e.offset} is written before the switch-over (site {e.site})"
  else if e.kind == "SetLen" && e.file == "ht" then .error "the hash-table file is resized before the switch-over"
  else if e.kind == "Unlink" then .error s!"{e.file} is unlinked before the switch-over (site {e.site})"
  else if e.kind == "SetLen" && e.file.startsWith "rollback:" && e.site != "seglog.pad" then
    .error s!"{e.file} is truncated before the switch-over (site {e.site})"
  else if e.kind == "Write" && e.file.startsWith "rollback:" then
    .error s!"{e.file}: in-place write to a rollback segment before the switch-over"
  else .ok st

def checkPlacement (img : Image) (tr : List IoEv) : Except String PlacementStats := do
  let m ← imageMeta img
  let (_, lnMarks, bbnMarks) ← wfDetailM img
  let rec go : List IoEv → PlacementStats → Except String PlacementStats
    | [], st => pure st
    | e :: rest, st =>
      if e.file == "meta" && e.kind == "Write" then pure { st with sawMeta := true }
      else do
        let st ← checkEv lnMarks bbnMarks m.lnBump m.bbnBump img.ln.size img.bbn.size st e
        go rest st
  go tr {}

end Nomt.Store
