import NomtModel.Store.ProbeModel
/-!
# The reachability invariant of the bitbox table and what lookups return under it

`Inv`: every full bucket `b` carries the tag of its label's hash, lies on the probe sequence of its
label within the first `2n + 1` positions, and no bucket before it on that sequence is empty.
(`wfTable` / `probeReaches` of `Store/ImgTable.lean` evaluate exactly this predicate on real `ht`
files.)  It holds for the empty table and is kept by `allocate` and `free`.  Under `Inv` and "no
label in two full buckets" the lookup returns the bucket of a page iff the page is stored.
-/
namespace Nomt.Store.Probe
open Nomt.Store

def isFull : Slot → Bool
  | .full _ => true
  | _ => false

theorem isFull_iff {s : Slot} : isFull s = true ↔ ∃ tg, s = .full tg := by
  cases s <;> simp [isFull]

theorem isFull_false_iff {s : Slot} : isFull s = false ↔ s = .empty ∨ s = .tombstone := by
  cases s <;> simp [isFull]

/-- page `p` is stored in bucket `b` -/
def Stored (T : Table) (p b : Nat) : Prop := isFull (slotAt T.slots b) = true ∧ T.label b = p

def Inv (hash : Nat → Nat) (T : Table) : Prop :=
  ∀ b tg, slotAt T.slots b = .full tg →
    tg = tagOf (hash (T.label b)) ∧
    ∃ k, k ≤ 2 * T.n ∧ pos (hash (T.label b)) T.n k = b ∧
      ∀ j, j < k → slotAt T.slots (pos (hash (T.label b)) T.n j) ≠ .empty

/-- no page id is the label of two full buckets -/
def NoDup (T : Table) : Prop :=
  ∀ b1 b2, isFull (slotAt T.slots b1) = true → isFull (slotAt T.slots b2) = true →
    T.label b1 = T.label b2 → b1 = b2

/-- `MetaMap::full_count` = `HashTableUtilization::occupied` -/
def occupied (T : Table) : Nat := T.slots.countP isFull

/-! ## flat lookup -/

/-- the lookup walks past this bucket -/
def passB (T : Table) (h p b : Nat) : Bool :=
  match slotAt T.slots b with
  | .empty => false
  | .tombstone => true
  | .full tg => tg != tagOf h || T.label b != p

/-- whatever the table, an answer `some b` names a full bucket on the sequence whose tag and label
are the page's (the label check) -/
theorem lookupF_sound (T : Table) (h p : Nat) : ∀ (f k b : Nat), lookupF T h p f k = some b →
    ∃ j, k ≤ j ∧ j < k + f ∧ b = pos h T.n j ∧ slotAt T.slots b = .full (tagOf h) ∧ T.label b = p := by
  intro f
  induction f with
  | zero => intro k b e; simp [lookupF] at e
  | succ f ih =>
    intro k b e
    have lift : lookupF T h p f (k + 1) = some b →
        ∃ j, k ≤ j ∧ j < k + (f + 1) ∧ b = pos h T.n j ∧ slotAt T.slots b = .full (tagOf h) ∧ T.label b = p := by
      intro e'
      obtain ⟨j, a, b', c⟩ := ih (k + 1) b e'
      exact ⟨j, by omega, by omega, c⟩
    cases hsl : slotAt T.slots (pos h T.slots.length k) with
    | empty => simp [lookupF, hsl] at e
    | tombstone => simp only [lookupF, hsl] at e; exact lift e
    | full tg =>
      simp only [lookupF, hsl] at e
      by_cases htg : tg = tagOf h
      · by_cases hl : T.label (pos h T.slots.length k) = p
        · simp [htg, hl] at e
          subst e
          exact ⟨k, Nat.le_refl _, by omega, rfl, by rw [hsl, htg], hl⟩
        · simp [htg, hl] at e; exact lift e
      · simp [htg] at e; exact lift e

/-- a matching bucket at position `j` with no empty bucket before it is found, provided every
earlier matching bucket is the same bucket -/
theorem lookupF_complete (T : Table) (h p : Nat) : ∀ (f k j : Nat), k ≤ j → j < k + f →
    slotAt T.slots (pos h T.n j) = .full (tagOf h) → T.label (pos h T.n j) = p →
    (∀ i, k ≤ i → i < j → slotAt T.slots (pos h T.n i) ≠ .empty) →
    (∀ i, k ≤ i → i < j → slotAt T.slots (pos h T.n i) = .full (tagOf h) → T.label (pos h T.n i) = p →
        pos h T.n i = pos h T.n j) →
    lookupF T h p f k = some (pos h T.n j) := by
  intro f
  induction f with
  | zero => intro k j a b; omega
  | succ f ih =>
    intro k j hkj hjf hs hl hne huniq
    by_cases hk : k = j
    · subst hk
      simp [lookupF, hs, hl]
    · have hrec : lookupF T h p f (k + 1) = some (pos h T.n j) :=
        ih (k + 1) j (by omega) (by omega) hs hl (fun i a b => hne i (by omega) b)
          (fun i a b => huniq i (by omega) b)
      have hk1 := hne k (Nat.le_refl _) (by omega)
      cases hsl : slotAt T.slots (pos h T.slots.length k) with
      | empty => exact absurd hsl hk1
      | tombstone => simp only [lookupF, hsl]; exact hrec
      | full tg =>
        simp only [lookupF, hsl]
        by_cases htg : tg = tagOf h
        · by_cases hl2 : T.label (pos h T.slots.length k) = p
          · have := huniq k (Nat.le_refl _) (by omega) (by rw [hsl, htg]) hl2
            simp [htg, hl2]; exact this
          · simp [htg, hl2]; exact hrec
        · simp [htg]; exact hrec

theorem lookupF_none_of_pass (T : Table) (h p : Nat) : ∀ (f k : Nat),
    (∀ i, k ≤ i → i < k + f → passB T h p (pos h T.n i) = true) → lookupF T h p f k = none := by
  intro f
  induction f with
  | zero => intro k _; rfl
  | succ f ih =>
    intro k hall
    have hrec := ih (k + 1) (fun i a b => hall i (by omega) (by omega))
    have hk := hall k (Nat.le_refl _) (by omega)
    unfold passB at hk
    cases hsl : slotAt T.slots (pos h T.slots.length k) with
    | empty => simp [lookupF, hsl]
    | tombstone => simp only [lookupF, hsl]; exact hrec
    | full tg =>
      rw [hsl] at hk
      simp only [lookupF, hsl]
      by_cases htg : tg = tagOf h
      · have : ¬ T.label (pos h T.slots.length k) = p := by simpa [htg] using hk
        simp [htg, this]; exact hrec
      · simp [htg]; exact hrec

/-- more allowed positions change the answer only if all allowed positions were walked past -/
theorem lookupF_stable (T : Table) (h p : Nat) : ∀ (f k e : Nat),
    lookupF T h p f k = lookupF T h p (f + e) k ∨
    (∀ i, k ≤ i → i < k + f → passB T h p (pos h T.n i) = true) := by
  intro f
  induction f with
  | zero => intro k e; right; intro i a b; omega
  | succ f ih =>
    intro k e
    have e1 : f + 1 + e = (f + e) + 1 := by omega
    rw [e1]
    have lift : passB T h p (pos h T.n k) = true →
        lookupF T h p f (k + 1) = lookupF T h p (f + e) (k + 1) ∨
        (∀ i, k + 1 ≤ i → i < k + 1 + f → passB T h p (pos h T.n i) = true) →
        lookupF T h p f (k + 1) = lookupF T h p (f + e) (k + 1) ∨
        (∀ i, k ≤ i → i < k + (f + 1) → passB T h p (pos h T.n i) = true) := by
      intro hk hor
      rcases hor with l | r
      · left; exact l
      · right; intro i a b
        by_cases hi : i = k
        · rw [hi]; exact hk
        · exact r i (by omega) (by omega)
    cases hsl : slotAt T.slots (pos h T.slots.length k) with
    | empty => left; simp [lookupF, hsl]
    | tombstone =>
      simp only [lookupF, hsl]
      exact lift (by simp [passB, hsl]) (ih (k + 1) e)
    | full tg =>
      simp only [lookupF, hsl]
      by_cases htg : tg = tagOf h
      · by_cases hl : T.label (pos h T.slots.length k) = p
        · left; simp [htg, hl]
        · simp only [htg, ne_eq, not_true_eq_false, if_false, hl]
          exact lift (by simp [passB, hsl, htg, hl]) (ih (k + 1) e)
      · simp only [htg, ne_eq, not_false_eq_true, if_true]
        exact lift (by simp [passB, hsl, htg]) (ih (k + 1) e)

/-- **the bound of `next` loses nothing**: searching any number of further positions of the
sequence gives the same answer as stopping after `2n + 1` -/
theorem lookupF_bound_free (T : Table) (h p : Nat) (hn : 0 < T.n) (e : Nat) :
    lookupF T h p (2 * T.n + 1) 0 = lookupF T h p (2 * T.n + 1 + e) 0 := by
  rcases lookupF_stable T h p (2 * T.n + 1) 0 e with l | r
  · exact l
  · have all : ∀ k, passB T h p (pos h T.n k) = true :=
      forall_pos_of_bound (P := fun b => passB T h p b = true) hn (fun i hi => r i (Nat.zero_le _) (by omega))
    rw [lookupF_none_of_pass T h p _ 0 (fun i _ _ => all i), lookupF_none_of_pass T h p _ 0 (fun i _ _ => all i)]

/-! ## flat allocation -/

theorem allocF_some (m : List Slot) (lim h : Nat) : ∀ (f k i b : Nat), allocF m lim h f k i = some b →
    ∃ j, k ≤ j ∧ j < k + f ∧ b = pos h m.length j ∧ isFull (slotAt m b) = false ∧
      ∀ x, k ≤ x → x < j → isFull (slotAt m (pos h m.length x)) = true := by
  intro f
  induction f with
  | zero => intro k i b e; simp [allocF] at e
  | succ f ih =>
    intro k i b e
    have lift : ∀ i', isFull (slotAt m (pos h m.length k)) = true → allocF m lim h f (k + 1) i' = some b →
        ∃ j, k ≤ j ∧ j < k + (f + 1) ∧ b = pos h m.length j ∧ isFull (slotAt m b) = false ∧
          ∀ x, k ≤ x → x < j → isFull (slotAt m (pos h m.length x)) = true := by
      intro i' hk e'
      obtain ⟨j, a, b', c, d, g⟩ := ih (k + 1) i' b e'
      refine ⟨j, by omega, by omega, c, d, ?_⟩
      intro x hx1 hx2
      by_cases hx : x = k
      · rw [hx]; exact hk
      · exact g x (by omega) hx2
    cases hsl : slotAt m (pos h m.length k) with
    | empty =>
      simp [allocF, hsl] at e; subst e
      exact ⟨k, Nat.le_refl _, by omega, rfl, by rw [hsl]; rfl, by intro x a b; omega⟩
    | tombstone =>
      simp [allocF, hsl] at e; subst e
      exact ⟨k, Nat.le_refl _, by omega, rfl, by rw [hsl]; rfl, by intro x a b; omega⟩
    | full tg =>
      simp only [allocF, hsl] at e
      have hk : isFull (slotAt m (pos h m.length k)) = true := by rw [hsl]; rfl
      by_cases htg : tg = tagOf h
      · by_cases hl : i + 1 ≥ lim
        · simp [htg, hl] at e
        · simp [htg, hl] at e; exact lift _ hk e
      · simp [htg] at e; exact lift _ hk e

/-- as long as the counter cannot reach the limit, `none` means that no allowed position is free -/
theorem allocF_none (m : List Slot) (lim h : Nat) : ∀ (f k i : Nat), allocF m lim h f k i = none →
    i + f < lim → ∀ x, k ≤ x → x < k + f → isFull (slotAt m (pos h m.length x)) = true := by
  intro f
  induction f with
  | zero => intro k i _ _ x a b; omega
  | succ f ih =>
    intro k i e hl x hx1 hx2
    cases hsl : slotAt m (pos h m.length k) with
    | empty => simp [allocF, hsl] at e
    | tombstone => simp [allocF, hsl] at e
    | full tg =>
      simp only [allocF, hsl] at e
      have hk : isFull (slotAt m (pos h m.length k)) = true := by rw [hsl]; rfl
      by_cases hx : x = k
      · rw [hx]; exact hk
      · by_cases htg : tg = tagOf h
        · have hl' : ¬ i + 1 ≥ lim := by omega
          simp [htg, hl'] at e
          exact ih (k + 1) (i + 1) e (by omega) x (by omega) (by omega)
        · simp [htg] at e
          exact ih (k + 1) i e (by omega) x (by omega) (by omega)

/-- a successful `allocate_bucket`: the first bucket of the sequence that is not full -/
theorem allocTop_some {m : List Slot} {lim h b : Nat} (e : allocTop m lim h (2 * m.length + 1) 0 0 = some b) :
    ∃ j, j ≤ 2 * m.length ∧ b = pos h m.length j ∧ isFull (slotAt m b) = false ∧
      ∀ x, x < j → isFull (slotAt m (pos h m.length x)) = true := by
  unfold allocTop at e
  by_cases hl : 0 + 1 ≥ lim
  · simp [hl] at e
  · simp only [hl, if_false] at e
    obtain ⟨j, _, a, b', c, d⟩ := allocF_some m lim h _ _ _ _ e
    exact ⟨j, by omega, b', c, fun x hx => d x (Nat.zero_le _) hx⟩

/-- a failing `allocate_bucket` in a table too small for the attempt counter to matter: NO bucket
of the whole (unbounded) sequence is free — the bound of `next` loses nothing -/
theorem allocTop_none {m : List Slot} {lim h : Nat} (hn : 0 < m.length) (hlim : 2 * m.length + 2 < lim)
    (e : allocTop m lim h (2 * m.length + 1) 0 0 = none) :
    ∀ k, isFull (slotAt m (pos h m.length k)) = true := by
  unfold allocTop at e
  have hl : ¬ 0 + 1 ≥ lim := by omega
  simp only [hl, if_false] at e
  have := allocF_none m lim h _ _ _ e (by omega)
  exact forall_pos_of_bound (P := fun b => isFull (slotAt m b) = true) hn
    (fun i hi => this i (Nat.zero_le _) (by omega))

/-! ## the invariant -/

theorem inv_empty (hash : Nat → Nat) (n : Nat) : Inv hash (emptyTable n) := by
  intro b tg e
  simp [emptyTable, slotAt_replicate_empty] at e

theorem noDup_empty (n : Nat) : NoDup (emptyTable n) := by
  intro b1 b2 e
  simp [emptyTable, slotAt_replicate_empty, isFull] at e

theorem ne_empty_set {m : List Slot} {b x : Nat} {s : Slot} (hs : s ≠ .empty)
    (h : slotAt m x ≠ .empty) : slotAt (m.set b s) x ≠ .empty := by
  rw [slotAt_set]
  by_cases c : b = x ∧ b < m.length
  · rw [if_pos c]; exact hs
  · rw [if_neg c]; exact h

theorem setFull_n (T : Table) (b hh p : Nat) : (T.setFull b hh p).n = T.n := by
  simp [Table.setFull, Table.n]

theorem free_n (T : Table) (b : Nat) : (free T b).n = T.n := by
  simp [free, Table.n]

/-- writing page `p` into the first non-full bucket `pos (hash p) n j` of its own sequence keeps `Inv` -/
theorem inv_setFull {hash : Nat → Nat} {T : Table} (hI : Inv hash T) {p j : Nat} (hn : 0 < T.n)
    (hj : j ≤ 2 * T.n)
    (hbefore : ∀ x, x < j → isFull (slotAt T.slots (pos (hash p) T.n x)) = true) :
    Inv hash (T.setFull (pos (hash p) T.n j) (hash p) p) := by
  intro b tg e
  have hlt : pos (hash p) T.n j < T.slots.length := pos_lt hn
  simp only [Table.setFull] at e ⊢
  rw [slotAt_set] at e
  simp only [Table.n, List.length_set]
  by_cases hb : pos (hash p) T.slots.length j = b
  · subst hb
    simp only [hlt, and_self, if_true] at e
    simp only [if_true]
    refine ⟨by injection e with e; exact e.symm, j, hj, rfl, ?_⟩
    intro x hx
    apply ne_empty_set (by simp)
    have := hbefore x hx
    rw [isFull_iff] at this
    obtain ⟨t, ht⟩ := this
    simp only [Table.n] at ht
    rw [ht]; simp
  · have hb' : ¬ (pos (hash p) T.slots.length j = b ∧ pos (hash p) T.slots.length j < T.slots.length) := by
      intro c; exact hb c.1
    simp only [hb', if_false] at e
    have hb2 : ¬ b = pos (hash p) T.slots.length j := fun c => hb c.symm
    simp only [hb2, if_false]
    obtain ⟨h1, k, hk, hp, hne⟩ := hI b tg e
    refine ⟨h1, k, hk, hp, ?_⟩
    intro x hx
    exact ne_empty_set (by simp) (hne x hx)

theorem noDup_setFull {T : Table} (hD : NoDup T) {p b hh : Nat} (hb : b < T.n)
    (hfresh : ∀ b', ¬ Stored T p b') : NoDup (T.setFull b hh p) := by
  intro b1 b2 f1 f2 el
  simp only [Table.setFull] at f1 f2 el
  rw [slotAt_set] at f1 f2
  by_cases h1 : b1 = b
  · by_cases h2 : b2 = b
    · rw [h1, h2]
    · exfalso
      have c2 : ¬ (b = b2 ∧ b < T.slots.length) := fun c => h2 c.1.symm
      simp only [c2, if_false] at f2
      simp only [h1, h2, if_true, if_false] at el
      exact hfresh b2 ⟨f2, el.symm⟩
  · have c1 : ¬ (b = b1 ∧ b < T.slots.length) := fun c => h1 c.1.symm
    simp only [c1, if_false] at f1
    by_cases h2 : b2 = b
    · exfalso
      simp only [h1, h2, if_true, if_false] at el
      exact hfresh b1 ⟨f1, el⟩
    · have c2 : ¬ (b = b2 ∧ b < T.slots.length) := fun c => h2 c.1.symm
      simp only [c2, if_false] at f2
      simp only [h1, h2, if_false] at el
      exact hD b1 b2 f1 f2 el

theorem inv_free {hash : Nat → Nat} {T : Table} (hI : Inv hash T) (b0 : Nat) : Inv hash (free T b0) := by
  intro b tg e
  simp only [free] at e ⊢
  rw [slotAt_set] at e
  simp only [Table.n, List.length_set]
  by_cases c : b0 = b ∧ b0 < T.slots.length
  · rw [if_pos c] at e; cases e
  · rw [if_neg c] at e
    obtain ⟨h1, k, hk, hp, hne⟩ := hI b tg e
    exact ⟨h1, k, hk, hp, fun x hx => ne_empty_set (by simp) (hne x hx)⟩

theorem full_of_full_free {T : Table} {b0 b : Nat} (h : isFull (slotAt (free T b0).slots b) = true) :
    isFull (slotAt T.slots b) = true ∧ b ≠ b0 := by
  simp only [free] at h
  rw [slotAt_set] at h
  by_cases c : b0 = b ∧ b0 < T.slots.length
  · rw [if_pos c] at h; cases h
  · rw [if_neg c] at h
    refine ⟨h, ?_⟩
    intro e
    subst e
    have hlt : b < T.slots.length := by
      apply lt_of_slotAt_ne_empty
      intro e2; rw [e2] at h; simp [isFull] at h
    exact c ⟨rfl, hlt⟩

theorem noDup_free {T : Table} (hD : NoDup T) (b0 : Nat) : NoDup (free T b0) := by
  intro b1 b2 f1 f2 el
  exact hD b1 b2 (full_of_full_free f1).1 (full_of_full_free f2).1 el

/-! ## what is stored after an operation -/

theorem stored_setFull {T : Table} {p b hh : Nat} (hb : b < T.n) (q b' : Nat) :
    Stored (T.setFull b hh p) q b' ↔ (b' = b ∧ q = p) ∨ (b' ≠ b ∧ Stored T q b') := by
  unfold Stored
  simp only [Table.setFull]
  rw [slotAt_set]
  by_cases h : b' = b
  · subst h
    have : (b' = b' ∧ b' < T.slots.length) := ⟨rfl, hb⟩
    simp [this, isFull]
    exact eq_comm
  · have c : ¬ (b = b' ∧ b < T.slots.length) := fun c => h c.1.symm
    simp [c, h]

theorem stored_free {T : Table} {b0 : Nat} (q b' : Nat) :
    Stored (free T b0) q b' ↔ (b' ≠ b0 ∧ Stored T q b') := by
  unfold Stored
  constructor
  · intro ⟨f, l⟩
    have := full_of_full_free f
    exact ⟨this.2, this.1, l⟩
  · intro ⟨hne, f, l⟩
    refine ⟨?_, l⟩
    simp only [free]
    rw [slotAt_set]
    have c : ¬ (b0 = b' ∧ b0 < T.slots.length) := fun c => hne c.1.symm
    simp [c, f]

/-! ## lookups under the invariant -/

theorem lookupF_iff_stored {hash : Nat → Nat} {T : Table} (hI : Inv hash T) (hD : NoDup T) (p b : Nat) :
    lookupF T (hash p) p (2 * T.n + 1) 0 = some b ↔ Stored T p b := by
  constructor
  · intro e
    obtain ⟨j, _, _, _, hs, hl⟩ := lookupF_sound T (hash p) p _ _ _ e
    exact ⟨by rw [hs]; rfl, hl⟩
  · intro ⟨hf, hl⟩
    obtain ⟨tg, ht⟩ := isFull_iff.mp hf
    obtain ⟨h1, k, hk, hp, hne⟩ := hI b tg ht
    rw [hl] at h1 hp hne
    rw [← hp]
    apply lookupF_complete T (hash p) p _ 0 k (Nat.zero_le _) (by omega)
    · rw [hp, ht, h1]
    · rw [hp]; exact hl
    · intro i _ hi; exact hne i hi
    · intro i _ _ hs hli
      rw [hp]
      exact hD _ _ (by rw [hs]; rfl) hf (by rw [hli, hl])

theorem lookupF_none_iff {hash : Nat → Nat} {T : Table} (hI : Inv hash T) (hD : NoDup T) (p : Nat) :
    lookupF T (hash p) p (2 * T.n + 1) 0 = none ↔ ∀ b, ¬ Stored T p b := by
  constructor
  · intro e b hs
    rw [(lookupF_iff_stored hI hD p b).mpr hs] at e
    cases e
  · intro h
    cases e : lookupF T (hash p) p (2 * T.n + 1) 0 with
    | none => rfl
    | some b => exact absurd ((lookupF_iff_stored hI hD p b).mp e) (h b)

/-! ## occupancy -/

theorem slotAt_eq_getElem {m : List Slot} {b : Nat} (h : b < m.length) : slotAt m b = m[b] := by
  unfold slotAt
  rw [List.getElem?_eq_getElem h]; rfl

theorem occupied_setFull {T : Table} {b hh p : Nat} (hb : b < T.n)
    (hfree : isFull (slotAt T.slots b) = false) : occupied (T.setFull b hh p) = occupied T + 1 := by
  unfold occupied
  simp only [Table.setFull]
  rw [List.countP_set hb]
  rw [slotAt_eq_getElem hb] at hfree
  rw [hfree]
  have : isFull (Slot.full (tagOf hh)) = true := rfl
  rw [this]; simp

theorem occupied_free {T : Table} {b : Nat} (hfull : isFull (slotAt T.slots b) = true) :
    occupied (free T b) + 1 = occupied T := by
  have hb : b < T.slots.length := by
    apply lt_of_slotAt_ne_empty
    intro e; rw [e] at hfull; simp [isFull] at hfull
  unfold occupied
  simp only [free]
  rw [List.countP_set hb]
  rw [slotAt_eq_getElem hb] at hfull
  have hpos : 0 < List.countP isFull T.slots :=
    List.countP_pos_iff.mpr ⟨_, List.getElem_mem hb, hfull⟩
  rw [hfull]
  have : isFull Slot.tombstone = false := rfl
  rw [this]; simp; omega

/-- the labels of the full buckets among `m`, where `m` are the slots from bucket `off` on -/
def labelsFrom (label : Nat → Nat) : List Slot → Nat → List Nat
  | [], _ => []
  | s :: m, off => if isFull s then label off :: labelsFrom label m (off + 1) else labelsFrom label m (off + 1)

/-- the page ids stored in the table, in bucket order -/
def storedPages (T : Table) : List Nat := labelsFrom T.label T.slots 0

theorem length_labelsFrom (label : Nat → Nat) : ∀ (m : List Slot) (off : Nat),
    (labelsFrom label m off).length = m.countP isFull := by
  intro m
  induction m with
  | nil => intro off; rfl
  | cons s m ih =>
    intro off
    by_cases h : isFull s = true
    · simp [labelsFrom, h, ih, List.countP_cons]
    · simp [labelsFrom, h, ih, List.countP_cons]

theorem mem_labelsFrom (label : Nat → Nat) : ∀ (m : List Slot) (off p : Nat),
    p ∈ labelsFrom label m off ↔ ∃ i, isFull (slotAt m i) = true ∧ label (off + i) = p := by
  intro m
  induction m with
  | nil =>
    intro off p
    simp [labelsFrom, slotAt, isFull]
  | cons s m ih =>
    intro off p
    have shift : (∃ i, isFull (slotAt m i) = true ∧ label (off + 1 + i) = p) ↔
        (∃ i, isFull (slotAt (s :: m) (i + 1)) = true ∧ label (off + (i + 1)) = p) := by
      constructor
      · intro ⟨i, a, b⟩; exact ⟨i, by simpa [slotAt] using a, by rw [← b]; congr 1; omega⟩
      · intro ⟨i, a, b⟩; exact ⟨i, by simpa [slotAt] using a, by rw [← b]; congr 1; omega⟩
    have split : (∃ i, isFull (slotAt (s :: m) i) = true ∧ label (off + i) = p) ↔
        (isFull s = true ∧ label off = p) ∨
        (∃ i, isFull (slotAt (s :: m) (i + 1)) = true ∧ label (off + (i + 1)) = p) := by
      constructor
      · intro ⟨i, a, b⟩
        cases i with
        | zero => left; exact ⟨by simpa [slotAt] using a, by simpa using b⟩
        | succ i => right; exact ⟨i, a, b⟩
      · intro h
        rcases h with ⟨a, b⟩ | ⟨i, a, b⟩
        · exact ⟨0, by simpa [slotAt] using a, by simpa using b⟩
        · exact ⟨i + 1, a, b⟩
    rw [split, ← shift, ← ih]
    by_cases h : isFull s = true
    · simp [labelsFrom, h, eq_comm]
    · simp [labelsFrom, h]

theorem nodup_labelsFrom (label : Nat → Nat) : ∀ (m : List Slot) (off : Nat),
    (∀ i j, isFull (slotAt m i) = true → isFull (slotAt m j) = true → label (off + i) = label (off + j) → i = j) →
    (labelsFrom label m off).Nodup := by
  intro m
  induction m with
  | nil => intro off _; simp [labelsFrom]
  | cons s m ih =>
    intro off hinj
    have htail : (labelsFrom label m (off + 1)).Nodup := by
      apply ih
      intro i j fi fj el
      have := hinj (i + 1) (j + 1) (by simpa [slotAt] using fi) (by simpa [slotAt] using fj)
        (by rw [show off + (i + 1) = off + 1 + i by omega, show off + (j + 1) = off + 1 + j by omega]; exact el)
      omega
    by_cases h : isFull s = true
    · simp only [labelsFrom, h, if_true, List.nodup_cons]
      refine ⟨?_, htail⟩
      intro hm
      obtain ⟨i, fi, el⟩ := (mem_labelsFrom label m (off + 1) (label off)).mp hm
      have := hinj (i + 1) 0 (by simpa [slotAt] using fi) (by simpa [slotAt] using h)
        (by rw [show off + (i + 1) = off + 1 + i by omega]; simpa using el)
      omega
    · simp only [labelsFrom, h]
      exact htail

theorem storedPages_spec {T : Table} (hD : NoDup T) :
    (storedPages T).Nodup ∧ (storedPages T).length = occupied T ∧
    ∀ p, p ∈ storedPages T ↔ ∃ b, Stored T p b := by
  refine ⟨?_, length_labelsFrom _ _ _, ?_⟩
  · apply nodup_labelsFrom
    intro i j fi fj el
    simp only [Nat.zero_add] at el
    exact hD i j fi fj el
  · intro p
    unfold storedPages
    rw [mem_labelsFrom]
    simp [Stored]

/-! ## the table as a finite map: the two operations of `prepare_sync` -/

/-- the lookup, in flat form (`lookup_eq`: the mirrored loop computes this) -/
def find (hash : Nat → Nat) (T : Table) (p : Nat) : Option Nat := lookupF T (hash p) p (2 * T.n + 1) 0

/-- `allocate_bucket`, in flat form (`allocLoop_new_eq`) -/
def alloc (hash : Nat → Nat) (lim : Nat) (T : Table) (p : Nat) : Option Nat :=
  allocTop T.slots lim (hash p) (2 * T.n + 1) 0 0

inductive Op where
  /-- a changed, non-empty page: its bucket is known (loaded before) or a fresh one is allocated -/
  | insert (p : Nat)
  /-- a cleared page: its known bucket becomes a tombstone -/
  | remove (p : Nat)

def step (hash : Nat → Nat) (lim : Nat) (T : Table) : Op → Table
  | .insert p =>
    match find hash T p with
    | some _ => T
    | none =>
      match alloc hash lim T p with
      | some b => T.setFull b (hash p) p
      | none => T
  | .remove p =>
    match find hash T p with
    | some b => free T b
    | none => T

def run (hash : Nat → Nat) (lim : Nat) (T : Table) (ops : List Op) : Table := ops.foldl (step hash lim) T

theorem option_ext {α : Type} {x y : Option α} (h : ∀ b, x = some b ↔ y = some b) : x = y := by
  cases x with
  | none =>
    cases y with
    | none => rfl
    | some b => exact absurd ((h b).mpr rfl) (by simp)
  | some a => exact ((h a).mp rfl).symm

theorem step_n (hash : Nat → Nat) (lim : Nat) (T : Table) (op : Op) : (step hash lim T op).n = T.n := by
  cases op with
  | insert p =>
    simp only [step]
    cases find hash T p with
    | some _ => rfl
    | none =>
      cases alloc hash lim T p with
      | some b => exact setFull_n _ _ _ _
      | none => rfl
  | remove p =>
    simp only [step]
    cases find hash T p with
    | some b => exact free_n _ _
    | none => rfl

theorem step_inv {hash : Nat → Nat} {lim : Nat} {T : Table} (hn : 0 < T.n) (hI : Inv hash T) (hD : NoDup T)
    (op : Op) : Inv hash (step hash lim T op) ∧ NoDup (step hash lim T op) := by
  cases op with
  | insert p =>
    simp only [step]
    cases hf : find hash T p with
    | some _ => exact ⟨hI, hD⟩
    | none =>
      cases ha : alloc hash lim T p with
      | none => exact ⟨hI, hD⟩
      | some b =>
        obtain ⟨j, hj, hb, _, hbefore⟩ := allocTop_some ha
        have hfresh := (lookupF_none_iff hI hD p).mp hf
        subst hb
        exact ⟨inv_setFull hI hn hj hbefore, noDup_setFull hD (pos_lt hn) hfresh⟩
  | remove p =>
    simp only [step]
    cases hf : find hash T p with
    | some b => exact ⟨inv_free hI b, noDup_free hD b⟩
    | none => exact ⟨hI, hD⟩

theorem run_n (hash : Nat → Nat) (lim : Nat) : ∀ (ops : List Op) (T : Table), (run hash lim T ops).n = T.n := by
  intro ops
  induction ops with
  | nil => intro T; rfl
  | cons op ops ih => intro T; simp only [run, List.foldl] at ih ⊢; rw [ih, step_n]

theorem run_inv {hash : Nat → Nat} {lim : Nat} : ∀ (ops : List Op) {T : Table}, 0 < T.n → Inv hash T → NoDup T →
    Inv hash (run hash lim T ops) ∧ NoDup (run hash lim T ops) := by
  intro ops
  induction ops with
  | nil => intro T _ hI hD; exact ⟨hI, hD⟩
  | cons op ops ih =>
    intro T hn hI hD
    obtain ⟨a, b⟩ := step_inv (lim := lim) hn hI hD op
    simp only [run, List.foldl] at ih ⊢
    exact ih (by rw [step_n]; exact hn) a b

/-- after a successful insertion the page is found, in the allocated bucket; every other page is
found exactly where it was (or not at all, as before) -/
theorem find_step_insert {hash : Nat → Nat} {lim : Nat} {T : Table} (hn : 0 < T.n) (hI : Inv hash T)
    (hD : NoDup T) (p : Nat) :
    (find hash T p = none → ∀ b, alloc hash lim T p = some b → find hash (step hash lim T (.insert p)) p = some b) ∧
    (∀ b, find hash T p = some b → find hash (step hash lim T (.insert p)) p = some b) ∧
    (∀ q, q ≠ p → find hash (step hash lim T (.insert p)) q = find hash T q) := by
  obtain ⟨hI', hD'⟩ := step_inv (lim := lim) hn hI hD (.insert p)
  have hn' := step_n hash lim T (.insert p)
  refine ⟨?_, ?_, ?_⟩
  · intro hf b ha
    unfold find
    rw [lookupF_iff_stored hI' hD']
    simp only [step, hf, ha]
    obtain ⟨j, hj, hb, _, _⟩ := allocTop_some ha
    have hlt : b < T.n := by rw [hb]; exact pos_lt hn
    exact (stored_setFull hlt p b).mpr (Or.inl ⟨rfl, rfl⟩)
  · intro b hf
    simp only [step, hf]
  · intro q hq
    simp only [step]
    cases hf : find hash T p with
    | some _ => rfl
    | none =>
      cases ha : alloc hash lim T p with
      | none => rfl
      | some b =>
        simp only [step, hf, ha] at hI' hD'
        obtain ⟨j, hj, hb, hfreeb, _⟩ := allocTop_some ha
        have hlt : b < T.n := by rw [hb]; exact pos_lt hn
        apply option_ext
        intro b'
        unfold find
        rw [lookupF_iff_stored hI' hD', lookupF_iff_stored hI hD, stored_setFull hlt]
        constructor
        · intro h
          rcases h with ⟨_, e⟩ | ⟨_, h⟩
          · exact absurd e hq
          · exact h
        · intro h
          right
          refine ⟨?_, h⟩
          intro e
          rw [e] at h
          rw [h.1] at hfreeb
          cases hfreeb

/-- after a removal the page is not found any more; every other page is found exactly as before -/
theorem find_step_remove {hash : Nat → Nat} {lim : Nat} {T : Table} (hn : 0 < T.n) (hI : Inv hash T)
    (hD : NoDup T) (p : Nat) :
    find hash (step hash lim T (.remove p)) p = none ∧
    (∀ q, q ≠ p → find hash (step hash lim T (.remove p)) q = find hash T q) := by
  obtain ⟨hI', hD'⟩ := step_inv (lim := lim) hn hI hD (.remove p)
  cases hf : find hash T p with
  | none =>
    simp [step, hf]
  | some b0 =>
    simp only [step, hf] at hI' hD' ⊢
    have hst : Stored T p b0 := (lookupF_iff_stored hI hD p b0).mp hf
    constructor
    · unfold find
      rw [lookupF_none_iff hI' hD']
      intro b hs
      obtain ⟨hne, hs⟩ := (stored_free p b).mp hs
      exact hne (hD b b0 hs.1 hst.1 (by rw [hs.2, hst.2]))
    · intro q hq
      apply option_ext
      intro b'
      unfold find
      rw [lookupF_iff_stored hI' hD', lookupF_iff_stored hI hD, stored_free]
      constructor
      · intro h; exact h.2
      · intro h
        refine ⟨?_, h⟩
        intro e
        rw [e] at h
        exact hq (by rw [← h.2, hst.2])

/-! ## the mirrored functions in terms of the flat ones; the occupancy counter -/

theorem allocate_eq (hash : Nat → Nat) (lim : Nat) (T : Table) (p fuel : Nat) (hf : 2 * T.n + 2 ≤ fuel) :
    allocate hash lim T p fuel = some ((alloc hash lim T p).map (fun b => (b, T.setFull b (hash p) p))) := by
  unfold allocate alloc
  rw [allocLoop_new_eq T.slots lim (hash p) fuel hf]
  cases allocTop T.slots lim (hash p) (2 * T.slots.length + 1) 0 0 <;> rfl

theorem lookup_eq_find (hash : Nat → Nat) (T : Table) (p fuel : Nat) (hf : 2 * T.n + 2 ≤ fuel) :
    lookup hash T p fuel = some (find hash T p) := lookup_eq hash T p fuel hf

/-- `occupied_buckets_delta` of `prepare_sync`: `+1` for a page that got a fresh bucket, `-1` for a
cleared page; the maintained counter stays equal to `MetaMap::full_count` -/
theorem occupied_step_insert {hash : Nat → Nat} {lim : Nat} {T : Table} (hn : 0 < T.n) (p : Nat) :
    occupied (step hash lim T (.insert p)) =
      occupied T + (if find hash T p = none ∧ (alloc hash lim T p).isSome then 1 else 0) := by
  simp only [step]
  cases hf : find hash T p with
  | some _ => simp
  | none =>
    cases ha : alloc hash lim T p with
    | none => simp
    | some b =>
      obtain ⟨j, _, hb, hfree, _⟩ := allocTop_some ha
      have hlt : b < T.n := by rw [hb]; exact pos_lt hn
      simp [occupied_setFull hlt hfree]

theorem occupied_step_remove {hash : Nat → Nat} {lim : Nat} {T : Table} (p : Nat) :
    occupied (step hash lim T (.remove p)) + (if (find hash T p).isSome then 1 else 0) = occupied T := by
  simp only [step]
  cases hf : find hash T p with
  | none => simp
  | some b =>
    obtain ⟨_, _, _, _, hs, _⟩ := lookupF_sound T (hash p) p _ _ _ hf
    simp
    exact occupied_free (by rw [hs]; rfl)

end Nomt.Store.Probe
