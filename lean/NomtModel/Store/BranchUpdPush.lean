import NomtModel.Store.BranchUpdOps
import NomtModel.Store.LeafUpdBuild
/-!
# Branch updater: `push_insert`, `push_update`, `push_chunk` keep the tracker consistent

`TrOK kf b? ops g`: the ops are well formed, the gauge `g` describes the keys they stand for, and every `Update` /
`KeepChunk` lies within the first `prefix_compressed_items()` items (`PCOK`: once prefix compression has been stopped only
`Insert`s follow).
-/
namespace Nomt.BranchUpd
open Nomt.LeafUpd (Entry Sorted slice_length slice_append slice_succ slice_cons_of_lt mem_slice slice_self)

/-- every op that is not an `Insert` ends within the first `c` items -/
def PCOK : Nat → List Op → Prop
  | _, [] => True
  | c, .ins _ _ :: r => PCOK (c - 1) r
  | c, .upd _ _ :: r => 1 ≤ c ∧ PCOK (c - 1) r
  | c, .keep s e _ :: r => e - s ≤ c ∧ PCOK (c - (e - s)) r

theorem PCOK.mono : ∀ {ops : List Op} {c c' : Nat}, PCOK c ops → c ≤ c' → PCOK c' ops
  | [], _, _, _, _ => trivial
  | .ins _ _ :: r, c, c', h, hc => PCOK.mono (ops := r) h (by omega)
  | .upd _ _ :: r, c, c', h, hc => ⟨by have := h.1; omega, PCOK.mono (ops := r) h.2 (by omega)⟩
  | .keep s e _ :: r, c, c', h, hc => ⟨by have := h.1; omega, PCOK.mono (ops := r) h.2 (by omega)⟩

theorem PCOK.of_count : ∀ {ops : List Op} {c : Nat}, opsCount ops ≤ c → PCOK c ops
  | [], _, _ => trivial
  | .ins _ _ :: r, c, h => PCOK.of_count (ops := r) (by simp [Op.count] at h; omega)
  | .upd _ _ :: r, c, h => by
    simp [Op.count] at h
    exact ⟨by omega, PCOK.of_count (ops := r) (by omega)⟩
  | .keep s e _ :: r, c, h => by
    simp [Op.count] at h
    exact ⟨by omega, PCOK.of_count (ops := r) (by omega)⟩

theorem PCOK.allIns : ∀ {ins : List Op} {c : Nat}, AllIns ins → PCOK c ins
  | [], _, _ => trivial
  | .ins _ _ :: r, c, h => PCOK.allIns (ins := r) (c := c - 1) h
  | .upd _ _ :: _, _, h => h.elim
  | .keep _ _ _ :: _, _, h => h.elim

theorem PCOK.append_allIns : ∀ {ops : List Op} {c : Nat} {ins : List Op}, PCOK c ops → AllIns ins → PCOK c (ops ++ ins)
  | [], c, ins, _, hi => PCOK.allIns hi
  | .ins _ _ :: r, c, ins, h, hi => PCOK.append_allIns (ops := r) h hi
  | .upd _ _ :: r, c, ins, h, hi => ⟨h.1, PCOK.append_allIns (ops := r) h.2 hi⟩
  | .keep s e _ :: r, c, ins, h, hi => ⟨h.1, PCOK.append_allIns (ops := r) h.2 hi⟩

theorem PCOK.append : ∀ {a : List Op} {c : Nat} {b : List Op}, PCOK c a → PCOK (c - opsCount a) b → PCOK c (a ++ b)
  | [], c, b, _, hb => by simpa using hb
  | .ins _ _ :: r, c, b, h, hb => PCOK.append (a := r) h (by simp [Op.count] at hb; rwa [Nat.sub_sub])
  | .upd _ _ :: r, c, b, h, hb => ⟨h.1, PCOK.append (a := r) h.2 (by simp [Op.count] at hb; rwa [Nat.sub_sub])⟩
  | .keep s e _ :: r, c, b, h, hb => ⟨h.1, PCOK.append (a := r) h.2 (by simp [Op.count] at hb; rwa [Nat.sub_sub])⟩

theorem PCOK.split : ∀ {a : List Op} {c : Nat} {b : List Op}, PCOK c (a ++ b) → PCOK c a ∧ PCOK (c - opsCount a) b
  | [], c, b, h => ⟨trivial, by simpa using h⟩
  | .ins _ _ :: r, c, b, h => by
    have := PCOK.split (a := r) (b := b) h
    exact ⟨this.1, by simp [Op.count]; rw [← Nat.sub_sub]; exact this.2⟩
  | .upd _ _ :: r, c, b, h => by
    have := PCOK.split (a := r) (b := b) h.2
    exact ⟨⟨h.1, this.1⟩, by simp [Op.count]; rw [← Nat.sub_sub]; exact this.2⟩
  | .keep s e _ :: r, c, b, h => by
    have := PCOK.split (a := r) (b := b) h.2
    exact ⟨⟨h.1, this.1⟩, by simp [Op.count]; rw [← Nat.sub_sub]; exact this.2⟩

theorem sortedK_ekeys (l : List (Entry Nat)) : SortedK (ekeys l) ↔ Sorted l := by
  unfold SortedK ekeys Sorted
  rw [List.pairwise_map]

/-- the tracker is consistent -/
structure TrOK (kf : KF) (b? : Option Base) (ops : List Op) (g : Gauge) : Prop where
  wf : WF kf b? ops
  gauge : GOK kf g (ekeys (den b? ops))
  pc : PCOK g.pcItems ops

theorem TrOK.n_eq {kf : KF} {b? : Option Base} {ops : List Op} {g : Gauge} (h : TrOK kf b? ops g)
    (hb : ∀ b, b? = some b → b.node.pc ≤ b.node.items.length) : g.n = opsCount ops := by
  rw [h.gauge.n, ekeys_length, den_length hb h.wf]

theorem pcItems_ge_of_none {g : Gauge} (h : g.pc = none) : g.pcItems = g.n := by simp [Gauge.pcItems, h]

/-- appending `Insert`s -/
theorem TrOK.push_ins {kf : KF} (hkf : KFOK kf) {b? : Option Base} {ops : List Op} {g : Gauge} (h : TrOK kf b? ops g)
    (hb : ∀ b, b? = some b → b.node.pc ≤ b.node.items.length) (key pn : Nat)
    (hs : SortedK (ekeys (den b? ops) ++ [key])) (hbl : Below (ekeys (den b? ops) ++ [key])) :
    TrOK kf b? (ops ++ [.ins key pn]) (g.ingestKey kf key (kf.sl key)) := by
  have hg := h.gauge.ingestKey hkf key hs hbl
  refine ⟨wf_append.2 ⟨h.wf, wf_cons.2 ⟨trivial, wf_nil _ _⟩⟩, by simpa [denOp] using hg, ?_⟩
  apply PCOK.append_allIns _ (by exact (trivial : AllIns [.ins key pn]))
  apply h.pc.mono
  unfold Gauge.pcItems
  rw [ingestKey_pc]
  cases hpc : g.pc with
  | none =>
    simp only [Option.getD_none]
    rw [hg.n, h.gauge.n]; simp
  | some c => simp

/-- the base is a well-formed node -/
def BaseOK (kf : KF) (b? : Option Base) : Prop := ∀ b, b? = some b → NodeOK kf b.node ∧ b.low ≤ b.node.items.length

theorem BaseOK.pc_le {kf : KF} {b? : Option Base} (h : BaseOK kf b?) :
    ∀ b, b? = some b → b.node.pc ≤ b.node.items.length := fun b hb => (h b hb).1.pc_le

theorem pushInsert_spec {kf : KF} (hkf : KFOK kf) (st : St) (hv : st.valid = true)
    (h : TrOK kf st.base st.ops st.gauge) (hbase : BaseOK kf st.base) (key pn : Nat)
    (hs : SortedK (ekeys (den st.base st.ops) ++ [key])) (hbl : Below (ekeys (den st.base st.ops) ++ [key])) :
    ∃ st', pushInsert kf st key pn = some st' ∧ st'.base = st.base ∧ st'.cutoff = st.cutoff ∧ st'.valid = true ∧
      st'.ops = st.ops ++ [.ins key pn] ∧ TrOK kf st'.base st'.ops st'.gauge := by
  have hnv : (!st.valid) = false := by rw [hv]; rfl
  simp only [pushInsert, hnv, Bool.false_eq_true, if_false]
  refine ⟨_, rfl, rfl, rfl, hv, rfl, ?_⟩
  exact h.push_ins hkf hbase.pc_le key pn hs hbl

theorem pushTail_spec {kf : KF} (hkf : KFOK kf) (b : Base) : ∀ cnt pos (st : St), st.valid = true →
    TrOK kf st.base st.ops st.gauge → BaseOK kf st.base → pos + cnt ≤ b.node.items.length →
    SortedK (ekeys (den st.base st.ops) ++ chunkKeys b pos (pos + cnt)) →
    Below (ekeys (den st.base st.ops) ++ chunkKeys b pos (pos + cnt)) →
    ∃ st', pushTail kf b cnt pos st = some st' ∧ st'.base = st.base ∧ st'.cutoff = st.cutoff ∧ st'.valid = true ∧
      den st'.base st'.ops = den st.base st.ops ++ ents (slice b.node.items pos (pos + cnt)) ∧
      TrOK kf st'.base st'.ops st'.gauge := by
  intro cnt
  induction cnt with
  | zero => intro pos st hv h _ _ _ _; exact ⟨st, rfl, rfl, rfl, hv, by simp [slice_self], h⟩
  | succ cnt ih =>
    intro pos st hv h hbase hlen hs hbl
    have hp : pos < b.node.items.length := by omega
    have e : pos + (cnt + 1) = pos + 1 + cnt := by omega
    rw [e] at hs hbl ⊢
    rw [chunkKeys_cons b pos _ (by omega) hp] at hs hbl
    have hs1 : SortedK (ekeys (den st.base st.ops) ++ [b.node.items[pos].key]) := by
      have : ekeys (den st.base st.ops) ++ b.node.items[pos].key :: chunkKeys b (pos + 1) (pos + 1 + cnt) =
          (ekeys (den st.base st.ops) ++ [b.node.items[pos].key]) ++ chunkKeys b (pos + 1) (pos + 1 + cnt) := by simp
      rw [this] at hs
      exact hs.append_left
    have hb1 : Below (ekeys (den st.base st.ops) ++ [b.node.items[pos].key]) := by
      intro k hk
      apply hbl k
      rcases List.mem_append.1 hk with h1 | h1
      · exact List.mem_append_left _ h1
      · simp at h1; rw [h1]; simp
    obtain ⟨st1, e1, e2, e3, e4, e5, e6⟩ :=
      pushInsert_spec hkf st hv h hbase b.node.items[pos].key b.node.items[pos].pn hs1 hb1
    have hden1 : den st1.base st1.ops = den st.base st.ops ++ [b.node.items[pos].ent] := by
      rw [e5, e2]; simp [denOp, Item.ent]
    obtain ⟨st2, f1, f2, f3, f4, f5, f6⟩ := ih (pos + 1) st1 e4 e6 (by rw [e2]; exact hbase) (by omega)
      (by rw [hden1]; simpa [Item.ent] using hs) (by rw [hden1]; simpa [Item.ent] using hbl)
    refine ⟨st2, ?_, by rw [f2, e2], by rw [f3, e3], f4, ?_, f6⟩
    · simp [pushTail, Node.keyValue, List.getElem?_eq_getElem hp, e1, f1]
    · rw [f5, hden1, slice_cons_of_lt _ _ _ (by omega) hp]; simp

theorem pushUpdate_spec {kf : KF} (hkf : KFOK kf) (st : St) (b : Base) (hsb : st.base = some b) (hv : st.valid = true)
    (h : TrOK kf st.base st.ops st.gauge) (hbase : BaseOK kf st.base) (pos pn : Nat) (hp : pos < b.node.items.length)
    (hs : SortedK (ekeys (den st.base st.ops) ++ [b.node.items[pos].key]))
    (hbl : Below (ekeys (den st.base st.ops) ++ [b.node.items[pos].key])) :
    ∃ st', pushUpdate kf st b pos pn = some st' ∧ st'.base = st.base ∧ st'.cutoff = st.cutoff ∧ st'.valid = true ∧
      den st'.base st'.ops = den st.base st.ops ++ [⟨b.node.items[pos].key, pn, false⟩] ∧
      TrOK kf st'.base st'.ops st'.gauge := by
  have hk := Node.key_of_lt b.node pos hp
  have hg := h.gauge.ingestKey hkf b.node.items[pos].key hs hbl
  have hpcle := hbase.pc_le
  have hdu : denOp st.base (.upd pos pn) = [⟨b.node.items[pos].key, pn, false⟩] := by
    simp [denOp, hsb, baseItems, List.getElem?_eq_getElem hp]
  have hnv : (!st.valid) = false := by rw [hv]; rfl
  -- the two outcomes
  have hrep : ∃ st', (replaceOp (some b) (.upd pos pn)).map (fun r => ({ st with
        gauge := st.gauge.ingestKey kf b.node.items[pos].key (kf.sl b.node.items[pos].key), ops := st.ops ++ r } : St)) = some st' ∧
      st'.base = st.base ∧ st'.cutoff = st.cutoff ∧ st'.valid = true ∧
      den st'.base st'.ops = den st.base st.ops ++ [⟨b.node.items[pos].key, pn, false⟩] ∧
      TrOK kf st'.base st'.ops st'.gauge := by
    simp only [replaceOp, hk, Option.map_some]
    refine ⟨_, rfl, rfl, rfl, hv, by simp [denOp], ?_⟩
    refine ⟨wf_append.2 ⟨h.wf, wf_cons.2 ⟨trivial, wf_nil _ _⟩⟩, by simpa [denOp] using hg, ?_⟩
    exact (h.push_ins hkf hpcle b.node.items[pos].key pn hs hbl).pc
  have hkeep : pos < b.node.pc →
      (st.gauge.ingestKey kf b.node.items[pos].key (kf.sl b.node.items[pos].key)).pc = none → NoShort kf b pos →
      ∃ st', some ({ st with gauge := st.gauge.ingestKey kf b.node.items[pos].key (kf.sl b.node.items[pos].key),
                             ops := st.ops ++ [.upd pos pn] } : St) = some st' ∧
      st'.base = st.base ∧ st'.cutoff = st.cutoff ∧ st'.valid = true ∧
      den st'.base st'.ops = den st.base st.ops ++ [⟨b.node.items[pos].key, pn, false⟩] ∧
      TrOK kf st'.base st'.ops st'.gauge := by
    intro hpc hnone hns
    have hwf : WF kf st.base (st.ops ++ [.upd pos pn]) :=
      wf_append.2 ⟨h.wf, wf_cons.2 ⟨⟨b, hsb, hpc, hns⟩, wf_nil _ _⟩⟩
    refine ⟨_, rfl, rfl, rfl, hv, by simp [hdu], hwf, by simpa [hdu] using hg, ?_⟩
    apply PCOK.of_count
    simp only
    rw [pcItems_ge_of_none hnone, hg.n, ← den_length hpcle hwf]
    simp [hdu]
  simp only [pushUpdate, hnv, Bool.false_eq_true, if_false, Gauge.ingestOp, hk, Option.map_some]
  by_cases hc : b.node.pc ≤ pos ∨ (st.gauge.ingestKey kf b.node.items[pos].key (kf.sl b.node.items[pos].key)).pc.isSome = true
  · simp only [hc, if_true]
    exact hrep
  · simp only [hc, if_false]
    have hc' := not_or.1 hc
    have hnone : (st.gauge.ingestKey kf b.node.items[pos].key (kf.sl b.node.items[pos].key)).pc = none := by
      cases hx : (st.gauge.ingestKey kf b.node.items[pos].key (kf.sl b.node.items[pos].key)).pc with
      | none => rfl
      | some c => rw [hx] at hc'; simp at hc'
    have h0 : 0 < b.node.items.length := by omega
    unfold shortFirst
    by_cases hcz : (kf.canon && pos == 0) = true
    · simp only [hcz, if_true, Node.key_of_lt _ _ h0, Option.map_some]
      by_cases hshort : kf.sl b.node.items[0].key < b.node.pl
      · simp only [hshort, decide_true]
        exact hrep
      · simp only [hshort, decide_false]
        apply hkeep (by omega) hnone
        intro _ _ k hk0
        rw [Node.key_of_lt _ _ h0] at hk0
        cases hk0
        omega
    · simp only [hcz, Bool.false_eq_true, if_false]
      apply hkeep (by omega) hnone
      intro hcan hpos0
      exfalso
      apply hcz
      simp [hcan, hpos0]

theorem pushChunkFrom_spec {kf : KF} (hkf : KFOK kf) (st : St) (b : Base) (hsb : st.base = some b) (hv : st.valid = true)
    (h : TrOK kf st.base st.ops st.gauge) (hbase : BaseOK kf st.base) (s e : Nat) (hse : s ≤ e)
    (he : e ≤ b.node.items.length) (hns : NoShort kf b s)
    (hs : SortedK (ekeys (den st.base st.ops) ++ chunkKeys b s e))
    (hbl : Below (ekeys (den st.base st.ops) ++ chunkKeys b s e)) :
    ∃ st', pushChunkFrom kf st b s e = some st' ∧ st'.base = st.base ∧ st'.cutoff = st.cutoff ∧ st'.valid = true ∧
      den st'.base st'.ops = den st.base st.ops ++ ents (slice b.node.items s e) ∧
      TrOK kf st'.base st'.ops st'.gauge := by
  have hnode := (hbase b hsb).1
  have hpcle := hbase.pc_le
  have hpcn := hnode.pc_le
  simp only [pushChunkFrom]
  generalize hbce : max (min e b.node.pc) s = bce
  have hb1 : s ≤ bce := by omega
  have hb2 : bce ≤ e := by omega
  have hsplitK : chunkKeys b s bce ++ chunkKeys b bce e = chunkKeys b s e := chunkKeys_append b s bce e hb1 hb2
  have hsplitS : slice b.node.items s bce ++ slice b.node.items bce e = slice b.node.items s e :=
    slice_append _ _ _ _ hb1 hb2
  -- the state after the compressed part
  have step1 : ∃ st1, pushChunkHead kf st b s bce = some st1 ∧ st1.base = st.base ∧ st1.cutoff = st.cutoff ∧
      st1.valid = true ∧ den st1.base st1.ops = den st.base st.ops ++ ents (slice b.node.items s bce) ∧
      TrOK kf st1.base st1.ops st1.gauge := by
    unfold pushChunkHead
    by_cases hsb2 : s = bce
    · subst hsb2
      simp only [ne_eq, not_true_eq_false, if_false]
      exact ⟨st, rfl, rfl, rfl, hv, by simp [slice_self], h⟩
    · have hlt : s < bce := by omega
      have hbpc : bce ≤ b.node.pc := by omega
      simp only [ne_eq, hsb2, not_false_eq_true, if_true]
      obtain ⟨rl, fk, r1, r2, r3⟩ := hnode.chunk_sum hkf b s bce hlt hbpc
      simp only [r1, r2, r3, Gauge.ingestOp]
      have hs' : SortedK (ekeys (den st.base st.ops) ++ chunkKeys b s bce) := by
        rw [← hsplitK, ← List.append_assoc] at hs; exact hs.append_left
      have hbl' : Below (ekeys (den st.base st.ops) ++ chunkKeys b s bce) := by
        rw [← hsplitK, ← List.append_assoc] at hbl; exact hbl.append_left
      obtain ⟨g', g1, g2, g3, _⟩ := h.gauge.ingestChunk hkf b s bce hlt (by omega) hs' hbl'
      simp only [g1]
      have hok : OpOK kf st.base (.keep s bce (slSum kf (chunkKeys b s bce))) := ⟨b, hsb, hlt, hbpc, rfl, hns⟩
      have hdk : denOp st.base (.keep s bce (slSum kf (chunkKeys b s bce))) = ents (slice b.node.items s bce) := by
        simp [denOp, hsb, baseItems]
      have hgk : GOK kf g' (ekeys (den st.base st.ops ++ ents (slice b.node.items s bce))) := by
        rw [ekeys_append, ← chunkKeys_eq]; exact g2
      by_cases hpc : g'.pc.isSome = true
      · simp only [hpc, if_true]
        obtain ⟨r, q1, q2, q3, q4⟩ := replaceOp_spec hpcle hok
        rw [hsb] at q1
        simp only [q1, Option.map_some]
        refine ⟨_, rfl, rfl, rfl, hv, by simp [q2, hdk], wf_append.2 ⟨h.wf, wf_allIns q3⟩, by simpa [q2, hdk] using hgk, ?_⟩
        apply PCOK.append_allIns _ q3
        apply h.pc.mono
        simp only [Gauge.pcItems, g3]
        cases hx : st.gauge.pc with
        | none => rw [g3, hx] at hpc; simp at hpc
        | some c => simp
      · simp only [hpc, Bool.false_eq_true, if_false]
        have hwf : WF kf st.base (st.ops ++ [.keep s bce (slSum kf (chunkKeys b s bce))]) :=
          wf_append.2 ⟨h.wf, wf_cons.2 ⟨hok, wf_nil _ _⟩⟩
        refine ⟨_, rfl, rfl, rfl, hv, by simp [hdk], hwf, by simpa [hdk] using hgk, ?_⟩
        have hnone : g'.pc = none := by
          cases hx : g'.pc with
          | none => rfl
          | some c => rw [hx] at hpc; simp at hpc
        apply PCOK.of_count
        simp only
        rw [pcItems_ge_of_none hnone, hgk.n, ekeys_length, ← den_length hpcle hwf]
        simp [hdk]
  obtain ⟨st1, e1, e2, e3, e4, e5, e6⟩ := step1
  simp only [e1]
  have e7 : bce + (e - bce) = e := by omega
  obtain ⟨st2, f1, f2, f3, f4, f5, f6⟩ := pushTail_spec hkf b (e - bce) bce st1 e4 e6 (by rw [e2]; exact hbase)
    (by omega)
    (by rw [e7, e5, ekeys_append, ← chunkKeys_eq, List.append_assoc, hsplitK]; exact hs)
    (by rw [e7, e5, ekeys_append, ← chunkKeys_eq, List.append_assoc, hsplitK]; exact hbl)
  refine ⟨st2, f1, by rw [f2, e2], by rw [f3, e3], f4, ?_, f6⟩
  rw [f5, e5, e7, List.append_assoc, ← ents_append, hsplitS]

theorem pushChunk_spec {kf : KF} (hkf : KFOK kf) (st : St) (b : Base) (hsb : st.base = some b) (hv : st.valid = true)
    (h : TrOK kf st.base st.ops st.gauge) (hbase : BaseOK kf st.base) (s e : Nat) (hse : s < e)
    (he : e ≤ b.node.items.length)
    (hs : SortedK (ekeys (den st.base st.ops) ++ chunkKeys b s e))
    (hbl : Below (ekeys (den st.base st.ops) ++ chunkKeys b s e)) :
    ∃ st', pushChunk kf st b s e = some st' ∧ st'.base = st.base ∧ st'.cutoff = st.cutoff ∧ st'.valid = true ∧
      den st'.base st'.ops = den st.base st.ops ++ ents (slice b.node.items s e) ∧
      TrOK kf st'.base st'.ops st'.gauge := by
  have hnv : (!st.valid) = false := by rw [hv]; rfl
  have hsl : s < b.node.items.length := by omega
  have h0 : 0 < b.node.items.length := by omega
  simp only [pushChunk, hnv, Bool.false_eq_true, if_false, pushChunkShort, hse, if_true]
  -- without a short first separator the chunk starts at `s`
  have plain : NoShort kf b s →
      ∃ st', pushChunkFrom kf st b s e = some st' ∧ st'.base = st.base ∧ st'.cutoff = st.cutoff ∧ st'.valid = true ∧
        den st'.base st'.ops = den st.base st.ops ++ ents (slice b.node.items s e) ∧ TrOK kf st'.base st'.ops st'.gauge :=
    fun hns => pushChunkFrom_spec hkf st b hsb hv h hbase s e (Nat.le_of_lt hse) he hns hs hbl
  unfold shortFirst
  by_cases hcz : (kf.canon && s == 0) = true
  · simp only [hcz, if_true, Node.key_of_lt _ _ h0, Option.map_some]
    have hs0 : s = 0 := by
      simp only [Bool.and_eq_true, beq_iff_eq] at hcz; exact hcz.2
    by_cases hshort : kf.sl b.node.items[0].key < b.node.pl
    · simp only [hshort, decide_true]
      -- the first separator becomes an `Insert`, the chunk starts behind it
      subst hs0
      simp only [Node.keyValue, List.getElem?_eq_getElem h0, Option.map_some]
      have hck := chunkKeys_cons b 0 e hse h0
      rw [hck] at hs hbl
      have hs1 : SortedK (ekeys (den st.base st.ops) ++ [b.node.items[0].key]) := by
        have : ekeys (den st.base st.ops) ++ b.node.items[0].key :: chunkKeys b (0 + 1) e =
            (ekeys (den st.base st.ops) ++ [b.node.items[0].key]) ++ chunkKeys b (0 + 1) e := by simp
        rw [this] at hs; exact hs.append_left
      have hb1 : Below (ekeys (den st.base st.ops) ++ [b.node.items[0].key]) := by
        intro k hk
        apply hbl k
        rcases List.mem_append.1 hk with h1 | h1
        · exact List.mem_append_left _ h1
        · simp at h1; rw [h1]; simp
      obtain ⟨st1, e1, e2, e3, e4, e5, e6⟩ := pushInsert_spec hkf st hv h hbase b.node.items[0].key b.node.items[0].pn hs1 hb1
      simp only [e1, Option.map_some]
      have hden1 : den st1.base st1.ops = den st.base st.ops ++ [b.node.items[0].ent] := by
        rw [e5, e2]; simp [denOp, Item.ent]
      obtain ⟨st2, f1, f2, f3, f4, f5, f6⟩ := pushChunkFrom_spec hkf st1 b (by rw [e2]; exact hsb) e4 e6
        (by rw [e2]; exact hbase) (0 + 1) e (by omega) he (fun _ hh => absurd hh (by omega))
        (by rw [hden1]; simpa [Item.ent] using hs) (by rw [hden1]; simpa [Item.ent] using hbl)
      refine ⟨st2, f1, by rw [f2, e2], by rw [f3, e3], f4, ?_, f6⟩
      rw [f5, hden1, slice_cons_of_lt _ _ _ hse h0]; simp
    · simp only [hshort, decide_false]
      apply plain
      intro _ _ k hk0
      rw [Node.key_of_lt _ _ h0] at hk0
      cases hk0
      omega
  · simp only [hcz, Bool.false_eq_true, if_false]
    apply plain
    intro hcan hpos0
    exfalso
    apply hcz
    simp [hcan, hpos0]

end Nomt.BranchUpd
