import NomtModel.Store.ImgLemmas
import NomtModel.Store.LeafRt
/-!
# Branch pages: encoder (mirror of `BranchNodeBuilder::new` / `push`) and the round trip

Layout (`nomt/src/beatree/branch/node.rs`): `bbn_pn u32 | n u16 | prefix_compressed u16 |
prefix_len u16 | cells u16[n] | bitvec (Msb0): prefix bits ++ separator bits | … | node pointers
u32[n]` (aligned to the end).  `push(key, separator_len, pn)`: the first key gives the prefix; a
separator with index `< prefix_compressed` stores bits `[prefix_len, separator_len)` of its key
(`saturating_sub`), the others bits `[0, separator_len)`; `cells[i]` = bit offset of the end of
separator `i` after the prefix.
-/
namespace Nomt.Store

/-! ## bit strings packed into bytes (Msb0) -/

def bitN (b : Bool) : Nat := if b then 1 else 0

/-- byte `j` of a bit string: bits `8j … 8j+7`, most significant first, `false` beyond the end -/
def byteAt (bs : List Bool) (j : Nat) : Nat :=
  bitN (bs.getD (8 * j) false) * 128 + bitN (bs.getD (8 * j + 1) false) * 64 +
  bitN (bs.getD (8 * j + 2) false) * 32 + bitN (bs.getD (8 * j + 3) false) * 16 +
  bitN (bs.getD (8 * j + 4) false) * 8 + bitN (bs.getD (8 * j + 5) false) * 4 +
  bitN (bs.getD (8 * j + 6) false) * 2 + bitN (bs.getD (8 * j + 7) false)

/-- the first `n` bytes of the bit string -/
def packBits (bs : List Bool) (n : Nat) : List UInt8 := (List.range n).map (fun j => UInt8.ofNat (byteAt bs j))

theorem bitN_le (b : Bool) : bitN b ≤ 1 := by cases b <;> simp [bitN]

theorem byteAt_lt (bs : List Bool) (j : Nat) : byteAt bs j < 256 := by
  unfold byteAt
  have := bitN_le (bs.getD (8 * j) false); have := bitN_le (bs.getD (8 * j + 1) false)
  have := bitN_le (bs.getD (8 * j + 2) false); have := bitN_le (bs.getD (8 * j + 3) false)
  have := bitN_le (bs.getD (8 * j + 4) false); have := bitN_le (bs.getD (8 * j + 5) false)
  have := bitN_le (bs.getD (8 * j + 6) false); have := bitN_le (bs.getD (8 * j + 7) false)
  omega

theorem byte_bits (x0 x1 x2 x3 x4 x5 x6 x7 : Nat) (h0 : x0 ≤ 1) (h1 : x1 ≤ 1) (h2 : x2 ≤ 1) (h3 : x3 ≤ 1)
    (h4 : x4 ≤ 1) (h5 : x5 ≤ 1) (h6 : x6 ≤ 1) (h7 : x7 ≤ 1) :
    let X := x0 * 128 + x1 * 64 + x2 * 32 + x3 * 16 + x4 * 8 + x5 * 4 + x6 * 2 + x7
    X / 128 % 2 = x0 ∧ X / 64 % 2 = x1 ∧ X / 32 % 2 = x2 ∧ X / 16 % 2 = x3 ∧
    X / 8 % 2 = x4 ∧ X / 4 % 2 = x5 ∧ X / 2 % 2 = x6 ∧ X / 1 % 2 = x7 := by
  intro X
  refine ⟨by omega, by omega, by omega, by omega, by omega, by omega, by omega, by omega⟩

theorem byteAt_bit (bs : List Bool) (j t : Nat) (ht : t < 8) :
    byteAt bs j / 2 ^ (7 - t) % 2 = bitN (bs.getD (8 * j + t) false) := by
  have B := byte_bits _ _ _ _ _ _ _ _ (bitN_le (bs.getD (8 * j) false)) (bitN_le (bs.getD (8 * j + 1) false))
    (bitN_le (bs.getD (8 * j + 2) false)) (bitN_le (bs.getD (8 * j + 3) false))
    (bitN_le (bs.getD (8 * j + 4) false)) (bitN_le (bs.getD (8 * j + 5) false))
    (bitN_le (bs.getD (8 * j + 6) false)) (bitN_le (bs.getD (8 * j + 7) false))
  have : t = 0 ∨ t = 1 ∨ t = 2 ∨ t = 3 ∨ t = 4 ∨ t = 5 ∨ t = 6 ∨ t = 7 := by omega
  rcases this with e | e | e | e | e | e | e | e <;> subst e
  · exact B.1
  · exact B.2.1
  · exact B.2.2.1
  · exact B.2.2.2.1
  · exact B.2.2.2.2.1
  · exact B.2.2.2.2.2.1
  · exact B.2.2.2.2.2.2.1
  · exact B.2.2.2.2.2.2.2

theorem length_packBits (bs : List Bool) (n : Nat) : (packBits bs n).length = n := by simp [packBits]

theorem u8_packBits (pre post : List UInt8) (bs : List Bool) (n j : Nat) (hj : j < n) :
    u8 (pre ++ (packBits bs n ++ post)).toByteArray (pre.length + j) = byteAt bs j := by
  rw [u8_append_right, u8_toByteArray]
  have : (packBits bs n ++ post).getD j 0 = UInt8.ofNat (byteAt bs j) := by
    simp [packBits, List.getD_eq_getElem?_getD, List.getElem?_append_left, hj]
  rw [this]
  simp [UInt8.toNat_ofNat', Nat.mod_eq_of_lt (byteAt_lt bs j)]

theorem bitAt_packBits (pre post : List UInt8) (bs : List Bool) (n i : Nat) (hi : i < 8 * n) :
    bitAt (pre ++ (packBits bs n ++ post)).toByteArray pre.length i = bs.getD i false := by
  unfold bitAt
  rw [u8_packBits pre post bs n (i / 8) (by omega), byteAt_bit bs (i / 8) (i % 8) (Nat.mod_lt _ (by decide))]
  have : 8 * (i / 8) + i % 8 = i := by omega
  rw [this]
  cases bs.getD i false <;> simp [bitN]

/-- the number written by bits `[start, start+len)` of a bit string -/
def bitsVal (bs : List Bool) (start len : Nat) : Nat :=
  (List.range len).foldl (fun acc i => acc * 2 + bitN (bs.getD (start + i) false)) 0

theorem foldl_congr_mem {α β : Type} (f g : β → α → β) : ∀ (l : List α) (b : β),
    (∀ acc a, a ∈ l → f acc a = g acc a) → l.foldl f b = l.foldl g b := by
  intro l
  induction l with
  | nil => intro b _; rfl
  | cons a l ih =>
    intro b h
    simp only [List.foldl]
    rw [h b a (List.mem_cons_self ..)]
    exact ih _ (fun acc x hx => h acc x (List.mem_cons_of_mem _ hx))

theorem bitsNat_packBits (pre post : List UInt8) (bs : List Bool) (n start len : Nat) (h : start + len ≤ 8 * n) :
    bitsNat (pre ++ (packBits bs n ++ post)).toByteArray pre.length start len = bitsVal bs start len := by
  unfold bitsNat bitsVal
  apply foldl_congr_mem
  intro acc i hi
  have hi' : i < len := List.mem_range.mp hi
  rw [bitAt_packBits pre post bs n (start + i) (by omega)]
  cases bs.getD (start + i) false <;> simp [bitN]

/-! ## key bits and the numbers they write -/

/-- bit `j` (Msb0) of a 256-bit key given as a number -/
def keyBit (k j : Nat) : Bool := k / 2 ^ (255 - j) % 2 == 1

theorem bitN_keyBit (k j : Nat) : bitN (keyBit k j) = k / 2 ^ (255 - j) % 2 := by
  unfold keyBit bitN
  have : k / 2 ^ (255 - j) % 2 < 2 := Nat.mod_lt _ (by decide)
  by_cases h : k / 2 ^ (255 - j) % 2 = 1
  · simp [h]
  · have h0 : k / 2 ^ (255 - j) % 2 = 0 := by omega
    simp [h0]

/-- bits `[a, a+len)` of key `k` -/
def keyBits (k a len : Nat) : List Bool := (List.range len).map (fun t => keyBit k (a + t))

theorem length_keyBits (k a len : Nat) : (keyBits k a len).length = len := by simp [keyBits]

theorem getD_keyBits (k a len t : Nat) (ht : t < len) : (keyBits k a len).getD t false = keyBit k (a + t) := by
  simp [keyBits, List.getD_eq_getElem?_getD, ht]

/-- the bits `[a, a+len)` of a key, read as a number, are `k / 2^(256-a-len) % 2^len` -/
theorem keyVal (k a : Nat) : ∀ len, a + len ≤ 256 →
    (List.range len).foldl (fun acc t => acc * 2 + k / 2 ^ (255 - (a + t)) % 2) 0 =
      k / 2 ^ (256 - a - len) % 2 ^ len := by
  intro len
  induction len with
  | zero => intro _; simp [Nat.mod_one]
  | succ len ih =>
    intro h
    rw [List.range_succ, List.foldl_append, ih (by omega)]
    simp only [List.foldl]
    have e1 : 256 - a - len = (255 - (a + len)) + 1 := by omega
    have e2 : 256 - a - (len + 1) = 255 - (a + len) := by omega
    rw [e1, e2, Nat.pow_succ, ← Nat.div_div_eq_div_mul]
    have e3 : (2 : Nat) ^ (len + 1) = 2 * 2 ^ len := by rw [Nat.pow_succ]; omega
    rw [e3, Nat.mod_mul]
    omega

theorem sep_value_full (k L : Nat) (hk : k < 2 ^ 256) (hL : L ≤ 256) (hz : k % 2 ^ (256 - L) = 0) :
    (k / 2 ^ (256 - 0 - L) % 2 ^ L) * 2 ^ (256 - L) = k := by
  rw [Nat.sub_zero]
  have hlt : k / 2 ^ (256 - L) < 2 ^ L := by
    apply Nat.div_lt_of_lt_mul
    rw [← Nat.pow_add]
    have : 256 - L + L = 256 := by omega
    rw [this]; exact hk
  rw [Nat.mod_eq_of_lt hlt, Nat.div_mul_cancel (Nat.dvd_of_mod_eq_zero hz)]

theorem sep_value_compressed (k k0 pl L : Nat) (hk : k < 2 ^ 256) (hpl : pl ≤ 256) (hL : L ≤ 256)
    (hz : k % 2 ^ (256 - L) = 0) (hp : k / 2 ^ (256 - pl) = k0 / 2 ^ (256 - pl)) :
    ((k0 / 2 ^ (256 - 0 - pl) % 2 ^ pl) * 2 ^ (L - pl) + k / 2 ^ (256 - pl - (L - pl)) % 2 ^ (L - pl)) *
      2 ^ (256 - (pl + (L - pl))) = k := by
  rw [Nat.sub_zero, ← hp]
  have hA : k / 2 ^ (256 - pl) < 2 ^ pl := by
    apply Nat.div_lt_of_lt_mul
    rw [← Nat.pow_add]
    have : 256 - pl + pl = 256 := by omega
    rw [this]; exact hk
  rw [Nat.mod_eq_of_lt hA]
  by_cases hc : pl ≤ L
  · have e1 : 256 - pl - (L - pl) = 256 - L := by omega
    have e2 : 256 - (pl + (L - pl)) = 256 - L := by omega
    rw [e1, e2]
    have hq : k / 2 ^ (256 - L) / 2 ^ (L - pl) = k / 2 ^ (256 - pl) := by
      rw [Nat.div_div_eq_div_mul, ← Nat.pow_add]
      have : 256 - L + (L - pl) = 256 - pl := by omega
      rw [this]
    rw [← hq, Nat.div_add_mod', Nat.div_mul_cancel (Nat.dvd_of_mod_eq_zero hz)]
  · have e0 : L - pl = 0 := by omega
    rw [e0]
    simp only [Nat.pow_zero, Nat.mod_one, Nat.mul_one, Nat.add_zero, Nat.sub_zero]
    have hd : 2 ^ (256 - pl) ∣ k :=
      Nat.dvd_trans (Nat.pow_dvd_pow 2 (by omega)) (Nat.dvd_of_mod_eq_zero hz)
    exact Nat.div_mul_cancel hd

/-! ## the encoder -/

/-- one `push(key, separator_len, pn)` -/
structure BItem where
  key : Nat
  sepLen : Nat
  pn : Nat

/-- input of the builder: `set_bbn_pn`, `new(_, n, prefix_compressed, prefix_len)`, the pushes, and the
bits the page held after the separators (up to the node pointers) -/
structure BranchIn where
  bbnPn : Nat
  pc : Nat
  pl : Nat
  items : List BItem
  fill : List Bool

def sepStart (pc pl i : Nat) : Nat := if i < pc then pl else 0
/-- `separator_len.saturating_sub(prefix_len)` for compressed separators -/
def sepStored (pc pl i L : Nat) : Nat := if i < pc then L - pl else L

def storedLens (pc pl : Nat) : List BItem → Nat → List Nat
  | [], _ => []
  | it :: r, i => sepStored pc pl i it.sepLen :: storedLens pc pl r (i + 1)

def sepBitsFrom (pc pl : Nat) : List BItem → Nat → List Bool
  | [], _ => []
  | it :: r, i => keyBits it.key (sepStart pc pl i) (sepStored pc pl i it.sepLen) ++ sepBitsFrom pc pl r (i + 1)

def sumL : List Nat → Nat
  | [] => 0
  | x :: r => x + sumL r

/-- running sums: `cells[i]` = end of separator `i` -/
def cumul : List Nat → Nat → List Nat
  | [], _ => []
  | x :: r, acc => (acc + x) :: cumul r (acc + x)

def firstKey : List BItem → Nat
  | [] => 0
  | it :: _ => it.key

def branchBits (x : BranchIn) : List Bool :=
  keyBits (firstKey x.items) 0 x.pl ++ (sepBitsFrom x.pc x.pl x.items 0 ++ x.fill)

def encodeBranchL (x : BranchIn) : List UInt8 :=
  let n := x.items.length
  (le32 x.bbnPn ++ le16 n ++ le16 x.pc ++ le16 x.pl) ++
  ((cumul (storedLens x.pc x.pl x.items 0) 0).flatMap le16 ++
   (packBits (branchBits x) (PAGE - BRANCH_HEADER - 6 * n) ++ (x.items.map (·.pn)).flatMap le32))

def encodeBranch (x : BranchIn) : ByteArray := (encodeBranchL x).toByteArray

def itemOK (it : BItem) : Bool :=
  decide (it.key < 2 ^ 256) && decide (it.sepLen ≤ 256) && it.key % 2 ^ (256 - it.sepLen) == 0 && decide (it.pn < 2 ^ 32)

/-- the guard: what the callers of the builder guarantee.  At least one item; `prefix_compressed ≤ n`;
`prefix_len ≤ 256`; every key is a 256-bit number whose bits after `separator_len` are zero (the
separator length is the key length without trailing zeros); the first `prefix_compressed` keys share
the first `prefix_len` bits of the first key; cells, prefix + separator bits + the remaining bits,
and node pointers fill the page exactly -/
def branchOK (x : BranchIn) : Bool :=
  !x.items.isEmpty && decide (x.bbnPn < 2 ^ 32) && decide (x.pc ≤ x.items.length) && decide (x.pl ≤ 256) &&
  x.items.all itemOK &&
  (x.items.take x.pc).all (fun it => it.key / 2 ^ (256 - x.pl) == firstKey x.items / 2 ^ (256 - x.pl)) &&
  decide (BRANCH_HEADER + 6 * x.items.length ≤ PAGE) &&
  x.pl + sumL (storedLens x.pc x.pl x.items 0) + x.fill.length == 8 * (PAGE - BRANCH_HEADER - 6 * x.items.length)

/-! ## lists of lengths -/

theorem length_storedLens (pc pl : Nat) : ∀ (items : List BItem) (i : Nat), (storedLens pc pl items i).length = items.length := by
  intro items
  induction items with
  | nil => intro i; rfl
  | cons a r ih => intro i; simp [storedLens, ih]

theorem getElem?_storedLens (pc pl : Nat) : ∀ (items : List BItem) (i0 j : Nat) (it : BItem), items[j]? = some it →
    (storedLens pc pl items i0)[j]? = some (sepStored pc pl (i0 + j) it.sepLen) := by
  intro items
  induction items with
  | nil => intro i0 j it h; simp at h
  | cons a r ih =>
    intro i0 j it h
    cases j with
    | zero => simp at h; subst h; simp [storedLens]
    | succ j =>
      simp at h
      simp only [storedLens, List.getElem?_cons_succ]
      rw [ih (i0 + 1) j it h]
      congr 2; omega

theorem length_cumul : ∀ (ls : List Nat) (acc : Nat), (cumul ls acc).length = ls.length := by
  intro ls
  induction ls with
  | nil => intro acc; rfl
  | cons a r ih => intro acc; simp [cumul, ih]

theorem getElem?_cumul : ∀ (ls : List Nat) (acc j x : Nat), ls[j]? = some x →
    (cumul ls acc)[j]? = some (acc + sumL (ls.take (j + 1))) := by
  intro ls
  induction ls with
  | nil => intro acc j x h; simp at h
  | cons a r ih =>
    intro acc j x h
    cases j with
    | zero => simp [cumul, sumL]
    | succ j =>
      simp at h
      simp only [cumul, List.getElem?_cons_succ, List.take_succ_cons, sumL]
      rw [ih (acc + a) j x h]
      congr 1; omega

theorem sumL_take_succ : ∀ (ls : List Nat) (j x : Nat), ls[j]? = some x →
    sumL (ls.take (j + 1)) = sumL (ls.take j) + x := by
  intro ls
  induction ls with
  | nil => intro j x h; simp at h
  | cons a r ih =>
    intro j x h
    cases j with
    | zero => simp at h; subst h; simp [sumL]
    | succ j =>
      simp at h
      simp only [List.take_succ_cons, sumL]
      rw [ih j x h]; omega

theorem sumL_take_le : ∀ (ls : List Nat) (j : Nat), sumL (ls.take j) ≤ sumL ls := by
  intro ls
  induction ls with
  | nil => intro j; simp [sumL]
  | cons a r ih =>
    intro j
    cases j with
    | zero => simp [sumL]
    | succ j => simp only [List.take_succ_cons, sumL]; have := ih j; omega

theorem length_sepBitsFrom (pc pl : Nat) : ∀ (items : List BItem) (i : Nat),
    (sepBitsFrom pc pl items i).length = sumL (storedLens pc pl items i) := by
  intro items
  induction items with
  | nil => intro i; rfl
  | cons a r ih => intro i; simp [sepBitsFrom, storedLens, sumL, length_keyBits, ih]

/-- bit `t` of stored separator `j` sits at offset `Σ stored lengths before j` + `t` -/
theorem getD_sepBits (pc pl : Nat) : ∀ (items : List BItem) (i0 : Nat) (pre post : List Bool) (j : Nat) (it : BItem),
    items[j]? = some it → ∀ t, t < sepStored pc pl (i0 + j) it.sepLen →
    (pre ++ (sepBitsFrom pc pl items i0 ++ post)).getD
      (pre.length + sumL ((storedLens pc pl items i0).take j) + t) false =
      keyBit it.key (sepStart pc pl (i0 + j) + t) := by
  intro items
  induction items with
  | nil => intro i0 pre post j it h; simp at h
  | cons a r ih =>
    intro i0 pre post j it h t ht
    cases j with
    | zero =>
      simp at h; subst h
      simp only [sepBitsFrom, storedLens, List.take_zero, sumL, Nat.add_zero] at ht ⊢
      rw [List.getD_eq_getElem?_getD, List.getElem?_append_right (by omega)]
      have : pre.length + t - pre.length = t := by omega
      rw [this, List.append_assoc, List.getElem?_append_left (by rw [length_keyBits]; exact ht),
        ← List.getD_eq_getElem?_getD, getD_keyBits _ _ _ _ ht]
    | succ j =>
      simp at h
      simp only [sepBitsFrom, storedLens, List.take_succ_cons, sumL]
      have e1 : pre ++ (keyBits a.key (sepStart pc pl i0) (sepStored pc pl i0 a.sepLen) ++
          sepBitsFrom pc pl r (i0 + 1) ++ post) =
          (pre ++ keyBits a.key (sepStart pc pl i0) (sepStored pc pl i0 a.sepLen)) ++
          (sepBitsFrom pc pl r (i0 + 1) ++ post) := by simp
      have e2 : pre.length + (sepStored pc pl i0 a.sepLen + sumL ((storedLens pc pl r (i0 + 1)).take j)) + t =
          (pre ++ keyBits a.key (sepStart pc pl i0) (sepStored pc pl i0 a.sepLen)).length +
            sumL ((storedLens pc pl r (i0 + 1)).take j) + t := by
        simp [length_keyBits]; omega
      have e3 : i0 + (j + 1) = i0 + 1 + j := by omega
      rw [e1, e2, e3]
      rw [e3] at ht
      exact ih (i0 + 1) _ post j it h t ht

/-! ## reading u16 cells -/

theorem length_flatMap_le16 (items : List Nat) : (items.flatMap le16).length = 2 * items.length := by
  induction items with
  | nil => rfl
  | cons x xs ih => simp [List.flatMap_cons, ih, length_le16]; omega

theorem u16le_flatMap (items : List Nat) (post : List UInt8) (hb : ∀ x ∈ items, x < 65536) :
    ∀ i x, items[i]? = some x → u16le (items.flatMap le16 ++ post).toByteArray (2 * i) = x := by
  induction items with
  | nil => intro i x h; simp at h
  | cons y ys ih =>
    intro i x h
    cases i with
    | zero =>
      simp at h; subst h
      simp only [List.flatMap_cons, List.append_assoc, Nat.mul_zero]
      exact u16le_le16 y _ (hb y (List.mem_cons_self))
    | succ j =>
      simp at h
      have : 2 * (j + 1) = (le16 y).length + 2 * j := by simp [length_le16]; omega
      simp only [List.flatMap_cons, List.append_assoc]
      rw [this, u16le_append_right]
      exact ih (fun z hz => hb z (List.mem_cons_of_mem _ hz)) j x h

/-! ## the round trip -/

theorem bitsVal_key (B : List Bool) (start len k a : Nat)
    (hb : ∀ t, t < len → B.getD (start + t) false = keyBit k (a + t)) (ha : a + len ≤ 256) :
    bitsVal B start len = k / 2 ^ (256 - a - len) % 2 ^ len := by
  rw [← keyVal k a len ha]
  unfold bitsVal
  apply foldl_congr_mem
  intro acc t ht
  rw [hb t (List.mem_range.mp ht), bitN_keyBit]

structure BranchFacts (x : BranchIn) : Prop where
  npos : 0 < x.items.length
  bbn : x.bbnPn < 2 ^ 32
  pc : x.pc ≤ x.items.length
  pl : x.pl ≤ 256
  items : ∀ it ∈ x.items, it.key < 2 ^ 256 ∧ it.sepLen ≤ 256 ∧ it.key % 2 ^ (256 - it.sepLen) = 0 ∧ it.pn < 2 ^ 32
  pre : ∀ it ∈ x.items.take x.pc, it.key / 2 ^ (256 - x.pl) = firstKey x.items / 2 ^ (256 - x.pl)
  fit : BRANCH_HEADER + 6 * x.items.length ≤ PAGE
  bits : x.pl + sumL (storedLens x.pc x.pl x.items 0) + x.fill.length = 8 * (PAGE - BRANCH_HEADER - 6 * x.items.length)

theorem branchOK_facts {x : BranchIn} (h : branchOK x = true) : BranchFacts x := by
  unfold branchOK at h
  simp only [Bool.and_eq_true, Bool.not_eq_true', decide_eq_true_eq, List.all_eq_true, beq_iff_eq] at h
  obtain ⟨⟨⟨⟨⟨⟨⟨h1, h2⟩, h3⟩, h4⟩, h5⟩, h6⟩, h7⟩, h8⟩ := h
  refine ⟨?_, h2, h3, h4, ?_, h6, h7, h8⟩
  · cases hx : x.items with
    | nil => rw [hx] at h1; simp at h1
    | cons a r => simp
  · intro it hit
    have := h5 it hit
    unfold itemOK at this
    simp only [Bool.and_eq_true, decide_eq_true_eq, beq_iff_eq] at this
    exact ⟨this.1.1.1, this.1.1.2, this.1.2, this.2⟩

section
variable (x : BranchIn) (F : BranchFacts x)

/-- the bytes before the bit vector: header and cells -/
def branchHead (x : BranchIn) : List UInt8 :=
  (le32 x.bbnPn ++ le16 x.items.length ++ le16 x.pc ++ le16 x.pl) ++
    (cumul (storedLens x.pc x.pl x.items 0) 0).flatMap le16

theorem length_branchHead : (branchHead x).length = BRANCH_HEADER + 2 * x.items.length := by
  simp only [branchHead, List.length_append, length_le32, length_le16, length_flatMap_le16, length_cumul,
    length_storedLens, BRANCH_HEADER]

theorem encodeBranchL_split : encodeBranchL x =
    branchHead x ++ (packBits (branchBits x) (PAGE - BRANCH_HEADER - 6 * x.items.length) ++
      (x.items.map (·.pn)).flatMap le32) := by
  simp [encodeBranchL, branchHead]

include F in
theorem size_encodeBranch : (encodeBranch x).size = PAGE := by
  have := F.fit
  simp only [encodeBranch, encodeBranchL_split, List.size_toByteArray, List.length_append, length_branchHead,
    length_packBits, length_flatMap_le32, List.length_map]
  omega

include F in
theorem branch_header_fields :
    u32le (encodeBranch x) 0 = x.bbnPn ∧ u16le (encodeBranch x) 4 = x.items.length ∧
    u16le (encodeBranch x) 6 = x.pc ∧ u16le (encodeBranch x) 8 = x.pl := by
  have hfit := F.fit
  have hPAGE : PAGE = 4096 := rfl
  have hBH : BRANCH_HEADER = 10 := rfl
  have hn : x.items.length < 65536 := by omega
  have hpc : x.pc < 65536 := by have := F.pc; omega
  have hpl : x.pl < 65536 := by have := F.pl; omega
  refine ⟨?_, ?_, ?_, ?_⟩
  · simp only [encodeBranch, encodeBranchL, List.append_assoc]
    exact u32le_le32 _ _ F.bbn
  · simp only [encodeBranch, encodeBranchL, List.append_assoc]
    have := u16le_append_right (le32 x.bbnPn) (le16 x.items.length ++ (le16 x.pc ++ (le16 x.pl ++
      ((cumul (storedLens x.pc x.pl x.items 0) 0).flatMap le16 ++ (packBits (branchBits x)
        (PAGE - BRANCH_HEADER - 6 * x.items.length) ++ (x.items.map (·.pn)).flatMap le32))))) 0
    rw [length_le32] at this
    rw [this]; exact u16le_le16 _ _ hn
  · simp only [encodeBranch, encodeBranchL, List.append_assoc]
    have := u16le_append_right (le32 x.bbnPn ++ le16 x.items.length) (le16 x.pc ++ (le16 x.pl ++
      ((cumul (storedLens x.pc x.pl x.items 0) 0).flatMap le16 ++ (packBits (branchBits x)
        (PAGE - BRANCH_HEADER - 6 * x.items.length) ++ (x.items.map (·.pn)).flatMap le32)))) 0
    simp only [List.length_append, length_le32, length_le16, List.append_assoc] at this
    rw [this]; exact u16le_le16 _ _ hpc
  · simp only [encodeBranch, encodeBranchL, List.append_assoc]
    have := u16le_append_right (le32 x.bbnPn ++ le16 x.items.length ++ le16 x.pc) (le16 x.pl ++
      ((cumul (storedLens x.pc x.pl x.items 0) 0).flatMap le16 ++ (packBits (branchBits x)
        (PAGE - BRANCH_HEADER - 6 * x.items.length) ++ (x.items.map (·.pn)).flatMap le32))) 0
    simp only [List.length_append, length_le32, length_le16, List.append_assoc] at this
    rw [this]; exact u16le_le16 _ _ hpl

/-- end offset of separator `j` -/
def sepEnd (x : BranchIn) (j : Nat) : Nat := sumL ((storedLens x.pc x.pl x.items 0).take (j + 1))

include F in
theorem branch_cell (j : Nat) (hj : j < x.items.length) :
    u16le (encodeBranch x) (BRANCH_HEADER + 2 * j) = sepEnd x j := by
  have hfit := F.fit
  have hbits := F.bits
  have hPAGE : PAGE = 4096 := rfl
  have hBH : BRANCH_HEADER = 10 := rfl
  obtain ⟨l, hl⟩ : ∃ l, (storedLens x.pc x.pl x.items 0)[j]? = some l :=
    ⟨_, List.getElem?_eq_getElem (by rw [length_storedLens]; exact hj)⟩
  have hc := getElem?_cumul _ 0 j l hl
  rw [Nat.zero_add] at hc
  have hbound : ∀ c ∈ cumul (storedLens x.pc x.pl x.items 0) 0, c < 65536 := by
    intro c hc
    obtain ⟨i, hi, e⟩ := List.getElem_of_mem hc
    rw [length_cumul] at hi
    obtain ⟨l', hl'⟩ : ∃ l', (storedLens x.pc x.pl x.items 0)[i]? = some l' := ⟨_, List.getElem?_eq_getElem hi⟩
    have := getElem?_cumul _ 0 i l' hl'
    rw [List.getElem?_eq_getElem (by rw [length_cumul]; exact hi), e] at this
    injection this with this
    have hle := sumL_take_le (storedLens x.pc x.pl x.items 0) (i + 1)
    omega
  have := u16le_append_right (le32 x.bbnPn ++ le16 x.items.length ++ le16 x.pc ++ le16 x.pl)
    ((cumul (storedLens x.pc x.pl x.items 0) 0).flatMap le16 ++ (packBits (branchBits x)
      (PAGE - BRANCH_HEADER - 6 * x.items.length) ++ (x.items.map (·.pn)).flatMap le32)) (2 * j)
  simp only [List.length_append, length_le32, length_le16] at this
  simp only [encodeBranch, encodeBranchL]
  rw [show BRANCH_HEADER + 2 * j = 4 + 2 + 2 + 2 + 2 * j from rfl, this, u16le_flatMap _ _ hbound j _ hc]
  rfl

include F in
theorem branch_bits (start len : Nat) (h : start + len ≤ 8 * (PAGE - BRANCH_HEADER - 6 * x.items.length)) :
    bitsNat (encodeBranch x) (BRANCH_HEADER + 2 * x.items.length) start len = bitsVal (branchBits x) start len := by
  simp only [encodeBranch, encodeBranchL_split]
  rw [← length_branchHead x]
  exact bitsNat_packBits _ _ _ _ _ _ h

include F in
theorem branch_pn (j : Nat) (it : BItem) (hj : x.items[j]? = some it) :
    u32le (encodeBranch x) (PAGE - 4 * (x.items.length - j)) = it.pn := by
  have hfit := F.fit
  have hjl : j < x.items.length := by
    rcases Nat.lt_or_ge j x.items.length with h | h
    · exact h
    · rw [List.getElem?_eq_none h] at hj; cases hj
  have hpre : (branchHead x ++ packBits (branchBits x) (PAGE - BRANCH_HEADER - 6 * x.items.length)).length + 4 * j =
      PAGE - 4 * (x.items.length - j) := by
    simp only [List.length_append, length_branchHead, length_packBits]; omega
  have e : encodeBranchL x = (branchHead x ++ packBits (branchBits x) (PAGE - BRANCH_HEADER - 6 * x.items.length)) ++
      ((x.items.map (·.pn)).flatMap le32 ++ []) := by rw [encodeBranchL_split]; simp
  simp only [encodeBranch]
  rw [e, ← hpre, u32le_append_right]
  have hb : ∀ v ∈ x.items.map (·.pn), v < 2 ^ 32 := by
    intro v hv
    obtain ⟨it', hit', rfl⟩ := List.mem_map.mp hv
    exact (F.items it' hit').2.2.2
  rw [u32le_flatMap _ _ hb j (by simpa using hjl)]
  simp [List.getElem_map, List.getElem_of_getElem? hj |>.choose_spec] <;> first | rfl | skip
  all_goals
    have := List.getElem?_eq_getElem hjl
    rw [hj] at this
    injection this with this
    rw [← this]

/-- start offset of separator `j` -/
def sepBegin (x : BranchIn) (j : Nat) : Nat := sumL ((storedLens x.pc x.pl x.items 0).take j)

include F in
theorem branch_prefix : bitsVal (branchBits x) 0 x.pl = firstKey x.items / 2 ^ (256 - 0 - x.pl) % 2 ^ x.pl := by
  apply bitsVal_key _ _ _ _ 0
  · intro t ht
    unfold branchBits
    rw [Nat.zero_add, List.getD_eq_getElem?_getD, List.getElem?_append_left (by rw [length_keyBits]; exact ht),
      ← List.getD_eq_getElem?_getD, getD_keyBits _ _ _ _ ht, Nat.zero_add]
  · have := F.pl; omega

include F in
theorem branch_sep_bits (j : Nat) (it : BItem) (hj : x.items[j]? = some it) :
    bitsVal (branchBits x) (x.pl + sepBegin x j) (sepStored x.pc x.pl j it.sepLen) =
      it.key / 2 ^ (256 - sepStart x.pc x.pl j - sepStored x.pc x.pl j it.sepLen) % 2 ^ (sepStored x.pc x.pl j it.sepLen) := by
  have hit := F.items it (List.mem_of_getElem? hj)
  apply bitsVal_key
  · intro t ht
    have := getD_sepBits x.pc x.pl x.items 0 (keyBits (firstKey x.items) 0 x.pl) x.fill j it hj t
      (by rw [Nat.zero_add]; exact ht)
    rw [length_keyBits, Nat.zero_add] at this
    exact this
  · have := F.pl
    unfold sepStart sepStored
    split <;> omega

include F in
/-- separator `j` of the encoded page decodes to the `j`-th key and node pointer -/
theorem decodeBranchSep_encode (j : Nat) (it : BItem) (hj : x.items[j]? = some it) :
    decodeBranchSep (encodeBranch x) x.items.length x.pc x.pl
      (firstKey x.items / 2 ^ (256 - 0 - x.pl) % 2 ^ x.pl) j = .ok (it.key, it.pn) := by
  have hfit := F.fit
  have hbits := F.bits
  have hpl := F.pl
  have hPAGE : PAGE = 4096 := rfl
  have hBH : BRANCH_HEADER = 10 := rfl
  obtain ⟨hk, hL, hz, hpn⟩ := F.items it (List.mem_of_getElem? hj)
  have hjl : j < x.items.length := by
    rcases Nat.lt_or_ge j x.items.length with h | h
    · exact h
    · rw [List.getElem?_eq_none h] at hj; cases hj
  have hl := getElem?_storedLens x.pc x.pl x.items 0 j it hj
  rw [Nat.zero_add] at hl
  -- cells
  have hs : (if (j == 0) = true then 0 else u16le (encodeBranch x) (BRANCH_HEADER + 2 * (j - 1))) = sepBegin x j := by
    cases j with
    | zero => simp [sepBegin, sumL]
    | succ j' =>
      have : (j' + 1 == 0) = false := by simp
      rw [this]
      simp only [Bool.false_eq_true, if_false, Nat.add_sub_cancel]
      rw [branch_cell x F j' (by omega)]
      rfl
  have he : u16le (encodeBranch x) (BRANCH_HEADER + 2 * j) = sepBegin x j + sepStored x.pc x.pl j it.sepLen := by
    rw [branch_cell x F j hjl]
    exact sumL_take_succ _ j _ hl
  have hlast : u16le (encodeBranch x) (BRANCH_HEADER + 2 * (x.items.length - 1)) =
      sumL (storedLens x.pc x.pl x.items 0) := by
    rw [branch_cell x F _ (by omega)]
    unfold sepEnd
    have : x.items.length - 1 + 1 = (storedLens x.pc x.pl x.items 0).length := by rw [length_storedLens]; omega
    rw [this, List.take_length]
  have hle := sumL_take_le (storedLens x.pc x.pl x.items 0) (j + 1)
  have hsucc := sumL_take_succ _ j _ hl
  have hend : sepBegin x j + sepStored x.pc x.pl j it.sepLen ≤ sumL (storedLens x.pc x.pl x.items 0) := by
    unfold sepBegin; omega
  -- bits
  have hbitsj := branch_bits x F (x.pl + sepBegin x j) (sepStored x.pc x.pl j it.sepLen) (by omega)
  rw [branch_sep_bits x F j it hj] at hbitsj
  have hpnj := branch_pn x F j it hj
  unfold decodeBranchSep
  simp only [hs, he, hlast, hpnj]
  have c1 : ¬ (sepBegin x j + sepStored x.pc x.pl j it.sepLen < sepBegin x j) := by omega
  have c2 : ¬ (sepBegin x j + sepStored x.pc x.pl j it.sepLen > sumL (storedLens x.pc x.pl x.items 0)) := by omega
  have elen : sepBegin x j + sepStored x.pc x.pl j it.sepLen - sepBegin x j = sepStored x.pc x.pl j it.sepLen := by omega
  simp only [c1, c2, if_false, elen, hbitsj, pure, Except.pure, bind, Except.bind]
  by_cases hc : j < x.pc
  · have hpre := F.pre it (by
      rw [List.mem_iff_getElem?]
      exact ⟨j, by rw [List.getElem?_take_of_lt hc]; exact hj⟩)
    have e1 : sepStart x.pc x.pl j = x.pl := by simp [sepStart, hc]
    have e2 : sepStored x.pc x.pl j it.sepLen = it.sepLen - x.pl := by simp [sepStored, hc]
    rw [e1, e2]
    have ct : ¬ (x.pl + (it.sepLen - x.pl) > 256) := by omega
    simp only [hc, if_true, ct, if_false]
    rw [sep_value_compressed it.key (firstKey x.items) x.pl it.sepLen hk hpl hL hz hpre]
  · have e1 : sepStart x.pc x.pl j = 0 := by simp [sepStart, hc]
    have e2 : sepStored x.pc x.pl j it.sepLen = it.sepLen := by simp [sepStored, hc]
    rw [e1, e2]
    have ct : ¬ (it.sepLen > 256) := by omega
    simp only [hc, if_false, ct]
    rw [sep_value_full it.key it.sepLen hk hL hz]

end

/-- **branch round trip** -/
theorem branch_rt (x : BranchIn) (hok : branchOK x = true) :
    decodeBranch (encodeBranch x) = .ok
      { bbnPn := x.bbnPn, prefixLen := x.pl, prefixCompressed := x.pc,
        seps := x.items.map (fun it => (it.key, it.pn)) } := by
  have F := branchOK_facts hok
  have hfit := F.fit
  have hbits := F.bits
  have hPAGE : PAGE = 4096 := rfl
  have hBH : BRANCH_HEADER = 10 := rfl
  obtain ⟨f0, f4, f6, f8⟩ := branch_header_fields x F
  have hsz := size_encodeBranch x F
  have hlast : u16le (encodeBranch x) (BRANCH_HEADER + 2 * (x.items.length - 1)) =
      sumL (storedLens x.pc x.pl x.items 0) := by
    rw [branch_cell x F _ (by have := F.npos; omega)]
    unfold sepEnd
    have : x.items.length - 1 + 1 = (storedLens x.pc x.pl x.items 0).length := by
      rw [length_storedLens]; have := F.npos; omega
    rw [this, List.take_length]
  have hpfx := branch_bits x F 0 x.pl (by omega)
  rw [branch_prefix x F] at hpfx
  unfold decodeBranch
  have c0 : ((encodeBranch x).size != PAGE) = false := by simp [hsz]
  have c1 : (x.items.length == 0) = false := beq_eq_false_iff_ne.mpr (by have := F.npos; omega)
  have c2 : ¬ (x.pc > x.items.length) := by have := F.pc; omega
  have c3 : ¬ (x.pl > 256) := by have := F.pl; omega
  have c4 : ¬ (BRANCH_HEADER + 2 * x.items.length + 4 * x.items.length > PAGE) := by omega
  have c5 : ¬ (BRANCH_HEADER + 2 * x.items.length + (x.pl + sumL (storedLens x.pc x.pl x.items 0) + 7) / 8 +
      4 * x.items.length > PAGE) := by omega
  simp only [f0, f4, f6, f8, c0, c1, c2, c3, c4, hlast, c5, hpfx, Bool.false_eq_true, if_false, pure, Except.pure,
    bind, Except.bind]
  have hmap : x.items.map (fun it => (it.key, it.pn)) =
      (List.range x.items.length).map (fun i => ((x.items.getD i ⟨0, 0, 0⟩).key, (x.items.getD i ⟨0, 0, 0⟩).pn)) := by
    apply List.ext_getElem
    · simp
    · intro i h1 h2
      simp at h1
      simp [List.getD_eq_getElem?_getD, List.getElem?_eq_getElem h1]
  have := mapM_ok_of_forall
    (decodeBranchSep (encodeBranch x) x.items.length x.pc x.pl (firstKey x.items / 2 ^ (256 - 0 - x.pl) % 2 ^ x.pl))
    (fun i => ((x.items.getD i ⟨0, 0, 0⟩).key, (x.items.getD i ⟨0, 0, 0⟩).pn))
    (List.range x.items.length) (by
      intro i hi
      have hlt : i < x.items.length := List.mem_range.mp hi
      have hg : x.items[i]? = some x.items[i] := List.getElem?_eq_getElem hlt
      rw [decodeBranchSep_encode x F i x.items[i] hg]
      simp [List.getD_eq_getElem?_getD, hg])
  rw [this, hmap]

end Nomt.Store
