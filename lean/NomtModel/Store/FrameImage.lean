import NomtModel.Store.FrameWalk
/-!
# The frame property of the real on-disk decoder (`wfDetailM`, `decodeAll`, `wfImage`, `absImage`)

`ReadAgree A B m lnM bbnM`: image `B` has the same meta page as `A`, its `ln` / `bbn` files are not shorter, and it agrees
with `A` on the reserved page 0 of both files, on every `ln` page the walk of `A` marks as node (1), overflow page (2) or
free-list page (3), and on every `bbn` page below the frontier that the walk does not mark as free (4).  `B` may differ
arbitrarily on all other pages (free pages, unclaimed `ln` pages, everything at or beyond the frontier) and may be longer.
`frame_*`: then every reader gives on `B` exactly what it gives on `A`.

For `bbn` the read set is larger than the marks 1 / 3: the reconstruction rule (`liveBranches`, mirror of
`beatree/ops/reconstruction.rs`) inspects EVERY page below `bbn_bump` that the free list does not track — a never-written
(all-zero, unclaimed) page below the frontier is read and found empty; were it written before the switch-over, the old
manifest would see one more branch node.
-/
namespace Nomt.Store

theorem get!_set!' {α : Type} [Inhabited α] (a : Array α) (p i : Nat) (t : α) :
    (a.set! p t)[i]! = if i = p ∧ p < a.size then t else a[i]! := by
  simp only [Array.set!, getElem!_def, Array.getElem?_setIfInBounds]
  by_cases h : p = i
  · subst h
    by_cases hp : p < a.size
    · simp [hp]
    · simp [hp]
  · have h' : ¬ i = p := fun e => h e.symm
    simp [h, h']

theorem mkMarks_fold (pn : Nat) : ∀ (pns : List Nat) (a : Array Bool), pn < a.size → (pn ∈ pns ∨ a[pn]! = true) →
    (pns.foldl (fun a p => if p < a.size then a.set! p true else a) a)[pn]! = true := by
  intro pns
  induction pns with
  | nil => intro a _ h; rcases h with h | h; cases h; exact h
  | cons p ps ih =>
    intro a hlt h
    simp only [List.foldl_cons]
    by_cases hp : p < a.size
    · simp only [hp, if_true]
      apply ih
      · simpa [Array.set!] using hlt
      · rcases h with h | h
        · rcases List.mem_cons.1 h with rfl | h
          · right; rw [get!_set!']; simp [hp]
          · left; exact h
        · right
          rw [get!_set!']
          by_cases hc : pn = p ∧ p < a.size
          · simp [hc]
          · simp [hc, h]
    · simp only [hp, if_false]
      apply ih _ hlt
      rcases h with h | h
      · rcases List.mem_cons.1 h with rfl | h
        · exact absurd hlt hp
        · left; exact h
      · right; exact h

theorem mkMarks_mem (bump : Nat) (pns : List Nat) (pn : Nat) (h : pn ∈ pns) (hlt : pn < bump) :
    (mkMarks bump pns)[pn]! = true := by
  unfold mkMarks
  exact mkMarks_fold pn pns _ (by simpa using hlt) (Or.inl h)

structure ReadAgree (A B : Image) (m : Meta) (lnM bbnM : Array UInt8) : Prop where
  hmeta : B.metaF = A.metaF
  lnSize : A.ln.size ≤ B.ln.size
  bbnSize : A.bbn.size ≤ B.bbn.size
  ln0 : pageOf B.ln 0 = pageOf A.ln 0
  bbn0 : pageOf B.bbn 0 = pageOf A.bbn 0
  ln : ∀ pn : Nat, pn < m.lnBump → (lnM[pn]! = 1 ∨ lnM[pn]! = 2 ∨ lnM[pn]! = 3) → pageOf B.ln pn = pageOf A.ln pn
  bbn : ∀ pn : Nat, pn < m.bbnBump → bbnM[pn]! ≠ 4 → pageOf B.bbn pn = pageOf A.bbn pn

/-- everything a successful walk computed on the way -/
structure WalkParts (A : Image) (st : Stats) (lnM bbnM : Array UInt8) where
  m : Meta
  lnFl : List (Nat × List Nat)
  bbnFl : List (Nat × List Nat)
  lnM1 : Array UInt8
  bbnM1 : Array UInt8
  brs : List (Nat × Branch)
  keys : Nat
  ov : Nat
  hm : imageMeta A = .ok m
  hlnS : m.lnBump * PAGE ≤ A.ln.size
  hbbnS : m.bbnBump * PAGE ≤ A.bbn.size
  hlnFl : freeListAll A.ln m.lnBump m.lnBump m.lnFreelistPn = .ok lnFl
  hbbnFl : freeListAll A.bbn m.bbnBump m.bbnBump m.bbnFreelistPn = .ok bbnFl
  hlnC : claimFreeList (Array.replicate m.lnBump 0) m.lnBump lnFl "ln" = .ok lnM1
  hbbnC : claimFreeList (Array.replicate m.bbnBump 0) m.bbnBump bbnFl "bbn" = .ok bbnM1
  hz1 : allZero A.bbn 0 PAGE = true
  hz2 : allZero A.ln 0 PAGE = true
  hbrs : liveBranches A.bbn m.bbnBump (mkMarks m.bbnBump (trackedOf bbnFl)) = .ok brs
  hbrC : claimAll bbnM1 m.bbnBump 1 "bbn branch node" (brs.map (·.1)) = .ok bbnM
  hsorted : strictlySorted ((allSeps brs).map (·.1)) = true
  hfirst : (match allSeps brs with | (s, _) :: _ => s = 0 | [] => True)
  hwalk : leafWalk A.ln m.lnBump lnM1 0 0 (allSeps brs) = .ok (lnM, keys, ov)
  hst : st = Stats.mk keys (allSeps brs).length brs.length ov (trackedOf lnFl).length (trackedOf bbnFl).length
    (countUnclaimed lnM m.lnBump) (countUnclaimed bbnM m.bbnBump)

theorem wfDetailM_parts {A : Image} {st : Stats} {lnM bbnM : Array UInt8} (hd : wfDetailM A = .ok (st, lnM, bbnM)) :
    Nonempty (WalkParts A st lnM bbnM) := by
  unfold wfDetailM at hd
  simp only [bind, Except.bind] at hd
  cases hm : imageMeta A with
  | error e => rw [hm] at hd; cases hd
  | ok m =>
    rw [hm] at hd
    simp only at hd
    by_cases c1 : m.lnBump * PAGE > A.ln.size
    · simp [c1, throw, throwThe, MonadExceptOf.throw] at hd
    simp only [c1, if_false, pure, Except.pure] at hd
    by_cases c2 : m.bbnBump * PAGE > A.bbn.size
    · simp [c2, throw, throwThe, MonadExceptOf.throw] at hd
    simp only [c2, if_false] at hd
    cases h1 : freeListAll A.ln m.lnBump m.lnBump m.lnFreelistPn with
    | error e => rw [h1] at hd; cases hd
    | ok lnFl =>
    rw [h1] at hd; simp only at hd
    cases h2 : freeListAll A.bbn m.bbnBump m.bbnBump m.bbnFreelistPn with
    | error e => rw [h2] at hd; cases hd
    | ok bbnFl =>
    rw [h2] at hd; simp only at hd
    cases h3 : claimFreeList (Array.replicate m.lnBump 0) m.lnBump lnFl "ln" with
    | error e => rw [h3] at hd; cases hd
    | ok lnM1 =>
    rw [h3] at hd; simp only at hd
    cases h4 : claimFreeList (Array.replicate m.bbnBump 0) m.bbnBump bbnFl "bbn" with
    | error e => rw [h4] at hd; cases hd
    | ok bbnM1 =>
    rw [h4] at hd; simp only at hd
    by_cases z1 : allZero A.bbn 0 PAGE = true
    case neg => simp [z1, throw, throwThe, MonadExceptOf.throw] at hd
    simp only [z1, Bool.not_true, Bool.false_eq_true, if_false] at hd
    by_cases z2 : allZero A.ln 0 PAGE = true
    case neg => simp [z2, throw, throwThe, MonadExceptOf.throw] at hd
    simp only [z2, Bool.not_true, Bool.false_eq_true, if_false] at hd
    cases h5 : liveBranches A.bbn m.bbnBump (mkMarks m.bbnBump (trackedOf bbnFl)) with
    | error e => rw [h5] at hd; cases hd
    | ok brs =>
    rw [h5] at hd; simp only at hd
    cases h6 : claimAll bbnM1 m.bbnBump 1 "bbn branch node" (brs.map (·.1)) with
    | error e => rw [h6] at hd; cases hd
    | ok bbnM2 =>
    rw [h6] at hd; simp only at hd
    by_cases s1 : strictlySorted ((allSeps brs).map (·.1)) = true
    case neg => simp [s1, throw, throwThe, MonadExceptOf.throw] at hd
    simp only [s1, Bool.not_true, Bool.false_eq_true, if_false] at hd
    have hfirst : (match allSeps brs with | (s, _) :: _ => s = 0 | [] => True) ∧
        ∃ r, leafWalk A.ln m.lnBump lnM1 0 0 (allSeps brs) = .ok r ∧
          (st, lnM, bbnM) = (Stats.mk r.2.1 (allSeps brs).length brs.length r.2.2 (trackedOf lnFl).length (trackedOf bbnFl).length
            (countUnclaimed r.1 m.lnBump) (countUnclaimed bbnM2 m.bbnBump), r.1, bbnM2) := by
      cases hs : allSeps brs with
      | nil =>
        rw [hs] at hd
        simp only at hd
        refine ⟨trivial, ?_⟩
        cases hw : leafWalk A.ln m.lnBump lnM1 0 0 [] with
        | error e => rw [hw] at hd; cases hd
        | ok r =>
          rw [hw] at hd
          simp only [Except.ok.injEq] at hd
          exact ⟨r, rfl, by rw [← hd]⟩
      | cons x xs =>
        obtain ⟨s, c⟩ := x
        rw [hs] at hd
        simp only at hd
        by_cases s0 : (s != 0) = true
        · simp [s0, throw, throwThe, MonadExceptOf.throw] at hd
        · simp only [s0, Bool.false_eq_true, if_false] at hd
          refine ⟨by simpa using s0, ?_⟩
          cases hw : leafWalk A.ln m.lnBump lnM1 0 0 ((s, c) :: xs) with
          | error e => rw [hw] at hd; cases hd
          | ok r =>
            rw [hw] at hd
            simp only [Except.ok.injEq] at hd
            exact ⟨r, rfl, by rw [← hd]⟩
    obtain ⟨hf, r, hw, heq⟩ := hfirst
    obtain ⟨mkF, keys, ov⟩ := r
    simp only [Prod.mk.injEq] at heq
    obtain ⟨e1, e2, e3⟩ := heq
    subst e2 e3
    exact ⟨{ m := m, lnFl := lnFl, bbnFl := bbnFl, lnM1 := lnM1, bbnM1 := bbnM1, brs := brs, keys := keys, ov := ov,
             hm := hm, hlnS := Nat.not_lt.1 c1, hbbnS := Nat.not_lt.1 c2, hlnFl := h1, hbbnFl := h2, hlnC := h3, hbbnC := h4,
             hz1 := z1, hz2 := z2, hbrs := h5, hbrC := h6, hsorted := s1, hfirst := hf, hwalk := hw, hst := e1 }⟩

end Nomt.Store
