import NomtModel.Store.OvfCell
import NomtModel.Store.OvfArith
/-!
# Well-formed overflow chains, and `chunk` writes one

`Chain σ cell parts` is what the three consumers of an overflow cell (`read_blocking`, `AsyncReader`, `delete`) need
from the page store: the pages parse, following the page numbers (the cell's first, then those found in the pages, in
order) visits exactly the listed pages, **every page number is known before it is needed** (`known`: after `k` pages
at least `k + 1` numbers are known — the property whose violation by a caller was F12), and no page after the first
one that carries value bytes carries page numbers (`tail`: `delete` stops there).

`chunk_chain`: for every non-empty value, every allocator and every content of the pool pages `chunk` does not
panic, writes one page per allocated page number in allocation order, and any store that holds these writes contains
a chain whose bytes are the value.
-/
namespace Nomt.Ovf
open Nomt.Wal (Bytes leBytes leNat slice)

/-- one page of a chain as `parse_page` shows it -/
structure Part where
  pn : Nat
  pns : List Nat
  bytes : Bytes

def flatP (ps : List Part) : List Nat := ps.flatMap (·.pns)
def flatB (ps : List Part) : Bytes := ps.flatMap (·.bytes)

@[simp] theorem flatP_nil : flatP [] = [] := rfl
@[simp] theorem flatB_nil : flatB [] = [] := rfl
@[simp] theorem flatP_cons (p : Part) (ps : List Part) : flatP (p :: ps) = p.pns ++ flatP ps := by
  simp [flatP]
@[simp] theorem flatB_cons (p : Part) (ps : List Part) : flatB (p :: ps) = p.bytes ++ flatB ps := by
  simp [flatB]
@[simp] theorem flatP_append (a b : List Part) : flatP (a ++ b) = flatP a ++ flatP b := by simp [flatP]
@[simp] theorem flatB_append (a b : List Part) : flatB (a ++ b) = flatB a ++ flatB b := by simp [flatB]

structure Chain (σ : Store) (cell : List Nat) (parts : List Part) : Prop where
  pages : ∀ p ∈ parts, ∃ pg, σ p.pn = some pg ∧ parsePage pg = some (p.pns, p.bytes)
  links : cell ++ flatP parts = parts.map (·.pn)
  known : ∀ k, k < parts.length → k < cell.length + (flatP (parts.take k)).length
  tail : ∀ pre p post, parts = pre ++ p :: post → p.bytes ≠ [] → flatP post = []

/-- a chain only depends on the pages it consists of -/
theorem Chain.frame {σ σ' : Store} {cell : List Nat} {parts : List Part} (h : Chain σ cell parts)
    (hσ : ∀ p ∈ parts, σ' p.pn = σ p.pn) : Chain σ' cell parts :=
  ⟨fun p hp => by rw [hσ p hp]; exact h.pages p hp, h.links, h.known, h.tail⟩

/-! ## the parts `chunk` produces -/

/-- the loop of `chunk` seen through `parse_page` -/
def chunkParts : List Nat → List Nat → Bytes → List Part
  | [], _, _ => []
  | pn :: rest, toWrite, value =>
    let pns := toWrite.take MAX_PNS
    let bytes := min (BODY_SIZE - pns.length * 4) value.length
    ⟨pn, pns, value.take bytes⟩ :: chunkParts rest (toWrite.drop MAX_PNS) (value.drop bytes)

def writesOf (junk : Nat → Bytes) : Nat → List Part → List (Nat × Bytes)
  | _, [] => []
  | i, p :: ps => (p.pn, mkPage (junk i) p.pns p.bytes) :: writesOf junk (i + 1) ps

theorem chunkParts_length : ∀ (all tw : List Nat) (val : Bytes), (chunkParts all tw val).length = all.length
  | [], _, _ => rfl
  | _ :: rest, tw, val => by simp [chunkParts, chunkParts_length rest]

theorem chunkParts_pn : ∀ (all tw : List Nat) (val : Bytes), (chunkParts all tw val).map (·.pn) = all
  | [], _, _ => rfl
  | _ :: rest, tw, val => by simp [chunkParts, chunkParts_pn rest]

theorem writesOf_fst (junk : Nat → Bytes) : ∀ (i : Nat) (ps : List Part),
    (writesOf junk i ps).map (·.1) = ps.map (·.pn)
  | _, [] => rfl
  | i, p :: ps => by simp [writesOf, writesOf_fst junk (i + 1) ps]

/-- the writes of the loop are the pages of `chunkParts` -/
theorem chunkLoop_eq (junk : Nat → Bytes) : ∀ (all : List Nat) (i : Nat) (tw : List Nat) (val : Bytes)
    (ws : List (Nat × Bytes)), chunkLoop junk i all tw val = some ws → ws = writesOf junk i (chunkParts all tw val)
  | [], i, tw, val, ws, h => by
    simp only [chunkLoop] at h
    split at h
    · simp at h; subst h; rfl
    · simp at h
  | pn :: rest, i, tw, val, ws, h => by
    simp only [chunkLoop] at h
    split at h
    · simp at h
    · cases hc : chunkLoop junk (i + 1) rest (tw.drop MAX_PNS)
          (val.drop (min (BODY_SIZE - (tw.take MAX_PNS).length * 4) val.length)) with
      | none => rw [hc] at h; simp at h
      | some ws' =>
        rw [hc] at h
        simp only [Option.some.injEq] at h
        subst h
        have ih := chunkLoop_eq junk rest (i + 1) _ _ ws' hc
        simp only [chunkParts, writesOf, ih]

theorem step_arith (R T V : Nat) (hv : 0 < V) (h1 : R * 4092 < 4 * T + V) (h2 : 4 * T + V ≤ (R + 1) * 4092) :
    ((V - min (4092 - min 1023 T * 4) V = 0 ∧ R = 0 ∧ T - 1023 = 0) ∨
     (0 < V - min (4092 - min 1023 T * 4) V ∧
      (R - 1) * 4092 < 4 * (T - 1023) + (V - min (4092 - min 1023 T * 4) V) ∧
      4 * (T - 1023) + (V - min (4092 - min 1023 T * 4) V) ≤ R * 4092)) := by
  omega

/-- the stream that is left fits the pages that are left, and needs all of them -/
def LoopOK (all tw : List Nat) (val : Bytes) : Prop :=
  (val.length = 0 ∧ all.length = 0 ∧ tw.length = 0) ∨
  (0 < val.length ∧ (all.length - 1) * 4092 < 4 * tw.length + val.length ∧
    4 * tw.length + val.length ≤ all.length * 4092)

theorem LoopOK.step {pn : Nat} {rest tw : List Nat} {val : Bytes} (h : LoopOK (pn :: rest) tw val) :
    0 < val.length ∧
    LoopOK rest (tw.drop MAX_PNS) (val.drop (min (BODY_SIZE - (tw.take MAX_PNS).length * 4) val.length)) := by
  rcases h with ⟨_, h, _⟩ | ⟨hv, h1, h2⟩
  · simp at h
  · refine ⟨hv, ?_⟩
    simp only [List.length_cons, Nat.add_sub_cancel] at h1 h2
    have := step_arith rest.length tw.length val.length hv h1 h2
    simp only [LoopOK, List.length_drop, List.length_take, MAX_PNS, BODY_SIZE, PAGE_SIZE, Nat.reduceSub, Nat.reduceDiv]
    exact this

/-- **`chunk`'s loop does not panic** when the page count is in the window of the stream that is left -/
theorem chunkLoop_total (junk : Nat → Bytes) : ∀ (all : List Nat) (i : Nat) (tw : List Nat) (val : Bytes),
    LoopOK all tw val → (chunkLoop junk i all tw val).isSome = true
  | [], i, tw, val, h => by
    rcases h with ⟨h, _, _⟩ | ⟨hv, h1, h2⟩
    · have : val = [] := List.eq_nil_of_length_eq_zero h
      subst this; rfl
    · simp only [List.length_nil] at h2; omega
  | pn :: rest, i, tw, val, h => by
    obtain ⟨hvl, hstep⟩ := h.step
    have hve : val.isEmpty = false := by cases val <;> simp_all
    simp only [chunkLoop, hve]
    simp only [Bool.false_eq_true, if_false]
    have ih := chunkLoop_total junk rest (i + 1) _ _ hstep
    cases hc : chunkLoop junk (i + 1) rest (tw.drop MAX_PNS)
        (val.drop (min (BODY_SIZE - (tw.take MAX_PNS).length * 4) val.length)) with
    | none => rw [hc] at ih; simp at ih
    | some ws' => rfl

/-! ## what the loop's pages contain -/

/-- under `LoopOK` the pages carry all the page numbers and the whole value -/
theorem chunkParts_flat : ∀ (all tw : List Nat) (val : Bytes), LoopOK all tw val →
    flatP (chunkParts all tw val) = tw ∧ flatB (chunkParts all tw val) = val
  | [], tw, val, h => by
    rcases h with ⟨h1, _, h3⟩ | ⟨_, _, h2⟩
    · rw [List.eq_nil_of_length_eq_zero h1, List.eq_nil_of_length_eq_zero h3]; exact ⟨rfl, rfl⟩
    · simp only [List.length_nil] at h2; omega
  | pn :: rest, tw, val, h => by
    obtain ⟨_, hstep⟩ := h.step
    obtain ⟨ih1, ih2⟩ := chunkParts_flat rest _ _ hstep
    simp only [chunkParts, flatP_cons, flatB_cons, ih1, ih2, List.take_append_drop]
    exact ⟨trivial, trivial⟩

theorem chunkParts_flatP_nil : ∀ (all : List Nat) (val : Bytes), flatP (chunkParts all [] val) = []
  | [], _ => rfl
  | _ :: rest, val => by simp [chunkParts, chunkParts_flatP_nil rest]

/-- every page of the loop respects the page format -/
theorem chunkParts_fit : ∀ (all tw : List Nat) (val : Bytes), ∀ p ∈ chunkParts all tw val,
    4 * p.pns.length + p.bytes.length ≤ BODY_SIZE ∧ ∀ x ∈ p.pns, x ∈ tw
  | [], _, _, p, hp => by simp [chunkParts] at hp
  | pn :: rest, tw, val, p, hp => by
    simp only [chunkParts, List.mem_cons] at hp
    rcases hp with rfl | hp
    · refine ⟨?_, fun x hx => List.mem_of_mem_take hx⟩
      simp only [List.length_take, MAX_PNS, BODY_SIZE, PAGE_SIZE, Nat.reduceSub, Nat.reduceDiv]
      omega
    · obtain ⟨h1, h2⟩ := chunkParts_fit rest _ _ p hp
      exact ⟨h1, fun x hx => List.mem_of_mem_drop (h2 x hx)⟩

theorem writesOf_mem (junk : Nat → Bytes) : ∀ (ps : List Part) (i : Nat), ∀ p ∈ ps,
    ∃ j, (p.pn, mkPage (junk j) p.pns p.bytes) ∈ writesOf junk i ps
  | [], _, p, hp => by simp at hp
  | q :: ps, i, p, hp => by
    rcases List.mem_cons.1 hp with rfl | hp
    · exact ⟨i, by simp [writesOf]⟩
    · obtain ⟨j, hj⟩ := writesOf_mem junk ps (i + 1) p hp
      exact ⟨j, by simp [writesOf, hj]⟩

/-- **every page number is known before it is needed**: `K` numbers are known when page `d` is about to be
processed; the invariant `K ≥ min(total, d + 1)` is kept because a page either brings 1023 more numbers or the rest -/
theorem chunkParts_known : ∀ (all tw : List Nat) (val : Bytes) (K d k : Nat),
    K + tw.length = d + all.length → min (d + all.length) (d + 1) ≤ K → k < all.length →
    d + k < K + (flatP ((chunkParts all tw val).take k)).length
  | [], _, _, _, _, _, _, _, hk => by simp at hk
  | pn :: rest, tw, val, K, d, k, h1, h2, hk => by
    cases k with
    | zero => simp only [List.length_cons] at h2; simp; omega
    | succ k =>
      simp only [List.length_cons] at h1 h2 hk
      have ih := chunkParts_known rest (tw.drop MAX_PNS)
        (val.drop (min (BODY_SIZE - (tw.take MAX_PNS).length * 4) val.length))
        (K + (tw.take MAX_PNS).length) (d + 1) k
        (by simp only [List.length_take, List.length_drop, MAX_PNS, BODY_SIZE, PAGE_SIZE, Nat.reduceSub,
              Nat.reduceDiv]; omega)
        (by simp only [List.length_take, MAX_PNS, BODY_SIZE, PAGE_SIZE, Nat.reduceSub, Nat.reduceDiv]; omega)
        (by omega)
      simp only [chunkParts, List.take_succ_cons, flatP_cons, List.length_append]
      omega

/-- once a page carries value bytes the page numbers are exhausted -/
theorem chunkParts_tail : ∀ (pre : List Part) (all tw : List Nat) (val : Bytes) (p : Part) (post : List Part),
    chunkParts all tw val = pre ++ p :: post → p.bytes ≠ [] → flatP post = []
  | [], [], _, _, _, _, h, _ => by simp [chunkParts] at h
  | [], pn :: rest, tw, val, p, post, h, hb => by
    simp only [chunkParts, List.nil_append, List.cons.injEq] at h
    obtain ⟨rfl, rfl⟩ := h
    have hlen : 0 < (val.take (min (BODY_SIZE - (tw.take MAX_PNS).length * 4) val.length)).length :=
      List.length_pos_iff.2 hb
    simp only [List.length_take, MAX_PNS, BODY_SIZE, PAGE_SIZE, Nat.reduceSub, Nat.reduceDiv] at hlen
    have : tw.drop MAX_PNS = [] := List.drop_eq_nil_of_le (by simp only [MAX_PNS, BODY_SIZE, PAGE_SIZE]; omega)
    rw [this]
    exact chunkParts_flatP_nil _ _
  | _ :: _, [], _, _, _, _, h, _ => by simp [chunkParts] at h
  | q :: pre, pn :: rest, tw, val, p, post, h, hb => by
    simp only [chunkParts, List.cons_append, List.cons.injEq] at h
    exact chunkParts_tail pre rest _ _ p post h.2 hb

/-! ## `chunk` -/

theorem range_split (c m : Nat) (f : Nat → Nat) :
    (List.range c).map f ++ (List.range m).map (fun i => f (c + i)) = (List.range (c + m)).map f := by
  rw [List.range_add, List.map_append, List.map_map]
  rfl

theorem applyWrites_frame : ∀ (ws : List (Nat × Bytes)) (σ : Store) (q : Nat), q ∉ ws.map (·.1) →
    applyWrites σ ws q = σ q
  | [], _, _, _ => rfl
  | (pn, pg) :: ws, σ, q, h => by
    simp only [List.map_cons, List.mem_cons, not_or] at h
    rw [applyWrites, applyWrites_frame ws _ q h.2]
    simp [Store.write, h.1]

theorem applyWrites_mem : ∀ (ws : List (Nat × Bytes)) (σ : Store), (ws.map (·.1)).Nodup →
    ∀ w ∈ ws, applyWrites σ ws w.1 = some w.2
  | [], _, _, w, hw => by simp at hw
  | (pn, pg) :: ws, σ, hnd, w, hw => by
    simp only [List.map_cons, List.nodup_cons] at hnd
    rcases List.mem_cons.1 hw with rfl | hw
    · rw [applyWrites, applyWrites_frame ws _ _ hnd.1]
      simp [Store.write]
    · exact applyWrites_mem ws _ hnd.2 w hw

/-- all pages `chunk` allocates, in allocation order -/
def allocated (alloc : Nat → Nat) (len : Nat) : List Nat := (List.range (totalNeededPages len)).map alloc

/-- **`chunk` never panics on a non-empty value**; it allocates `total_needed_pages` pages, names the first
`min(total, 15)` in the cell and writes every allocated page exactly once, in allocation order -/
theorem chunk_ok (value : Bytes) (hne : value ≠ []) (alloc : Nat → Nat) (junk : Nat → Bytes) :
    ∃ out, chunk value alloc junk = some out ∧ out.total = totalNeededPages value.length ∧
      out.cell = (allocated alloc value.length).take MAX_CELL_PNS ∧
      out.writes.map (·.1) = allocated alloc value.length ∧
      out.writes = writesOf junk 0 (chunkParts (allocated alloc value.length)
        ((allocated alloc value.length).drop MAX_CELL_PNS) value) ∧
      LoopOK (allocated alloc value.length) ((allocated alloc value.length).drop MAX_CELL_PNS) value := by
  have hvl : 0 < value.length := List.length_pos_iff.2 hne
  have hve : value.isEmpty = false := by cases value <;> simp_all
  have hw := tnp_window value.length hvl
  have hpos := totalNeededPages_pos value.length hvl
  generalize hT : totalNeededPages value.length = T at *
  have hall : (List.range (min T MAX_CELL_PNS)).map alloc ++
      (List.range (T - min T MAX_CELL_PNS)).map (fun i => alloc (min T MAX_CELL_PNS + i)) =
      (List.range T).map alloc := by
    rw [range_split]; congr 2; omega
  have hcell : ((List.range T).map alloc).take MAX_CELL_PNS = (List.range (min T MAX_CELL_PNS)).map alloc := by
    rw [← List.map_take, List.take_range, Nat.min_comm]
  have hother : ((List.range T).map alloc).drop MAX_CELL_PNS =
      (List.range (T - min T MAX_CELL_PNS)).map (fun i => alloc (min T MAX_CELL_PNS + i)) := by
    by_cases hc : T ≤ MAX_CELL_PNS
    · rw [Nat.min_eq_left hc, Nat.sub_self, List.range_zero, List.map_nil]
      exact List.drop_eq_nil_of_le (by simp; exact hc)
    · rw [← hall, Nat.min_eq_right (by omega)]
      exact List.drop_left' (by simp)
  have hok : LoopOK ((List.range T).map alloc) (((List.range T).map alloc).drop MAX_CELL_PNS) value := by
    right
    simp only [Window, streamLen, ptrsOut, BODY_SIZE, PAGE_SIZE, MAX_CELL_PNS, Nat.reduceSub] at hw
    simp only [List.length_map, List.length_range, List.length_drop, MAX_CELL_PNS]
    omega
  have htot := chunkLoop_total junk _ 0 _ _ hok
  cases hc : chunkLoop junk 0 ((List.range T).map alloc) (((List.range T).map alloc).drop MAX_CELL_PNS) value with
  | none => rw [hc] at htot; simp at htot
  | some ws =>
    have heq := chunkLoop_eq junk _ _ _ _ ws hc
    refine ⟨⟨(List.range (min T MAX_CELL_PNS)).map alloc, T, ws⟩, ?_, rfl, ?_, ?_, ?_, ?_⟩
    · have hall' : (List.range (min T MAX_CELL_PNS)).map alloc ++ ((List.range T).map alloc).drop MAX_CELL_PNS =
          (List.range T).map alloc := by rw [hother]; exact hall
      simp only [chunk, hve, hT, ← hother, hall', hc]
      simp
    · simp only [allocated, hT, hcell]
    · simp only [allocated, hT, heq, writesOf_fst, chunkParts_pn]
    · simp only [allocated, hT, heq]
    · simp only [allocated, hT]; exact hok

/-- **what `chunk` wrote is a chain holding the value**, in every store that contains the written pages -/
theorem chunk_chain (value : Bytes) (hne : value ≠ []) (alloc : Nat → Nat) (junk : Nat → Bytes) (out : ChunkOut)
    (h : chunk value alloc junk = some out)
    (h32 : ∀ i, i < totalNeededPages value.length → alloc i < 2 ^ 32)
    (hj : ∀ i, (junk i).length = PAGE_SIZE)
    (σ : Store) (hσ : ∀ w ∈ out.writes, σ w.1 = some w.2) :
    ∃ parts, Chain σ out.cell parts ∧ flatB parts = value ∧
      parts.map (·.pn) = allocated alloc value.length ∧ parts.length = totalNeededPages value.length := by
  obtain ⟨out', h', _, hcell, _, hws, hok⟩ := chunk_ok value hne alloc junk
  rw [h] at h'; cases h'
  have hvl : 0 < value.length := List.length_pos_iff.2 hne
  have hpos := totalNeededPages_pos value.length hvl
  have halen : (allocated alloc value.length).length = totalNeededPages value.length := by simp [allocated]
  have hamem : ∀ x ∈ allocated alloc value.length, x < 2 ^ 32 := by
    intro x hx
    simp only [allocated, List.mem_map, List.mem_range] at hx
    obtain ⟨i, hi, rfl⟩ := hx
    exact h32 i hi
  obtain ⟨hfp, hfb⟩ := chunkParts_flat _ _ _ hok
  refine ⟨chunkParts (allocated alloc value.length) ((allocated alloc value.length).drop MAX_CELL_PNS) value,
    ⟨?_, ?_, ?_, ?_⟩, hfb, chunkParts_pn _ _ _, by rw [chunkParts_length, halen]⟩
  · intro p hp
    obtain ⟨j, hjm⟩ := writesOf_mem junk _ 0 p hp
    rw [← hws] at hjm
    obtain ⟨hfit, hsub⟩ := chunkParts_fit _ _ _ p hp
    exact ⟨_, hσ _ hjm, parsePage_mkPage _ _ _ (hj j)
      (fun x hx => hamem x (List.mem_of_mem_drop (hsub x hx))) hfit⟩
  · rw [hcell, hfp, chunkParts_pn, List.take_append_drop]
  · intro k hk
    rw [chunkParts_length, halen] at hk
    have := chunkParts_known (allocated alloc value.length) ((allocated alloc value.length).drop MAX_CELL_PNS) value
      (out.cell.length) 0 k
      (by rw [hcell]; simp only [List.length_take, List.length_drop, halen, MAX_CELL_PNS]; omega)
      (by rw [hcell]; simp only [List.length_take, halen, MAX_CELL_PNS]; omega)
      (by rw [halen]; exact hk)
    omega
  · intro pre p post hdec hb
    exact chunkParts_tail pre _ _ _ p post hdec hb

end Nomt.Ovf
