import NomtModel.Store.StageGlueFilter
/-!
# `filter_*_changeset` on the lists of SEVERAL workers

If no separator is held by two workers' trackers (each tracker is a `BTreeMap`: no separator twice inside one worker) the
concatenation of the workers' lists — in whatever order the workers complete — has pairwise different keys; then the
stable sort yields a strictly ascending list, no `assert!` can fire, nothing is removed: the function is a sort.
-/
namespace Nomt.StageGlue
open Nomt Nomt.ExtRange

variable {β : Type}

theorem insSorted_perm (x : Nat × β) : ∀ (l : List (Nat × β)), (insSorted x l).Perm (x :: l)
  | [] => List.Perm.refl _
  | y :: t => by
    unfold insSorted
    split
    · exact List.Perm.refl _
    · exact ((insSorted_perm x t).cons y).trans (List.Perm.swap x y t)

theorem insSorted_sorted (x : Nat × β) : ∀ (l : List (Nat × β)), l.Pairwise (fun a b => a.1 ≤ b.1) →
    (insSorted x l).Pairwise (fun a b => a.1 ≤ b.1)
  | [], _ => by simp [insSorted]
  | y :: t, h => by
    have h' := List.pairwise_cons.1 h
    unfold insSorted
    split
    · rename_i hlt
      refine List.pairwise_cons.2 ⟨?_, h⟩
      intro z hz
      rcases List.mem_cons.1 hz with rfl | hz
      · omega
      · have := h'.1 z hz; omega
    · rename_i hge
      refine List.pairwise_cons.2 ⟨?_, insSorted_sorted x t h'.2⟩
      intro z hz
      rcases List.mem_cons.1 ((insSorted_perm x t).mem_iff.1 hz) with rfl | hz
      · omega
      · exact h'.1 z hz

theorem sortCs_perm_sorted (l : List (Nat × β)) :
    (sortCs l).Perm l ∧ (sortCs l).Pairwise (fun a b => a.1 ≤ b.1) := by
  unfold sortCs
  have key : ∀ (l acc : List (Nat × β)), acc.Pairwise (fun a b => a.1 ≤ b.1) →
      (l.foldl (fun acc x => insSorted x acc) acc).Perm (acc ++ l) ∧
        (l.foldl (fun acc x => insSorted x acc) acc).Pairwise (fun a b => a.1 ≤ b.1) := by
    intro l
    induction l with
    | nil => intro acc h; exact ⟨by simp, h⟩
    | cons x t ih =>
      intro acc h
      obtain ⟨p, s⟩ := ih (insSorted x acc) (insSorted_sorted x acc h)
      refine ⟨p.trans ?_, s⟩
      refine ((insSorted_perm x acc).append_right t).trans ?_
      simpa using (List.perm_middle (a := x) (l₁ := acc) (l₂ := t)).symm
  simpa using key l [] List.Pairwise.nil

/-- **pairwise different separators**: the filter is a sort — no `assert!` reachable, nothing removed, every entry kept -/
theorem filterCs_of_nodup {α : Type} (leaf : Bool) (l : List (Nat × Option α)) (hne : leaf = true ∨ l ≠ [])
    (hnd : (l.map (·.1)).Nodup) :
    filterCs leaf l = some (sortCs l) ∧ (sortCs l).Pairwise (fun a b => a.1 < b.1) ∧ (sortCs l).Perm l := by
  obtain ⟨hp, hs⟩ := sortCs_perm_sorted l
  have hnd' : ((sortCs l).map (·.1)).Nodup := (hp.map _).nodup_iff.2 hnd
  have hasc : (sortCs l).Pairwise (fun a b => a.1 < b.1) := by
    have h1 : ((sortCs l).map (·.1)).Pairwise (· ≤ ·) := (List.pairwise_map).2 hs
    have h2 : ((sortCs l).map (·.1)).Pairwise (fun a b => a ≤ b ∧ a ≠ b) := h1.and hnd'
    exact (List.pairwise_map).1 (h2.imp (fun h => by omega))
  refine ⟨?_, hasc, hp⟩
  rw [filterCs_spec leaf l hne (pairInv_of_asc _ hasc), mergePairs_of_asc _ hasc]

/-- the workers' lists: each ascending (a `BTreeMap` in key order), no separator in two of them ⇒ pairwise different keys in
the concatenation, in any order of completion -/
theorem keys_nodup_of_disjoint {α : Type} : ∀ (parts : List (List (Nat × Option α))),
    (∀ p ∈ parts, p.Pairwise (fun a b => a.1 < b.1)) →
    parts.Pairwise (fun p q => ∀ a ∈ p, ∀ b ∈ q, a.1 ≠ b.1) → ((parts.flatten).map (·.1)).Nodup
  | [], _, _ => by simp
  | p :: r, h1, h2 => by
    have h2' := List.pairwise_cons.1 h2
    simp only [List.flatten_cons, List.map_append]
    refine List.nodup_append.2 ⟨?_, keys_nodup_of_disjoint r (fun q hq => h1 q (by simp [hq])) h2'.2, ?_⟩
    · have := h1 p (by simp)
      exact ((List.pairwise_map).2 this).imp (fun h => by omega)
    · intro a ha b hb e
      obtain ⟨x, hx, rfl⟩ := List.mem_map.1 ha
      obtain ⟨y, hy, rfl⟩ := List.mem_map.1 hb
      obtain ⟨q, hq, hyq⟩ := List.mem_flatten.1 hy
      exact h2'.1 q hq x hx y hyq e

end Nomt.StageGlue
