import NomtModel.Store.PageLayout
/-!
# The merkle-page layout: node slots, elided-children bitfield and label do not overlap

`set_node(i)` for `i < 126` writes bytes `[32·i, 32·i+32) ⊂ [0, 4032)`, the bitfield is `[4056, 4064)`, the label
`[4064, 4096)`; reading back gives what was written and nothing else changes.
-/
namespace Nomt.PageLayout

theorem splice_length (pg : PageBytes) (off : Nat) (data : List UInt8) (h : off + data.length ≤ pg.length) :
    (splice pg off data).length = pg.length := by
  unfold splice
  simp only [List.length_append, List.length_take, List.length_drop]
  omega

theorem splice_getElem? (pg : PageBytes) (off : Nat) (data : List UInt8) (k : Nat)
    (h : off + data.length ≤ pg.length) :
    (splice pg off data)[k]? = if off ≤ k ∧ k < off + data.length then data[k - off]? else pg[k]? := by
  unfold splice
  have hto : (pg.take off).length = off := by rw [List.length_take]; omega
  by_cases h1 : k < off
  · rw [List.append_assoc, List.getElem?_append_left (by omega), List.getElem?_take, if_pos h1, if_neg (by omega)]
  · rw [List.append_assoc, List.getElem?_append_right (by omega), hto]
    by_cases h2 : k < off + data.length
    · rw [List.getElem?_append_left (by omega), if_pos ⟨by omega, h2⟩]
    · rw [List.getElem?_append_right (by omega), List.getElem?_drop, if_neg (by omega)]
      congr 1
      omega

theorem window_getElem? (l : List UInt8) (a n k : Nat) :
    ((l.drop a).take n)[k]? = if k < n then l[a + k]? else none := by
  rw [List.getElem?_take]
  split
  · rw [List.getElem?_drop]
  · rfl

/-- a window disjoint from the spliced range is unchanged -/
theorem window_splice_disjoint (pg : PageBytes) (off : Nat) (data : List UInt8) (a n : Nat)
    (h : off + data.length ≤ pg.length) (hd : a + n ≤ off ∨ off + data.length ≤ a) :
    ((splice pg off data).drop a).take n = (pg.drop a).take n := by
  apply List.ext_getElem?
  intro k
  rw [window_getElem?, window_getElem?]
  split
  · rw [splice_getElem? _ _ _ _ h, if_neg (by omega)]
  · rfl

/-- the spliced window reads back the data -/
theorem window_splice_self (pg : PageBytes) (off : Nat) (data : List UInt8) (h : off + data.length ≤ pg.length) :
    ((splice pg off data).drop off).take data.length = data := by
  apply List.ext_getElem?
  intro k
  rw [window_getElem?]
  split
  · rename_i hk
    rw [splice_getElem? _ _ _ _ h, if_pos ⟨by omega, by omega⟩]
    congr 1; omega
  · rename_i hk
    rw [List.getElem?_eq_none (by omega)]

theorem drop_splice_after (pg : PageBytes) (off : Nat) (data : List UInt8) (a : Nat)
    (h : off + data.length ≤ pg.length) (ha : off + data.length ≤ a) :
    (splice pg off data).drop a = pg.drop a := by
  apply List.ext_getElem?
  intro k
  rw [List.getElem?_drop, List.getElem?_drop, splice_getElem? _ _ _ _ h, if_neg (by omega)]

/-! ## nodes -/

theorem setNode_spec (pg : PageBytes) (i : Nat) (node : List UInt8) (hpg : pg.length = PAGE_SIZE)
    (hn : node.length = 32) (hi : i < NODES_PER_PAGE) :
    ∃ pg', setNode pg i node = some pg' ∧ pg'.length = PAGE_SIZE ∧ readNode pg' i = some node ∧
      (∀ j, j < NODES_PER_PAGE → j ≠ i → readNode pg' j = readNode pg j) ∧
      readElided pg' = readElided pg ∧ label pg' = label pg := by
  unfold PAGE_SIZE at hpg
  unfold NODES_PER_PAGE at hi
  have hfit : 32 * i + node.length ≤ pg.length := by omega
  refine ⟨splice pg (32 * i) node, by unfold setNode NODES_PER_PAGE; rw [if_pos hi], ?_, ?_, ?_, ?_, ?_⟩
  · rw [splice_length _ _ _ hfit]; exact hpg
  · unfold readNode NODES_PER_PAGE
    rw [if_pos hi]
    have := window_splice_self pg (32 * i) node hfit
    rw [hn] at this
    rw [this]
  · intro j hj hne
    have hj' : j < 126 := hj
    unfold readNode
    rw [if_pos hj, if_pos hj, window_splice_disjoint _ _ _ _ _ hfit (by omega)]
  · unfold readElided ELIDED_OFF PAGE_SIZE
    rw [window_splice_disjoint _ _ _ _ _ hfit (by omega)]
  · unfold label LABEL_OFF PAGE_SIZE
    rw [drop_splice_after _ _ _ _ hfit (by omega)]

theorem setNode_none_iff (pg : PageBytes) (i : Nat) (node : List UInt8) :
    setNode pg i node = none ↔ NODES_PER_PAGE ≤ i := by
  unfold setNode; split <;> simp <;> omega

theorem readNode_none_iff (pg : PageBytes) (i : Nat) : readNode pg i = none ↔ NODES_PER_PAGE ≤ i := by
  unfold readNode; split <;> simp <;> omega

/-! ## elided-children bitfield -/

theorem le64_length (e : Nat) : (le64 e).length = 8 := by simp [le64]

theorem ofLe_le64 (e : Nat) (h : e < 2 ^ 64) : ofLe (le64 e) = e := by
  have : le64 e = [UInt8.ofNat (e % 256), UInt8.ofNat (e / 256 % 256), UInt8.ofNat (e / 65536 % 256),
      UInt8.ofNat (e / 16777216 % 256), UInt8.ofNat (e / 4294967296 % 256), UInt8.ofNat (e / 1099511627776 % 256),
      UInt8.ofNat (e / 281474976710656 % 256), UInt8.ofNat (e / 72057594037927936 % 256)] := by
    simp [le64, List.range, List.range.loop]
  rw [this]
  simp only [ofLe, List.foldr, UInt8.toNat_ofNat']
  omega

theorem setElided_spec (pg : PageBytes) (e : Nat) (hpg : pg.length = PAGE_SIZE) (he : e < 2 ^ 64) :
    (setElided pg e).length = PAGE_SIZE ∧ readElided (setElided pg e) = e ∧
      (∀ j, j < NODES_PER_PAGE → readNode (setElided pg e) j = readNode pg j) ∧
      label (setElided pg e) = label pg := by
  unfold PAGE_SIZE at hpg
  have hfit : ELIDED_OFF + (le64 e).length ≤ pg.length := by rw [le64_length]; unfold ELIDED_OFF PAGE_SIZE; omega
  unfold setElided
  refine ⟨by rw [splice_length _ _ _ hfit]; exact hpg, ?_, ?_, ?_⟩
  · unfold readElided
    have := window_splice_self pg ELIDED_OFF (le64 e) hfit
    rw [le64_length] at this
    rw [this, ofLe_le64 e he]
  · intro j hj
    have hj' : j < 126 := hj
    unfold readNode
    rw [if_pos hj, if_pos hj, window_splice_disjoint _ _ _ _ _ hfit (by unfold ELIDED_OFF PAGE_SIZE; omega)]
  · unfold label
    rw [drop_splice_after _ _ _ _ hfit (by rw [le64_length]; unfold ELIDED_OFF LABEL_OFF PAGE_SIZE; omega)]

/-! ## `ElidedChildren` bits -/

theorem testBit_u64max (c : Nat) : U64_MAX.testBit c = decide (c < 64) := by
  unfold U64_MAX; exact Nat.testBit_two_pow_sub_one 64 c

theorem elidedGet_set_same (bits c : Nat) (on : Bool) (hc : c < 64) :
    elidedGet (elidedSet bits c on) c = on := by
  unfold elidedGet elidedSet
  cases on
  · simp [Nat.testBit_and, Nat.testBit_xor, testBit_u64max, Nat.testBit_two_pow_self, hc]
  · simp [Nat.testBit_or, Nat.testBit_two_pow_self]

theorem elidedGet_set_other (bits c c' : Nat) (on : Bool) (hc' : c' < 64) (hne : c' ≠ c) :
    elidedGet (elidedSet bits c on) c' = elidedGet bits c' := by
  unfold elidedGet elidedSet
  have h2 : (2 ^ c).testBit c' = false := by
    rw [Nat.testBit_two_pow]; simp; omega
  cases on
  · simp [Nat.testBit_and, Nat.testBit_xor, testBit_u64max, h2, hc']
  · simp [Nat.testBit_or, h2]

theorem elidedSet_lt (bits c : Nat) (on : Bool) (hb : bits < 2 ^ 64) (hc : c < 64) :
    elidedSet bits c on < 2 ^ 64 := by
  unfold elidedSet
  cases on
  · exact Nat.lt_of_le_of_lt Nat.and_le_left hb
  · exact Nat.or_lt_two_pow hb (Nat.pow_lt_pow_right (by decide) hc)

end Nomt.PageLayout
