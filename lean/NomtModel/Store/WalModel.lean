import NomtModel.Store.PageDiffModel
/-!
Mirror of the bitbox write-ahead log: `bitbox/wal/write.rs` (`WalBlobBuilder`) and `bitbox/wal/read.rs`
(`WalBlobReader`).

Blob layout:  `START(1) sync_seqn:u32le | entry* | END(2) | zero padding to a multiple of PAGE_SIZE`
* clear entry:  `CLEAR(3)  bucket:u64le`
* update entry: `UPDATE(4) page_id:[u8;32] page_diff:[u8;16] changed_node:[u8;32] × count(diff) elided_children:u64le bucket:u64le`
-/
namespace Nomt.Wal

def PAGE_SIZE : Nat := 4096
def WAL_ENTRY_TAG_START : UInt8 := 1
def WAL_ENTRY_TAG_END : UInt8 := 2
def WAL_ENTRY_TAG_CLEAR : UInt8 := 3
def WAL_ENTRY_TAG_UPDATE : UInt8 := 4
/-- `MAX_SIZE` of `write.rs`: 128 GiB -/
def MAX_SIZE : Nat := 2 ^ 37

/-- `WalEntry` of `read.rs` -/
inductive Entry where
  | clear (bucket : Nat)
  | update (pageId : Bytes) (diff : PageDiff) (nodes : List Bytes) (elided : Nat) (bucket : Nat)
deriving DecidableEq, Repr

/-- what the Rust types guarantee about an entry handed to the builder: `u64` bucket / elided children / diff words,
`[u8; 32]` page id and nodes -/
def Entry.Typed : Entry → Prop
  | .clear b => b < 2 ^ 64
  | .update pid d nodes el b =>
    pid.length = 32 ∧ d.WF ∧ (∀ n ∈ nodes, n.length = 32) ∧ el < 2 ^ 64 ∧ b < 2 ^ 64

/-! ## the builder -/

/-- `WalBlobBuilder`: `size` = `mmap.size`; `chunks` = the byte strings written since the last `reset`, newest
first (`mmap[0 .. cur]` is their concatenation in write order); `cur` = the write position -/
structure Builder where
  size : Nat
  chunks : List Bytes
  cur : Nat
deriving Repr

namespace Builder

/-- `as_slice()` -/
def asSlice (b : Builder) : Bytes := b.chunks.reverse.flatten

/-- the doubling loop of `grow` -/
def growLoop : (fuel : Nat) → (newSize minNewSize : Nat) → Nat
  | 0, s, _ => s
  | f + 1, s, m => if s < m ∧ s < MAX_SIZE then growLoop f (min (s * 2) (2 ^ 64 - 1)) m else s

/-- `WalBlobBuilder::write` (with `grow`; a failing `mremap` + `mmap` is not modelled) -/
def write (b : Builder) (bytes : Bytes) : Out Builder :=
  let newCur := b.cur + bytes.length
  if newCur ≥ 2 ^ 64 then .panic "write: checked_add" else
  let grown : Out Nat :=
    if newCur ≥ b.size then
      if b.size ≥ MAX_SIZE then .panic "WAL blob too large"
      else .ok (min (growLoop 64 b.size newCur) MAX_SIZE)
    else .ok b.size
  match grown with
  | .ok size =>
    if newCur > size then .panic "write: copy past the end of the mapping (UB)" else
    .ok { size := size, chunks := bytes :: b.chunks, cur := newCur }
  | .err e => .err e
  | .panic s => .panic s

def writeByte (b : Builder) (x : UInt8) : Out Builder := b.write [x]

/-- `reset(sync_seqn)` -/
def reset (b : Builder) (seqn : Nat) : Out Builder := do
  let b ← ({ b with chunks := [], cur := 0 } : Builder).writeByte WAL_ENTRY_TAG_START
  b.write (leBytes 4 seqn)

/-- `write_clear(bucket_index)` -/
def writeClear (b : Builder) (bucket : Nat) : Out Builder := do
  let b ← b.writeByte WAL_ENTRY_TAG_CLEAR
  b.write (leBytes 8 bucket)

def writeNodes (b : Builder) : List Bytes → Out Builder
  | [] => .ok b
  | n :: ns => do let b ← b.write n; writeNodes b ns

/-- `write_update(page_id, page_diff, changed, elided_children, bucket_index)` -/
def writeUpdate (b : Builder) (pageId : Bytes) (diff : PageDiff) (changed : List Bytes) (elided bucket : Nat) :
    Out Builder := do
  let b ← b.writeByte WAL_ENTRY_TAG_UPDATE
  let b ← b.write pageId
  let b ← b.write diff.asBytes
  let b ← b.writeNodes changed
  let b ← b.write (leBytes 8 elided)
  b.write (leBytes 8 bucket)

/-- `finalize()`: END tag, zero fill up to the next multiple of the page size -/
def finalize (b : Builder) : Out Builder := do
  let b ← b.writeByte WAL_ENTRY_TAG_END
  let len := (b.cur + PAGE_SIZE - 1) / PAGE_SIZE * PAGE_SIZE
  if len > b.size then .panic "finalize: zero fill past the end of the mapping (UB)" else
  pure { b with chunks := List.replicate (len - b.cur) 0 :: b.chunks, cur := len }

def writeEntry (b : Builder) : Entry → Out Builder
  | .clear bucket => b.writeClear bucket
  | .update pid d nodes el bucket => b.writeUpdate pid d nodes el bucket

def writeEntries (b : Builder) : List Entry → Out Builder
  | [] => .ok b
  | e :: es => do let b ← b.writeEntry e; writeEntries b es

/-- what `prepare_sync` does with the builder: `reset`, one `write_*` per dirty page, `finalize` -/
def run (b : Builder) (seqn : Nat) (es : List Entry) : Out Builder := do
  let b ← b.reset seqn
  let b ← b.writeEntries es
  b.finalize

end Builder

/-! ## SPEC of the encoder: the blob as one expression -/

def encEntry : Entry → Bytes
  | .clear bucket => WAL_ENTRY_TAG_CLEAR :: leBytes 8 bucket
  | .update pid d nodes el bucket =>
    WAL_ENTRY_TAG_UPDATE :: (pid ++ d.asBytes ++ nodes.flatten ++ leBytes 8 el ++ leBytes 8 bucket)

def encBody (seqn : Nat) (es : List Entry) : Bytes :=
  WAL_ENTRY_TAG_START :: (leBytes 4 seqn ++ (es.map encEntry).flatten ++ [WAL_ENTRY_TAG_END])

def padLen (n : Nat) : Nat := (n + PAGE_SIZE - 1) / PAGE_SIZE * PAGE_SIZE - n

/-- SPEC: the WAL blob of a sync -/
def encode (seqn : Nat) (es : List Entry) : Bytes :=
  encBody seqn es ++ List.replicate (padLen (encBody seqn es).length) 0

/-! ## the reader -/

/-- `WalBlobReader` (the file content is held in memory as a `Vec<u8>`) -/
structure Reader where
  wal : Array UInt8
  offset : Nat
  seqn : Nat

namespace Reader

/-- `read_byte` -/
def readByte (r : Reader) : Out (UInt8 × Reader) :=
  if r.offset ≥ r.wal.size then .err .eof else
  match r.wal[r.offset]? with
  | none => .panic "read_byte: wal[offset]"
  | some b => .ok (b, { r with offset := r.offset + 1 })

/-- `read_buf::<N>` -/
def readBuf (r : Reader) (n : Nat) : Out (Bytes × Reader) :=
  if r.offset + n > r.wal.size then .err .eof else
  let a := (r.wal.extract r.offset (r.offset + n)).toList
  if a.length ≠ n then .panic "read_buf: try_into" else
  .ok (a, { r with offset := r.offset + n })

def readU64 (r : Reader) : Out (Nat × Reader) := do
  let (b, r) ← r.readBuf 8
  pure (leNat b, r)

def readU32 (r : Reader) : Out (Nat × Reader) := do
  let (b, r) ← r.readBuf 4
  pure (leNat b, r)

/-- `for _ in 0..changed_count { read_buf::<32> }` -/
def readNodes : (count : Nat) → Reader → Out (List Bytes × Reader)
  | 0, r => .ok ([], r)
  | c + 1, r => do
    let (n, r) ← r.readBuf 32
    let (ns, r) ← readNodes c r
    pure (n :: ns, r)

/-- `read_entry`: `none` = the END tag -/
def readEntry (r : Reader) : Out (Option Entry × Reader) := do
  let (tag, r) ← r.readByte
  if tag = WAL_ENTRY_TAG_END then pure (none, r)
  else if tag = WAL_ENTRY_TAG_CLEAR then do
    let (bucket, r) ← r.readU64
    pure (some (.clear bucket), r)
  else if tag = WAL_ENTRY_TAG_UPDATE then do
    let (pid, r) ← r.readBuf 32
    let (db, r) ← r.readBuf 16
    match PageDiff.fromBytes db with
    | none => .err .badDiff
    | some d =>
      let (nodes, r) ← readNodes d.count r
      let (el, r) ← r.readBuf 8
      let (bucket, r) ← r.readU64
      pure (some (.update pid d nodes (leNat el) bucket), r)
  else .err (.badTag tag.toNat)

/-- `read_start` -/
def readStart (r : Reader) : Out Reader := do
  let (tag, r) ← r.readByte
  if tag = WAL_ENTRY_TAG_START then do
    let (s, r) ← r.readU32
    pure { r with seqn := s }
  else .err (.badStart tag.toNat)

/-- `WalBlobReader::new` on a file with the given content -/
def new (file : Array UInt8) : Out Reader :=
  if file.size % PAGE_SIZE ≠ 0 then .err .fileSize else
  readStart { wal := file, offset := 0, seqn := 0 }

/-- `while let Some(entry) = reader.read_entry()? { … }`: the entries up to the END tag, or the entries read before
the first error together with that error.  `fuel`: every call consumes at least one byte, `wal.size + 1` is enough
(`readAll_fuel`) -/
def readLoop : (fuel : Nat) → Reader → List Entry → Out (List Entry) × List Entry
  | 0, _, acc => (.panic "fuel", acc.reverse)
  | f + 1, r, acc =>
    match r.readEntry with
    | .ok (none, _) => (.ok acc.reverse, acc.reverse)
    | .ok (some e, r) => readLoop f r (e :: acc)
    | .err e => (.err e, acc.reverse)
    | .panic s => (.panic s, acc.reverse)

end Reader

/-- result of reading a whole WAL file: the sequence number, the entries delivered, and how the loop ended -/
structure ReadResult where
  seqn : Nat
  entries : List Entry
  /-- `ok` = END tag reached -/
  ending : Out Unit

/-- open the reader and read every entry (what `recover` does when the sequence numbers match) -/
def readAll (file : Array UInt8) : Out ReadResult :=
  match Reader.new file with
  | .ok r =>
    let (res, got) := Reader.readLoop (file.size + 1) r []
    .ok { seqn := r.seqn, entries := got,
          ending := match res with | .ok _ => .ok () | .err e => .err e | .panic s => .panic s }
  | .err e => .err e
  | .panic s => .panic s

end Nomt.Wal
