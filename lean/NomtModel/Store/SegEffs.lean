import NomtModel.Store.SegPrune
/-!
# The directory after `prune_recent` is the directory before it with its effects applied

(for every input, also when it fails half-way: the effects listed are those issued before the failure)
-/
namespace Nomt.Seg

theorem applyEffs_nil (d : Dir) : applyEffs d [] = d := rfl

theorem pruneRecent_dir (L : Log) (d : Dir) (n : Nat) : (pruneRecent L d n).dir = applyEffs d (pruneRecent L d n).effs := by
  unfold pruneRecent removeAll
  by_cases h0 : n = 0
  · simp only [h0, if_true]
  · simp only [h0, if_false]
    by_cases h1 : L.segs.isEmpty = true
    · simp only [h1, if_true, applyEffs_nil]
    · simp only [h1, Bool.false_eq_true, if_false]
      cases (pruneRecentLoop n L.segs.reverse).1.reverse.getLast? with
      | none => rfl
      | some h =>
        simp only
        cases lookup (applyEffs d (List.map FsEff.unlink (pruneRecentLoop n L.segs.reverse).2 ++ [FsEff.dirsync])) h.id with
        | none => rfl
        | some f =>
          simp only
          cases truncateHead f n with
          | error x => rfl
          | ok pos => simp only [applyEffs_append]

end Nomt.Seg
