import NomtModel.Store.WalRedo
import NomtModel.Store.PageDiffPack
import NomtModel.Store.WalReader
/-!
Redo of one update entry on one bucket page (`redoPage` = what `bitbox::recover` writes): byte-by-byte
specification, the entry `prepare_sync` writes for a dirty page (`updateOf`), and

* redo puts the writer's nodes into the slots named by the diff, the writer's label and elided-children bits at the
  end of the page, and keeps every other byte of the bucket;
* hence it reproduces the writer's page exactly when the bucket agreed with it outside the named slots;
* redo is idempotent; redo of two successive entries = redo of the entry with the joined diff.
-/
namespace Nomt.Wal
open PageDiff

/-- the label (page id) stored in a page: its last 32 bytes -/
def labelOf (P : Bytes) : Bytes := slice P (PAGE_SIZE - 32) 32
/-- the elided-children bitfield stored in a page (`u64` LE before the label) -/
def elidedOf (P : Bytes) : Nat := leNat (slice P (PAGE_SIZE - 40) 8)
/-- `pack_changed_nodes`: the slots of `P` named by `d` -/
def packedOf (P : Bytes) (d : PageDiff) : List Bytes := d.ones.map (fun i => slice P (i * 32) 32)

/-- the update entry `prepare_sync` writes for the dirty page `P` (labelled, as `into_frozen_iter` leaves it) with
diff `d` in bucket `bucket`: `write_update(page_id.encode(), &diff, diff.pack_changed_nodes(page), page.elided_children(), bucket)` -/
def updateOf (P : Bytes) (d : PageDiff) (bucket : Nat) : Entry :=
  .update (labelOf P) d (packedOf P d) (elidedOf P) bucket

/-- a diff the reader can deliver: no reserved bit -/
def PageDiff.Plain (d : PageDiff) : Prop := d.changed 126 = false ∧ d.changed 127 = false

theorem ones_bound {d : PageDiff} (hd : PageDiff.Plain d) {i : Nat} (hi : i ∈ d.ones) : i * 32 + 32 ≤ 4032 := by
  have := lt_126_of_mem_ones hd.1 hd.2 hi
  omega

/-- SPEC of `redoPage`, byte by byte -/
theorem redoPage_char {old pid : Bytes} {d : PageDiff} {ns : List Bytes} {el : Nat}
    (hold : old.length = PAGE_SIZE) (hd : PageDiff.Plain d) (hcount : ns.length = d.count)
    (hn : ∀ n ∈ ns, n.length = 32) (hpid : pid.length = 32) :
    ∃ F, redoPage old pid d ns el = .ok F ∧ F.length = PAGE_SIZE ∧
      (∀ i n, (i, n) ∈ d.ones.zip ns → ∀ j, j < 32 → F[i * 32 + j]? = n[j]?) ∧
      (∀ j, j < 32 → F[4064 + j]? = pid[j]?) ∧
      (∀ j, j < 8 → F[4056 + j]? = (leBytes 8 el)[j]?) ∧
      (∀ o, o < 4056 → o / 32 ∉ d.ones → F[o]? = old[o]?) := by
  have hP : PAGE_SIZE = 4096 := rfl
  obtain ⟨R, h1, h2, h3, h4⟩ := unpack_char (d := d) (ns := ns) (Q := old) hd.2 hcount hn
    (fun i hi => by have := ones_bound hd hi; omega)
  have hR : R.length = 4096 := by omega
  have hw1 : (PAGE_SIZE - 32) + pid.length ≤ R.length := by omega
  have hW1 : (writeAt R (PAGE_SIZE - 32) pid).length = 4096 := by rw [writeAt_length hw1, hR]
  have hw2 : (PAGE_SIZE - 40) + (leBytes 8 el).length ≤ (writeAt R (PAGE_SIZE - 32) pid).length := by
    rw [hW1, leBytes_length]; omega
  -- every byte of the result
  have hF : ∀ o, (writeAt (writeAt R (PAGE_SIZE - 32) pid) (PAGE_SIZE - 40) (leBytes 8 el))[o]? =
      if o < 4056 then R[o]? else if o < 4064 then (leBytes 8 el)[o - 4056]?
      else if o < 4096 then pid[o - 4064]? else R[o]? := by
    intro o
    rw [getElem?_writeAt hw2, getElem?_writeAt hw1, leBytes_length, hpid, hP]
    by_cases a : o < 4056
    · have : o < 4096 - 32 := by omega
      simp [a, this]
    · by_cases b : o < 4064
      · have : o < 4096 - 40 + 8 := by omega
        have a' : ¬ o < 4096 - 40 := by omega
        simp [a, b, this, a']
      · have b' : ¬ o < 4096 - 40 + 8 := by omega
        have a' : ¬ o < 4096 - 40 := by omega
        have c' : ¬ o < 4096 - 32 := by omega
        by_cases c : o < 4096
        · have : o < 4096 - 32 + 32 := by omega
          simp [a, b, c, a', b', c', this]
        · have : ¬ o < 4096 - 32 + 32 := by omega
          simp [a, b, c, a', b', c', this]
  refine ⟨writeAt (writeAt R (PAGE_SIZE - 32) pid) (PAGE_SIZE - 40) (leBytes 8 el), ?_, ?_, ?_, ?_, ?_, ?_⟩
  · unfold redoPage
    have : ¬ (d.count ≠ ns.length) := by omega
    have hne : ¬ (R.length ≠ PAGE_SIZE) := by rw [hR, hP]; simp
    simp only [this, if_false, h1, hne]
  · rw [writeAt_length hw2, hW1, hP]
  · intro i n hmem j hj
    have hi : i ∈ d.ones := (List.of_mem_zip hmem).1
    have := ones_bound hd hi
    rw [hF]
    have : i * 32 + j < 4056 := by omega
    simp only [this, if_true]
    exact h3 i n hmem j hj
  · intro j hj
    rw [hF]
    have a : ¬ (4064 + j < 4056) := by omega
    have b : ¬ (4064 + j < 4064) := by omega
    have c : 4064 + j < 4096 := by omega
    have e : 4064 + j - 4064 = j := by omega
    rw [if_neg a, if_neg b, if_pos c, e]
  · intro j hj
    rw [hF]
    have a : ¬ (4056 + j < 4056) := by omega
    have b : 4056 + j < 4064 := by omega
    have e : 4056 + j - 4056 = j := by omega
    rw [if_neg a, if_pos b, e]
  · intro o ho hnot
    rw [hF]
    simp only [ho, if_true]
    exact h4 o hnot

theorem packedOf_length (P : Bytes) (d : PageDiff) : (packedOf P d).length = d.count := by
  simp [packedOf, count_eq]

theorem packedOf_node_length {P : Bytes} (hP : P.length = PAGE_SIZE) {d : PageDiff} (hd : PageDiff.Plain d) :
    ∀ n ∈ packedOf P d, n.length = 32 := by
  intro n hn
  obtain ⟨i, hi, rfl⟩ := List.mem_map.1 hn
  have := ones_bound hd hi
  exact slice_length (by rw [hP]; unfold PAGE_SIZE; omega)

theorem labelOf_length {P : Bytes} (hP : P.length = PAGE_SIZE) : (labelOf P).length = 32 :=
  slice_length (by rw [hP]; unfold PAGE_SIZE; omega)

/-- the entry written for a page is one the reader delivers unchanged (`Entry.Honest`) -/
theorem updateOf_honest {P : Bytes} (hP : P.length = PAGE_SIZE) {d : PageDiff} (hwf : d.WF) (hd : PageDiff.Plain d)
    {bucket : Nat} (hb : bucket < 2 ^ 64) : (updateOf P d bucket).Honest := by
  refine ⟨labelOf_length hP, hwf, packedOf_node_length hP hd, ?_, hb, packedOf_length P d, hd.1, hd.2⟩
  have := leNat_lt (slice P (PAGE_SIZE - 40) 8)
  rw [slice_length (by rw [hP]; unfold PAGE_SIZE; omega)] at this
  unfold elidedOf
  omega

/-- the bytes of a page at a slot named by the diff, as found in the packed nodes -/
theorem packed_byte {P : Bytes} {d : PageDiff} {i : Nat} {n : Bytes} (h : (i, n) ∈ d.ones.zip (packedOf P d))
    {j : Nat} (hj : j < 32) : n[j]? = P[i * 32 + j]? := by
  have := mem_zip_map_self h
  rw [this, getElem?_slice]
  simp [hj]

theorem elided_byte {P : Bytes} (hP : P.length = PAGE_SIZE) {j : Nat} (hj : j < 8) :
    (leBytes 8 (elidedOf P))[j]? = P[4056 + j]? := by
  have hl : (slice P (PAGE_SIZE - 40) 8).length = 8 := slice_length (by rw [hP]; unfold PAGE_SIZE; omega)
  have := leBytes_leNat (slice P (PAGE_SIZE - 40) 8)
  rw [hl] at this
  unfold elidedOf
  rw [this, getElem?_slice]
  simp [hj, PAGE_SIZE]

theorem label_byte {P : Bytes} {j : Nat} (hj : j < 32) : (labelOf P)[j]? = P[4064 + j]? := by
  unfold labelOf
  rw [getElem?_slice]
  simp [hj, PAGE_SIZE]

/-- **redo reproduces the writer's page**: the entry written for page `P` with diff `d`, applied to a bucket whose
content agrees with `P` on every byte below the elided-children field that lies outside the slots named by `d`,
yields exactly `P` -/
theorem redoPage_reproduces {P old : Bytes} {d : PageDiff} (hP : P.length = PAGE_SIZE) (hold : old.length = PAGE_SIZE)
    (hd : PageDiff.Plain d) (hagree : ∀ o, o < 4056 → o / 32 ∉ d.ones → old[o]? = P[o]?) :
    redoPage old (labelOf P) d (packedOf P d) (elidedOf P) = .ok P := by
  obtain ⟨F, h1, h2, h3, h4, h5, h6⟩ := redoPage_char (el := elidedOf P) hold hd (packedOf_length P d)
    (packedOf_node_length hP hd) (labelOf_length hP)
  rw [h1]
  congr 1
  apply List.ext_getElem?
  intro o
  by_cases a : o < 4056
  · by_cases ho : o / 32 ∈ d.ones
    · obtain ⟨n, hmem⟩ := exists_mem_zip (m := packedOf P d) (by simp [packedOf]) ho
      have hj : o % 32 < 32 := Nat.mod_lt _ (by omega)
      have := h3 _ _ hmem (o % 32) hj
      rw [packed_byte hmem hj] at this
      have e : o / 32 * 32 + o % 32 = o := by omega
      rw [e] at this
      exact this
    · rw [h6 o a ho, hagree o a ho]
  · by_cases b : o < 4064
    · have := h5 (o - 4056) (by omega)
      rw [elided_byte hP (by omega)] at this
      have e : 4056 + (o - 4056) = o := by omega
      rw [e] at this
      exact this
    · by_cases c : o < 4096
      · have := h4 (o - 4064) (by omega)
        rw [label_byte (by omega)] at this
        have e : 4064 + (o - 4064) = o := by omega
        rw [e] at this
        exact this
      · rw [List.getElem?_eq_none (by rw [h2]; unfold PAGE_SIZE; omega),
          List.getElem?_eq_none (by rw [hP]; unfold PAGE_SIZE; omega)]

/-- **redo is idempotent**: applying the same update entry to the page it produced changes nothing -/
theorem redoPage_idem {old pid : Bytes} {d : PageDiff} {ns : List Bytes} {el : Nat} {F : Bytes}
    (hold : old.length = PAGE_SIZE) (hd : PageDiff.Plain d) (hcount : ns.length = d.count)
    (hn : ∀ n ∈ ns, n.length = 32) (hpid : pid.length = 32)
    (h : redoPage old pid d ns el = .ok F) : redoPage F pid d ns el = .ok F := by
  obtain ⟨F1, h1, h2, h3, h4, h5, h6⟩ := redoPage_char (el := el) hold hd hcount hn hpid
  rw [h] at h1
  injection h1 with h1
  subst h1
  obtain ⟨F2, g1, g2, g3, g4, g5, g6⟩ := redoPage_char (old := F) (el := el) h2 hd hcount hn hpid
  rw [g1]
  congr 1
  apply List.ext_getElem?
  intro o
  by_cases a : o < 4056
  · by_cases ho : o / 32 ∈ d.ones
    · obtain ⟨n, hmem⟩ := exists_mem_zip (m := ns) (by rw [hcount, count_eq]) ho
      have hj : o % 32 < 32 := Nat.mod_lt _ (by omega)
      have x := h3 _ _ hmem (o % 32) hj
      have y := g3 _ _ hmem (o % 32) hj
      have e : o / 32 * 32 + o % 32 = o := by omega
      rw [e] at x y
      rw [x, y]
    · exact g6 o a ho
  · by_cases b : o < 4064
    · have x := h5 (o - 4056) (by omega)
      have y := g5 (o - 4056) (by omega)
      have e : 4056 + (o - 4056) = o := by omega
      rw [e] at x y
      rw [x, y]
    · by_cases c : o < 4096
      · have x := h4 (o - 4064) (by omega)
        have y := g4 (o - 4064) (by omega)
        have e : 4064 + (o - 4064) = o := by omega
        rw [e] at x y
        rw [x, y]
      · rw [List.getElem?_eq_none (by rw [g2]; unfold PAGE_SIZE; omega),
          List.getElem?_eq_none (by rw [h2]; unfold PAGE_SIZE; omega)]

theorem mem_ones_join {a b : PageDiff} {i : Nat} : i ∈ (a.join b).ones ↔ i ∈ a.ones ∨ i ∈ b.ones := by
  simp only [mem_ones, changed_join, Bool.or_eq_true]
  constructor
  · rintro ⟨h, h1 | h1⟩
    · exact Or.inl ⟨h, h1⟩
    · exact Or.inr ⟨h, h1⟩
  · rintro (⟨h, h1⟩ | ⟨h, h1⟩)
    · exact ⟨h, Or.inl h1⟩
    · exact ⟨h, Or.inr h1⟩

theorem plain_join {a b : PageDiff} (ha : PageDiff.Plain a) (hb : PageDiff.Plain b) : PageDiff.Plain (a.join b) := by
  unfold PageDiff.Plain
  rw [changed_join, changed_join, ha.1, ha.2, hb.1, hb.2]
  exact ⟨rfl, rfl⟩

/-- **applying two entries in order = applying the entry with the joined diff**: `P1` is the page after the first
change (diff `d1`), `P2` the page after the second one (diff `d2`, so `P2` agrees with `P1` on the slots named by
`d1` but not by `d2`).  Redo of the `d1`-entry of `P1` followed by the `d2`-entry of `P2` is redo of the single entry
of `P2` with `d1.join d2` — what `StackPage::total_diff` relies on -/
theorem redoPage_join {P1 P2 old : Bytes} {d1 d2 : PageDiff}
    (hP1 : P1.length = PAGE_SIZE) (hP2 : P2.length = PAGE_SIZE) (hold : old.length = PAGE_SIZE)
    (h1 : PageDiff.Plain d1) (h2 : PageDiff.Plain d2)
    (hsame : ∀ i, i ∈ d1.ones → i ∉ d2.ones → ∀ j, j < 32 → P1[i * 32 + j]? = P2[i * 32 + j]?) :
    ∃ F1 F2, redoPage old (labelOf P1) d1 (packedOf P1 d1) (elidedOf P1) = .ok F1 ∧
      redoPage F1 (labelOf P2) d2 (packedOf P2 d2) (elidedOf P2) = .ok F2 ∧
      redoPage old (labelOf P2) (d1.join d2) (packedOf P2 (d1.join d2)) (elidedOf P2) = .ok F2 := by
  have h12 := plain_join h1 h2
  obtain ⟨F1, a1, a2, a3, a4, a5, a6⟩ := redoPage_char (el := elidedOf P1) hold h1 (packedOf_length P1 d1)
    (packedOf_node_length hP1 h1) (labelOf_length hP1)
  obtain ⟨F2, b1, b2, b3, b4, b5, b6⟩ := redoPage_char (old := F1) (el := elidedOf P2) a2 h2 (packedOf_length P2 d2)
    (packedOf_node_length hP2 h2) (labelOf_length hP2)
  obtain ⟨F3, c1, c2, c3, c4, c5, c6⟩ := redoPage_char (el := elidedOf P2) hold h12 (packedOf_length P2 (d1.join d2))
    (packedOf_node_length hP2 h12) (labelOf_length hP2)
  refine ⟨F1, F2, a1, b1, ?_⟩
  rw [c1]
  congr 1
  apply List.ext_getElem?
  intro o
  have hj : o % 32 < 32 := Nat.mod_lt _ (by omega)
  have e : o / 32 * 32 + o % 32 = o := by omega
  by_cases a : o < 4056
  · by_cases ho2 : o / 32 ∈ d2.ones
    · -- named by the second diff: the second page's bytes on both sides
      obtain ⟨n, hmem⟩ := exists_mem_zip (m := packedOf P2 d2) (by simp [packedOf]) ho2
      obtain ⟨m, hmem'⟩ := exists_mem_zip (l := (d1.join d2).ones) (m := packedOf P2 (d1.join d2)) (by simp [packedOf])
        (mem_ones_join.2 (Or.inr ho2))
      have x := b3 _ _ hmem (o % 32) hj
      have y := c3 _ _ hmem' (o % 32) hj
      rw [packed_byte hmem hj] at x
      rw [packed_byte hmem' hj] at y
      rw [e] at x y
      rw [x, y]
    · by_cases ho1 : o / 32 ∈ d1.ones
      · obtain ⟨n, hmem⟩ := exists_mem_zip (m := packedOf P1 d1) (by simp [packedOf]) ho1
        obtain ⟨m, hmem'⟩ := exists_mem_zip (l := (d1.join d2).ones) (m := packedOf P2 (d1.join d2)) (by simp [packedOf])
          (mem_ones_join.2 (Or.inl ho1))
        have x := a3 _ _ hmem (o % 32) hj
        have y := c3 _ _ hmem' (o % 32) hj
        rw [packed_byte hmem hj] at x
        rw [packed_byte hmem' hj] at y
        have z := hsame _ ho1 ho2 (o % 32) hj
        rw [e] at x y z
        rw [y, b6 o a ho2, x, z]
      · have : o / 32 ∉ (d1.join d2).ones := fun h => (mem_ones_join.1 h).elim ho1 ho2
        rw [c6 o a this, b6 o a ho2, a6 o a ho1]
  · by_cases b : o < 4064
    · have x := b5 (o - 4056) (by omega)
      have y := c5 (o - 4056) (by omega)
      have e : 4056 + (o - 4056) = o := by omega
      rw [e] at x y
      rw [x, y]
    · by_cases c : o < 4096
      · have x := b4 (o - 4064) (by omega)
        have y := c4 (o - 4064) (by omega)
        have e : 4064 + (o - 4064) = o := by omega
        rw [e] at x y
        rw [x, y]
      · rw [List.getElem?_eq_none (by rw [c2]; unfold PAGE_SIZE; omega),
          List.getElem?_eq_none (by rw [b2]; unfold PAGE_SIZE; omega)]

end Nomt.Wal
