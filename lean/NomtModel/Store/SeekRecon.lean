import NomtModel.Store.Seek
import NomtModel.Core.TriePosPage
import NomtModel.Core.Sound
/-!
# The specification of `page_walker::reconstruct_pages` that `seek.rs` relies on

`page_walker.rs` is not mirrored in this unit (`Store/Walker*.lean` is).  What `continue_leaves_fetch` needs from
`reconstruct_pages(page, page_id, position, page_set, leaves)` + the `page_set.insert` loop after it is written down
here as an executable specification (`reconSpec`), which the driver runs in place of the real function and which
`Store/SeekInv.lean` proves to satisfy the contract `ReconOK` the theorems assume:

* if the first elided page (the child of `page_id` below `position`) is already in the working map: nothing happens
  (`reconstruct` returns `None`);
* otherwise the sub-trie is rebuilt from the leaves: its root must be the node the parent page holds at `position`
  (`assert_eq!(root, subtree_root)`), and the child page and every page below it whose parent node is internal are put
  into the page set as `Reconstructed`; every slot reachable from the top of such a page through internal nodes holds the
  specified node `nodeAt` of the leaves below it (unreachable slots hold whatever the page pool left there: here the
  terminator).
-/
namespace Nomt.Seek
open Nomt Nomt.TriePos

variable {Node VH : Type}

/-- the leaves below a bit path -/
def under (bs : List Bool) (s : List (Key × VH)) : List (Key × VH) := restrict 0 bs s

/-- the specified node at a bit path, for keys of 256 bits -/
def specNode (H : Hasher Node VH) (s : List (Key × VH)) (bs : List Bool) : Node :=
  nodeAt H (KEY_BITS - bs.length) bs.length (under bs s)

/-- every proper prefix of `l` (below the page top `pre`) is an internal node -/
def reachable (s : List (Key × VH)) (pre : List Bool) (l : List Bool) : Bool :=
  (List.range l.length).all (fun j => 2 ≤ (under (pre ++ l.take j) s).length)

/-- the page with id `p` of the trie of `s` (the node above it is internal) -/
def specPageOf (H : Hasher Node VH) (s : List (Key × VH)) (p : PageId) : MPage Node :=
  { nodes := fun i =>
      let l := idxBits 6 i
      if reachable s (pidBits p) l then specNode H s (pidBits p ++ l) else H.term
    -- `handle_elision_threshold` flags the child pages it does not keep; the seek never depends on the bits of a
    -- reconstructed page (the children are in the page set): all set here
    elided := 2 ^ 64 - 1 }

/-- the page `p` and every page below it whose parent node is internal -/
def specPagesBelow (H : Hasher Node VH) (s : List (Key × VH)) : Nat → PageId → List (PageId × MPage Node × Origin)
  | 0, _ => []
  | fuel + 1, p =>
    if (under (pidBits p) s).length < 2 then [] else
    (p, specPageOf H s p, .reconstructed) ::
      (List.range 64).flatMap (fun c => specPagesBelow H s fuel (p ++ [c]))

/-- `reconstruct_pages` + the insert loop of `continue_leaves_fetch`, specified -/
def reconSpec [DecidableEq Node] (H : Hasher Node VH) :
    MPage Node → PageId → Pos → PageSet Node → List (Key × VH) → Outcome Unit (PageSet Node) :=
  fun page pid pos ps leaves =>
    match page.node pos.nodeIndex with
    | none => .panic "page.node: index"
    | some subtreeRoot =>
      match pos.childPageIndex with
      | none => .panic "child_page_index"
      | some c =>
        match childPageId pid c with
        | .error _ => .panic "child_page_id unwrap"
        | .ok child =>
          if ps.contains child then .ok ps else
          if specNode H leaves pos.path ≠ subtreeRoot then .panic "assert_eq!(root, subtree_root)" else
          .ok { ps with map := specPagesBelow H leaves (MAX_PAGE_DEPTH + 1 - child.length) child ++ ps.map }

end Nomt.Seek
